import PycsepVerif.Proofs.Quadtree
import PycsepVerif.Proofs.QuadtreeLon

/-!
# C17 — quadtree grids tile the globe and locate points in their containing tile

Theorems about `Model/Quadtree.lean` (model of csep/core/regions.py `_create_tile`, `_create_tile_fix_len`,
`QuadtreeGrid2D._find_location`, `get_cell_area`, and of mercantile's quadkey → tile → bounds map).

Points live in the unit square (x eastward, y SOUTHWARD).  `InTile k p` is the library's half-open test
`lon ≥ west ∧ lat ≥ south ∧ lon < east ∧ lat < north` (theorem `geo_membership`, for EVERY strictly decreasing
latitude function, Web-Mercator being one).  The whole grid covers `InTile [] p`, i.e. x ∈ [0,1), y ∈ (0,1]:
longitudes [-180,180) and latitudes [latOf 1, latOf 0) = [-85.05…, 85.05…).
All statements hold for every key (any depth), every catalog (any list of points), every threshold and zoom.
-/
namespace Quadtree

/-! ## the library's lon/lat test is `InTile` -/

/-- regions.py:938 / :1079 with bounds from mercantile: for any strictly decreasing `latOf`, the test on
    (lon, lat) = (lonOf x, latOf y) against (west, south, east, north) = (lonW, latOf yS, lonE, latOf yN)
    is exactly `InTile`. -/
theorem geo_membership {L : Type} [LinearOrder L] (latOf : Rat → L) (hl : StrictAnti latOf) (k : Key) (p : Pt) :
    (lonW k ≤ lonOf p.x ∧ latOf (yS k) ≤ latOf p.y ∧ lonOf p.x < lonE k ∧ latOf p.y < latOf (yN k)) ↔ InTile k p := by
  have hs := scale_pos k
  unfold InTile lonW lonE lonOf xW xE yN yS
  rw [hl.le_iff_ge, hl.lt_iff_gt, div_lt_iff₀ hs, le_div_iff₀ hs]
  constructor
  · rintro ⟨h1, h2, h3, h4⟩
    refine ⟨?_, ?_, h4, h2⟩
    · have : (tileX k : Rat) / scale k ≤ p.x := by linarith
      exact (div_le_iff₀ hs).mp this
    · have : p.x < ((tileX k : Rat) + 1) / scale k := by linarith
      exact (lt_div_iff₀ hs).mp this
  · rintro ⟨h1, h2, h3, h4⟩
    have a1 : (tileX k : Rat) / scale k ≤ p.x := (div_le_iff₀ hs).mpr h1
    have a2 : p.x < ((tileX k : Rat) + 1) / scale k := (lt_div_iff₀ hs).mpr h2
    exact ⟨by linarith, h4, by linarith, h3⟩

/-- float layer: for every zoom ≤ 10 and every column edge X ≤ 2^z, mercantile's binary64 computation
    `X / 2^z * 360.0 - 180.0` (Soft64 model) is EXACTLY `lonOf (X / 2^z)`: the longitude bounds the library compares
    against are the exact dyadic edges of the model (deeper grids: checked by the harness on every tile). -/
theorem lon_bounds_exact (z X : Nat) (hz : z ≤ 10) (hX : X ≤ 2 ^ z) :
    lonFloat X z = lonOf ((X : Rat) / ((2 ^ z : Nat) : Rat)) := by
  have h := lonExactUpTo_10
  unfold lonExactUpTo at h
  rw [List.all_eq_true] at h
  have h1 := h z (List.mem_range.mpr (by omega))
  rw [List.all_eq_true] at h1
  have h2 := h1 X (List.mem_range.mpr (by omega))
  exact eq_of_beq h2

/-- the covered domain: the root square is lon ∈ [-180, 180), y ∈ (0, 1] -/
theorem root_domain (p : Pt) : InTile [] p ↔ (-180 ≤ lonOf p.x ∧ lonOf p.x < 180) ∧ (0 < p.y ∧ p.y ≤ 1) := by
  rw [inTile_nil_iff]; unfold lonOf
  constructor
  · rintro ⟨⟨a, b⟩, c⟩; exact ⟨⟨by linarith, by linarith⟩, c⟩
  · rintro ⟨⟨a, b⟩, c⟩; exact ⟨⟨by linarith, by linarith⟩, c⟩

/-! ## four children partition their parent -/

/-- C17: the four children of a tile are pairwise disjoint and together cover exactly the parent. -/
theorem children_partition (k : Key) (p : Pt) :
    (∀ d, InTile (child k d) p → InTile k p) ∧
    (InTile k p → ∃! d, InTile (child k d) p) ∧
    (∀ d e, InTile (child k d) p → InTile (child k e) p → d = e) := by
  refine ⟨fun d h => inTile_parent h, ?_, ?_⟩
  · intro h
    exact ⟨digitAt k p, (inTile_child_iff k _ p).mpr ⟨h, rfl⟩, fun e he => ((inTile_child_iff k e p).mp he).2⟩
  · intro d e hd he
    rw [((inTile_child_iff k d p).mp hd).2, ((inTile_child_iff k e p).mp he).2]

/-- half-open ownership makes counts additive: a tile's event count is the sum of its children's (any catalog) -/
theorem counts_add (pts : List Pt) (k : Key) :
    count pts k = count pts (child k 0) + count pts (child k 1) + count pts (child k 2) + count pts (child k 3) := by
  unfold count
  induction pts with
  | nil => rfl
  | cons p ps ih =>
    simp only [List.countP_cons, ih]
    have h := ind_children k p
    unfold ind at h
    simp only [inTile, decide_eq_true_eq]
    omega

/-! ## single resolution -/

/-- C17: at every zoom z (unbounded) a point of the covered domain lies in exactly one tile of
    `from_single_resolution(z)`, a point outside lies in none. -/
theorem single_resolution_partition (z : Nat) (p : Pt) :
    (singleRes z).countP (fun k => inTile k p) = if InTile [] p then 1 else 0 := by
  unfold singleRes roots
  simp only [List.flatMap_cons, List.flatMap_nil, List.append_nil, List.countP_append, fixLen_eq, refine_countP]
  exact ind_roots p

/-- … hence there is a unique key in the list containing it, and tiles are pairwise disjoint. -/
theorem single_resolution_unique (z : Nat) (p : Pt) (hp : InTile [] p) :
    ∃! k, k ∈ singleRes z ∧ InTile k p := by
  have h := single_resolution_partition z p
  rw [if_pos hp] at h
  have hpos : 0 < (singleRes z).countP (fun k => inTile k p) := by omega
  obtain ⟨k, hk, hin⟩ := List.countP_pos_iff.mp hpos
  refine ⟨k, ⟨hk, by simpa using hin⟩, ?_⟩
  rintro k' ⟨hk', hin'⟩
  -- all keys of the list have the same length, two same-length tiles sharing a point are equal
  have hlen : ∀ l ∈ singleRes z, l.length = max z 1 := by
    intro l hl
    unfold singleRes roots at hl
    simp only [List.flatMap_cons, List.flatMap_nil, List.append_nil, List.mem_append] at hl
    by_cases hz : z = 0
    · subst hz; simp [fixLen] at hl; rcases hl with rfl | rfl | rfl | rfl <;> rfl
    · have hm : max z 1 = z := by omega
      rw [hm]
      rcases hl with hl | hl | hl | hl <;>
        exact (fixLen_spec z (z - 1) _ (by simp; omega) (by simp; omega)).1 l hl
  have hin2 : InTile k p := by simpa using hin
  have e1 := prefix_of_common_point hin' hin2 (by rw [hlen _ hk', hlen _ hk])
  exact List.IsPrefix.eq_of_length e1 (by rw [hlen _ hk', hlen _ hk])

theorem single_resolution_disjoint (z : Nat) (p : Pt) :
    (singleRes z).Pairwise (fun a b => ¬ (InTile a p ∧ InTile b p)) := by
  have h := single_resolution_partition z p
  have := pairwise_of_countP_le_one (fun k => inTile k p) (singleRes z) (by rw [h]; split <;> omega)
  simpa using this

/-- the zoom-z grid has 4^z tiles, all of depth z (z ≥ 1) -/
theorem single_resolution_size (z : Nat) (hz : 1 ≤ z) :
    (singleRes z).length = 4 ^ z ∧ ∀ k ∈ singleRes z, k.length = z := by
  unfold singleRes roots
  simp only [List.flatMap_cons, List.flatMap_nil, List.append_nil, List.length_append, List.mem_append]
  have h := fun (d : Digit) => fixLen_spec z (z - 1) [d] (by simp; omega) (by simp; omega)
  refine ⟨?_, ?_⟩
  · rw [(h 0).2, (h 1).2, (h 2).2, (h 3).2]
    simp only [List.length_cons, List.length_nil]
    have : z = (z - (0 + 1)) + 1 := by omega
    conv => rhs; rw [this, pow_succ]
    omega
  · rintro k (hk | hk | hk | hk)
    exacts [(h 0).1 k hk, (h 1).1 k hk, (h 2).1 k hk, (h 3).1 k hk]

/-! ## catalog-driven refinement -/

/-- C17: the leaves of `_create_tile` started at any tile `k` partition `k`: every point is in exactly one leaf
    if it is in `k`, in none otherwise — for every catalog, threshold, zoom and recursion depth. -/
theorem refine_partition (thr zoom : Nat) (pts : List Pt) (fuel : Nat) (k : Key) (p : Pt) :
    (createTile thr zoom pts fuel k).countP (fun l => inTile l.1 p) = if InTile k p then 1 else 0 := by
  have h := refine_countP (fun k => decide (count pts k > thr ∧ k.length < zoom)) fuel k p
  rw [← createTile_keys, List.countP_map] at h
  exact h

/-- C17: `from_catalog` grids partition the covered domain. -/
theorem from_catalog_partition (thr zoom : Nat) (pts : List Pt) (p : Pt) :
    (fromCatalog thr zoom pts).countP (fun l => inTile l.1 p) = if InTile [] p then 1 else 0 := by
  unfold fromCatalog roots
  simp only [List.flatMap_cons, List.flatMap_nil, List.append_nil, List.countP_append, refine_partition]
  exact ind_roots p

theorem from_catalog_disjoint (thr zoom : Nat) (pts : List Pt) (p : Pt) :
    (fromCatalog thr zoom pts).Pairwise (fun a b => ¬ (InTile a.1 p ∧ InTile b.1 p)) := by
  have h := from_catalog_partition thr zoom pts p
  have := pairwise_of_countP_le_one (fun l : Key × Nat => inTile l.1 p) _ (by rw [h]; split <;> omega)
  simpa using this

/-- the recorded `num` is the event count of the leaf, and the leaf counts add up to the count of the start tile
    (no event of the start tile is lost or counted twice) -/
theorem refine_counts (thr zoom : Nat) (pts : List Pt) (fuel : Nat) (k : Key) :
    (∀ l n, (l, n) ∈ createTile thr zoom pts fuel k → n = count pts l) ∧
    ((createTile thr zoom pts fuel k).map Prod.snd).sum = count pts k := by
  refine ⟨fun l n h => createTile_count h, ?_⟩
  induction fuel generalizing k with
  | zero => simp [createTile]
  | succ m ih =>
    unfold createTile
    split
    · simp only [List.map_append, List.sum_append, ih]; exact (counts_add pts k).symm
    · simp

/-- C17: a leaf holds at most `threshold` events unless it is at the maximum zoom. -/
theorem refine_leaf_bound (thr zoom : Nat) (pts : List Pt) :
    ∀ (fuel : Nat) (k : Key), k.length ≤ zoom → zoom ≤ k.length + fuel →
      ∀ l n, (l, n) ∈ createTile thr zoom pts fuel k → n = count pts l ∧ (n ≤ thr ∨ l.length = zoom)
  | 0, k, h1, h2, l, n, h => by
    simp [createTile] at h
    obtain ⟨rfl, rfl⟩ := h
    exact ⟨rfl, Or.inr (by omega)⟩
  | fuel + 1, k, h1, h2, l, n, h => by
    unfold createTile at h
    split at h
    · rename_i hc
      simp only [List.mem_append] at h
      rcases h with ((h | h) | h) | h <;>
        exact refine_leaf_bound thr zoom pts fuel _ (by simp [length_child]; omega) (by simp [length_child]; omega) l n h
    · rename_i hc
      simp at h
      obtain ⟨rfl, rfl⟩ := h
      refine ⟨rfl, ?_⟩
      by_cases hz : l.length < zoom
      · left; have : ¬ count pts l > thr := fun hgt => hc ⟨hgt, hz⟩
        omega
      · right; omega

/-- `from_catalog(catalog, threshold, zoom)` with zoom ≥ 1: every cell has count ≤ threshold or depth = zoom -/
theorem from_catalog_leaf_bound (thr zoom : Nat) (hz : 1 ≤ zoom) (pts : List Pt) (l : Key) (n : Nat)
    (h : (l, n) ∈ fromCatalog thr zoom pts) : n = count pts l ∧ (n ≤ thr ∨ l.length = zoom) := by
  unfold fromCatalog roots at h
  simp only [List.flatMap_cons, List.flatMap_nil, List.append_nil, List.mem_append] at h
  rcases h with h | h | h | h <;>
    exact refine_leaf_bound thr zoom pts (zoom - 1) _ (by simp; omega) (by simp; omega) l n h

/-- C17: no needless split. Every strict ancestor `q` of a leaf (between the start tile and the leaf) held more
    than `threshold` events and was above the maximum zoom. -/
theorem refine_no_needless_split (thr zoom : Nat) (pts : List Pt) :
    ∀ (fuel : Nat) (k l : Key) (n : Nat), (l, n) ∈ createTile thr zoom pts fuel k →
      ∀ q, k <+: q → q <+: l → q ≠ l → count pts q > thr ∧ q.length < zoom
  | 0, k, l, n, h, q, hkq, hql, hne => by
    simp [createTile] at h
    obtain ⟨rfl, rfl⟩ := h
    exact absurd (List.IsPrefix.eq_of_length hql (Nat.le_antisymm hql.length_le hkq.length_le)) hne
  | fuel + 1, k, l, n, h, q, hkq, hql, hne => by
    unfold createTile at h
    split at h
    · rename_i hc
      by_cases hq : q = k
      · subst hq; exact hc
      · -- q extends k by at least one digit, and that digit is the one on the way to l
        have hlt : k.length < q.length := by
          rcases Nat.lt_or_ge k.length q.length with h' | h'
          · exact h'
          · exact absurd (List.IsPrefix.eq_of_length hkq (by have := hkq.length_le; omega)).symm hq
        have key : ∀ d, (l, n) ∈ createTile thr zoom pts fuel (child k d) → child k d <+: q := by
          intro d hd
          have hmem : l ∈ refine (fun k => decide (count pts k > thr ∧ k.length < zoom)) fuel (child k d) := by
            rw [← createTile_keys]; exact List.mem_map.mpr ⟨(l, n), hd, rfl⟩
          have h1 : child k d <+: l := refine_prefix hmem
          exact List.prefix_of_prefix_length_le h1 hql (by simp [length_child]; omega)
        simp only [List.mem_append] at h
        rcases h with ((h | h) | h) | h <;>
          exact refine_no_needless_split thr zoom pts fuel _ l n h q (key _ h) hql hne
    · simp at h
      obtain ⟨rfl, rfl⟩ := h
      exact absurd (List.IsPrefix.eq_of_length hql (Nat.le_antisymm hql.length_le hkq.length_le)) hne

/-- the split nodes recorded by the recursion all satisfied the split criterion -/
theorem split_nodes_criterion (thr zoom : Nat) (pts : List Pt) :
    ∀ (fuel : Nat) (k q : Key), q ∈ splitNodes thr zoom pts fuel k → count pts q > thr ∧ q.length < zoom
  | 0, k, q, h => by simp [splitNodes] at h
  | fuel + 1, k, q, h => by
    unfold splitNodes at h
    split at h
    · rename_i hc
      simp only [List.mem_cons, List.mem_append] at h
      rcases h with rfl | ((h | h) | h) | h
      · exact hc
      all_goals exact split_nodes_criterion thr zoom pts fuel _ q h
    · simp at h

/-- the model's fuel is not a restriction: any fuel ≥ zoom − depth gives the same leaves -/
theorem fuel_irrelevant (thr zoom : Nat) (pts : List Pt) (fuel : Nat) (k : Key) (h : zoom ≤ k.length + fuel) :
    createTile thr zoom pts (fuel + 1) k = createTile thr zoom pts fuel k :=
  createTile_fuel thr zoom pts fuel k h

/-! ## point location -/

/-- C17: `_find_location` returns the FIRST listed cell containing the point; `none` iff no cell contains it;
    and when the key set is prefix-free (as for every grid the constructors make) at most one cell contains the
    point, so the returned cell is THE containing cell. -/
theorem locate_spec (cells : List Key) (p : Pt) :
    (∀ i, findLocation cells p = some i →
        ∃ h : i < cells.length, InTile cells[i] p ∧ ∀ j (hj : j < i), ¬ InTile (cells[j]'(by omega)) p) ∧
    (findLocation cells p = none ↔ ∀ k ∈ cells, ¬ InTile k p) ∧
    (prefixFree cells → ∀ i (h : i < cells.length), InTile cells[i] p → findLocation cells p = some i) := by
  refine ⟨?_, ?_, ?_⟩
  · intro i hi
    unfold findLocation at hi
    rw [List.findIdx?_eq_some_iff_getElem] at hi
    obtain ⟨hlt, hin, hfirst⟩ := hi
    refine ⟨hlt, by simpa using hin, ?_⟩
    intro j hj; have := hfirst j hj; simpa using this
  · unfold findLocation
    rw [List.findIdx?_eq_none_iff]; simp only [inTile, decide_eq_false_iff_not]
  · intro hpf i hi hin
    unfold findLocation
    rw [List.findIdx?_eq_some_iff_getElem]
    refine ⟨hi, by simpa using hin, ?_⟩
    intro j hj
    simp only [inTile_eq_true_iff]
    intro hjn
    have hpair := (List.pairwise_iff_getElem.mp hpf) j i (by omega) hi hj
    rcases Nat.le_total (cells[j]'(by omega)).length (cells[i]).length with hl | hl
    · exact hpair.1 (prefix_of_common_point hjn hin hl)
    · exact hpair.2 (prefix_of_common_point hin hjn hl)

/-- two cells containing a common point are nested (one quadkey is a prefix of the other) -/
theorem overlap_iff_nested {a b : Key} {p : Pt} (ha : InTile a p) (hb : InTile b p) : a <+: b ∨ b <+: a := by
  rcases Nat.le_total a.length b.length with h | h
  · exact Or.inl (prefix_of_common_point ha hb h)
  · exact Or.inr (prefix_of_common_point hb ha h)

/-- `get_index_of` on arrays silently drops points that are in no cell: the result has one entry per located point -/
theorem get_index_of_length (cells : List Key) (ps : List Pt) :
    (getIndexOf cells ps).length = ps.countP (fun p => (findLocation cells p).isSome) := by
  unfold getIndexOf
  induction ps with
  | nil => rfl
  | cons p ps ih =>
    rw [List.filterMap_cons, List.countP_cons]
    cases h : findLocation cells p <;> simp [ih]

/-! ## corners and edges -/

/-- C17: a tile owns its south-west corner and its west and south edges; it owns no point of its east edge and no
    point of its north edge (these belong to the neighbours). -/
theorem corner_ownership (k : Key) :
    InTile k ⟨xW k, yS k⟩ ∧
    (∀ y, ¬ InTile k ⟨xE k, y⟩) ∧ (∀ x, ¬ InTile k ⟨x, yN k⟩) ∧
    (∀ y, yN k < y → y ≤ yS k → InTile k ⟨xW k, y⟩) ∧ (∀ x, xW k ≤ x → x < xE k → InTile k ⟨x, yS k⟩) := by
  have hs := scale_pos k
  have hne := hs.ne'
  have e1 : xW k * scale k = tileX k := by unfold xW; field_simp
  have e2 : xE k * scale k = (tileX k : Rat) + 1 := by unfold xE; field_simp
  have e3 : yN k * scale k = tileY k := by unfold yN; field_simp
  have e4 : yS k * scale k = (tileY k : Rat) + 1 := by unfold yS; field_simp
  refine ⟨?_, ?_, ?_, ?_, ?_⟩
  · unfold InTile; simp only [e1, e4]; refine ⟨le_refl _, by linarith, by linarith, le_refl _⟩
  · intro y h; unfold InTile at h; simp only [e2] at h; linarith [h.2.1]
  · intro x h; unfold InTile at h; simp only [e3] at h; linarith [h.2.2.1]
  · intro y h1 h2; unfold InTile; simp only [e1]
    refine ⟨le_refl _, by linarith, ?_, ?_⟩
    · rw [← e3]; exact mul_lt_mul_of_pos_right h1 hs
    · rw [← e4]; exact mul_le_mul_of_nonneg_right h2 hs.le
  · intro x h1 h2; unfold InTile; simp only [e4]
    refine ⟨?_, ?_, by linarith, le_refl _⟩
    · rw [← e1]; exact mul_le_mul_of_nonneg_right h1 hs.le
    · rw [← e2]; exact mul_lt_mul_of_pos_right h2 hs

/-! ## the grids the constructors make are prefix-free, so location is unambiguous on them -/

/-- a list in which every point hits at most one entry has no two nested (or equal) keys -/
theorem prefix_free_of_partition (cells : List Key)
    (h : ∀ p, cells.countP (fun k => inTile k p) ≤ 1) : prefixFree cells := by
  unfold prefixFree
  induction cells with
  | nil => exact List.Pairwise.nil
  | cons a l ih =>
    rw [List.pairwise_cons]
    refine ⟨?_, ih (fun p => by have := h p; rw [List.countP_cons] at this; omega)⟩
    intro b hb
    -- a point of the deeper tile (its south-west corner) would be counted twice
    have key : ∀ c d : Key, c <+: d → InTile c ⟨xW d, yS d⟩ ∧ InTile d ⟨xW d, yS d⟩ :=
      fun c d hcd => ⟨inTile_of_prefix hcd (corner_ownership d).1, (corner_ownership d).1⟩
    have two : ∀ p, InTile a p → InTile b p → False := by
      intro p ha hbp
      have hle := h p
      rw [List.countP_cons] at hle
      have hpos : 0 < l.countP (fun k => inTile k p) := List.countP_pos_iff.mpr ⟨b, hb, by simpa using hbp⟩
      have hat : inTile a p = true := by simpa using ha
      rw [if_pos hat] at hle; omega
    exact ⟨fun hab => two _ (key a b hab).1 (key a b hab).2, fun hba => two _ (key b a hba).2 (key b a hba).1⟩

/-- C17: the cells of every `from_catalog` grid are prefix-free … -/
theorem from_catalog_prefix_free (thr zoom : Nat) (pts : List Pt) :
    prefixFree ((fromCatalog thr zoom pts).map Prod.fst) := by
  apply prefix_free_of_partition
  intro p
  have h := from_catalog_partition thr zoom pts p
  rw [List.countP_map]
  have : ((fun k => inTile k p) ∘ Prod.fst) = (fun l : Key × Nat => inTile l.1 p) := rfl
  rw [this, h]; split <;> omega

/-- … as are those of every single-resolution grid. -/
theorem single_resolution_prefix_free (z : Nat) : prefixFree (singleRes z) := by
  apply prefix_free_of_partition
  intro p; rw [single_resolution_partition]; split <;> omega

/-- C17: on a `from_catalog` grid `_find_location` finds a cell exactly for the points of the covered domain, and
    the cell found is the only one containing the point. -/
theorem from_catalog_locate (thr zoom : Nat) (pts : List Pt) (p : Pt) :
    let cells := (fromCatalog thr zoom pts).map Prod.fst
    (findLocation cells p = none ↔ ¬ InTile [] p) ∧
    (∀ i, findLocation cells p = some i → ∀ j (hj : j < cells.length), InTile cells[j] p → j = i) := by
  intro cells
  have hpf : prefixFree cells := from_catalog_prefix_free thr zoom pts
  have hcount : cells.countP (fun k => inTile k p) = if InTile [] p then 1 else 0 := by
    have h := from_catalog_partition thr zoom pts p
    rw [List.countP_map]; exact h
  refine ⟨?_, ?_⟩
  · rw [(locate_spec cells p).2.1]
    constructor
    · intro hnone hin
      rw [if_pos hin] at hcount
      have hpos : 0 < cells.countP (fun k => inTile k p) := by omega
      obtain ⟨k, hk, hkp⟩ := List.countP_pos_iff.mp hpos
      exact hnone k hk (by simpa using hkp)
    · intro hout k hk hkp
      exact hout (inTile_of_prefix List.nil_prefix hkp)
  · intro i hi j hj hjn
    have := (locate_spec cells p).2.2 hpf j hj hjn
    rw [hi] at this; exact (Option.some.inj this).symm

/-- the zoom-z grid lists EVERY quadkey of length z (z ≥ 1): nothing is missing -/
theorem single_resolution_complete (z : Nat) (hz : 1 ≤ z) (k : Key) (hk : k.length = z) : k ∈ singleRes z := by
  have hin := (corner_ownership k).1
  have hroot : InTile [] ⟨xW k, yS k⟩ := inTile_of_prefix List.nil_prefix hin
  obtain ⟨k', ⟨hk', hin'⟩, _⟩ := single_resolution_unique z _ hroot
  have hlen := (single_resolution_size z hz).2 k' hk'
  have e := prefix_of_common_point hin' hin (by omega)
  have : k' = k := List.IsPrefix.eq_of_length e (by omega)
  exact this ▸ hk'

/-! ## areas -/
section Area
variable {F : Type} [Field F] [CharZero F]

/-- C17: with `s = sin ∘ latOf` ANY function and c = 2πR², a parent's area is the sum of its children's areas. -/
theorem area_additive (c : F) (s : Rat → F) (k : Key) :
    area c s k = area c s (child k 0) + area c s (child k 1) + area c s (child k 2) + area c s (child k 3) :=
  (area_children c s k).symm

/-- … hence the cell areas of every `from_catalog` grid add up to the band area c·(s 0 − s 1)
    (= 2πR²·(sin latmax − sin(−latmax)) = 4πR² sin latmax for Web-Mercator). -/
theorem area_from_catalog (c : F) (s : Rat → F) (thr zoom : Nat) (pts : List Pt) :
    ((fromCatalog thr zoom pts).map (fun l => area c s l.1)).sum = c * (s 0 - s 1) := by
  have hk := fun r => createTile_keys thr zoom pts (zoom - 1) r
  have hr := fun r => area_refine c s (fun k => decide (count pts k > thr ∧ k.length < zoom)) (zoom - 1) r
  unfold fromCatalog roots
  simp only [List.flatMap_cons, List.flatMap_nil, List.append_nil, List.map_append, List.sum_append]
  have conv : ∀ r, ((createTile thr zoom pts (zoom - 1) r).map (fun l => area c s l.1)).sum = area c s r := by
    intro r
    rw [← hr r, ← hk r, List.map_map]; rfl
  rw [conv, conv, conv, conv]
  have := area_children c s []
  have h0 : area c s [] = c * (s 0 - s 1) := by simp [area, yN, yS, tileY, scale_nil]
  rw [← h0, ← this]; simp only [child, List.nil_append, add_assoc]

/-- the same for the single-resolution grid of any zoom -/
theorem area_single_resolution (c : F) (s : Rat → F) (z : Nat) :
    ((singleRes z).map (area c s)).sum = c * (s 0 - s 1) := by
  unfold singleRes roots
  simp only [List.flatMap_cons, List.flatMap_nil, List.append_nil, List.map_append, List.sum_append, fixLen_eq,
    area_refine]
  have := area_children c s []
  have h0 : area c s [] = c * (s 0 - s 1) := by simp [area, yN, yS, tileY, scale_nil]
  rw [← h0, ← this]; simp only [child, List.nil_append, add_assoc]

end Area

/-! ## non-vacuity: concrete instances -/

-- a point on the boundary between the two western quadrants' children: x = 1/4, y = 1/2 belongs to '01'… exactly one child
example : InTile [0] ⟨mkRat 1 4, mkRat 1 2⟩ ∧ InTile [0, 1] ⟨mkRat 1 4, mkRat 1 4⟩ ∧
    ¬ InTile [0, 3] ⟨mkRat 1 4, mkRat 1 4⟩ ∧ InTile [0, 3] ⟨mkRat 1 4, mkRat 3 8⟩ := by
  decide +kernel
-- a refinement that actually splits: three events in '0', threshold 1, zoom 3
example : (fromCatalog 1 3 [⟨mkRat 1 8, mkRat 1 8⟩, ⟨mkRat 1 8, mkRat 1 8⟩, ⟨mkRat 3 8, mkRat 3 8⟩]).length = 10 := by decide +kernel
example : (fromCatalog 1 3 [⟨mkRat 1 8, mkRat 1 8⟩, ⟨mkRat 1 8, mkRat 1 8⟩, ⟨mkRat 3 8, mkRat 3 8⟩]).contains ([0, 0, 1], 2) = true := by decide +kernel
-- hypotheses of locate_spec part 3 are satisfiable: a prefix-free multi-resolution key set
example : prefixFree [[0, 0], [0, 1], [0, 2], [0, 3], [1], [2], [3]] := by unfold prefixFree; decide +kernel
example : findLocation [[0, 0], [0, 1], [0, 2], [0, 3], [1], [2], [3]] ⟨mkRat 3 4, mkRat 1 4⟩ = some 4 := by decide +kernel
-- the antimeridian x = 1 (lon = +180) and the northern limit y = 0 are in no cell
example : findLocation (singleRes 2) ⟨1, mkRat 1 2⟩ = none ∧ findLocation (singleRes 2) ⟨mkRat 1 2, 0⟩ = none ∧
    findLocation (singleRes 2) ⟨(0 : Nat), (1 : Nat)⟩ = some 10 := by decide +kernel
-- a strictly decreasing latitude function exists (geo_membership is not vacuous)
example : StrictAnti (fun y : Rat => -y) := fun _ _ h => neg_lt_neg h

end Quadtree
