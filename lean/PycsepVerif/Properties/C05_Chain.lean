import PycsepVerif.Properties.C05
import PycsepVerif.Properties.C06_Chain
import PycsepVerif.Properties.C03
import PycsepVerif.Proofs.PoissonTest

/-!
# C05, round 4 — the whole test as one function: catalog → counts → simulated catalogs → statistics

`Model/PoissonTest.lean` keeps the shape of `_poisson_likelihood_test`: log-rates and expected count are prepared ONCE
from the forecast and the OBSERVED counts and re-used for every simulated catalog; the simulated catalogs come from
C06's sampler on the float weights of the same forecast array; the observed arrays come from C03's gridding.
-/
namespace PoissonTest
open RealOps PoissonLL

section generic
variable {α : Type} [RealOps α]

/-- **the code-shaped test is `PoissonLL.stat` on every array it scores.** Whenever `_poisson_likelihood_test` returns:
    the observed statistic is `stat` of (forecast array, observed array); EVERY entry of the simulated distribution is
    the same `stat` (same normalisation flag) of (forecast array, simulated array) — although the code computes scale
    and expected count from the observed catalog only, because a simulated catalog of a conditional test has exactly
    `N_obs` events (C06 count conservation); each simulated array is C06's placement of its row of random numbers on
    the forecast's float weights; the quantile is #{sim ≤ obs} / num_simulations. -/
theorem run_spec (toQ : α → Rat) (u n : Bool) (rates : List α) (obs draws : List Nat) (rows : List (List Rat))
    (res : Result α) (hlen : rates.length = obs.length) (h : run toQ u n rates obs draws rows = some res) :
    res.obsLL = stat (u && n) (rates.zip obs) ∧
    res.simLL = res.sims.map (fun s => stat (u && n) (rates.zip s)) ∧
    res.sims.length = rows.length ∧
    (∀ s ∈ res.sims, s.length = rates.length ∧
      ∃ row ∈ rows, Sampler.simulate (Sampler.weights (rates.map toQ)) row = some s ∧ s.sum = row.length) ∧
    (u = true → ∀ s ∈ res.sims, s.sum = obs.sum) ∧
    res.quantile = ((res.simLL.filter (fun s => ellLe s res.obsLL)).length, rows.length) := by
  unfold run at h
  simp only at h
  split at h
  · cases h
  · rename_i sims hs
    cases h
    obtain ⟨h1, h2⟩ := simLoop_spec _ _ rows sims hs
    have hwl : (Sampler.weights (rates.map toQ)).length = rates.length := by
      rw [Sampler.weights_length, List.length_map]
    have hsum : u = true → ∀ s ∈ sims, s.sum = obs.sum := by
      intro hu s hs'
      obtain ⟨_, _, ⟨m, hm, hsm⟩⟩ := h2 s hs'
      rw [hu] at hm
      simp only [↓reduceIte] at hm
      rw [hsm, (List.mem_replicate.mp hm).2]
    refine ⟨statOf_prepare u n rates obs obs hlen (fun _ => rfl), ?_, h1, ?_, hsum, rfl⟩
    · apply List.map_congr_left
      intro s hs'
      obtain ⟨g1, _, _⟩ := h2 s hs'
      refine statOf_prepare u n rates obs s (by rw [g1, hwl]) ?_
      intro hb
      have hu : u = true := by cases u <;> simp_all
      exact hsum hu s hs'
    · intro s hs'
      obtain ⟨g1, g2, _⟩ := h2 s hs'
      exact ⟨by rw [g1, hwl], g2⟩

end generic

/-- **totality (C05 + C06)**: for a valid forecast array (non-negative floats, one positive, as rationals), an observed
    array of the same shape and injected numbers in [0,1) — one row of `N_obs` numbers per simulation — the conditional
    tests (CL, S, M) return: no IndexError, no failed count assertion. -/
theorem run_total (toQ : ℝ → Rat) (n : Bool) (rates : List ℝ) (obs : List Nat) (rows : List (List Rat))
    (hv : Sampler.ValidRates (rates.map toQ))
    (hrows : ∀ row ∈ rows, row.length = obs.sum ∧ ∀ r ∈ row, r < 1) :
    ∃ res, run toQ true n rates obs [] rows = some res := by
  unfold run
  simp only [↓reduceIte]
  have hex := simLoop_total (Sampler.weights (rates.map toQ)) (List.replicate rows.length obs.sum) rows (by simp) (by
    intro p hp
    have hp2 : p.2 ∈ rows := (List.of_mem_zip hp).2
    have hp1 : p.1 = obs.sum := (List.mem_replicate.mp (List.of_mem_zip hp).1).2
    obtain ⟨g1, g2⟩ := hrows p.2 hp2
    refine ⟨by rw [g1, hp1], ?_⟩
    intro r hr
    rw [Sampler.weights_length]
    exact Sampler.in_range _ hv r (g2 r hr))
  obtain ⟨sims, hs⟩ := hex
  rw [hs]
  exact ⟨_, rfl⟩

/-- **every entry of the simulated distribution is the sum over ALL bins of log pmf(simulated count | rate)** —
    unnormalised variant (L, CL): the rates as they are. -/
theorem sim_entries_eq_sum_logpmf (toQ : ℝ → Rat) (u : Bool) (rates : List ℝ) (obs draws : List Nat)
    (rows : List (List Rat)) (res : Result ℝ) (hlen : rates.length = obs.length) (hnn : ∀ r ∈ rates, 0 ≤ r)
    (h : run toQ u false rates obs draws rows = some res) :
    res.obsLL = sumLogPmf (rates.zip obs) ∧ res.simLL = res.sims.map (fun s => sumLogPmf (rates.zip s)) := by
  obtain ⟨h1, h2, _⟩ := run_spec toQ u false rates obs draws rows res hlen h
  have hz : ∀ c : List Nat, ∀ p ∈ rates.zip c, 0 ≤ p.1 := fun c p hp => hnn p.1 (List.of_mem_zip hp).1
  simp only [Bool.and_false] at h1 h2
  refine ⟨by rw [h1, stat_eq_sum_logpmf _ (hz obs)], ?_⟩
  rw [h2]
  apply List.map_congr_left
  intro s _
  exact stat_eq_sum_logpmf _ (hz s)

/-- … normalised variant (S, M): the rates scaled by `N_obs / N_fore`, with `N_obs` the OBSERVED number for every
    simulated catalog. -/
theorem sim_entries_eq_sum_logpmf_norm (toQ : ℝ → Rat) (rates : List ℝ) (obs draws : List Nat)
    (rows : List (List Rat)) (res : Result ℝ) (hlen : rates.length = obs.length) (hnn : ∀ r ∈ rates, 0 ≤ r)
    (hpos : 0 < rates.sum) (h : run toQ true true rates obs draws rows = some res) :
    res.obsLL = sumLogPmf (scaleBins (rates.zip obs) ((obs.sum : ℝ) / rates.sum)) ∧
    res.simLL = res.sims.map (fun s => sumLogPmf (scaleBins (rates.zip s) ((obs.sum : ℝ) / rates.sum))) := by
  obtain ⟨h1, h2, _, h4, h5, _⟩ := run_spec toQ true true rates obs draws rows res hlen h
  have hz : ∀ c : List Nat, ∀ p ∈ rates.zip c, 0 ≤ p.1 := fun c p hp => hnn p.1 (List.of_mem_zip hp).1
  have key : ∀ c : List Nat, rates.length = c.length → c.sum = obs.sum →
      stat true (rates.zip c) = sumLogPmf (scaleBins (rates.zip c) ((obs.sum : ℝ) / rates.sum)) := by
    intro c hc hs
    have hfst : (rates.zip c).map (·.1) = rates := zip_fst hc
    rw [stat_norm_eq_sum_logpmf _ (hz c) (by rw [hfst]; exact hpos), hfst, nObs_zip rates c hc, hs]
  simp only [Bool.and_self] at h1 h2
  refine ⟨by rw [h1, key obs hlen rfl], ?_⟩
  rw [h2]
  apply List.map_congr_left
  intro s hs
  exact key s (h4 s hs).1.symm (h5 rfl s hs)

/-- **a simulated entry is never −∞** (C05's "−∞ exactly when an event lies in a zero-rate bin" + C06's "never in a
    zero-rate bin"): for non-negative rates with a positive total whose rational values `toQ` are non-negative and zero
    for a zero rate, and draws ≥ 0, every simulated log-likelihood is finite — for either normalisation. -/
theorem sim_entries_finite (toQ : ℝ → Rat) (u n : Bool) (rates : List ℝ) (obs draws : List Nat)
    (rows : List (List Rat)) (res : Result ℝ) (hlen : rates.length = obs.length) (hnn : ∀ r ∈ rates, 0 ≤ r)
    (hpos : 0 < rates.sum) (hQ : ∀ r ∈ rates, 0 ≤ toQ r ∧ (r = 0 → toQ r = 0))
    (hd : ∀ row ∈ rows, ∀ r ∈ row, 0 ≤ r) (h : run toQ u n rates obs draws rows = some res) :
    ∀ v ∈ res.simLL, v ≠ .negInf := by
  obtain ⟨_, h2, _, h4, _, _⟩ := run_spec toQ u n rates obs draws rows res hlen h
  intro v hv hneg
  rw [h2] at hv
  obtain ⟨s, hs, rfl⟩ := List.mem_map.mp hv
  obtain ⟨hsl, row, hrow, hsim, _⟩ := h4 s hs
  have hz : ∀ p ∈ rates.zip s, 0 ≤ p.1 := fun p hp => hnn p.1 (List.of_mem_zip hp).1
  have hfst : (rates.zip s).map (·.1) = rates := zip_fst hsl.symm
  obtain ⟨p, hp, hw, hr⟩ := (stat_negInf_iff (u && n) _ hz (by rw [hfst]; exact hpos)).mp hneg
  -- p = (rates[k], s[k]) for some index k
  obtain ⟨k, hk, hpk⟩ := List.mem_iff_getElem.mp hp
  have hkr : k < rates.length := by simp at hk; omega
  have hks : k < s.length := by simp at hk; omega
  have hp1 : p.1 = rates[k] := by rw [← hpk]; simp
  have hp2 : p.2 = s[k] := by rw [← hpk]; simp
  have hq0 : (rates.map toQ).getD k 0 = 0 := by
    simp only [List.getD_eq_getElem?_getD, List.getElem?_map, List.getElem?_eq_getElem hkr, Option.map_some,
      Option.getD_some]
    exact (hQ rates[k] (List.getElem_mem hkr)).2 (by rw [← hp1]; exact hr)
  have hnnQ : ∀ x ∈ rates.map toQ, 0 ≤ x := by
    intro x hx
    obtain ⟨r, hr', rfl⟩ := List.mem_map.mp hx
    exact (hQ r hr').1
  have := Sampler.simulated_array_zero_in_zero_rate_bin (rates.map toQ) hnnQ row (hd row hrow) s hsim k
    (by simpa using hkr) hq0
  rw [List.getD_eq_getElem?_getD, List.getElem?_eq_getElem hks, Option.getD_some] at this
  omega

/-! ### catalog → counts (C03's gridding model) → statistic -/

open Gridding in
/-- **the three gridding calls of the four tests agree with ONE count matrix.** For a catalog whose events all lie in
    the region and the magnitude range, with `M` the space-magnitude count matrix (`M[i][k]` = number of events in cell
    i and magnitude bin k, C03 `smc_entry`): the L / CL tests score `M` flattened, the S test (which calls
    `spatial_counts()`, never looking at magnitudes) scores the row sums of `M`, the M test (which calls
    `magnitude_counts(mag_bins=…)`, never looking at locations) scores the column sums of `M`. -/
theorem observed_arrays_of_one_matrix (ncell nbin : Nat) (evs : List Ev) (M : List (List Nat))
    (hM : smcCart ncell nbin evs = .ok M) (hR : InRange ncell nbin evs) (hcell : 0 < ncell) :
    observedArray .L ncell nbin evs = .ok M.flatten ∧ observedArray .CL ncell nbin evs = .ok M.flatten ∧
    observedArray .S ncell nbin evs = .ok (spatialMarginalN M) ∧
    observedArray .M ncell nbin evs = .ok (magMarginalN M) := by
  refine ⟨by simp [observedArray, hM, Except.map], by simp [observedArray, hM, Except.map], ?_, ?_⟩
  · exact smc_sum_mag ncell nbin evs M hM hR
  · have h := smc_sum_space ncell nbin evs M hM hR
    obtain ⟨_, _, hcm⟩ := (smc_ok_iff ncell nbin evs M).mp hM
    have hne : M ≠ [] := by
      rw [hcm]; unfold countMatrix
      intro hnil
      have := congrArg List.length hnil
      simp at this; omega
    have hrows : ∀ r ∈ M, r.length = nbin := by
      rw [hcm]; unfold countMatrix
      intro r hr
      obtain ⟨i, _, rfl⟩ := List.mem_map.mp hr
      simp
    show Except.ok (magnitudeCounts nbin (evs.map (·.bin))) = _
    rw [h, magMarginalN_eq_colsums M nbin hne hrows]

open Gridding in
/-- **catalog → statistic in one function.** The observed statistic a public test reports for a catalog given by its
    events' (cell, bin) lookups is `PoissonLL.testStat` of the forecast array and the catalog's count matrix — the
    function the round-1 theorems `stat_L_eq … stat_M_eq` identify with the sums of log Poisson-pmf.
    (`hshape`: the forecast array of the test and the observed array have the same number of entries.) -/
theorem public_observed_eq_testStat (toQ : ℝ → Rat) (m : Mode) (data : List (List ℝ)) (nbin : Nat) (evs : List Ev)
    (M : List (List Nat)) (draws : List Nat) (rows : List (List Rat)) (res : Result ℝ)
    (hM : smcCart data.length nbin evs = .ok M) (hR : InRange data.length nbin evs) (hcell : 0 < data.length)
    (hshape : ∀ obs, observedArray m data.length nbin evs = .ok obs → (forecastArray m data).length = obs.length)
    (h : publicTest toQ m data nbin evs draws rows = .ok (some res)) :
    res.obsLL = testStat m data M := by
  obtain ⟨hL, hCL, hS, hMm⟩ := observed_arrays_of_one_matrix data.length nbin evs M hM hR hcell
  unfold publicTest at h
  cases m with
  | L =>
    rw [hL] at h; simp only [Except.ok.injEq] at h
    exact (run_spec toQ _ _ _ _ draws rows res (hshape _ hL) h).1
  | CL =>
    rw [hCL] at h; simp only [Except.ok.injEq] at h
    exact (run_spec toQ _ _ _ _ draws rows res (hshape _ hCL) h).1
  | S =>
    rw [hS] at h; simp only [Except.ok.injEq] at h
    exact (run_spec toQ _ _ _ _ draws rows res (hshape _ hS) h).1
  | M =>
    rw [hMm] at h; simp only [Except.ok.injEq] at h
    exact (run_spec toQ _ _ _ _ draws rows res (hshape _ hMm) h).1

/-! ### behaviour under changes of the forecast that the tests do or do not see -/

/-- **L / CL under forecast scaling.** The unnormalised statistic is NOT invariant: multiplying every rate by `c > 0`
    adds `N_obs · log c − (c − 1) · N_fore` (finite case: every occupied bin has a positive rate). The CL test
    conditions only the NUMBER of simulated events on `N_obs`; its statistic is the L statistic. -/
theorem stat_unnorm_scaling (bins : List (ℝ × ℕ)) (c : ℝ) (hc : 0 < c) (hnn : ∀ p ∈ bins, 0 ≤ p.1)
    (hpos : ∀ p ∈ bins, 0 < p.2 → 0 < p.1) (v : ℝ) (hv : stat false bins = .fin v) :
    stat false (scaleBins bins c) =
      .fin (v + (nObs bins : ℝ) * Real.log c - (c - 1) * (bins.map (·.1)).sum) := by
  have hnn' : ∀ p ∈ scaleBins bins c, 0 ≤ p.1 := by
    intro p hp
    obtain ⟨q, hq, rfl⟩ := List.mem_map.mp hp
    exact mul_nonneg (hnn q hq) hc.le
  have hpos' : ∀ p ∈ scaleBins bins c, 0 < p.2 → 0 < p.1 := by
    intro p hp hw
    obtain ⟨q, hq, rfl⟩ := List.mem_map.mp hp
    exact mul_pos (hpos q hq hw) hc
  rw [jointLL_eq_sum_logpmf bins hnn hpos] at hv
  rw [jointLL_eq_sum_logpmf _ hnn' hpos']
  injection hv with hv
  rw [← hv]
  clear hv
  congr 1
  unfold scaleBins nObs
  rw [List.map_map]
  induction bins with
  | nil => simp
  | cons p bins ih =>
    have ih' := ih (fun q hq => hnn q (List.mem_cons_of_mem _ hq)) (fun q hq => hpos q (List.mem_cons_of_mem _ hq))
      (fun q hq => hnn' q (by unfold scaleBins at *; simp only [List.map_cons, List.mem_cons]; exact Or.inr hq))
      (fun q hq => hpos' q (by unfold scaleBins at *; simp only [List.map_cons, List.mem_cons]; exact Or.inr hq))
    simp only [List.map_cons, List.sum_cons, Function.comp] at ih' ⊢
    rw [ih']
    -- one bin: log pmf(w | λc) = log pmf(w | λ) + w log c − (c−1) λ
    have h1 : Real.log (poissonPmf (p.1 * c) p.2) =
        Real.log (poissonPmf p.1 p.2) + (p.2 : ℝ) * Real.log c - (c - 1) * p.1 := by
      by_cases hw : p.2 = 0
      · have e1 := logPmf_zero_count (p.1 * c)
        have e2 := logPmf_zero_count p.1
        unfold logPmf at e1 e2
        rw [hw]
        split at e1
        · cases e1
        · split at e2
          · cases e2
          · injection e1 with e1; injection e2 with e2
            rw [e1, e2]; push_cast; ring
      · have hl : 0 < p.1 := hpos p List.mem_cons_self (Nat.pos_of_ne_zero hw)
        have e1 := logPmf_pos (p.1 * c) p.2 (mul_pos hl hc)
        have e2 := logPmf_pos p.1 p.2 hl
        unfold logPmf at e1 e2
        split at e1
        · cases e1
        · split at e2
          · cases e2
          · injection e1 with e1; injection e2 with e2
            rw [e1, e2, Real.log_mul hl.ne' hc.ne']; ring
    rw [h1]; push_cast; ring

/-- **S ignores how a cell's rate is distributed over magnitudes, M ignores how a magnitude bin's rate is distributed
    over space**: two forecasts with the same spatial sums (resp. magnitude sums) get the same S (resp. M) statistic,
    observed and simulated. -/
theorem stat_S_depends_only_on_spatial_sums (data data' : List (List ℝ)) (cnt : List (List ℕ)) (sim : List ℕ)
    (h : spatialMarginal data = spatialMarginal data') :
    testStat .S data cnt = testStat .S data' cnt ∧ simStat .S data sim = simStat .S data' sim := by
  unfold testStat simStat; simp only [h, and_self]

theorem stat_M_depends_only_on_magnitude_sums (data data' : List (List ℝ)) (cnt : List (List ℕ)) (sim : List ℕ)
    (h : magMarginal data = magMarginal data') :
    testStat .M data cnt = testStat .M data' cnt ∧ simStat .M data sim = simStat .M data' sim := by
  unfold testStat simStat; simp only [h, and_self]

/-! ### the library's own per-bin function and the per-event view -/

theorem factN_eq (n : ℕ) : factN n = n.factorial := by
  induction n with
  | zero => rfl
  | succ n ih => simp [factN, Nat.factorial_succ, ih]

theorem powNat_real (x : ℝ) (n : ℕ) : powNat x n = x ^ n := by
  induction n with
  | zero => simp [powNat]
  | succ n ih => simp [powNat, ih, pow_succ]

/-- `poisson_log_likelihood` (stats.py:165) is the specification's `logPmf`, bin by bin -/
theorem poissonLogLikelihood_eq_logPmf (lam : ℝ) (w : ℕ) : poissonLogLikelihood lam w = logPmf lam w := by
  unfold poissonLogLikelihood pmf logPmf poissonPmf ELL.log
  simp only [real_div, real_mul, real_exp, real_neg, powNat_real, real_ofNat, factN_eq, real_le, real_zero,
    decide_eq_true_eq, real_log]

/-- **the efficient formula equals the sum of the library's own per-bin log-likelihoods**: the L / CL statistic
    computed from target bins only is `sum(poisson_log_likelihood(observed, forecast))` over ALL bins -/
theorem stat_eq_sum_poissonLogLikelihood (bins : List (ℝ × ℕ)) (hnn : ∀ p ∈ bins, 0 ≤ p.1) :
    stat false bins = ELL.sum (bins.map (fun p => poissonLogLikelihood p.1 p.2)) := by
  rw [stat_eq_sum_logpmf bins hnn]
  unfold sumLogPmf
  congr 1
  apply List.map_congr_left
  intro p _
  exact (poissonLogLikelihood_eq_logPmf p.1 p.2).symm

/-! ### non-vacuity -/

-- a 2-bin forecast [1, 3] (weights 1/4, 1), two observed events in bin 1, two simulations of two events
example : ∃ res, run (fun _ : ℝ => (1 : Rat)) true true [(1 : ℝ), 3] [0, 2] [] [[0, 1/2], [1/2, 3/4]] = some res :=
  run_total _ true _ _ _ ⟨by decide +kernel, by decide +kernel, ⟨1, by decide +kernel⟩⟩ (by decide +kernel)

-- gridding: three events, two cells, two magnitude bins
example : Gridding.smcCart 2 2 [⟨some 0, some 1⟩, ⟨some 1, some 1⟩, ⟨some 1, some 1⟩] = .ok [[0, 1], [0, 2]] := by
  decide +kernel
example : observedArray .S 2 2 [⟨some 0, some 1⟩, ⟨some 1, some 1⟩, ⟨some 1, some 1⟩] = .ok [1, 2] := by decide +kernel
example : observedArray .M 2 2 [⟨some 0, some 1⟩, ⟨some 1, some 1⟩, ⟨some 1, some 1⟩] = .ok [0, 3] := by decide +kernel
example : magMarginalN [[0, 1], [0, 2]] = [0, 3] ∧ spatialMarginalN [[0, 1], [0, 2]] = [1, 2] := by decide

-- scaling the rates [2, 3] (one event in the first bin) by 2 adds 1·log 2 − (2−1)·5
example (v : ℝ) (hv : stat false [((2 : ℝ), 1), (3, 0)] = .fin v) :
    stat false (scaleBins [((2 : ℝ), 1), (3, 0)] 2) = .fin (v + ((1 : ℕ) : ℝ) * Real.log 2 - (2 - 1) * (2 + (3 + 0))) := by
  have := stat_unnorm_scaling [((2 : ℝ), 1), (3, 0)] 2 (by norm_num) (by simp) (by simp) v hv
  simpa [nObs] using this

end PoissonTest
