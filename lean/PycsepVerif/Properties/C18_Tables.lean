import PycsepVerif.Generated

/-! C18 — `load_evaluation_result`'s factory (re-extracted on every run) against the result classes of csep/models.py. -/
namespace C18Tables

/-- every result class has a factory entry under its own class name that builds that same class -/
theorem factory_total : ∀ c ∈ Generated.resultClasses, Generated.resultFactory.lookup c = some c := by decide

/-- every factory entry builds a known result class -/
theorem factory_sound : ∀ p ∈ Generated.resultFactory, p.2 ∈ Generated.resultClasses := by decide

/-- the fallback used for files without a type exists -/
theorem factory_default : Generated.resultFactory.lookup "default" = some "EvaluationResult" := by decide

example : Generated.resultClasses.length ≥ 6 := by decide

end C18Tables
