import PycsepVerif.Proofs.Quadtree
import PycsepVerif.Properties.C17

/-!
# C17 (extension) — the float box test of the code against mercantile's bounds IS the model's tile membership

`_create_tile` (regions.py:943) and `_find_location` (:1086) decide membership with four float comparisons against
`mercantile.bounds` of the tile: `lon >= west and lat >= south and lon < east and lat < north`. The model decides it in the unit
square (`InTile`). That the two agree was (a) a theorem for a strictly decreasing latitude FUNCTION applied to the point's own
unit coordinate (`geo_membership`), and (b) for float inputs the hypothesis `hin` of the source tie `SrcSM.create_tile_eq_model` and
the trusted step "the harness hands the model the deepest-level row a latitude falls in".

Here (b) becomes a theorem about exactly the facts the harness establishes numerically on every run:
* the edge-latitude TABLE of the deepest level, `E j` = float latitude of the horizontal line y = j / 2^D, is strictly decreasing
  (`check_edge_tables`), and a tile of depth ≤ D has the table entries of its own edges as south / north bounds (checked on every
  tile of every grid; shared edges are bit-identical: `lat_arg_depends_on_unit_coordinate`);
* longitudes are exact: west / east = `lonOf` of the dyadic edge (`lon_bounds_exact_all`), the point's x is (lon + 180) / 360;
* the point's unit coordinate y was PLACED by float comparisons of its latitude with the table (`harness/c17.py: to_unit`):
  in the row r with `E (r+1) ≤ lat < E r`, or north of the table (y ≤ 0), or south of it (y > 1).
`box_test_iff_inTile`: then the four float comparisons against the tile's bounds hold ⇔ `InTile k p`, for every tile of depth ≤ D.
No monotone latitude function on all rationals is assumed — only the finite table.
-/
namespace Quadtree

/-- the code's membership test for one point against `(west, south, east, north)` (regions.py:943-944, :1086-1087) -/
def boxTest4 (b : Rat × Rat × Rat × Rat) (lon lat : Rat) : Bool :=
  (decide (lon ≥ b.1) && decide (lat ≥ b.2.1)) && (decide (lon < b.2.2.1) && decide (lat < b.2.2.2))

/-- index into the depth-D edge table of the south / north edge of a tile of depth ≤ D -/
def southIdx (D : Nat) (k : Key) : Nat := (tileY k + 1) * 2 ^ (D - k.length)
def northIdx (D : Nat) (k : Key) : Nat := tileY k * 2 ^ (D - k.length)

/-- `mercantile.bounds(quadkey_to_tile(k))` as (west, south, east, north): exact longitudes, latitudes from the edge table -/
def tableBounds (D : Nat) (E : Nat → Rat) (k : Key) : Rat × Rat × Rat × Rat :=
  (lonW k, E (southIdx D k), lonE k, E (northIdx D k))

/-- how `to_unit` places a latitude: in its row of the deepest level, or beyond the table -/
def Placed (D : Nat) (E : Nat → Rat) (lat y : Rat) : Prop :=
  (∃ r : Nat, r < 2 ^ D ∧ E (r + 1) ≤ lat ∧ lat < E r ∧ (r : Rat) / 2 ^ D < y ∧ y ≤ ((r : Rat) + 1) / 2 ^ D) ∨
  (E 0 ≤ lat ∧ y ≤ 0) ∨ (lat < E (2 ^ D) ∧ 1 < y)

theorem pow2D_pos (D : Nat) : (0 : Rat) < 2 ^ D := by positivity

/-- comparing the latitude with ANY table entry is comparing the placed coordinate with that edge -/
theorem placed_consistent (D : Nat) (E : Nat → Rat) (hE : ∀ i j : Nat, i < j → j ≤ 2 ^ D → E j < E i)
    (lat y : Rat) (hp : Placed D E lat y) (j : Nat) (hj : j ≤ 2 ^ D) :
    (E j ≤ lat ↔ y ≤ (j : Rat) / 2 ^ D) ∧ (lat < E j ↔ (j : Rat) / 2 ^ D < y) := by
  have hD := pow2D_pos D
  have mono : ∀ i j : Nat, i ≤ j → j ≤ 2 ^ D → E j ≤ E i := by
    intro i j hij hj
    rcases Nat.lt_or_ge i j with h | h
    · exact (hE i j h hj).le
    · have : i = j := by omega
      subst this; exact le_rfl
  rcases hp with ⟨r, hr, h1, h2, h3, h4⟩ | ⟨h1, h2⟩ | ⟨h1, h2⟩
  · by_cases hjr : r + 1 ≤ j
    · have e1 : E j ≤ lat := le_trans (mono (r + 1) j hjr hj) h1
      have e2 : y ≤ (j : Rat) / 2 ^ D := by
        refine le_trans h4 ?_
        rw [div_le_div_iff_of_pos_right hD]
        exact_mod_cast hjr
      exact ⟨⟨fun _ => e2, fun _ => e1⟩, ⟨fun h => absurd e1 (not_le.mpr h), fun h => absurd e2 (not_le.mpr h)⟩⟩
    · have hjr' : j ≤ r := by omega
      have e1 : lat < E j := lt_of_lt_of_le h2 (mono j r hjr' (by omega))
      have e2 : (j : Rat) / 2 ^ D < y := by
        refine lt_of_le_of_lt ?_ h3
        rw [div_le_div_iff_of_pos_right hD]
        exact_mod_cast hjr'
      exact ⟨⟨fun h => absurd e1 (not_lt.mpr h), fun h => absurd e2 (not_lt.mpr h)⟩, ⟨fun _ => e2, fun _ => e1⟩⟩
  · have e1 : E j ≤ lat := le_trans (mono 0 j (Nat.zero_le _) hj) h1
    have e2 : y ≤ (j : Rat) / 2 ^ D := le_trans h2 (div_nonneg (Nat.cast_nonneg _) hD.le)
    exact ⟨⟨fun _ => e2, fun _ => e1⟩, ⟨fun h => absurd e1 (not_le.mpr h), fun h => absurd e2 (not_le.mpr h)⟩⟩
  · have e1 : lat < E j := lt_of_lt_of_le h1 (mono j (2 ^ D) hj le_rfl)
    have e2 : (j : Rat) / 2 ^ D < y := by
      refine lt_of_le_of_lt ?_ h2
      rw [div_le_iff₀ hD, one_mul]
      exact_mod_cast hj
    exact ⟨⟨fun h => absurd e1 (not_lt.mpr h), fun h => absurd e2 (not_lt.mpr h)⟩, ⟨fun _ => e2, fun _ => e1⟩⟩

theorem tileY_lt (k : Key) : tileY k < 2 ^ k.length := by
  induction k using List.reverseRecOn with
  | nil => simp [tileY]
  | append_singleton k d ih =>
    have := tileY_child k d
    unfold child at this
    rw [this, List.length_append, List.length_singleton, pow_succ]
    have := ybit_lt d
    omega

/-- the edges of a tile of depth ≤ D are lines of the depth-D table -/
theorem edge_indices (D : Nat) (k : Key) (hk : k.length ≤ D) :
    southIdx D k ≤ 2 ^ D ∧ northIdx D k ≤ 2 ^ D ∧
    yS k = (southIdx D k : Rat) / 2 ^ D ∧ yN k = (northIdx D k : Rat) / 2 ^ D := by
  have hlt := tileY_lt k
  have hsplit : 2 ^ D = 2 ^ k.length * 2 ^ (D - k.length) := by rw [← pow_add]; congr 1; omega
  have hpos : 0 < 2 ^ (D - k.length) := by positivity
  refine ⟨?_, ?_, ?_, ?_⟩
  · unfold southIdx; rw [hsplit]; exact Nat.mul_le_mul_right _ (by omega)
  · unfold northIdx; rw [hsplit]; exact Nat.mul_le_mul_right _ (by omega)
  · unfold yS southIdx scale
    have h2 : ((2 ^ D : Nat) : Rat) = ((2 ^ k.length : Nat) : Rat) * ((2 ^ (D - k.length) : Nat) : Rat) := by exact_mod_cast hsplit
    have hz : ((2 ^ (D - k.length) : Nat) : Rat) ≠ 0 := by positivity
    have hz' : ((2 ^ k.length : Nat) : Rat) ≠ 0 := by positivity
    push_cast at h2 ⊢
    rw [h2]; field_simp
  · unfold yN northIdx scale
    have h2 : ((2 ^ D : Nat) : Rat) = ((2 ^ k.length : Nat) : Rat) * ((2 ^ (D - k.length) : Nat) : Rat) := by exact_mod_cast hsplit
    have hz : ((2 ^ (D - k.length) : Nat) : Rat) ≠ 0 := by positivity
    have hz' : ((2 ^ k.length : Nat) : Rat) ≠ 0 := by positivity
    push_cast at h2 ⊢
    rw [h2]; field_simp

/-- **the code's float box test against mercantile's bounds is the model's membership**, for every tile of depth ≤ D, every point
    whose x is its exact longitude and whose y was placed by comparisons with the strictly decreasing depth-D edge table -/
theorem box_test_iff_inTile (D : Nat) (E : Nat → Rat) (hE : ∀ i j : Nat, i < j → j ≤ 2 ^ D → E j < E i)
    (k : Key) (hk : k.length ≤ D) (p : Pt) (lat : Rat) (hp : Placed D E lat p.y) :
    boxTest4 (tableBounds D E k) (lonOf p.x) lat = inTile k p := by
  obtain ⟨hs, hn, eS, eN⟩ := edge_indices D k hk
  have cS := (placed_consistent D E hE lat p.y hp _ hs).1
  have cN := (placed_consistent D E hE lat p.y hp _ hn).2
  rw [← eS] at cS
  rw [← eN] at cN
  -- longitudes as in `geo_membership` (with the identity as "latitude" for the y part)
  have g := geo_membership (fun y : Rat => -y) (fun _ _ h => neg_lt_neg h) k p
  simp only [neg_le_neg_iff, neg_lt_neg_iff] at g
  unfold boxTest4 tableBounds inTile
  simp only [ge_iff_le]
  rw [Bool.eq_iff_iff]
  simp only [Bool.and_eq_true, decide_eq_true_eq]
  rw [← g]
  constructor
  · rintro ⟨⟨a, b⟩, c, d⟩; exact ⟨a, cS.mp b, c, cN.mp d⟩
  · rintro ⟨a, b, c, d⟩; exact ⟨⟨a, cS.mpr b⟩, c, cN.mpr d⟩

/-- the same for the lookup `_find_location`: on a key list of depth ≤ D the first cell whose float box test succeeds is `findLocation` -/
theorem find_location_float (D : Nat) (E : Nat → Rat) (hE : ∀ i j : Nat, i < j → j ≤ 2 ^ D → E j < E i)
    (cells : List Key) (hD : ∀ k ∈ cells, k.length ≤ D) (p : Pt) (lat : Rat) (hp : Placed D E lat p.y) :
    cells.findIdx? (fun k => boxTest4 (tableBounds D E k) (lonOf p.x) lat) = findLocation cells p := by
  unfold findLocation
  induction cells with
  | nil => rfl
  | cons a l ih =>
    have ha := box_test_iff_inTile D E hE a (hD a List.mem_cons_self) p lat hp
    have ih' := ih (fun k hk => hD k (List.mem_cons_of_mem _ hk))
    simp only [List.findIdx?_cons, ha, ih']

/-! ## non-vacuity: a strictly decreasing table and placed points exist -/
example : ∀ i j : Nat, i < j → j ≤ 2 ^ 2 → (fun n : Nat => -(n : Rat)) j < (fun n : Nat => -(n : Rat)) i := by
  intro i j h _; simp only [neg_lt_neg_iff]; exact_mod_cast h
-- latitude −3/2 lies between the table entries −1 (line 1) and −2 (line 2): row r = 1, placed at y = 3/8 ∈ (1/4, 2/4]
example : Placed 2 (fun n : Nat => -(n : Rat)) (-3 / 2) (3 / 8) := by
  left; exact ⟨1, by norm_num, by norm_num, by norm_num, by norm_num, by norm_num⟩
-- a latitude north of the whole table is placed at y ≤ 0 and is in no tile
example : Placed 2 (fun n : Nat => -(n : Rat)) 5 0 := by right; left; norm_num

end Quadtree
