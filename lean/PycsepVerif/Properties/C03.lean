import PycsepVerif.Proofs.Gridding

/-!
# C03 — gridding a catalog counts every event exactly once, in its own cell and bin

Theorems about `Model/Gridding.lean` (model of `CSEPCatalog.spatial_counts`, `spatial_event_probability`,
`magnitude_counts`, `spatial_magnitude_counts` with a Cartesian or a quadtree region).
An event is the pair of its lookups `(cell, bin)`; `none` = outside the region / below the first magnitude edge.
Every statement holds for every list of events (any length, order, duplicates) and any numbers of cells and bins.
`entry M i k` is `M[i][k]`, `countVec`, `countMatrix` are the arrays of exact counts.
-/
namespace Gridding

/-- every event's lookups succeeded with indices inside the arrays -/
def InRange (ncell nbin : Nat) (evs : List Ev) : Prop :=
  ∀ e ∈ evs, (∃ i, e.cell = some i ∧ i < ncell) ∧ (∃ k, e.bin = some k ∧ k < nbin)

/-- when space-magnitude gridding returns, nothing was outside or below the minimum and the result is the count matrix -/
theorem smc_ok_iff (ncell nbin : Nat) (evs : List Ev) (M : List (List Nat)) :
    smcCart ncell nbin evs = .ok M ↔
      (∀ e ∈ evs, e.cell.isSome = true) ∧ (∀ e ∈ evs, e.bin.isSome = true) ∧ M = countMatrix ncell nbin evs := by
  rw [smcCart_eq]
  by_cases hc : evs.any (fun e => e.cell.isNone) = true
  · simp only [hc, if_true, reduceCtorEq, false_iff]
    obtain ⟨e, he, hn⟩ := List.any_eq_true.mp hc
    intro ⟨h, _⟩
    have := h e he
    cases hce : e.cell <;> simp [hce] at this hn
  · have hc' : ∀ e ∈ evs, e.cell.isSome = true := by
      intro e he
      have : ¬ (e.cell.isNone = true) := fun hn => hc (List.any_eq_true.mpr ⟨e, he, hn⟩)
      cases hce : e.cell <;> simp [hce] at this ⊢
    by_cases hb : evs.any (fun e => e.bin.isNone) = true
    · simp only [hc, hb, Bool.false_eq_true, if_false, if_true, reduceCtorEq, false_iff]
      obtain ⟨e, he, hn⟩ := List.any_eq_true.mp hb
      intro ⟨_, h, _⟩
      have := h e he
      cases hbe : e.bin <;> simp [hbe] at this hn
    · have hb' : ∀ e ∈ evs, e.bin.isSome = true := by
        intro e he
        have : ¬ (e.bin.isNone = true) := fun hn => hb (List.any_eq_true.mpr ⟨e, he, hn⟩)
        cases hbe : e.bin <;> simp [hbe] at this ⊢
      simp only [hc, hb, Bool.false_eq_true, if_false, Except.ok.injEq]
      constructor
      · intro h; exact ⟨hc', hb', h.symm⟩
      · intro ⟨_, _, h⟩; exact h.symm

/-- entry (i,k) of the space-magnitude count array is the number of events located in cell i with magnitude in bin k -/
theorem smc_entry (ncell nbin : Nat) (evs : List Ev) (M : List (List Nat)) (h : smcCart ncell nbin evs = .ok M)
    (i k : Nat) (hi : i < ncell) (hk : k < nbin) :
    entry M i k = some (evs.countP (fun e => e.cell == some i && e.bin == some k)) := by
  obtain ⟨_, _, rfl⟩ := (smc_ok_iff ncell nbin evs M).mp h
  rw [entry_countMatrix]; simp [hi, hk]

/-- the row sums (sum over magnitude) of the array are the spatial counts -/
theorem smc_sum_mag (ncell nbin : Nat) (evs : List Ev) (M : List (List Nat)) (h : smcCart ncell nbin evs = .ok M)
    (hR : InRange ncell nbin evs) :
    spatialCountsCart ncell (evs.map (·.cell)) = .ok (M.map List.sum) := by
  obtain ⟨hc, _, rfl⟩ := (smc_ok_iff ncell nbin evs M).mp h
  rw [spatialCountsCart_eq]
  have : (evs.map (·.cell)).any (·.isNone) = false := by
    rw [List.any_eq_false]
    intro o ho
    obtain ⟨e, he, rfl⟩ := List.mem_map.mp ho
    have := hc e he
    cases hce : e.cell <;> simp [hce] at this ⊢
  simp only [this, Bool.false_eq_true, if_false, Except.ok.injEq]
  unfold countVec countMatrix
  rw [List.map_map]
  apply List.map_congr_left
  intro i _
  simp only [Function.comp]
  rw [countP_cell_map, rowSum_countMatrix nbin evs i (fun e he => (hR e he).2)]

/-- the column sums (sum over space) of the array are the magnitude counts -/
theorem smc_sum_space (ncell nbin : Nat) (evs : List Ev) (M : List (List Nat)) (h : smcCart ncell nbin evs = .ok M)
    (hR : InRange ncell nbin evs) :
    magnitudeCounts nbin (evs.map (·.bin)) = (List.range nbin).map (fun k => (M.map (fun r => (r[k]?).getD 0)).sum) := by
  obtain ⟨_, _, rfl⟩ := (smc_ok_iff ncell nbin evs M).mp h
  rw [magnitudeCounts_eq]
  unfold countVec
  apply List.map_congr_left
  intro k hk
  have hk' : k < nbin := List.mem_range.mp hk
  rw [countP_bin_map, ← colSum_countMatrix ncell evs k (fun e he => (hR e he).1)]
  unfold countMatrix
  rw [List.map_map]
  congr 1
  apply List.map_congr_left
  intro i _
  simp [Function.comp, hk']

/-- the total of the array equals the number of events -/
theorem smc_total (ncell nbin : Nat) (evs : List Ev) (M : List (List Nat)) (h : smcCart ncell nbin evs = .ok M)
    (hR : InRange ncell nbin evs) : (M.map List.sum).sum = evs.length := by
  have h1 := smc_sum_mag ncell nbin evs M h hR
  rw [spatialCountsCart_eq] at h1
  by_cases hany : (evs.map (·.cell)).any (·.isNone) = true
  · simp [hany] at h1
  · simp only [hany, Bool.false_eq_true, if_false, Except.ok.injEq] at h1
    rw [← h1, sum_countVec, List.countP_eq_length.mpr, List.length_map]
    intro o ho
    obtain ⟨e, he, rfl⟩ := List.mem_map.mp ho
    obtain ⟨i, hi, hlt⟩ := (hR e he).1
    simp [hi, hlt]

/-- the occupancy map is 1 exactly where the spatial count is positive (and is rejected exactly when it is) -/
theorem occupancy_iff (ncell : Nat) (locs : List (Option Nat)) :
    spatialEventProbabilityCart ncell locs =
      (spatialCountsCart ncell locs).map (fun cnts => cnts.map (fun c => if 0 < c then 1 else 0)) := by
  rw [spatialEventProbabilityCart_eq, spatialCountsCart_eq]
  by_cases h : locs.any (·.isNone) = true <;> simp [h, Except.map]

/-- … pointwise: occupancy of cell i is 1 ⇔ its count is positive -/
theorem occupancy_entry (ncell : Nat) (locs : List (Option Nat)) (occ cnts : List Nat)
    (h1 : spatialEventProbabilityCart ncell locs = .ok occ) (h2 : spatialCountsCart ncell locs = .ok cnts)
    (i : Nat) (hi : i < ncell) :
    ∃ o c, occ[i]? = some o ∧ cnts[i]? = some c ∧ (o = 1 ↔ 0 < c) ∧ (o = 0 ↔ c = 0) := by
  rw [occupancy_iff, h2] at h1
  simp only [Except.map, Except.ok.injEq] at h1
  subst h1
  rw [spatialCountsCart_eq] at h2
  by_cases h : locs.any (·.isNone) = true
  · simp [h] at h2
  · simp only [h, Bool.false_eq_true, if_false, Except.ok.injEq] at h2
    subst h2
    refine ⟨if 0 < locs.countP (fun o => o == some i) then 1 else 0, locs.countP (fun o => o == some i), ?_, ?_, ?_, ?_⟩
    · simp [countVec, hi]
    · simp [countVec, hi]
    · by_cases hp : 0 < locs.countP (fun o => o == some i) <;> simp [hp]
    · by_cases hp : 0 < locs.countP (fun o => o == some i)
      · have : locs.countP (fun o => o == some i) ≠ 0 := by omega
        simp [hp, this]
      · have : locs.countP (fun o => o == some i) = 0 := by omega
        simp [this]

/-- the count in magnitude bin k equals the number of events kept by the equivalent magnitude-range filter
    `edge_k ≤ m < edge_(k+1)` (no upper bound for the last bin) -/
theorem magCount_eq_filter (edges : List Rat) (hs : edges.Pairwise (· < ·)) (mags : List Rat) (k : Nat) (lo : Rat)
    (hk : edges[k]? = some lo) :
    (magnitudeCounts edges.length (mags.map (magBin edges)))[k]? = some (magFilter lo edges[k + 1]? mags).length := by
  have hlt : k < edges.length := (List.getElem?_eq_some_iff.mp hk).1
  rw [magnitudeCounts_eq]
  unfold countVec magFilter
  simp only [List.getElem?_map, List.getElem?_range hlt, Option.map_some, Option.some.injEq]
  rw [List.countP_map, List.countP_eq_length_filter]
  congr 1
  apply List.filter_congr
  intro m _
  simp only [Function.comp]
  have key := magBin_eq_some_iff edges m k hs
  by_cases hb : magBin edges m = some k
  · obtain ⟨e, he, hle, hup⟩ := key.mp hb
    rw [hk] at he
    have : e = lo := (Option.some.inj he).symm
    subst this
    cases hnext : edges[k + 1]? with
    | none => simp [hb, hle]
    | some e' => simp [hb, hle, hup e' hnext]
  · have hne : (magBin edges m == some k) = false := by simpa using hb
    rw [hne]
    symm
    rw [Bool.eq_false_iff]
    intro hcon
    apply hb
    apply key.mpr
    simp only [Bool.and_eq_true, decide_eq_true_eq] at hcon
    refine ⟨lo, hk, hcon.1, ?_⟩
    intro e' he'
    rw [he'] at hcon
    simpa using hcon.2

/-- an event outside the spatial region is never silently counted: space-magnitude gridding rejects the catalog -/
theorem smc_rejects_outside (ncell nbin : Nat) (evs : List Ev) (e : Ev) (he : e ∈ evs) (hout : e.cell = none) :
    smcCart ncell nbin evs = .error .outside ∧ smcQuad ncell nbin evs = .error .outside := by
  have : evs.any (fun e => e.cell.isNone) = true := List.any_eq_true.mpr ⟨e, he, by simp [hout]⟩
  rw [smcCart_eq, smcQuad_eq]; simp [this]

/-- an event below the lowest magnitude edge is never silently counted: space-magnitude gridding rejects the catalog -/
theorem smc_rejects_below_min (ncell nbin : Nat) (evs : List Ev) (e : Ev) (he : e ∈ evs) (hlow : e.bin = none) :
    (∃ err, smcCart ncell nbin evs = .error err) ∧ (∃ err, smcQuad ncell nbin evs = .error err) := by
  have : evs.any (fun e => e.bin.isNone) = true := List.any_eq_true.mpr ⟨e, he, by simp [hlow]⟩
  rw [smcCart_eq, smcQuad_eq]
  by_cases hc : evs.any (fun e => e.cell.isNone) = true <;> simp [this, hc]

/-- the magnitude histogram leaves events below the first edge uncounted: bin k holds exactly the events whose bin is
    k, and the total is the number of events at or above the first edge (none of them lands in another bin) -/
theorem magCounts_ignores_below_min (nbin : Nat) (bins : List (Option Nat)) :
    magnitudeCounts nbin bins = countVec nbin bins ∧
    magnitudeCounts nbin bins = magnitudeCounts nbin (bins.filter (·.isSome)) ∧
    ((∀ b ∈ bins, ∀ k, b = some k → k < nbin) →
      (magnitudeCounts nbin bins).sum = bins.countP (·.isSome)) := by
  refine ⟨magnitudeCounts_eq nbin bins, ?_, ?_⟩
  · rw [magnitudeCounts_eq, magnitudeCounts_eq]
    unfold countVec
    apply List.map_congr_left
    intro k _
    rw [List.countP_filter]
    apply List.countP_congr
    intro o _
    cases o <;> simp
  · intro h
    rw [magnitudeCounts_eq, sum_countVec]
    apply List.countP_congr
    intro o ho
    cases o with
    | none => simp
    | some k => simp [h (some k) ho k rfl]

/-- with a quadtree region (whose lookup DROPS the points no tile contains) the i-th location is paired with the i-th
    magnitude or the call is rejected: the result is the same function of the event list as with a Cartesian region -/
theorem quadtree_pairing (ncell nbin : Nat) (evs : List Ev) : smcQuad ncell nbin evs = smcCart ncell nbin evs := by
  rw [smcQuad_eq, smcCart_eq]

/-- the quadtree lookup returns k ⇔ tile k's half-open bounds contain the point and no earlier tile's do -/
theorem qtFind_eq_some_iff (bounds : List (Rat × Rat × Rat × Rat)) (p : Rat × Rat) (k : Nat) :
    qtFind bounds p = some k ↔
      (∃ b, bounds[k]? = some b ∧ b.1 ≤ p.1 ∧ b.2.1 ≤ p.2 ∧ p.1 < b.2.2.1 ∧ p.2 < b.2.2.2) ∧
      ∀ k' b', k' < k → bounds[k']? = some b' → ¬ (b'.1 ≤ p.1 ∧ b'.2.1 ≤ p.2 ∧ p.1 < b'.2.2.1 ∧ p.2 < b'.2.2.2) := by
  unfold qtFind
  rw [List.findIdx?_eq_some_iff_getElem]
  constructor
  · rintro ⟨hk, hp, hbefore⟩
    refine ⟨⟨bounds[k], List.getElem?_eq_getElem hk, ?_⟩, ?_⟩
    · simpa [and_assoc] using hp
    · intro k' b' hlt hget hcon
      have hk' := (List.getElem?_eq_some_iff.mp hget).1
      have := hbefore k' hlt
      rw [(List.getElem?_eq_some_iff.mp hget).2] at this
      apply this
      simpa [and_assoc] using hcon
  · rintro ⟨⟨b, hget, hb⟩, hbefore⟩
    have hk := (List.getElem?_eq_some_iff.mp hget).1
    refine ⟨hk, ?_, ?_⟩
    · rw [(List.getElem?_eq_some_iff.mp hget).2]; simpa [and_assoc] using hb
    · intro j hj hcon
      have hjl : j < bounds.length := by omega
      apply hbefore j bounds[j] hj (List.getElem?_eq_getElem hjl)
      simpa [and_assoc] using hcon

/-- no tile contains the point ⇔ the lookup returns nothing (the point is then dropped) -/
theorem qtFind_eq_none_iff (bounds : List (Rat × Rat × Rat × Rat)) (p : Rat × Rat) :
    qtFind bounds p = none ↔ ∀ b ∈ bounds, ¬ (b.1 ≤ p.1 ∧ b.2.1 ≤ p.2 ∧ p.1 < b.2.2.1 ∧ p.2 < b.2.2.2) := by
  unfold qtFind
  rw [List.findIdx?_eq_none_iff]
  constructor
  · intro h b hb hcon
    have := h b hb
    simp only [hcon.1, hcon.2.1, hcon.2.2.1, hcon.2.2.2, decide_true, Bool.and_self] at this
    exact absurd this (by decide)
  · intro h b hb
    have := h b hb
    cases hval : (decide (b.1 ≤ p.1) && decide (b.2.1 ≤ p.2) && decide (p.1 < b.2.2.1) && decide (p.2 < b.2.2.2)) with
    | false => rfl
    | true =>
      simp only [Bool.and_eq_true, decide_eq_true_eq] at hval
      exact absurd ⟨hval.1.1.1, hval.1.1.2, hval.1.2, hval.2⟩ this

/-- spatial counts with a quadtree region: dropped events are not counted anywhere -/
theorem quadtree_counts (ncell : Nat) (locs : List (Option Nat)) (i : Nat) (hi : i < ncell) :
    (spatialCountsQuad ncell locs)[i]? = some (locs.countP (fun o => o == some i)) := by
  rw [spatialCountsQuad_eq]; simp [countVec, hi]

/-- the whole pipeline with a Cartesian region and magnitude edges: entry (i,k) is the number of events whose location
    the region attributes to polygon i (property C01's partition) and whose magnitude m satisfies
    `edge_k ≤ m < edge_(k+1)` (no upper bound for the last bin) -/
theorem smc_entry_pipeline (R : Region.Region) (edges : List Rat) (hs : edges.Pairwise (· < ·))
    (evs : List (Rat × Rat × Rat)) (M : List (List Nat))
    (h : smcCart R.cells.length edges.length (evsCart R edges evs) = .ok M) (i k : Nat) (hi : i < R.cells.length)
    (lo : Rat) (hk : edges[k]? = some lo) :
    entry M i k = some (evs.countP (fun e => R.cellOf (e.1, e.2.1) == some i &&
      (decide (lo ≤ e.2.2) && (match edges[k + 1]? with | some hi => decide (e.2.2 < hi) | none => true)))) := by
  have hlt : k < edges.length := (List.getElem?_eq_some_iff.mp hk).1
  rw [smc_entry _ _ _ M h i k hi hlt]
  unfold evsCart
  rw [List.countP_map]
  congr 1
  apply List.countP_congr
  intro e _
  simp only [Function.comp]
  have key := magBin_eq_some_iff edges e.2.2 k hs
  by_cases hb : magBin edges e.2.2 = some k
  · obtain ⟨e0, he0, hle, hup⟩ := key.mp hb
    rw [hk] at he0
    have : e0 = lo := (Option.some.inj he0).symm
    subst this
    cases hnext : edges[k + 1]? with
    | none => simp [hb, hle]
    | some e' => simp [hb, hle, hup e' hnext]
  · have hne : (magBin edges e.2.2 == some k) = false := by simpa using hb
    have : (decide (lo ≤ e.2.2) && (match edges[k + 1]? with | some hi => decide (e.2.2 < hi) | none => true)) = false := by
      rw [Bool.eq_false_iff]
      intro hcon
      apply hb
      apply key.mpr
      simp only [Bool.and_eq_true, decide_eq_true_eq] at hcon
      refine ⟨lo, hk, hcon.1, ?_⟩
      intro e' he'
      rw [he'] at hcon
      simpa using hcon.2
    simp [hne, this]

/-! ### the hypotheses are satisfiable -/

def exEvs : List Ev := [⟨some 0, some 1⟩, ⟨some 2, some 0⟩, ⟨some 0, some 1⟩, ⟨some 1, some 2⟩]

example : InRange 3 3 exEvs := by unfold InRange exEvs; decide
example : smcCart 3 3 exEvs = .ok [[0, 2, 0], [0, 0, 1], [1, 0, 0]] := by decide +kernel
example : smcQuad 3 3 (⟨none, some 0⟩ :: exEvs) = .error .outside := by decide +kernel
example : smcCart 3 3 (exEvs ++ [⟨some 1, none⟩]) = .error .belowMin := by decide +kernel
example : magnitudeCounts 3 [some 1, none, some 0, some 1, some 2] = [1, 2, 1] := by decide +kernel
example : ([4, 5, 6] : List Rat).Pairwise (· < ·) := by decide +kernel
example : qtFind [(0, 0, 1, 1), (1, 0, 2, 1)] (1, 1/2) = some 1 ∧ qtFind [(0, 0, 1, 1), (1, 0, 2, 1)] (2, 1/2) = none := by
  decide +kernel
example : (magnitudeCounts 3 ([3, 9/2, 15/2].map (magBin [4, 5, 6]))) = [1, 0, 1] := by decide +kernel   -- witness of D5

end Gridding
