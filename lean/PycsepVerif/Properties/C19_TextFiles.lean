import PycsepVerif.Properties.C19_Text

/-!
# C19, text level, the other formats: from the characters of a ZMAP / HORUS / JMA file to the events

`Properties/C19_Text.lean` connects the NDK and CSEP-CSV text models to the token models.  Here the same for
`numpy.loadtxt` (ZMAP), `numpy.genfromtxt` (HORUS) and the `;`-separated JMA csv: field splitting is proved to return
the fields that were written (`split_ws_join`, `split_on_join`), and a file made of lines (LF or CRLF) whose fields read as
the tokens of well-formed records is proved to load as one event per record, in file order — for files of any length.
-/
namespace ReaderText
open Readers

/-! ## field splitting returns the fields that were written -/

def noWs (t : Str) : Prop := ∀ c ∈ t, isWs c = false
def allWs (s : Str) : Prop := ∀ c ∈ s, isWs c = true
instance (t : Str) : Decidable (noWs t) := by unfold noWs; infer_instance
instance (t : Str) : Decidable (allWs t) := by unfold allWs; infer_instance

theorem forall2_left {α β : Type} {P : α → β → Prop} {Q : α → Prop} (hPQ : ∀ a b, P a b → Q a) :
    ∀ {l : List α} {r : List β}, List.Forall₂ P l r → ∀ a ∈ l, Q a
  | _, _, .nil, a, ha => by simp at ha
  | _, _, .cons hd tl, a, ha => by
    simp only [List.mem_cons] at ha
    rcases ha with rfl | ha
    · exact hPQ _ _ hd
    · exact forall2_left hPQ tl a ha

theorem forall2_mapM {α γ : Type} {P : α → γ → Prop} (f : α → Option γ) (hP : ∀ a b, P a b → f a = some b) :
    ∀ {l : List α} {r : List γ}, List.Forall₂ P l r → l.mapM f = some r
  | _, _, .nil => rfl
  | _, _, .cons hd tl => by
    have ih := forall2_mapM f hP tl
    simp only [List.mapM_cons, hP _ _ hd, ih]
    rfl

theorem splitWsAux_token (t : Str) (ht : noWs t) (cur rest : Str) :
    splitWsAux cur (t ++ rest) = splitWsAux (t.reverse ++ cur) rest := by
  induction t generalizing cur with
  | nil => rfl
  | cons c cs ih =>
    have hc : isWs c = false := ht c (by simp)
    simp only [List.cons_append, splitWsAux, hc, Bool.false_eq_true, if_false]
    rw [ih (fun x hx => ht x (List.mem_cons_of_mem _ hx))]
    simp

theorem splitWsAux_sep_nil (s : Str) (hs : allWs s) (rest : Str) : splitWsAux [] (s ++ rest) = splitWsAux [] rest := by
  induction s with
  | nil => rfl
  | cons c cs ih =>
    have hc : isWs c = true := hs c (by simp)
    simp only [List.cons_append, splitWsAux, hc, if_true, List.isEmpty_nil]
    exact ih (fun x hx => hs x (List.mem_cons_of_mem _ hx))

theorem splitWsAux_sep (s : Str) (hs : allWs s) (hne : s ≠ []) (cur rest : Str) (hcur : cur ≠ []) :
    splitWsAux cur (s ++ rest) = cur.reverse :: splitWsAux [] rest := by
  cases s with
  | nil => exact absurd rfl hne
  | cons c cs =>
    have hc : isWs c = true := hs c (by simp)
    have hemp : cur.isEmpty = false := by cases cur with | nil => exact absurd rfl hcur | cons _ _ => rfl
    simp only [List.cons_append, splitWsAux, hc, if_true, hemp, Bool.false_eq_true, if_false]
    rw [splitWsAux_sep_nil cs (fun x hx => hs x (List.mem_cons_of_mem _ hx))]

/-- a line written as `lead tok₁ sep₁ tok₂ sep₂ … tokₙ tail`: tokens non-empty without whitespace, separators non-empty
    runs of blanks / tabs, optional leading and trailing whitespace -/
def wsLine (lead : Str) (parts : List (Str × Str)) (last tail : Str) : Str :=
  lead ++ parts.flatMap (fun p => p.1 ++ p.2) ++ last ++ tail

/-- **`str.split()` / loadtxt / genfromtxt field splitting**: the fields are exactly the tokens that were written,
    whatever the widths of the separators (single blank, tabs, `%20.10f` padding) -/
theorem split_ws_join (lead : Str) (parts : List (Str × Str)) (last tail : Str) (hlead : allWs lead) (htail : allWs tail)
    (hparts : ∀ p ∈ parts, noWs p.1 ∧ p.1 ≠ [] ∧ allWs p.2 ∧ p.2 ≠ []) (hlast : noWs last ∧ last ≠ []) :
    splitWs (wsLine lead parts last tail) = parts.map (·.1) ++ [last] := by
  unfold splitWs wsLine
  simp only [List.append_assoc]
  rw [splitWsAux_sep_nil lead hlead]
  induction parts with
  | nil =>
    simp only [List.flatMap_nil, List.nil_append, List.map_nil]
    rw [splitWsAux_token last hlast.1, List.append_nil]
    have hr : last.reverse ≠ [] := by simpa using hlast.2
    cases tail with
    | nil =>
      have : last.reverse.isEmpty = false := by cases h : last.reverse with | nil => exact absurd h hr | cons _ _ => rfl
      simp [splitWsAux, this]
    | cons c cs =>
      have := splitWsAux_sep (c :: cs) htail (by simp) last.reverse [] hr
      simp only [List.append_nil] at this
      rw [this]; simp [splitWsAux]
  | cons p ps ih =>
    obtain ⟨h1, h2, h3, h4⟩ := hparts p (by simp)
    simp only [List.flatMap_cons, List.append_assoc, List.map_cons, List.cons_append]
    rw [splitWsAux_token p.1 h1, List.append_nil, splitWsAux_sep p.2 h3 h4 _ _ (by simpa using h2), List.reverse_reverse]
    congr 1
    exact ih (fun q hq => hparts q (List.mem_cons_of_mem _ hq))

theorem splitOnAux_field (d : Char) (f : Str) (hf : ∀ c ∈ f, (c == d) = false) (cur rest : Str) :
    splitOnAux d cur (f ++ d :: rest) = (cur.reverse ++ f) :: splitOnAux d [] rest := by
  induction f generalizing cur with
  | nil => simp [splitOnAux]
  | cons c cs ih =>
    have hc := hf c (by simp)
    simp only [List.cons_append, splitOnAux, hc, Bool.false_eq_true, if_false]
    rw [ih (fun x hx => hf x (List.mem_cons_of_mem _ hx))]
    simp

theorem splitOnAux_last (d : Char) (f : Str) (hf : ∀ c ∈ f, (c == d) = false) (cur : Str) :
    splitOnAux d cur f = [cur.reverse ++ f] := by
  induction f generalizing cur with
  | nil => simp [splitOnAux]
  | cons c cs ih =>
    have hc := hf c (by simp)
    simp only [splitOnAux, hc, Bool.false_eq_true, if_false]
    rw [ih (fun x hx => hf x (List.mem_cons_of_mem _ hx))]
    simp

/-- fields joined by the delimiter -/
def joinOn (d : Char) : List Str → Str
  | [] => []
  | [f] => f
  | f :: fs => f ++ d :: joinOn d fs

/-- **a csv row without quoting** (`;` for JMA, `,` for CSEP): the fields are exactly those that were joined -/
theorem split_on_join (d : Char) (fs : List Str) (hne : fs ≠ []) (hf : ∀ f ∈ fs, ∀ c ∈ f, (c == d) = false) :
    splitOn d (joinOn d fs) = fs := by
  unfold splitOn
  induction fs with
  | nil => exact absurd rfl hne
  | cons f rest ih =>
    cases rest with
    | nil => simp [joinOn, splitOnAux_last d f (hf f (by simp))]
    | cons g rest' =>
      have : joinOn d (f :: g :: rest') = f ++ d :: joinOn d (g :: rest') := rfl
      rw [this, splitOnAux_field d f (hf f (by simp))]
      simp only [List.reverse_nil, List.nil_append]
      congr 1
      exact ih (by simp) (fun x hx => hf x (List.mem_cons_of_mem _ hx))

/-! ## files -/

theorem mem_joinLines (c : Char) (eol : Str) (ls : List Str) :
    c ∈ joinLines eol ls ↔ ∃ l ∈ ls, c ∈ l ∨ c ∈ eol := by
  simp [joinLines, List.mem_flatMap, List.mem_append]

def eolOf (crlf : Bool) : Str := if crlf then ['\r', '\n'] else ['\n']

theorem lines_joinLines (crlf : Bool) (ls : List Str) (h : ∀ l ∈ ls, cleanLine l) : lines (joinLines (eolOf crlf) ls) = ls := by
  cases crlf
  · exact lines_joinLines_lf ls h
  · exact lines_joinLines_crlf ls h

theorem contains_joinLines_false (c : Char) (crlf : Bool) (ls : List Str) (hc : c ≠ '\r' ∧ c ≠ '\n')
    (h : ∀ l ∈ ls, c ∉ l) : (joinLines (eolOf crlf) ls).contains c = false := by
  rw [Bool.eq_false_iff]
  intro hcon
  rw [List.contains_iff_mem, mem_joinLines] at hcon
  obtain ⟨l, hl, h1 | h1⟩ := hcon
  · exact h l hl h1
  · cases crlf <;> simp [eolOf] at h1 <;> tauto

/-- ZMAP, file level: a file of lines (LF or CRLF) without comment character whose fields read as the numeric table
    `rows` loads as the token model on those rows -/
theorem zmap_file_refines_tokens (ls : List Str) (rows : List (List Rat)) (crlf : Bool)
    (hclean : ∀ l ∈ ls, cleanLine l) (hhash : ∀ l ∈ ls, '#' ∉ l) (ht : numericTable ls = some rows) :
    zmapFile (joinLines (eolOf crlf) ls) = some (decodeZmap rows) := by
  unfold zmapFile
  rw [contains_joinLines_false '#' crlf ls (by decide) hhash, lines_joinLines crlf ls hclean, ht]
  rfl

/-- ZMAP, characters to events: the rows are the encodings of the events `zs` (integer or decimal year, optional
    trailing columns): one event per record, in file order, whole seconds -/
theorem zmap_file_one_event_per_record (ls : List Str) (zs : List (SecEvent × Rat × List Rat)) (crlf : Bool)
    (hclean : ∀ l ∈ ls, cleanLine l) (hhash : ∀ l ∈ ls, '#' ∉ l)
    (ht : numericTable ls = some (zs.map fun z => encodeZmap z.1 z.2.1 z.2.2))
    (h : ∀ z ∈ zs, z.1.wf ∧ 0 ≤ z.2.1 ∧ z.2.1 < 1) :
    zmapFile (joinLines (eolOf crlf) ls) = some (.ok (zs.map fun z => z.1.expected)) := by
  rw [zmap_file_refines_tokens ls _ crlf hclean hhash ht, decode_encode_zmap zs h]

/-- the table of a list of lines whose fields are known: every line non-blank, split into `width` fields, every field
    a numeral with the given value -/
theorem numericTable_of_fields (ls : List Str) (rows : List (List Rat)) (width : Nat)
    (h : List.Forall₂ (fun l r => isBlank l = false ∧ (splitWs l).length = width ∧ (splitWs l).mapM pyFloat = some r) ls rows) :
    numericTable ls = some rows := by
  have hfil : ls.filter (fun l => !isBlank l) = ls := by
    apply List.filter_eq_self.mpr
    intro l hl
    have := forall2_left (Q := fun l => isBlank l = false) (fun a b hab => hab.1) h l hl
    simp [this]
  have hmap : (ls.map splitWs).mapM (fun r => r.mapM pyFloat) = some rows := by
    rw [List.mapM_map]
    exact forall2_mapM _ (fun a b hab => hab.2.2) h
  have hall : ∀ r ∈ ls.map splitWs, r.length = width := by
    intro r hr
    obtain ⟨l, hl, rfl⟩ := List.mem_map.mp hr
    exact forall2_left (Q := fun l => (splitWs l).length = width) (fun a b hab => hab.2.1) h l hl
  unfold numericTable
  rw [hfil]
  cases hls : ls.map splitWs with
  | nil =>
    rw [hls] at hmap
    simpa using hmap
  | cons r0 rest =>
    rw [hls] at hmap hall
    have : (r0 :: rest).all (fun r => r.length == r0.length) = true := by
      rw [List.all_eq_true]
      intro r hr
      simp [hall r hr, hall r0 (by simp)]
    simp only [this, if_true]
    exact hmap

/-- HORUS, file level: header line skipped, then as ZMAP with genfromtxt's typed columns -/
theorem horus_file_refines_tokens (hdr : Str) (ls : List Str) (rs : List HorusRec) (crlf : Bool) (width : Nat)
    (hclean : ∀ l ∈ hdr :: ls, cleanLine l) (hhash : ∀ l ∈ hdr :: ls, '#' ∉ l) (hne : ls ≠ [])
    (h : List.Forall₂ (fun l r => isBlank l = false ∧ (splitWs l).length = width ∧ horusTokens (splitWs l) = some r) ls rs) :
    horusFile (joinLines (eolOf crlf) (hdr :: ls)) = some (decodeHorus rs) := by
  have hfil : ls.filter (fun l => !isBlank l) = ls := by
    apply List.filter_eq_self.mpr
    intro l hl
    have := forall2_left (Q := fun l => isBlank l = false) (fun a b hab => hab.1) h l hl
    simp [this]
  have hmap : (ls.map splitWs).mapM horusTokens = some rs := by
    rw [List.mapM_map]
    exact forall2_mapM _ (fun a b hab => hab.2.2) h
  have hall : ∀ r ∈ ls.map splitWs, r.length = width := by
    intro r hr
    obtain ⟨l, hl, rfl⟩ := List.mem_map.mp hr
    exact forall2_left (Q := fun l => (splitWs l).length = width) (fun a b hab => hab.2.1) h l hl
  unfold horusFile
  rw [contains_joinLines_false '#' crlf _ (by decide) hhash, lines_joinLines crlf _ hclean]
  simp only [List.drop_succ_cons, List.drop_zero, hfil, Bool.false_eq_true, if_false]
  cases hls : ls.map splitWs with
  | nil =>
    have : ls = [] := by simpa using hls
    exact absurd this hne
  | cons r0 rest =>
    rw [hls] at hmap hall
    have : (r0 :: rest).all (fun r => r.length == r0.length) = true := by
      rw [List.all_eq_true]
      intro r hr
      simp [hall r hr, hall r0 (by simp)]
    simp only [this, if_true, hmap]

/-- HORUS, characters to events (normal notation; the denormalised forms compose with `decode_encode_horus_denorm`
    in the same way) -/
theorem horus_file_one_event_per_record (hdr : Str) (ls : List Str) (es : List SecEvent) (crlf : Bool) (width : Nat)
    (hclean : ∀ l ∈ hdr :: ls, cleanLine l) (hhash : ∀ l ∈ hdr :: ls, '#' ∉ l) (hne : ls ≠ [])
    (h : List.Forall₂ (fun l r => isBlank l = false ∧ (splitWs l).length = width ∧ horusTokens (splitWs l) = some r) ls
      (es.map fun e => encodeHorus e false false false))
    (hwf : ∀ e ∈ es, e.wf) :
    horusFile (joinLines (eolOf crlf) (hdr :: ls)) = some (.ok (es.map SecEvent.expected)) := by
  rw [horus_file_refines_tokens hdr ls _ crlf width hclean hhash hne h, decode_encode_horus es hwf]

/-- JMA, file level: lines (LF or CRLF) without quote character whose `;`-separated fields read as the tokens `toks` -/
theorem jma_file_refines_tokens (ls : List Str) (toks : List JmaLine) (crlf : Bool)
    (hclean : ∀ l ∈ ls, cleanLine l) (hq : ∀ l ∈ ls, '"' ∉ l)
    (ht : ls.mapM (fun l => jmaTokens (splitOn ';' l)) = some toks) :
    jmaFile (joinLines (eolOf crlf) ls) = some (decodeJmaF toks) := by
  unfold jmaFile
  rw [contains_joinLines_false '"' crlf ls (by decide) hq, lines_joinLines crlf ls hclean, ht]
  rfl

/-- JMA, characters to events through the FLOAT path the reader really takes: records with any UTC offset and a
    millisecond-resolution fraction load as exactly the UTC millisecond, one event per record, in file order -/
theorem jma_file_one_event_per_record (ls : List Str) (rs : List (MsEvent × Clock × Int)) (header crlf : Bool)
    (hclean : ∀ l ∈ ls, cleanLine l) (hq : ∀ l ∈ ls, '"' ∉ l)
    (ht : ls.mapM (fun l => jmaTokens (splitOn ';' l))
      = some ((if header then [Line.header] else []) ++ rs.map fun r => encodeJma r.1 r.2.1 r.2.2))
    (h : ∀ r ∈ rs, r.2.1.valid = true ∧ 0 ≤ r.1.us ∧ r.1.us < 1000000 ∧ r.1.us % 1000 = 0 ∧
      -8796093022208 < (r.2.1.epochSec - r.2.2) * 1000 + r.1.us / 1000 ∧
      (r.2.1.epochSec - r.2.2) * 1000 + r.1.us / 1000 < 8796093022208) :
    jmaFile (joinLines (eolOf crlf) ls)
      = some (.ok (rs.map fun r => ⟨(r.2.1.epochSec - r.2.2) * 1000 + r.1.us / 1000, r.1.lat, r.1.lon, r.1.depth, r.1.mag⟩)) := by
  rw [jma_file_refines_tokens ls _ crlf hclean hq ht, decode_encode_jma_float rs h header]

/-! ### non-vacuity -/

/-- the real HORUS layout: `%20.10f`-style padding, tabs, a trailing tab -/
example : splitWs (wsLine "  ".toList [("2020".toList, "\t".toList), ("12".toList, " \t ".toList)] "4.2900000000".toList "\t".toList)
    = ["2020".toList, "12".toList, "4.2900000000".toList] :=
  split_ws_join _ _ _ _ (by decide) (by decide) (by decide) (by decide)

example : splitOn ';' (joinOn ';' ["1919-11-10T22:31:03.59+0900".toList, "139.5".toList, [], "7.9".toList])
    = ["1919-11-10T22:31:03.59+0900".toList, "139.5".toList, [], "7.9".toList] := by decide +kernel

/-- a two-line JMA file with header, "+0900" offset and CRLF line ends, from characters to the UTC millisecond -/
example : jmaFile (joinLines (eolOf true) ["timestamp;longitude;latitude;depth;magnitude".toList,
      "1970-01-01T09:00:01.500000+0900;139.5;35.25;10.0;6.5".toList])
    = some (.ok [⟨1500, 141/4, 279/2, 10, 13/2⟩]) := by decide +kernel

end ReaderText
