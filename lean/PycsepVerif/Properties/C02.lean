import PycsepVerif.Proofs.Bin1d
import PycsepVerif.Proofs.Bin1dTabMw1
import PycsepVerif.Proofs.Bin1dTabMw2
import PycsepVerif.Proofs.Bin1dTabMw3
import PycsepVerif.Proofs.Bin1dTabM595
import PycsepVerif.Proofs.Bin1dTabNzx
import PycsepVerif.Proofs.Bin1dTabNzy
import PycsepVerif.Proofs.Bin1dTabMwThr
import PycsepVerif.Proofs.Bin1dTabRegionsAll

/-!
# C02 — 1-D binning is lower-inclusive, upper-exclusive, open at the top; edge generators hit the decimal grid

Theorems about `Model/Bin1d.lean` (model of csep/utils/calc.py `bin1d_vec`, `cleaner_range`).
Exact layer: all rational grids / values, no size bound.
-/
namespace Bin1d
open Soft64

/-! ## exact layer: the regular grid -/

/-- C02 "bin k exactly when edge_k ≤ v < edge_(k+1)" (closed mode: every k < n; open mode: every k below the last). -/
theorem binReg_eq_iff {a0 h : ℚ} (hh : 0 < h) {n : ℕ} (rc : Bool) {k : ℤ} (hk0 : 0 ≤ k) (hkn : k < n)
    (hrc : rc = true → k + 1 < n) (v : ℚ) :
    binReg a0 h n rc v = k ↔ a0 + k * h ≤ v ∧ v < a0 + (k + 1) * h := by
  rw [← floor_div_eq_iff hh]
  unfold binReg
  simp only [rfloor_eq]
  cases rc with
  | true =>
    have := hrc rfl
    simp only [if_true]
    split_ifs <;> constructor <;> intro h1 <;> omega
  | false =>
    simp only [Bool.false_eq_true, if_false]
    split_ifs <;> constructor <;> intro h1 <;> omega

example : binReg (59/10) (273/10) 5 false (878/10) = 3 :=
  (binReg_eq_iff (by norm_num) false (by norm_num) (by norm_num) (by simp) _).2 (by norm_num)

/-- open mode, last bin: index n-1 exactly when the last edge ≤ v -/
theorem binReg_open_top {a0 h : ℚ} (hh : 0 < h) {n : ℕ} (hn : 0 < n) (v : ℚ) :
    binReg a0 h n true v = (n : ℤ) - 1 ↔ a0 + ((n : ℤ) - 1 : ℤ) * h ≤ v := by
  rw [← le_floor_div_iff hh]
  unfold binReg
  simp only [rfloor_eq, if_true]
  split_ifs <;> constructor <;> intro h1 <;> omega

example : binReg (5/2) (1/10) 76 true 1000 = 75 := (binReg_open_top (by norm_num) (by norm_num) _).2 (by norm_num)

/-- values below the first edge are out of range, in both modes -/
theorem binReg_below_first {a0 h : ℚ} (hh : 0 < h) (n : ℕ) (rc : Bool) {v : ℚ} (hv : v < a0) :
    binReg a0 h n rc v = -1 := by
  have : ⌊(v - a0) / h⌋ < 0 := by
    rw [floor_div_lt_iff hh]; simpa using hv
  unfold binReg
  simp only [rfloor_eq]
  omega

/-- closed mode: at or beyond the upper edge of the last bin → out of range -/
theorem binReg_closed_top {a0 h : ℚ} (hh : 0 < h) (n : ℕ) {v : ℚ} (hv : a0 + (n : ℤ) * h ≤ v) :
    binReg a0 h n false v = -1 := by
  have : (n : ℤ) ≤ ⌊(v - a0) / h⌋ := (le_floor_div_iff hh v n).2 hv
  unfold binReg
  simp only [rfloor_eq, Bool.false_eq_true, if_false]
  split_ifs <;> omega

/-- a value equal to an edge lands in the bin that edge opens (both modes) -/
theorem binReg_edge {a0 h : ℚ} (hh : 0 < h) {n : ℕ} (rc : Bool) {k : ℤ} (hk0 : 0 ≤ k) (hkn : k < n) :
    binReg a0 h n rc (a0 + k * h) = k := by
  have hq : ⌊(a0 + k * h - a0) / h⌋ = k := by
    rw [floor_div_eq_iff hh]; constructor <;> nlinarith
  unfold binReg
  simp only [rfloor_eq, hq]
  cases rc <;> simp <;> split_ifs <;> omega

example : binReg (119/20) (1/10) 30 true (119/20 + (7 : ℤ) * (1/10)) = 7 :=
  binReg_edge (by norm_num) true (by norm_num) (by norm_num)

/-- the result is always −1 or a valid bin index -/
theorem binReg_range (a0 h : ℚ) {n : ℕ} (hn : 0 < n) (rc : Bool) (v : ℚ) :
    -1 ≤ binReg a0 h n rc v ∧ binReg a0 h n rc v ≤ (n : ℤ) - 1 := by
  unfold binReg
  cases rc <;> simp <;> split_ifs <;> omega

/-- bin assignment is monotone in v: open mode for all values; closed mode as long as the larger value is in range -/
theorem binReg_mono {a0 h : ℚ} (hh : 0 < h) {n : ℕ} (rc : Bool) {v w : ℚ} (hvw : v ≤ w)
    (hw : rc = false → w < a0 + (n : ℤ) * h) :
    binReg a0 h n rc v ≤ binReg a0 h n rc w := by
  have hq : ⌊(v - a0) / h⌋ ≤ ⌊(w - a0) / h⌋ :=
    Int.floor_mono (div_le_div_of_nonneg_right (by linarith) hh.le)
  unfold binReg
  simp only [rfloor_eq]
  cases rc with
  | true => simp only [if_true]; split_ifs <;> omega
  | false =>
    have := (floor_div_lt_iff hh w n).2 (hw rfl)
    simp only [Bool.false_eq_true, if_false]
    split_ifs <;> omega

/-! ## exact layer: arbitrary increasing edges -/

/-- `binIdeal` is the largest k with `edges[k] ≤ v`: for strictly increasing edges,
`binIdeal = k ↔ edges[k] ≤ v < edges[k+1]` (no upper condition for the last edge: open top). -/
theorem binIdeal_eq_iff {edges : List ℚ} (hs : edges.Pairwise (· < ·)) (v : ℚ) {k : ℕ} (hk : k < edges.length) :
    binIdeal edges v = k ↔ edges[k] ≤ v ∧ ∀ h1 : k + 1 < edges.length, v < edges[k + 1] := by
  unfold binIdeal
  have hc : edges.countP (fun e => decide (e ≤ v)) ≤ edges.length := List.countP_le_length
  have h0 := getElem_le_iff_lt_countP hs v k hk
  constructor
  · intro h
    refine ⟨h0.2 (by omega), fun h1 => ?_⟩
    have := getElem_le_iff_lt_countP hs v (k + 1) h1
    rw [← not_le, this]; omega
  · rintro ⟨h1, h2⟩
    have hk1 := h0.1 h1
    by_cases hl : k + 1 < edges.length
    · have := getElem_le_iff_lt_countP hs v (k + 1) hl
      have h3 := h2 hl
      rw [← not_le, this] at h3; omega
    · omega

/-- below the first edge → −1 -/
theorem binIdeal_below_first {edges : List ℚ} {v : ℚ} (h : ∀ e ∈ edges, v < e) : binIdeal edges v = -1 := by
  unfold binIdeal
  have : edges.countP (fun e => decide (e ≤ v)) = 0 := by
    rw [List.countP_eq_zero]; intro e he; simpa using h e he
  simp [this]

/-- at or above every edge (in particular: at or above the last edge of an increasing grid) → last index -/
theorem binIdeal_open_top {edges : List ℚ} {v : ℚ} (h : ∀ e ∈ edges, e ≤ v) :
    binIdeal edges v = (edges.length : ℤ) - 1 := by
  unfold binIdeal
  have : edges.countP (fun e => decide (e ≤ v)) = edges.length := by
    rw [List.countP_eq_length]; intro e he; simpa using h e he
  rw [this]

/-- monotone in v, for every edge list -/
theorem binIdeal_mono (edges : List ℚ) {v w : ℚ} (hvw : v ≤ w) : binIdeal edges v ≤ binIdeal edges w := by
  unfold binIdeal
  have : edges.countP (fun e => decide (e ≤ v)) ≤ edges.countP (fun e => decide (e ≤ w)) := by
    apply List.countP_mono_left
    intro e _ he
    simp only [decide_eq_true_eq] at he ⊢
    exact le_trans he hvw
  omega

theorem binIdeal_range (edges : List ℚ) (v : ℚ) :
    -1 ≤ binIdeal edges v ∧ binIdeal edges v ≤ (edges.length : ℤ) - 1 := by
  unfold binIdeal
  have : edges.countP (fun e => decide (e ≤ v)) ≤ edges.length := List.countP_le_length
  omega

/-- on an exactly regular grid the ideal bin is the regular-grid formula (open-topped) -/
theorem binIdeal_eq_binReg {a0 h : ℚ} (hh : 0 < h) (n : ℕ) (v : ℚ) :
    binIdeal (regEdges a0 h n) v = binReg a0 h n true v := by
  unfold binIdeal regEdges binReg
  rw [List.countP_map]
  have hfun : ((fun e => decide (e ≤ v)) ∘ fun (k : ℕ) => a0 + (k : ℚ) * h)
      = fun (k : ℕ) => decide ((k : ℤ) ≤ ⌊(v - a0) / h⌋) := by
    funext k
    simp only [Function.comp]
    congr 1
    rw [le_floor_div_iff hh]
    simp
  rw [hfun, countP_range_le]
  simp only [rfloor_eq, if_true]
  split_ifs <;> omega

example : binIdeal (regEdges (5/2) (1/10) 76) (119/20) = 34 := by
  rw [binIdeal_eq_binReg (by norm_num)]; decide +kernel

end Bin1d

/-! ## Soft64 layer: the float formula as written (calc.py:116-132) -/
namespace Bin1d
open Soft64

/-- C02 "out of range or a valid bin": for every dtype configuration, tolerance override and mode the result is −1
or an index 0..n−1 (never the out-of-bounds `n`). -/
theorem bin1dF_range (c : Cfg) (bins : List ℚ) (hb : bins ≠ []) (p : ℚ) :
    -1 ≤ bin1dF c bins p ∧ bin1dF c bins p ≤ (bins.length : ℤ) - 1 :=
  clampIdx_range _ (List.length_pos_iff.mpr hb) _

/-- C02 "a value at or above an edge may not go below it", structural form (float64, any grid, no regularity
hypothesis): whenever the floor formula yields k and `p` has reached the real next edge `bins[k+1]`, the result is at
least k+1 — or, in closed mode, −1 because `p` has reached the upper edge `bins[-1]+h` of the last bin. -/
theorem bin1dF_never_below_next (rc : Bool) (bins : List ℚ) (p : ℚ) (hn : 1 < bins.length)
    (hn53 : (bins.length : ℤ) ≤ 2 ^ 53) (k : ℤ)
    (hk : ⌊qF bins.length (fun j => bins.getD j 0) p⌋ = k) (hk0 : 0 ≤ k) (hk1 : k + 1 < (bins.length : ℤ))
    (hp : bins.getD (k + 1).toNat 0 ≤ p) :
    k + 1 ≤ bin1dF (cfg64 rc) bins p ∨
      (rc = false ∧ bin1dF (cfg64 rc) bins p = -1 ∧ topOf .f64 bins.length (fun j => bins.getD j 0) ≤ p) := by
  unfold bin1dF
  rw [bin1dCore_cfg64 rc hn hn53, hk]
  have hc := corrInt_hit (n := bins.length) (fun j => bins.getD j 0)
    (topOf .f64 bins.length (fun j => bins.getD j 0)) p hk0 hk1 hp
  cases rc with
  | true => left; exact clampInt_open_ge hc (by omega)
  | false =>
    rcases clampInt_closed_ge hn hc (by omega) with h | ⟨h1, h2⟩
    · left; exact h
    · right
      refine ⟨rfl, h1, ?_⟩
      rcases corrInt_ge_n _ _ _ h2 with h3 | h3
      · exact h3
      · omega

/-- C02 "a value at or above an edge may not go below it", full form for the repaired code (float64 points and
edges, default tolerance). Hypotheses: 2 ≤ n ≤ 2^40 strictly increasing edges; the float step `h = bins[1]-bins[0]`
is at least 2^-1021; the edge tolerance `|a0|·ε` is at most h/4; and every edge lies at most h/4 *below* its
regular position `a0 + j·h` (no condition on the other side). Then the result is never below the ideal bin
(largest k with `bins[k] ≤ p`); the only other outcome is −1 in closed mode, when `p` has reached `bins[-1]+h` or
the floor formula itself has reached n (the band below the upper edge of the last bin). -/
theorem bin1dF_never_below (rc : Bool) (bins : List ℚ) (p : ℚ) (hn : 1 < bins.length)
    (hn40 : (bins.length : ℤ) ≤ 2 ^ 40) (hs : bins.Pairwise (· < ·))
    (hh : pow2 (-1021) ≤ hOf .f64 bins.length (fun j => bins.getD j 0))
    (hat : getTol .f64 (bins.getD 0 0) ≤ hOf .f64 bins.length (fun j => bins.getD j 0) / 4)
    (hreg : ∀ j : ℕ, j < bins.length →
      bins.getD 0 0 + ((j : ℚ) - 1 / 4) * hOf .f64 bins.length (fun j => bins.getD j 0) ≤ bins.getD j 0) :
    binIdeal bins p ≤ bin1dF (cfg64 rc) bins p ∨
      (rc = false ∧ bin1dF (cfg64 rc) bins p = -1 ∧
        (topOf .f64 bins.length (fun j => bins.getD j 0) ≤ p ∨
          (bins.length : ℤ) ≤ ⌊qF bins.length (fun j => bins.getD j 0) p⌋)) := by
  have hb : bins ≠ [] := by intro h; simp [h] at hn
  have hrange := bin1dF_range (cfg64 rc) bins hb p
  have hKr := binIdeal_range bins p
  by_cases hK0 : binIdeal bins p < 0
  · left; omega
  have hK0' : 0 ≤ binIdeal bins p := by omega
  obtain ⟨K, hKeq⟩ := Int.eq_ofNat_of_zero_le hK0'
  have hKlt : K < bins.length := by omega
  have hedge : bins[K] ≤ p := ((binIdeal_eq_iff hs p hKlt).1 hKeq).1
  have hgetD : bins.getD K 0 = bins[K] := by simp [List.getD, hKlt]
  set edge := (fun j => bins.getD j 0) with hedge_def
  set n := bins.length with hn_def
  -- floor index is at least K - 1 (and at least 0)
  have hi : (K : ℤ) - 1 ≤ ⌊qF n edge p⌋ ∧ 0 ≤ ⌊qF n edge p⌋ := by
    have h0 : edge 0 ≤ p := by
      have h00 : edge 0 ≤ edge K := by
        rcases Nat.eq_zero_or_pos K with hz | hpos
        · rw [hz]
        · have h0lt : 0 < bins.length := by omega
          have : bins[0] < bins[K] := List.pairwise_iff_getElem.mp hs 0 K h0lt hKlt hpos
          have e0 : edge 0 = bins[0] := by simp [hedge_def, List.getD, h0lt]
          have eK : edge K = bins[K] := hgetD
          rw [e0, eK]; exact this.le
      have eK : edge K = bins[K] := hgetD
      linarith
    have hnn : 0 ≤ ⌊qF n edge p⌋ := Int.floor_nonneg.mpr (qF_nonneg hn edge p hh hat h0)
    refine ⟨?_, hnn⟩
    rcases Nat.eq_zero_or_pos K with hz | hpos
    · subst hz; push_cast; omega
    · have := qF_lower hn edge p (K : ℤ) (by omega) (by omega) hh hat (by
        have := hreg K hKlt
        have eK : edge K = bins[K] := hgetD
        simp only [Int.cast_natCast]
        change edge 0 + ((K : ℚ) - 1 / 4) * hOf .f64 n edge ≤ p
        have : edge 0 + ((K : ℚ) - 1 / 4) * hOf .f64 n edge ≤ edge K := this
        linarith)
      exact Int.le_floor.mpr this
  -- the corrected index is at least K
  have hcorr : (K : ℤ) ≤ corrInt n edge (topOf .f64 n edge) p ⌊qF n edge p⌋ := by
    by_cases hik : ⌊qF n edge p⌋ = (K : ℤ) - 1
    · have h1 : ⌊qF n edge p⌋ + 1 < (n : ℤ) := by omega
      have h2 : edge (⌊qF n edge p⌋ + 1).toNat ≤ p := by
        have : (⌊qF n edge p⌋ + 1).toNat = K := by omega
        rw [this]
        have eK : edge K = bins[K] := hgetD
        rw [eK]; exact hedge
      have := corrInt_hit (n := n) edge (topOf .f64 n edge) p hi.2 h1 h2
      omega
    · have := corrInt_ge n edge (topOf .f64 n edge) p ⌊qF n edge p⌋
      omega
  have hcore : bin1dF (cfg64 rc) bins p
      = clampInt rc n (corrInt n edge (topOf .f64 n edge) p ⌊qF n edge p⌋) := by
    unfold bin1dF
    exact bin1dCore_cfg64 rc hn (by omega) edge p
  rw [hcore, hKeq]
  cases rc with
  | true => left; exact clampInt_open_ge hcorr (by omega)
  | false =>
    rcases clampInt_closed_ge hn hcorr (by omega) with h | ⟨h1, h2⟩
    · left; exact h
    · right; exact ⟨rfl, h1, corrInt_ge_n _ _ _ h2⟩

end Bin1d

/-! ## non-vacuity of `bin1dF_never_below`, and labelled kernel-evaluated tests (`decide +kernel`) -/
namespace Bin1d
open Soft64

/-- the grid of past failure D2: 5.9, 33.2, 60.5, 87.8, 115.1 (float64 values as exact rationals) -/
def witnessBins : List ℚ := [3321404725185741/562949953421312, 2336242306698445/70368744177664, 121/2,
  6178375738798899/70368744177664, 4049721227424563/35184372088832]

/-- the hypotheses of `bin1dF_never_below` hold on the witness grid (|a0| ≪ h, the case that used to fail) -/
example := bin1dF_never_below false witnessBins (6178375738798899/70368744177664) (by decide) (by decide +kernel)
    (by decide +kernel) (by decide +kernel) (by decide +kernel) (by decide +kernel)

/-- TEST (kernel-evaluated): past failure D2 — 87.8 on its own edge now lands in bin 3 (was 2), both modes -/
theorem test_witness_878 : bin1dF (cfg64 false) witnessBins (6178375738798899/70368744177664) = 3
    ∧ bin1dF (cfg64 true) witnessBins (6178375738798899/70368744177664) = 3 := by decide +kernel

/-- TEST (kernel-evaluated): closed mode, a value equal to `bins[-1] + h` = 142.4 is out of range (fix f44a808),
in open mode it is in the last bin -/
theorem test_witness_top :
    bin1dF (cfg64 false) witnessBins (topOf .f64 5 (fun j => witnessBins.getD j 0)) = -1
    ∧ bin1dF (cfg64 true) witnessBins (topOf .f64 5 (fun j => witnessBins.getD j 0)) = 4 := by decide +kernel


/-- C02 "bin assignment is monotone in v", for the float formula as written (float64, default tolerance), any grid
with 2 ≤ n ≤ 2^53 edges whose denominator `h − |a0|ε` is positive, all non-negative points (magnitudes): the result is
non-decreasing in the point; in closed mode the larger point may instead be out of range (−1). Holds for every
rational `p ≤ p'`, in particular for all float64 values. -/
theorem bin1dF_mono_nonneg (rc : Bool) (bins : List ℚ) (hn : 1 < bins.length) (hn53 : (bins.length : ℤ) ≤ 2 ^ 53)
    (hden : 0 < denOf .f64 bins.length (fun j => bins.getD j 0)) {p p' : ℚ} (h0 : 0 ≤ p) (hpp : p ≤ p') :
    bin1dF (cfg64 rc) bins p ≤ bin1dF (cfg64 rc) bins p' ∨ (rc = false ∧ bin1dF (cfg64 rc) bins p' = -1) := by
  unfold bin1dF
  rw [bin1dCore_cfg64 rc hn hn53, bin1dCore_cfg64 rc hn hn53]
  exact clampInt_mono rc _ (corrInt_mono _ _ hpp (Int.floor_mono (qF_mono _ h0 hpp hden)))

example := bin1dF_mono_nonneg true witnessBins (by decide) (by decide +kernel) (by decide +kernel)
  (p := 10) (p' := 6178375738798899/70368744177664) (by norm_num) (by norm_num)

/-- open mode: between two non-negative points with the same answer, every point gets that answer -/
theorem bin1dF_const_between (bins : List ℚ) (hn : 1 < bins.length) (hn53 : (bins.length : ℤ) ≤ 2 ^ 53)
    (hden : 0 < denOf .f64 bins.length (fun j => bins.getD j 0)) {p v p' : ℚ} (h0 : 0 ≤ p) (h1 : p ≤ v) (h2 : v ≤ p')
    {k : ℤ} (hk : bin1dF (cfg64 true) bins p = k) (hk' : bin1dF (cfg64 true) bins p' = k) :
    bin1dF (cfg64 true) bins v = k := by
  have a := bin1dF_mono_nonneg true bins hn hn53 hden h0 h1
  have b := bin1dF_mono_nonneg true bins hn hn53 hden (le_trans h0 h1) h2
  simp at a b
  omega

/-! ### complete tables over shipped grids (every edge and its ulp neighbours; see `probeOK`) -/

/-- TABLE (kernel-evaluated): CSEP_MW_BINS (76 edges 2.5 … 10.0), open-topped as the magnitude APIs use it: at every
edge and at 1–4 float64 steps above it the model answers exactly that edge's bin; at 1–4 steps below, the bin below or
(inside the documented band) that edge's bin. -/
theorem table_csep_mw_bins_open :
    tableOK (cfg64 true) Tables.mwRaw [0, 1, 2, -1, -2] = true ∧ tableOK (cfg64 true) Tables.mwRaw [4, -4, 3, -3] = true :=
  ⟨Tables.tabMw1, Tables.tabMw2⟩

/-- TABLE (kernel-evaluated): CSEP_MW_BINS in closed mode, every edge and ±1 step -/
theorem table_csep_mw_bins_closed : tableOK (cfg64 false) Tables.mwRaw [0, -1, 1] = true := Tables.tabMw3

/-- TABLE (kernel-evaluated): magnitude_bins(5.95, 8.95, 0.1) — "a catalog magnitude 5.95 against bins 5.95, 6.05, …" -/
theorem table_magnitude_bins_595 : tableOK (cfg64 true) Tables.m595Raw [0, 1, -1, 4, -4] = true := Tables.tabM595

/-- TABLE (kernel-evaluated): lon / lat edge arrays of nz_csep_region() (closed mode, as regions use them), every edge
and one step below -/
theorem table_nz_region_edges :
    tableOK (cfg64 false) Tables.nzxRaw [0, -1] = true ∧ tableOK (cfg64 false) Tables.nzyRaw [0, -1] = true :=
  ⟨Tables.tabNzx, Tables.tabNzy⟩


/-- TABLE (kernel-evaluated): every lon / lat edge of nz_csep_collection_region(), italy_csep_collection_region() and
california_relm_collection_region(), taken as a coordinate, lands in the cell that edge opens (closed mode, as
CartesianGrid2D uses the arrays) -/
theorem table_collection_region_edges :
    edgesOwnBin (cfg64 false) Tables.nzcxRaw 0 148 = true ∧
    edgesOwnBin (cfg64 false) Tables.nzcyRaw 0 149 = true ∧
    edgesOwnBin (cfg64 false) Tables.itcxRaw 0 152 = true ∧
    edgesOwnBin (cfg64 false) Tables.itcyRaw 0 131 = true ∧
    edgesOwnBin (cfg64 false) Tables.cacxRaw 0 133 = true ∧
    edgesOwnBin (cfg64 false) Tables.cacyRaw 0 125 = true :=
  Tables.region_edges_all

/-! ### CSEP_MW_BINS, complete: the float formula on the whole non-negative axis (threshold table + monotonicity) -/

/-- CSEP_MW_BINS as exact rationals -/
def mwBins : List ℚ := ofRaw Tables.mwRaw
/-- `mwT k`: the least float64 the model puts into bin k (kernel-evaluated table `Tables.mwThr`); `mwTpred k` the
float64 just below it -/
def mwT (k : ℕ) : ℚ := valRaw (Tables.mwThr.getD k (0, 0))
def mwTpred (k : ℕ) : ℚ := predRaw (Tables.mwThr.getD k (0, 0))

/-- TABLE (kernel-evaluated): for every bin k of CSEP_MW_BINS the model answers k at `mwT k` and k−1 at the float just
below; `mwT k ≤ edge_k` lies inside the documented band below edge k. -/
theorem mw_thresholds (k : ℕ) (hk : k < 76) :
    bin1dF (cfg64 true) mwBins (mwT k) = k ∧ bin1dF (cfg64 true) mwBins (mwTpred k) = (k : ℤ) - 1 ∧
      0 ≤ mwTpred k ∧ mwTpred k ≤ mwT k ∧ mwT k ≤ mwBins.getD k 0 ∧
      mwBins.getD k 0 - mwT k ≤ bandWidth (cfg64 true) (mwBins.getD 0 0)
        (hOf .f64 mwBins.length (fun j => mwBins.getD j 0)) k (mwBins.getD k 0) (mwT k) := by
  have h := Tables.tabMwThr
  unfold thresholdsOK at h
  simp only [List.all_eq_true, List.mem_range, Tables.mwThr_length.1] at h
  have := h k hk
  simp only [Bool.and_eq_true, beq_iff_eq, decide_eq_true_eq] at this
  obtain ⟨⟨⟨⟨⟨a, b⟩, c⟩, d⟩, e⟩, f⟩ := this
  exact ⟨a, b, c, d, e, f⟩

private theorem mw_len : mwBins.length = 76 := by
  simp [mwBins, ofRaw, Tables.mwThr_length.2]

/-- C02 for the CSEP magnitude grid, complete (open-topped, as every magnitude API uses it): every point between the
threshold of bin k and the float just below the threshold of bin k+1 goes to bin k — for all rational (hence all
float64) points, not a sample. Together with `mw_thresholds` (each threshold lies at or within the band below its
edge) this is the half-open rule `edge_k ≤ v < edge_(k+1) ⇒ k` up to the documented band. -/
theorem csep_mw_bins_complete (k : ℕ) (hk : k + 1 < 76) (v : ℚ) (h1 : mwT k ≤ v) (h2 : v ≤ mwTpred (k + 1)) :
    bin1dF (cfg64 true) mwBins v = k := by
  have a := mw_thresholds k (by omega)
  have b := mw_thresholds (k + 1) hk
  have hden : 0 < denOf .f64 mwBins.length (fun j => mwBins.getD j 0) := Tables.mw_den_pos
  refine bin1dF_const_between mwBins (by rw [mw_len]; norm_num) (by rw [mw_len]; norm_num) hden
    (le_trans a.2.2.1 a.2.2.2.1) h1 h2 a.1 ?_
  rw [b.2.1]; push_cast; ring

/-- … at or above the threshold of the last bin every point goes to the last bin (open top) … -/
theorem csep_mw_bins_complete_top (v : ℚ) (h1 : mwT 75 ≤ v) : bin1dF (cfg64 true) mwBins v = 75 := by
  have a := mw_thresholds 75 (by norm_num)
  have hden : 0 < denOf .f64 mwBins.length (fun j => mwBins.getD j 0) := Tables.mw_den_pos
  have m := bin1dF_mono_nonneg true mwBins (by rw [mw_len]; norm_num) (by rw [mw_len]; norm_num) hden
    (le_trans a.2.2.1 a.2.2.2.1) h1
  have r := bin1dF_range (cfg64 true) mwBins (by intro h; have := mw_len; rw [h] at this; simp at this) v
  rw [mw_len] at r
  simp at m
  rw [a.1] at m
  omega

/-- … and every non-negative point below the threshold of bin 0 is out of range. -/
theorem csep_mw_bins_complete_bottom (v : ℚ) (h0 : 0 ≤ v) (h1 : v ≤ mwTpred 0) :
    bin1dF (cfg64 true) mwBins v = -1 := by
  have a := mw_thresholds 0 (by norm_num)
  have hden : 0 < denOf .f64 mwBins.length (fun j => mwBins.getD j 0) := Tables.mw_den_pos
  have m := bin1dF_mono_nonneg true mwBins (by rw [mw_len]; norm_num) (by rw [mw_len]; norm_num) hden h0 h1
  have r := bin1dF_range (cfg64 true) mwBins (by intro h; have := mw_len; rw [h] at this; simp at this) v
  simp at m
  rw [a.2.1] at m
  omega

example : mwT 34 ≤ 119/20 ∧ (119/20 : ℚ) ≤ mwTpred 35 := by decide +kernel

/-! ## cleaner_range / magnitude_bins return the nearest doubles of the decimal grid -/

/-- C02 "the library's bin-edge generators return exactly the floats closest to the decimal grid start + k·step":
for `start = fl64(S/10^m)`, `step = fl64(D/10^m)`, `end = fl64((S+cnt·D)/10^m)` (the doubles nearest to decimals with m ≤ 22
places; m = the number of decimals `repr` shows, a model input), D > 0 and |S| + (cnt+1)·D ≤ 2^50, the main path of
`cleaner_range` is taken and returns exactly cnt+1 elements, element k being `fl64((S + k·D)/10^m)`. -/
theorem cleanerRange_exact (S D : ℤ) (m cnt : ℕ) (hm : m ≤ 22) (hD : 0 < D)
    (hb : |S| + ((cnt : ℤ) + 1) * D ≤ 2 ^ 50) :
    cleanerRangeF (fl64 ((S : ℚ) / ((10 ^ m : ℕ) : ℚ)))
        (fl64 (((S + cnt * D : ℤ) : ℚ) / ((10 ^ m : ℕ) : ℚ)))
        (fl64 ((D : ℚ) / ((10 ^ m : ℕ) : ℚ))) m
      = some (decimalGrid S D m (cnt + 1)) := by
  have hS : |S| ≤ 2 ^ 50 := by nlinarith [abs_nonneg S]
  have hDb : |D| ≤ 2 ^ 50 := by rw [abs_of_pos hD]; nlinarith [abs_nonneg S]
  have hE : |S + cnt * D| ≤ 2 ^ 50 := by
    have h1 : (0 : ℤ) ≤ (cnt : ℤ) * D := by positivity
    have := abs_add_le S ((cnt : ℤ) * D)
    rw [abs_of_nonneg h1] at this
    nlinarith
  have g1 := guard_lt hS hm
  have g2 := guard_lt hE hm
  unfold cleanerRangeF
  simp only
  have hguard : fmul (fl64 ((10 ^ m : ℕ) : ℚ))
      (if fabs (fl64 ((S : ℚ) / ((10 ^ m : ℕ) : ℚ))) < fabs (fl64 (((S + cnt * D : ℤ) : ℚ) / ((10 ^ m : ℕ) : ℚ)))
        then fabs (fl64 (((S + cnt * D : ℤ) : ℚ) / ((10 ^ m : ℕ) : ℚ)))
        else fabs (fl64 ((S : ℚ) / ((10 ^ m : ℕ) : ℚ)))) < pow2 52 := by
    split_ifs
    · exact g2
    · exact g1
  rw [if_pos hguard, recover hS hm, recover hE hm, recover hDb hm, arangeF_int S D cnt hD hb]
  unfold decimalGrid
  rw [List.map_map, fl64_ten_pow hm]
  rfl

/-- instance: cleaner_range(0.5, 1.2, 0.07) (past failure D3: first element was 0.49) -/
example := cleanerRange_exact 50 7 2 10 (by norm_num) (by norm_num) (by norm_num)

/-- TEST (kernel-evaluated): the first element of cleaner_range(0.5, 1.2, 0.07) is the double 0.5, the last 1.2,
11 elements -/
theorem test_cleaner_050 :
    (cleanerRangeF (fl64 (50 / 100)) (fl64 (120 / 100)) (fl64 (7 / 100)) 2).map
      (fun l => (l.length, l.head?, l.getLast?)) = some (11, some (1 / 2), some (fl64 (12 / 10))) := by decide +kernel

/-- TEST (kernel-evaluated): cleaner_range(1e-5, 5e-5, 1e-5) (raised IndexError before fix 3f1a0e6) has 5 elements,
the nearest doubles of k·10^-5 -/
theorem test_cleaner_1em5 :
    cleanerRangeF (fl64 (1 / 100000)) (fl64 (5 / 100000)) (fl64 (1 / 100000)) 5 = some (decimalGrid 1 1 5 5) := by
  decide +kernel

end Bin1d
