import PycsepVerif.Properties.C08
import PycsepVerif.Proofs.PairedPub

/-!
# C08, second part — the public paired tests

`Properties/C08.lean` is about the array-level helpers with the per-event rates and the totals as inputs. Here the
inputs are what the public functions build (`Model/PairedPub.lean`): stored rates × `_scale`, optionally divided by the
horizon in days, looked up at the events' bins, and totals `numpy.sum` of the array used. Also: the variance of Eq. 18
is non-negative and vanishes exactly for a constant log-ratio (the degenerate class in which t and the interval are
0/0); the interval contains the gain; the T-test does not depend on the order of the events; the binary variant IS
the paired test when no bin holds two events; and the W-test's swap invariance is proved from the float64 operations
that form its inputs (`X1 − X2`, `(N1 − N2)/N`), with no "negated exactly" assumption left.
-/
namespace PairedTests

/-! ### T-test: variance, interval -/

/-- Eq. 18 is non-negative for N = number of differences ≥ 2: `sqrt(forecast_variance)` is a real number -/
theorem var_nonneg (rA rB : List ℝ) (hN : 2 ≤ (logDiffs rA rB).length) :
    0 ≤ variance rA rB ((logDiffs rA rB).length : ℝ) := by
  have h := var_eq_sample_variance rA rB hN
  simp only at h
  rw [h]
  have h2 : (2 : ℝ) ≤ ((logDiffs rA rB).length : ℝ) := by exact_mod_cast hN
  exact div_nonneg (sum_sq_dev_nonneg _ _) (by linarith)

/-- ... and is zero exactly when all log-rate differences are equal (proportional rates at the events): the one class
    of admissible inputs for which t = gain/0 -/
theorem var_eq_zero_iff (rA rB : List ℝ) (hN : 2 ≤ (logDiffs rA rB).length) :
    variance rA rB ((logDiffs rA rB).length : ℝ) = 0 ↔
      ∀ x ∈ logDiffs rA rB, x = (logDiffs rA rB).sum / ((logDiffs rA rB).length : ℝ) := by
  have h := var_eq_sample_variance rA rB hN
  simp only at h
  have h2 : (2 : ℝ) ≤ ((logDiffs rA rB).length : ℝ) := by exact_mod_cast hN
  have h1 : ((logDiffs rA rB).length : ℝ) - 1 ≠ 0 := by linarith
  rw [h, div_eq_zero_iff, sum_sq_dev_eq_zero]
  constructor
  · rintro (h | h)
    · exact h
    · exact absurd h h1
  · exact Or.inl

/-- for a non-negative critical value (α ≤ 1 ⇒ t.ppf(1 − α/2) ≥ 0) the interval contains the information gain -/
theorem ci_contains_gain (rA rB : List ℝ) (N NA NB tcrit : ℝ) (ht : 0 ≤ tcrit) :
    igLower rA rB N NA NB tcrit ≤ infoGain rA rB N NA NB ∧ infoGain rA rB N NA NB ≤ igUpper rA rB N NA NB tcrit := by
  have h : 0 ≤ tcrit * Real.sqrt (variance rA rB N) / Real.sqrt N :=
    div_nonneg (mul_nonneg ht (Real.sqrt_nonneg _)) (Real.sqrt_nonneg _)
  simp only [igLower, igUpper, RealOps.real_sub, RealOps.real_add, RealOps.real_div, RealOps.real_mul,
    RealOps.real_sqrt]
  constructor <;> linarith

/-- the T-test depends on the events only as a multiset: any reordering of the catalog gives the same five numbers -/
theorem t_event_order_irrelevant {β : Type} {ev ev' : List β} (h : ev.Perm ev') (f g : β → ℝ) (NA NB tc : ℝ) :
    tTest (ev.map f) (ev.map g) ev.length NA NB tc = tTest (ev'.map f) (ev'.map g) ev'.length NA NB tc := by
  rw [h.length_eq]
  apply tTest_perm
  rw [logDiffs_map, logDiffs_map]
  exact h.map _

/-! ### public wrappers -/

/-- `paired_t_test`: swapping the forecasts negates gain and t, mirrors the interval, keeps the variance — at the
    level of forecast objects (any `_scale`, any horizons, scale on or off) -/
theorem public_t_swap (fa fb : Fc ℝ) (ev : List ℕ) (scale : Bool) (tcrit : ℝ) :
    let a := pairedTPub fa fb ev scale tcrit
    let b := pairedTPub fb fa ev scale tcrit
    b.ig = -a.ig ∧ b.t = -a.t ∧ b.lower = -a.upper ∧ b.upper = -a.lower ∧ b.var = a.var :=
  t_test_swap _ _ _ _ _ _

/-- `paired_t_test(f, f, catalog)` has zero gain -/
theorem public_t_self_zero (f : Fc ℝ) (ev : List ℕ) (scale : Bool) (tcrit : ℝ) :
    (pairedTPub f f ev scale tcrit).ig = 0 := ig_self_zero _ _ _

/-- `paired_t_test` without scaling: the gain is [Σ_events (ln λ_A(bin) − ln λ_B(bin)) − (N_A − N_B)]/N with
    λ = stored rate × `_scale` and N_A, N_B the sums of those arrays -/
theorem public_t_gain (fa fb : Fc ℝ) (ev : List ℕ) (tcrit : ℝ) :
    (pairedTPub fa fb ev false tcrit).ig
      = ((ev.map (fun i => Real.log (fa.data.getD i 0) - Real.log (fb.data.getD i 0))).sum
          - (fa.data.sum - fb.data.sum)) / (ev.length : ℝ) := by
  simp only [pairedTPub, tTest, Fc.targetRates, Fc.dataFor, infoGain, logDiffs_map, RealOps.real_sum,
    RealOps.real_sub, RealOps.real_div, RealOps.real_ofNat, RealOps.real_zero]
  simp

/-- `scale=True` with a common horizon of d days: the log-rate differences are those of the unscaled forecasts and the
    totals are divided by d — the gain is [Σ x_i − (N_A − N_B)/d]/N -/
theorem public_t_scale_same_horizon (fa fb : Fc ℝ) (ev : List ℕ) (tcrit : ℝ) {d : ℕ} (hd : 0 < d) (ha : fa.days = d)
    (hb : fb.days = d) (hpos : ∀ i ∈ ev, fa.data.getD i 0 ≠ 0 ∧ fb.data.getD i 0 ≠ 0) :
    (pairedTPub fa fb ev true tcrit).ig
      = ((ev.map (fun i => Real.log (fa.data.getD i 0) - Real.log (fb.data.getD i 0))).sum
          - (fa.data.sum - fb.data.sum) / (d : ℝ)) / (ev.length : ℝ) := by
  have hd0 : (d : ℝ) ≠ 0 := by exact_mod_cast hd.ne'
  simp only [pairedTPub, tTest, Fc.targetRates, Fc.dataFor, infoGain, logDiffs_map, RealOps.real_sum,
    RealOps.real_sub, RealOps.real_div, RealOps.real_ofNat, RealOps.real_zero, ha, hb, if_true, getD_map_div,
    sum_map_div]
  have e : ev.map (fun i => Real.log (fa.data.getD i 0 / (d : ℝ)) - Real.log (fb.data.getD i 0 / (d : ℝ)))
      = ev.map (fun i => Real.log (fa.data.getD i 0) - Real.log (fb.data.getD i 0)) := by
    apply List.map_congr_left
    intro i hi
    obtain ⟨h1, h2⟩ := hpos i hi
    rw [Real.log_div h1 hd0, Real.log_div h2 hd0]; ring
  rw [e]; ring

/-- when no space-magnitude bin holds two events the binary (per-active-bin) variant returns exactly the numbers of
    the paired T-test on the same rates and totals -/
theorem binary_eq_paired_of_distinct (dataA dataB : ℕ → ℝ) (nb : ℕ) (ev : List ℕ) (NA NB tcrit : ℝ)
    (hnd : ev.Nodup) (hin : ∀ i ∈ ev, i < nb) :
    binaryT dataA dataB nb ev NA NB tcrit = tTest (ev.map dataA) (ev.map dataB) ev.length NA NB tcrit := by
  obtain ⟨h1, h2, h3⟩ := active_bin_variant dataA dataB nb ev NA NB tcrit
  have hp : (activeBins nb ev).Perm ev :=
    (List.perm_ext_iff_of_nodup h2 hnd).mpr (fun i => by rw [h3 i]; exact ⟨fun h => h.2, fun h => ⟨hin i h, h⟩⟩)
  rw [h1]
  exact t_event_order_irrelevant hp dataA dataB NA NB tcrit

/-! ### W-test: swap invariance from the float64 operations -/

/-- `w_test(f2, f1, cat)` and `w_test(f1, f2, cat)` have the same count, T, mn and tie-corrected variance term, hence
    the same z and p: in float64 `X2 − X1 = −(X1 − X2)` element-wise and `(N2 − N1)/N = −((N1 − N2)/N)`, and the
    subtraction of the median commutes with the sign. `LA`, `LB` are the doubles `numpy.log` returned. -/
theorem w_public_swap (LA LB : List ℚ) (n1 n2 n : ℚ) : wStatsPub LB LA n2 n1 n = wStatsPub LA LB n1 n2 n := by
  unfold wStatsPub
  rw [wX_swap, wM_swap]
  exact w_swap_invariant_xm _ _

/-- a forecast against itself: every difference is exactly 0 in float64 and so is the null median — no difference is
    left (this is the case the property's quantifier excludes: "at least one difference distinct from the median") -/
theorem w_public_self_degenerate (LA : List ℚ) (n1 n : ℚ) : (wStatsPub LA LA n1 n1 n).count = 0 := by
  have hm : wM n1 n1 n = 0 := by simp [wM, Soft64.fdiv, Soft64.fsub, Soft64.fl64_zero]
  have hx : ∀ a ∈ wX LA LA, a = 0 := by
    unfold wX
    induction LA with
    | nil => simp
    | cons a l ih =>
      intro x hx
      simp only [List.zipWith_cons_cons, List.mem_cons] at hx
      rcases hx with rfl | h
      · simp [Soft64.fsub, Soft64.fl64_zero]
      · exact ih x h
  unfold wStatsPub wStats wStatsD
  simp only [hm]
  have : removeZeros ((wX LA LA).map (fun a => Soft64.fsub a 0)) = [] := by
    unfold removeZeros
    rw [List.filter_eq_nil_iff]
    intro a ha
    simp only [List.mem_map] at ha
    obtain ⟨b, hb, rfl⟩ := ha
    rw [hx b hb]
    simp [Soft64.fsub, Soft64.fl64_zero]
  rw [this]; rfl

/-! ### no floor on small rates; the open-ended last magnitude bin -/

/-- the gain reacts to EVERY positive rate, however small: raising the rate forecast A gives to one target event raises
    the gain strictly (so no positive rate may be replaced by a floor such as machine epsilon) -/
theorem ig_strict_mono_rate {a a' : ℝ} (ha : 0 < a) (h : a < a') (b : ℝ) (rA rB : List ℝ) {N : ℝ} (hN : 0 < N)
    (NA NB : ℝ) : infoGain (a :: rA) (b :: rB) N NA NB < infoGain (a' :: rA) (b :: rB) N NA NB := by
  simp only [infoGain, logDiffs, List.zipWith_cons_cons, RealOps.real_sum, List.sum_cons, RealOps.real_sub,
    RealOps.real_div, RealOps.real_log]
  have := Real.log_lt_log ha h
  apply div_lt_div_of_pos_right _ hN
  linarith

/-- ... and symmetric in the benchmark: raising B's rate at a target event lowers the gain strictly -/
theorem ig_strict_anti_rate {b b' : ℝ} (hb : 0 < b) (h : b < b') (a : ℝ) (rA rB : List ℝ) {N : ℝ} (hN : 0 < N)
    (NA NB : ℝ) : infoGain (a :: rA) (b' :: rB) N NA NB < infoGain (a :: rA) (b :: rB) N NA NB := by
  simp only [infoGain, logDiffs, List.zipWith_cons_cons, RealOps.real_sum, List.sum_cons, RealOps.real_sub,
    RealOps.real_div, RealOps.real_log]
  have := Real.log_lt_log hb h
  apply div_lt_div_of_pos_right _ hN
  linarith

/-- every magnitude at or above the first edge has a bin, and a magnitude at or above the LAST edge — however far
    above — lies in the last bin (it is open ended): the comparison tests return a result for such a catalog -/
theorem mag_index_open_top (edges : List ℚ) (m : ℚ) (hall : ∀ e ∈ edges, e ≤ m) (hne : edges ≠ []) :
    magIdxOpen edges m = some (edges.length - 1) := by
  unfold magIdxOpen
  have : edges.countP (fun e => decide (e ≤ m)) = edges.length := by
    rw [List.countP_eq_length]; intro e he; simpa using hall e he
  rw [this]
  cases edges with
  | nil => exact absurd rfl hne
  | cons a l => simp

/-- a bin is found exactly when the magnitude reaches some edge; the index is below the number of bins -/
theorem mag_index_some_iff (edges : List ℚ) (m : ℚ) :
    (∃ i, magIdxOpen edges m = some i ∧ i < edges.length) ↔ ∃ e ∈ edges, e ≤ m := by
  unfold magIdxOpen
  constructor
  · rintro ⟨i, h, _⟩
    have hpos : 0 < edges.countP (fun e => decide (e ≤ m)) := by
      cases hc : edges.countP (fun e => decide (e ≤ m)) with
      | zero => rw [hc] at h; cases h
      | succ k => omega
    obtain ⟨e, he, hd⟩ := List.countP_pos_iff.mp hpos
    exact ⟨e, he, by simpa using hd⟩
  · rintro ⟨e, he, hle⟩
    have hpos : 0 < edges.countP (fun e => decide (e ≤ m)) :=
      List.countP_pos_iff.mpr ⟨e, he, by simpa using hle⟩
    have hle' := List.countP_le_length (p := fun e => decide (e ≤ m)) (l := edges)
    cases hc : edges.countP (fun e => decide (e ≤ m)) with
    | zero => omega
    | succ k => exact ⟨k, rfl, by omega⟩

-- non-vacuity
example : magIdxOpen [4, 9 / 2, 5] (73 / 10) = some 2 ∧ magIdxOpen [4, 9 / 2, 5] (39 / 10) = none ∧
    flatIdx [4, 9 / 2, 5] 7 (9 / 2) = some 22 := by decide +kernel
example : variance [Real.exp 1, Real.exp 3] [1, 1] 2 = 2 := by
  have := var_eq_sample_variance [Real.exp 1, Real.exp 3] [1, 1] (by simp [logDiffs])
  simp only [logDiffs, List.zipWith_cons_cons, List.zipWith_nil_right, List.length_cons, List.length_nil] at this
  norm_num [RealOps.real_sub, RealOps.real_log] at this
  exact this
example : (pairedTPub (⟨[1, 2], 1, 365⟩ : Fc ℝ) ⟨[1, 2], 1, 365⟩ [0, 1, 1] false 2).ig = 0 := public_t_self_zero _ _ _ _
example : wStatsPub [1, 2, 3] [3, 2, 1] 5 4 3 = wStatsPub [3, 2, 1] [1, 2, 3] 4 5 3 := (w_public_swap _ _ _ _ _).symm
example : binaryT (fun i => (i : ℝ) + 1) (fun _ => 1) 4 [2, 0] 1 1 2
    = tTest ([2, 0].map (fun i => ((i : ℕ) : ℝ) + 1)) ([2, 0].map (fun _ => (1 : ℝ))) 2 1 1 2 :=
  binary_eq_paired_of_distinct _ _ _ _ _ _ _ (by decide) (by decide)

end PairedTests
