import PycsepVerif.Model.FilterText
import PycsepVerif.Properties.C04_Nan
import PycsepVerif.Proofs.FilterMct

/-!
# C04 (round 4) — the statement TEXT inside the model

`Model/FilterText.lean`: `str.split(' ')`, the operator and column lookups, `float(value)` (with the non-finite words and
overflow), `strptime_to_utc_epoch` (format selection from the text, `_strptime` field grammar, the discarded UTC offset).

* `splitSpace_join` — splitting the text a caller writes (`' '.join(tokens)`, no token contains a space) gives the tokens back;
* `parse_render_num` — EVERY statement `'<column> <op> <value text>'` over the five columns and five operators reads as the
  intended (column, operator, `float(value text)`), whatever the value text is (repr, `%.17e`, `1_0.5`, `inf`, …);
* `parse_render_datetime`, `datetime_text_eq_origin_text` — a datetime statement reads as the origin-time statement at the
  millisecond `strptime_to_utc_epoch` returns (the property's clause, now at the level of the characters);
* `parse_token_count` — a statement is read only with exactly three (four for datetime) single-space-separated tokens;
* `filterTexts_eq`, `filterTexts_ok` — filtering by a list of statement STRINGS is: read all of them (first failure raises, rows
  unchanged), then ONE pass with the conjunction — so order / grouping / idempotence theorems of `C04_Nan`/`C04` apply to texts;
* `filterTexts_perm_ok`, `filterTexts_append` — statement order and grouping at text level;
* `finding_tz_offset_discarded` — the code as it is: a UTC offset in a datetime statement is parsed and thrown away.
-/
namespace CatFilter
open DecimalText AsciiCatalogs

/-! ### `str.split(' ')` -/

theorem splitSpace_ne_nil (s : List Char) : splitSpace s ≠ [] := by
  induction s with
  | nil => simp [splitSpace]
  | cons c cs ih =>
    unfold splitSpace
    split
    · simp
    · split <;> simp

theorem splitSpace_nospace (t : List Char) (h : ' ' ∉ t) : splitSpace t = [t] := by
  induction t with
  | nil => rfl
  | cons c t ih =>
    have hc : c ≠ ' ' := fun e => h (by simp [e])
    have ht : ' ' ∉ t := fun m => h (List.mem_cons_of_mem _ m)
    simp [splitSpace, ih ht, hc]

theorem splitSpace_append (t rest : List Char) (h : ' ' ∉ t) :
    splitSpace (t ++ ' ' :: rest) = t :: splitSpace rest := by
  induction t with
  | nil =>
    rcases hsp : splitSpace rest with _ | ⟨u, us⟩
    · exact absurd hsp (splitSpace_ne_nil rest)
    · simp [splitSpace, hsp]
  | cons c t ih =>
    have hc : c ≠ ' ' := fun e => h (by simp [e])
    have ht : ' ' ∉ t := fun m => h (List.mem_cons_of_mem _ m)
    simp [splitSpace, ih ht, hc]

/-- `(' '.join(tokens)).split(' ') == tokens` when no token contains a space (and there is at least one token) -/
theorem splitSpace_join (toks : List (List Char)) (hne : toks ≠ []) (h : ∀ t ∈ toks, ' ' ∉ t) :
    splitSpace (joinSpace toks) = toks := by
  induction toks with
  | nil => exact absurd rfl hne
  | cons t ts ih =>
    cases ts with
    | nil => exact splitSpace_nospace t (h t (by simp))
    | cons u us =>
      show splitSpace (t ++ ' ' :: joinSpace (u :: us)) = _
      rw [splitSpace_append t _ (h t (by simp)), ih (by simp) (fun x hx => h x (List.mem_cons_of_mem _ hx))]

/-- a doubled space makes an empty token: `'a  b'.split(' ') == ['a', '', 'b']` -/
theorem splitSpace_double (t rest : List Char) (h : ' ' ∉ t) :
    splitSpace (t ++ ' ' :: ' ' :: rest) = t :: [] :: splitSpace rest := by
  rw [splitSpace_append t _ h]
  have := splitSpace_append [] rest (by simp)
  simpa using this

/-! ### the two lookup tables -/

theorem attrOfName_name (a : Attr) : attrOfName a.name = some a := by cases a <;> decide
theorem opOfSym_sym (o : Op) : opOfSym o.sym = some o := by cases o <;> decide
theorem attr_name_nospace (a : Attr) : ' ' ∉ a.name := by cases a <;> decide
theorem op_sym_nospace (o : Op) : ' ' ∉ o.sym := by cases o <;> decide
theorem attr_name_ne_datetime (a : Attr) : a.name ≠ "datetime".toList := by cases a <;> decide

/-- only the five symbols of the table are operators -/
theorem opOfSym_some_iff (s : List Char) (o : Op) : opOfSym s = some o ↔ s = o.sym := by
  constructor
  · intro h
    unfold opOfSym at h
    have := List.find?_some h
    exact (by simpa using this : o.sym = s).symm
  · rintro rfl
    exact opOfSym_sym o

/-- only the five column names are columns a statement can use -/
theorem attrOfName_some_iff (s : List Char) (a : Attr) : attrOfName s = some a ↔ s = a.name := by
  constructor
  · intro h
    unfold attrOfName at h
    have := List.find?_some h
    exact (by simpa using this : a.name = s).symm
  · rintro rfl
    exact attrOfName_name a

/-! ### one statement -/

theorem split_renderNum (a : Attr) (o : Op) (v : List Char) (hv : ' ' ∉ v) :
    splitSpace (renderNum a o v) = [a.name, o.sym, v] := by
  unfold renderNum
  refine splitSpace_join _ (by simp) ?_
  intro t ht
  simp only [List.mem_cons, List.not_mem_nil, or_false] at ht
  rcases ht with rfl | rfl | rfl
  · exact attr_name_nospace a
  · exact op_sym_nospace o
  · exact hv

theorem split_renderDatetime (o : Op) (d t : List Char) (hd : ' ' ∉ d) (ht : ' ' ∉ t) :
    splitSpace (renderDatetime o d t) = ["datetime".toList, o.sym, d, t] := by
  unfold renderDatetime
  refine splitSpace_join _ (by simp) ?_
  intro x hx
  simp only [List.mem_cons, List.not_mem_nil, or_false] at hx
  rcases hx with rfl | rfl | rfl | rfl
  · decide
  · exact op_sym_nospace o
  · exact hd
  · exact ht

theorem parseToks_num (a : Attr) (o : Op) (v : List Char) :
    parseToks [a.name, o.sym, v] = parseNumToks a.name o.sym v := by
  rw [parseToks, if_neg (attr_name_ne_datetime a)]; rfl

theorem parseToks_dt (o d t : List Char) :
    parseToks ["datetime".toList, o, d, t] = parseDtToks o d t := by
  rw [parseToks, if_pos rfl]; rfl

/-- EVERY numeric statement a caller can write over the five columns and five operators reads as intended: the column, the
    operator, and `float(value text)` — for any value text without a space that `float()` accepts -/
theorem parse_render_num (a : Attr) (o : Op) (v : List Char) (x : FVal) (hv : ' ' ∉ v) (hx : pyFloatF v = some x) :
    parseStmtText (renderNum a o v) = .ok ⟨a, o, x⟩ := by
  unfold parseStmtText
  rw [split_renderNum a o v hv, parseToks_num]
  unfold parseNumToks
  rw [opOfSym_sym, attrOfName_name, hx]

/-- … and a value text `float()` rejects raises (nothing is filtered) -/
theorem parse_render_badfloat (a : Attr) (o : Op) (v : List Char) (hv : ' ' ∉ v) (hx : pyFloatF v = none) :
    parseStmtText (renderNum a o v) = .error .badFloat := by
  unfold parseStmtText
  rw [split_renderNum a o v hv, parseToks_num]
  unfold parseNumToks
  rw [opOfSym_sym, attrOfName_name, hx]

/-- a datetime statement reads as the ORIGIN-TIME statement at the millisecond `strptime_to_utc_epoch(date + ' ' + time)` gives -/
theorem parse_render_datetime (o : Op) (d t : List Char) (ms : Int) (hd : ' ' ∉ d) (ht : ' ' ∉ t)
    (h : strptimeStmt (joinSpace [d, t]) = some ms) :
    parseStmtText (renderDatetime o d t) = .ok ⟨.originTime, o, .fin (ms : Rat)⟩ := by
  unfold parseStmtText
  rw [split_renderDatetime o d t hd ht, parseToks_dt]
  unfold parseDtToks
  rw [h, opOfSym_sym]

/-- the property's clause at the level of the characters: the datetime statement and the origin-time statement written for the
    same instant (any text `v` with `float(v)` = that millisecond) are THE SAME statement, hence select the same events -/
theorem datetime_text_eq_origin_text (o : Op) (d t v : List Char) (ms : Int) (hd : ' ' ∉ d) (ht : ' ' ∉ t) (hv : ' ' ∉ v)
    (h : strptimeStmt (joinSpace [d, t]) = some ms) (hf : pyFloatF v = some (.fin (ms : Rat))) :
    parseStmtText (renderDatetime o d t) = parseStmtText (renderNum .originTime o v) := by
  rw [parse_render_datetime o d t ms hd ht h, parse_render_num .originTime o v _ hv hf]

theorem parseDtToks_ok {o d t : List Char} {st : StmtF} (h : parseDtToks o d t = .ok st) :
    ∃ ms op, strptimeStmt (joinSpace [d, t]) = some ms ∧ opOfSym o = some op ∧ st = ⟨.originTime, op, .fin (ms : Rat)⟩ := by
  unfold parseDtToks at h
  cases hms : strptimeStmt (joinSpace [d, t]) with
  | none => simp [hms] at h
  | some ms =>
    cases ho : opOfSym o with
    | none => simp [hms, ho] at h
    | some op =>
      simp only [hms, ho, Except.ok.injEq] at h
      exact ⟨ms, op, rfl, rfl, h.symm⟩

theorem parseNumToks_ok {n o v : List Char} {st : StmtF} (h : parseNumToks n o v = .ok st) :
    ∃ a op x, opOfSym o = some op ∧ attrOfName n = some a ∧ pyFloatF v = some x ∧ st = ⟨a, op, x⟩ := by
  unfold parseNumToks at h
  cases ho : opOfSym o with
  | none => simp [ho] at h
  | some op =>
    cases ha : attrOfName n with
    | none => simp [ho, ha] at h
    | some a =>
      cases hx : pyFloatF v with
      | none => simp [ho, ha, hx] at h
      | some x =>
        simp only [ho, ha, hx, Except.ok.injEq] at h
        exact ⟨a, op, x, rfl, rfl, rfl, h.symm⟩

/-- what a read statement can be: exactly three tokens (column name, operator symbol, a text `float()` accepts) or exactly four
    (`datetime`, operator symbol, date, time that `strptime_to_utc_epoch` accepts) between single spaces -/
theorem parse_ok_shape (s : List Char) (st : StmtF) (h : parseStmtText s = .ok st) :
    (∃ v, splitSpace s = [st.attr.name, st.op.sym, v] ∧ pyFloatF v = some st.value) ∨
    (∃ d t ms, splitSpace s = ["datetime".toList, st.op.sym, d, t] ∧ strptimeStmt (joinSpace [d, t]) = some ms ∧
        st.attr = .originTime ∧ st.value = .fin (ms : Rat)) := by
  unfold parseStmtText at h
  rcases hsp : splitSpace s with _ | ⟨name, rest⟩
  · rw [hsp] at h; cases h
  · rw [hsp, parseToks] at h
    by_cases hn : name = "datetime".toList
    · rw [if_pos hn] at h
      right
      rcases rest with _ | ⟨a, _ | ⟨b, _ | ⟨c, _ | ⟨_, _⟩⟩⟩⟩
      · cases h
      · cases h
      · cases h
      · obtain ⟨ms, op, hms, ho, rfl⟩ := parseDtToks_ok (show parseDtToks a b c = _ from h)
        exact ⟨b, c, ms, by rw [hn, (opOfSym_some_iff a op).mp ho], hms, rfl, rfl⟩
      · cases h
    · rw [if_neg hn] at h
      left
      rcases rest with _ | ⟨a, _ | ⟨b, _ | ⟨_, _⟩⟩⟩
      · cases h
      · cases h
      · obtain ⟨at', op, x, ho, ha, hx, rfl⟩ := parseNumToks_ok (show parseNumToks name a b = _ from h)
        exact ⟨b, by rw [(opOfSym_some_iff a op).mp ho, (attrOfName_some_iff name at').mp ha], hx⟩
      · cases h

/-- a statement is read only when it has exactly three (datetime: four) tokens between single spaces -/
theorem parse_token_count (s : List Char) (st : StmtF) (h : parseStmtText s = .ok st) :
    (splitSpace s).length = 3 ∨ (splitSpace s).length = 4 := by
  rcases parse_ok_shape s st h with ⟨v, hv, _⟩ | ⟨d, t, ms, hv, _⟩
  · left; rw [hv]; rfl
  · right; rw [hv]; rfl

/-- a doubled space between column and operator always raises (an empty token: wrong count, or `operators['']`): nothing is filtered -/
theorem parse_double_space (a : Attr) (rest : List Char) :
    ∃ e, parseStmtText (a.name ++ ' ' :: ' ' :: rest) = .error e := by
  unfold parseStmtText
  rw [splitSpace_double _ _ (attr_name_nospace a), parseToks, if_neg (attr_name_ne_datetime a)]
  rcases hsp : splitSpace rest with _ | ⟨x, _ | ⟨y, ys⟩⟩
  · exact absurd hsp (splitSpace_ne_nil rest)
  · refine ⟨.keyError, ?_⟩
    show parseNumToks a.name [] x = _
    unfold parseNumToks
    rw [show opOfSym [] = none by decide]
  · exact ⟨.unpack, rfl⟩

/-! ### lists of statement strings -/

/-- filtering by a list / tuple of statement strings = read them all (the first one that cannot be read raises), then filter -/
theorem filterTexts_eq (ts : List (List Char)) (es : List EventF) :
    filterTexts ts es = (parseAll ts).map (fun ss => filterListF ss es) := by
  induction ts generalizing es with
  | nil => rfl
  | cons t ts ih =>
    unfold filterTexts parseAll
    cases parseStmtText t with
    | error e => rfl
    | ok s =>
      simp only
      rw [ih]
      cases parseAll ts with
      | error e => rfl
      | ok ss => rfl

/-- … hence ONE pass keeping exactly the rows for which every statement — as read from its text — is true -/
theorem filterTexts_ok (ts : List (List Char)) (ss : List StmtF) (es : List EventF) (h : parseAll ts = .ok ss) :
    filterTexts ts es = .ok (es.filter (fun e => ss.all (fun s => s.holds e))) := by
  rw [filterTexts_eq, h]
  show Except.ok (filterListF ss es) = _
  rw [filterF_eq]

/-- a list that cannot be read raises, whatever the rows are: no row is looked at, nothing is assigned -/
theorem filterTexts_error (ts : List (List Char)) (e : TextErr) (es : List EventF) (h : parseAll ts = .error e) :
    filterTexts ts es = .error e := by
  rw [filterTexts_eq, h]; rfl

theorem parseAll_cons_ok (t : List Char) (ts : List (List Char)) (ss : List StmtF) :
    parseAll (t :: ts) = .ok ss ↔ ∃ s ss', parseStmtText t = .ok s ∧ parseAll ts = .ok ss' ∧ ss = s :: ss' := by
  rw [parseAll]
  cases ht : parseStmtText t with
  | error e => simp
  | ok s =>
    cases hts : parseAll ts with
    | error e => simp
    | ok ss' =>
      simp only [Except.ok.injEq]
      constructor
      · rintro rfl; exact ⟨s, ss', rfl, rfl, rfl⟩
      · rintro ⟨s2, ss2, h1, h2, rfl⟩; rw [h1, h2]

theorem parseAll_append (ts us : List (List Char)) (ss rs : List StmtF) (h1 : parseAll ts = .ok ss)
    (h2 : parseAll us = .ok rs) : parseAll (ts ++ us) = .ok (ss ++ rs) := by
  induction ts generalizing ss with
  | nil => cases h1; exact h2
  | cons t ts ih =>
    obtain ⟨s, ss', ht, hts, rfl⟩ := (parseAll_cons_ok t ts ss).mp h1
    exact (parseAll_cons_ok t (ts ++ us) _).mpr ⟨s, ss' ++ rs, ht, ih ss' hts, rfl⟩

/-- statements given together = given in two calls one after the other (text level) -/
theorem filterTexts_append (ts us : List (List Char)) (ss rs : List StmtF) (es : List EventF)
    (h1 : parseAll ts = .ok ss) (h2 : parseAll us = .ok rs) :
    filterTexts (ts ++ us) es = (filterTexts ts es).bind (fun es' => filterTexts us es') := by
  rw [filterTexts_eq, parseAll_append ts us ss rs h1 h2, filterTexts_eq ts, h1]
  show Except.ok _ = filterTexts us _
  rw [filterTexts_eq, h2]
  show Except.ok (filterListF (ss ++ rs) es) = Except.ok _
  rw [filterF_append]

theorem parseAll_perm (ts us : List (List Char)) (hp : ts.Perm us) (ss : List StmtF) (h : parseAll ts = .ok ss) :
    ∃ rs, parseAll us = .ok rs ∧ ss.Perm rs := by
  induction hp generalizing ss with
  | nil => exact ⟨ss, h, List.Perm.refl _⟩
  | @cons t l₁ l₂ _ ih =>
    obtain ⟨s, ss', ht, hts, rfl⟩ := (parseAll_cons_ok t l₁ ss).mp h
    obtain ⟨rs, hrs, hperm⟩ := ih ss' hts
    exact ⟨s :: rs, (parseAll_cons_ok t l₂ _).mpr ⟨s, rs, ht, hrs, rfl⟩, hperm.cons s⟩
  | swap a b l =>
    obtain ⟨sb, ss', hb, hts, rfl⟩ := (parseAll_cons_ok b (a :: l) ss).mp h
    obtain ⟨sa, sl, ha, hl, rfl⟩ := (parseAll_cons_ok a l ss').mp hts
    exact ⟨sa :: sb :: sl, (parseAll_cons_ok a (b :: l) _).mpr ⟨sa, sb :: sl, ha,
      (parseAll_cons_ok b l _).mpr ⟨sb, sl, hb, hl, rfl⟩, rfl⟩, List.Perm.swap _ _ _⟩
  | trans _ _ ih1 ih2 =>
    obtain ⟨rs, hrs, hp1⟩ := ih1 ss h
    obtain ⟨rs', hrs', hp2⟩ := ih2 rs hrs
    exact ⟨rs', hrs', hp1.trans hp2⟩

/-- the order in which the statement STRINGS are written does not matter -/
theorem filterTexts_perm_ok (ts us : List (List Char)) (hp : ts.Perm us) (ss : List StmtF) (es : List EventF)
    (h : parseAll ts = .ok ss) : filterTexts us es = filterTexts ts es := by
  obtain ⟨rs, hrs, hperm⟩ := parseAll_perm ts us hp ss h
  rw [filterTexts_eq, filterTexts_eq, h, hrs]
  show Except.ok (filterListF rs es) = Except.ok (filterListF ss es)
  rw [filterF_perm hperm.symm es]

/-! ### non-vacuity and the code as it is (kernel-evaluated) -/

/-- `float()` on the texts a caller writes: plain, exponent, digit groups, blanks other than the space, the words, overflow -/
example : pyFloatF "4.5".toList = some (.fin (9 / 2)) := by decide +kernel
example : pyFloatF "+.5e1".toList = some (.fin 5) := by decide +kernel
example : pyFloatF "1_0.5".toList = some (.fin (21 / 2)) := by decide +kernel
example : pyFloatF "\t4.5\n".toList = some (.fin (9 / 2)) := by decide +kernel
example : pyFloatF "NaN".toList = some .nan := by decide +kernel
example : pyFloatF "-Infinity".toList = some .negInf := by decide +kernel
example : pyFloatF "1e400".toList = some .posInf := by decide +kernel
example : pyFloatF "0x10".toList = none := by decide +kernel
example : pyFloatF "1e".toList = none := by decide +kernel

example : parseStmtText "magnitude >= 4.95".toList = .ok ⟨.magnitude, .ge, .fin (Soft64.fl64 (495 / 100))⟩ := by decide +kernel
example : parseStmtText "magnitude  >= 4.95".toList = .error .unpack := by decide +kernel
example : parseStmtText "magnitude => 4.95".toList = .error .keyError := by decide +kernel
example : parseStmtText "mag >= 4.95".toList = .error .noField := by decide +kernel
example : parseStmtText "depth < 4,5".toList = .error .badFloat := by decide +kernel
example : parseStmtText "datetime >= 2009-07-01 00:00:00.5".toList = .ok ⟨.originTime, .ge, .fin 1246406400500⟩ := by
  decide +kernel
example : parseStmtText "datetime < 2010-1-5 1:2:3".toList = .ok ⟨.originTime, .lt, .fin 1262653323000⟩ := by decide +kernel
example : parseStmtText "datetime < 2010-02-30 00:00:00".toList = .error .badDate := by decide +kernel
example : parseStmtText "datetime < 2010-01-01".toList = .error .unpack := by decide +kernel
example : strptimeStmt "2010-01-01 00:00:00.1234567".toList = none := by decide +kernel
example : strptimeStmt "2010-01-01 00:00:00-05:00".toList = none := by decide +kernel
example : strptimeStmt "2010-01-01 00:00:00+24:00".toList = none := by decide +kernel
example : strptimeStmt "1969-12-31 23:59:59.999999+00:00".toList = some (-1) := by decide +kernel

/-- hypotheses of `datetime_text_eq_origin_text` are satisfiable -/
example : parseStmtText (renderDatetime .le "2009-07-01".toList "00:00:00.000999".toList)
    = parseStmtText (renderNum .originTime .le "1246406400000".toList) :=
  datetime_text_eq_origin_text .le _ _ _ 1246406400000 (by decide) (by decide) (by decide) (by decide +kernel) (by decide +kernel)

example : filterTexts ["magnitude >= 4.5".toList, "depth < 30".toList]
    [⟨1, 0, .fin 0, .fin 0, .fin 10, .fin 5⟩, ⟨2, 0, .fin 0, .fin 0, .nan, .fin 5⟩, ⟨3, 0, .fin 0, .fin 0, .fin 10, .fin 4⟩]
    = .ok [⟨1, 0, .fin 0, .fin 0, .fin 10, .fin 5⟩] := by decide +kernel

/-- hypotheses of the general theorems are satisfiable (concrete instances through the theorems themselves) -/
example : parseStmtText (renderNum .magnitude .ge "4.95".toList) = .ok ⟨.magnitude, .ge, .fin (Soft64.fl64 (495 / 100))⟩ :=
  parse_render_num .magnitude .ge _ _ (by decide) (by decide +kernel)
example : parseStmtText (renderNum .depth .lt "4,5".toList) = .error .badFloat :=
  parse_render_badfloat .depth .lt _ (by decide) (by decide +kernel)
example : parseStmtText (renderDatetime .gt "2009-07-01".toList "00:00:00.5+00:00".toList) = .ok ⟨.originTime, .gt, .fin 1246406400500⟩ :=
  parse_render_datetime .gt _ _ 1246406400500 (by decide) (by decide) (by decide +kernel)
example : filterTexts ["depth < 30".toList, "magnitude >= 4.5".toList] [⟨1, 0, .fin 0, .fin 0, .fin 10, .fin 5⟩]
    = filterTexts ["magnitude >= 4.5".toList, "depth < 30".toList] [⟨1, 0, .fin 0, .fin 0, .fin 10, .fin 5⟩] :=
  filterTexts_perm_ok _ _ (List.Perm.swap _ _ _) [⟨.magnitude, .ge, .fin (9 / 2)⟩, ⟨.depth, .lt, .fin 30⟩] _ (by decide +kernel)

/-- THE CODE AS IT IS (W-C04-4, notes/C04.md): a UTC offset written in a datetime statement is parsed and then replaced by
    UTC — `+05:30` selects by the wall-clock digits, not by the instant they denote (which is 19 800 000 ms earlier) -/
theorem finding_tz_offset_discarded :
    strptimeStmt "2010-01-01 00:00:00+05:30".toList = strptimeStmt "2010-01-01 00:00:00+00:00".toList ∧
    strptimeStmt "2010-01-01 00:00:00+05:30".toList = some 1262304000000 := by decide +kernel

end CatFilter
