import PycsepVerif.Generated

/-! C19 — the dispatch table of `load_catalog` (re-extracted on every run). -/
namespace C19Tables

def readerOf (ty : String) : Option String :=
  (Generated.catalogLoaders.find? (fun r => r.1 == ty)).map (fun r => r.2.2)

/-- each supported text format is dispatched to its own reader function -/
theorem dispatch_total :
    readerOf "csep-csv" = some "csep_ascii" ∧ readerOf "zmap" = some "zmap_ascii" ∧
    readerOf "jma-csv" = some "jma_csv" ∧ readerOf "ingv_horus" = some "ingv_horus" ∧
    readerOf "ndk" = some "ndk" := by decide

/-- the five text formats are loaded into the CSEP catalog class -/
theorem dispatch_class : ∀ ty ∈ ["csep-csv", "zmap", "jma-csv", "ingv_horus", "ndk"],
    (Generated.catalogLoaders.find? (fun r => r.1 == ty)).map (fun r => r.2.1) = some "CSEPCatalog" := by decide

/-- type strings are unique keys -/
theorem dispatch_keys_nodup : (Generated.catalogLoaders.map (·.1)).Nodup := by decide

end C19Tables
