import PycsepVerif.Proofs.CatalogJson
import PycsepVerif.Properties.C14_Float

/-!
# C14, JSON form — the TOKENS of an event (id string, origin-time integer, four floats) survive `json.dump` / `json.load`

`write_json` hands `to_dict()` to `json.dump` (catalogs.py:234); an event is the list `[id, origin_time, lat, lon, depth, mag]`
(`tolist()`: a `str`, a Python `int`, four Python `float`s).  `json` writes the id with `py_encode_basestring_ascii`
(`Model/CatalogJson.lean`), the integer with `int.__repr__` (`Persist.intStr`), a float with `float.__repr__` (the same digits and
layout as `str(numpy.float64)`: `FloatText.floatStr`), and reads them back with `py_scanstring`, `int()`, `float()`.
The JSON document structure around the tokens (brackets, commas, indentation, key order) stays trusted.
-/
namespace CatalogJson
open Persist PersistText FloatText

/-- **an id survives JSON**: every ASCII string — quotes, backslashes, delimiters, control characters, DEL included —
    is read back from its JSON token -/
theorem json_string_roundtrip (s : Str) (hs : ∀ c ∈ s, c.toNat < 128) : decodeString (encodeString s) = some s := by
  unfold decodeString encodeString
  exact decodeBody_encode s hs

/-- `ensure_ascii`: the token consists of printable ASCII characters only (so the file encoding cannot matter) -/
theorem json_string_printable (s : Str) (hs : ∀ c ∈ s, c.toNat < 128) :
    ∀ c ∈ encodeString s, 32 ≤ c.toNat ∧ c.toNat ≤ 126 := by
  have hesc : ∀ n, n < 128 → ∀ c ∈ escChar (Char.ofNat n), 32 ≤ c.toNat ∧ c.toNat ≤ 126 := by decide
  intro c hc
  simp only [encodeString, List.mem_cons, List.mem_append, List.mem_flatMap, List.mem_singleton, List.not_mem_nil,
    or_false] at hc
  rcases hc with rfl | ⟨a, ha, hca⟩ | rfl
  · decide
  · have := hesc a.toNat (hs a ha) c
    rw [Char.ofNat_toNat] at this
    exact this hca
  · decide

/-- the JSON tokens of one event -/
structure EventTokens where
  id : Str
  ms : Str
  lat : Str
  lon : Str
  depth : Str
  mag : Str

def eventTokens (e : Event) : EventTokens :=
  ⟨encodeString e.id, intStr e.ms, floatStr e.lat, floatStr e.lon, floatStr e.depth, floatStr e.mag⟩

def eventOfTokens (t : EventTokens) : Option Event := do
  let i ← decodeString t.id
  let ms ← parseInt? t.ms
  let lat ← floatOfStr t.lat
  let lon ← floatOfStr t.lon
  let dep ← floatOfStr t.depth
  let mag ← floatOfStr t.mag
  some { id := i, ms := ms, lat := lat, lon := lon, depth := dep, mag := mag }

/-- **C14 (JSON), token level**: id, origin time (any integer), latitude, longitude, depth, magnitude of an event are
    read back from their JSON tokens — ASCII id of any content, finite zero-or-normal doubles -/
theorem json_event_roundtrip (e : Event) (hid : ∀ c ∈ e.id, c.toNat < 128)
    (h : F64Ok e.lat ∧ F64Ok e.lon ∧ F64Ok e.depth ∧ F64Ok e.mag) :
    eventOfTokens (eventTokens e) = some e := by
  obtain ⟨h1, h2, h3, h4⟩ := h
  simp [eventOfTokens, eventTokens, json_string_roundtrip e.id hid, parseInt?_intStr, float_text_roundtrip _ h1,
    float_text_roundtrip _ h2, float_text_roundtrip _ h3, float_text_roundtrip _ h4]

/-- an integer catalog id — beyond 2^53, beyond int64 — is written as decimal text and read back as the same integer -/
theorem json_catalog_id_roundtrip (i : Int) : parseInt? (intStr i) = some i := parseInt?_intStr i

/-! ### non-vacuity -/
example : encodeString "a,b\" ;\\".toList = "\"a,b\\\" ;\\\\\"".toList := by decide +kernel
example : encodeString ['\x7f', '\x01', '\n'] = "\"\\u007f\\u0001\\n\"".toList := by decide +kernel
example : decodeString "\"a\\/b\\u0041\"".toList = some "a/bA".toList := by decide +kernel
/-- a raw control character inside a token is rejected (strict mode); an unknown escape too -/
example : decodeString ['"', 'a', '\t', 'b', '"'] = none ∧ decodeString "\"\\x\"".toList = none := by decide +kernel

end CatalogJson
