import PycsepVerif.Model.ForecastConcrete
import PycsepVerif.Properties.C04_Mct
import PycsepVerif.Properties.C13_Rates

/-!
# C13 (round 4) — the forecast on ROWS: "the configured filters applied exactly once" in terms of the filter code

`Model/ForecastConcrete.lean` computes the abstraction `(keep, cell)` of every row with C04's model of the filter code and an
exact space-magnitude binning; until now the harness supplied these flags.

* `yieldOf_events` — the catalog `__next__` hands out (C04's `nextFilter`: `filter(statements)`, `apply_mct`, `filter_spatial`,
  each in place, each only if configured) holds exactly the rows that satisfy the conjunction `keepC`, for EVERY configuration
  (any subset of the three stages, any statements, any mainshock) on every time-sorted catalog;
* `abs_yieldOf` — the abstraction commutes with it: abstract `applyOnce` = abstraction of the code-shaped filter stage;
* `yieldedOnce_eq_filtered` — so the specification list of C13 IS the list of raw catalogs pushed once through the filter code;
* **`concrete_refines_spec`** — every history (any length, 11 operations) on every source (list, cached / re-read stream with any
  user `n_cat`) built from ROWS yields the observables of that list: every pass shows every catalog filtered exactly once by the
  code's own filter stage; event counts, `n_cat`, rates follow;
* `cell_lt_iff`, `countable_abs_iff` — a row is in a bin iff it lies in a cell of the region and at or above the first magnitude
  edge; `spatial_on_rejects_only_small_magnitudes` — with the spatial filter configured, `get_expected_rates` can only raise
  because of a magnitude below the first edge;
* `concrete_rates_raise_iff` — on rows: the rates request raises iff some once-filtered row lies in no bin.
-/
namespace ForecastConcrete
open CatFilter ForecastIter

theorem allHold_nil_filter (es : List Event) : es.filter (allHold []) = es :=
  List.filter_eq_self.mpr (fun _ _ => by simp [allHold])

/-- the rows after the statement stage (`if self.filters: catalog.filter(self.filters)`) -/
theorem stage1_events (fs : List RawStmt) (c : CatFilter.Cat) :
    (if fs.isEmpty = true then c else (stepFilter c fs true).2).events
      = c.events.filter (allHold (fs.map RawStmt.parse)) := by
  by_cases he : fs.isEmpty = true
  · have : fs = [] := by simpa using he
    subst this
    simp [allHold_nil_filter]
  · simp only [he, Bool.false_eq_true, ↓reduceIte, stepFilter, filterList_eq_filter]

/-- the rows after the completeness stage on a time-sorted catalog -/
theorem stage2_events (mct : Option Mct) (c1 : CatFilter.Cat) (hs1 : TimeSorted c1.events) :
    (match mct with | none => c1 | some p => stepMct c1 p).events
      = c1.events.filter (fun e => match mct with | none => true | some p => mctKeep p e) := by
  cases mct with
  | none => exact (List.filter_eq_self.mpr (fun _ _ => rfl)).symm
  | some p => simp only [stepMct, applyMct_eq_loop, mct_sorted_eq_filter p _ hs1]

/-- the catalog after the statement stage and the completeness stage -/
def stage12 (fs : List RawStmt) (mct : Option Mct) (c : CatFilter.Cat) : CatFilter.Cat :=
  match mct with
  | none => (if fs.isEmpty = true then c else (stepFilter c fs true).2)
  | some p => stepMct (if fs.isEmpty = true then c else (stepFilter c fs true).2) p

def mctPred (mct : Option Mct) (e : Event) : Bool := match mct with | none => true | some p => mctKeep p e

theorem keepC_eq (af : Bool) (fs : List RawStmt) (mct : Option Mct) (sp : Bool) (g : Grid) (e : Event) :
    keepC ⟨af, fs, mct, sp, g⟩ e =
      (allHold (fs.map RawStmt.parse) e && mctPred mct e && (!sp || !g.region.masked e.longitude e.latitude)) := rfl

theorem stage12_events (fs : List RawStmt) (mct : Option Mct) (c : CatFilter.Cat) (hs : TimeSorted c.events) :
    (stage12 fs mct c).events = c.events.filter (fun e => allHold (fs.map RawStmt.parse) e && mctPred mct e) := by
  have h1 := stage1_events fs c
  have hs1 : TimeSorted (if fs.isEmpty = true then c else (stepFilter c fs true).2).events := by
    rw [h1]; exact hs.sublist List.filter_sublist
  have h2 := stage2_events mct _ hs1
  rw [h1, List.filter_filter] at h2
  unfold stage12
  rw [h2]
  congr 1; funext e
  cases mct <;> simp [mctPred, Bool.and_comm]

/-- the filter stage of `__next__`, every configuration: exactly the rows satisfying the conjunction of the configured predicates -/
theorem yieldOf_events (f : FCfg) (c : CatFilter.Cat) (hs : TimeSorted c.events) :
    (yieldOf f c).events = if f.applyFilters then c.events.filter (keepC f) else c.events := by
  obtain ⟨af, fs, mct, sp, g⟩ := f
  cases af with
  | false => simp [yieldOf, nextFilter, FCfg.next]
  | true =>
    have h12 := stage12_events fs mct c hs
    cases sp with
    | false =>
      have : yieldOf ⟨true, fs, mct, false, g⟩ c = stage12 fs mct c := by
        cases mct <;> simp [yieldOf, nextFilter, FCfg.next, stage12]
      rw [this, h12]
      simp only [↓reduceIte]
      congr 1; funext e
      rw [keepC_eq]
      simp
    | true =>
      have : yieldOf ⟨true, fs, mct, true, g⟩ c = (stepSpatial (stage12 fs mct c) g.region true).2 := by
        cases mct <;> simp [yieldOf, nextFilter, FCfg.next, resolveRegion, stage12]
      rw [this]
      simp only [stepSpatial, ↓reduceIte, filterSpatial, filterSpatialBy]
      rw [h12, List.filter_filter]
      congr 1; funext e
      rw [keepC_eq]
      generalize allHold (fs.map RawStmt.parse) e = a
      generalize mctPred mct e = b
      generalize g.region.masked e.longitude e.latitude = m
      cases a <;> cases b <;> cases m <;> rfl

/-- the abstraction commutes with the filter stage: abstract `applyOnce` is the abstraction of what the filter code yields -/
theorem abs_yieldOf (f : FCfg) (i : Option Nat) (c : CatFilter.Cat) (hs : TimeSorted c.events) :
    absCat f (i, yieldOf f c) = applyOnce f.applyFilters (absCat f (i, c)) := by
  simp only [absCat, yieldOf_events f c hs, applyOnce]
  cases f.applyFilters with
  | false => simp
  | true =>
    simp only [↓reduceIte, filt, List.filter_map]
    congr 1

/-- C13's specification list = the raw catalogs pushed ONCE through the code's filter stage -/
theorem yieldedOnce_eq_filtered (f : FCfg) (raws : List (Option Nat × CatFilter.Cat))
    (hs : ∀ ic ∈ raws, TimeSorted ic.2.events) :
    yieldedOnce f raws = filtered (raws.map (absCat f)) f.applyFilters := by
  simp only [yieldedOnce, filtered, List.map_map]
  apply List.map_congr_left
  intro ic hic
  exact abs_yieldOf f ic.1 ic.2 (hs ic hic)

/-- **the forecast on rows refines the specification**: for every configuration, every non-empty list of time-sorted raw
    catalogs, every source kind and every history, each operation's observable is the specification's on the list of catalogs
    filtered exactly once by C04's model of `filter` / `apply_mct` / `filter_spatial` -/
theorem concrete_refines_spec (f : FCfg) (raws : List (Option Nat × CatFilter.Cat)) (hne : raws ≠ [])
    (hs : ∀ ic ∈ raws, TimeSorted ic.2.events) (ops : List ForecastIter.Op) :
    (∀ store nCat, run (initStreamC f raws store nCat) ops = spec (yieldedOnce f raws) f.grid.nBins f.grid.nMag ops) ∧
    run (initListC f raws none) ops = spec (yieldedOnce f raws) f.grid.nBins f.grid.nMag ops ∧
    run (initListC f raws (some raws.length)) ops = spec (yieldedOnce f raws) f.grid.nBins f.grid.nMag ops := by
  have hne' : raws.map (absCat f) ≠ [] := by simpa using hne
  rw [yieldedOnce_eq_filtered f raws hs]
  refine ⟨fun store nCat => ?_, ?_, ?_⟩
  · exact refines_spec_stream_any_ncat _ hne' store f.applyFilters nCat _ _ ops
  · exact refines_spec_list _ hne' none (Or.inl rfl) f.applyFilters _ _ ops
  · exact refines_spec_list _ hne' (some raws.length) (Or.inr (by simp)) f.applyFilters _ _ ops

/-! ### which rows lie in a bin -/

theorem spaceIdx_isSome_iff (r : Region) (lon lat : Rat) : (spaceIdx r lon lat).isSome = !r.masked lon lat := by
  simp [spaceIdx, Region.masked, List.findIdx?_isSome]

theorem spaceIdx_lt (r : Region) (lon lat : Rat) (s : Nat) (h : spaceIdx r lon lat = some s) : s < r.cells.length := by
  unfold spaceIdx at h
  exact (List.findIdx?_eq_some_iff_getElem.mp h).1

theorem magIdx_lt (edges : List Rat) (m : Rat) (k : Nat) (h : magIdx edges m = some k) : k < edges.length := by
  simp only [magIdx] at h
  have hle := (List.takeWhile_sublist (fun x => decide (x ≤ m)) (l := edges)).length_le
  split at h
  · cases h
  · simp only [Option.some.injEq] at h
    omega

theorem magIdx_isSome_iff (edges : List Rat) (m : Rat) :
    (magIdx edges m).isSome = match edges with | [] => false | e0 :: _ => decide (e0 ≤ m) := by
  cases edges with
  | nil => simp [magIdx]
  | cons e0 es =>
    by_cases h : e0 ≤ m
    · simp [magIdx, List.takeWhile_cons, h]
    · simp [magIdx, List.takeWhile_cons, h]

/-- a row is counted in a space-magnitude bin iff it lies in a cell of the region and at or above the first magnitude edge -/
theorem cell_lt_iff (g : Grid) (e : Event) :
    cellOf g e < g.nBins ↔ (g.region.masked e.longitude e.latitude = false ∧ (magIdx g.magEdges e.magnitude).isSome = true) := by
  unfold cellOf
  cases hsI : spaceIdx g.region e.longitude e.latitude with
  | none =>
    have := spaceIdx_isSome_iff g.region e.longitude e.latitude
    rw [hsI] at this
    simp only [Option.isSome_none] at this
    have hm : g.region.masked e.longitude e.latitude = true := by
      cases hh : g.region.masked e.longitude e.latitude <;> simp_all
    simp [hm]
  | some s =>
    have := spaceIdx_isSome_iff g.region e.longitude e.latitude
    rw [hsI] at this
    have hm : g.region.masked e.longitude e.latitude = false := by
      cases hh : g.region.masked e.longitude e.latitude <;> simp_all
    have hsl := spaceIdx_lt _ _ _ s hsI
    cases hmI : magIdx g.magEdges e.magnitude with
    | none => simp [hm]
    | some k =>
      have hkl := magIdx_lt _ _ k hmI
      simp only [hm, Option.isSome_some, and_self, iff_true, Grid.nBins, Grid.nMag]
      calc s * g.magEdges.length + k < s * g.magEdges.length + g.magEdges.length := by omega
        _ = (s + 1) * g.magEdges.length := by rw [Nat.succ_mul]
        _ ≤ g.region.cells.length * g.magEdges.length := Nat.mul_le_mul_right _ hsl

/-- `spatial_magnitude_counts` accepts the yielded catalog iff each of its rows lies in a cell and above the first edge -/
theorem countable_abs_iff (f : FCfg) (i : Option Nat) (c : CatFilter.Cat) :
    countable f.grid.nBins (absCat f (i, c)) = true ↔
      ∀ e ∈ c.events, f.grid.region.masked e.longitude e.latitude = false ∧ (magIdx f.grid.magEdges e.magnitude).isSome = true := by
  simp only [countable, absCat, List.all_map, List.all_eq_true, Function.comp, absEv]
  constructor
  · intro h e he; exact (cell_lt_iff f.grid e).mp (of_decide_eq_true (h e he))
  · intro h e he; exact decide_eq_true ((cell_lt_iff f.grid e).mpr (h e he))

/-- with `filter_spatial=True` (and `apply_filters=True`) a yielded catalog can be rejected by `get_expected_rates` only
    because of a magnitude below the first magnitude edge: no surviving row lies outside the region -/
theorem spatial_on_rejects_only_small_magnitudes (f : FCfg) (hsp : f.spatial = true) (haf : f.applyFilters = true)
    (i : Option Nat) (c : CatFilter.Cat) (hs : TimeSorted c.events)
    (hmag : ∀ e ∈ c.events, keepC f e = true → (magIdx f.grid.magEdges e.magnitude).isSome = true) :
    countable f.grid.nBins (absCat f (i, yieldOf f c)) = true := by
  rw [countable_abs_iff, yieldOf_events f c hs]
  simp only [haf, ↓reduceIte, List.mem_filter]
  intro e ⟨he, hk⟩
  refine ⟨?_, hmag e he hk⟩
  simp only [keepC, hsp, Bool.not_true, Bool.false_or, Bool.and_eq_true, Bool.not_eq_eq_eq_not] at hk
  exact hk.2

/-- on rows: a request for the rates raises iff some row that the filter code leaves in some catalog lies in no bin -/
theorem concrete_rates_raise_iff (f : FCfg) (raws : List (Option Nat × CatFilter.Cat)) (hne : raws ≠ [])
    (hs : ∀ ic ∈ raws, TimeSorted ic.2.events) (store : Bool) (nCat : Option Nat) :
    (∃ st' k, getExpectedRatesX (initStreamC f raws store nCat) = .raised st' k) ↔
      ∃ ic ∈ raws, ∃ e ∈ (yieldOf f ic.2).events,
        ¬ (f.grid.region.masked e.longitude e.latitude = false ∧ (magIdx f.grid.magEdges e.magnitude).isSome = true) := by
  have hne' : raws.map (absCat f) ≠ [] := by simpa using hne
  have hinv := inv_initStreamN (raws.map (absCat f)) store f.applyFilters nCat f.grid.nBins f.grid.nMag
  rw [show initStreamC f raws store nCat = initStreamN (raws.map (absCat f)) store f.applyFilters nCat f.grid.nBins f.grid.nMag
      from rfl, ratesX_raises_iff hinv hne' rfl, ← yieldedOnce_eq_filtered f raws hs]
  simp only [yieldedOnce, List.mem_map]
  constructor
  · rintro ⟨c, ⟨ic, hic, rfl⟩, hc⟩
    refine ⟨ic, hic, ?_⟩
    have : ¬ countable f.grid.nBins (absCat f (ic.1, yieldOf f ic.2)) = true := by simp [hc]
    rw [countable_abs_iff] at this
    exact Classical.not_forall.mp this |>.elim (fun e he => ⟨e, Classical.not_imp.mp he⟩)
  · rintro ⟨ic, hic, e, he, hbad⟩
    refine ⟨_, ⟨ic, hic, rfl⟩, ?_⟩
    cases hcc : countable f.grid.nBins (absCat f (ic.1, yieldOf f ic.2)) with
    | false => rfl
    | true => exact absurd ((countable_abs_iff f ic.1 _).mp hcc e he) hbad

/-! ### non-vacuity: a 2-cell × 2-magnitude-bin forecast on rows, evaluated by the kernel -/

def demoGrid : Grid := ⟨⟨1, [(0, 0), (1, 0)]⟩, [4, 5]⟩
def demoCfg : FCfg := ⟨true, [.num ⟨.magnitude, .ge, 9 / 2⟩], none, true, demoGrid⟩
def demoRaws : List (Option Nat × CatFilter.Cat) :=
  [(some 0, ⟨[⟨1, 10, 1 / 2, 1 / 2, 10, 47 / 10⟩, ⟨2, 20, 1 / 2, 3 / 2, 10, 42 / 10⟩], [], none⟩),
   (some 1, ⟨[⟨3, 30, 1 / 2, 5, 10, 55 / 10⟩, ⟨4, 40, 1 / 2, 3 / 2, 10, 55 / 10⟩], [], none⟩)]

theorem demoRaws_sorted : ∀ ic ∈ demoRaws, TimeSorted ic.2.events := by
  intro ic hic
  simp only [demoRaws, List.mem_cons, List.not_mem_nil, or_false] at hic
  rcases hic with rfl | rfl <;> simp [TimeSorted]
/-- `concrete_refines_spec` applied: a re-read stream built from the rows with a wrong user n_cat -/
example : run (initStreamC demoCfg demoRaws false (some 7)) [.getEventCounts, .fullPass, .getExpectedRates]
    = spec (yieldedOnce demoCfg demoRaws) demoCfg.grid.nBins demoCfg.grid.nMag [.getEventCounts, .fullPass, .getExpectedRates] :=
  (concrete_refines_spec demoCfg demoRaws (by decide) demoRaws_sorted _).1 false (some 7)
example : (yieldedOnce demoCfg demoRaws).map (fun c => c.events.map (·.cell)) = [[0], [3]] := by decide +kernel
example : (run (initStreamC demoCfg demoRaws true none) [.getExpectedRates, .fullPass, .getEventCounts]).map (·.1)
    = [.rates [1, 0, 0, 1] 2, .cats (yieldedOnce demoCfg demoRaws), .counts [1, 1]] := by decide +kernel
/-- the same rows with the filters off: the row at longitude 5 lies in no cell and the rates request raises at catalog 1 -/
example : (match getExpectedRatesX (initStreamC { demoCfg with applyFilters := false } demoRaws true none) with
    | .raised _ k => some k | _ => none) = some 1 := by decide +kernel

end ForecastConcrete
