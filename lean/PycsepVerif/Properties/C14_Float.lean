import PycsepVerif.Proofs.FloatText
import PycsepVerif.Properties.C14_Text

/-!
# C14 — the float text codec is no longer a hypothesis

`Model/FloatText.lean` models the characters of `str(numpy.float64(x))` (shortest round-trip digits, numpy / Python `repr`
layout); `float(text)` is `DecimalText.pyFloat` (exact decimal value, correctly rounded).  Here: the text denotes exactly
the shortest-repr decimal, reading it back gives `x`, and the ASCII round trip of `Properties/C14.lean` /
`C14_Text.lean` holds on the CHARACTERS of the file with this concrete codec — the only hypotheses left are about the
catalog itself (origin times in range, non-empty ids of at most 256 bytes, finite normal-or-zero doubles).
-/
namespace PersistText
open Persist Time FloatText DecimalText Soft64

/-- a value the model's float cells can hold: a binary64 number that is zero or normal, and finite -/
def F64Ok (x : ℚ) : Prop := IsF64 x ∧ (x = 0 ∨ pow2 (-1022) ≤ |x|) ∧ fabs x < f64Limit

/-- the characters of a float cell are a well-formed decimal numeral -/
theorem floatStr_numeral (x : ℚ) : ∃ n : Numeral, n.WF ∧ n.render = floatStr x := by
  by_cases h0 : x = 0
  · refine ⟨⟨none, [0], true, [0], none⟩, ⟨by simp, by simp, by simp, by simp, by simp⟩, ?_⟩
    subst h0
    simp [floatStr, Numeral.render, signChars, expChars, renderDigits, DecimalText.digitChar]
  · let s := shortest (if x < 0 then -x else x)
    let ds := decDigits (s.1 + 1) s.1
    obtain ⟨_, hd⟩ := decDigits_spec (s.1 + 1) s.1 (lt_pow_succ s.1)
    have hne : ds ≠ [] := decDigits_ne_nil s.1 s.1
    refine ⟨layoutN (if x < 0 then some true else none) ds ((ds.length : ℤ) + s.2), layoutN_wf _ ds _ hne hd, ?_⟩
    rw [layoutN_render]
    unfold floatStr
    simp only [h0, if_false]
    by_cases hneg : x < 0 <;> simp [hneg, signChars, s, ds]

/-- **`float(str(numpy.float64(x))) == x`** for every finite double that is zero or normal: the cell text is the
    shortest decimal that rounds to `x`, and `float()` rounds it back -/
theorem float_text_roundtrip (x : ℚ) (h : F64Ok x) : floatOfStr (floatStr x) = some x := by
  obtain ⟨hx, hn, hfin⟩ := h
  obtain ⟨n, hw, hr⟩ := floatStr_numeral x
  have hv : n.value = reprValue x := by
    have h1 := parseBody_render n hw
    rw [hr, floatStr_denotes] at h1
    exact (Option.some.inj h1).symm
  rw [← hr, floatOfStr_render n hw, hv]
  unfold toF64
  simp only [reprValue_roundtrip hx hn, hfin, if_true]

/-- the cell text denotes exactly the shortest-repr decimal (not merely something that rounds to `x`) -/
theorem float_text_denotes (x : ℚ) : parseBody (floatStr x) = some (reprValue x) := floatStr_denotes x

/-- no float cell is the word `lon`, and `float('lon')` raises: the header test of `csep_ascii` cannot confuse them -/
theorem textCodec_headerSafe : HeaderSafe textCodec := by
  constructor
  · show floatOfStr "lon".toList = none
    unfold floatOfStr pyFloat parseDecimal
    simp only [String.toList_ofList]
    decide +kernel
  · intro x hx
    have h1 := floatStr_denotes x
    have : floatStr x = "lon".toList := hx
    rw [this] at h1
    have h2 : parseBody "lon".toList = none := by decide +kernel
    rw [h2] at h1
    cases h1

/-- the events of the concrete theorem: times in range, ids non-empty and at most 256 bytes, four finite doubles -/
def EventFileOk (e : Event) : Prop := EventOk e ∧ F64Ok e.lat ∧ F64Ok e.lon ∧ F64Ok e.depth ∧ F64Ok e.mag

theorem eventCodecOk_of_fileOk (e : Event) (h : EventFileOk e) : EventCodecOk textCodec e := by
  obtain ⟨_, h1, h2, h3, h4⟩ := h
  simp only [EventCodecOk, CodecOk, textCodec]
  exact ⟨float_text_roundtrip _ h1, float_text_roundtrip _ h2, float_text_roundtrip _ h3, float_text_roundtrip _ h4⟩

/-- **C14 (ASCII), from the catalog to the characters of the file and back, no codec hypothesis.**
    `csep.load_catalog` on the characters `write_ascii` produces returns the same events in the same order with identical
    id, origin time (ms), latitude, longitude, depth, magnitude, and the integer catalog id of a non-empty catalog —
    for every list of events (any length, empty included), header on/off, `write_empty` on/off, ids with any characters. -/
theorem ascii_file_roundtrip {R} (cat : Catalog R) (writeHeader writeEmpty : Bool) (old : Str)
    (h : ∀ e ∈ cat.events, EventFileOk e) :
    loadText textCodec (writeText textCodec cat writeHeader writeEmpty false old true)
      = .ok (cat.events, loadedCatId cat.events cat.catalogId) :=
  ascii_text_roundtrip textCodec textCodec_headerSafe cat writeHeader writeEmpty old
    (fun e he => ⟨(h e he).1, eventCodecOk_of_fileOk e (h e he)⟩)

/-- … and in append mode: the characters of `a`, then `b` appended without header -/
theorem ascii_file_append {R} (a b : Catalog R) (writeHeader writeEmpty : Bool)
    (ha : ∀ e ∈ a.events, EventFileOk e) (hb : ∀ e ∈ b.events, EventFileOk e) :
    loadText textCodec (writeText textCodec b false writeEmpty true (writeText textCodec a writeHeader writeEmpty false [] true) true)
      = .ok (a.events ++ b.events,
          if b.events = [] then loadedCatId a.events a.catalogId else some (b.catalogId.getD (-1))) :=
  ascii_text_append textCodec textCodec_headerSafe a b writeHeader writeEmpty
    (fun e he => ⟨(ha e he).1, eventCodecOk_of_fileOk e (ha e he)⟩)
    (fun e he => ⟨(hb e he).1, eventCodecOk_of_fileOk e (hb e he)⟩)

/-! ### non-vacuity, evaluated by the kernel -/

example : floatStr (1/10) = "0.1".toList ∧ floatStr (-180) = "-180.0".toList ∧ floatStr 0 = "0.0".toList := by
  decide +kernel
/-- 1.5e-05 as a double (exponent notation), 1e16 (first value in scientific layout), 123.456 as a double -/
example : floatStr (fl64 (15/1000000)) = "1.5e-05".toList ∧ floatStr 10000000000000000 = "1e+16".toList ∧
    floatStr (fl64 (123456/1000)) = "123.456".toList := by decide +kernel
example : F64Ok (fl64 (1/10)) := by
  refine ⟨by unfold IsF64; decide +kernel, Or.inr ?_, by decide +kernel⟩
  rw [abs_of_pos (by decide +kernel)]
  decide +kernel

end PersistText
