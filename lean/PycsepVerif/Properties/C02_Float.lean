import PycsepVerif.Properties.C02
import PycsepVerif.Proofs.Bin1dUpper

/-!
# C02 — the float64 formula of `bin1d_vec` leaves the ideal bin only inside the round-off band

Theorems about `Bin1d.bin1dF (cfg64 rc)` (float64 points, float64 edges, default tolerance; calc.py:100-134 with both
repairs 83fbe87 and f44a808). Hypotheses are collected in two structures of `Proofs/Bin1dUpper.lean`:

* `RegularF64Grid bins`: 2 ≤ n ≤ 2^40 strictly increasing float64 edges; float step `h = fl(bins[1]−bins[0]) ≥ 2^-1021`
  (no underflow in `h − |a0|ε`); every edge within `h/4` of `a0 + j·h`. (Overflow, NaN, ±inf are outside Soft64.)
* `PointOK bins p`: `p` is a float64 and `(n+1)·fl(|a0|ε) + fl(|p|ε) ≤ h/2`.

`fband bins j p = (1+13u)·((j+1)·fl(|a0|ε) + fl(|p|ε)) + 6u·j·h + 2^-1073·h` (u = 2^-53) is the band of the *formula*
below the regular position `a0 + j·h`; the band below the real edge adds the edge's own offset `e_j − (a0 + j·h)`.
It is inside the band the harness oracle allows (`bandWidth`: constants 1+2^-20, 10u, 2^-1022).
-/
namespace Bin1d
open Soft64

/-- Master case analysis (float64, default tolerance). With K the ideal bin (largest k with `bins[k] ≤ p`, −1 below the
first edge) and r the result of the float formula:
* K is not the last bin: r = K, or r = K+1 and `p` is at most `fband (K+1)` below the regular position `a0 + (K+1)·h`;
* K is the last bin, open mode: r = K;
* K is the last bin, closed mode: `p ≥ top = fl(bins[-1]+h)` ⇒ r = −1; `p < top` ⇒ r = K, or r = −1 and `p` is at most
  `fband n` below `a0 + n·h`. -/
theorem bin1dF_cases (rc : Bool) {bins : List ℚ} (G : RegularF64Grid bins) {p : ℚ} (P : PointOK bins p) :
    (binIdeal bins p + 1 < (bins.length : ℤ) →
      bin1dF (cfg64 rc) bins p = binIdeal bins p ∨
      (bin1dF (cfg64 rc) bins p = binIdeal bins p + 1 ∧
        bins.getD 0 0 + ((binIdeal bins p + 1 : ℤ) : ℚ) * step64 bins - fband bins (binIdeal bins p + 1) p ≤ p)) ∧
    (binIdeal bins p + 1 = (bins.length : ℤ) → rc = true → bin1dF (cfg64 rc) bins p = binIdeal bins p) ∧
    (binIdeal bins p + 1 = (bins.length : ℤ) → rc = false → top64 bins ≤ p → bin1dF (cfg64 rc) bins p = -1) ∧
    (binIdeal bins p + 1 = (bins.length : ℤ) → rc = false → p < top64 bins →
      bin1dF (cfg64 rc) bins p = binIdeal bins p ∨
      (bin1dF (cfg64 rc) bins p = -1 ∧
        bins.getD 0 0 + ((bins.length : ℤ) : ℚ) * step64 bins - fband bins (bins.length : ℤ) p ≤ p)) := by
  have hn := G.two_le
  have hn40 := G.le_pow40
  have hs := G.increasing
  have hb : bins ≠ [] := by intro h; simp [h] at hn
  have hhpos := G.step_pos
  have hat6 := P.atol_le G
  have hat : getTol .f64 (bins.getD 0 0) ≤ hOf .f64 bins.length (fun j => bins.getD j 0) / 4 := by
    have : atol64 bins ≤ step64 bins / 4 := by linarith
    exact this
  have hNB := bin1dF_never_below rc bins p hn hn40 hs G.step_normal hat G.reg_lower
  have hrange := bin1dF_range (cfg64 rc) bins hb p
  have hKr := binIdeal_range bins p
  have hcore : bin1dF (cfg64 rc) bins p = clampInt rc bins.length (corrInt bins.length (fun j => bins.getD j 0)
      (top64 bins) p ⌊qF bins.length (fun j => bins.getD j 0) p⌋) := by
    unfold bin1dF
    exact bin1dCore_cfg64 rc hn (by omega) _ p
  -- the error analysis of the quotient
  have hB : ∀ j : ℤ, 0 ≤ j → j ≤ ⌊qF bins.length (fun j => bins.getD j 0) p⌋ →
      bins.getD 0 0 + (j : ℚ) * step64 bins - fband bins j p ≤ p := fun j hj0 hji =>
    qF_upper hn (fun j => bins.getD j 0) p hj0 G.a0_float P.float G.step_normal hat hji
  -- the last edge is below top
  have hlast : bins.getD (bins.length - 1) 0 ≤ top64 bins := by
    apply top_ge_last (fun j => bins.getD j 0) _ hhpos.le
    have hl : bins.length - 1 < bins.length := by omega
    show fl64 (bins.getD (bins.length - 1) 0) = bins.getD (bins.length - 1) 0
    rw [getD_eq_getElem bins hl]
    exact G.floats _ (List.getElem_mem hl)
  have htopK : top64 bins ≤ p → (bins.length : ℤ) - 1 ≤ binIdeal bins p := by
    intro ht
    have := (edge_le_iff hs p (j := bins.length - 1) (by omega)).1 (le_trans hlast ht)
    omega
  -- reaching the floor index n means p is at or above the last edge
  have hnK : (bins.length : ℤ) ≤ ⌊qF bins.length (fun j => bins.getD j 0) p⌋ →
      (bins.length : ℤ) - 1 ≤ binIdeal bins p ∧
        bins.getD 0 0 + ((bins.length : ℤ) : ℚ) * step64 bins - fband bins (bins.length : ℤ) p ≤ p := by
    intro hi
    have h1 := hB (bins.length : ℤ) (by omega) hi
    have h2 := fband_le G P (j := (bins.length : ℤ)) (by omega) le_rfl
    have h3 := G.reg_upper (bins.length - 1) (by omega)
    have hc : ((bins.length - 1 : ℕ) : ℚ) = (bins.length : ℚ) - 1 := by
      rw [Nat.cast_sub (by omega)]; simp
    rw [hc] at h3
    push_cast at h1 h2
    have : bins.getD (bins.length - 1) 0 ≤ p := by nlinarith
    have := (edge_le_iff hs p (j := bins.length - 1) (by omega)).1 this
    refine ⟨by omega, ?_⟩
    push_cast
    exact h1
  -- upper claim
  have hU : bin1dF (cfg64 rc) bins p ≤ binIdeal bins p ∨
      (bin1dF (cfg64 rc) bins p = binIdeal bins p + 1 ∧
        bins.getD 0 0 + ((binIdeal bins p + 1 : ℤ) : ℚ) * step64 bins - fband bins (binIdeal bins p + 1) p ≤ p) := by
    by_cases hle : bin1dF (cfg64 rc) bins p ≤ binIdeal bins p
    · exact Or.inl hle
    right
    have hr0 : 0 ≤ bin1dF (cfg64 rc) bins p := by omega
    rw [hcore] at hr0
    obtain ⟨hi0, hc⟩ := result_nonneg_cases hn rc (fun j => bins.getD j 0) (top64 bins) p _ hr0
    rw [← hcore] at hc
    rcases hc with hc | ⟨hc, hc1, hc2⟩ | ⟨hc, hc1⟩
    · -- the result is at most the floor index
      have h1 := hB _ (by omega) hc
      by_cases hK2 : binIdeal bins p + 2 ≤ bin1dF (cfg64 rc) bins p
      · exfalso
        have hj : (binIdeal bins p + 1).toNat < bins.length := by omega
        have hlt : ¬ bins.getD (binIdeal bins p + 1).toNat 0 ≤ p := by
          rw [edge_le_iff hs p hj]; omega
        have h3 := G.reg_upper _ hj
        have h4 := hB (binIdeal bins p + 2) (by omega) (by omega)
        have h5 := fband_le G P (j := binIdeal bins p + 2) (by omega) (by omega)
        have hc' : (((binIdeal bins p + 1).toNat : ℕ) : ℚ) = ((binIdeal bins p : ℤ) : ℚ) + 1 := by
          have : (((binIdeal bins p + 1).toNat : ℕ) : ℤ) = binIdeal bins p + 1 := Int.toNat_of_nonneg (by omega)
          have : (((binIdeal bins p + 1).toNat : ℕ) : ℚ) = ((binIdeal bins p + 1 : ℤ) : ℚ) := by exact_mod_cast this
          rw [this]; push_cast; ring
        rw [hc'] at h3
        push_cast at h4 h5
        apply hlt
        nlinarith
      · have he : bin1dF (cfg64 rc) bins p = binIdeal bins p + 1 := by omega
        refine ⟨he, ?_⟩
        rw [he] at h1
        exact h1
    · exfalso
      have hj : (⌊qF bins.length (fun j => bins.getD j 0) p⌋ + 1).toNat < bins.length := by omega
      have := (edge_le_iff hs p hj).1 hc2
      omega
    · exfalso
      have := htopK hc1
      omega
  refine ⟨?_, ?_, ?_, ?_⟩
  · intro hK
    rcases hNB with h1 | ⟨_, h2, h3⟩
    · rcases hU with h4 | h4
      · left; omega
      · right; exact h4
    · left
      by_cases hK0 : binIdeal bins p = -1
      · omega
      · exfalso
        rcases h3 with h3 | h3
        · have := htopK h3; omega
        · have := (hnK h3).1; omega
  · intro hK hrc
    rcases hNB with h1 | ⟨h0, _, _⟩
    · omega
    · rw [hrc] at h0; exact absurd h0 (by simp)
  · intro hK hrc ht
    rcases hNB with h1 | ⟨_, h2, _⟩
    · exfalso
      have h5 : bin1dF (cfg64 rc) bins p = (bins.length : ℤ) - 1 := by omega
      rw [hcore, hrc] at h5
      exact result_closed_top hn _ _ _ _ ht h5
    · exact h2
  · intro hK hrc ht
    rcases hNB with h1 | ⟨_, h2, h3⟩
    · left; omega
    · right
      refine ⟨h2, ?_⟩
      rcases h3 with h3 | h3
      · exact absurd h3 (not_le.mpr ht)
      · exact (hnK h3).2

/-- C02 `bin1dF_upper`: the result never exceeds the ideal bin by more than one, and exceeds it only when `p` lies in
the band immediately below the next real edge `e = bins[K+1]`:
`e − p ≤ max(0, e − (a0+(K+1)·h)) + fband (K+1)` (second conjunct: the proved, tight band), which is inside the band
`bandWidth` the harness oracle and `allowed` use (third conjunct). -/
theorem bin1dF_upper (rc : Bool) {bins : List ℚ} (G : RegularF64Grid bins) {p : ℚ} (P : PointOK bins p) :
    bin1dF (cfg64 rc) bins p ≤ binIdeal bins p + 1 ∧
    (bin1dF (cfg64 rc) bins p = binIdeal bins p + 1 →
      bins.getD (binIdeal bins p + 1).toNat 0 - p
          ≤ (bins.getD (binIdeal bins p + 1).toNat 0 - (bins.getD 0 0 + ((binIdeal bins p + 1 : ℤ) : ℚ) * step64 bins))
            + fband bins (binIdeal bins p + 1) p ∧
      bins.getD (binIdeal bins p + 1).toNat 0 - p
          ≤ bandWidth (cfg64 rc) (bins.getD 0 0) (step64 bins) (binIdeal bins p + 1).toNat
              (bins.getD (binIdeal bins p + 1).toNat 0) p) := by
  have hb : bins ≠ [] := by intro h; have := G.two_le; simp [h] at this
  have hrange := bin1dF_range (cfg64 rc) bins hb p
  have hKr := binIdeal_range bins p
  obtain ⟨c1, c2, c3, c4⟩ := bin1dF_cases rc G P
  by_cases hK : binIdeal bins p + 1 < (bins.length : ℤ)
  · rcases c1 hK with h | ⟨h, hband⟩
    · exact ⟨by omega, fun h' => by omega⟩
    · refine ⟨by omega, fun _ => ⟨by linarith, ?_⟩⟩
      apply le_bandWidth_of_fband rc _ G.step_pos.le
      have hc : (((binIdeal bins p + 1).toNat : ℕ) : ℚ) = ((binIdeal bins p + 1 : ℤ) : ℚ) := by
        have : (((binIdeal bins p + 1).toNat : ℕ) : ℤ) = binIdeal bins p + 1 := Int.toNat_of_nonneg (by omega)
        exact_mod_cast this
      rw [hc]
      exact hband
  · exact ⟨by omega, fun h' => by omega⟩

/-- C02 `bin1dF_upper`, closed mode at the upper edge of the last bin (`top = fl(bins[-1] + h)` is "edge n"): a point of the
last bin that is reported out of range lies in the band below `top`. -/
theorem bin1dF_upper_top {bins : List ℚ} (G : RegularF64Grid bins) {p : ℚ} (P : PointOK bins p)
    (hK : binIdeal bins p + 1 = (bins.length : ℤ)) (hp : p < top64 bins) (hr : bin1dF (cfg64 false) bins p = -1) :
    top64 bins - p ≤ (top64 bins - (bins.getD 0 0 + ((bins.length : ℤ) : ℚ) * step64 bins)) + fband bins (bins.length : ℤ) p ∧
    top64 bins - p ≤ bandWidth (cfg64 false) (bins.getD 0 0) (step64 bins) bins.length (top64 bins) p := by
  obtain ⟨_, _, _, c4⟩ := bin1dF_cases false G P
  have hn := G.two_le
  rcases c4 hK rfl hp with h | ⟨_, hband⟩
  · omega
  · refine ⟨by linarith, ?_⟩
    apply le_bandWidth_of_fband false _ G.step_pos.le
    exact_mod_cast hband

/-- The model's answer always lies in the set of answers the property allows (`allowed`, the rule the harness oracle
implements independently in `Fraction` arithmetic): float64, default tolerance, both modes. Together with the bit-exact
correspondence model = numpy this is the property for every float64 point on every such grid, not a sample. -/
theorem bin1dF_mem_allowed (rc : Bool) {bins : List ℚ} (G : RegularF64Grid bins) {p : ℚ} (P : PointOK bins p) :
    bin1dF (cfg64 rc) bins p ∈ allowed (cfg64 rc) bins p := by
  have hn := G.two_le
  have hn1 : (bins.length == 1) = false := by simp; omega
  have hKr := binIdeal_range bins p
  obtain ⟨c1, c2, c3, c4⟩ := bin1dF_cases rc G P
  have hup := bin1dF_upper rc G P
  unfold allowed
  simp only [hn1, Bool.or_false]
  by_cases hK : binIdeal bins p + 1 < (bins.length : ℤ)
  · rw [if_pos hK]
    rcases c1 hK with h | ⟨h, _⟩
    · split_ifs <;> simp [h]
    · split_ifs with hb
      · simp [h]
      · exact absurd (hup.2 h).2 hb
  · have hK' : binIdeal bins p + 1 = (bins.length : ℤ) := by omega
    rw [if_neg hK]
    cases rc with
    | true =>
      have h := c2 hK' rfl
      rw [if_pos (show (cfg64 true).rc = true from rfl)]
      simp [h]
    | false =>
      rw [if_neg (show ¬ (cfg64 false).rc = true by simp [cfg64])]
      by_cases ht : top64 bins ≤ p
      · have h := c3 hK' rfl ht
        have ht' : (topOf (cfg64 false).bd bins.length fun k => bins.getD k 0) ≤ p := ht
        rw [if_pos ht']
        simp [h]
      · have ht' : ¬ (topOf (cfg64 false).bd bins.length fun k => bins.getD k 0) ≤ p := ht
        rw [if_neg ht']
        rcases c4 hK' rfl (not_le.mp ht) with h | ⟨h, _⟩
        · split_ifs <;> simp [h]
        · have hb := (bin1dF_upper_top G P hK' (not_le.mp ht) h).2
          split_ifs with h2
          · simp [h]
          · exact absurd hb h2

/-- C02 `bin1dF_safe`, band form (no closed form of the band used). Let every real edge lie within `δ` of its regular
position `a0 + j·h` (closed mode: also `top = fl(bins[-1]+h)` within `δ` of `a0 + n·h`). If, with `k = ⌊(p − a0)/h⌋`,
the point is at least `δ` above `a0 + k·h` and — when k < n — more than `δ + fband (max (k+1) 0)` below `a0 + (k+1)·h`, the float
formula returns exactly the regular-grid answer `binReg a0 h n rc p` (h the float step). -/
theorem bin1dF_safe_band (rc : Bool) {bins : List ℚ} (G : RegularF64Grid bins) {p : ℚ} (P : PointOK bins p) {δ : ℚ}
    (hδ : ∀ j : ℕ, j < bins.length → |bins.getD j 0 - (bins.getD 0 0 + (j : ℚ) * step64 bins)| ≤ δ)
    (hδtop : rc = false → |top64 bins - (bins.getD 0 0 + (bins.length : ℚ) * step64 bins)| ≤ δ)
    {k : ℤ} (hk : ⌊(p - bins.getD 0 0) / step64 bins⌋ = k)
    (hlo : bins.getD 0 0 + (k : ℚ) * step64 bins + δ ≤ p)
    (hhi : k < (bins.length : ℤ) →
      p + δ + fband bins (max (k + 1) 0) p < bins.getD 0 0 + ((k : ℚ) + 1) * step64 bins) :
    bin1dF (cfg64 rc) bins p = binReg (bins.getD 0 0) (step64 bins) bins.length rc p := by
  have hn := G.two_le
  have hs := G.increasing
  have hhpos := G.step_pos
  have hKr := binIdeal_range bins p
  obtain ⟨c1, c2, c3, c4⟩ := bin1dF_cases rc G P
  have hδ0 : 0 ≤ δ := le_trans (abs_nonneg _) (hδ 0 (by omega))
  have hfl := (floor_div_eq_iff hhpos p k).1 hk
  have hR : binReg (bins.getD 0 0) (step64 bins) bins.length rc p =
      (if k < 0 then -1 else if rc then (if k ≥ (bins.length : ℤ) - 1 then (bins.length : ℤ) - 1 else k)
        else (if k ≥ (bins.length : ℤ) then -1 else k)) := by
    unfold binReg
    simp only [rfloor_eq, hk]
  rw [hR]
  -- edges against p
  have hedge_le : ∀ j : ℕ, j < bins.length → (j : ℤ) ≤ k → (j : ℤ) ≤ binIdeal bins p := by
    intro j hj hjk
    apply (edge_le_iff hs p hj).1
    have h1 := (abs_le.mp (hδ j hj)).2
    have h2 : (j : ℚ) ≤ (k : ℚ) := by exact_mod_cast hjk
    have h3 : (j : ℚ) * step64 bins ≤ (k : ℚ) * step64 bins := mul_le_mul_of_nonneg_right h2 hhpos.le
    linarith
  have hedge_gt : ∀ j : ℕ, j < bins.length → k + 1 ≤ (j : ℤ) → k < (bins.length : ℤ) → ¬ (j : ℤ) ≤ binIdeal bins p := by
    intro j hj hjk hkn
    rw [← edge_le_iff hs p hj]
    have h1 := (abs_le.mp (hδ j hj)).1
    have h2 : (k : ℚ) + 1 ≤ (j : ℚ) := by exact_mod_cast hjk
    have h3 : ((k : ℚ) + 1) * step64 bins ≤ (j : ℚ) * step64 bins := mul_le_mul_of_nonneg_right h2 hhpos.le
    have h4 := hhi hkn
    have h5 : 0 ≤ fband bins (max (k + 1) 0) p := by
      have := fband_nonneg bins (max (k + 1) 0) p (le_max_right _ _) hhpos.le
      exact this
    linarith
  by_cases hk0 : k < 0
  · -- below the first edge
    rw [if_pos hk0]
    have hK : binIdeal bins p = -1 := by
      have := hedge_gt 0 (by omega) (by omega) (by omega)
      omega
    have hmax : max (k + 1) 0 = 0 := max_eq_right (by omega)
    rcases c1 (by omega) with h | ⟨h, hb⟩
    · omega
    · exfalso
      have h4 := hhi (by omega)
      rw [hmax] at h4
      rw [hK] at hb
      have h2 : ((k : ℚ) + 1) * step64 bins ≤ 0 := by
        have : (k : ℚ) + 1 ≤ 0 := by exact_mod_cast (show k + 1 ≤ 0 by omega)
        exact mul_nonpos_of_nonpos_of_nonneg this hhpos.le
      have e : (-1 : ℤ) + 1 = 0 := rfl
      rw [e] at hb
      simp only [Int.cast_zero, zero_mul, add_zero] at hb
      linarith
  · rw [if_neg hk0]
    have hmax : max (k + 1) 0 = k + 1 := max_eq_left (by omega)
    by_cases hkn : k + 1 < (bins.length : ℤ)
    · -- interior bin
      have hK : binIdeal bins p = k := by
        have a := hedge_le k.toNat (by omega) (by omega)
        have b := hedge_gt (k + 1).toNat (by omega) (by omega) (by omega)
        omega
      have hval : (if rc = true then (if k ≥ (bins.length : ℤ) - 1 then (bins.length : ℤ) - 1 else k)
          else (if k ≥ (bins.length : ℤ) then -1 else k)) = k := by
        split_ifs <;> omega
      rw [hval]
      rcases c1 (by omega) with h | ⟨h, hb⟩
      · omega
      · exfalso
        have h4 := hhi (by omega)
        rw [hmax, ← hK] at h4
        push_cast at hb h4
        linarith
    · by_cases hkn2 : k + 1 = (bins.length : ℤ)
      · -- last bin
        have hK : binIdeal bins p + 1 = (bins.length : ℤ) := by
          have a := hedge_le k.toNat (by omega) (by omega)
          omega
        cases rc with
        | true =>
          rw [c2 hK rfl]
          simp only [if_true]
          split_ifs <;> omega
        | false =>
          have hval : (if false = true then (if k ≥ (bins.length : ℤ) - 1 then (bins.length : ℤ) - 1 else k)
              else (if k ≥ (bins.length : ℤ) then -1 else k)) = k := by
            simp only [Bool.false_eq_true, if_false]; split_ifs <;> omega
          rw [hval]
          have h4 := hhi (by omega)
          rw [hmax, hkn2] at h4
          have hk1 : (k : ℚ) + 1 = (bins.length : ℚ) := by exact_mod_cast hkn2
          rw [hk1] at h4
          have ht := (abs_le.mp (hδtop rfl)).1
          have h5 := fband_nonneg bins (bins.length : ℤ) p (by omega) hhpos.le
          rcases c4 hK rfl (by linarith) with h | ⟨_, hb⟩
          · omega
          · exfalso; push_cast at hb; linarith
      · -- at or beyond the regular top
        have hkn3 : (bins.length : ℤ) ≤ k := by omega
        have hK : binIdeal bins p + 1 = (bins.length : ℤ) := by
          have a := hedge_le (bins.length - 1) (by omega) (by omega)
          omega
        cases rc with
        | true =>
          rw [c2 hK rfl]
          simp only [if_true]
          split_ifs <;> omega
        | false =>
          have hval : (if false = true then (if k ≥ (bins.length : ℤ) - 1 then (bins.length : ℤ) - 1 else k)
              else (if k ≥ (bins.length : ℤ) then -1 else k)) = -1 := by
            simp only [Bool.false_eq_true, if_false]; split_ifs <;> omega
          rw [hval]
          apply c3 hK rfl
          have ht := (abs_le.mp (hδtop rfl)).2
          have h2 : (bins.length : ℚ) ≤ (k : ℚ) := by exact_mod_cast hkn3
          have h3 : (bins.length : ℚ) * step64 bins ≤ (k : ℚ) * step64 bins := mul_le_mul_of_nonneg_right h2 hhpos.le
          linarith

/-- C02 `bin1dF_safe` (DESIGN §4): if the exact quotient `x = (p − a0)/h` (h the float step) is at least `δ/h` above
`k = ⌊x⌋` and at least `τ + δ/h` below `k+1`, with `τ = 2^-50·(|k+1|+3)·(1+|a0|/h)` and `δ` the largest offset of a real edge
from its regular position, then `bin1d_vec` (float64, default tolerance, either mode) returns exactly the regular-grid
answer `binReg`. Extra hypothesis: `h ≥ 2^-960` (so that the 2^-1075 absolute error of a subnormal `|a0|ε`, taken up to n+1
times, stays below the relative terms). For an exactly regular grid δ = 0 and the lower condition is automatic. -/
theorem bin1dF_safe (rc : Bool) {bins : List ℚ} (G : RegularF64Grid bins) {p : ℚ} (P : PointOK bins p)
    (hh960 : pow2 (-960) ≤ step64 bins) {δ : ℚ}
    (hδ : ∀ j : ℕ, j < bins.length → |bins.getD j 0 - (bins.getD 0 0 + (j : ℚ) * step64 bins)| ≤ δ)
    (hδtop : rc = false → |top64 bins - (bins.getD 0 0 + (bins.length : ℚ) * step64 bins)| ≤ δ)
    {k : ℤ} (hk : ⌊(p - bins.getD 0 0) / step64 bins⌋ = k)
    (hlo : (k : ℚ) + δ / step64 bins ≤ (p - bins.getD 0 0) / step64 bins)
    (hhi : (p - bins.getD 0 0) / step64 bins + δ / step64 bins
        + pow2 (-50) * (|((k + 1 : ℤ) : ℚ)| + 3) * (1 + |bins.getD 0 0| / step64 bins) ≤ (k : ℚ) + 1) :
    bin1dF (cfg64 rc) bins p = binReg (bins.getD 0 0) (step64 bins) bins.length rc p := by
  have hhpos := G.step_pos
  have hne : step64 bins ≠ 0 := hhpos.ne'
  have hfl := (floor_div_eq_iff hhpos p k).1 hk
  have hlo' : bins.getD 0 0 + (k : ℚ) * step64 bins + δ ≤ p := by
    have := mul_le_mul_of_nonneg_right hlo hhpos.le
    rw [add_mul, div_mul_cancel₀ _ hne, div_mul_cancel₀ _ hne] at this
    linarith
  have hhi' : p - bins.getD 0 0 + δ + pow2 (-50) * (|((k + 1 : ℤ) : ℚ)| + 3) * (step64 bins + |bins.getD 0 0|)
      ≤ ((k : ℚ) + 1) * step64 bins := by
    have := mul_le_mul_of_nonneg_right hhi hhpos.le
    have e : pow2 (-50) * (|((k + 1 : ℤ) : ℚ)| + 3) * (1 + |bins.getD 0 0| / step64 bins) * step64 bins
        = pow2 (-50) * (|((k + 1 : ℤ) : ℚ)| + 3) * (step64 bins + |bins.getD 0 0|) := by
      field_simp
    rw [add_mul, add_mul, div_mul_cancel₀ _ hne, div_mul_cancel₀ _ hne, e] at this
    exact this
  refine bin1dF_safe_band rc G P hδ hδtop hk hlo' (fun hkn => ?_)
  -- |p| ≤ |a0| + (|k+1| + 1)·h
  have hm1 : ((k + 1 : ℤ) : ℚ) ≤ |((k + 1 : ℤ) : ℚ)| := le_abs_self _
  have hm2 : -((k + 1 : ℤ) : ℚ) ≤ |((k + 1 : ℤ) : ℚ)| := neg_le_abs _
  have hpabs : |p| ≤ |bins.getD 0 0| + (|((k + 1 : ℤ) : ℚ)| + 1) * step64 bins := by
    have h1 : |p| ≤ |bins.getD 0 0| + |p - bins.getD 0 0| := by
      have := abs_add_le (bins.getD 0 0) (p - bins.getD 0 0)
      rw [add_sub_cancel] at this
      exact this
    have h2 : |p - bins.getD 0 0| ≤ (|((k + 1 : ℤ) : ℚ)| + 1) * step64 bins := by
      generalize |((k + 1 : ℤ) : ℚ)| = M at hm1 hm2 ⊢
      push_cast at hm1 hm2
      have q1 : 0 ≤ ((k : ℚ) + 1 + M) * step64 bins := mul_nonneg (by linarith) hhpos.le
      have q2 : 0 ≤ (M - ((k : ℚ) + 1)) * step64 bins := mul_nonneg (by linarith) hhpos.le
      rw [abs_le]
      constructor <;> linarith [hfl.1, hfl.2]
    linarith
  have hjm : ((max (k + 1) 0 : ℤ) : ℚ) ≤ |((k + 1 : ℤ) : ℚ)| := by
    rcases le_total (k + 1) 0 with h | h
    · rw [max_eq_right h]; simp
    · rw [max_eq_left h]; exact hm1
  have hcase : max (k + 1) 0 = 0 ∨ |((k + 1 : ℤ) : ℚ)| ≤ 2 ^ 41 := by
    rcases le_total (k + 1) 0 with h | h
    · left; exact max_eq_right h
    · right
      rw [abs_of_nonneg (by exact_mod_cast h)]
      have := G.le_pow40
      have : k + 1 ≤ 2 ^ 41 := by omega
      exact_mod_cast this
  have hb := fband_lt_tau G hh960 (j := max (k + 1) 0) (m := |((k + 1 : ℤ) : ℚ)|) (le_max_right _ _)
    (by have := G.le_pow40; omega) hjm hcase hpabs
  linarith

/-- C02 "a value equal to an edge always lands in the bin that edge opens", for the float formula on every regular
float64 grid (both modes): if the grid resolves its step at edge j (`PointOK`), then `bin1d_vec(bins[j], bins) = j`. This is
the general form of the kernel tables `edgesOwnBin`. -/
theorem bin1dF_edge_own_bin (rc : Bool) {bins : List ℚ} (G : RegularF64Grid bins) {j : ℕ} (hj : j < bins.length)
    (P : PointOK bins (bins.getD j 0)) : bin1dF (cfg64 rc) bins (bins.getD j 0) = j := by
  have hs := G.increasing
  have hhpos := G.step_pos
  obtain ⟨c1, c2, c3, c4⟩ := bin1dF_cases rc G P
  have hKr := binIdeal_range bins (bins.getD j 0)
  have hK : binIdeal bins (bins.getD j 0) = j := by
    have a := (edge_le_iff hs (bins.getD j 0) hj).1 le_rfl
    by_cases hj1 : j + 1 < bins.length
    · have b : ¬ ((j + 1 : ℕ) : ℤ) ≤ binIdeal bins (bins.getD j 0) := by
        rw [← edge_le_iff hs _ hj1, getD_eq_getElem bins hj1, getD_eq_getElem bins hj]
        exact not_le.mpr (List.pairwise_iff_getElem.mp hs j (j + 1) hj hj1 (by omega))
      push_cast at b
      omega
    · omega
  have hup := G.reg_upper j hj
  by_cases hj1 : (j : ℤ) + 1 < (bins.length : ℤ)
  · rcases c1 (by omega) with h | ⟨_, hb⟩
    · omega
    · exfalso
      have h2 := fband_lt G P (j := binIdeal bins (bins.getD j 0) + 1) (by omega) (by omega)
      rw [hK] at hb h2
      push_cast at hb
      linarith
  · have hK' : binIdeal bins (bins.getD j 0) + 1 = (bins.length : ℤ) := by omega
    cases rc with
    | true => rw [c2 hK' rfl]; exact hK
    | false =>
      have hjl : j = bins.length - 1 := by omega
      have htop : bins.getD j 0 < top64 bins := by
        have h1 := P.tol_small
        have h2 : 0 ≤ ((bins.length : ℚ) + 1) * atol64 bins :=
          mul_nonneg (by positivity) (getTol_f64_nonneg _)
        have := lt_fl_add_step (e := bins.getD j 0) G.step_normal (by linarith)
        rw [hjl] at this ⊢
        exact this
      rcases c4 hK' rfl htop with h | ⟨_, hb⟩
      · omega
      · exfalso
        have h2 := fband_lt G P (j := (bins.length : ℤ)) (by omega) le_rfl
        have hc : (j : ℚ) = (bins.length : ℚ) - 1 := by
          have : (j : ℤ) = (bins.length : ℤ) - 1 := by omega
          exact_mod_cast this
        rw [hc] at hup
        push_cast at hb
        linarith

/-! ## the hypotheses are decidable: Bool forms evaluated by the driver on every harness grid (`c02_hyp`) -/

theorem sortedLtB_sound : ∀ l : List ℚ, sortedLtB l = true → l.Pairwise (· < ·)
  | [], _ => List.Pairwise.nil
  | [a], _ => List.pairwise_singleton _ a
  | a :: b :: t, h => by
    simp only [sortedLtB, Bool.and_eq_true, decide_eq_true_eq] at h
    have ih := sortedLtB_sound (b :: t) h.2
    rw [List.pairwise_cons] at ih ⊢
    refine ⟨fun x hx => ?_, List.pairwise_cons.mpr ⟨ih.1, ih.2⟩⟩
    rcases List.mem_cons.mp hx with rfl | hx
    · exact h.1
    · exact lt_trans h.1 (ih.1 x hx)

/-- the Bool the driver evaluates implies the hypothesis structure of the float theorems -/
theorem regularGridB_sound {bins : List ℚ} (h : regularGridB bins = true) : RegularF64Grid bins := by
  unfold regularGridB at h
  simp only [Bool.and_eq_true, decide_eq_true_eq, List.all_eq_true, beq_iff_eq, List.mem_range] at h
  obtain ⟨⟨⟨⟨⟨h1, h2⟩, h3⟩, h4⟩, h5⟩, h6⟩ := h
  exact ⟨h1, by exact_mod_cast h2, sortedLtB_sound bins h3, h4, h5, fun j hj => (h6 j hj).1, fun j hj => (h6 j hj).2⟩

theorem pointOKB_sound {bins : List ℚ} {p : ℚ} (h : pointOKB bins p = true) : PointOK bins p := by
  unfold pointOKB at h
  simp only [Bool.and_eq_true, decide_eq_true_eq, beq_iff_eq] at h
  exact ⟨h.1, h.2⟩

/-- what a `1` answer of the driver op `c02_hyp` certifies for that (grid, point): the model's answer is in `allowed` -/
theorem hyp_check_sound (rc : Bool) {bins : List ℚ} {p : ℚ} (hg : regularGridB bins = true) (hp : pointOKB bins p = true) :
    bin1dF (cfg64 rc) bins p ∈ allowed (cfg64 rc) bins p :=
  bin1dF_mem_allowed rc (regularGridB_sound hg) (pointOKB_sound hp)

/-! ## non-vacuity: the hypotheses hold on real grids, and the band case `result = ideal + 1` occurs -/

/-- the grid of past failure D2 (5.9, 33.2, 60.5, 87.8, 115.1) satisfies `RegularF64Grid` -/
theorem witnessBins_regular : RegularF64Grid witnessBins :=
  ⟨by decide, by decide, by decide +kernel, by decide +kernel, by decide +kernel, by decide +kernel, by decide +kernel⟩

/-- CSEP_MW_BINS (76 edges 2.5 … 10.0) satisfies `RegularF64Grid`: the theorems of this file hold for every float64
magnitude with `|m|·ε ≤ ~0.05` on the shipped magnitude grid -/
theorem mwBins_regular : RegularF64Grid mwBins :=
  ⟨by decide +kernel, by decide +kernel, by decide +kernel, by decide +kernel, by decide +kernel, by decide +kernel,
    by decide +kernel⟩

/-- the float64 just below the edge 33.2 -/
def pBelow332 : ℚ := 4672484613396889 / 140737488355328

theorem pBelow332_ok : PointOK witnessBins pBelow332 := ⟨by decide +kernel, by decide +kernel⟩

/-- the band case is inhabited: one ulp below 33.2 the float formula answers bin 1 = ideal + 1 … -/
example : binIdeal witnessBins pBelow332 = 0 ∧ bin1dF (cfg64 false) witnessBins pBelow332 = 1 := by decide +kernel

/-- … and `bin1dF_upper` bounds the distance to the edge by the band (instance of the second conjunct) -/
example := (bin1dF_upper false witnessBins_regular pBelow332_ok).2 (by decide +kernel)

example : bin1dF (cfg64 true) witnessBins pBelow332 ∈ allowed (cfg64 true) witnessBins pBelow332 :=
  bin1dF_mem_allowed true witnessBins_regular pBelow332_ok

/-- closed mode, band below `top`: instance of `bin1dF_upper_top`'s hypotheses being satisfiable is covered by
`bin1dF_cases`; here the plain interior instance of `bin1dF_safe` with δ = 10^-13: p = 50 lies in bin 1 -/
example : bin1dF (cfg64 false) witnessBins 50 = binReg (witnessBins.getD 0 0) (step64 witnessBins) 5 false 50 :=
  bin1dF_safe false witnessBins_regular (p := 50) ⟨by decide +kernel, by decide +kernel⟩ (by decide +kernel)
    (δ := 1 / 10 ^ 13) (by decide +kernel) (fun _ => by decide +kernel) (k := 1) (by decide +kernel)
    (by decide +kernel) (by decide +kernel)

example : binReg (witnessBins.getD 0 0) (step64 witnessBins) 5 false 50 = 1 := by decide +kernel

example : PointOK mwBins (mwBins.getD 34 0) := ⟨by decide +kernel, by decide +kernel⟩

/-- every edge of CSEP_MW_BINS lands in its own bin, both modes, by the general theorem (no per-edge evaluation of the
float formula: only the hypotheses are evaluated) -/
example (rc : Bool) (j : ℕ) (hj : j < 76) : bin1dF (cfg64 rc) mwBins (mwBins.getD j 0) = j :=
  bin1dF_edge_own_bin rc mwBins_regular (by simpa [mwBins, ofRaw, Tables.mwThr_length.2] using hj)
    ⟨mwBins_regular.floats _ (by
        have hl : j < mwBins.length := by simpa [mwBins, ofRaw, Tables.mwThr_length.2] using hj
        rw [getD_eq_getElem mwBins hl]; exact List.getElem_mem hl),
      (show ∀ j : ℕ, j < 76 → ((mwBins.length : ℚ) + 1) * atol64 mwBins + getTol .f64 (mwBins.getD j 0)
        ≤ step64 mwBins / 2 by decide +kernel) j hj⟩

end Bin1d
