import PycsepVerif.Proofs.RegionRepr
import PycsepVerif.Properties.C02_Repr
import PycsepVerif.Properties.C01
/-!
# C01 — the float construction of a region with `num_decimals` inside the model; `global_region`

`decimal_lattice_construction` (Properties/C01.lean) takes the decimals `repr` shows as a model input `(m, m, m)`. Here the model
computes them (`ReprDec.numDecimals`, from the value of `repr` that is proved to read back), `from_origins` without `dh` reads
the two `repr` values itself (`inferDhAuto`), and `global_region(dh)` (regions.py:269-289) — `itertools.product` of two
`cleaner_range` calls handed to `compute_vertices` — is modelled and proved for `dh = 0.1`: all 6 480 000 cells.
-/
namespace Region
open Soft64 Bin1d ReprDec DecimalText

/-- **C01 end to end, nothing supplied from outside**: for the lattice Python prints — anchors `x0`, `y0` and spacing `dh`
binary64 (zero or normal), `m = max(num_decimals(x0), num_decimals(y0), num_decimals(dh))`, `Sx/10^m`, `Sy/10^m`, `D/10^m` the
decimals `repr` shows, ranges `DecAxis` — `from_origins(origins, dh)` on the nearest doubles of the lattice points of the cells
`cs` (any order, holes, duplicates, all four sides touched) yields `xs`, `ys` = the nearest doubles of the decimal grid and
records polygon k at its lattice coordinates with its own flag. The region the code builds IS the region of the exact-layer
theorems; the hypothesis "`repr` shows m decimals" of `decimal_lattice_construction` is gone. -/
theorem repr_lattice_construction (x0 y0 dh : ℚ) (hxF : IsF64 x0) (hxN : x0 = 0 ∨ pow2 (-1022) ≤ |x0|)
    (hyF : IsF64 y0) (hyN : y0 = 0 ∨ pow2 (-1022) ≤ |y0|) (hdF : IsF64 dh) (hdN : dh = 0 ∨ pow2 (-1022) ≤ |dh|)
    (Sx Sy D : ℤ) (m nx ny : ℕ) (cs : List (ℕ × ℕ)) (flags : Option (List Bool))
    (hm : m = max (numDecimals x0) (max (numDecimals y0) (numDecimals dh)))
    (hSx : reprValue x0 = (Sx : ℚ) / ((10 ^ m : ℕ) : ℚ)) (hSy : reprValue y0 = (Sy : ℚ) / ((10 ^ m : ℕ) : ℚ))
    (hD : reprValue dh = (D : ℚ) / ((10 ^ m : ℕ) : ℚ))
    (Ax : DecAxis Sx D m nx) (Ay : DecAxis Sy D m ny)
    (hin : ∀ c ∈ cs, c.1 < nx ∧ c.2 < ny)
    (hx0 : 0 ∈ cs.map (·.1)) (hx1 : nx - 1 ∈ cs.map (·.1)) (hy0 : 0 ∈ cs.map (·.2)) (hy1 : ny - 1 ∈ cs.map (·.2)) :
    (fromOriginsAuto (latticeOrigins Sx Sy D m cs) dh flags).xs = decimalGrid Sx D m nx ∧
    (fromOriginsAuto (latticeOrigins Sx Sy D m cs) dh flags).ys = decimalGrid Sy D m ny ∧
    (fromOriginsAuto (latticeOrigins Sx Sy D m cs) dh flags).cells.length = cs.length ∧
    ∀ k (hk : k < cs.length),
      (fromOriginsAuto (latticeOrigins Sx Sy D m cs) dh flags).cells[k]?
        = some ⟨cs[k].1, cs[k].2, flagOf flags k⟩ :=
  fromOriginsAuto_decimal x0 y0 dh hxF hxN hyF hyN hdF hdN Sx Sy D m nx ny cs flags hm hSx hSy hD Ax Ay hin hx0 hx1 hy0 hy1

/-- the integers `Sx`, `Sy`, `D` of `repr_lattice_construction` always exist -/
theorem repr_lattice_integers (x0 y0 dh : ℚ) :
    ∃ Sx Sy D : ℤ,
      reprValue x0 = (Sx : ℚ) / ((10 ^ max (numDecimals x0) (max (numDecimals y0) (numDecimals dh)) : ℕ) : ℚ) ∧
      reprValue y0 = (Sy : ℚ) / ((10 ^ max (numDecimals x0) (max (numDecimals y0) (numDecimals dh)) : ℕ) : ℚ) ∧
      reprValue dh = (D : ℚ) / ((10 ^ max (numDecimals x0) (max (numDecimals y0) (numDecimals dh)) : ℕ) : ℚ) := by
  obtain ⟨a, ha⟩ := numDecimals_le_spec x0 (le_max_left (numDecimals x0) (max (numDecimals y0) (numDecimals dh)))
  obtain ⟨b, hb⟩ := numDecimals_le_spec y0
    (le_trans (le_max_left (numDecimals y0) (numDecimals dh)) (le_max_right (numDecimals x0) _))
  obtain ⟨c, hc⟩ := numDecimals_le_spec dh
    (le_trans (le_max_right (numDecimals y0) (numDecimals dh)) (le_max_right (numDecimals x0) _))
  exact ⟨a, b, c, ha, hb, hc⟩

/-- **`from_origins(origins)` without `dh`, with `repr` inside the model**: if the decimals `repr` shows for the first two origins
differ by `a`, `b ∈ {−1, 0, 1}` steps of `D/10^m` (not both zero), the constructor without `dh` IS the constructor with
`dh = ` the double nearest to `D/10^m` -/
theorem inferred_spacing_repr (D : ℤ) (m : ℕ) (hD : 0 < D) (os : List (ℚ × ℚ)) (flags : Option (List Bool)) (a b : ℤ)
    (ha : a = 0 ∨ a = 1 ∨ a = -1) (hb : b = 0 ∨ b = 1 ∨ b = -1) (hab : a ≠ 0 ∨ b ≠ 0)
    (hx : reprValue (os.getD 1 (0, 0)).1 - reprValue (os.getD 0 (0, 0)).1 = (a : ℚ) * ((D : ℚ) / ((10 ^ m : ℕ) : ℚ)))
    (hy : reprValue (os.getD 1 (0, 0)).2 - reprValue (os.getD 0 (0, 0)).2 = (b : ℚ) * ((D : ℚ) / ((10 ^ m : ℕ) : ℚ))) :
    inferDhAuto os = dhPt D m ∧ fromOriginsNoDh os flags = fromOriginsAuto os (dhPt D m) flags := by
  have h : inferDhAuto os = dhPt D m := by
    unfold inferDhAuto
    exact inferDh_decimal D m hD _ _ a b ha hb hab hx hy
  exact ⟨h, by unfold fromOriginsNoDh; rw [h]⟩

/-! ## `global_region(0.1)` -/

/-- lattice coordinates in the order of `itertools.product(lons, lats)` -/
def productN (nx ny : ℕ) : List (ℕ × ℕ) := (List.range nx).flatMap (fun i => (List.range ny).map (fun j => (i, j)))

theorem decimalGrid_dropLast (S D : ℤ) (m n : ℕ) : (decimalGrid S D m (n + 1)).dropLast = decimalGrid S D m n := by
  unfold decimalGrid
  rw [List.range_succ, List.map_append, List.map_singleton, List.dropLast_concat]

theorem product_decimalGrid (Sx Sy D : ℤ) (m nx ny : ℕ) :
    product (decimalGrid Sx D m nx) (decimalGrid Sy D m ny) = latticeOrigins Sx Sy D m (productN nx ny) := by
  unfold product latticeOrigins productN decimalGrid latticePt
  simp [List.flatMap_map, List.map_flatMap, List.map_map, Function.comp_def]

theorem mem_productN {nx ny : ℕ} {c : ℕ × ℕ} : c ∈ productN nx ny ↔ c.1 < nx ∧ c.2 < ny := by
  unfold productN
  simp only [List.mem_flatMap, List.mem_range, List.mem_map]
  constructor
  · rintro ⟨i, hi, j, hj, rfl⟩; exact ⟨hi, hj⟩
  · rintro ⟨h1, h2⟩; exact ⟨c.1, h1, c.2, h2, rfl⟩

private theorem dh01_repr : numDecimals dh01 = 1 ∧ reprValue dh01 = ((1 : ℤ) : ℚ) / ((10 ^ 1 : ℕ) : ℚ) ∧ fl64 dh01 = dh01 ∧
    pow2 (-1022) ≤ dh01 ∧ (0 : ℚ) < dh01 := by decide +kernel
private theorem m180_repr : numDecimals (-180) = 1 ∧ reprValue (-180) = ((-1800 : ℤ) : ℚ) / ((10 ^ 1 : ℕ) : ℚ) ∧ fl64 (-180) = -180 ∧
    pow2 (-1022) ≤ (180 : ℚ) := by decide +kernel
private theorem m90_repr : numDecimals (-90) = 1 ∧ reprValue (-90) = ((-900 : ℤ) : ℚ) / ((10 ^ 1 : ℕ) : ℚ) ∧ fl64 (-90) = -90 ∧
    pow2 (-1022) ≤ (90 : ℚ) := by decide +kernel

/-- the longitudes / latitudes `global_region(0.1)` takes the product of: `cleaner_range(-180.0, 180.0, 0.1)[:-1]` and
`cleaner_range(-90, 90.0, 0.1)[:-1]` are the nearest doubles of −180.0, −179.9, …, 179.9 and −90.0, …, 89.9 -/
theorem global_coordinates :
    (cleanerRangeAuto (-180) 180 dh01).dropLast = decimalGrid (-1800) 1 1 3600 ∧
    (cleanerRangeAuto (-90) 90 dh01).dropLast = decimalGrid (-900) 1 1 1800 := by
  obtain ⟨d1, d2, d3, d4, d5⟩ := dh01_repr
  obtain ⟨a1, a2, a3, a4⟩ := m180_repr
  obtain ⟨b1, b2, b3, b4⟩ := m90_repr
  have hdN : dh01 = 0 ∨ pow2 (-1022) ≤ |dh01| := Or.inr (by rw [abs_of_pos d5]; exact d4)
  constructor
  · have hmax : max (numDecimals (-180)) (numDecimals dh01) = 1 := by rw [a1, d1]; rfl
    have h := cleanerRange_repr_exact (-180) dh01 a3 (Or.inr (by rw [abs_neg, abs_of_pos (by norm_num)]; exact a4)) d3 hdN
      (-1800) 1 3600 (by rw [hmax]; norm_num) (by rw [hmax]; exact a2) (by rw [hmax]; exact d2) (by norm_num)
      (by norm_num)
    rw [hmax] at h
    have hend : fl64 ((((-1800 : ℤ) + ((3600 : ℕ) : ℤ) * 1 : ℤ) : ℚ) / ((10 ^ 1 : ℕ) : ℚ)) = 180 := by decide +kernel
    rw [hend] at h
    rw [h, decimalGrid_dropLast]
  · have hmax : max (numDecimals (-90)) (numDecimals dh01) = 1 := by rw [b1, d1]; rfl
    have h := cleanerRange_repr_exact (-90) dh01 b3 (Or.inr (by rw [abs_neg, abs_of_pos (by norm_num)]; exact b4)) d3 hdN
      (-900) 1 1800 (by rw [hmax]; norm_num) (by rw [hmax]; exact b2) (by rw [hmax]; exact d2) (by norm_num)
      (by norm_num)
    rw [hmax] at h
    have hend : fl64 ((((-900 : ℤ) + ((1800 : ℕ) : ℤ) * 1 : ℤ) : ℚ) / ((10 ^ 1 : ℕ) : ℚ)) = 90 := by decide +kernel
    rw [hend] at h
    rw [h, decimalGrid_dropLast]

/-- **`global_region()` (dh = 0.1), all 3600 × 1800 = 6 480 000 cells, by theorem**: the float construction
(`cleaner_range` twice, `itertools.product`, `compute_vertices`, `Polygon.centroid`, `cleaner_range` of the bounding box,
`bin1d_vec` of every midpoint, the mask loop) yields `xs`, `ys` = the nearest doubles of −180.0 … 179.9 / −90.0 … 89.9 (the arrays
C02's `global_lon_edges` / `global_lat_edges` are about), one cell per coordinate pair, and the k-th pair of the product is
recorded at its own lattice coordinate, unmasked. -/
theorem global_region_construction :
    (globalRegionF dh01).xs = decimalGrid (-1800) 1 1 3600 ∧
    (globalRegionF dh01).ys = decimalGrid (-900) 1 1 1800 ∧
    (globalRegionF dh01).cells.length = (productN 3600 1800).length ∧
    ∀ k (hk : k < (productN 3600 1800).length),
      (globalRegionF dh01).cells[k]? = some ⟨(productN 3600 1800)[k].1, (productN 3600 1800)[k].2, true⟩ := by
  obtain ⟨d1, d2, d3, d4, d5⟩ := dh01_repr
  obtain ⟨a1, a2, a3, a4⟩ := m180_repr
  obtain ⟨b1, b2, b3, b4⟩ := m90_repr
  have horg : globalOrigins dh01 = latticeOrigins (-1800) (-900) 1 1 (productN 3600 1800) := by
    unfold globalOrigins
    rw [global_coordinates.1, global_coordinates.2, product_decimalGrid]
  unfold globalRegionF
  rw [horg]
  have hm : (1 : ℕ) = max (numDecimals (-180)) (max (numDecimals (-90)) (numDecimals dh01)) := by rw [a1, b1, d1]; rfl
  have Ax : DecAxis (-1800) 1 1 3600 :=
    ⟨by norm_num, by norm_num, by norm_num, by norm_num, by norm_num, by norm_num, by norm_num, by norm_num⟩
  have Ay : DecAxis (-900) 1 1 1800 :=
    ⟨by norm_num, by norm_num, by norm_num, by norm_num, by norm_num, by norm_num, by norm_num, by norm_num⟩
  have h := repr_lattice_construction (-180) (-90) dh01 a3 (Or.inr (by rw [abs_neg, abs_of_pos (by norm_num)]; exact a4))
    b3 (Or.inr (by rw [abs_neg, abs_of_pos (by norm_num)]; exact b4)) d3 (Or.inr (by rw [abs_of_pos d5]; exact d4))
    (-1800) (-900) 1 1 3600 1800 (productN 3600 1800) none hm a2 b2 d2 Ax Ay
    (fun c hc => mem_productN.mp hc)
    (List.mem_map.mpr ⟨(0, 0), mem_productN.mpr ⟨by norm_num, by norm_num⟩, rfl⟩)
    (List.mem_map.mpr ⟨(3599, 0), mem_productN.mpr ⟨by norm_num, by norm_num⟩, rfl⟩)
    (List.mem_map.mpr ⟨(0, 0), mem_productN.mpr ⟨by norm_num, by norm_num⟩, rfl⟩)
    (List.mem_map.mpr ⟨(0, 1799), mem_productN.mpr ⟨by norm_num, by norm_num⟩, rfl⟩)
  exact h

/-! ## regions whose spacing is not a short decimal, after fix D49 of `cleaner_range`'s fallback branch -/

/-- the witness of D49: a 4 × 3 lattice anchored at (0.3, 0.3) with spacing 1/35, origins computed as `0.3 + i*dh` in binary64 -/
def h35 : ℚ := fl64 (1 / 35)
def o35 : List (ℚ × ℚ) :=
  (List.range 4).flatMap fun i => (List.range 3).map fun j =>
    (fadd (fl64 (3 / 10)) (fmul ((i : ℕ) : ℚ) h35), fadd (fl64 (3 / 10)) (fmul ((j : ℕ) : ℚ) h35))

/-- FINDING D49 (code before the fix, `fromOriginsOld`): the region's first edges are 0.2857142857142857 instead of 0.3 (the start was
rounded to a multiple of the step): every cell midpoint is hashed ONE column and one row too high — polygon 0 to (1, 1) instead of (0, 0) —\nand the cells of the last column / row fall off the grid (−1: they stay masked, the region reports its own cells outside) -/
theorem finding_cleaner_fallback_displaced_region :
    (fromOriginsOld o35 h35 none (decsOf o35 h35)).xs.head? = some (fl64 (2857142857142857 / 10000000000000000)) ∧
    (fromOriginsOld o35 h35 none (decsOf o35 h35)).ys.head? = some (fl64 (2857142857142857 / 10000000000000000)) ∧
    (fromOriginsOld o35 h35 none (decsOf o35 h35)).hash =
      [(1, 1), (1, 2), (1, -1), (2, 1), (2, 2), (2, -1), (3, 1), (3, 2), (3, -1), (-1, 1), (-1, 2), (-1, -1)] := by
  decide +kernel

/-- … the repaired code: the edge arrays ARE the origin coordinates `0.3 + k/35` (same two float operations), 4 × 3, and every
polygon is recorded at its own lattice position, unmasked -/
theorem repaired_noisy_region :
    (fromOriginsAuto o35 h35 none).xs = (List.range 4).map (fun i => fadd (fl64 (3 / 10)) (fmul ((i : ℕ) : ℚ) h35)) ∧
    (fromOriginsAuto o35 h35 none).ys = (List.range 3).map (fun j => fadd (fl64 (3 / 10)) (fmul ((j : ℕ) : ℚ) h35)) ∧
    (fromOriginsAuto o35 h35 none).cells =
      (List.range 4).flatMap fun i => (List.range 3).map fun j => (⟨i, j, true⟩ : Cell) := by decide +kernel

/-- in general: when the main path of `cleaner_range` does not apply to an axis, the region's edge array on that axis starts at the
smallest origin coordinate ITSELF (after D49 the grid is never moved off its anchor) -/
theorem noisy_axis_starts_at_anchor (os : List (ℚ × ℚ)) (dh : ℚ) (flags : Option (List Bool))
    (hF : fl64 (minL (os.map (·.1))) = minL (os.map (·.1)))
    (hg : Bin1d.cleanerRangeF (minL (os.map (·.1))) (maxL (os.map (·.1))) dh
      (max (numDecimals (minL (os.map (·.1)))) (numDecimals dh)) = none)
    (hne : 0 < (fromOriginsAuto os dh flags).xs.length) :
    (fromOriginsAuto os dh flags).xs[0]? = some (minL (os.map (·.1))) := by
  have hx : (fromOriginsAuto os dh flags).xs
      = fallbackRange (minL (os.map (·.1))) (maxL (os.map (·.1))) dh := by
    unfold fromOriginsAuto
    rw [fromOrigins_xs]
    unfold decsOf cleanerRangeAll
    simp only
    rw [hg]
  rw [hx] at hne ⊢
  exact Bin1d.fallback_first_edge _ _ _ hF hne

/-! ### non-vacuity -/

-- the 3 × 2 lattice of Properties/C01.lean (anchor (0.3, −0.2), dh = 0.1, a hole): the model computes the decimals (1, 1, 1) itself …
example : decsOf exOrigins dh01 = (1, 1, 1) := by decide +kernel
-- … and builds the same region as with the decimals handed in
example : (fromOriginsAuto exOrigins dh01 none).cells = [⟨0, 0, true⟩, ⟨2, 0, true⟩, ⟨1, 1, true⟩, ⟨0, 1, true⟩] := by
  decide +kernel
-- hypotheses of `repr_lattice_construction` for it: x0 = 0.3, y0 = −0.2, dh = 0.1; m = 1, Sx = 3, Sy = −2, D = 1
example : (1 : ℕ) = max (numDecimals (fl64 (3 / 10))) (max (numDecimals (fl64 (-2 / 10))) (numDecimals dh01)) ∧
    reprValue (fl64 (3 / 10)) = ((3 : ℤ) : ℚ) / ((10 ^ 1 : ℕ) : ℚ) ∧ reprValue (fl64 (-2 / 10)) = ((-2 : ℤ) : ℚ) / ((10 ^ 1 : ℕ) : ℚ) ∧
    reprValue dh01 = ((1 : ℤ) : ℚ) / ((10 ^ 1 : ℕ) : ℚ) := by decide +kernel
-- `from_origins` without dh on the D30 witness: the model reads the reprs −9.6, 10.0 / −9.5, 10.0 itself and infers the float 0.1
example : inferDhAuto obsOrigins = dh01 := by decide +kernel
example : (fromOriginsNoDh obsOrigins none).xs = Bin1d.decimalGrid (-96) 1 1 3 := by decide +kernel
-- the product order: pair number 1800 is (column 1, row 0)
example : (productN 3 2) = [(0, 0), (0, 1), (1, 0), (1, 1), (2, 0), (2, 1)] := by decide

end Region
