import PycsepVerif.Proofs.ForecastArray
import PycsepVerif.Properties.C11
/-
  C11, round 4 — `scale(val)` with an ndarray `val` (forecasts.py:143-152 documents "int, float, or ndarray"; `data` is the
  numpy broadcast `_data * _scale`, :66-74).  The statements of `Properties/C11` about scaling ("absolute and linear, data =
  original × last factor, never cumulative; the marginals always sum to the total") for every factor numpy can broadcast to
  the (cells, magnitudes) shape, and the scalar model as the special case `.scalar v`.
  All theorems are for every forecast, every factor, every history (no size bound).
-/
namespace ForecastFile


/-- **shape.**  Whatever numpy can broadcast to (N, M) has N·M entries -/
theorem expand_length (N M : Nat) (w : Factor) (e : List Rat) (h : w.expand N M = some e) : e.length = N * M := by
  cases w with
  | scalar v => simp [Factor.expand] at h; subst h; simp
  | vec w =>
    simp only [Factor.expand, Option.map_eq_some_iff] at h
    obtain ⟨r, hr, rfl⟩ := h
    rw [flatten_length_const M _ (by intro q hq; rw [List.eq_of_mem_replicate hq]; exact stretchRow_length M w r hr)]
    simp
  | mat rows =>
    simp only [Factor.expand] at h
    cases hs : stretchAll M rows with
    | none => simp [hs] at h
    | some rs =>
      obtain ⟨_, hall⟩ := stretchAll_spec M rows rs hs
      simp only [hs] at h
      by_cases hl : rs.length = N
      · simp only [hl, if_true, Option.some.injEq] at h
        subst h
        rw [flatten_length_const M rs hall, hl]
      · simp only [hl, if_false] at h
        match rs, hall, h with
        | [r0], hall, h =>
          simp only [Option.some.injEq] at h
          subst h
          rw [flatten_length_const M _ (by intro q hq; rw [List.eq_of_mem_replicate hq]; exact hall r0 List.mem_cons_self)]
          simp
        | [], _, h => cases h
        | _ :: _ :: _, _, h => cases h

/-- the shape of `data` under a broadcastable factor is the shape of the stored array -/
theorem dataA_length (F : Forecast) (w : Factor) (d : List Rat) (hs : F.base.length = F.cells.length * F.mags.length)
    (h : dataA F w = some d) : d.length = F.cells.length * F.mags.length := by
  simp only [dataA, Option.map_eq_some_iff] at h
  obtain ⟨e, he, rfl⟩ := h
  rw [mulLists_length _ _ (by rw [hs, expand_length _ _ _ _ he]), hs]

/-! ### the scalar model is the special case `.scalar v` -/

/-- under a scalar factor the array model's `data` is the scalar model's `data` -/
theorem dataA_scalar (F : Forecast) (v : Rat) (hs : F.base.length = F.cells.length * F.mags.length) :
    dataA F (.scalar v) = some (data (scaleBy F v)) := by
  simp only [dataA, Factor.expand, Option.map_some, data, scaleBy, ← hs, mulLists_replicate]

theorem getRatesA_scalar (F : Forecast) (v : Rat) (hs : F.base.length = F.cells.length * F.mags.length) (lon lat m : Rat) :
    getRatesA F (.scalar v) lon lat m = getRates (scaleBy F v) lon lat m := by
  unfold getRatesA getRates dataAt
  rw [dataA_scalar F v hs]
  have e1 : (scaleBy F v).cells = F.cells := rfl
  have e2 : (scaleBy F v).mags = F.mags := rfl
  have e3 : (scaleBy F v).base = F.base := rfl
  have e4 : (scaleBy F v).scale = v := rfl
  have e5 : data (scaleBy F v) = F.base.map (· * v) := rfl
  rw [e1, e2, e3, e4, e5]
  cases hi : getIndexOf F.cells lon lat <;> cases hk : getMagnitudeIndex F.mags m <;> simp only []
  split <;> simp

/-- a history of scalar calls, run in the array model, ends at the scalar the scalar model ends at -/
theorem scalar_history_embeds (s : Rat) (ops : List ScaleOp) :
    runFactor (.scalar s) (ops.map ScaleOp.toA) = .scalar (lastFactor s ops) := by
  induction ops generalizing s with
  | nil => rfl
  | cons o ops ih =>
    simp only [List.map_cons, runFactor, List.foldl_cons, lastFactor] at ih ⊢
    cases o with
    | scale v => exact ih v
    | toTestDate q => cases q <;> exact ih _

/-! ### scaling is absolute for every kind of factor -/

/-- **scaling is absolute (ndarray factors).**  After ANY history of `scale(val)` (scalar or array) and
    `scale_to_test_date` calls, a final `scale(w)` leaves `data = _data * w`: no earlier factor, of any shape, survives. -/
theorem scale_absolute_array (F : Forecast) (cur : Factor) (pre : List AOp) (w : Factor) :
    dataA F (runFactor cur (pre ++ [.scale w])) = dataA F w := by
  rw [runFactor_eq_lastSet, lastSet_append]; rfl

/-- … and a call that sets nothing (test date outside the period) leaves the factor of the history before it -/
theorem outside_test_date_keeps_array (cur : Factor) (pre : List AOp) :
    runFactor cur (pre ++ [.toTestDate none]) = runFactor cur pre := by
  rw [runFactor_eq_lastSet, lastSet_append, runFactor_eq_lastSet]; rfl

/-- `scale_to_test_date` inside the period replaces an array factor by the scalar fraction -/
theorem inside_test_date_replaces_array (F : Forecast) (cur : Factor) (pre : List AOp) (q : Rat) :
    dataA F (runFactor cur (pre ++ [.toTestDate (some q)])) = dataA F (.scalar q) := by
  rw [runFactor_eq_lastSet, lastSet_append]; rfl

/-! ### entries -/

/-- **linear, entry by entry.**  `data[i, k] = _data[i, k] × (the factor broadcast to the array's shape)[i, k]` -/
theorem dataA_entry (F : Forecast) (w : Factor) (e d : List Rat) (he : w.expand F.cells.length F.mags.length = some e)
    (hd : dataA F w = some d) (p : Nat) (x y : Rat) (hx : F.base[p]? = some x) (hy : e[p]? = some y) :
    d[p]? = some (x * y) := by
  simp only [dataA, he, Option.map_some, Option.some.injEq] at hd
  subst hd
  exact mulLists_getElem? _ _ p x y hx hy

/-- one weight per magnitude bin (`val.shape == (M,)`): entry (i, k) of the broadcast factor is `w[k]` -/
theorem expand_vec_entry (N M : Nat) (w : List Rat) (hw : w.length = M) (i k : Nat) (hi : i < N) (hk : k < M) :
    ∃ e, (Factor.vec w).expand N M = some e ∧ e[i * M + k]? = w[k]? := by
  refine ⟨(List.replicate N w).flatten, by simp [Factor.expand, stretchRow, hw], ?_⟩
  exact flatten_getElem?_const M _ (by intro q hq; rw [List.eq_of_mem_replicate hq]; exact hw) i k w
    (by simp [hi]) hk

/-- one weight per bin (`val.shape == (N, M)`): entry (i, k) of the factor itself -/
theorem expand_mat_entry (N M : Nat) (rows : List (List Rat)) (hN : rows.length = N) (hM : ∀ r ∈ rows, r.length = M)
    (i k : Nat) (r : List Rat) (hi : rows[i]? = some r) (hk : k < M) :
    ∃ e, (Factor.mat rows).expand N M = some e ∧ e[i * M + k]? = r[k]? := by
  have hs : stretchAll M rows = some rows := by
    clear hi hN
    induction rows with
    | nil => rfl
    | cons q rows ih =>
      have := ih (fun r' hr' => hM r' (List.mem_cons_of_mem _ hr'))
      simp [stretchAll, stretchRow, hM q List.mem_cons_self, this]
  refine ⟨rows.flatten, by simp [Factor.expand, hs, hN], ?_⟩
  exact flatten_getElem?_const M rows hM i k r hi hk

/-- `get_rates` under any broadcastable factor: the stored rate of the point's (cell, magnitude bin) times the factor's
    entry there -/
theorem getRatesA_entry (F : Forecast) (w : Factor) (e : List Rat) (lon lat m : Rat) (i k : Nat) (x y : Rat)
    (he : w.expand F.cells.length F.mags.length = some e)
    (hi : getIndexOf F.cells lon lat = some i) (hk : getMagnitudeIndex F.mags m = some k) (hkM : k < F.mags.length)
    (hx : F.base[i * F.mags.length + k]? = some x) (hy : e[i * F.mags.length + k]? = some y) :
    getRatesA F w lon lat m = some (x * y) := by
  unfold getRatesA
  simp only [hi, hk, dataA, he, Option.map_some, hkM, if_true]
  exact mulLists_getElem? _ _ _ x y hx hy

/-! ### marginals -/

/-- **the marginals sum to the total under every factor numpy can broadcast** (per magnitude bin, per cell, per bin, 0-d …) -/
theorem marginals_sum_array (F : Forecast) (w : Factor) (hs : F.base.length = F.cells.length * F.mags.length)
    (d : List Rat) (hd : dataA F w = some d) :
    ∃ sc mc t, spatialCountsA F w = some sc ∧ magnitudeCountsA F w = some mc ∧ totalA F w = some t ∧
      sc.sum = t ∧ mc.sum = t ∧ sc.length = F.cells.length ∧ mc.length = F.mags.length := by
  have hl := dataA_length F w d hs hd
  obtain ⟨h1, h2⟩ := marginalsOf_sum F.mags.length F.cells.length d hl
  refine ⟨_, _, _, by simp [spatialCountsA, hd], by simp [magnitudeCountsA, hd], by simp [totalA, hd], h1, h2, ?_, ?_⟩
  · simp [spatialOf, chunks_count]
  · exact (foldr_addRows F.mags.length _ (chunks_length _ _ _ hl)).1

/-- the views of the scalar model are the array model's views at `.scalar v` -/
theorem views_scalar (F : Forecast) (v : Rat) (hs : F.base.length = F.cells.length * F.mags.length) :
    totalA F (.scalar v) = some (total (scaleBy F v)) ∧ spatialCountsA F (.scalar v) = some (spatialCounts (scaleBy F v)) ∧
    magnitudeCountsA F (.scalar v) = some (magnitudeCounts (scaleBy F v)) := by
  simp only [totalA, spatialCountsA, magnitudeCountsA, dataA_scalar F v hs, Option.map_some]
  exact ⟨rfl, rfl, rfl⟩

/-! ### weights per magnitude bin act on the magnitude marginal bin by bin -/

/-- **per-magnitude weights.**  With `val.shape == (M,)` the magnitude marginal is the unscaled magnitude marginal times the
    weights, bin by bin: `magnitude_counts()[k] = w[k] × (unscaled magnitude_counts())[k]` -/
theorem magnitudeOf_vec (N : Nat) (w l : List Rat) (hl : l.length = N * w.length) :
    magnitudeOf w.length N (mulLists l (List.replicate N w).flatten) = mulLists (magnitudeOf w.length N l) w := by
  induction N generalizing l with
  | zero => simp [magnitudeOf, chunks, mulLists_zero]
  | succ N ih =>
    have hd : (l.drop w.length).length = N * w.length := by rw [List.length_drop, hl, Nat.succ_mul]; omega
    have ht : (l.take w.length).length = w.length := by rw [List.length_take, hl, Nat.succ_mul]; omega
    have hsplit : mulLists l (List.replicate (N + 1) w).flatten =
        mulLists (l.take w.length) w ++ mulLists (l.drop w.length) (List.replicate N w).flatten := by
      conv_lhs => rw [← List.take_append_drop w.length l]
      rw [List.replicate_succ, List.flatten_cons, mulLists_append _ _ _ _ ht]
    have hml : (mulLists (l.take w.length) w).length = w.length := by rw [mulLists_length _ _ ht, ht]
    have ih' := ih (l.drop w.length) hd
    unfold magnitudeOf at ih' ⊢
    simp only [chunks, List.foldr_cons]
    rw [hsplit, List.take_left' hml, List.drop_left' hml, ih']
    have hfl := (foldr_addRows w.length (chunks w.length N (l.drop w.length)) (chunks_length _ _ _ hd)).1
    exact addRows_mulLists _ _ w ht hfl

/-- the broadcast of one weight per cell (`val.shape == (N, 1)`) -/
theorem expand_col (M : Nat) (ws : List Rat) :
    (Factor.mat (ws.map (fun x => [x]))).expand ws.length M = some (ws.map (fun x => List.replicate M x)).flatten := by
  simp [Factor.expand, stretchAll_cols]

/-- **per-cell weights.**  With `val.shape == (N, 1)` the spatial marginal is the unscaled spatial marginal times the weights,
    cell by cell: `spatial_counts()[i] = w[i] × (unscaled spatial_counts())[i]` -/
theorem spatialOf_col (M : Nat) (ws l : List Rat) (hl : l.length = ws.length * M) :
    spatialOf M ws.length (mulLists l (ws.map (fun x => List.replicate M x)).flatten) = mulLists (spatialOf M ws.length l) ws := by
  induction ws generalizing l with
  | nil => simp [spatialOf, chunks, mulLists]
  | cons x ws ih =>
    have hd : (l.drop M).length = ws.length * M := by
      rw [List.length_drop, hl, List.length_cons, Nat.succ_mul]; omega
    have ht : (l.take M).length = M := by
      rw [List.length_take, hl, List.length_cons, Nat.succ_mul]; omega
    have hsplit : mulLists l ((x :: ws).map (fun x => List.replicate M x)).flatten =
        mulLists (l.take M) (List.replicate M x) ++ mulLists (l.drop M) (ws.map (fun x => List.replicate M x)).flatten := by
      conv_lhs => rw [← List.take_append_drop M l]
      rw [List.map_cons, List.flatten_cons, mulLists_append _ _ _ _ (by simp [ht])]
    have hml : (mulLists (l.take M) (List.replicate M x)).length = M := by
      rw [mulLists_length _ _ (by simp [ht]), ht]
    have ih' := ih (l.drop M) hd
    unfold spatialOf at ih' ⊢
    simp only [List.length_cons, chunks]
    rw [hsplit, List.take_left' hml, List.drop_left' hml, List.map_cons, ih']
    have hs : (mulLists (l.take M) (List.replicate M x)).sum = (l.take M).sum * x := by
      have := sum_mulLists_replicate (l.take M) x
      rwa [ht] at this
    simp [mulLists, hs]

/-! ### non-vacuity: a 2-cell × 2-bin forecast under a per-magnitude, a per-cell and a per-bin factor -/

private def exF : Forecast :=
  { cells := [⟨0, 1, 0, 1, 1⟩, ⟨1, 2, 0, 1, 1⟩], dh := 1, mags := [5, 6], base := [1, 2, 3, 4], scale := 1 }

example : dataA exF (.vec [10, 100]) = some [10, 200, 30, 400] := by decide +kernel
example : dataA exF (.mat [[10], [100]]) = some [10, 20, 300, 400] := by decide +kernel
example : dataA exF (.mat [[1, 2], [3, 4]]) = some [1, 4, 9, 16] := by decide +kernel
example : dataA exF (.mat [[2, 3]]) = some [2, 6, 6, 12] := by decide +kernel
example : dataA exF (.vec [7]) = some [7, 14, 21, 28] := by decide +kernel
-- shapes numpy refuses, or that would change the array's shape
example : dataA exF (.vec [1, 2, 3]) = none := by decide +kernel
example : dataA exF (.mat [[1, 2], [3, 4], [5, 6]]) = none := by decide +kernel
example : magnitudeCountsA exF (.vec [10, 100]) = some [40, 600] ∧ spatialCountsA exF (.vec [10, 100]) = some [210, 430] ∧
    totalA exF (.vec [10, 100]) = some 640 := by decide +kernel
example : getRatesA exF (.vec [10, 100]) (3/2) (1/2) 6 = some 400 := by decide +kernel
-- a history: array, scalar, array again, a test date outside: the last array alone counts
example : dataA exF (runFactor (.scalar 1) [.scale (.vec [10, 100]), .scale (.scalar 3), .scale (.mat [[10], [100]]),
    .toTestDate none]) = some [10, 20, 300, 400] := by decide +kernel
example : exF.base.length = exF.cells.length * exF.mags.length := by decide +kernel
example : spatialCountsA exF (.mat [[10], [100]]) = some [30, 700] := by decide +kernel


end ForecastFile
