import PycsepVerif.Model.GriddingFloat
import PycsepVerif.Proofs.GriddingSeq
import PycsepVerif.Properties.C03
import PycsepVerif.Properties.C02
import PycsepVerif.Properties.C02_Float

/-!
# C03 (extension) — the gridding pipelines with the lookups as the code computes them in binary64

`Properties/C03.lean` / `C03_Seq.lean` prove the property for the EXACT meaning of the two lookups; the code computes them with the
float formula of `bin1d_vec`, which agrees with the exact meaning except in the documented round-off band just below an edge. Until
this round the generators kept magnitudes out of that band and the model was never asked about it. `Model/GriddingFloat.lean` puts
the float-faithful lookup of C02 (`Bin1d.bin1dF`) into the pipelines; here the property clauses are proved for THAT pipeline — every
float64 magnitude and coordinate, the band included, any `tol=`:

* `magBinF_lt`, `cellOfF_lt` — the float lookups return −1 or an index inside the arrays (any edges, any `tol`, any point).
* `pipeline_cartF_inRange`, `pipeline_quadF_inRange`, `smc_pipeline_cartF`, `smc_pipeline_quadF` — whenever the space-magnitude call
  returns: total = number of events, sums over magnitude = `spatial_counts`, sums over space = `magnitude_counts`. No event is lost or
  counted twice, whichever side of an edge the float formula puts it.
* `smc_entry_float` — entry (i, k) = number of events whose float lookups give cell i and bin k.
* `magBinF_exact_or_band` — on a regular float64 grid the float bin IS the exact bin (`magBin`: edge_k ≤ m < edge_(k+1)), or the next
  one, and the latter only when m lies within the documented band below that next edge (C02's `bandWidth`): "in its own bin" holds up to
  exactly the documented band, never more.
* `float_pipeline_eq_exact` — when every event's float lookups equal the exact ones (always, off the band) the float pipeline IS the
  exact pipeline of `Properties/C03.lean`: all arrays coincide.
* `magBinF_below_min_rejected` — a magnitude whose float index is −1 makes space-magnitude gridding raise and is left uncounted by the
  magnitude histogram.
-/
namespace Gridding
open Bin1d

theorem idxOpt_eq_some {i : Int} {k : Nat} (h : idxOpt i = some k) : i = (k : Int) := by
  unfold idxOpt at h
  split at h
  · cases h
  · simp only [Option.some.injEq] at h; omega

/-- the float magnitude lookup returns −1 or an index inside the array: any edges (also none), any tolerance, any magnitude -/
theorem magBinF_lt (tol : Option Rat) (edges : List Rat) (m : Rat) (k : Nat) (h : magBinF tol edges m = some k) :
    k < edges.length := by
  unfold magBinF at h
  have hk := idxOpt_eq_some h
  by_cases hb : edges = []
  · subst hb
    exfalso
    have : bin1dF (magCfg .f64 .f64 tol) [] m = -1 := by
      unfold bin1dF bin1dCore clampIdx magCfg
      simp only [List.length_nil, Bool.true_or, if_true]
      split
      · rfl
      · rename_i h0
        split
        · rfl
        · rename_i h1
          exfalso; apply h1
          push_cast
          have : (0 : ℚ) ≤ _ := not_lt.mp h0
          linarith
    omega
  · have := (bin1dF_range (magCfg .f64 .f64 tol) edges hb m).2
    omega

/-- the float cell lookup returns an index of a listed polygon -/
theorem cellOfF_lt (R : Region.Region) (hB : R.Built) (p : Rat × Rat) (k : Nat) (h : cellOfF R p = some k) :
    k < R.cells.length := by
  unfold cellOfF at h
  cases hc : colF R p.1 with
  | none => simp [hc, Region.Region.cellAt] at h
  | some i =>
    cases hr : rowF R p.2 with
    | none => simp [hc, hr, Region.Region.cellAt] at h
    | some j =>
      rw [hc, hr] at h
      obtain ⟨_, hl⟩ := (Region.cellAt_eq_some_iff R hB i j k).mp h
      obtain ⟨⟨c, hget, _⟩, _⟩ := (Region.lastAt_eq_some_iff R.cells i j k).mp hl
      exact (List.getElem?_eq_some_iff.mp hget).1

theorem pipeline_cartF_inRange (R : Region.Region) (hB : R.Built) (tol : Option Rat) (edges : List Rat)
    (evs : List (Rat × Rat × Rat)) (M : List (List Nat))
    (h : smcCart R.cells.length edges.length (evsCartF R tol edges evs) = .ok M) :
    InRange R.cells.length edges.length (evsCartF R tol edges evs) := by
  obtain ⟨hc, hb, _⟩ := (smc_ok_iff _ _ _ M).mp h
  intro e he
  have hc' := hc e he
  have hb' := hb e he
  obtain ⟨x, _, rfl⟩ := List.mem_map.mp he
  constructor
  · cases hcell : cellOfF R (x.1, x.2.1) with
    | none => simp [hcell] at hc'
    | some i => exact ⟨i, rfl, cellOfF_lt R hB _ i hcell⟩
  · cases hbin : magBinF tol edges x.2.2 with
    | none => simp [hbin] at hb'
    | some k => exact ⟨k, rfl, magBinF_lt tol edges _ k hbin⟩

theorem pipeline_quadF_inRange (bounds : List (Rat × Rat × Rat × Rat)) (tol : Option Rat) (edges : List Rat)
    (evs : List (Rat × Rat × Rat)) (M : List (List Nat))
    (h : smcQuad bounds.length edges.length (evsQuadF bounds tol edges evs) = .ok M) :
    InRange bounds.length edges.length (evsQuadF bounds tol edges evs) := by
  rw [quadtree_pairing] at h
  obtain ⟨hc, hb, _⟩ := (smc_ok_iff _ _ _ M).mp h
  intro e he
  have hc' := hc e he
  have hb' := hb e he
  obtain ⟨x, _, rfl⟩ := List.mem_map.mp he
  constructor
  · cases hcell : qtFind bounds (x.1, x.2.1) with
    | none => simp [hcell] at hc'
    | some i => exact ⟨i, rfl, qtFind_lt bounds _ i hcell⟩
  · cases hbin : magBinF tol edges x.2.2 with
    | none => simp [hbin] at hb'
    | some k => exact ⟨k, rfl, magBinF_lt tol edges _ k hbin⟩

/-- **conservation and marginals for the pipeline the code runs, in floats**: every constructor-built Cartesian region, every edge list,
    every `tol=`, every catalog of float64 events (round-off band included); no hypothesis but "the call returned" -/
theorem smc_pipeline_cartF (R : Region.Region) (hB : R.Built) (tol : Option Rat) (edges : List Rat)
    (evs : List (Rat × Rat × Rat)) (M : List (List Nat))
    (h : smcCart R.cells.length edges.length (evsCartF R tol edges evs) = .ok M) :
    (M.map List.sum).sum = evs.length ∧
    spatialCountsCart R.cells.length ((evsCartF R tol edges evs).map (·.cell)) = .ok (M.map List.sum) ∧
    magnitudeCounts edges.length ((evsCartF R tol edges evs).map (·.bin))
      = (List.range edges.length).map (fun k => (M.map (fun r => (r[k]?).getD 0)).sum) := by
  have hR := pipeline_cartF_inRange R hB tol edges evs M h
  refine ⟨?_, smc_sum_mag _ _ _ M h hR, smc_sum_space _ _ _ M h hR⟩
  rw [smc_total _ _ _ M h hR]; simp [evsCartF]

/-- the same on a quadtree grid (tile membership is a set of float comparisons, hence exact) -/
theorem smc_pipeline_quadF (bounds : List (Rat × Rat × Rat × Rat)) (tol : Option Rat) (edges : List Rat)
    (evs : List (Rat × Rat × Rat)) (M : List (List Nat))
    (h : smcQuad bounds.length edges.length (evsQuadF bounds tol edges evs) = .ok M) :
    (M.map List.sum).sum = evs.length ∧
    magnitudeCounts edges.length ((evsQuadF bounds tol edges evs).map (·.bin))
      = (List.range edges.length).map (fun k => (M.map (fun r => (r[k]?).getD 0)).sum) := by
  have hR := pipeline_quadF_inRange bounds tol edges evs M h
  have h' := h
  rw [quadtree_pairing] at h'
  refine ⟨?_, smc_sum_space _ _ _ M h' hR⟩
  rw [smc_total _ _ _ M h' hR]; simp [evsQuadF]

/-- entry (i, k) = number of events whose FLOAT lookups give cell i and bin k -/
theorem smc_entry_float (R : Region.Region) (tol : Option Rat) (edges : List Rat) (evs : List (Rat × Rat × Rat))
    (M : List (List Nat)) (h : smcCart R.cells.length edges.length (evsCartF R tol edges evs) = .ok M)
    (i k : Nat) (hi : i < R.cells.length) (hk : k < edges.length) :
    entry M i k = some (evs.countP (fun e => cellOfF R (e.1, e.2.1) == some i && magBinF tol edges e.2.2 == some k)) := by
  rw [smc_entry _ _ _ M h i k hi hk]
  unfold evsCartF
  rw [List.countP_map]
  rfl

/-- number of edges ≤ m on a sorted edge list: the leading run -/
theorem cnt_eq_countP {edges : List Rat} (hs : edges.Pairwise (· < ·)) (m : Rat) :
    Region.cnt edges m = edges.countP (fun e => decide (e ≤ m)) := by
  unfold Region.cnt
  induction edges with
  | nil => rfl
  | cons a l ih =>
    rw [List.pairwise_cons] at hs
    by_cases ha : a ≤ m
    · simp only [List.takeWhile_cons, ha, decide_true, if_true, List.length_cons, List.countP_cons_of_pos, ih hs.2]
    · have : l.countP (fun e => decide (e ≤ m)) = 0 := by
        rw [List.countP_eq_zero]
        intro e he
        have := hs.1 e he
        simp only [decide_eq_true_eq, not_le]
        exact lt_trans (not_le.mp ha) this
      simp [ha, this]

/-- the exact magnitude bin of `Model/Gridding.lean` is C02's ideal bin -/
theorem magBin_eq_ideal {edges : List Rat} (hs : edges.Pairwise (· < ·)) (m : Rat) :
    magBin edges m = idxOpt (binIdeal edges m) := by
  unfold magBin binIdeal idxOpt
  simp only
  rw [cnt_eq_countP hs]
  by_cases h0 : edges.countP (fun e => decide (e ≤ m)) = 0
  · simp [h0]
  · have : ¬ (((edges.countP (fun e => decide (e ≤ m)) : Nat) : Int) - 1 < 0) := by omega
    simp only [h0, if_false, this]
    congr 1
    omega

/-- **in its own bin, up to exactly the documented band**: on a regular float64 grid and for a float64 magnitude the bin the code
    computes is the exact bin, or the next bin j — and then the magnitude is within `bandWidth` below edge j -/
theorem magBinF_exact_or_band {edges : List ℚ} (G : RegularF64Grid edges) {m : ℚ} (P : PointOK edges m) :
    magBinF none edges m = magBin edges m ∨
    ∃ j : Nat, j < edges.length ∧ magBinF none edges m = some j ∧ magBin edges m = idxOpt ((j : Int) - 1) ∧
      edges.getD j 0 - m ≤ bandWidth (cfg64 true) (edges.getD 0 0) (step64 edges) j (edges.getD j 0) m := by
  have hcfg : magCfg .f64 .f64 none = cfg64 true := rfl
  have hid := magBin_eq_ideal G.increasing m
  have hup := bin1dF_upper true G P
  have hKr := binIdeal_range edges m
  have hb : edges ≠ [] := by intro h; have := G.two_le; simp [h] at this
  have hrange := bin1dF_range (cfg64 true) edges hb m
  obtain ⟨c1, c2, _, _⟩ := bin1dF_cases true G P
  unfold magBinF
  rw [hcfg, hid]
  by_cases hK : binIdeal edges m + 1 < (edges.length : ℤ)
  · rcases c1 hK with h | ⟨h, _⟩
    · left; rw [h]
    · right
      have hj0 : 0 ≤ binIdeal edges m + 1 := by omega
      refine ⟨(binIdeal edges m + 1).toNat, by omega, ?_, ?_, ?_⟩
      · rw [h]; unfold idxOpt; simp [show ¬ (binIdeal edges m + 1 < 0) by omega]
      · congr 1; omega
      · exact (hup.2 h).2
  · have hK' : binIdeal edges m + 1 = (edges.length : ℤ) := by omega
    left; rw [c2 hK' rfl]

/-- when the float lookups of every event equal the exact ones the float pipeline is the exact pipeline -/
theorem float_pipeline_eq_exact (R : Region.Region) (edges : List Rat) (evs : List (Rat × Rat × Rat))
    (hc : ∀ e ∈ evs, cellOfF R (e.1, e.2.1) = R.cellOf (e.1, e.2.1))
    (hm : ∀ e ∈ evs, magBinF none edges e.2.2 = magBin edges e.2.2) :
    evsCartF R none edges evs = evsCart R edges evs := by
  unfold evsCartF evsCart
  apply List.map_congr_left
  intro e he
  rw [hc e he, hm e he]

/-- a magnitude whose float index is −1 is never silently counted: space-magnitude gridding rejects the catalog (both region kinds) and
    the magnitude histogram counts only the other events -/
theorem magBinF_below_min_rejected (R : Region.Region) (tol : Option Rat) (edges : List Rat) (evs : List (Rat × Rat × Rat))
    (e : Rat × Rat × Rat) (he : e ∈ evs) (hlow : magBinF tol edges e.2.2 = none) :
    (∃ err, smcCart R.cells.length edges.length (evsCartF R tol edges evs) = .error err) ∧
    magnitudeCounts edges.length ((evsCartF R tol edges evs).map (·.bin)) =
      magnitudeCounts edges.length (((evsCartF R tol edges evs).map (·.bin)).filter (·.isSome)) := by
  refine ⟨?_, (magCounts_ignores_below_min _ _).2.1⟩
  have hmem : (⟨cellOfF R (e.1, e.2.1), magBinF tol edges e.2.2⟩ : Ev) ∈ evsCartF R tol edges evs :=
    List.mem_map.mpr ⟨e, he, rfl⟩
  exact (smc_rejects_below_min _ _ _ _ hmem hlow).1

/-! ## non-vacuity: the band case occurs on a real grid and is handled as stated -/

-- C02's witness grid (5.9, 33.2, 60.5, 87.8, 115.1) and the float64 just below 33.2: exact bin 0, the code's bin 1
example : magBin witnessBins pBelow332 = some 0 ∧ magBinF none witnessBins pBelow332 = some 1 := by decide +kernel
example := magBinF_exact_or_band witnessBins_regular pBelow332_ok
-- one Cartesian cell [0,1)², three events (one in the band): counted once each, in the bins the float formula gives
example : smcCart 1 5 [⟨some 0, magBinF none witnessBins pBelow332⟩, ⟨some 0, magBinF none witnessBins 6⟩,
    ⟨some 0, magBinF none witnessBins 200⟩] = .ok [[1, 1, 0, 0, 1]] := by decide +kernel
example : magBinF none witnessBins 5 = none := by decide +kernel

end Gridding
