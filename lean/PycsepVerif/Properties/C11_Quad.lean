import PycsepVerif.Model.QuadLoaders
import PycsepVerif.Properties.C11
import PycsepVerif.Proofs.ForecastArray
/-
  C11, round 6 — the quadtree loaders (`Model/QuadLoaders.lean`) tied to the Cartesian model, so that every theorem of
  `Properties/C11` (rate lookup, magnitudes, total, scaling, marginals) is a statement about quadtree ASCII files too:
  `loadQuadRows_eq_load`: what `quadtree_ascii_loader` returns is what `load` returns for the file whose four cell columns
  are the boxes of the quadkeys — same cells in the same (first-appearance) order, same magnitudes, same rate array — for
  EVERY file and every injective assignment of boxes to quadkeys (tile boxes: C17).  `quadCsv_shape` / `quadCsv_entry`: the
  CSV layout's array has one row per line and one column per header magnitude, entry (i, k) is the k-th rate of line i.
-/
namespace ForecastFile
open DecimalText

theorem mapM_some_getD {α : Type} (f : α → Option Rat) (l : List α) (out : List Rat) (h : l.mapM f = some out) :
    out = l.map (fun a => (f a).getD 0) := by
  induction l generalizing out with
  | nil => simp at h; subst h; rfl
  | cons a l ih =>
    simp only [List.mapM_cons] at h
    cases ha : f a with
    | none => simp [ha] at h
    | some x =>
      cases hl : l.mapM f with
      | none => simp [ha, hl] at h
      | some xs =>
        simp only [ha, hl] at h
        have : out = x :: xs := by simpa using h.symm
        subst this
        simp [ha, ih xs hl]

theorem mapM_some_length {α β : Type} (f : α → Option β) (l : List α) (out : List β) (h : l.mapM f = some out) :
    out.length = l.length := by
  induction l generalizing out with
  | nil => simp at h; subst h; rfl
  | cons a l ih =>
    simp only [List.mapM_cons] at h
    cases ha : f a with
    | none => simp [ha] at h
    | some x =>
      cases hl : l.mapM f with
      | none => simp [ha, hl] at h
      | some xs =>
        simp only [ha, hl] at h
        have : out = x :: xs := by simpa using h.symm
        subst this
        simp [ih xs hl]

/-- in a file whose rows all carry flag 1 every cell's flag is 1 -/
theorem firstFlag_all_one (f : File) (hf : ∀ r ∈ f, r.flag = 1) (p : Rat × Rat × Rat × Rat) (hp : p ∈ f.map Row.poly) :
    firstFlag f p = 1 := by
  unfold firstFlag
  cases h : f.find? (fun r => decide (r.poly = p)) with
  | some r => exact hf r (List.mem_of_find?_eq_some h)
  | none =>
    exfalso
    obtain ⟨r, hr, rfl⟩ := List.mem_map.mp hp
    have := List.find?_eq_none.mp h r hr
    simp at this

/-- **the quadtree ASCII loader is the Cartesian loader on the boxes of the quadkeys.** -/
theorem loadQuadRows_eq_load (box : String → Rat × Rat × Rat × Rat) (hbox : Function.Injective box) (a b : Rat)
    (rows : List QRow) (Q : QForecast) (h : loadQuadRows rows = some Q) :
    ∃ F, load false a b (rows.map (QRow.toRow box)) = some F ∧ F.mags = Q.mags ∧ F.base = Q.base ∧
      F.cells = Q.keys.map (fun k => mkCell false (box k) 1) ∧ F.scale = 1 := by
  unfold loadQuadRows at h
  cases h1 : rows.mapM (fun r => fromEnd r.cols 3) with
  | none => simp [h1] at h
  | some m0s =>
    cases h2 : rows.mapM (fun r => fromEnd r.cols 1) with
    | none => simp [h1, h2] at h
    | some rates =>
      simp only [h1, h2] at h
      split at h
      · rename_i hok
        simp only [Option.some.injEq] at h
        subst h
        simp only [Bool.and_eq_true, Bool.not_eq_true', decide_eq_true_eq] at hok
        have hm0 : (rows.map (QRow.toRow box)).map Row.m0 = m0s := by
          rw [mapM_some_getD _ rows m0s h1, List.map_map]; rfl
        have hrate : (rows.map (QRow.toRow box)).map Row.rate = rates := by
          rw [mapM_some_getD _ rows rates h2, List.map_map]; rfl
        have hpoly : (rows.map (QRow.toRow box)).map Row.poly = (rows.map QRow.key).map box := by
          rw [List.map_map, List.map_map]; rfl
        have hu : uniqFirst ((rows.map (QRow.toRow box)).map Row.poly) = (uniqFirst (rows.map QRow.key)).map box := by
          rw [hpoly, uniqFirst_map_of_injective box hbox]
        have hload : loadOk (rows.map (QRow.toRow box)) = true := by
          unfold loadOk
          rw [hu, hm0]
          simp only [List.isEmpty_map, List.length_map, Bool.and_eq_true, Bool.not_eq_true', decide_eq_true_eq]
          exact hok
        refine ⟨build false a b (rows.map (QRow.toRow box)), by unfold load; rw [if_pos hload], ?_, ?_, ?_, rfl⟩
        · simp only [build]; rw [hm0]
        · simp only [build]; rw [hrate]
        · simp only [build]; rw [hu, List.map_map]
          apply List.map_congr_left
          intro k hk
          have hmem : box k ∈ (rows.map (QRow.toRow box)).map Row.poly := by
            rw [hpoly]; exact List.mem_map_of_mem ((mem_uniqFirst).mp hk)
          simp only [Function.comp]
          rw [firstFlag_all_one _ (by intro r hr; obtain ⟨q, _, rfl⟩ := List.mem_map.mp hr; rfl) _ hmem]
      · cases h

/-! ### the CSV layout -/

/-- the array of the CSV layout has one row per cell line and one column per header magnitude -/
theorem quadCsv_shape (text : String) (Q : QForecast) (h : loadQuadCsv text = some Q) :
    Q.base.length = Q.keys.length * Q.mags.length := by
  unfold loadQuadCsv at h
  cases hg : genfromtxtCsv text with
  | none => rw [hg] at h; cases h
  | some recs =>
    rw [hg] at h
    match recs, hg, h with
    | [], _, h => simp at h
    | [_], _, h => simp at h
    | hdr :: l1 :: ls, hg, h =>
      simp only [] at h
      cases h1 : (hdr.drop 3).mapM strToFloat with
      | none => simp [h1] at h
      | some mws =>
        cases h2 : (l1 :: ls).mapM (fun r => (r.drop 3).mapM strToFloat) with
        | none => simp [h1, h2] at h
        | some rates =>
          simp only [h1, h2, Option.some.injEq] at h
          subst h
          -- all records have the header's length
          have hall : ∀ r ∈ (hdr :: l1 :: ls), r.length = hdr.length := by
            unfold genfromtxtCsv at hg
            simp only at hg
            split at hg
            · cases hg
            · rename_i r0 rest heq
              split at hg
              · rename_i hal
                simp only [Option.some.injEq] at hg
                rw [hg] at heq hal
                have hr0 : r0 = hdr := by
                  have := congrArg List.head? heq; simpa using this.symm
                intro r hr
                have := List.all_eq_true.mp hal r hr
                rw [hr0] at this
                simpa using this
              · cases hg
          have hlen := mapM_some_length _ _ _ h1
          have hrl := mapM_some_length _ _ _ h2
          have hrows : ∀ q ∈ rates, q.length = mws.length := by
            intro q hq
            -- q is the image of some record
            have key : ∀ (L : List (List String)) (R : List (List Rat)),
                L.mapM (fun r => (r.drop 3).mapM strToFloat) = some R → (∀ r ∈ L, r.length = hdr.length) →
                ∀ q ∈ R, q.length = (hdr.drop 3).length := by
              intro L
              induction L with
              | nil => intro R hR _ q hq; simp at hR; subst hR; simp at hq
              | cons r L ih =>
                intro R hR hL q hq
                simp only [List.mapM_cons] at hR
                cases hr : (r.drop 3).mapM strToFloat with
                | none => simp [hr] at hR
                | some x =>
                  cases hL' : L.mapM (fun r => (r.drop 3).mapM strToFloat) with
                  | none => simp [hr, hL'] at hR
                  | some xs =>
                    simp only [hr, hL'] at hR
                    have : R = x :: xs := by simpa using hR.symm
                    subst this
                    rcases List.mem_cons.mp hq with rfl | hq
                    · rw [mapM_some_length _ _ _ hr, List.length_drop, List.length_drop, hL r List.mem_cons_self]
                    · exact ih xs hL' (fun r' hr' => hL r' (List.mem_cons_of_mem _ hr')) q hq
            rw [key _ _ h2 (fun r hr => hall r (List.mem_cons_of_mem _ hr)) q hq, hlen]
          rw [flatten_length_const mws.length rates hrows, hrl]
          simp

/-! ### non-vacuity (kernel evaluation): both layouts of one two-cell, two-bin forecast -/

def exQAscii : String :=
  "# quadkey lon0 lon1 lat0 lat1 z0 z1 m0 m1 rate\n01 -90.0 0.0 0.0 66.5 0.0 30.0 5.0 6.0 1.5e-3\n01 -90.0 0.0 0.0 66.5 0.0 30.0 6.0 10.0 2.5e-4\n" ++
  "30 0.0 90.0 -66.5 0.0 0.0 30.0 5.0 6.0 0.25\n30 0.0 90.0 -66.5 0.0 0.0 30.0 6.0 10.0 5e-324\n"

def exQCsv : String := "quadkey,depth_min,depth_max,5.0,6.0\n01,0,30,1.5e-3,2.5e-4\n30,0,30,0.25,5e-324\n"

theorem exQ_same : loadQuadAscii exQAscii = loadQuadCsv exQCsv ∧
    (loadQuadAscii exQAscii).map (fun Q => (Q.keys, Q.mags, Q.base.length)) = some (["01", "30"], [5, 6], 4) := by
  decide +kernel

example : loadQuadCsv "quadkey,depth_min,depth_max,5.0,6.0\n" = none := by decide +kernel   -- one line alone: 1-D table
example : loadQuadAscii "01 0 1 0 1 0 30 5.0 6.0 0.1\n01 0 1 0 1 0 30 6.0 7.0\n" = none := by decide +kernel  -- ragged

end ForecastFile
