import PycsepVerif.Proofs.Time
import PycsepVerif.Proofs.TimeStr
import PycsepVerif.Proofs.DecYearQ
import PycsepVerif.Proofs.DecYearErr

/-!
# C15 — time conversions are exact to the millisecond and order-preserving

Theorems about `Model/Time.lean` (model of csep/utils/time_utils.py). A datetime is its number of microseconds
since the epoch; `toDatetime` is `epoch_time_to_utc_datetime` (through binary64: `ms / 1000`, `modf`,
`frac * 1e6`, round-half-even), `dtToMs` is `datetime_to_utc_epoch` (integer arithmetic on the timedelta).
The range `|ms| < 2^33 · 1000` is 1697-10-20 … 2242-03-16 and contains 1900-01-01 … 2200-01-01.
-/
namespace Time
open Soft64

/-- the millisecond range of the property: 1900-01-01T00:00:00 … 2200-01-01T00:00:00 -/
def msLo : Int := -2208988800000
def msHi : Int := 7258118400000

/-- C15: `epoch_time_to_utc_datetime(ms)` is the datetime exactly `ms` milliseconds after the epoch, although it
    goes through the binary64 value of `ms / 1000` (whose error, ≤ 2^-21 s, is below half a microsecond). -/
theorem ms_to_dt_exact (ms : Int) (h : |ms| < 8589934592000) : toDatetime ms = 1000 * ms := by
  unfold toDatetime
  apply fromTimestamp_of_close
  have := msToSecF_err ms h
  have e : ((1000 * ms : Int) : ℚ) / 1000000 = (ms : ℚ) / 1000 := by push_cast; ring
  rwa [e]

example : toDatetime (-1097606850620) = 1000 * (-1097606850620) := ms_to_dt_exact _ (by decide)

/-- the property's range lies inside the hypothesis of `ms_to_dt_exact` -/
theorem range_ok (ms : Int) (h1 : msLo ≤ ms) (h2 : ms ≤ msHi) : |ms| < 8589934592000 := by
  unfold msLo at h1; unfold msHi at h2; rw [abs_lt]; constructor <;> omega

/-- C15: `datetime_to_utc_epoch` is the floor of microseconds / 1000 (for every datetime, also before 1970). -/
theorem dt_to_ms_floor (us : Int) : dtToMs us = us / 1000 := by
  simp only [dtToMs, usPerDay]; omega

/-- C15: milliseconds → datetime → milliseconds is the identity. -/
theorem ms_roundtrip (ms : Int) (h : |ms| < 8589934592000) : dtToMs (toDatetime ms) = ms := by
  rw [ms_to_dt_exact ms h, dt_to_ms_floor]; omega

/-- C15: a datetime that is a whole number of milliseconds survives datetime → milliseconds → datetime. -/
theorem dt_roundtrip_whole_ms (us : Int) (hw : us % 1000 = 0) (h : |us| < 8589934592000000) :
    toDatetime (dtToMs us) = us := by
  have hr : |dtToMs us| < 8589934592000 := by
    rw [dt_to_ms_floor, abs_lt]; rw [abs_lt] at h; constructor <;> omega
  rw [ms_to_dt_exact _ hr, dt_to_ms_floor]; omega

example : toDatetime (dtToMs (-1097606850620000)) = -1097606850620000 :=
  dt_roundtrip_whole_ms _ (by decide) (by decide)

/-- C15: a finer datetime lands within one millisecond (at or below it, less than 1000 µs away). -/
theorem within_one_ms (us : Int) (h : |us| < 8500000000000000) :
    toDatetime (dtToMs us) ≤ us ∧ us - toDatetime (dtToMs us) < 1000 := by
  have hr : |dtToMs us| < 8589934592000 := by
    rw [dt_to_ms_floor, abs_lt]; rw [abs_lt] at h; constructor <;> omega
  rw [ms_to_dt_exact _ hr, dt_to_ms_floor]; omega

example : toDatetime (dtToMs (-1097606850619001)) = -1097606850620000 := by decide +kernel

/-- C15: milliseconds → datetime is strictly increasing. -/
theorem to_datetime_strict_mono (a b : Int) (ha : |a| < 8589934592000) (hb : |b| < 8589934592000) (hab : a < b) :
    toDatetime a < toDatetime b := by
  rw [ms_to_dt_exact a ha, ms_to_dt_exact b hb]; omega

/-- C15: datetime → milliseconds is monotone (for all datetimes). -/
theorem dt_to_ms_mono (a b : Int) (hab : a ≤ b) : dtToMs a ≤ dtToMs b := by
  rw [dt_to_ms_floor, dt_to_ms_floor]; omega

/-- C15: naive and UTC datetimes convert alike; any other tzinfo is rejected (ValueError). -/
theorem tz_rule (us : Int) :
    datetimeToUtcEpoch .naive us = some (us / 1000) ∧ datetimeToUtcEpoch .utc us = some (us / 1000)
      ∧ datetimeToUtcEpoch .other us = none := by
  simp [datetimeToUtcEpoch, dt_to_ms_floor]

/-- C15 (calendar): the day number of the civil date of day `z` is `z` — for EVERY integer day number (the
    146097 days of a 400-year era are enumerated completely by the kernel, the rest is the era shift), and the
    civil date is a valid date. -/
theorem civil_roundtrip (z : Int) :
    daysFromCivil (civilFromDays z).1 (civilFromDays z).2.1 (civilFromDays z).2.2 = z
      ∧ validDate (civilFromDays z).1 (civilFromDays z).2.1 (civilFromDays z).2.2 = true :=
  ⟨days_of_civil z, civil_valid z⟩

example : civilFromDays (-12704) = (1935, 3, 22) := by decide +kernel
example : civilFromDays 11016 = (2000, 2, 29) := by decide +kernel

/-- C15: the fields (year … microsecond) determine the datetime: `datetime(*fields(dt)) == dt`, and in the
    property's range they are valid constructor arguments with a four-digit year. -/
theorem fields_roundtrip (us : Int) : ofFields (fields us) = us := ofFields_fields us

theorem fields_valid (us : Int) (h : |us| < 8589934592000000) : validFields (fields us) = true := by
  rw [abs_lt] at h; exact validFields_fields us h.1 h.2

/-- C15: parsing a formatted time string agrees with both conversions, for all four shapes
    (`str(dt)` of naive / UTC-aware datetimes, with fraction iff microsecond ≠ 0, with `+00:00` iff aware):
    `strptime_to_utc_datetime(str(dt)) = dt` and `strptime_to_utc_epoch(str(dt)) = datetime_to_utc_epoch(dt)`. -/
theorem string_parse_agrees (us : Int) (h : |us| < 8589934592000000) :
    strptimeToUtcDatetime (strNaive us) = some us ∧ strptimeToUtcDatetime (strAware us) = some us
      ∧ strptimeToUtcEpoch (strNaive us) = some (us / 1000) ∧ strptimeToUtcEpoch (strAware us) = some (us / 1000) := by
  rw [abs_lt] at h
  have hn := strptimeToUtcDatetime_str us h.1 h.2 false
  have ha := strptimeToUtcDatetime_str us h.1 h.2 true
  simp only [zoneSuffix, Bool.false_eq_true, if_false, List.append_nil, if_true] at hn ha
  refine ⟨hn, ha, ?_, ?_⟩
  · unfold strptimeToUtcEpoch; rw [show strNaive us = isoformat ' ' us from rfl, hn]; simp [dt_to_ms_floor]
  · unfold strptimeToUtcEpoch; rw [show strAware us = isoformat ' ' us ++ ['+', '0', '0', ':', '0', '0'] from rfl, ha]
    simp [dt_to_ms_floor]

/-- the string has a fraction iff the datetime is not a whole second -/
theorem string_fraction_iff (us : Int) : (strNaive us).contains '.' = decide ((fields us).micro ≠ 0) := by
  have := parseStringFormat_format (fields us) false
  simp only [zoneSuffix, Bool.false_eq_true, if_false, List.append_nil, parseStringFormat] at this
  split at this
  · cases this
  · simp only [Option.some.injEq, Format.mk.injEq] at this
    exact this.2.1

example : strAware (-1097606850620000) = "1935-03-22 05:12:29.380000+00:00".toList := by decide +kernel
example : strptimeToUtcEpoch "1935-03-22 05:12:29.380000+00:00".toList = some (-1097606850620) := by decide +kernel
example : strptimeToUtcEpoch "2000-02-29 00:00:00".toList = some 951782400000 := by decide +kernel
example : strptimeToUtcDatetime "2001-02-29 00:00:00".toList = none := by decide +kernel

/-- C15/C14: the csep_ascii reader's two formats (`%Y-%m-%dT%H:%M:%S.%f`, then `%Y-%m-%dT%H:%M:%S`) invert
    `isoformat('T')`. -/
theorem reader_parse_agrees (us : Int) (h : |us| < 8589934592000000) :
    readerParse (isoformat 'T' us) = some (us / 1000) := by
  rw [abs_lt] at h; rw [readerParse_isoformat us h.1 h.2, dt_to_ms_floor]

/-! ## decimal years -/

/-- C15: the exact-arithmetic decimal year (the documented formula) is strictly increasing in time, within and
    across years, leap years included — quantitatively: it grows at least by `Δt / 366 days`. -/
theorem decimal_year_exact_strict_mono (a b : Int) (hab : a < b) : decimalYearExact a < decimalYearExact b := by
  have h := decimalYearExact_lower a b hab.le
  have hpos : (0 : ℚ) < ((b - a : Int) : ℚ) / 31622400000000 := by
    apply div_pos _ (by norm_num)
    exact_mod_cast (by omega : (0 : Int) < b - a)
  linarith

/-- the rounding error of the ten float operations of `decimal_year` at instant `us` is at most 10^-11 years
    (0.3 ms; the observed error is below 5·10^-13) -/
def DecYearErr (us : Int) : Prop := |decimalYear us - decimalYearExact us| ≤ 1 / 100000000000

/-- lemma (the float error bound `DecYearErr` as hypothesis; discharged by `decimal_year_err` below): the float
    decimal year is strictly increasing for instants at least one millisecond apart. -/
theorem decimal_year_strict_mono_of_err (a b : Int) (hab : a + 1000 ≤ b) (ha : DecYearErr a) (hb : DecYearErr b) :
    decimalYear a < decimalYear b := by
  have h := decimalYearExact_lower a b (by omega)
  have hgap : (1000 : ℚ) / 31622400000000 ≤ ((b - a : Int) : ℚ) / 31622400000000 := by
    apply div_le_div_of_nonneg_right _ (by norm_num)
    exact_mod_cast (by omega : (1000 : Int) ≤ b - a)
  unfold DecYearErr at ha hb
  rw [abs_le] at ha hb
  linarith [ha.1, ha.2, hb.1, hb.2]

/-- lemma (same hypothesis): the inverse recovers the instant to within a millisecond. -/
theorem decimal_year_inverse_of_err (us : Int) (h : DecYearErr us) :
    |decimalYearToDatetime (decimalYear us) - us| < 1000 := by
  have hc := inverse_exact_close (decimalYear us)
  set R := decimalYearToDatetime (decimalYear us)
  unfold DecYearErr at h
  rw [abs_le] at h hc
  have hd : |decimalYearExact R - decimalYearExact us| ≤ 1 / 100000000000 + 1 / 60000000000000 := by
    rw [abs_le]; constructor <;> linarith [h.1, h.2, hc.1, hc.2]
  rw [abs_le] at hd
  rw [abs_lt]
  constructor
  · by_contra hcon
    have hle : R + 1000 ≤ us := by omega
    have := decimalYearExact_lower R us (by omega)
    have hgap : (1000 : ℚ) / 31622400000000 ≤ ((us - R : Int) : ℚ) / 31622400000000 := by
      apply div_le_div_of_nonneg_right _ (by norm_num)
      exact_mod_cast (by omega : (1000 : Int) ≤ us - R)
    linarith [hd.1, hd.2]
  · by_contra hcon
    have hle : us + 1000 ≤ R := by omega
    have := decimalYearExact_lower us R (by omega)
    have hgap : (1000 : ℚ) / 31622400000000 ≤ ((R - us : Int) : ℚ) / 31622400000000 := by
      apply div_le_div_of_nonneg_right _ (by norm_num)
      exact_mod_cast (by omega : (1000 : Int) ≤ R - us)
    linarith [hd.1, hd.2]

/-- C15 (Soft64 analysis): the ten float operations of `decimal_year` lose at most 10^-12 years (32 µs) for every
    datetime with |us| < 2^33·10^6 (1697 … 2242), hence `DecYearErr`. -/
theorem decimal_year_err (us : Int) (h : |us| < 8589934592000000) : DecYearErr us := by
  rw [abs_lt] at h
  have := decimalYear_err us h.1 h.2
  unfold DecYearErr
  linarith

/-- C15: `decimal_year` (the binary64 computation) is strictly increasing for instants at least one millisecond
    apart — within a year and across year ends, leap years included. -/
theorem decimal_year_strict_mono (a b : Int) (ha : |a| < 8589934592000000) (hb : |b| < 8589934592000000)
    (hab : a + 1000 ≤ b) : decimalYear a < decimalYear b :=
  decimal_year_strict_mono_of_err a b hab (decimal_year_err a ha) (decimal_year_err b hb)

/-- C15: `decimal_year_to_utc_datetime(decimal_year(dt))` is less than one millisecond away from `dt`
    (both directions in binary64), and `decimal_year_to_utc_epoch` is at most one millisecond off. -/
theorem decimal_year_inverse_within_1ms (us : Int) (h : |us| < 8589934592000000) :
    |decimalYearToDatetime (decimalYear us) - us| < 1000
      ∧ |decimalYearToEpoch (decimalYear us) - us / 1000| ≤ 1 := by
  have h1 := decimal_year_inverse_of_err us (decimal_year_err us h)
  refine ⟨h1, ?_⟩
  unfold decimalYearToEpoch
  rw [dt_to_ms_floor]
  rw [abs_lt] at h1
  rw [abs_le]
  constructor <;> omega

example : decimalYearToDatetime (decimalYear 946684799999000) = 946684799999003 := by decide +kernel

/-- kernel-checked instances of the float error bound: the old failure instant, year ends of
    leap and non-leap years, the last microsecond before 2200 -/
example : DecYearErr (-1097606850620000) := by unfold DecYearErr; decide +kernel
example : DecYearErr 946684799999999 := by unfold DecYearErr; decide +kernel
example : DecYearErr 7258118399999999 := by unfold DecYearErr; decide +kernel
example : DecYearErr (-2208988800000000) := by unfold DecYearErr; decide +kernel
example : decimalYear 946684799999000 < decimalYear 946684800000000 := by decide +kernel

/-! ## the defect that was repaired (D1), kept as a kernel-checked witness -/

/-- the conversion as it was before the repair (bfc494d): `int(1000.0 * (dt - epoch).total_seconds())`;
    `total_seconds()` is the correctly rounded quotient `us / 10^6`, the product is a float product, `int` truncates -/
def dtToMsFloatOld (us : Int) : Int := truncR (fmul 1000 (fdiv (us : Rat) 1000000))

/-- D1 witness: with the old float conversion the round trip of −1097606850620 ms lands on −1097606850619
    (the product 1000.0 · fl(us/10^6) rounds just below the whole millisecond and `int` truncates);
    the repaired integer conversion returns the input (`ms_roundtrip`). -/
example : dtToMsFloatOld (toDatetime (-1097606850620)) = -1097606850619 := by decide +kernel
example : dtToMs (toDatetime (-1097606850620)) = -1097606850620 := by decide +kernel

end Time
