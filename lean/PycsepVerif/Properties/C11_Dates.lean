import PycsepVerif.Model.ForecastArray
import PycsepVerif.Properties.C11
import PycsepVerif.Properties.C15
import PycsepVerif.Proofs.DecYearMono
import PycsepVerif.Proofs.ForecastDates
import PycsepVerif.Proofs.ForecastDatesCal
/-
  C11, round 4 — `GriddedForecast.scale_to_test_date(test_datetime)` (forecasts.py:257-287) computed by the model from the
  three datetimes (`Model/ForecastArray.lean`, `testDateFraction`: the two comparisons, three `decimal_year` calls — C15's
  bit-exact `Time.decimalYear` — `+ timedelta(1)`, two float subtractions, one float division).  Until this round the
  fraction was read from the implementation and handed to the model.

  Proved here, for every forecast, every history and all datetimes in C15's range:
    the call is the identity outside (start, end); inside it is ABSOLUTE (data = base × fraction whatever happened before,
    never a product), idempotent, the fraction depends on the three dates only, is ≥ 0 and weakly increasing in the test
    date; the exact-arithmetic fraction is in (0, 1] when the test day ends inside the period.
  Round 5: the distance of the binary64 fraction from the exact one is PROVED (`test_date_fraction_close`: ≤ 2·10^-10 for
  periods of at least 31 days, `test_date_fraction_close_short`: ≤ 5·10^-9 for periods of at least ONE day; every datetime
  0001 … 9999, test dates on the last day of the period included), from C15's full-range error bound of `decimal_year`.
-/
namespace ForecastFile
open Soft64 Time

/-- outside the open period the call returns the forecast unchanged (both comparisons are non-strict: a test date ON the
    start or the end changes nothing) -/
theorem test_date_outside (F : Forecast) (start end_ test : Int) (h : test ≤ start ∨ end_ ≤ test) :
    scaleToTestDate F start end_ test = F := by
  unfold scaleToTestDate testDateFraction
  rcases h with h | h
  · by_cases h2 : end_ ≤ test <;> simp [h, h2, applyOp]
  · simp [h, applyOp]

/-- inside the period a fraction is always set -/
theorem test_date_inside_sets (start end_ test : Int) (h1 : start < test) (h2 : test < end_) :
    ∃ q, testDateFraction start end_ test = some q := by
  unfold testDateFraction
  simp [Int.not_le.mpr h1, Int.not_le.mpr h2]

/-- **`scale_to_test_date` is absolute.**  After ANY history of `scale` / `scale_to_test_date` calls, a call with a date
    inside the period leaves `data = base × fraction(start, end, test)` — a function of the three dates alone; with a date
    outside, the data of the history before it. -/
theorem test_date_absolute (F : Forecast) (start end_ : Int) (ops : List DOp) (test : Int) :
    data (runDOps F start end_ (ops ++ [.testDate test])) =
      match testDateFraction start end_ test with
      | some q => F.base.map (· * q)
      | none => data (runDOps F start end_ ops) := by
  unfold runDOps
  rw [List.map_append, List.map_cons, List.map_nil]
  have h := scale_to_test_date_absolute F (ops.map (DOp.toScaleOp start end_))
  cases hq : testDateFraction start end_ test with
  | none => simp only [DOp.toScaleOp, hq]; exact (h 0).2
  | some q => simp only [DOp.toScaleOp, hq]; exact (h q).1

/-- calling it twice with the same date is calling it once -/
theorem test_date_idempotent (F : Forecast) (start end_ test : Int) :
    scaleToTestDate (scaleToTestDate F start end_ test) start end_ test = scaleToTestDate F start end_ test := by
  unfold scaleToTestDate
  cases testDateFraction start end_ test <;> rfl

/-- … and never compounds with an earlier `scale(v)`: `scale(v); scale_to_test_date(t)` = `scale_to_test_date(t)` inside -/
theorem test_date_forgets_scale (F : Forecast) (start end_ test : Int) (v : Rat) (h1 : start < test) (h2 : test < end_) :
    scaleToTestDate (scaleBy F v) start end_ test = scaleToTestDate F start end_ test := by
  obtain ⟨q, hq⟩ := test_date_inside_sets start end_ test h1 h2
  unfold scaleToTestDate
  rw [hq]; rfl

/-- moving no cell and no edge: a lookup after the call returns base rate × fraction -/
theorem test_date_rates (F : Forecast) (start end_ test : Int) (q lon lat m x : Rat)
    (hq : testDateFraction start end_ test = some q) (h : getRates { F with scale := 1 } lon lat m = some x) :
    getRates (scaleToTestDate F start end_ test) lon lat m = some (x * q) := by
  have := getRates_runOps F [.toTestDate (some q)] lon lat m x h
  simpa [scaleToTestDate, hq, runOps, lastFactor, ScaleOp.factor?] using this

/-! ### the fraction -/

theorem fl64_512 : fl64 (1 / 512) = 1 / 512 := by decide +kernel

/-- for a period of at least one day the float duration is at least 1/512 year (so the division is by a positive number) -/
theorem fore_dur_pos (start end_ : Int) (hs : |start| < 8589934592000000) (he : |end_| < 8589934592000000)
    (hd : start + 86400000000 ≤ end_) :
    1 / 512 ≤ fsub (decimalYear end_) (decimalYear start) := by
  have h1 := decimal_year_err start hs
  have h2 := decimal_year_err end_ he
  unfold DecYearErr at h1 h2
  rw [abs_le] at h1 h2
  have hl := decimalYearExact_lower start end_ (by omega)
  have hgap : (86400000000 : ℚ) / 31622400000000 ≤ ((end_ - start : Int) : ℚ) / 31622400000000 := by
    apply div_le_div_of_nonneg_right _ (by norm_num)
    exact_mod_cast (by omega : (86400000000 : Int) ≤ end_ - start)
  have hx : (1 : ℚ) / 512 ≤ decimalYear end_ - decimalYear start := by
    have : (86400000000 : ℚ) / 31622400000000 = 1 / 366 := by norm_num
    linarith [h1.1, h1.2, h2.1, h2.2]
  have := fl64_mono hx
  rw [fl64_512] at this
  exact this

/-- the fraction is never negative -/
theorem test_date_fraction_nonneg (start end_ test : Int) (q : Rat) (hs : |start| < 8589934592000000)
    (he : |end_| < 8589934592000000) (ht : |test + usPerDay| < 8589934592000000) (hd : start + 86400000000 ≤ end_)
    (hq : testDateFraction start end_ test = some q) : 0 ≤ q := by
  unfold testDateFraction at hq
  split at hq
  · cases hq
  · split at hq
    · cases hq
    · rename_i h1 h2
      simp only [Option.some.injEq] at hq
      subst hq
      have hdur := fore_dur_pos start end_ hs he hd
      have hlt : decimalYear start < decimalYear (test + usPerDay) :=
        decimal_year_strict_mono start (test + usPerDay) hs ht (by simp only [usPerDay]; omega)
      have hnum : 0 ≤ fsub (decimalYear (test + usPerDay)) (decimalYear start) := by
        unfold fsub; exact fl64_nonneg (by linarith)
      unfold fdiv
      exact fl64_nonneg (div_nonneg hnum (by linarith))

/-- **later test dates never give a smaller fraction** (dates at least a millisecond apart; binary64 arithmetic throughout) -/
theorem test_date_fraction_mono (start end_ t1 t2 : Int) (q1 q2 : Rat) (hs : |start| < 8589934592000000)
    (he : |end_| < 8589934592000000) (h1 : |t1 + usPerDay| < 8589934592000000) (h2 : |t2 + usPerDay| < 8589934592000000)
    (hd : start + 86400000000 ≤ end_) (h12 : t1 + 1000 ≤ t2)
    (hq1 : testDateFraction start end_ t1 = some q1) (hq2 : testDateFraction start end_ t2 = some q2) : q1 ≤ q2 := by
  unfold testDateFraction at hq1 hq2
  split at hq1
  · cases hq1
  · split at hq1
    · cases hq1
    · split at hq2
      · cases hq2
      · split at hq2
        · cases hq2
        · simp only [Option.some.injEq] at hq1 hq2
          subst hq1 hq2
          have hdur := fore_dur_pos start end_ hs he hd
          have hlt : decimalYear (t1 + usPerDay) < decimalYear (t2 + usPerDay) :=
            decimal_year_strict_mono _ _ h1 h2 (by omega)
          apply fdiv_mono_left (by linarith)
          unfold fsub
          exact fl64_mono (by linarith)

/-- the exact-arithmetic fraction (part of the period elapsed at the end of the test day) is positive inside the period,
    and at most 1 when the test day ends inside the period -/
theorem test_date_fraction_exact_range (start end_ test : Int) (h1 : start < test) (h2 : test < end_) :
    0 < testDateFractionExact start end_ test ∧
      (test + usPerDay ≤ end_ → testDateFractionExact start end_ test ≤ 1) := by
  unfold testDateFractionExact
  have hden : 0 < decimalYearExact end_ - decimalYearExact start := by
    have := decimal_year_exact_strict_mono start end_ (by omega); linarith
  have hnum : 0 < decimalYearExact (test + usPerDay) - decimalYearExact start := by
    have := decimal_year_exact_strict_mono start (test + usPerDay) (by simp only [usPerDay]; omega); linarith
  refine ⟨div_pos hnum hden, ?_⟩
  intro hle
  rw [div_le_one hden]
  rcases Int.lt_or_eq_of_le hle with hlt | heq
  · have := decimal_year_exact_strict_mono _ _ hlt; linarith
  · rw [heq]


/-! ### the computed fraction is the exact fraction up to rounding -/

/-- general form: a period of at least `m` µs (`m ≥ 1 day`) and any tolerance `ε ≤ 1` with `11·10^-12 ≤ ε · m / (366 days)` -/
theorem test_date_fraction_close_aux (start end_ test m : Int) (q ε : Rat)
    (hs : -62135596800000000 ≤ start) (he : end_ + usPerDay < 253402300800000000)
    (hm : 86400000000 ≤ m) (hd : start + m ≤ end_) (hε0 : 0 ≤ ε) (hε1 : ε ≤ 1)
    (hεm : 11 / 1000000000000 ≤ ε * ((m : ℚ) / 31622400000000))
    (hq : testDateFraction start end_ test = some q) :
    |q - testDateFractionExact start end_ test| ≤ ε + 1 / 100000000000000 := by
  unfold testDateFraction at hq
  split at hq
  · cases hq
  · split at hq
    · cases hq
    · rename_i h1 h2
      have h1' : test < end_ := Int.not_le.mp h1
      have h2' : start < test := Int.not_le.mp h2
      simp only [Option.some.injEq] at hq
      subst hq
      simp only [usPerDay] at he ⊢
      have eS := decimalYear_err_full start hs (by omega)
      have eE := decimalYear_err_full end_ (by omega) (by omega)
      have eT := decimalYear_err_full (test + 86400000000) (by omega) (by omega)
      -- the exact duration and the exact elapsed part
      have lD := decimalYearExact_lower start end_ (by omega)
      have lN := decimalYearExact_lower start (test + 86400000000) (by omega)
      have hDm : (m : ℚ) / 31622400000000 ≤ decimalYearExact end_ - decimalYearExact start := by
        have : (m : ℚ) / 31622400000000 ≤ ((end_ - start : Int) : ℚ) / 31622400000000 := by
          apply div_le_div_of_nonneg_right _ (by norm_num)
          exact_mod_cast (by omega : m ≤ end_ - start)
        linarith
      have hm' : (86400000000 : ℚ) / 31622400000000 ≤ (m : ℚ) / 31622400000000 := by
        apply div_le_div_of_nonneg_right _ (by norm_num)
        exact_mod_cast hm
      have hN1 : (86400000000 : ℚ) / 31622400000000 ≤ decimalYearExact (test + 86400000000) - decimalYearExact start := by
        have : (86400000000 : ℚ) / 31622400000000 ≤ ((test + 86400000000 - start : Int) : ℚ) / 31622400000000 := by
          apply div_le_div_of_nonneg_right _ (by norm_num)
          exact_mod_cast (by omega : (86400000000 : Int) ≤ test + 86400000000 - start)
        linarith
      -- the elapsed part is at most the duration plus one day of the shortest year
      have hTE : decimalYearExact (test + 86400000000) - decimalYearExact end_ ≤ (86400000000 : ℚ) / 31536000000000 := by
        by_cases hc : end_ ≤ test + 86400000000
        · have u := decimalYearExact_upper end_ (test + 86400000000) hc
          have : ((test + 86400000000 - end_ : Int) : ℚ) / 31536000000000 ≤ (86400000000 : ℚ) / 31536000000000 := by
            apply div_le_div_of_nonneg_right _ (by norm_num)
            exact_mod_cast (by omega : test + 86400000000 - end_ ≤ (86400000000 : Int))
          linarith
        · have l := decimalYearExact_lower (test + 86400000000) end_ (by omega)
          have : (0 : ℚ) ≤ ((end_ - (test + 86400000000) : Int) : ℚ) / 31622400000000 := by
            apply div_nonneg _ (by norm_num)
            exact_mod_cast (by omega : (0 : Int) ≤ end_ - (test + 86400000000))
          have : (0 : ℚ) ≤ (86400000000 : ℚ) / 31536000000000 := by norm_num
          linarith
      have c1 : (9 : ℚ) / 1000000000000 ≤ (86400000000 : ℚ) / 31622400000000 := by norm_num
      have c2 : (86400000000 : ℚ) / 31536000000000 ≤ 2 * ((86400000000 : ℚ) / 31622400000000) := by norm_num
      unfold testDateFractionExact
      simp only [usPerDay]
      apply quotient_close _ _ _ _ _ _ ε eS eE eT (by linarith) (by linarith) (by linarith) hε0 hε1
      calc (11 : ℚ) / 1000000000000 ≤ ε * ((m : ℚ) / 31622400000000) := hεm
        _ ≤ ε * (decimalYearExact end_ - decimalYearExact start) := mul_le_mul_of_nonneg_left hDm hε0

/-- **C11, the test-date fraction is right to 2·10^-10** for every forecast period of at least 31 days and every test date
    inside it (the last day included), all datetimes 0001 … 9999: the binary64 value `scale_to_test_date` hands to `scale`
    differs from the exact part of the period elapsed at the end of the test day by at most 2·10^-10. -/
theorem test_date_fraction_close (start end_ test : Int) (q : Rat)
    (hs : -62135596800000000 ≤ start) (he : end_ + usPerDay < 253402300800000000)
    (hd : start + 31 * 86400000000 ≤ end_) (hq : testDateFraction start end_ test = some q) :
    |q - testDateFractionExact start end_ test| ≤ 2 / 10000000000 := by
  have := test_date_fraction_close_aux start end_ test (31 * 86400000000) q (13 / 100000000000) hs he (by norm_num) hd
    (by norm_num) (by norm_num) (by norm_num) hq
  linarith

/-- … and to 5·10^-9 for EVERY period of at least one day (one-day forecasts, a test date on the only day included) -/
theorem test_date_fraction_close_short (start end_ test : Int) (q : Rat)
    (hs : -62135596800000000 ≤ start) (he : end_ + usPerDay < 253402300800000000)
    (hd : start + 86400000000 ≤ end_) (hq : testDateFraction start end_ test = some q) :
    |q - testDateFractionExact start end_ test| ≤ 5 / 1000000000 := by
  have := test_date_fraction_close_aux start end_ test 86400000000 q (41 / 10000000000) hs he (by norm_num) hd
    (by norm_num) (by norm_num) (by norm_num) hq
  linarith

-- a one-day period (2019-12-15 … 2019-12-16), a test date one second after its start: the fraction is 1 + 1 s / 1 day
example : ∃ q, testDateFraction 1576368000000000 1576454400000000 1576368001000000 = some q ∧
    |q - testDateFractionExact 1576368000000000 1576454400000000 1576368001000000| ≤ 5 / 1000000000 := by
  obtain ⟨q, hq⟩ := test_date_inside_sets 1576368000000000 1576454400000000 1576368001000000 (by decide) (by decide)
  exact ⟨q, hq, test_date_fraction_close_short _ _ _ q (by decide) (by decide) (by decide) hq⟩

example : |(68531204197 / 137438953472 : ℚ) - testDateFractionExact 1262304000000000 1293840000000000 1277942400000000|
    ≤ 2 / 10000000000 :=
  test_date_fraction_close 1262304000000000 1293840000000000 1277942400000000 _ (by decide) (by decide) (by decide)
    (by decide +kernel)

/-! ### non-vacuity: the period 2010-01-01 … 2011-01-01, test date 2010-07-01 (kernel-evaluated binary64 arithmetic) -/

private def exF : Forecast :=
  { cells := [⟨0, 1, 0, 1, 1⟩], dh := 1, mags := [5, 6], base := [1, 3], scale := 1 }

-- 2010-01-01 = 1262304000 s, 2011-01-01 = 1293840000 s, 2010-07-01 = 1277942400 s after the epoch
example : testDateFraction 1262304000000000 1293840000000000 1277942400000000
    = some (68531204197 / 137438953472) := by decide +kernel
example : testDateFractionExact 1262304000000000 1293840000000000 1277942400000000 = 182 / 365 := by decide +kernel
example : testDateFraction 1262304000000000 1293840000000000 1262304000000000 = none := by decide +kernel
example : testDateFraction 1262304000000000 1293840000000000 1293840000000000 = none := by decide +kernel
example : data (runDOps exF 1262304000000000 1293840000000000 [.scale 7, .testDate 1277942400000000, .testDate 1293840000000001])
    = [68531204197 / 137438953472, 3 * (68531204197 / 137438953472)] := by decide +kernel

end ForecastFile
