import PycsepVerif.Properties.C01_Repr
/-!
# C01 — `global_region(dh)` for EVERY decimal spacing that divides 180°

`global_region_construction` (Properties/C01_Repr.lean) is the instance `dh = 0.1`. Here the same statement is proved for every
binary64 `dh` whose `repr` is a decimal `D/10^m` (m = max(1, num_decimals(dh)) ≤ 12) with `nx·D = 360·10^m`, `ny·D = 180·10^m`,
at most 2^16 columns and `dh ≥ 2^-20`: 0.05, 0.1, 0.2, 0.25, 0.5, 1, 2, 2.5, 5, … — instances for 1.0, 0.5, 0.25 and 2.0 below.
-/
namespace Region
open Soft64 Bin1d ReprDec DecimalText

private theorem m180_facts : numDecimals (-180) = 1 ∧ reprValue (-180) = ((-1800 : ℤ) : ℚ) / ((10 ^ 1 : ℕ) : ℚ) ∧ fl64 (-180) = -180 ∧
    pow2 (-1022) ≤ (180 : ℚ) ∧ fl64 180 = 180 := by decide +kernel
private theorem m90_facts : numDecimals (-90) = 1 ∧ reprValue (-90) = ((-900 : ℤ) : ℚ) / ((10 ^ 1 : ℕ) : ℚ) ∧ fl64 (-90) = -90 ∧
    pow2 (-1022) ≤ (90 : ℚ) ∧ fl64 90 = 90 := by decide +kernel

private theorem pow10_le_of_le {m : ℕ} (h : m ≤ 12) : ((10 : ℤ) ^ m) ≤ 10 ^ 12 := pow_le_pow_right₀ (by norm_num) h

/-- one axis of the globe: `cleaner_range(-a, a, dh)[:-1]` for `a = 180` or `90` is the decimal grid `-a + k·dh`, k < n -/
private theorem axis_coordinates (A : ℤ) (a : ℚ) (ha : a = (A : ℚ)) (hA : A = 180 ∨ A = 90)
    (hnd : numDecimals (-a) = 1) (hsF : fl64 (-a) = -a) (hendF : fl64 a = a) (haN : pow2 (-1022) ≤ a)
    (hrv : reprValue (-a) = ((-A * 10 : ℤ) : ℚ) / ((10 ^ 1 : ℕ) : ℚ))
    (dh : ℚ) (hF : IsF64 dh) (hN : pow2 (-1022) ≤ dh)
    (m : ℕ) (D : ℤ) (n : ℕ) (hm : m = max 1 (numDecimals dh)) (hm12 : m ≤ 12)
    (hD : reprValue dh = (D : ℚ) / ((10 ^ m : ℕ) : ℚ)) (hDpos : 0 < D) (hn : (n : ℤ) * D = 2 * A * 10 ^ m) :
    (cleanerRangeAuto (-a) a dh).dropLast = decimalGrid (-A * 10 ^ m) D m n := by
  have hpos : (0 : ℚ) < dh := lt_of_lt_of_le (Soft64R.pow2_pos _) hN
  have hdN : dh = 0 ∨ pow2 (-1022) ≤ |dh| := Or.inr (by rw [abs_of_pos hpos]; exact hN)
  have hm1 : 1 ≤ m := by rw [hm]; exact le_max_left _ _
  have hp12 := pow10_le_of_le hm12
  have hp0 : (0 : ℤ) < 10 ^ m := by positivity
  have hapos : (0 : ℚ) < a := lt_of_lt_of_le (Soft64R.pow2_pos _) haN
  have hsN : -a = 0 ∨ pow2 (-1022) ≤ |-a| := Or.inr (by rw [abs_neg, abs_of_pos hapos]; exact haN)
  have hmax : max (numDecimals (-a)) (numDecimals dh) = m := by rw [hnd, hm]
  -- the same decimal −A with m places
  have hS : reprValue (-a) = ((-A * 10 ^ m : ℤ) : ℚ) / ((10 ^ m : ℕ) : ℚ) := by
    rw [hrv]
    have hp : ((10 ^ m : ℕ) : ℚ) ≠ 0 := by positivity
    rw [div_eq_div_iff (by norm_num) hp]
    push_cast
    ring
  have hAle : |A| ≤ 180 := by rcases hA with rfl | rfl <;> norm_num
  have hApos : 0 < A := by rcases hA with rfl | rfl <;> norm_num
  have hb : |(-A * 10 ^ m : ℤ)| + (((n : ℕ) : ℤ) + 1) * D ≤ 2 ^ 50 := by
    rw [abs_mul, abs_neg, abs_of_pos hApos, abs_of_pos hp0]
    have hD' : D ≤ 2 * A * 10 ^ m := by
      have hn1 : (1 : ℤ) ≤ (n : ℤ) := by
        by_contra hlt
        push Not at hlt
        have : (n : ℤ) = 0 := by omega
        rw [this] at hn
        have : (0 : ℤ) < 2 * A * 10 ^ m := by positivity
        omega
      nlinarith
    have hA180 : A ≤ 180 := by rcases hA with rfl | rfl <;> norm_num
    nlinarith
  have h := cleanerRange_repr_exact (-a) dh hsF hsN hF hdN (-A * 10 ^ m) D n (by rw [hmax]; omega)
    (by rw [hmax]; exact hS) (by rw [hmax]; exact hD) hDpos hb
  rw [hmax] at h
  have hend : fl64 ((((-A * 10 ^ m : ℤ) + ((n : ℕ) : ℤ) * D : ℤ) : ℚ) / ((10 ^ m : ℕ) : ℚ)) = a := by
    have : ((-A * 10 ^ m : ℤ) + ((n : ℕ) : ℤ) * D : ℤ) = A * 10 ^ m := by rw [hn]; ring
    rw [this]
    have hp : ((10 ^ m : ℕ) : ℚ) ≠ 0 := by positivity
    have : ((A * 10 ^ m : ℤ) : ℚ) / ((10 ^ m : ℕ) : ℚ) = (A : ℚ) := by
      push_cast
      field_simp
    rw [this, ← ha]; exact hendF
  rw [hend] at h
  rw [h, decimalGrid_dropLast]

/-- **`global_region(dh)` for every decimal spacing dividing 180°** (at most 2^16 columns, at most 12 decimals, `dh ≥ 2^-20`): the
float construction yields `xs`, `ys` = the nearest doubles of `−180 + k·dh`, `−90 + k·dh`, one cell per coordinate pair, the k-th pair
of `itertools.product(lons, lats)` recorded at its own lattice coordinate, unmasked. -/
theorem global_region_construction_gen (dh : ℚ) (hF : IsF64 dh) (hN : pow2 (-1022) ≤ dh)
    (m : ℕ) (D : ℤ) (nx ny : ℕ) (hm : m = max 1 (numDecimals dh)) (hm12 : m ≤ 12)
    (hD : reprValue dh = (D : ℚ) / ((10 ^ m : ℕ) : ℚ)) (hDpos : 0 < D)
    (hnx : (nx : ℤ) * D = 2 * 180 * 10 ^ m) (hny : (ny : ℤ) * D = 2 * 90 * 10 ^ m)
    (hnx16 : nx ≤ 2 ^ 16) (hny2 : 2 ≤ ny) (hmin : 1 / 2 ^ 20 ≤ (D : ℚ) / ((10 ^ m : ℕ) : ℚ)) :
    (globalRegionF dh).xs = decimalGrid (-180 * 10 ^ m) D m nx ∧
    (globalRegionF dh).ys = decimalGrid (-90 * 10 ^ m) D m ny ∧
    (globalRegionF dh).cells.length = (productN nx ny).length ∧
    ∀ k (hk : k < (productN nx ny).length),
      (globalRegionF dh).cells[k]? = some ⟨(productN nx ny)[k].1, (productN nx ny)[k].2, true⟩ := by
  have hpos : (0 : ℚ) < dh := lt_of_lt_of_le (Soft64R.pow2_pos _) hN
  obtain ⟨a1, a2, a3, a4, a5⟩ := m180_facts
  obtain ⟨b1, b2, b3, b4, b5⟩ := m90_facts
  have hp0 : (0 : ℤ) < 10 ^ m := by positivity
  have hp12 := pow10_le_of_le hm12
  have hx := axis_coordinates 180 180 (by norm_num) (Or.inl rfl) a1 a3 a5 a4 (by exact_mod_cast a2) dh hF hN m D nx hm hm12 hD hDpos hnx
  have hy := axis_coordinates 90 90 (by norm_num) (Or.inr rfl) b1 b3 b5 b4 (by exact_mod_cast b2) dh hF hN m D ny hm hm12 hD hDpos hny
  have horg : globalOrigins dh = latticeOrigins (-180 * 10 ^ m) (-90 * 10 ^ m) D m (productN nx ny) := by
    unfold globalOrigins
    rw [hx, hy, product_decimalGrid]
  unfold globalRegionF
  rw [horg]
  have hmm : m = max (numDecimals (-180)) (max (numDecimals (-90)) (numDecimals dh)) := by
    rw [a1, b1, hm]
    rw [max_eq_right (le_max_left 1 (numDecimals dh))]
  have hpq : ((10 ^ m : ℕ) : ℚ) ≠ 0 := by positivity
  have hSx : reprValue (-180) = ((-180 * 10 ^ m : ℤ) : ℚ) / ((10 ^ m : ℕ) : ℚ) := by
    rw [a2, div_eq_div_iff (by norm_num) hpq]; push_cast; ring
  have hSy : reprValue (-90) = ((-90 * 10 ^ m : ℤ) : ℚ) / ((10 ^ m : ℕ) : ℚ) := by
    rw [b2, div_eq_div_iff (by norm_num) hpq]; push_cast; ring
  have hnxpos : 2 ≤ nx := by
    by_contra hlt
    push Not at hlt
    have h1 : (nx : ℤ) ≤ 1 := by omega
    have h2 : (ny : ℤ) * D ≤ (nx : ℤ) * D * 1 := by nlinarith
    have : (2 : ℤ) ≤ ny := by exact_mod_cast hny2
    nlinarith
  have hq10 : (0 : ℚ) < ((10 ^ m : ℕ) : ℚ) := by positivity
  have hstep : (nx : ℚ) * ((D : ℚ) / ((10 ^ m : ℕ) : ℚ)) = 360 := by
    have : ((nx : ℤ) : ℚ) * (D : ℚ) = 2 * 180 * 10 ^ m := by exact_mod_cast hnx
    field_simp
    push_cast at this ⊢
    linarith
  have hstepy : (ny : ℚ) * ((D : ℚ) / ((10 ^ m : ℕ) : ℚ)) = 180 := by
    have : ((ny : ℤ) : ℚ) * (D : ℚ) = 2 * 90 * 10 ^ m := by exact_mod_cast hny
    field_simp
    push_cast at this ⊢
    linarith
  have hlox : ((-180 * 10 ^ m : ℤ) : ℚ) / ((10 ^ m : ℕ) : ℚ) = -180 := by push_cast; field_simp
  have hloy : ((-90 * 10 ^ m : ℤ) : ℚ) / ((10 ^ m : ℕ) : ℚ) = -90 := by push_cast; field_simp
  have hny16 : ny ≤ 2 ^ 16 := by
    have : (ny : ℤ) * D ≤ (nx : ℤ) * D := by rw [hnx, hny]; nlinarith
    have : (ny : ℤ) ≤ (nx : ℤ) := le_of_mul_le_mul_right this hDpos
    omega
  have Ax : DecAxis (-180 * 10 ^ m) D m nx :=
    ⟨by omega, hDpos, hnxpos, hnx16, by rw [abs_mul, abs_of_pos hp0]; norm_num; nlinarith, hmin,
      by rw [hlox]; norm_num, by rw [hlox, hstep]; norm_num⟩
  have Ay : DecAxis (-90 * 10 ^ m) D m ny :=
    ⟨by omega, hDpos, hny2, hny16, by rw [abs_mul, abs_of_pos hp0]; norm_num; nlinarith, hmin,
      by rw [hloy]; norm_num, by rw [hloy, hstepy]; norm_num⟩
  exact repr_lattice_construction (-180) (-90) dh a3 (Or.inr (by rw [abs_neg, abs_of_pos (by norm_num)]; exact a4))
    b3 (Or.inr (by rw [abs_neg, abs_of_pos (by norm_num)]; exact b4)) hF (Or.inr (by rw [abs_of_pos hpos]; exact hN))
    (-180 * 10 ^ m) (-90 * 10 ^ m) D m nx ny (productN nx ny) none hmm hSx hSy hD Ax Ay
    (fun c hc => mem_productN.mp hc)
    (List.mem_map.mpr ⟨(0, 0), mem_productN.mpr ⟨by omega, by omega⟩, rfl⟩)
    (List.mem_map.mpr ⟨(nx - 1, 0), mem_productN.mpr ⟨by omega, by omega⟩, rfl⟩)
    (List.mem_map.mpr ⟨(0, 0), mem_productN.mpr ⟨by omega, by omega⟩, rfl⟩)
    (List.mem_map.mpr ⟨(0, ny - 1), mem_productN.mpr ⟨by omega, by omega⟩, rfl⟩)

/-! ### instances: the spacings the shipped code and the harness use (hypotheses by kernel evaluation of the model's `repr`) -/

private theorem facts_1 : fl64 (1 : ℚ) = 1 ∧ pow2 (-1022) ≤ (1 : ℚ) ∧ (1 : ℕ) = max 1 (numDecimals 1) ∧
    reprValue 1 = ((10 : ℤ) : ℚ) / ((10 ^ 1 : ℕ) : ℚ) := by decide +kernel
private theorem facts_05 : fl64 (1 / 2 : ℚ) = 1 / 2 ∧ pow2 (-1022) ≤ (1 / 2 : ℚ) ∧ (1 : ℕ) = max 1 (numDecimals (1 / 2)) ∧
    reprValue (1 / 2) = ((5 : ℤ) : ℚ) / ((10 ^ 1 : ℕ) : ℚ) := by decide +kernel
private theorem facts_025 : fl64 (1 / 4 : ℚ) = 1 / 4 ∧ pow2 (-1022) ≤ (1 / 4 : ℚ) ∧ (2 : ℕ) = max 1 (numDecimals (1 / 4)) ∧
    reprValue (1 / 4) = ((25 : ℤ) : ℚ) / ((10 ^ 2 : ℕ) : ℚ) := by decide +kernel
private theorem facts_2 : fl64 (2 : ℚ) = 2 ∧ pow2 (-1022) ≤ (2 : ℚ) ∧ (1 : ℕ) = max 1 (numDecimals 2) ∧
    reprValue 2 = ((20 : ℤ) : ℚ) / ((10 ^ 1 : ℕ) : ℚ) := by decide +kernel

/-- `global_region(dh=1)`: 360 × 180 cells -/
theorem global_region_1 : (globalRegionF 1).xs = decimalGrid (-180 * 10 ^ 1) 10 1 360 ∧
    (globalRegionF 1).ys = decimalGrid (-90 * 10 ^ 1) 10 1 180 ∧ (globalRegionF 1).cells.length = (productN 360 180).length :=
  let h := global_region_construction_gen 1 facts_1.1 facts_1.2.1 1 10 360 180 facts_1.2.2.1 (by norm_num) facts_1.2.2.2
    (by norm_num) (by norm_num) (by norm_num) (by norm_num) (by norm_num) (by norm_num)
  ⟨h.1, h.2.1, h.2.2.1⟩

/-- `global_region(dh=0.5)`: 720 × 360 cells -/
theorem global_region_05 : (globalRegionF (1 / 2)).xs = decimalGrid (-180 * 10 ^ 1) 5 1 720 ∧
    (globalRegionF (1 / 2)).ys = decimalGrid (-90 * 10 ^ 1) 5 1 360 ∧
    (globalRegionF (1 / 2)).cells.length = (productN 720 360).length :=
  let h := global_region_construction_gen (1 / 2) facts_05.1 facts_05.2.1 1 5 720 360 facts_05.2.2.1 (by norm_num) facts_05.2.2.2
    (by norm_num) (by norm_num) (by norm_num) (by norm_num) (by norm_num) (by norm_num)
  ⟨h.1, h.2.1, h.2.2.1⟩

/-- `global_region(dh=0.25)`: 1440 × 720 cells (two decimals) -/
theorem global_region_025 : (globalRegionF (1 / 4)).xs = decimalGrid (-180 * 10 ^ 2) 25 2 1440 ∧
    (globalRegionF (1 / 4)).ys = decimalGrid (-90 * 10 ^ 2) 25 2 720 ∧
    (globalRegionF (1 / 4)).cells.length = (productN 1440 720).length :=
  let h := global_region_construction_gen (1 / 4) facts_025.1 facts_025.2.1 2 25 1440 720 facts_025.2.2.1 (by norm_num) facts_025.2.2.2
    (by norm_num) (by norm_num) (by norm_num) (by norm_num) (by norm_num) (by norm_num)
  ⟨h.1, h.2.1, h.2.2.1⟩

/-- `global_region(dh=2)`: 180 × 90 cells -/
theorem global_region_2 : (globalRegionF 2).xs = decimalGrid (-180 * 10 ^ 1) 20 1 180 ∧
    (globalRegionF 2).ys = decimalGrid (-90 * 10 ^ 1) 20 1 90 ∧ (globalRegionF 2).cells.length = (productN 180 90).length :=
  let h := global_region_construction_gen 2 facts_2.1 facts_2.2.1 1 20 180 90 facts_2.2.2.1 (by norm_num) facts_2.2.2.2
    (by norm_num) (by norm_num) (by norm_num) (by norm_num) (by norm_num) (by norm_num)
  ⟨h.1, h.2.1, h.2.2.1⟩

end Region
