import PycsepVerif.Properties.C10
import PycsepVerif.Properties.C10_Session

/-!
# C10 — the two parked genuine-defect candidates, characterised on the faithful model

* **candidate A** (`obs-all-below-min-magnitude`): an observed catalog that is NOT empty but has no event inside the
  magnitude range.  `magnitude_test` short-circuits on `event_count` (all events) and then normalises with
  `n_obs = Σ_k Ω(k) = 0`: `finding_A_mtest_all_below` proves, for EVERY forecast with at least one synthetic event, that the
  code-shaped test reports status `normal`, observed statistic 0, a test distribution of zeros and the quantile (1, 1) —
  an undefined statistic reported as a perfect score instead of 'not-valid'.
* **candidate B** (`expected-rates-read-before-inplace-change`): `stale_cache_not_coherent` — after the catalogs of a
  forecast whose mean rates are cached have been changed, the object is no longer `Coherent` (the hypothesis of
  `session_history_free`), and `stale_cache_result` — the spatial test then combines the OLD mean rates with the NEW catalogs.
-/
namespace CatEvals
open RealOps

private theorem log10_one : log10 (α := ℝ) 1 = 0 := by simp [log10]

private theorem csd_zero : ∀ (l1 l2 : List ℝ), (∀ a ∈ l1, a = 0) → (∀ b ∈ l2, b = 0) →
    cumulativeSquareDiff l1 l2 = 0
  | [], _, _, _ => by simp [cumulativeSquareDiff, real_sum]
  | _ :: _, [], _, _ => by simp [cumulativeSquareDiff, real_sum]
  | a :: l1, b :: l2, h1, h2 => by
    have ha : a = 0 := h1 a List.mem_cons_self
    have hb : b = 0 := h2 b List.mem_cons_self
    have ih := csd_zero l1 l2 (fun x hx => h1 x (List.mem_cons_of_mem _ hx)) (fun x hx => h2 x (List.mem_cons_of_mem _ hx))
    simp only [cumulativeSquareDiff, real_sum, List.zipWith_cons_cons, List.sum_cons] at ih ⊢
    rw [ih, ha, hb]; simp

/-- candidate A on the faithful model, M-test -/
theorem finding_A_mtest_all_below (C K : Nat) (sims : List Grid) (obs : Grid) (nOut : Nat) (hOut : nOut ≠ 0)
    (hobs : ∀ c ∈ magCounts K obs, c = 0)
    (hU : isZero (α := ℝ) (RealOps.sum (magRates K (meanRates C K sims))) = false) :
    (magnitudeTestOut (α := ℝ) C K sims obs nOut).status = .normal ∧
    (magnitudeTestOut (α := ℝ) C K sims obs nOut).observed = some (.fin 0) ∧
    (∀ d ∈ (magnitudeTestOut (α := ℝ) C K sims obs nOut).distribution, d = .fin 0) ∧
    (magnitudeTestOut (α := ℝ) C K sims obs nOut).quantile =
      quantiles (magnitudeTestOut (α := ℝ) C K sims obs nOut).distribution (.fin 0) := by
  have hne : eventCount obs + nOut ≠ 0 := by omega
  have hsum : (magCounts K obs).sum = 0 := List.sum_eq_zero hobs
  unfold magnitudeTestOut
  rw [if_neg hne]
  unfold magnitudeCore
  simp only [hU, hsum, Bool.false_eq_true, if_false]
  have hl10 : ∀ b ∈ ((magRates (α := ℝ) K (meanRates C K sims)).map fun u =>
      RealOps.mul u (RealOps.div (RealOps.ofNat 0) (RealOps.sum (magRates K (meanRates C K sims))))).map
        (fun x => log10 (RealOps.add x RealOps.one)), b = 0 := by
    intro b hb
    simp only [List.map_map, List.mem_map, Function.comp] at hb
    obtain ⟨u, _, rfl⟩ := hb
    simp [log10]
  have hobsD : cumulativeSquareDiff (α := ℝ) (logHist (magCounts K obs) RealOps.one)
      (((magRates (α := ℝ) K (meanRates C K sims)).map fun u =>
        RealOps.mul u (RealOps.div (RealOps.ofNat 0) (RealOps.sum (magRates K (meanRates C K sims))))).map
          (fun x => log10 (RealOps.add x RealOps.one))) = 0 := by
    apply csd_zero _ _ _ hl10
    intro a ha
    simp only [logHist, List.mem_map] at ha
    obtain ⟨c, hc, rfl⟩ := ha
    simp [hobs c hc, log10]
  refine ⟨trivial, by rw [hobsD], ?_, by rw [hobsD]⟩
  · intro d hd
    simp only [List.mem_filterMap] at hd
    obtain ⟨g, _, hg⟩ := hd
    unfold dStat at hg
    simp only at hg
    split at hg
    · cases hg
    · injection hg with hg
      rw [← hg]
      congr 1
      apply csd_zero _ _ _ hl10
      intro a ha
      simp only [logHist, List.mem_map] at ha
      obtain ⟨c, _, rfl⟩ := ha
      simp [log10]

/-- all entries equal to the observed value: both empirical probabilities are 1 (C09 at a total tie) -/
theorem quantiles_all_tied (dist : List (ELL ℝ)) (h : ∀ d ∈ dist, d = .fin 0) (hne : dist ≠ []) :
    quantiles dist (.fin 0) = .pair (some (dist.length, dist.length)) (some (dist.length, dist.length)) := by
  unfold quantiles
  have he : dist.isEmpty = false := by cases dist <;> simp_all
  have hc : ∀ p : ELL ℝ → Bool, p (.fin 0) = true → dist.countP p = dist.length := by
    intro p hp
    rw [List.countP_eq_length]
    intro d hd; rw [h d hd]; exact hp
  rw [he]
  simp only [Bool.false_eq_true, if_false]
  rw [hc _ (by simp [ellLe]), hc _ (by simp [ellLe])]

/-- candidate A, the statement in one piece: status normal and the perfect score (1, 1) for an undefined statistic,
    whenever at least one synthetic catalog has an event inside the magnitude range -/
theorem finding_A_reports_perfect_score (C K : Nat) (sims : List Grid) (obs : Grid) (nOut : Nat) (hOut : nOut ≠ 0)
    (hobs : ∀ c ∈ magCounts K obs, c = 0)
    (hU : isZero (α := ℝ) (RealOps.sum (magRates K (meanRates C K sims))) = false)
    (hd : (magnitudeTestOut (α := ℝ) C K sims obs nOut).distribution ≠ []) :
    (magnitudeTestOut (α := ℝ) C K sims obs nOut).status = .normal ∧
    ∃ n, n ≠ 0 ∧ (magnitudeTestOut (α := ℝ) C K sims obs nOut).quantile = .pair (some (n, n)) (some (n, n)) := by
  obtain ⟨h1, _, h3, h4⟩ := finding_A_mtest_all_below C K sims obs nOut hOut hobs hU
  refine ⟨h1, _, ?_, by rw [h4]; exact quantiles_all_tied _ h3 hd⟩
  intro h0; exact hd (List.eq_nil_of_length_eq_zero h0)

/-- candidate A, resampled M-test: `n_obs = 0`, every resampled catalog has `int(0)` events and is skipped: status normal,
    observed statistic 0, empty distribution, quantile (None, None) -/
theorem finding_A_rmtest_all_below (K : Nat) (sims : List Grid) (obs : Grid) (draws : List (List Nat)) (nOut : Nat)
    (hOut : nOut ≠ 0) (hobs : ∀ c ∈ magCounts K obs, c = 0) (hdraws : ∀ mc ∈ draws, mc.sum = 0) :
    (resampledMagnitudeTestOut (α := ℝ) K sims obs draws nOut).status = .normal ∧
    (resampledMagnitudeTestOut (α := ℝ) K sims obs draws nOut).observed = some (.fin 0) ∧
    (resampledMagnitudeTestOut (α := ℝ) K sims obs draws nOut).distribution = [] ∧
    (resampledMagnitudeTestOut (α := ℝ) K sims obs draws nOut).quantile = .pair none none := by
  have hne : eventCount obs + nOut ≠ 0 := by omega
  have hsum : (magCounts K obs).sum = 0 := List.sum_eq_zero hobs
  have hdist : ∀ (l : List ℝ), draws.filterMap (fun mc => dStat (α := ℝ) 0 l mc) = [] := by
    intro l
    rw [List.filterMap_eq_nil_iff]
    intro mc hmc
    simp [dStat, hdraws mc hmc]
  unfold resampledMagnitudeTestOut
  rw [if_neg hne]
  unfold resampledCore
  simp only [hsum, hdist]
  refine ⟨trivial, ?_, trivial, by simp [quantiles]⟩
  congr 2
  apply csd_zero
  · intro a ha
    simp only [logHist, List.mem_map] at ha
    obtain ⟨c, hc, rfl⟩ := ha
    simp [hobs c hc, log10]
  · intro a ha
    simp only [logHist, List.mem_map] at ha
    obtain ⟨c, _, rfl⟩ := ha
    simp [log10]

-- non-vacuity: one cell, one bin, one synthetic catalog with an event, an observation of one event below the first edge
example : (magnitudeTestOut (α := ℝ) 1 1 [[[1]]] [[0]] 1).status = .normal ∧
    ∃ n, n ≠ 0 ∧ (magnitudeTestOut (α := ℝ) 1 1 [[[1]]] [[0]] 1).quantile = .pair (some (n, n)) (some (n, n)) := by
  have hU : isZero (α := ℝ) (RealOps.sum (magRates 1 (meanRates 1 1 [[[1]]]))) = false := by
    simp [isZero, magRates, meanRates, sumEntry, entry, real_sum, List.range_succ]
  apply finding_A_reports_perfect_score 1 1 _ _ 1 (by decide) (by decide) hU
  unfold magnitudeTestOut magnitudeCore
  rw [if_neg (by decide)]
  simp only [hU, Bool.false_eq_true, if_false]
  simp [dStat, magCounts, List.range_succ]

/-! ## candidate B: mean rates cached before the catalogs were changed -/

/-- what the spatial test returns on a forecast object whose cache holds the mean rates of the OLD catalogs while it now
    holds NEW ones: the old rates combined with the new catalogs -/
theorem stale_cache_result (lg : ℝ → ℝ) (C K : Nat) (old new : List Grid) (obs : Grid) :
    (evalStep lg C K { sims := new, cache := some (meanRates C K old) } .spatial obs).2 =
      .result (spatialTestWith (meanRates C K old) C new obs) := rfl

/-- such an object violates the invariant under which `session_history_free` holds -/
theorem stale_cache_not_coherent :
    ¬ Coherent 1 1 { sims := [[[0]]], cache := some (meanRates 1 1 [[[1]]]) } := by
  intro h
  rcases h with h | h
  · cases h
  · simp [meanRates, sumEntry, entry] at h

end CatEvals
