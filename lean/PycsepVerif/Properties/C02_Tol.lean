import PycsepVerif.Properties.C02_Float
import PycsepVerif.Model.Bin1dCalls

/-!
# C02 — the `tol=` override and integer points on float64 edges: which band results

`quot_upper` (Proofs/Bin1dUpper.lean) is generic in the absolute point tolerance `pt` that enters the numerator. Here the float
formula is instantiated at `pt = fl64(tol)` (the `tol=` argument of `bin1d_vec`, used by `get_magnitude_index(mags, tol)` and
`magnitude_counts(tol=)`) and at `pt = 0` (int64 points: `_get_tolerance` returns the Python int 0), float64 edges, both modes.
-/
namespace Bin1d
open Soft64

/-- the float quotient of calc.py:116 with an arbitrary absolute point tolerance `pt` (float64 points and edges) -/
def qG (pt : ℚ) (n : ℕ) (edge : ℕ → ℚ) (p : ℚ) : ℚ :=
  fl64 (fl64 (fl64 (fl64 (p - edge 0) + pt) + getTol .f64 (edge 0)) / fl64 (hOf .f64 n edge - getTol .f64 (edge 0)))

/-- float64 points and edges with the `tol=` override -/
def cfgTol (t : ℚ) (rc : Bool) : Cfg := { pd := .f64, bd := .f64, tol := some t, rc := rc }
/-- int64 points on float64 edges, default tolerance -/
def cfgIntPts (rc : Bool) : Cfg := { pd := .i64, bd := .f64, tol := none, rc := rc }

theorem quotF_cfgTol (t : ℚ) (ht : t ≠ 0) (rc : Bool) {n : ℕ} (hn : 1 < n) (edge : ℕ → ℚ) (p : ℚ) :
    quotF (cfgTol t rc) n edge p = (DT.f64, qG (fl64 t) n edge p) := by
  have h1 : (n == 1) = false := by simp; omega
  simp [quotF, cfgTol, qG, DT.promote, DT.rnd, getTol, DT.eps, denOf, hOf, h1, ht]

theorem quotF_cfgIntPts (rc : Bool) {n : ℕ} (hn : 1 < n) (edge : ℕ → ℚ) (p : ℚ) :
    quotF (cfgIntPts rc) n edge p = (DT.f64, qG 0 n edge p) := by
  have h1 : (n == 1) = false := by simp; omega
  simp [quotF, cfgIntPts, qG, DT.promote, DT.rnd, getTol, DT.eps, denOf, hOf, h1]

/-- integer form of `bin1d_vec` for every configuration with float64 edges whose quotient is computed in float64 -/
theorem bin1dCore_gen (c : Cfg) (hbd : c.bd = .f64) {n : ℕ} (hn : 1 < n) (hn53 : (n : ℤ) ≤ 2 ^ 53) (edge : ℕ → ℚ) (p q : ℚ)
    (hq : quotF c n edge p = (DT.f64, q)) :
    bin1dCore c n edge p = clampInt c.rc n (corrInt n edge (topOf .f64 n edge) p ⌊q⌋) := by
  unfold bin1dCore
  rw [← clampIdx_int, ← corrRat_int hn53]
  unfold corrIdx
  rw [hq]
  simp only [hn, if_true, ffloor, rfloor_eq, DT.rnd, hbd]

/-- **the band of a general point tolerance.** Float64 edges (first and last edge floats, float step ≥ 2^-1021, `|a0|ε ≤ h/4`), a
float64 point, any configuration whose quotient is `qG pt` with a float `pt ≥ 0`: if the result is a bin `r ≥ 0`, then the point
has reached the REAL edge `bins[r]`, or it lies at most `formulaBand (|a0|ε) pt h r = (1+13u)((r+1)|a0|ε + pt) + 6u·r·h + 2^-1073·h`
below the regular position `a0 + r·h` of that edge. (Nothing further below can be lifted into bin r.) -/
theorem bin1dF_gen_upper (c : Cfg) (hbd : c.bd = .f64) (bins : List ℚ) (hn : 1 < bins.length) (hn53 : (bins.length : ℤ) ≤ 2 ^ 53)
    (p pt : ℚ) (hq : quotF c bins.length (fun k => bins.getD k 0) p = (DT.f64, qG pt bins.length (fun k => bins.getD k 0) p))
    (ha0 : fl64 (bins.getD 0 0) = bins.getD 0 0) (hlast : fl64 (bins.getD (bins.length - 1) 0) = bins.getD (bins.length - 1) 0)
    (hpF : fl64 p = p) (hptF : fl64 pt = pt) (hpt0 : 0 ≤ pt)
    (hh : pow2 (-1021) ≤ step64 bins) (hat : atol64 bins ≤ step64 bins / 4)
    (hr0 : 0 ≤ bin1dF c bins p) :
    bins.getD (bin1dF c bins p).toNat 0 ≤ p ∨
    bins.getD 0 0 + ((bin1dF c bins p : ℤ) : ℚ) * step64 bins - formulaBand (atol64 bins) pt (step64 bins) ((bin1dF c bins p : ℤ) : ℚ) ≤ p := by
  have hcore : bin1dF c bins p = clampInt c.rc bins.length (corrInt bins.length (fun k => bins.getD k 0) (top64 bins) p
      ⌊qG pt bins.length (fun k => bins.getD k 0) p⌋) := by
    unfold bin1dF
    exact bin1dCore_gen c hbd hn hn53 _ p _ hq
  rw [hcore] at hr0 ⊢
  obtain ⟨hi0, hc⟩ := result_nonneg_cases hn c.rc (fun k => bins.getD k 0) (top64 bins) p _ hr0
  rcases hc with hc | ⟨hc, _, hc2⟩ | ⟨hc, hc1⟩
  · right
    have hq' : ((clampInt c.rc bins.length (corrInt bins.length (fun k => bins.getD k 0) (top64 bins) p
        ⌊qG pt bins.length (fun k => bins.getD k 0) p⌋) : ℤ) : ℚ) ≤ qG pt bins.length (fun k => bins.getD k 0) p :=
      le_trans (by exact_mod_cast hc) (Int.floor_le _)
    exact quot_upper hr0 ha0 hpF (hOf_float hn _) (getTol_float _) hptF (getTol_f64_nonneg _) hpt0 hh hat hq'
  · left
    rw [hc]; exact hc2
  · left
    rw [hc]
    have hhpos : 0 ≤ step64 bins := le_trans (Soft64R.pow2_pos _).le hh
    have := top_ge_last (fun j => bins.getD j 0) hlast hhpos
    have e : ((bins.length : ℤ) - 1).toNat = bins.length - 1 := by omega
    rw [e]
    exact le_trans this hc1

/-- **`tol=` override** (float64 points and edges, `tol = t > 0` a float64): a value is placed in bin r ≥ 0 only if it has
reached the real edge r or lies within `formulaBand (|a0|ε) t h r` — the documented band with the point tolerance `|p|ε` replaced
by `t` — below the regular position of that edge. This is what `get_magnitude_index(mags, tol)` and `magnitude_counts(tol=)` inherit. -/
theorem bin1dF_tol_upper (t : ℚ) (ht : 0 < t) (htF : fl64 t = t) (rc : Bool) (bins : List ℚ) (hn : 1 < bins.length)
    (hn53 : (bins.length : ℤ) ≤ 2 ^ 53) (p : ℚ)
    (ha0 : fl64 (bins.getD 0 0) = bins.getD 0 0) (hlast : fl64 (bins.getD (bins.length - 1) 0) = bins.getD (bins.length - 1) 0)
    (hpF : fl64 p = p) (hh : pow2 (-1021) ≤ step64 bins) (hat : atol64 bins ≤ step64 bins / 4)
    (hr0 : 0 ≤ bin1dF (cfgTol t rc) bins p) :
    bins.getD (bin1dF (cfgTol t rc) bins p).toNat 0 ≤ p ∨
    bins.getD 0 0 + ((bin1dF (cfgTol t rc) bins p : ℤ) : ℚ) * step64 bins
      - formulaBand (atol64 bins) t (step64 bins) ((bin1dF (cfgTol t rc) bins p : ℤ) : ℚ) ≤ p := by
  have hq := quotF_cfgTol t (ne_of_gt ht) rc hn (fun k => bins.getD k 0) p
  rw [htF] at hq
  exact bin1dF_gen_upper (cfgTol t rc) rfl bins hn hn53 p t hq ha0 hlast hpF htF ht.le hh hat hr0

/-- **integer points on float64 edges**: no point tolerance enters; an integer is placed in bin r ≥ 0 only if it has reached the
real edge r or lies within `(1+13u)(r+1)|a0|ε + 6u·r·h + 2^-1073·h` below its regular position -/
theorem bin1dF_intpts_upper (rc : Bool) (bins : List ℚ) (hn : 1 < bins.length) (hn53 : (bins.length : ℤ) ≤ 2 ^ 53) (p : ℤ)
    (hp : |p| ≤ 2 ^ 53)
    (ha0 : fl64 (bins.getD 0 0) = bins.getD 0 0) (hlast : fl64 (bins.getD (bins.length - 1) 0) = bins.getD (bins.length - 1) 0)
    (hh : pow2 (-1021) ≤ step64 bins) (hat : atol64 bins ≤ step64 bins / 4)
    (hr0 : 0 ≤ bin1dF (cfgIntPts rc) bins (p : ℚ)) :
    bins.getD (bin1dF (cfgIntPts rc) bins (p : ℚ)).toNat 0 ≤ (p : ℚ) ∨
    bins.getD 0 0 + ((bin1dF (cfgIntPts rc) bins (p : ℚ) : ℤ) : ℚ) * step64 bins
      - formulaBand (atol64 bins) 0 (step64 bins) ((bin1dF (cfgIntPts rc) bins (p : ℚ) : ℤ) : ℚ) ≤ (p : ℚ) :=
  bin1dF_gen_upper (cfgIntPts rc) rfl bins hn hn53 (p : ℚ) 0 (quotF_cfgIntPts rc hn _ _) ha0 hlast (Soft64R.fl64_intCast hp)
    Soft64R.fl64_zero le_rfl hh hat hr0

/-- the magnitude call sites with `tol=t` (`get_magnitude_index(mags, tol)`, `magnitude_counts(tol=)`) run exactly this configuration -/
theorem magCfg_tol_eq (t : ℚ) : magCfg .f64 .f64 (some t) = cfgTol t true := rfl

/-! ### non-vacuity: the witness grid 5.9, 33.2, 60.5, … with `tol = 2^-17 ≈ 7.6e-6` -/
-- 2^-18 below the edge 33.2 (inside the overridden tolerance) the value is lifted into bin 1; 2^-15 below it stays in bin 0
example : bin1dF (cfgTol (1 / 131072) true) witnessBins (2336242306698445 / 70368744177664 - 1 / 262144) = 1 ∧
    bin1dF (cfgTol (1 / 131072) true) witnessBins (2336242306698445 / 70368744177664 - 1 / 32768) = 0 ∧
    fl64 (2336242306698445 / 70368744177664 - 1 / 262144 : ℚ) = 2336242306698445 / 70368744177664 - 1 / 262144 ∧
    fl64 (1 / 131072 : ℚ) = 1 / 131072 := by decide +kernel
-- the hypotheses on the grid
example : pow2 (-1021) ≤ step64 witnessBins ∧ atol64 witnessBins ≤ step64 witnessBins / 4 := by decide +kernel
-- integers on the float grid 5.9, 33.2, …: 33 is in bin 0, 34 in bin 1
example : bin1dF (cfgIntPts false) witnessBins 33 = 0 ∧ bin1dF (cfgIntPts false) witnessBins 34 = 1 := by decide +kernel

/-! ## the lower side for a general point tolerance (round 4): a value at or above an edge may not go below it

`qF_lower` / `qF_nonneg` (Proofs/Bin1d.lean) use of the point tolerance only that it is non-negative; here they are restated for
`qG pt` and `bin1dF_never_below` is proved for EVERY configuration with float64 edges whose quotient is `qG pt`, `pt ≥ 0` — in
particular the `tol=` override (`get_magnitude_index(mags, tol)`, `magnitude_counts(tol=)`) and integer points on float edges,
which until now had the upper band by theorem but the lower side only by oracle + correspondence. -/

/-- lower bound on the float quotient with point tolerance `pt ≥ 0`: if `p` lies at least `(K − 1/4)·h` above `a0`, the
quotient is at least `K − 1` -/
theorem qG_lower {n : ℕ} (hn : 1 < n) (edge : ℕ → ℚ) (p pt : ℚ) (hpt0 : 0 ≤ pt) (K : ℤ) (hK1 : 1 ≤ K) (hK : K ≤ 2 ^ 40)
    (hh : pow2 (-1021) ≤ hOf .f64 n edge)
    (hat : getTol .f64 (edge 0) ≤ hOf .f64 n edge / 4)
    (hp : edge 0 + ((K : ℚ) - 1 / 4) * hOf .f64 n edge ≤ p) :
    ((K - 1 : ℤ) : ℚ) ≤ qG pt n edge p := by
  have hn1 : (n == 1) = false := by simp; omega
  set h := hOf .f64 n edge with hh_def
  set at_ := getTol .f64 (edge 0) with hat_def
  have hhpos : 0 < h := lt_of_lt_of_le (Soft64R.pow2_pos _) hh
  have hat0 : 0 ≤ at_ := getTol_f64_nonneg _
  have hidem : fl64 h = h := by
    rw [hh_def]; unfold hOf; simp only [hn1, DT.rnd]; exact Soft64R.fl64_idem _
  have hKq : (1 : ℚ) ≤ (K : ℚ) := by exact_mod_cast hK1
  have hKq2 : (K : ℚ) ≤ 2 ^ 40 := by exact_mod_cast hK
  have hx : ((K : ℚ) - 1 / 4) * h ≤ p - edge 0 := by linarith
  have hx34 : 3 / 4 * h ≤ p - edge 0 := by nlinarith
  have hxpos : 0 < p - edge 0 := by linarith
  have h1022 : pow2 (-1022) ≤ 3 / 4 * h := by
    have : pow2 (-1021) = 2 * pow2 (-1022) := by
      have := Soft64R.pow2_succ (-1022); simpa using this
    have := Soft64R.pow2_pos (-1022)
    linarith
  have hrel := Soft64R.fl64_rel_err (x := p - edge 0) (by rw [abs_of_pos hxpos]; linarith)
  rw [abs_of_pos hxpos, pow2_m53] at hrel
  have ht1 : (p - edge 0) * (1 - 1 / 2 ^ 53) ≤ fl64 (p - edge 0) := by
    have := (abs_le.mp hrel).1; linarith
  set t1 := fl64 (p - edge 0) with ht1_def
  have ht1pos : 0 ≤ t1 := Soft64R.fl64_nonneg hxpos.le
  have ht2 : t1 ≤ fl64 (t1 + pt) :=
    Soft64R.fl64_ge_of_ge_float (Soft64R.fl64_idem _) (by linarith)
  set t2 := fl64 (t1 + pt) with ht2_def
  have hidem2 : fl64 t2 = t2 := Soft64R.fl64_idem _
  have ht3 : t2 ≤ fl64 (t2 + at_) := Soft64R.fl64_ge_of_ge_float hidem2 (by linarith)
  set t3 := fl64 (t2 + at_) with ht3_def
  have hden_le : fl64 (h - at_) ≤ h := Soft64R.fl64_le_of_le_float hidem (by linarith)
  have hden_pos : 0 < fl64 (h - at_) := by
    have hf : fl64 (pow2 (-1022)) = pow2 (-1022) := by
      have := Soft64R.fl64_exact (m := 1) (j := -1022) (by norm_num) (by norm_num)
      simpa using this
    have : pow2 (-1022) ≤ fl64 (h - at_) := Soft64R.fl64_ge_of_ge_float hf (by linarith)
    exact lt_of_lt_of_le (Soft64R.pow2_pos _) this
  have hqG : qG pt n edge p = fl64 (t3 / fl64 (h - at_)) := rfl
  rw [hqG]
  apply Soft64R.fl64_ge_of_ge_float
  · exact Soft64R.fl64_intCast (by rw [abs_of_nonneg (by omega)]; omega)
  · have ht3pos : 0 ≤ t3 := by linarith
    have h3 : t3 / h ≤ t3 / fl64 (h - at_) := div_le_div_of_nonneg_left ht3pos hden_pos hden_le
    have h4 : ((K : ℚ) - 1 / 4) * (1 - 1 / 2 ^ 53) ≤ t3 / h := by
      rw [le_div_iff₀ hhpos]
      have : ((K : ℚ) - 1 / 4) * h * (1 - 1 / 2 ^ 53) ≤ t1 := by
        have : (0 : ℚ) ≤ 1 - 1 / 2 ^ 53 := by norm_num
        nlinarith
      nlinarith
    have h5 : ((K - 1 : ℤ) : ℚ) ≤ ((K : ℚ) - 1 / 4) * (1 - 1 / 2 ^ 53) := by
      push_cast
      nlinarith
    linarith

/-- the float quotient with point tolerance `pt ≥ 0` is non-negative at or above the first edge -/
theorem qG_nonneg {n : ℕ} (edge : ℕ → ℚ) (p pt : ℚ) (hpt0 : 0 ≤ pt)
    (hh : pow2 (-1021) ≤ hOf .f64 n edge)
    (hat : getTol .f64 (edge 0) ≤ hOf .f64 n edge / 4)
    (hp : edge 0 ≤ p) : 0 ≤ qG pt n edge p := by
  have hat0 : 0 ≤ getTol .f64 (edge 0) := getTol_f64_nonneg _
  have hden_pos : 0 < fl64 (hOf .f64 n edge - getTol .f64 (edge 0)) := by
    have hf : fl64 (pow2 (-1022)) = pow2 (-1022) := by
      have := Soft64R.fl64_exact (m := 1) (j := -1022) (by norm_num) (by norm_num)
      simpa using this
    have h2 : pow2 (-1021) = 2 * pow2 (-1022) := by
      have := Soft64R.pow2_succ (-1022); simpa using this
    have := Soft64R.pow2_pos (-1022)
    have : pow2 (-1022) ≤ fl64 (hOf .f64 n edge - getTol .f64 (edge 0)) :=
      Soft64R.fl64_ge_of_ge_float hf (by linarith)
    exact lt_of_lt_of_le (Soft64R.pow2_pos _) this
  unfold qG
  apply Soft64R.fl64_nonneg
  apply div_nonneg _ hden_pos.le
  apply Soft64R.fl64_nonneg
  have : 0 ≤ fl64 (fl64 (p - edge 0) + pt) := by
    apply Soft64R.fl64_nonneg
    have := Soft64R.fl64_nonneg (x := p - edge 0) (by linarith)
    linarith
  linarith

/-- **C02 "a value at or above an edge may not go below it", for every point tolerance.** Float64 edges: strictly increasing,
2 ≤ n ≤ 2^40, float step `h ≥ 2^-1021`, `|a0|ε ≤ h/4`, every edge at most h/4 below its regular position; any configuration whose
quotient is `qG pt` with `pt ≥ 0`. Then the result is never below the ideal bin (largest k with `bins[k] ≤ p`); the only other
outcome is −1 in closed mode when `p` has reached `bins[-1]+h` or the floor formula itself has reached n. -/
theorem bin1dF_gen_never_below (c : Cfg) (hbd : c.bd = .f64) (bins : List ℚ) (p pt : ℚ) (hpt0 : 0 ≤ pt) (hn : 1 < bins.length)
    (hq : quotF c bins.length (fun k => bins.getD k 0) p = (DT.f64, qG pt bins.length (fun k => bins.getD k 0) p))
    (hn40 : (bins.length : ℤ) ≤ 2 ^ 40) (hs : bins.Pairwise (· < ·))
    (hh : pow2 (-1021) ≤ hOf .f64 bins.length (fun j => bins.getD j 0))
    (hat : getTol .f64 (bins.getD 0 0) ≤ hOf .f64 bins.length (fun j => bins.getD j 0) / 4)
    (hreg : ∀ j : ℕ, j < bins.length →
      bins.getD 0 0 + ((j : ℚ) - 1 / 4) * hOf .f64 bins.length (fun j => bins.getD j 0) ≤ bins.getD j 0) :
    binIdeal bins p ≤ bin1dF c bins p ∨
      (c.rc = false ∧ bin1dF c bins p = -1 ∧
        (topOf .f64 bins.length (fun j => bins.getD j 0) ≤ p ∨
          (bins.length : ℤ) ≤ ⌊qG pt bins.length (fun j => bins.getD j 0) p⌋)) := by
  have hb : bins ≠ [] := by intro h; simp [h] at hn
  have hrange := bin1dF_range c bins hb p
  have hKr := binIdeal_range bins p
  by_cases hK0 : binIdeal bins p < 0
  · left; omega
  have hK0' : 0 ≤ binIdeal bins p := by omega
  obtain ⟨K, hKeq⟩ := Int.eq_ofNat_of_zero_le hK0'
  have hKlt : K < bins.length := by omega
  have hedge : bins[K] ≤ p := ((binIdeal_eq_iff hs p hKlt).1 hKeq).1
  have hgetD : bins.getD K 0 = bins[K] := by simp [List.getD, hKlt]
  set edge := (fun j => bins.getD j 0) with hedge_def
  set n := bins.length with hn_def
  have hi : (K : ℤ) - 1 ≤ ⌊qG pt n edge p⌋ ∧ 0 ≤ ⌊qG pt n edge p⌋ := by
    have h0 : edge 0 ≤ p := by
      have h00 : edge 0 ≤ edge K := by
        rcases Nat.eq_zero_or_pos K with hz | hpos
        · rw [hz]
        · have h0lt : 0 < bins.length := by omega
          have : bins[0] < bins[K] := List.pairwise_iff_getElem.mp hs 0 K h0lt hKlt hpos
          have e0 : edge 0 = bins[0] := by simp [hedge_def, List.getD, h0lt]
          have eK : edge K = bins[K] := hgetD
          rw [e0, eK]; exact this.le
      have eK : edge K = bins[K] := hgetD
      linarith
    have hnn : 0 ≤ ⌊qG pt n edge p⌋ := Int.floor_nonneg.mpr (qG_nonneg edge p pt hpt0 hh hat h0)
    refine ⟨?_, hnn⟩
    rcases Nat.eq_zero_or_pos K with hz | hpos
    · subst hz; push_cast; omega
    · have := qG_lower hn edge p pt hpt0 (K : ℤ) (by omega) (by omega) hh hat (by
        have := hreg K hKlt
        have eK : edge K = bins[K] := hgetD
        simp only [Int.cast_natCast]
        change edge 0 + ((K : ℚ) - 1 / 4) * hOf .f64 n edge ≤ p
        have : edge 0 + ((K : ℚ) - 1 / 4) * hOf .f64 n edge ≤ edge K := this
        linarith)
      exact Int.le_floor.mpr this
  have hcorr : (K : ℤ) ≤ corrInt n edge (topOf .f64 n edge) p ⌊qG pt n edge p⌋ := by
    by_cases hik : ⌊qG pt n edge p⌋ = (K : ℤ) - 1
    · have h1 : ⌊qG pt n edge p⌋ + 1 < (n : ℤ) := by omega
      have h2 : edge (⌊qG pt n edge p⌋ + 1).toNat ≤ p := by
        have : (⌊qG pt n edge p⌋ + 1).toNat = K := by omega
        rw [this]
        have eK : edge K = bins[K] := hgetD
        rw [eK]; exact hedge
      have := corrInt_hit (n := n) edge (topOf .f64 n edge) p hi.2 h1 h2
      omega
    · have := corrInt_ge n edge (topOf .f64 n edge) p ⌊qG pt n edge p⌋
      omega
  have hcore : bin1dF c bins p
      = clampInt c.rc n (corrInt n edge (topOf .f64 n edge) p ⌊qG pt n edge p⌋) := by
    unfold bin1dF
    exact bin1dCore_gen c hbd hn (by omega) edge p _ hq
  rw [hcore, hKeq]
  cases hrc : c.rc with
  | true => left; exact clampInt_open_ge hcorr (by omega)
  | false =>
    rcases clampInt_closed_ge hn hcorr (by omega) with h | ⟨h1, h2⟩
    · left; exact h
    · right; exact ⟨rfl, h1, corrInt_ge_n _ _ _ h2⟩

/-- **`tol=` override, lower side**: with `tol = t > 0` (`get_magnitude_index(mags, tol)`, `magnitude_counts(tol=)`,
`bin1d_vec(…, tol=t)`) a value at or above an edge never goes below that edge's bin -/
theorem bin1dF_tol_never_below (t : ℚ) (ht : 0 < t) (rc : Bool) (bins : List ℚ) (p : ℚ) (hn : 1 < bins.length)
    (hn40 : (bins.length : ℤ) ≤ 2 ^ 40) (hs : bins.Pairwise (· < ·))
    (hh : pow2 (-1021) ≤ hOf .f64 bins.length (fun j => bins.getD j 0))
    (hat : getTol .f64 (bins.getD 0 0) ≤ hOf .f64 bins.length (fun j => bins.getD j 0) / 4)
    (hreg : ∀ j : ℕ, j < bins.length →
      bins.getD 0 0 + ((j : ℚ) - 1 / 4) * hOf .f64 bins.length (fun j => bins.getD j 0) ≤ bins.getD j 0) :
    binIdeal bins p ≤ bin1dF (cfgTol t rc) bins p ∨
      (rc = false ∧ bin1dF (cfgTol t rc) bins p = -1 ∧
        (topOf .f64 bins.length (fun j => bins.getD j 0) ≤ p ∨
          (bins.length : ℤ) ≤ ⌊qG (fl64 t) bins.length (fun j => bins.getD j 0) p⌋)) :=
  bin1dF_gen_never_below (cfgTol t rc) rfl bins p (fl64 t) (Soft64R.fl64_nonneg ht.le) hn
    (quotF_cfgTol t (ne_of_gt ht) rc hn _ p) hn40 hs hh hat hreg

/-- **integer points on float64 edges, lower side** -/
theorem bin1dF_intpts_never_below (rc : Bool) (bins : List ℚ) (p : ℚ) (hn : 1 < bins.length)
    (hn40 : (bins.length : ℤ) ≤ 2 ^ 40) (hs : bins.Pairwise (· < ·))
    (hh : pow2 (-1021) ≤ hOf .f64 bins.length (fun j => bins.getD j 0))
    (hat : getTol .f64 (bins.getD 0 0) ≤ hOf .f64 bins.length (fun j => bins.getD j 0) / 4)
    (hreg : ∀ j : ℕ, j < bins.length →
      bins.getD 0 0 + ((j : ℚ) - 1 / 4) * hOf .f64 bins.length (fun j => bins.getD j 0) ≤ bins.getD j 0) :
    binIdeal bins p ≤ bin1dF (cfgIntPts rc) bins p ∨
      (rc = false ∧ bin1dF (cfgIntPts rc) bins p = -1 ∧
        (topOf .f64 bins.length (fun j => bins.getD j 0) ≤ p ∨
          (bins.length : ℤ) ≤ ⌊qG 0 bins.length (fun j => bins.getD j 0) p⌋)) :=
  bin1dF_gen_never_below (cfgIntPts rc) rfl bins p 0 le_rfl hn (quotF_cfgIntPts rc hn _ p) hn40 hs hh hat hreg

/-- hence the magnitude call sites with `tol=`: an event magnitude at or above a bin edge is never counted below that bin
(open-ended mode: no exception) -/
theorem magCfg_tol_never_below (t : ℚ) (ht : 0 < t) (bins : List ℚ) (p : ℚ) (hn : 1 < bins.length)
    (hn40 : (bins.length : ℤ) ≤ 2 ^ 40) (hs : bins.Pairwise (· < ·))
    (hh : pow2 (-1021) ≤ hOf .f64 bins.length (fun j => bins.getD j 0))
    (hat : getTol .f64 (bins.getD 0 0) ≤ hOf .f64 bins.length (fun j => bins.getD j 0) / 4)
    (hreg : ∀ j : ℕ, j < bins.length →
      bins.getD 0 0 + ((j : ℚ) - 1 / 4) * hOf .f64 bins.length (fun j => bins.getD j 0) ≤ bins.getD j 0) :
    binIdeal bins p ≤ bin1dF (magCfg .f64 .f64 (some t)) bins p := by
  rw [magCfg_tol_eq]
  rcases bin1dF_tol_never_below t ht true bins p hn hn40 hs hh hat hreg with h | ⟨h, _⟩
  · exact h
  · exact absurd h (by simp)

-- non-vacuity: the witness grid 5.9, 33.2, … satisfies the hypotheses (kernel evaluation); with `tol = 2^-17` the edge 87.8 itself
-- (the value that used to land one bin low, D2) is placed in bin 3, and the integer 88 too
example : (witnessBins.length : ℤ) ≤ 2 ^ 40 ∧ pow2 (-1021) ≤ hOf .f64 witnessBins.length (fun j => witnessBins.getD j 0) ∧
    getTol .f64 (witnessBins.getD 0 0) ≤ hOf .f64 witnessBins.length (fun j => witnessBins.getD j 0) / 4 := by decide +kernel
example : witnessBins.Pairwise (· < ·) := by unfold witnessBins; decide +kernel
example : ∀ j : ℕ, j < witnessBins.length →
    witnessBins.getD 0 0 + ((j : ℚ) - 1 / 4) * hOf .f64 witnessBins.length (fun j => witnessBins.getD j 0) ≤ witnessBins.getD j 0 := by
  decide +kernel
example : bin1dF (cfgTol (1 / 131072) false) witnessBins (6178375738798899 / 70368744177664) = 3 ∧
    bin1dF (cfgIntPts false) witnessBins 88 = 3 ∧ binIdeal witnessBins 88 = 3 := by decide +kernel

end Bin1d
