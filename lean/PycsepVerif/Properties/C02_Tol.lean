import PycsepVerif.Properties.C02_Float
import PycsepVerif.Model.Bin1dCalls

/-!
# C02 — the `tol=` override and integer points on float64 edges: which band results

`quot_upper` (Proofs/Bin1dUpper.lean) is generic in the absolute point tolerance `pt` that enters the numerator. Here the float
formula is instantiated at `pt = fl64(tol)` (the `tol=` argument of `bin1d_vec`, used by `get_magnitude_index(mags, tol)` and
`magnitude_counts(tol=)`) and at `pt = 0` (int64 points: `_get_tolerance` returns the Python int 0), float64 edges, both modes.
-/
namespace Bin1d
open Soft64

/-- the float quotient of calc.py:116 with an arbitrary absolute point tolerance `pt` (float64 points and edges) -/
def qG (pt : ℚ) (n : ℕ) (edge : ℕ → ℚ) (p : ℚ) : ℚ :=
  fl64 (fl64 (fl64 (fl64 (p - edge 0) + pt) + getTol .f64 (edge 0)) / fl64 (hOf .f64 n edge - getTol .f64 (edge 0)))

/-- float64 points and edges with the `tol=` override -/
def cfgTol (t : ℚ) (rc : Bool) : Cfg := { pd := .f64, bd := .f64, tol := some t, rc := rc }
/-- int64 points on float64 edges, default tolerance -/
def cfgIntPts (rc : Bool) : Cfg := { pd := .i64, bd := .f64, tol := none, rc := rc }

theorem quotF_cfgTol (t : ℚ) (ht : t ≠ 0) (rc : Bool) {n : ℕ} (hn : 1 < n) (edge : ℕ → ℚ) (p : ℚ) :
    quotF (cfgTol t rc) n edge p = (DT.f64, qG (fl64 t) n edge p) := by
  have h1 : (n == 1) = false := by simp; omega
  simp [quotF, cfgTol, qG, DT.promote, DT.rnd, getTol, DT.eps, denOf, hOf, h1, ht]

theorem quotF_cfgIntPts (rc : Bool) {n : ℕ} (hn : 1 < n) (edge : ℕ → ℚ) (p : ℚ) :
    quotF (cfgIntPts rc) n edge p = (DT.f64, qG 0 n edge p) := by
  have h1 : (n == 1) = false := by simp; omega
  simp [quotF, cfgIntPts, qG, DT.promote, DT.rnd, getTol, DT.eps, denOf, hOf, h1]

/-- integer form of `bin1d_vec` for every configuration with float64 edges whose quotient is computed in float64 -/
theorem bin1dCore_gen (c : Cfg) (hbd : c.bd = .f64) {n : ℕ} (hn : 1 < n) (hn53 : (n : ℤ) ≤ 2 ^ 53) (edge : ℕ → ℚ) (p q : ℚ)
    (hq : quotF c n edge p = (DT.f64, q)) :
    bin1dCore c n edge p = clampInt c.rc n (corrInt n edge (topOf .f64 n edge) p ⌊q⌋) := by
  unfold bin1dCore
  rw [← clampIdx_int, ← corrRat_int hn53]
  unfold corrIdx
  rw [hq]
  simp only [hn, if_true, ffloor, rfloor_eq, DT.rnd, hbd]

/-- **the band of a general point tolerance.** Float64 edges (first and last edge floats, float step ≥ 2^-1021, `|a0|ε ≤ h/4`), a
float64 point, any configuration whose quotient is `qG pt` with a float `pt ≥ 0`: if the result is a bin `r ≥ 0`, then the point
has reached the REAL edge `bins[r]`, or it lies at most `formulaBand (|a0|ε) pt h r = (1+13u)((r+1)|a0|ε + pt) + 6u·r·h + 2^-1073·h`
below the regular position `a0 + r·h` of that edge. (Nothing further below can be lifted into bin r.) -/
theorem bin1dF_gen_upper (c : Cfg) (hbd : c.bd = .f64) (bins : List ℚ) (hn : 1 < bins.length) (hn53 : (bins.length : ℤ) ≤ 2 ^ 53)
    (p pt : ℚ) (hq : quotF c bins.length (fun k => bins.getD k 0) p = (DT.f64, qG pt bins.length (fun k => bins.getD k 0) p))
    (ha0 : fl64 (bins.getD 0 0) = bins.getD 0 0) (hlast : fl64 (bins.getD (bins.length - 1) 0) = bins.getD (bins.length - 1) 0)
    (hpF : fl64 p = p) (hptF : fl64 pt = pt) (hpt0 : 0 ≤ pt)
    (hh : pow2 (-1021) ≤ step64 bins) (hat : atol64 bins ≤ step64 bins / 4)
    (hr0 : 0 ≤ bin1dF c bins p) :
    bins.getD (bin1dF c bins p).toNat 0 ≤ p ∨
    bins.getD 0 0 + ((bin1dF c bins p : ℤ) : ℚ) * step64 bins - formulaBand (atol64 bins) pt (step64 bins) ((bin1dF c bins p : ℤ) : ℚ) ≤ p := by
  have hcore : bin1dF c bins p = clampInt c.rc bins.length (corrInt bins.length (fun k => bins.getD k 0) (top64 bins) p
      ⌊qG pt bins.length (fun k => bins.getD k 0) p⌋) := by
    unfold bin1dF
    exact bin1dCore_gen c hbd hn hn53 _ p _ hq
  rw [hcore] at hr0 ⊢
  obtain ⟨hi0, hc⟩ := result_nonneg_cases hn c.rc (fun k => bins.getD k 0) (top64 bins) p _ hr0
  rcases hc with hc | ⟨hc, _, hc2⟩ | ⟨hc, hc1⟩
  · right
    have hq' : ((clampInt c.rc bins.length (corrInt bins.length (fun k => bins.getD k 0) (top64 bins) p
        ⌊qG pt bins.length (fun k => bins.getD k 0) p⌋) : ℤ) : ℚ) ≤ qG pt bins.length (fun k => bins.getD k 0) p :=
      le_trans (by exact_mod_cast hc) (Int.floor_le _)
    exact quot_upper hr0 ha0 hpF (hOf_float hn _) (getTol_float _) hptF (getTol_f64_nonneg _) hpt0 hh hat hq'
  · left
    rw [hc]; exact hc2
  · left
    rw [hc]
    have hhpos : 0 ≤ step64 bins := le_trans (Soft64R.pow2_pos _).le hh
    have := top_ge_last (fun j => bins.getD j 0) hlast hhpos
    have e : ((bins.length : ℤ) - 1).toNat = bins.length - 1 := by omega
    rw [e]
    exact le_trans this hc1

/-- **`tol=` override** (float64 points and edges, `tol = t > 0` a float64): a value is placed in bin r ≥ 0 only if it has
reached the real edge r or lies within `formulaBand (|a0|ε) t h r` — the documented band with the point tolerance `|p|ε` replaced
by `t` — below the regular position of that edge. This is what `get_magnitude_index(mags, tol)` and `magnitude_counts(tol=)` inherit. -/
theorem bin1dF_tol_upper (t : ℚ) (ht : 0 < t) (htF : fl64 t = t) (rc : Bool) (bins : List ℚ) (hn : 1 < bins.length)
    (hn53 : (bins.length : ℤ) ≤ 2 ^ 53) (p : ℚ)
    (ha0 : fl64 (bins.getD 0 0) = bins.getD 0 0) (hlast : fl64 (bins.getD (bins.length - 1) 0) = bins.getD (bins.length - 1) 0)
    (hpF : fl64 p = p) (hh : pow2 (-1021) ≤ step64 bins) (hat : atol64 bins ≤ step64 bins / 4)
    (hr0 : 0 ≤ bin1dF (cfgTol t rc) bins p) :
    bins.getD (bin1dF (cfgTol t rc) bins p).toNat 0 ≤ p ∨
    bins.getD 0 0 + ((bin1dF (cfgTol t rc) bins p : ℤ) : ℚ) * step64 bins
      - formulaBand (atol64 bins) t (step64 bins) ((bin1dF (cfgTol t rc) bins p : ℤ) : ℚ) ≤ p := by
  have hq := quotF_cfgTol t (ne_of_gt ht) rc hn (fun k => bins.getD k 0) p
  rw [htF] at hq
  exact bin1dF_gen_upper (cfgTol t rc) rfl bins hn hn53 p t hq ha0 hlast hpF htF ht.le hh hat hr0

/-- **integer points on float64 edges**: no point tolerance enters; an integer is placed in bin r ≥ 0 only if it has reached the
real edge r or lies within `(1+13u)(r+1)|a0|ε + 6u·r·h + 2^-1073·h` below its regular position -/
theorem bin1dF_intpts_upper (rc : Bool) (bins : List ℚ) (hn : 1 < bins.length) (hn53 : (bins.length : ℤ) ≤ 2 ^ 53) (p : ℤ)
    (hp : |p| ≤ 2 ^ 53)
    (ha0 : fl64 (bins.getD 0 0) = bins.getD 0 0) (hlast : fl64 (bins.getD (bins.length - 1) 0) = bins.getD (bins.length - 1) 0)
    (hh : pow2 (-1021) ≤ step64 bins) (hat : atol64 bins ≤ step64 bins / 4)
    (hr0 : 0 ≤ bin1dF (cfgIntPts rc) bins (p : ℚ)) :
    bins.getD (bin1dF (cfgIntPts rc) bins (p : ℚ)).toNat 0 ≤ (p : ℚ) ∨
    bins.getD 0 0 + ((bin1dF (cfgIntPts rc) bins (p : ℚ) : ℤ) : ℚ) * step64 bins
      - formulaBand (atol64 bins) 0 (step64 bins) ((bin1dF (cfgIntPts rc) bins (p : ℚ) : ℤ) : ℚ) ≤ (p : ℚ) :=
  bin1dF_gen_upper (cfgIntPts rc) rfl bins hn hn53 (p : ℚ) 0 (quotF_cfgIntPts rc hn _ _) ha0 hlast (Soft64R.fl64_intCast hp)
    Soft64R.fl64_zero le_rfl hh hat hr0

/-- the magnitude call sites with `tol=t` (`get_magnitude_index(mags, tol)`, `magnitude_counts(tol=)`) run exactly this configuration -/
theorem magCfg_tol_eq (t : ℚ) : magCfg .f64 .f64 (some t) = cfgTol t true := rfl

/-! ### non-vacuity: the witness grid 5.9, 33.2, 60.5, … with `tol = 2^-17 ≈ 7.6e-6` -/
-- 2^-18 below the edge 33.2 (inside the overridden tolerance) the value is lifted into bin 1; 2^-15 below it stays in bin 0
example : bin1dF (cfgTol (1 / 131072) true) witnessBins (2336242306698445 / 70368744177664 - 1 / 262144) = 1 ∧
    bin1dF (cfgTol (1 / 131072) true) witnessBins (2336242306698445 / 70368744177664 - 1 / 32768) = 0 ∧
    fl64 (2336242306698445 / 70368744177664 - 1 / 262144 : ℚ) = 2336242306698445 / 70368744177664 - 1 / 262144 ∧
    fl64 (1 / 131072 : ℚ) = 1 / 131072 := by decide +kernel
-- the hypotheses on the grid
example : pow2 (-1021) ≤ step64 witnessBins ∧ atol64 witnessBins ≤ step64 witnessBins / 4 := by decide +kernel
-- integers on the float grid 5.9, 33.2, …: 33 is in bin 0, 34 in bin 1
example : bin1dF (cfgIntPts false) witnessBins 33 = 0 ∧ bin1dF (cfgIntPts false) witnessBins 34 = 1 := by decide +kernel

end Bin1d
