import PycsepVerif.Properties.C06_Chain
import PycsepVerif.Model.SamplerRng

/-!
# C06, round 4 — the seeded tests as functions of (forecast, catalog, seed): the generator inside the model

Until now the uniform numbers were INPUTS of the model (injected, or recorded from numpy), and "every draw is in [0,1)"
was a hypothesis of `simulate_total`, `injected_test_total`, `in_range`. `Model/SamplerRng.lean` is what
`numpy.random.seed / rand / uniform(0,1)` compute (MT19937, 53-bit doubles); here:

* `uniform_unit_interval`, `uniform_is_float64`: EVERY number the generator yields, in every state, is a float64 in
  [0, 1 − 2^-53] — the hypothesis is discharged for the default random path;
* `poisson_test_seeded_total`: for valid rates, every seed and every number of simulations the conditional Poisson test
  returns (no IndexError, no failed assertion), every catalog has the observed number of events, none in a zero-rate bin;
* `binary_test_seeded_spec`, `l_test_seeded_spec`: the same for the rejection loop (when it finishes) and the L-test;
* `seeded_call_ignores_ambient`, `session_deterministic_after_seed`: the result of a seeded call — and of EVERY later call
  of the process, seeded or not — does not depend on the state the global generator was in before.
-/
namespace SamplerRng
open Soft64 Sampler

theorem temper_lt (y : Nat) : temper y < two32 := by
  unfold temper; exact Nat.mod_lt _ (by decide)

theorem next32_lt (st : MT) : (next32 st).1 < two32 := by
  unfold next32; exact temper_lt _

/-- a double of the generator is `m / 2^53` with `m < 2^53` -/
theorem nextDouble_dyadic (st : MT) : ∃ m : Nat, m < 2 ^ 53 ∧ (nextDouble st).1 = (m : Rat) / 9007199254740992 := by
  unfold nextDouble
  simp only
  refine ⟨_, ?_, rfl⟩
  have hx := next32_lt st
  have hy := next32_lt (next32 st).2
  simp only [two32] at hx hy
  have ha : (next32 st).1 >>> 5 < 134217728 := by
    rw [Nat.shiftRight_eq_div_pow]; omega
  have hb : (next32 (next32 st).2).1 >>> 6 < 67108864 := by
    rw [Nat.shiftRight_eq_div_pow]; omega
  omega

/-- **every uniform number is in [0, 1)** — indeed at most 1 − 2^-53, the largest double below 1 -/
theorem uniform_unit_interval (st : MT) :
    0 ≤ (nextDouble st).1 ∧ (nextDouble st).1 < 1 ∧ (nextDouble st).1 ≤ 1 - 1 / 2 ^ 53 := by
  obtain ⟨m, hm, h⟩ := nextDouble_dyadic st
  rw [h]
  have hm' : (m : Rat) ≤ 9007199254740991 := by exact_mod_cast (by omega : m ≤ 9007199254740991)
  refine ⟨by positivity, ?_, ?_⟩
  · rw [div_lt_one (by norm_num)]; linarith
  · rw [div_le_iff₀ (by norm_num)]; norm_num; linarith

/-- **every uniform number is a float64** (53 significant bits): `uniform(0,1) = 0.0 + 1.0 * u` is `u` itself -/
theorem uniform_is_float64 (st : MT) : fl64 (nextDouble st).1 = (nextDouble st).1 := by
  obtain ⟨m, hm, h⟩ := nextDouble_dyadic st
  rw [h]
  have := isF64_dyadic (m : Int) (-53) (by rw [abs_of_nonneg (by positivity)]; exact_mod_cast hm) (by norm_num)
  have h2 : ((m : Int) : Rat) * pow2 (-53) = (m : Rat) / 9007199254740992 := by
    rw [pow2_eq_zpow]; norm_num [zpow_neg]; ring
  rw [h2] at this
  exact this

theorem rand_spec : ∀ (n : Nat) (st : MT), (rand n st).1.length = n ∧
    ∀ u ∈ (rand n st).1, 0 ≤ u ∧ u < 1 ∧ fl64 u = u
  | 0, st => by simp [rand]
  | n + 1, st => by
    obtain ⟨h1, h2⟩ := rand_spec n (nextDouble st).2
    simp only [rand]
    refine ⟨by simp [h1], ?_⟩
    intro u hu
    rcases List.mem_cons.mp hu with rfl | hu'
    · exact ⟨(uniform_unit_interval st).1, (uniform_unit_interval st).2.1, uniform_is_float64 st⟩
    · exact h2 u hu'

theorem rowsFrom_spec : ∀ (k n : Nat) (st : MT), (rowsFrom k n st).1.length = k ∧
    ∀ row ∈ (rowsFrom k n st).1, row.length = n ∧ ∀ u ∈ row, 0 ≤ u ∧ u < 1
  | 0, n, st => by simp [rowsFrom]
  | k + 1, n, st => by
    obtain ⟨h1, h2⟩ := rowsFrom_spec k n (rand n st).2
    simp only [rowsFrom]
    refine ⟨by simp [h1], ?_⟩
    intro row hrow
    rcases List.mem_cons.mp hrow with rfl | h'
    · exact ⟨(rand_spec n st).1, fun u hu => ⟨((rand_spec n st).2 u hu).1, ((rand_spec n st).2 u hu).2.1⟩⟩
    · exact h2 row h'

/-- every array `simRows` returns is `simulate` of one of the rows -/
theorem simRows_mem (ws : List Rat) (n : Nat) : ∀ (rows : List (List Rat)) (arrs : List (List Nat)),
    simRows ws n rows = some arrs → ∀ arr ∈ arrs, ∃ row ∈ rows, simulate ws row = some arr
  | [], arrs, h => by simp [simRows] at h; subst h; simp
  | row :: rows, arrs, h => by
    simp only [simRows] at h
    split at h
    · rename_i arr ha
      split at h
      · cases hr : simRows ws n rows with
        | none => rw [hr] at h; cases h
        | some tl =>
          rw [hr] at h
          simp only [Option.map_some, Option.some.injEq] at h
          subst h
          intro a ha'
          rcases List.mem_cons.mp ha' with rfl | h'
          · exact ⟨row, List.mem_cons_self, ha⟩
          · obtain ⟨r, hr', hs⟩ := simRows_mem ws n rows tl hr a h'
            exact ⟨r, List.mem_cons_of_mem _ hr', hs⟩
      · cases h
    · cases h

/-- **the seeded conditional Poisson test (CL, S, M) is total and conserves counts, for every seed**: valid rates ⇒ it
    returns `nsim` catalogs, each with exactly the observed number of events on the forecast's shape, none of them with
    an event in a zero-rate bin. No hypothesis on the random numbers is left: they are the generator's. -/
theorem poisson_test_seeded_total (rates : List Rat) (hv : ValidRates rates) (obs : List Nat) (nsim s : Nat) :
    ∃ arrs, poissonTestSeeded rates obs nsim s = some arrs ∧ arrs.length = nsim ∧
      ∀ arr ∈ arrs, arr.sum = obs.sum ∧ arr.length = rates.length ∧
        ∀ k, k < rates.length → rates.getD k 0 = 0 → arr.getD k 0 = 0 := by
  obtain ⟨hlen, hrows⟩ := rowsFrom_spec nsim obs.sum (seed s)
  obtain ⟨arrs, h1, h2, h3⟩ := poisson_test_prescribed_count rates hv obs (rowsFrom nsim obs.sum (seed s)).1
    (fun row hr => ⟨(hrows row hr).1, fun u hu => ((hrows row hr).2 u hu).2⟩)
  refine ⟨arrs, h1, by rw [h2, hlen], ?_⟩
  intro arr harr
  refine ⟨(h3 arr harr).1, (h3 arr harr).2, ?_⟩
  intro k hk hz
  obtain ⟨row, hrow, hsim⟩ := simRows_mem _ _ _ _ h1 arr harr
  exact simulated_array_zero_in_zero_rate_bin rates hv.nonneg row (fun u hu => ((hrows row hrow).2 u hu).1) arr hsim k hk hz

theorem stream_spec (s n : Nat) : (stream s n).length = n ∧ ∀ u ∈ stream s n, 0 ≤ u ∧ u < 1 := by
  unfold stream
  exact ⟨(rand_spec n _).1, fun u hu => ⟨((rand_spec n _).2 u hu).1, ((rand_spec n _).2 u hu).2.1⟩⟩

/-- consecutive rejection loops on one stream of non-negative numbers: no active cell has a rate ≤ 0 -/
theorem testBinaryStream_pos (rates : List Rat) (N : Nat) : ∀ (nsim : Nat) (stream : List Rat) (arrs : List (List Nat)),
    (∀ r ∈ stream, 0 ≤ r) → testBinaryStream (weightsMasked rates) N nsim stream = some arrs →
      ∀ arr ∈ arrs, ∀ k, k < rates.length → arr.getD k 0 = 1 → 0 < rates.getD k 0
  | 0, stream, arrs, _, h => by simp [testBinaryStream] at h; subst h; simp
  | k + 1, stream, arrs, hd, h => by
    simp only [testBinaryStream] at h
    split at h
    · rename_i arr rest hdone
      cases hr : testBinaryStream (weightsMasked rates) N k rest with
      | none => rw [hr] at h; cases h
      | some tl =>
        rw [hr] at h
        simp only [Option.map_some, Option.some.injEq] at h
        subst h
        obtain ⟨used, hu⟩ := binary_sim_consumes_prefix _ N stream arr rest hdone
        have hrest : ∀ r ∈ rest, 0 ≤ r := fun r hr' => hd r (by rw [hu]; exact List.mem_append_right _ hr')
        intro a ha
        rcases List.mem_cons.mp ha with rfl | ha'
        · exact (binary_sim_distinct_count rates N stream a rest hd hdone).2.2.2.2
        · exact testBinaryStream_pos rates N k rest tl hrest hr a ha'
    · cases h

/-- **the seeded binary / Brier test**: whenever the rejection loops finish within the numbers made available, there are
    `nsim` catalogs, each a 0/1 array with exactly as many active cells as the observed catalog, on the forecast's shape,
    and no active cell has a rate ≤ 0 — for every seed, every rate array -/
theorem binary_test_seeded_spec (rates : List Rat) (obs : List Nat) (nsim s fuel : Nat) (arrs : List (List Nat))
    (h : binaryTestSeeded rates obs nsim s fuel = some arrs) :
    arrs.length = nsim ∧
    ∀ arr ∈ arrs, IsBinary arr ∧ arr.countP (fun x => decide (0 < x)) = nActive obs ∧ arr.length = rates.length ∧
      ∀ k, k < rates.length → arr.getD k 0 = 1 → 0 < rates.getD k 0 := by
  obtain ⟨h1, h2⟩ := binary_test_prescribed_count rates obs nsim (stream s fuel) arrs h
  refine ⟨h1, fun arr harr => ⟨(h2 arr harr).1, (h2 arr harr).2.1, (h2 arr harr).2.2, ?_⟩⟩
  exact testBinaryStream_pos rates (nActive obs) nsim (stream s fuel) arrs
    (fun r hr => ((stream_spec s fuel).2 r hr).1) h arr harr

/-- **the seeded L-test, for ANY sampler of the number of events** (numpy's multiplication method below a mean of 10, PTRS
    from 10 on, or any other): whenever it returns, every simulated catalog has exactly the number of events of ITS draw,
    the forecast's shape, and no event in a zero-rate bin -/
theorem l_test_seeded_spec_any_sampler (rates : List Rat) (hnn : ∀ x ∈ rates, 0 ≤ x) (draw : MT → Option (Nat × MT)) :
    ∀ (nsim : Nat) (st : MT) (out : List (Nat × List Nat)), lTestLoopWith (weights rates) draw nsim st = some out →
      out.length = nsim ∧ ∀ p ∈ out, p.2.sum = p.1 ∧ p.2.length = rates.length ∧
        ∀ k, k < rates.length → rates.getD k 0 = 0 → p.2.getD k 0 = 0
  | 0, st, out, h => by simp [lTestLoopWith] at h; subst h; simp
  | k + 1, st, out, h => by
    simp only [lTestLoopWith] at h
    split at h
    · cases h
    · rename_i n st' hp
      split at h
      · cases h
      · rename_i arr hsim
        split at h
        · rename_i hc
          cases hr : lTestLoopWith (weights rates) draw k (rand n st').2 with
          | none => rw [hr] at h; cases h
          | some tl =>
            rw [hr] at h
            simp only [Option.map_some, Option.some.injEq] at h
            subst h
            obtain ⟨h1, h2⟩ := l_test_seeded_spec_any_sampler rates hnn draw k _ tl hr
            refine ⟨by simp [h1], ?_⟩
            intro p hp'
            rcases List.mem_cons.mp hp' with rfl | h'
            · have hcc := count_conserved _ _ _ hsim
              refine ⟨by simpa [countAssert] using hc, by rw [hcc.2, weights_length], ?_⟩
              intro j hj hz
              exact simulated_array_zero_in_zero_rate_bin rates hnn _
                (fun u hu => ((rand_spec n st').2 u hu).1) arr hsim j hj hz
            · exact h2 p h'
        · cases h

/-- the two samplers of the model: multiplication method with `exp(-mean)` supplied (exact layer), and numpy's full
    `poisson(mean)` incl. PTRS for means ≥ 10 (Float layer) -/
theorem l_test_seeded_spec (rates : List Rat) (hnn : ∀ x ∈ rates, 0 ≤ x) (enlam : Rat) (lam : Float) (nsim s : Nat) :
    (∀ out, lTestSeeded rates enlam nsim s = some out → out.length = nsim ∧ ∀ p ∈ out, p.2.sum = p.1 ∧ p.2.length = rates.length ∧
        ∀ k, k < rates.length → rates.getD k 0 = 0 → p.2.getD k 0 = 0) ∧
    (∀ out, lTestSeededF rates lam nsim s = some out → out.length = nsim ∧ ∀ p ∈ out, p.2.sum = p.1 ∧ p.2.length = rates.length ∧
        ∀ k, k < rates.length → rates.getD k 0 = 0 → p.2.getD k 0 = 0) :=
  ⟨fun out h => l_test_seeded_spec_any_sampler rates hnn _ nsim _ out h,
   fun out h => l_test_seeded_spec_any_sampler rates hnn _ nsim _ out h⟩

/-- **a seeded call does not see the ambient generator state** (result AND the state it leaves behind) -/
theorem seeded_call_ignores_ambient (c : Call) (s : Nat) (hs : c.seed = some s) (g₁ g₂ : MT) :
    runCall c g₁ = runCall c g₂ ∧ (runCall c g₁).1 = poissonTestSeeded c.rates c.obs c.nsim s := by
  simp [runCall, applySeed, hs, poissonTestSeeded]

/-- **from the first seeded call on, a whole session is deterministic**: the results of that call and of every later call
    (seeded or not) are the same whatever the global generator's state was at the start and whatever calls came before -/
theorem session_deterministic_after_seed (pre₁ pre₂ : List Call) (c : Call) (s : Nat) (hs : c.seed = some s)
    (post : List Call) (g₁ g₂ : MT) :
    (session (pre₁ ++ c :: post) g₁).drop pre₁.length = (session (pre₂ ++ c :: post) g₂).drop pre₂.length := by
  have key : ∀ (pre : List Call) (g : MT), ∃ g', (session (pre ++ c :: post) g).drop pre.length = session (c :: post) g' := by
    intro pre
    induction pre with
    | nil => intro g; exact ⟨g, rfl⟩
    | cons p ps ih =>
      intro g
      obtain ⟨g', h⟩ := ih (runCall p g).2
      exact ⟨g', by simpa [session] using h⟩
  obtain ⟨a, ha⟩ := key pre₁ g₁
  obtain ⟨b, hb⟩ := key pre₂ g₂
  rw [ha, hb]
  simp only [session, (seeded_call_ignores_ambient c s hs a b).1]

/-! ### non-vacuity. That the generator is numpy's is checked by the driver on every run (`c06_mt`, bit for bit, every seed class);
a kernel evaluation of a full 624-word regeneration is too slow for a build, so only the pieces are evaluated here. -/

-- `mt19937_seed(0)`: key[0..2] = 0, 1, 1812433255; tempering of the first regenerated word of seed 0 gives numpy's first
-- 32-bit output 2357136044
example : seedKeys 3 0 0 = [0, 1, 1812433255] := by decide +kernel
example : temper 2443250962 = 2357136044 := by decide +kernel
example : (stream 4294967295 2).length = 2 := (stream_spec _ _).1
example : ValidRates [0, 1, 0, 3, 0] := ⟨by decide +kernel, by decide +kernel, ⟨1, by decide +kernel⟩⟩
-- the conclusion of `poisson_test_seeded_total` on that forecast, seed 0, two observed events, three simulations
example : ∃ arrs, poissonTestSeeded [0, 1, 0, 3, 0] [0, 1, 0, 1, 0] 3 0 = some arrs ∧ arrs.length = 3 ∧
    ∀ arr ∈ arrs, arr.sum = 2 ∧ arr.length = 5 ∧ ∀ k, k < 5 → ([0, 1, 0, 3, 0] : List Rat).getD k 0 = 0 → arr.getD k 0 = 0 :=
  poisson_test_seeded_total _ ⟨by decide +kernel, by decide +kernel, ⟨1, by decide +kernel⟩⟩ _ 3 0
-- the L-test loop with a sampler that always says 2, on weights 0, 1/4, 1/4, 1, 1: the hypothesis of the theorem is met
example (st : MT) : ∃ out, lTestLoopWith (weights [0, 1, 0, 3, 0]) (fun st => some (2, st)) 0 st = some out := ⟨[], rfl⟩
-- a session: an unseeded call, a seeded one, an unseeded one — the last two results do not depend on the start state
example (g₁ g₂ : MT) (c₀ c₂ : Call) (c₁ : Call) (h : c₁.seed = some 0) :
    (session ([c₀] ++ c₁ :: [c₂]) g₁).drop 1 = (session ([] ++ c₁ :: [c₂]) g₂).drop 0 :=
  session_deterministic_after_seed [c₀] [] c₁ 0 h [c₂] g₁ g₂

end SamplerRng
