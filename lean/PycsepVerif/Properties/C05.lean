import PycsepVerif.Proofs.PoissonLL

/-!
# C05 — Poisson L / CL / S / M statistics equal the Poisson joint log-likelihood

Theorems about `Model/PoissonLL.lean` instantiated at ℝ. A flattened (forecast array, count array) pair is a list of
bins `(λ, w)`; a 2-D array is a list of rows. All statements hold for every shape (no size bound).
The specification: `sumLogPmf bins = Σ_bins log( e^{-λ} λ^w / w! )` in `ELL ℝ` (log 0 = −∞ explicitly).
-/
namespace PoissonLL
open RealOps

/-- Poisson probability mass function -/
noncomputable def poissonPmf (lam : ℝ) (w : ℕ) : ℝ := Real.exp (-lam) * lam ^ w / (w.factorial : ℝ)

/-- log of the pmf with log 0 = −∞ -/
noncomputable def logPmf (lam : ℝ) (w : ℕ) : ELL ℝ :=
  if poissonPmf lam w ≤ 0 then .negInf else .fin (Real.log (poissonPmf lam w))

/-- the documented statistic: sum over ALL bins of log pmf(count | rate) -/
noncomputable def sumLogPmf (bins : List (ℝ × ℕ)) : ELL ℝ := ELL.sum (bins.map (fun p => logPmf p.1 p.2))

/-- rates multiplied by a common factor -/
def scaleBins (bins : List (ℝ × ℕ)) (s : ℝ) : List (ℝ × ℕ) := bins.map (fun p => (p.1 * s, p.2))

/-- an empty bin contributes −λ -/
theorem logPmf_zero_count (lam : ℝ) : logPmf lam 0 = .fin (-lam) := by
  unfold logPmf poissonPmf
  have : ¬ (Real.exp (-lam) * lam ^ 0 / ((Nat.factorial 0 : ℕ) : ℝ) ≤ 0) := by
    simp [Real.exp_pos]
  rw [if_neg this]; simp

/-- an occupied bin of rate zero has probability zero: −∞ -/
theorem logPmf_zero_rate (w : ℕ) (hw : 0 < w) : logPmf 0 w = .negInf := by
  unfold logPmf poissonPmf
  have : (0 : ℝ) ^ w = 0 := zero_pow (by omega)
  simp [this]

/-- for a positive rate: log pmf = w·log λ − log w! − λ -/
theorem logPmf_pos (lam : ℝ) (w : ℕ) (h : 0 < lam) :
    logPmf lam w = .fin (Real.log lam * w - Real.log (w.factorial : ℝ) - lam) := by
  unfold logPmf poissonPmf
  have hf : (0 : ℝ) < (w.factorial : ℝ) := by exact_mod_cast Nat.factorial_pos w
  have hp : 0 < lam ^ w := pow_pos h w
  have he : 0 < Real.exp (-lam) := Real.exp_pos _
  have hpos : 0 < Real.exp (-lam) * lam ^ w / (w.factorial : ℝ) := by positivity
  rw [if_neg (not_le.mpr hpos)]
  congr 1
  rw [Real.log_div (by positivity) (by positivity), Real.log_mul (by positivity) (by positivity), Real.log_exp,
    Real.log_pow]
  ring

/-- the closed per-bin form used by the proofs is the log-pmf (for non-negative rates) -/
theorem logPmf_eq_cell (lam : ℝ) (w : ℕ) (h : 0 ≤ lam) : logPmf lam w = cellLL lam w := by
  unfold cellLL
  by_cases hw : w = 0
  · subst hw; simp [logPmf_zero_count]
  · rw [if_neg hw]
    rcases h.lt_or_eq with hl | hl
    · rw [if_neg (not_le.mpr hl), logPmf_pos lam w hl]
    · subst hl; rw [if_pos le_rfl, logPmf_zero_rate w (Nat.pos_of_ne_zero hw)]

/-- the specification in closed per-bin form (non-negative rates) -/
theorem sumLogPmf_eq_cells (bins : List (ℝ × ℕ)) (hnn : ∀ p ∈ bins, 0 ≤ p.1) :
    sumLogPmf bins = ELL.sum (bins.map (fun p => cellLL p.1 p.2)) := by
  unfold sumLogPmf
  congr 1
  apply List.map_congr_left
  intro p hp; exact logPmf_eq_cell p.1 p.2 (hnn p hp)

/-- **C05, L and CL statistic, full strength (finite or −∞).** For every array of non-negative rates and every count
    array of the same shape, the code-shaped value `Σ_target w·log λ − Σ_target log w! − Σ λ` equals
    `Σ_all bins log pmf(w | λ)` — including the value −∞. -/
theorem stat_eq_sum_logpmf (bins : List (ℝ × ℕ)) (hnn : ∀ p ∈ bins, 0 ≤ p.1) :
    stat false bins = sumLogPmf bins := by
  unfold stat
  simp only [Bool.false_eq_true, ↓reduceIte]
  rw [nFore_real, jointLL_eq_cells, sumLogPmf_eq_cells bins hnn]

/-- **C05 (finite case as in the property text).** If every bin holding an event has a positive rate (rates ≥ 0), the
    code-shaped value is the real number `Σ_bins log(e^{-λ} λ^w / w!)`; empty bins contribute −λ and Σλ = N_fore. -/
theorem jointLL_eq_sum_logpmf (bins : List (ℝ × ℕ)) (hnn : ∀ p ∈ bins, 0 ≤ p.1)
    (hpos : ∀ p ∈ bins, 0 < p.2 → 0 < p.1) :
    stat false bins = .fin ((bins.map (fun p => Real.log (poissonPmf p.1 p.2))).sum) := by
  rw [stat_eq_sum_logpmf bins hnn, sumLogPmf, ellSum_eq]
  have hall : (bins.map (fun p => logPmf p.1 p.2)).all ellFin = true := by
    have := (cells_all_fin bins).mpr hpos
    rw [List.all_map] at this ⊢
    rw [List.all_eq_true] at this ⊢
    intro p hp; have := this p hp
    simpa [Function.comp, logPmf_eq_cell p.1 p.2 (hnn p hp)] using this
  rw [if_pos hall]
  congr 2
  rw [List.map_map]
  apply List.map_congr_left
  intro p hp
  have hfin : ellFin (logPmf p.1 p.2) = true := by
    rw [List.all_map, List.all_eq_true] at hall; exact hall p hp
  unfold logPmf at hfin ⊢
  simp only [Function.comp]
  split
  · rename_i h; rw [if_pos h] at hfin; simp [ellFin] at hfin
  · rfl

/-- the expected count of the normalised variants: Σ (λ_i · N_obs/N_fore) = N_obs -/
theorem scaled_rates_sum_to_nobs (bins : List (ℝ × ℕ)) (hpos : 0 < (bins.map (·.1)).sum) :
    ((scaleBins bins ((nObs bins : ℝ) / (bins.map (·.1)).sum)).map (·.1)).sum = (nObs bins : ℝ) := by
  unfold scaleBins
  rw [sum_scaled]
  field_simp

/-- **C05, normalised statistic (S and M), full strength.** With `s = N_obs / N_fore` the code-shaped value
    (`log(λ·s)` in target bins, `int(N_obs)` as expected count) equals `Σ_all bins log pmf(w | λ·s)`. -/
theorem stat_norm_eq_sum_logpmf (bins : List (ℝ × ℕ)) (hnn : ∀ p ∈ bins, 0 ≤ p.1)
    (hpos : 0 < (bins.map (·.1)).sum) :
    stat true bins = sumLogPmf (scaleBins bins ((nObs bins : ℝ) / (bins.map (·.1)).sum)) := by
  have hs : 0 ≤ (nObs bins : ℝ) / (bins.map (·.1)).sum := div_nonneg (Nat.cast_nonneg _) hpos.le
  have hnn' : ∀ p ∈ scaleBins bins ((nObs bins : ℝ) / (bins.map (·.1)).sum), 0 ≤ p.1 := by
    intro p hp
    unfold scaleBins at hp
    obtain ⟨q, hq, rfl⟩ := List.mem_map.mp hp
    exact mul_nonneg (hnn q hq) hs
  rw [← stat_eq_sum_logpmf _ hnn']
  unfold stat
  simp only [↓reduceIte, Bool.false_eq_true, nFore_real, real_div, real_ofNat, real_mul]
  have := scaled_rates_sum_to_nobs bins hpos
  unfold scaleBins at this ⊢
  rw [this]

/-- **C05, −∞.** The statistic (either variant) is −∞ exactly when some bin holds an event and has rate zero. -/
theorem stat_negInf_iff (b : Bool) (bins : List (ℝ × ℕ)) (hnn : ∀ p ∈ bins, 0 ≤ p.1)
    (hpos : 0 < (bins.map (·.1)).sum) :
    stat b bins = .negInf ↔ ∃ p ∈ bins, 0 < p.2 ∧ p.1 = 0 := by
  have key : ∀ bs : List (ℝ × ℕ), (∀ p ∈ bs, 0 ≤ p.1) →
      (sumLogPmf bs = .negInf ↔ ∃ p ∈ bs, 0 < p.2 ∧ p.1 = 0) := by
    intro bs hb
    rw [sumLogPmf_eq_cells bs hb, ellSum_negInf_iff]
    constructor
    · rintro ⟨x, hx, rfl⟩
      obtain ⟨p, hp, hc⟩ := List.mem_map.mp hx
      refine ⟨p, hp, ?_⟩
      unfold cellLL at hc
      by_cases hw : p.2 = 0
      · simp [hw] at hc
      · rw [if_neg hw] at hc
        by_cases hr : p.1 ≤ 0
        · exact ⟨Nat.pos_of_ne_zero hw, le_antisymm hr (hb p hp)⟩
        · simp [hr] at hc
    · rintro ⟨p, hp, hw, hr⟩
      refine ⟨cellLL p.1 p.2, List.mem_map.mpr ⟨p, hp, rfl⟩, ?_⟩
      unfold cellLL; rw [if_neg (by omega), if_pos hr.le]
  cases b with
  | false => rw [stat_eq_sum_logpmf bins hnn]; exact key bins hnn
  | true =>
    rw [stat_norm_eq_sum_logpmf bins hnn hpos]
    set s := (nObs bins : ℝ) / (bins.map (·.1)).sum with hs
    have hs0 : 0 ≤ s := div_nonneg (Nat.cast_nonneg _) hpos.le
    have hnn' : ∀ p ∈ scaleBins bins s, 0 ≤ p.1 := by
      intro p hp
      obtain ⟨q, hq, rfl⟩ := List.mem_map.mp hp
      exact mul_nonneg (hnn q hq) hs0
    rw [key _ hnn']
    -- a bin with an event makes N_obs, hence the scale, positive
    have hobs : ∀ p ∈ bins, 0 < p.2 → 0 < s := by
      intro p hp hw
      have : 0 < nObs bins := by
        unfold nObs
        have hle : p.2 ≤ (bins.map (·.2)).sum := List.single_le_sum (by simp) _ (List.mem_map.mpr ⟨p, hp, rfl⟩)
        omega
      exact div_pos (by exact_mod_cast this) hpos
    constructor
    · rintro ⟨p, hp, hw, hr⟩
      obtain ⟨q, hq, rfl⟩ := List.mem_map.mp hp
      refine ⟨q, hq, hw, ?_⟩
      have := hobs q hq hw
      rcases mul_eq_zero.mp hr with h | h
      · exact h
      · exact absurd h this.ne'
    · rintro ⟨p, hp, hw, hr⟩
      exact ⟨(p.1 * s, p.2), List.mem_map.mpr ⟨p, hp, rfl⟩, hw, by simp [hr]⟩

/-- **C05, marginals.** The spatial marginal and the magnitude marginal of a rate array both sum to the total of the
    array, and so do the marginals of a count array (so `N_fore` and `N_obs` are the same for L, S and M). -/
theorem marginals_sum_to_total (data : List (List ℝ)) (cnt : List (List ℕ)) :
    (spatialMarginal data).sum = data.flatten.sum ∧ (magMarginal data).sum = data.flatten.sum ∧
    (spatialMarginalN cnt).sum = cnt.flatten.sum ∧ (magMarginalN cnt).sum = cnt.flatten.sum := by
  refine ⟨?_, ?_, ?_, ?_⟩
  · unfold spatialMarginal
    induction data with
    | nil => simp
    | cons r data ih => simp only [List.map_cons, List.sum_cons, ih, real_sum, List.flatten_cons, List.sum_append]
  · unfold magMarginal; rw [sum_foldl_addRows]; simp
  · unfold spatialMarginalN
    induction cnt with
    | nil => simp
    | cons r cnt ih => simp only [List.map_cons, List.sum_cons, ih, List.flatten_cons, List.sum_append]
  · unfold magMarginalN; rw [sum_foldl_addRowsN]; simp

/-- **C05, L-test and CL-test.** Both report `Σ_bins log pmf(w | λ)` over the full space-magnitude array. -/
theorem stat_L_eq (data : List (List ℝ)) (cnt : List (List ℕ)) (hnn : ∀ row ∈ data, ∀ r ∈ row, 0 ≤ r) :
    testStat .L data cnt = sumLogPmf (data.flatten.zip cnt.flatten) ∧
    testStat .CL data cnt = sumLogPmf (data.flatten.zip cnt.flatten) := by
  have h : ∀ p ∈ data.flatten.zip cnt.flatten, 0 ≤ p.1 := by
    intro p hp
    have := (List.of_mem_zip hp).1
    obtain ⟨row, hrow, hr⟩ := List.mem_flatten.mp this
    exact hnn row hrow _ hr
  exact ⟨stat_eq_sum_logpmf _ h, stat_eq_sum_logpmf _ h⟩

/-- name used in DESIGN.md for the CL part of `stat_L_eq` -/
theorem stat_CL_eq (data : List (List ℝ)) (cnt : List (List ℕ)) (hnn : ∀ row ∈ data, ∀ r ∈ row, 0 ≤ r) :
    testStat .CL data cnt = sumLogPmf (data.flatten.zip cnt.flatten) := (stat_L_eq data cnt hnn).2

/-- **C05, S-test.** The statistic is `Σ_cells log pmf(w_cell | λ_cell · N_obs/N_fore)` over the spatial marginals,
    where `N_obs`, `N_fore` are the totals of the full arrays. -/
theorem stat_S_eq (data : List (List ℝ)) (cnt : List (List ℕ)) (hshape : data.length = cnt.length)
    (hnn : ∀ row ∈ data, ∀ r ∈ row, 0 ≤ r) (hpos : 0 < data.flatten.sum) :
    testStat .S data cnt =
      sumLogPmf (scaleBins ((spatialMarginal data).zip (spatialMarginalN cnt))
        ((cnt.flatten.sum : ℝ) / data.flatten.sum)) := by
  have hlen : (spatialMarginal data).length = (spatialMarginalN cnt).length := by
    simp [spatialMarginal, spatialMarginalN, hshape]
  obtain ⟨h1, _, h3, _⟩ := marginals_sum_to_total data cnt
  have hnn' : ∀ p ∈ (spatialMarginal data).zip (spatialMarginalN cnt), 0 ≤ p.1 := by
    intro p hp
    have := (List.of_mem_zip hp).1
    obtain ⟨row, hrow, hrw⟩ := List.mem_map.mp this
    rw [← hrw, real_sum]; exact sum_nonneg_of_mem (hnn row hrow)
  have hfst := zip_fst hlen
  have hsnd := zip_snd hlen
  show stat true _ = _
  rw [stat_norm_eq_sum_logpmf _ hnn' (by rw [hfst, h1]; exact hpos)]
  unfold nObs
  rw [hfst, hsnd, h1, h3]

/-- **C05, M-test.** The statistic is `Σ_magnitude bins log pmf(w_m | λ_m · N_obs/N_fore)` over the magnitude
    marginals. -/
theorem stat_M_eq (data : List (List ℝ)) (cnt : List (List ℕ))
    (hshape : (magMarginal data).length = (magMarginalN cnt).length)
    (hnn : ∀ row ∈ data, ∀ r ∈ row, 0 ≤ r) (hpos : 0 < data.flatten.sum) :
    testStat .M data cnt =
      sumLogPmf (scaleBins ((magMarginal data).zip (magMarginalN cnt))
        ((cnt.flatten.sum : ℝ) / data.flatten.sum)) := by
  obtain ⟨_, h2, _, h4⟩ := marginals_sum_to_total data cnt
  have hnn' : ∀ p ∈ (magMarginal data).zip (magMarginalN cnt), 0 ≤ p.1 := by
    intro p hp
    exact foldl_addRows_nonneg data [] (by simp) hnn _ (List.of_mem_zip hp).1
  have hfst := zip_fst hshape
  have hsnd := zip_snd hshape
  show stat true _ = _
  rw [stat_norm_eq_sum_logpmf _ hnn' (by rw [hfst, h2]; exact hpos)]
  unfold nObs
  rw [hfst, hsnd, h2, h4]

/-- **C05, simulated entries.** Every entry of the simulated distribution is the same function `stat` (same
    normalisation flag, same forecast array) of the simulated count array; the observed statistic is that function of
    the observed (marginal) counts. -/
theorem sim_entry_is_stat (m : Mode) (data : List (List ℝ)) (cnt : List (List ℕ)) :
    testStat m data cnt = simStat m data
      (match m with
       | .L => cnt.flatten | .CL => cnt.flatten | .S => spatialMarginalN cnt | .M => magMarginalN cnt) := by
  cases m <;> rfl

/-- the L and CL tests report the same observed statistic (they differ only in how many events are simulated) -/
theorem stat_L_eq_CL (data : List (List ℝ)) (cnt : List (List ℕ)) : testStat .L data cnt = testStat .CL data cnt := rfl

/-- a Poisson probability is at most 1 -/
theorem poissonPmf_le_one (lam : ℝ) (w : ℕ) (h : 0 ≤ lam) : poissonPmf lam w ≤ 1 := by
  unfold poissonPmf
  have h1 := Real.pow_div_factorial_le_exp lam h w
  have he : 0 < Real.exp (-lam) := Real.exp_pos _
  calc Real.exp (-lam) * lam ^ w / (w.factorial : ℝ) = Real.exp (-lam) * (lam ^ w / (w.factorial : ℝ)) := by ring
    _ ≤ Real.exp (-lam) * Real.exp lam := by exact mul_le_mul_of_nonneg_left h1 he.le
    _ = 1 := by rw [← Real.exp_add]; simp

/-- **C05, sign.** A finite statistic (either variant) is a sum of logarithms of probabilities: it is ≤ 0. -/
theorem stat_nonpos (b : Bool) (bins : List (ℝ × ℕ)) (hnn : ∀ p ∈ bins, 0 ≤ p.1)
    (hpos : 0 < (bins.map (·.1)).sum) (v : ℝ) (hv : stat b bins = .fin v) : v ≤ 0 := by
  have key : ∀ bs : List (ℝ × ℕ), (∀ p ∈ bs, 0 ≤ p.1) → ∀ v, sumLogPmf bs = .fin v → v ≤ 0 := by
    intro bs hb v hv
    unfold sumLogPmf at hv
    rw [ellSum_eq] at hv
    split at hv
    · injection hv with hv
      rw [← hv]
      apply list_sum_nonpos
      intro x hx
      rw [List.map_map] at hx
      obtain ⟨p, hp, rfl⟩ := List.mem_map.mp hx
      simp only [Function.comp]
      unfold logPmf
      split
      · simp [ellVal]
      · rename_i hgt
        simp only [ellVal]
        exact Real.log_nonpos (le_of_lt (not_le.mp hgt)) (poissonPmf_le_one _ _ (hb p hp))
    · cases hv
  cases b with
  | false => rw [stat_eq_sum_logpmf bins hnn] at hv; exact key bins hnn v hv
  | true =>
    rw [stat_norm_eq_sum_logpmf bins hnn hpos] at hv
    refine key _ ?_ v hv
    intro p hp
    obtain ⟨q, hq, rfl⟩ := List.mem_map.mp hp
    exact mul_nonneg (hnn q hq) (div_nonneg (Nat.cast_nonneg _) hpos.le)

/-- **C05, the normalised statistic ignores the overall level of the forecast.** Multiplying every rate by the same
    `c > 0` leaves the S / M statistic unchanged (the forecast is rescaled to `N_obs` anyway). -/
theorem stat_norm_scale_invariant (bins : List (ℝ × ℕ)) (c : ℝ) (hc : 0 < c) (hnn : ∀ p ∈ bins, 0 ≤ p.1)
    (hpos : 0 < (bins.map (·.1)).sum) :
    stat true (scaleBins bins c) = stat true bins := by
  have hnn' : ∀ p ∈ scaleBins bins c, 0 ≤ p.1 := by
    intro p hp
    obtain ⟨q, hq, rfl⟩ := List.mem_map.mp hp
    exact mul_nonneg (hnn q hq) hc.le
  have hsum : ((scaleBins bins c).map (·.1)).sum = (bins.map (·.1)).sum * c := sum_scaled bins c
  have hobs : nObs (scaleBins bins c) = nObs bins := by
    unfold nObs scaleBins; rw [List.map_map]; rfl
  rw [stat_norm_eq_sum_logpmf _ hnn' (by rw [hsum]; positivity), stat_norm_eq_sum_logpmf _ hnn hpos, hsum, hobs]
  congr 1
  unfold scaleBins
  rw [List.map_map]
  apply List.map_congr_left
  intro p _
  simp only [Function.comp]
  congr 1
  field_simp

/-! ### the per-cell map `poisson_spatial_likelihood` -/

/-- a cell of the map with a positive scaled rate is `log pmf(w | λ·s)` -/
theorem poissonCell_eq_logpmf (s r : ℝ) (w : ℕ) (h : 0 < r * s) :
    ELL.fin (poissonCell s r w) = logPmf (r * s) w := by
  rw [logPmf_pos _ _ h]
  unfold poissonCell
  simp only [real_add, real_mul, real_neg, real_ofNat, real_log, real_logFact]
  congr 1; ring

/-- **C05, per-cell map.** When every cell has a positive spatial rate and the catalog is not empty, the cells of
    `poisson_spatial_likelihood` add up to the S-test statistic. -/
theorem spatialMap_sum_eq_stat_S (data : List (List ℝ)) (cnt : List (List ℕ)) (hshape : data.length = cnt.length)
    (hrow : ∀ row ∈ data, 0 < row.sum) (hfore : 0 < data.flatten.sum) (hobs : 0 < cnt.flatten.sum) :
    testStat .S data cnt = .fin ((poissonSpatialMap data cnt).sum) := by
  have hlen : (spatialMarginal data).length = (spatialMarginalN cnt).length := by
    simp [spatialMarginal, spatialMarginalN, hshape]
  obtain ⟨h1, _, h3, _⟩ := marginals_sum_to_total data cnt
  have hmem : ∀ p ∈ (spatialMarginal data).zip (spatialMarginalN cnt), 0 < p.1 := by
    intro p hp
    obtain ⟨row, hrow', hrw⟩ := List.mem_map.mp (List.of_mem_zip hp).1
    rw [← hrw, real_sum]; exact hrow row hrow'
  have hfst := zip_fst hlen
  have hsnd := zip_snd hlen
  show stat true _ = _
  rw [stat_norm_eq_sum_logpmf _ (fun p hp => (hmem p hp).le) (by rw [hfst, h1]; exact hfore)]
  unfold nObs
  rw [hfst, hsnd, h1, h3]
  have hs : 0 < ((cnt.flatten.sum : ℕ) : ℝ) / data.flatten.sum := div_pos (by exact_mod_cast hobs) hfore
  unfold sumLogPmf scaleBins poissonSpatialMap
  rw [List.map_map, ← ellSum_map_fin]
  congr 1
  apply List.map_congr_left
  intro p hp
  simp only [Function.comp, real_div, real_ofNat, real_sum]
  exact (poissonCell_eq_logpmf _ _ _ (mul_pos (hmem p hp) hs)).symm

/-! ### the hypotheses are satisfiable; a concrete value -/

-- one cell of rate 2 with 1 event, one of rate 3 with none: log(e^-2 · 2) + (−3)
example : stat false [((2 : ℝ), 1), (3, 0)] = .fin (Real.log 2 * 1 - Real.log 1 - 2 + -3) := by
  rw [stat_eq_sum_logpmf _ (by simp), sumLogPmf]
  simp only [List.map_cons, List.map_nil]
  rw [logPmf_pos 2 1 (by norm_num), logPmf_zero_count]
  simp [ELL.sum, ELL.add]

-- an event in a zero-rate bin: −∞
example : stat false [((0 : ℝ), 2), (3, 0)] = .negInf :=
  (stat_negInf_iff false _ (by simp) (by simp)).mpr ⟨(0, 2), by simp, by simp, rfl⟩

-- normalised: N_obs = 3, N_fore = 6, so the rates 2 and 4 become 1 and 2
example : stat true [((2 : ℝ), 3), (4, 0)] = sumLogPmf [(2 * ((3 : ℕ) / (2 + (4 + 0))), 3), (4 * ((3 : ℕ) / (2 + (4 + 0))), 0)] := by
  rw [stat_norm_eq_sum_logpmf _ (by simp) (by simp; norm_num)]
  simp [scaleBins, nObs]

-- the S- and M-test hypotheses hold for a 2×2 array
example : testStat .S [[(1 : ℝ), 2], [0, 3]] [[1, 0], [0, 2]] =
    sumLogPmf (scaleBins ((spatialMarginal [[(1 : ℝ), 2], [0, 3]]).zip (spatialMarginalN [[1, 0], [0, 2]]))
      ((([[1, 0], [0, 2]] : List (List ℕ)).flatten.sum : ℝ) / ([[(1 : ℝ), 2], [0, 3]] : List (List ℝ)).flatten.sum)) :=
  stat_S_eq _ _ rfl (by simp) (by simp; norm_num)

example : testStat .M [[(1 : ℝ), 2], [0, 3]] [[1, 0], [0, 2]] =
    sumLogPmf (scaleBins ((magMarginal [[(1 : ℝ), 2], [0, 3]]).zip (magMarginalN [[1, 0], [0, 2]]))
      ((([[1, 0], [0, 2]] : List (List ℕ)).flatten.sum : ℝ) / ([[(1 : ℝ), 2], [0, 3]] : List (List ℝ)).flatten.sum)) :=
  stat_M_eq _ _ (by simp [magMarginal, magMarginalN, addRows, addRowsN]) (by simp) (by simp; norm_num)

-- scaling every rate by 7 does not change the normalised statistic
example : stat true (scaleBins [((2 : ℝ), 3), (4, 0)] 7) = stat true [((2 : ℝ), 3), (4, 0)] :=
  stat_norm_scale_invariant _ 7 (by norm_num) (by simp) (by simp; norm_num)

-- the per-cell map adds up to the S statistic on a 2×2 array with positive spatial rates
example : testStat .S [[(1 : ℝ), 2], [0, 3]] [[1, 0], [0, 2]] =
    .fin ((poissonSpatialMap [[(1 : ℝ), 2], [0, 3]] [[1, 0], [0, 2]]).sum) :=
  spatialMap_sum_eq_stat_S _ _ rfl (by simp; norm_num) (by simp; norm_num) (by simp)

-- a finite statistic is ≤ 0
example (v : ℝ) (h : stat false [((2 : ℝ), 1), (3, 0)] = .fin v) : v ≤ 0 :=
  stat_nonpos false _ (by simp) (by simp; norm_num) v h

end PoissonLL
