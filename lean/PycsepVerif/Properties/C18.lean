import PycsepVerif.Proofs.ResultJson

/-!
# C18 — evaluation results and regions survive serialisation

Theorems about `Model/ResultJson.lean` (model of EvaluationResult.to_dict / from_dict, write_json with
`json.dump(default=_json_default)`, load_evaluation_result's class factory, CartesianGrid2D.to_dict / from_dict).
"Equal after the round trip" is `norm`: tuples and arrays come back as lists, numpy scalars as the Python numbers
they hold (numpy.int64(4) as 4, numpy.float64(x) as x); payloads
(NaN, ±inf included), ints, strings, None and the nesting are unchanged.
-/
namespace ResultJson

/-- C18: every value whose kinds lie in the safe set {int, bool, float, numpy integer / bool / floating scalars, str,
    None, lists / tuples / arrays of these — any nesting depth, any length} is read back equal (structural induction):
    numpy scalars as the numbers they hold, tuples as lists, NaN as NaN. -/
theorem roundtrip_safe (v : PyVal) (h : Safe v) : roundTrip v = norm v := roundTrip_safe_aux v h

/-- numpy scalars are written through `.item()` (repositories.py:107 `_json_default`): an integer scalar comes back as
    the Python int it holds, a numpy bool as the bool, a float32/float16 as the float — equal as numbers. -/
theorem numpy_scalars_roundtrip_as_numbers (n : Int) (b : Bool) (x : F64) :
    roundTrip (.npInt64 n) = .pyInt n ∧ roundTrip (.npBool b) = .pyBool b ∧
    roundTrip (.npFloat32 x) = .pyFloat x ∧ roundTrip (.npFloat64 x) = .pyFloat x :=
  ⟨rfl, rfl, rfl, rfl⟩

/-- what is still not preserved: an object json cannot encode and that is not a numpy scalar (an ndarray nested in a
    field, a datetime, …) is written as `str(obj)` and comes back as that STRING — the safe-set hypothesis of
    `roundtrip_safe` is necessary, and `other` is the only unsafe kind. -/
theorem stringified_objects_do_not_roundtrip (s : String) :
    roundTrip (.other s) = .str s ∧ roundTrip (.other s) ≠ norm (.other s) ∧ ¬ Safe (.other s) := by
  refine ⟨rfl, ?_, ?_⟩ <;> simp [roundTrip, toJson, fromJson, norm, Safe]

/-- the loaded value is already in normal form: a second round trip changes nothing -/
theorem roundtrip_idempotent (v : PyVal) (h : Safe v) : norm (roundTrip v) = roundTrip v := by
  rw [roundtrip_safe v h, norm_idem]

/-- whatever was written (safe or not), what is loaded is plain Python data (int, bool, float, str, None, lists) … -/
theorem loaded_is_plain (v : PyVal) : Plain (roundTrip v) := fromJson_plain (toJson v)

/-- … and a loaded value written and loaded again is unchanged: result files are stable under re-saving, for ALL
    values (also the ones that were damaged by the first write). -/
theorem roundtrip_stable (v : PyVal) : roundTrip (roundTrip v) = roundTrip v :=
  roundTrip_plain _ (loaded_is_plain v)

/-- the executable safety test used by the driver decides `Safe` -/
theorem safe_decidable (v : PyVal) : safeB v = true ↔ Safe v := safeB_iff v

/-- C18: every result class defined in models.py has a factory entry, and that entry builds the same class. -/
theorem factory_total : ∀ c ∈ resultClasses, factory c = some c := by decide

/-- the historical misspelt key still maps to the pseudo-likelihood class, and unknown names are a KeyError -/
theorem factory_aliases :
    factory "CatalogPseudoLikelihoodTestResult" = some "CatalogPseudolikelihoodTestResult" ∧
    factory "default" = some "EvaluationResult" ∧ factory "NoSuchResult" = none := by decide

/-- C18: a written result of a known class loads, as the same class. -/
theorem class_preserved (r : Result) (hc : r.cls ∈ resultClasses) (j : JResult) (hw : write r = some j) :
    ∃ r', load j = some r' ∧ r'.cls = r.cls := by
  unfold write at hw
  cases htd : tdList r.testDistribution with
  | none => simp [htd] at hw
  | some td =>
    simp only [htd, Option.map_some, Option.some.injEq] at hw
    subst hw
    simp only [load, factory_total r.cls hc, Option.map_some]
    exact ⟨_, rfl, rfl⟩

/-- writing fails (TypeError in to_dict) exactly when `test_distribution` is None or a plain Python scalar or
    another non-iterable object -/
theorem write_fails_iff (r : Result) : write r = none ↔ tdList r.testDistribution = none := by
  unfold write; cases tdList r.testDistribution <;> simp

/-- C18: a result of a known class whose fields have safe kinds is written and loaded back as the same class with
    every field equal (normal form), whatever the values (NaN, ±inf, None, nested tuples, any length). -/
theorem result_roundtrip (r : Result) (hc : r.cls ∈ resultClasses) (td : PyVal)
    (htd : tdList r.testDistribution = some td) (h0 : Safe r.testDistribution)
    (h1 : Safe r.name) (h2 : Safe r.observedStatistic) (h3 : Safe r.quantile) (h4 : Safe r.status)
    (h5 : Safe r.obsCatalogRepr) (h6 : Safe r.simName) (h7 : Safe r.obsName) (h8 : Safe r.minMw) :
    (write r).bind load = some (normResult r td) := by
  have hs := tdList_safe htd h0
  simp only [write, htd, Option.map_some, Option.bind_some, load, factory_total r.cls hc, normResult]
  rw [roundTrip_safe_aux td hs, roundTrip_safe_aux _ h1, roundTrip_safe_aux _ h2, roundTrip_safe_aux _ h3,
    roundTrip_safe_aux _ h4, roundTrip_safe_aux _ h5, roundTrip_safe_aux _ h6, roundTrip_safe_aux _ h7,
    roundTrip_safe_aux _ h8]

/-! ## the second loader (`csep.load_json` / `FileSystem.load`) and the in-memory pair -/

/-- C18: on every file, whatever it holds (NaN, ±Infinity, null, nested arrays), `csep.load_json(cls, f)` reads the nine
    fields exactly as `csep.load_evaluation_result(f)` does; the two loaders differ only in where the class comes from
    (argument vs stored 'type'), and agree when the argument is the class the factory maps the stored type to. -/
theorem loaders_agree (c : String) (j : JResult) (h : factory j.type = some c) : load j = some (loadAs c j) := by
  simp [load, loadAs, h]

/-- … in particular on every file written from a result of a known class, read back as that class -/
theorem loaders_agree_on_written (r : Result) (hc : r.cls ∈ resultClasses) (j : JResult) (hw : write r = some j) :
    load j = some (loadAs r.cls j) := by
  apply loaders_agree
  unfold write at hw
  cases htd : tdList r.testDistribution with
  | none => simp [htd] at hw
  | some td =>
    simp only [htd, Option.map_some, Option.some.injEq] at hw
    subst hw
    exact factory_total r.cls hc

/-- C18 through the second loader: a result whose fields have safe kinds — infinite and NaN statistics included, they
    are `F64` payloads like any other — is written and read back by `csep.load_json(cls, f)` with every field equal
    (normal form), for ANY class name handed to the loader (no factory involved). -/
theorem load_json_roundtrip (r : Result) (td : PyVal)
    (htd : tdList r.testDistribution = some td) (h0 : Safe r.testDistribution)
    (h1 : Safe r.name) (h2 : Safe r.observedStatistic) (h3 : Safe r.quantile) (h4 : Safe r.status)
    (h5 : Safe r.obsCatalogRepr) (h6 : Safe r.simName) (h7 : Safe r.obsName) (h8 : Safe r.minMw) :
    (write r).map (loadAs r.cls) = some (normResult r td) := by
  have hs := tdList_safe htd h0
  simp only [write, htd, Option.map_some, loadAs, normResult]
  rw [roundTrip_safe_aux td hs, roundTrip_safe_aux _ h1, roundTrip_safe_aux _ h2, roundTrip_safe_aux _ h3,
    roundTrip_safe_aux _ h4, roundTrip_safe_aux _ h5, roundTrip_safe_aux _ h6, roundTrip_safe_aux _ h7,
    roundTrip_safe_aux _ h8]

/-- non-finite values are not special: −inf, +inf and NaN as statistic, quantile entry or distribution entry come back
    as the same float through either loader -/
theorem nonfinite_survive (x : F64) :
    roundTrip (.npFloat64 x) = .pyFloat x ∧ roundTrip (.pyFloat x) = .pyFloat x ∧
    roundTrip (.tuple (.cons (.npFloat64 x) (.cons (.pyFloat .nan) .nil))) =
      .list (.cons (.pyFloat x) (.cons (.pyFloat .nan) .nil)) ∧
    roundTrip (.pyFloat x) ≠ .none := by
  refine ⟨rfl, rfl, rfl, ?_⟩
  simp [roundTrip, toJson, fromJson]

/-- the in-memory pair `cls.from_dict(r.to_dict())` keeps every field as it is (no JSON normalisation) and replaces
    `test_distribution` by its list form; it fails exactly when `to_dict` does -/
theorem from_dict_to_dict (r : Result) :
    (fromDictToDict r = none ↔ tdList r.testDistribution = none) ∧
    ∀ r', fromDictToDict r = some r' → r'.cls = r.cls ∧ r'.name = r.name ∧ r'.observedStatistic = r.observedStatistic ∧
      r'.quantile = r.quantile ∧ r'.status = r.status ∧ r'.minMw = r.minMw ∧
      tdList r.testDistribution = some r'.testDistribution := by
  unfold fromDictToDict
  cases h : tdList r.testDistribution with
  | none => simp
  | some td =>
    refine ⟨by simp, ?_⟩
    intro r' hr
    simp only [Option.map_some, Option.some.injEq] at hr
    subst hr
    exact ⟨rfl, rfl, rfl, rfl, rfl, rfl, rfl⟩

/-- a non-numeric `test_distribution` that is a bare string (w_test stores 'normal') is NOT preserved: to_dict turns
    it into the list of its characters.  (The property only speaks about numeric distributions.) -/
theorem string_distribution_split :
    tdList (.str "ab") = some (.list (.cons (.str "a") (.cons (.str "b") .nil))) := by rfl

/-! ## regions -/

/-- C18: an unmasked region rebuilt from its dictionary is the same region … -/
theorem rebuild_eq (r : Region) (h : r.mask = none) : Region.fromDict r.toDict = r := by
  cases r; simp_all [Region.fromDict, Region.toDict]

/-- … hence assigns every point the same cell index (or the same "outside"), for every lattice and every point. -/
theorem rebuild_same_index (r : Region) (h : r.mask = none) (p : Rat × Rat) :
    (Region.fromDict r.toDict).indexOf p = r.indexOf p := by rw [rebuild_eq r h]

/-- … and agrees with the original on every observable whatsoever (index maps, bounds, counts, …). -/
theorem rebuild_any_observable {β : Type} (f : Region → β) (r : Region) (h : r.mask = none) :
    f (Region.fromDict r.toDict) = f r := by rw [rebuild_eq r h]

/-- the hypothesis "unmasked" is necessary: the dictionary does not store the mask, so a masked cell becomes valid -/
theorem masked_region_not_preserved :
    ∃ (r : Region) (p : Rat × Rat), r.mask ≠ none ∧ (Region.fromDict r.toDict).indexOf p ≠ r.indexOf p :=
  ⟨{ origins := [(0, 0), (1, 0)], dh := 1, mask := some [true, false], name := "m" }, ((3 : Rat) / 2, (1 : Rat) / 2),
    by simp, by decide +kernel⟩

/-! ## non-vacuity -/

-- a safe nested value with NaN, a tuple inside a list, None
example : Safe (.tuple (.cons (.npFloat64 .nan) (.cons (.list (.cons (.pyInt 3) (.cons .none .nil))) .nil))) := by
  simp [Safe, SafeL]
example : roundTrip (.tuple (.cons (.npFloat64 .nan) (.cons (.pyInt 3) .nil))) =
    .list (.cons (.pyFloat .nan) (.cons (.pyInt 3) .nil)) := rfl
-- the former defect D29: min_mw = numpy.int64(4) of a forecast with integer magnitude edges now comes back as the int 4
example : roundTrip (.npInt64 4) = .pyInt 4 ∧ roundTrip (.npInt64 4) = norm (.npInt64 4) :=
  ⟨rfl, roundtrip_safe _ (by simp [Safe])⟩
-- result_roundtrip's hypotheses are met by a number-test-like result
example : ∃ r : Result, r.cls ∈ resultClasses ∧ tdList r.testDistribution = some (.list (.cons (.str "poisson") (.cons (.npFloat64 (.num 7)) .nil)))
    ∧ Safe r.testDistribution ∧ Safe r.quantile :=
  ⟨{ cls := "EvaluationResult", testDistribution := .tuple (.cons (.str "poisson") (.cons (.npFloat64 (.num 7)) .nil)),
     name := .str "N", observedStatistic := .pyInt 3, quantile := .tuple (.cons (.npFloat64 (.num 1)) (.cons (.npFloat64 (.num 2)) .nil)),
     status := .str "normal", obsCatalogRepr := .str "", simName := .str "f", obsName := .str "c", minMw := .npFloat64 (.num 4) },
   by decide, rfl, by simp [Safe, SafeL], by simp [Safe, SafeL]⟩
-- an unmasked lattice where points are located
example : (Region.mk [(0, 0), (1, 0)] 1 none "r").indexOf ((3 : Rat) / 2, (1 : Rat) / 2) = some 1 := by decide +kernel

end ResultJson
