import PycsepVerif.Proofs.PersistText
import PycsepVerif.Properties.C14

/-!
# C14, text level — from the catalog to the CHARACTERS of the CSEP-ASCII file and back

`Model/PersistText.lean` transcribes the two `csv` objects of the persistence path (`csv.DictWriter` in `write_ascii`,
`csv.reader` in `csep_ascii`) at character level and the cell-by-cell conversion of `csep_ascii`.  The theorems below
discharge what `Properties/C14.lean` assumed about CSV ("the file is the list of records of cells"): quoting is proved
to be inverted by the reader's state machine for ALL cell contents, and the ASCII round trip is stated on the characters
of the file.  The float text codec stays a parameter here (`FloatCodec (List Char)`); `Properties/C14_Float.lean`
instantiates it.
-/
namespace PersistText
open Persist Time

/-- **CSV quoting round-trips, no hypothesis.**  For every list of records and every cell content — delimiters, quote
    characters, blanks, line ends inside a cell, empty cells, the record of one empty cell, empty records — the reader
    (`csv.reader`, default dialect) returns exactly the records the writer (`csv.writer`, QUOTE_MINIMAL, "\r\n") wrote. -/
theorem csv_roundtrip (rs : List (List Str)) : csvRead (writeRecords rs) = rs := csvRead_writeRecords rs

/-- append mode: records written after earlier ones (`open(…, 'a', newline='')`) are read after them -/
theorem csv_append (a b : List (List Str)) : csvRead (writeRecords a ++ writeRecords b) = a ++ b := csvRead_append a b

/-- a cell is written without quotes exactly when it contains none of `,` `"` CR LF; then the text IS the cell -/
theorem plain_cell_unquoted (f : Str) (h : needsQuote f = false) : writeField f = f := by simp [writeField, h]

/-- a quoted cell: opening quote, the content with every quote doubled, closing quote (length = |f| + 2 + #quotes) -/
theorem quoted_cell_length (f : Str) (h : needsQuote f = true) :
    (writeField f).length = f.length + 2 + f.count '"' := by
  have hb : ∀ g : Str, (quoteBody g).length = g.length + g.count '"' := by
    intro g
    induction g with
    | nil => rfl
    | cons c cs ih =>
      by_cases hc : c = '"'
      · subst hc; simp [quoteBody, ih]; omega
      · have : (c == '"') = false := by simpa using hc
        simp [quoteBody, this, ih, List.count_cons, hc]; omega
  simp [writeField, h, hb]; omega

/-- **the text model of `csep_ascii` refines the record model**: on the characters that the csv writer produces for any
    list of file records (header records anywhere; data records whose first cell is not the word `lon`), loading from
    the text is loading from the records — the same events, the same catalog id, the same class of error -/
theorem text_refines_records (c : FloatCodec Str) (hc : c.dec "lon".toList = none) (ls : List (Line Str))
    (h : ∀ r, Line.row r ∈ ls → r.lon ≠ "lon".toList) :
    loadText c (renderLines ls) = liftRes (loadAscii c ls) := by
  unfold loadText renderLines loadAscii
  rw [csvRead_writeRecords]
  exact readRecords_lines c hc ls h true 0

theorem rows_not_header {R} (c : FloatCodec Str) (hs : HeaderSafe c) (cat : Catalog R) (hdr emp : Bool) (hasId : Bool) :
    ∀ r, Line.row r ∈ writeAsciiG c cat hdr emp false [] hasId → r.lon ≠ "lon".toList := by
  intro r hr
  have : ∃ e : Event, r.lon = c.enc e.lon := by
    unfold writeAsciiG at hr
    cases hdr <;> cases emp <;> cases hasId <;> cases hev : cat.events.isEmpty <;>
      simp [hev, rowOf, rowOfNoId] at hr <;>
      (first
        | (obtain ⟨e, _, he⟩ := hr; exact ⟨e, by rw [← he]⟩)
        | exact absurd hr (by simp))
  obtain ⟨e, he⟩ := this
  rw [he]
  exact hs.2 _

/-- **C14 (ASCII) on the characters of the file.**  `write_ascii` to text, `csep.load_catalog` from that text: the same
    events in the same order with identical id, origin time and float fields, and the integer catalog id (non-empty
    catalog) — for every list of events, header on/off, `write_empty` on/off, and whatever characters the ids contain
    (CSV quoting is inside the model).  Remaining hypothesis: the float text codec round-trips on the values of the
    catalog and does not spell a number `lon`. -/
theorem ascii_text_roundtrip {R} (c : FloatCodec Str) (hs : HeaderSafe c) (cat : Catalog R) (writeHeader writeEmpty : Bool)
    (old : Str) (h : ∀ e ∈ cat.events, EventOk e ∧ EventCodecOk c e) :
    loadText c (writeText c cat writeHeader writeEmpty false old true)
      = .ok (cat.events, loadedCatId cat.events cat.catalogId) := by
  unfold writeText
  simp only [Bool.false_eq_true, if_false, List.nil_append]
  rw [text_refines_records c hs.1 _ (rows_not_header c hs cat writeHeader writeEmpty true), writeAsciiG_with_id,
    ascii_roundtrip c cat writeHeader writeEmpty [] h]
  rfl

/-- the same without an id column in the catalog array: ids become the record indices, everything else is kept -/
theorem ascii_text_roundtrip_no_id_column {R} (c : FloatCodec Str) (hs : HeaderSafe c) (cat : Catalog R)
    (writeHeader writeEmpty : Bool) (old : Str) (h : ∀ e ∈ cat.events, EventTimeOk e ∧ EventCodecOk c e) :
    loadText c (writeText c cat writeHeader writeEmpty false old false)
      = .ok (renumber (if writeHeader then 1 else 0) cat.events, loadedCatId cat.events cat.catalogId) := by
  unfold writeText
  simp only [Bool.false_eq_true, if_false, List.nil_append]
  rw [text_refines_records c hs.1 _ (rows_not_header c hs cat writeHeader writeEmpty false),
    ascii_roundtrip_no_id_column c cat writeHeader writeEmpty [] h]
  rfl

/-- **append mode on characters**: the text of `a`, then `b` appended without header, loads as `a.events ++ b.events` -/
theorem ascii_text_append {R} (c : FloatCodec Str) (hs : HeaderSafe c) (a b : Catalog R) (writeHeader writeEmpty : Bool)
    (ha : ∀ e ∈ a.events, EventOk e ∧ EventCodecOk c e) (hb : ∀ e ∈ b.events, EventOk e ∧ EventCodecOk c e) :
    loadText c (writeText c b false writeEmpty true (writeText c a writeHeader writeEmpty false [] true) true)
      = .ok (a.events ++ b.events,
          if b.events = [] then loadedCatId a.events a.catalogId else some (b.catalogId.getD (-1))) := by
  have hA := rows_not_header c hs a writeHeader writeEmpty true
  have hB := rows_not_header c hs b false writeEmpty true
  have hjoin : writeText c b false writeEmpty true (writeText c a writeHeader writeEmpty false [] true) true
      = renderLines (writeAscii c b false writeEmpty true (writeAscii c a writeHeader writeEmpty false [])) := by
    simp only [writeText, Bool.false_eq_true, if_false, if_true, List.nil_append, writeAsciiG_with_id, renderLines,
      writeRecords]
    rw [← List.flatMap_append, ← List.map_append]
    congr 2
  rw [hjoin, text_refines_records c hs.1]
  · rw [append_concat_any c a b writeHeader writeEmpty ha hb]
    rfl
  · intro r hr
    have : Line.row r ∈ writeAsciiG c a writeHeader writeEmpty false [] true ∨
        Line.row r ∈ writeAsciiG c b false writeEmpty false [] true := by
      simp only [writeAsciiG_with_id]
      simp only [writeAscii, Bool.false_eq_true, if_false, if_true, List.nil_append] at hr ⊢
      rw [List.mem_append] at hr
      exact hr
    rcases this with h | h
    · exact hA r h
    · exact hB r h

/-! ### non-vacuity: real text, evaluated by the kernel -/

/-- an id with a delimiter, a quote, a semicolon and blanks is written quoted with the quote doubled -/
example : writeRecord ["1.5".toList, "a,b\" ;".toList, [], " x ".toList] = "1.5,\"a,b\"\" ;\",, x \r\n".toList := by
  decide +kernel

/-- the record of one empty cell, the empty record, cells holding line ends -/
example : csvRead (writeRecords [[[]], [], ["a\r\nb".toList, "\n".toList], [[], []]])
    = [[[]], [], ["a\r\nb".toList, "\n".toList], [[], []]] := by decide +kernel

/-- the reader on text the writer never produces: LF / CR / no final line end, a quote inside an unquoted cell,
    characters after a closing quote, an empty line (→ the empty record) -/
example : csvRead "a,b\nc\rd\r\n\r\n\"x\"y,z\"q".toList
    = [["a".toList, "b".toList], ["c".toList], ["d".toList], [], ["xy".toList, "z\"q".toList]] := by decide +kernel

/-- an empty line inside a catalog file: `line[0]` raises IndexError -/
example (c : FloatCodec Str) : loadText c "\r\n".toList = .error .indexError := by
  simp [loadText, csvRead, CsvState.init, step, stepStartRecord, afterNl, finish, readRecords, isHeader]

end PersistText
