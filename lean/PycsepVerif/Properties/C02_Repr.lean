import PycsepVerif.Proofs.ReprDecimals
import PycsepVerif.Properties.C02
import PycsepVerif.Properties.C02_Decimal
/-!
# C02 — `cleaner_range` / `magnitude_bins` with `num_decimals` INSIDE the model

Until round 4 the number of decimals that `repr` shows for `start` and `h` was an input of the model (`cleanerRange_exact` takes
`m` and the integers `S`, `D` as given and assumes "`repr` shows m decimals"). Here `num_decimals` is the model's own
`ReprDec.numDecimals` (computed from `DecimalText.reprValue`, the value of `repr(x)`, which is proved to read back), and the
statement of the property — "the library's bin-edge generators return exactly the floats closest to the decimal grid
start + k·step" — is proved for `cleanerRangeAuto`, the function with no outside input, with `start` and `step` read as the
decimals Python prints for them.
-/
namespace Bin1d
open Soft64 DecimalText ReprDec

/-- **the decimals `num_decimals` reports are enough** (any rational, in particular any float): `repr(x)` denotes `z/10^d` with
`d = num_decimals(x)` -/
theorem numDecimals_denotes (x : ℚ) : ∃ z : ℤ, reprValue x = (z : ℚ) / ((10 ^ numDecimals x : ℕ) : ℚ) := numDecimals_spec x

/-- every normal (or zero) binary64 is the double nearest to the decimal `repr` prints, which has at most
`num_decimals(x)` places — the premise "start and step are decimal numbers" of `cleaner_range` holds for EVERY float argument -/
theorem float_is_nearest_of_its_repr {x : ℚ} (hx : IsF64 x) (hn : x = 0 ∨ pow2 (-1022) ≤ |x|) {m : ℕ} (hm : numDecimals x ≤ m) :
    ∃ z : ℤ, reprValue x = (z : ℚ) / ((10 ^ m : ℕ) : ℚ) ∧ x = fl64 ((z : ℚ) / ((10 ^ m : ℕ) : ℚ)) :=
  float_eq_fl64_decimal hx hn hm

/-- **C02 "the library's bin-edge generators return exactly the floats closest to the decimal grid start + k·step", with
nothing supplied from outside.** For binary64 `start`, `h` (zero or normal): let `m = max(num_decimals(start), num_decimals(h))`
as the CODE computes it, and `S`, `D` the integers with `repr(start) = S/10^m`, `repr(h) = D/10^m` (they exist:
`float_is_nearest_of_its_repr`). If `m ≤ 22`, `D > 0`, `|S| + (cnt+1)·D ≤ 2^50` and `end` is the double nearest to
`(S + cnt·D)/10^m`, then `cleaner_range(start, end, h)` takes its main path and returns exactly `cnt + 1` edges, edge k being
the double nearest to `(S + k·D)/10^m`. -/
theorem cleanerRange_repr_exact (start h : ℚ) (hsF : IsF64 start) (hsN : start = 0 ∨ pow2 (-1022) ≤ |start|)
    (hhF : IsF64 h) (hhN : h = 0 ∨ pow2 (-1022) ≤ |h|) (S D : ℤ) (cnt : ℕ)
    (hm : max (numDecimals start) (numDecimals h) ≤ 22)
    (hS : reprValue start = (S : ℚ) / ((10 ^ max (numDecimals start) (numDecimals h) : ℕ) : ℚ))
    (hD : reprValue h = (D : ℚ) / ((10 ^ max (numDecimals start) (numDecimals h) : ℕ) : ℚ))
    (hDpos : 0 < D) (hb : |S| + ((cnt : ℤ) + 1) * D ≤ 2 ^ 50) :
    cleanerRangeAuto start
        (fl64 (((S + cnt * D : ℤ) : ℚ) / ((10 ^ max (numDecimals start) (numDecimals h) : ℕ) : ℚ))) h
      = decimalGrid S D (max (numDecimals start) (numDecimals h)) (cnt + 1) := by
  have e1 : fl64 ((S : ℚ) / ((10 ^ max (numDecimals start) (numDecimals h) : ℕ) : ℚ)) = start := by
    rw [← hS]; exact reprValue_roundtrip hsF hsN
  have e2 : fl64 ((D : ℚ) / ((10 ^ max (numDecimals start) (numDecimals h) : ℕ) : ℚ)) = h := by
    rw [← hD]; exact reprValue_roundtrip hhF hhN
  have key := cleanerRange_exact S D (max (numDecimals start) (numDecimals h)) cnt hm hDpos hb
  rw [e1, e2] at key
  unfold cleanerRangeAuto Region.cleanerRangeAll
  rw [key]

/-- … and these edges obey the binning property end to end (`cleanerRange_bins_ok` without the decimal input): on the grid
`cleaner_range` returns, under `DecimalGridOK`, every float64 value in range gets an answer the property allows and every edge
opens its own bin -/
theorem cleanerRange_repr_bins_ok (start h : ℚ) (hsF : IsF64 start) (hsN : start = 0 ∨ pow2 (-1022) ≤ |start|)
    (hhF : IsF64 h) (hhN : h = 0 ∨ pow2 (-1022) ≤ |h|) (S D : ℤ) (cnt : ℕ) (A : ℚ)
    (hm : max (numDecimals start) (numDecimals h) ≤ 22)
    (hS : reprValue start = (S : ℚ) / ((10 ^ max (numDecimals start) (numDecimals h) : ℕ) : ℚ))
    (hD : reprValue h = (D : ℚ) / ((10 ^ max (numDecimals start) (numDecimals h) : ℕ) : ℚ))
    (hb : |S| + ((cnt : ℤ) + 1) * D ≤ 2 ^ 50)
    (H : DecimalGridOK S D (max (numDecimals start) (numDecimals h)) (cnt + 1) A) (rc : Bool) (p : ℚ) (hpF : fl64 p = p)
    (hp : |p| ≤ A + 2 * ((D : ℚ) / ((10 ^ max (numDecimals start) (numDecimals h) : ℕ) : ℚ))) :
    bin1dF (cfg64 rc)
        (cleanerRangeAuto start
          (fl64 (((S + cnt * D : ℤ) : ℚ) / ((10 ^ max (numDecimals start) (numDecimals h) : ℕ) : ℚ))) h) p
      ∈ allowed (cfg64 rc)
        (cleanerRangeAuto start
          (fl64 (((S + cnt * D : ℤ) : ℚ) / ((10 ^ max (numDecimals start) (numDecimals h) : ℕ) : ℚ))) h) p := by
  rw [cleanerRange_repr_exact start h hsF hsN hhF hhN S D cnt hm hS hD H.step_pos hb]
  exact decimalGrid_mem_allowed H rc hpF hp

/-! ### non-vacuity (kernel evaluation of the model's `repr`) -/

-- `num_decimals` of 0.5, 0.07, 100.0, 1e16, 1e-5, 0.0, −9.6, 0.09999999999999964 (the D30 float difference): 1, 2, 1, 0, 5, 1, 1, 17
example : numDecimals (1 / 2) = 1 ∧ numDecimals (fl64 (7 / 100)) = 2 ∧ numDecimals 100 = 1 ∧ numDecimals (10 ^ 16) = 0 ∧
    numDecimals (fl64 (1 / 100000)) = 5 ∧ numDecimals 0 = 1 ∧ numDecimals (fl64 (-96 / 10)) = 1 ∧
    numDecimals (fsub (fl64 (-95 / 10)) (fl64 (-96 / 10))) = 17 := by decide +kernel

-- the hypotheses of `cleanerRange_repr_exact` for cleaner_range(0.5, 1.2, 0.07) (past failure D3): m = 2, S = 50, D = 7
example : max (numDecimals (1 / 2)) (numDecimals (fl64 (7 / 100))) = 2 ∧ reprValue (1 / 2) = (50 : ℚ) / ((10 ^ 2 : ℕ) : ℚ) ∧
    reprValue (fl64 (7 / 100)) = (7 : ℚ) / ((10 ^ 2 : ℕ) : ℚ) ∧ fl64 (1 / 2) = 1 / 2 ∧ fl64 (fl64 (7 / 100)) = fl64 (7 / 100) ∧
    pow2 (-1022) ≤ (1 / 2 : ℚ) ∧ pow2 (-1022) ≤ fl64 (7 / 100) := by decide +kernel
example : pow2 (-1022) ≤ |fl64 (7 / 100)| := by
  rw [abs_of_pos (by decide +kernel)]; decide +kernel

-- … and the function with no outside input returns the 11 nearest doubles of 0.50, 0.57, …, 1.20
example : cleanerRangeAuto (1 / 2) (fl64 (12 / 10)) (fl64 (7 / 100)) = decimalGrid 50 7 2 11 := by decide +kernel

-- the fallback path (a step that is not a short decimal: 17 decimals → the guard fails) is part of `cleanerRangeAuto` too
example : cleanerRangeF (fl64 (-96 / 10)) (fl64 (-94 / 10)) (fsub (fl64 (-95 / 10)) (fl64 (-96 / 10))) 17 = none := by decide +kernel

end Bin1d
