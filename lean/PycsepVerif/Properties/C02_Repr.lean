import PycsepVerif.Proofs.ReprDecimals
import PycsepVerif.Properties.C02
import PycsepVerif.Properties.C02_Decimal
import PycsepVerif.Properties.C02_Float
/-!
# C02 — `cleaner_range` / `magnitude_bins` with `num_decimals` INSIDE the model

Until round 4 the number of decimals that `repr` shows for `start` and `h` was an input of the model (`cleanerRange_exact` takes
`m` and the integers `S`, `D` as given and assumes "`repr` shows m decimals"). Here `num_decimals` is the model's own
`ReprDec.numDecimals` (computed from `DecimalText.reprValue`, the value of `repr(x)`, which is proved to read back), and the
statement of the property — "the library's bin-edge generators return exactly the floats closest to the decimal grid
start + k·step" — is proved for `cleanerRangeAuto`, the function with no outside input, with `start` and `step` read as the
decimals Python prints for them.
-/
namespace Bin1d
open Soft64 DecimalText ReprDec Region

/-- **the decimals `num_decimals` reports are enough** (any rational, in particular any float): `repr(x)` denotes `z/10^d` with
`d = num_decimals(x)` -/
theorem numDecimals_denotes (x : ℚ) : ∃ z : ℤ, reprValue x = (z : ℚ) / ((10 ^ numDecimals x : ℕ) : ℚ) := numDecimals_spec x

/-- every normal (or zero) binary64 is the double nearest to the decimal `repr` prints, which has at most
`num_decimals(x)` places — the premise "start and step are decimal numbers" of `cleaner_range` holds for EVERY float argument -/
theorem float_is_nearest_of_its_repr {x : ℚ} (hx : IsF64 x) (hn : x = 0 ∨ pow2 (-1022) ≤ |x|) {m : ℕ} (hm : numDecimals x ≤ m) :
    ∃ z : ℤ, reprValue x = (z : ℚ) / ((10 ^ m : ℕ) : ℚ) ∧ x = fl64 ((z : ℚ) / ((10 ^ m : ℕ) : ℚ)) :=
  float_eq_fl64_decimal hx hn hm

/-- **C02 "the library's bin-edge generators return exactly the floats closest to the decimal grid start + k·step", with
nothing supplied from outside.** For binary64 `start`, `h` (zero or normal): let `m = max(num_decimals(start), num_decimals(h))`
as the CODE computes it, and `S`, `D` the integers with `repr(start) = S/10^m`, `repr(h) = D/10^m` (they exist:
`float_is_nearest_of_its_repr`). If `m ≤ 22`, `D > 0`, `|S| + (cnt+1)·D ≤ 2^50` and `end` is the double nearest to
`(S + cnt·D)/10^m`, then `cleaner_range(start, end, h)` takes its main path and returns exactly `cnt + 1` edges, edge k being
the double nearest to `(S + k·D)/10^m`. -/
theorem cleanerRange_repr_exact (start h : ℚ) (hsF : IsF64 start) (hsN : start = 0 ∨ pow2 (-1022) ≤ |start|)
    (hhF : IsF64 h) (hhN : h = 0 ∨ pow2 (-1022) ≤ |h|) (S D : ℤ) (cnt : ℕ)
    (hm : max (numDecimals start) (numDecimals h) ≤ 22)
    (hS : reprValue start = (S : ℚ) / ((10 ^ max (numDecimals start) (numDecimals h) : ℕ) : ℚ))
    (hD : reprValue h = (D : ℚ) / ((10 ^ max (numDecimals start) (numDecimals h) : ℕ) : ℚ))
    (hDpos : 0 < D) (hb : |S| + ((cnt : ℤ) + 1) * D ≤ 2 ^ 50) :
    cleanerRangeAuto start
        (fl64 (((S + cnt * D : ℤ) : ℚ) / ((10 ^ max (numDecimals start) (numDecimals h) : ℕ) : ℚ))) h
      = decimalGrid S D (max (numDecimals start) (numDecimals h)) (cnt + 1) := by
  have e1 : fl64 ((S : ℚ) / ((10 ^ max (numDecimals start) (numDecimals h) : ℕ) : ℚ)) = start := by
    rw [← hS]; exact reprValue_roundtrip hsF hsN
  have e2 : fl64 ((D : ℚ) / ((10 ^ max (numDecimals start) (numDecimals h) : ℕ) : ℚ)) = h := by
    rw [← hD]; exact reprValue_roundtrip hhF hhN
  have key := cleanerRange_exact S D (max (numDecimals start) (numDecimals h)) cnt hm hDpos hb
  rw [e1, e2] at key
  unfold cleanerRangeAuto Region.cleanerRangeAll
  rw [key]

/-- … and these edges obey the binning property end to end (`cleanerRange_bins_ok` without the decimal input): on the grid
`cleaner_range` returns, under `DecimalGridOK`, every float64 value in range gets an answer the property allows and every edge
opens its own bin -/
theorem cleanerRange_repr_bins_ok (start h : ℚ) (hsF : IsF64 start) (hsN : start = 0 ∨ pow2 (-1022) ≤ |start|)
    (hhF : IsF64 h) (hhN : h = 0 ∨ pow2 (-1022) ≤ |h|) (S D : ℤ) (cnt : ℕ) (A : ℚ)
    (hm : max (numDecimals start) (numDecimals h) ≤ 22)
    (hS : reprValue start = (S : ℚ) / ((10 ^ max (numDecimals start) (numDecimals h) : ℕ) : ℚ))
    (hD : reprValue h = (D : ℚ) / ((10 ^ max (numDecimals start) (numDecimals h) : ℕ) : ℚ))
    (hb : |S| + ((cnt : ℤ) + 1) * D ≤ 2 ^ 50)
    (H : DecimalGridOK S D (max (numDecimals start) (numDecimals h)) (cnt + 1) A) (rc : Bool) (p : ℚ) (hpF : fl64 p = p)
    (hp : |p| ≤ A + 2 * ((D : ℚ) / ((10 ^ max (numDecimals start) (numDecimals h) : ℕ) : ℚ))) :
    bin1dF (cfg64 rc)
        (cleanerRangeAuto start
          (fl64 (((S + cnt * D : ℤ) : ℚ) / ((10 ^ max (numDecimals start) (numDecimals h) : ℕ) : ℚ))) h) p
      ∈ allowed (cfg64 rc)
        (cleanerRangeAuto start
          (fl64 (((S + cnt * D : ℤ) : ℚ) / ((10 ^ max (numDecimals start) (numDecimals h) : ℕ) : ℚ))) h) p := by
  rw [cleanerRange_repr_exact start h hsF hsN hhF hhN S D cnt hm hS hD H.step_pos hb]
  exact decimalGrid_mem_allowed H rc hpF hp

/-! ### non-vacuity (kernel evaluation of the model's `repr`) -/

-- `num_decimals` of 0.5, 0.07, 100.0, 1e16, 1e-5, 0.0, −9.6, 0.09999999999999964 (the D30 float difference): 1, 2, 1, 0, 5, 1, 1, 17
example : numDecimals (1 / 2) = 1 ∧ numDecimals (fl64 (7 / 100)) = 2 ∧ numDecimals 100 = 1 ∧ numDecimals (10 ^ 16) = 0 ∧
    numDecimals (fl64 (1 / 100000)) = 5 ∧ numDecimals 0 = 1 ∧ numDecimals (fl64 (-96 / 10)) = 1 ∧
    numDecimals (fsub (fl64 (-95 / 10)) (fl64 (-96 / 10))) = 17 := by decide +kernel

-- the hypotheses of `cleanerRange_repr_exact` for cleaner_range(0.5, 1.2, 0.07) (past failure D3): m = 2, S = 50, D = 7
example : max (numDecimals (1 / 2)) (numDecimals (fl64 (7 / 100))) = 2 ∧ reprValue (1 / 2) = (50 : ℚ) / ((10 ^ 2 : ℕ) : ℚ) ∧
    reprValue (fl64 (7 / 100)) = (7 : ℚ) / ((10 ^ 2 : ℕ) : ℚ) ∧ fl64 (1 / 2) = 1 / 2 ∧ fl64 (fl64 (7 / 100)) = fl64 (7 / 100) ∧
    pow2 (-1022) ≤ (1 / 2 : ℚ) ∧ pow2 (-1022) ≤ fl64 (7 / 100) := by decide +kernel
example : pow2 (-1022) ≤ |fl64 (7 / 100)| := by
  rw [abs_of_pos (by decide +kernel)]; decide +kernel

-- … and the function with no outside input returns the 11 nearest doubles of 0.50, 0.57, …, 1.20
example : cleanerRangeAuto (1 / 2) (fl64 (12 / 10)) (fl64 (7 / 100)) = decimalGrid 50 7 2 11 := by decide +kernel

-- the fallback path (a step that is not a short decimal: 17 decimals → the guard fails) is part of `cleanerRangeAuto` too
example : cleanerRangeF (fl64 (-96 / 10)) (fl64 (-94 / 10)) (fsub (fl64 (-95 / 10)) (fl64 (-96 / 10))) 17 = none := by decide +kernel

/-! ## the fallback branch of `cleaner_range` after fix D49 (steps that are not short decimals: 1/3, 1/30, 1/35, float noise)

Before the fix the branch scaled by `max(10**num_decimals(start), 1/h)` and ROUNDED THE START to a multiple of the step when `1/h` won
(`Region.fallbackRangeOld`; kernel-checked findings below). The repaired branch computes `n = int(floor((end − start)/h + 0.5))` and
`start + arange(0, n+1)·h` (`Region.fallbackRange`): the first edge is `start` itself, edge k is `fl64(start + fl64(k·h))` (no
accumulation), the count is exact, and where the returned grid is regular the binning clause of C02 holds on it. -/

theorem fallbackRange_length (s e h : ℚ) :
    (fallbackRange s e h).length = (⌊fadd (fdiv (fsub e s) h) (1 / 2)⌋ + 1).toNat := by
  unfold fallbackRange
  simp [rfloor_eq]

theorem fallbackRange_getElem? (s e h : ℚ) (k : ℕ) (hk : k < (fallbackRange s e h).length) :
    (fallbackRange s e h)[k]? = some (fadd s (fmul (k : ℚ) h)) := by
  rw [fallbackRange_length] at hk
  unfold fallbackRange
  simp only [rfloor_eq]
  rw [List.getElem?_map, List.getElem?_range hk]
  rfl

theorem fallback_first_edge (s e h : ℚ) (hs : fl64 s = s) (hne : 0 < (fallbackRange s e h).length) :
    (fallbackRange s e h)[0]? = some s := by
  rw [fallbackRange_getElem? s e h 0 hne]
  simp [fadd, fmul, Soft64R.fl64_zero, hs]

private theorem eta_le : pow2 (-1075) * 2 ^ 75 ≤ pow2 (-1000) ∧ pow2 (-1075) ≤ 1 / 2 ^ 200 := by decide +kernel

theorem fallback_quotient_err (s e h : ℚ) (hh : pow2 (-1000) ≤ h) :
    |fadd (fdiv (fsub e s) h) (1 / 2) - ((e - s) / h + 1 / 2)| ≤ 4 / 2 ^ 53 * (|e - s| / h + 1) := by
  have hhpos : 0 < h := lt_of_lt_of_le (Soft64R.pow2_pos _) hh
  have hη := Soft64R.pow2_pos (-1075)
  obtain ⟨e1, e2⟩ := eta_le
  have hηh : pow2 (-1075) / h ≤ 1 / 2 ^ 75 := by
    rw [div_le_iff₀ hhpos]
    have : pow2 (-1075) * 2 ^ 75 ≤ h := le_trans e1 hh
    have h75 : (0 : ℚ) < 2 ^ 75 := by positivity
    calc pow2 (-1075) = pow2 (-1075) * 2 ^ 75 / 2 ^ 75 := by field_simp
      _ ≤ h / 2 ^ 75 := div_le_div_of_nonneg_right this h75.le
      _ = 1 / 2 ^ 75 * h := by ring
  unfold fadd fdiv fsub
  have ea := Soft64R.fl64_err_le (e - s)
  have eb := Soft64R.fl64_err_le (fl64 (e - s) / h)
  have ec := Soft64R.fl64_err_le (fl64 (fl64 (e - s) / h) + 1 / 2)
  rw [Bin1d.pow2_m53] at ea eb ec
  set a := e - s with ha
  set a1 := fl64 a with ha1
  set b1 := fl64 (a1 / h) with hb1
  set c1 := fl64 (b1 + 1 / 2) with hc1
  set A := |a| / h with hA
  have hA0 : 0 ≤ A := div_nonneg (abs_nonneg _) hhpos.le
  -- |a1/h - a/h| ≤ u A + η/h
  have d1 : |a1 / h - a / h| ≤ 1 / 2 ^ 53 * A + 1 / 2 ^ 75 := by
    have : a1 / h - a / h = (a1 - a) / h := by ring
    rw [this, abs_div, abs_of_pos hhpos]
    have : |a1 - a| / h ≤ (|a| * (1 / 2 ^ 53) + pow2 (-1075)) / h := div_le_div_of_nonneg_right ea hhpos.le
    have e3 : (|a| * (1 / 2 ^ 53) + pow2 (-1075)) / h = 1 / 2 ^ 53 * A + pow2 (-1075) / h := by rw [hA]; ring
    linarith
  have hb : |a1 / h| ≤ A + (1 / 2 ^ 53 * A + 1 / 2 ^ 75) := by
    have : |a1 / h| ≤ |a / h| + |a1 / h - a / h| := by
      have := abs_add_le (a / h) (a1 / h - a / h)
      simpa using this
    have e4 : |a / h| = A := by rw [abs_div, abs_of_pos hhpos]
    linarith
  have d2 : |b1 - a1 / h| ≤ |a1 / h| * (1 / 2 ^ 53) + 1 / 2 ^ 200 := by linarith
  have hb1b : |b1| ≤ |a1 / h| + |b1 - a1 / h| := by
    have := abs_add_le (a1 / h) (b1 - a1 / h)
    simpa using this
  have hc : |b1 + 1 / 2| ≤ |b1| + 1 / 2 := by
    have := abs_add_le b1 (1 / 2)
    rwa [abs_of_pos (by norm_num : (0 : ℚ) < 1 / 2)] at this
  have d3 : |c1 - (b1 + 1 / 2)| ≤ |b1 + 1 / 2| * (1 / 2 ^ 53) + 1 / 2 ^ 200 := by linarith
  have tri : |c1 - (a / h + 1 / 2)| ≤ |c1 - (b1 + 1 / 2)| + |b1 - a1 / h| + |a1 / h - a / h| := by
    have h1 := abs_add_le (c1 - (b1 + 1 / 2)) ((b1 - a1 / h) + (a1 / h - a / h))
    have h2 := abs_add_le (b1 - a1 / h) (a1 / h - a / h)
    have : c1 - (a / h + 1 / 2) = (c1 - (b1 + 1 / 2)) + ((b1 - a1 / h) + (a1 / h - a / h)) := by ring
    rw [this]; linarith
  have hB : |a1 / h| ≤ 2 * A + 1 := by nlinarith
  have hB1 : |b1| ≤ 3 * A + 2 := by nlinarith
  nlinarith [hA0, d1, d2, d3, hb, hb1b, hc, tri, hB, hB1]

/-- **the repaired fallback returns the exact count**: if the exact quotient `(end − start)/h + 1/2` lies at least
`τ = 2^-51·(|end − start|/h + 1)` inside `[k, k+1)`, the returned grid has exactly `k + 1` edges -/
theorem fallback_count_exact (s e h : ℚ) (hh : pow2 (-1000) ≤ h) (k : ℤ)
    (hk1 : (k : ℚ) + 4 / 2 ^ 53 * (|e - s| / h + 1) ≤ (e - s) / h + 1 / 2)
    (hk2 : (e - s) / h + 1 / 2 + 4 / 2 ^ 53 * (|e - s| / h + 1) < (k : ℚ) + 1) :
    (fallbackRange s e h).length = (k + 1).toNat := by
  rw [fallbackRange_length]
  have herr := abs_le.mp (fallback_quotient_err s e h hh)
  have : ⌊fadd (fdiv (fsub e s) h) (1 / 2)⌋ = k := by
    rw [Int.floor_eq_iff]
    constructor <;> linarith [herr.1, herr.2]
  rw [this]

/-- edge k of the repaired fallback lies within one rounding of the product and one of the sum of the exact `start + k·h` -/
theorem fallback_edge_near (s e h : ℚ) (k : ℕ) (hk : k < (fallbackRange s e h).length) :
    ∃ x, (fallbackRange s e h)[k]? = some x ∧
      |x - (s + (k : ℚ) * h)| ≤ (|(k : ℚ) * h| * pow2 (-53) + pow2 (-1075)) +
        (|s + fl64 ((k : ℚ) * h)| * pow2 (-53) + pow2 (-1075)) := by
  refine ⟨_, fallbackRange_getElem? s e h k hk, ?_⟩
  unfold fadd fmul
  have e1 := Soft64R.fl64_err_le ((k : ℚ) * h)
  have e2 := Soft64R.fl64_err_le (s + fl64 ((k : ℚ) * h))
  have : fl64 (s + fl64 ((k : ℚ) * h)) - (s + (k : ℚ) * h)
      = (fl64 (s + fl64 ((k : ℚ) * h)) - (s + fl64 ((k : ℚ) * h))) + (fl64 ((k : ℚ) * h) - (k : ℚ) * h) := by ring
  rw [this]
  have := abs_add_le (fl64 (s + fl64 ((k : ℚ) * h)) - (s + fl64 ((k : ℚ) * h))) (fl64 ((k : ℚ) * h) - (k : ℚ) * h)
  linarith

/-- when the guard of the main path fails, `cleaner_range` IS the repaired fallback -/
theorem cleanerRangeAuto_fallback (s e h : ℚ) (hg : cleanerRangeF s e h (max (numDecimals s) (numDecimals h)) = none) :
    cleanerRangeAuto s e h = fallbackRange s e h := by
  unfold cleanerRangeAuto Region.cleanerRangeAll
  rw [hg]

/-- **C02 on the grids the fallback returns**: where the returned edge array is a `RegularF64Grid` (decidable: `regularGridB`), every
float64 point that is `PointOK` gets an answer the property allows, and every edge opens its own bin -/
theorem fallback_bins_ok (s e h : ℚ) (G : RegularF64Grid (fallbackRange s e h)) (rc : Bool) {p : ℚ}
    (P : PointOK (fallbackRange s e h) p) :
    bin1dF (cfg64 rc) (fallbackRange s e h) p ∈ allowed (cfg64 rc) (fallbackRange s e h) p ∧
    ∀ j (hj : j < (fallbackRange s e h).length) (_ : PointOK (fallbackRange s e h) ((fallbackRange s e h).getD j 0)),
      bin1dF (cfg64 rc) (fallbackRange s e h) ((fallbackRange s e h).getD j 0) = j :=
  ⟨bin1dF_mem_allowed rc G P, fun j hj Pj => bin1dF_edge_own_bin rc G hj Pj⟩

/-! ### kernel-checked findings: the code BEFORE fix D49 (`fallbackRangeOld`) displaced the start -/

/-- the float 0.0712345678901234 (a 16-digit decimal: its scale 10^16 fails the guard, `1/h = 14.04 > 10 = 10**num_decimals(5.0)`) -/
def hNoisy : ℚ := fl64 (712345678901234 / 10000000000000000)

/-- FINDING D49 (old code): `cleaner_range(5.0, 6.0, 0.0712345678901234)[0] == 4.986419752308638`, not 5.0 -/
theorem finding_cleaner_fallback_displaced_50 :
    (cleanerRangeAutoOld 5 6 hNoisy).head? = some (fl64 (4986419752308638 / 1000000000000000)) ∧
    (cleanerRangeAutoOld 5 6 hNoisy).head? ≠ some 5 := by decide +kernel

/-- FINDING D49 (old code): `cleaner_range(0.3, 0.3 + 3/35, 1/35)[0] == 0.2857142857142857`, not 0.3 -/
theorem finding_cleaner_fallback_displaced_035 :
    (cleanerRangeAutoOld (fl64 (3 / 10)) (fadd (fl64 (3 / 10)) (fmul 3 (fl64 (1 / 35)))) (fl64 (1 / 35))).head?
      = some (fl64 (2857142857142857 / 10000000000000000)) := by decide +kernel

/-- … the repaired code returns the start itself, 15 edges up to 6.0 and 4 edges for the 1/35 grid (kernel evaluation) -/
example : (cleanerRangeAuto 5 6 hNoisy).head? = some 5 ∧ (cleanerRangeAuto 5 6 hNoisy).length = 15 ∧
    cleanerRangeF 5 6 hNoisy (max (numDecimals 5) (numDecimals hNoisy)) = none := by decide +kernel
example : (cleanerRangeAuto (fl64 (3 / 10)) (fadd (fl64 (3 / 10)) (fmul 3 (fl64 (1 / 35)))) (fl64 (1 / 35))).head? = some (fl64 (3 / 10)) ∧
    (cleanerRangeAuto (fl64 (3 / 10)) (fadd (fl64 (3 / 10)) (fmul 3 (fl64 (1 / 35)))) (fl64 (1 / 35))).length = 4 := by decide +kernel
-- the hypotheses of `fallback_count_exact` (k = 14) and of `fallback_bins_ok` (regular grid) for cleaner_range(5.0, 6.0, 0.0712…)
example : pow2 (-1000) ≤ hNoisy ∧ ((14 : ℤ) : ℚ) + 4 / 2 ^ 53 * (|(6 : ℚ) - 5| / hNoisy + 1) ≤ (6 - 5) / hNoisy + 1 / 2 ∧
    (6 - 5) / hNoisy + 1 / 2 + 4 / 2 ^ 53 * (|(6 : ℚ) - 5| / hNoisy + 1) < ((14 : ℤ) : ℚ) + 1 := by
  refine ⟨by decide +kernel, ?_, ?_⟩
  · rw [abs_of_pos (by norm_num)]; decide +kernel
  · rw [abs_of_pos (by norm_num)]; decide +kernel
example : RegularF64Grid (fallbackRange 5 6 hNoisy) := regularGridB_sound (by decide +kernel)

end Bin1d
