import PycsepVerif.Proofs.PoissonEvents

/-!
# C05, round 4 — the L / CL statistic in the per-event view ("mis-indexing target bins")

The code scores target BINS with multiplicities (`log_bin_expectations[target_idx] * observed_data_nonzero`); the forecast
class offers the per-EVENT view `target_event_rates` / `get_rates` (forecasts.py:286-358: `data[idx, idm]` for every event).
Proved here for every rectangular rate table, every catalog inside region and magnitude range: the two views give the same
number — every event contributes the log-rate of its own bin, exactly once.
-/
namespace PoissonTest
open RealOps PoissonLL Gridding

/-- finite closed form of the unnormalised statistic over ALL bins -/
theorem stat_unnorm_closed (bins : List (ℝ × ℕ)) (hnn : ∀ p ∈ bins, 0 ≤ p.1) (hpos : ∀ p ∈ bins, 0 < p.2 → 0 < p.1) :
    stat false bins = .fin ((bins.map (fun p => (p.2 : ℝ) * Real.log p.1)).sum
      - (bins.map (fun p => Real.log (p.2.factorial : ℝ))).sum - (bins.map (·.1)).sum) := by
  rw [jointLL_eq_sum_logpmf bins hnn hpos]
  congr 1
  induction bins with
  | nil => simp
  | cons p bins ih =>
    have ih' := ih (fun q hq => hnn q (List.mem_cons_of_mem _ hq)) (fun q hq => hpos q (List.mem_cons_of_mem _ hq))
    simp only [List.map_cons, List.sum_cons, ih']
    have h1 : Real.log (poissonPmf p.1 p.2) = (p.2 : ℝ) * Real.log p.1 - Real.log (p.2.factorial : ℝ) - p.1 := by
      by_cases hw : p.2 = 0
      · have e2 := logPmf_zero_count p.1
        unfold logPmf at e2
        rw [hw]
        split at e2
        · cases e2
        · injection e2 with e2
          rw [e2]; simp
      · have hl : 0 < p.1 := hpos p List.mem_cons_self (Nat.pos_of_ne_zero hw)
        have e2 := logPmf_pos p.1 p.2 hl
        unfold logPmf at e2
        split at e2
        · cases e2
        · injection e2 with e2
          rw [e2]; ring
    rw [h1]; ring

/-- **the L / CL statistic in the per-event view.** For a catalog inside region and magnitude range whose events all lie in
    bins of positive rate, the observed statistic the code computes from the count matrix (target bins, multiplicities) is
    `Σ_events log λ(cell e, bin e) − Σ_bins log(w!) − N_fore`: each event contributes the log-rate of ITS OWN bin, once
    (`forecast.target_event_rates` / `get_rates`, forecasts.py:286-358, is that list of rates). -/
theorem stat_L_eq_sum_over_events (ncell nbin : ℕ) (lam : ℕ → ℕ → ℝ) (evs : List Ev) (hR : InRange ncell nbin evs)
    (hnn : ∀ i k, 0 ≤ lam i k) (hpos : ∀ e ∈ evs, 0 < lam (e.cell.getD 0) (e.bin.getD 0)) :
    testStat .L (table ncell nbin lam) (countMatrix ncell nbin evs) =
      .fin ((evs.map (fun e => Real.log (lam (e.cell.getD 0) (e.bin.getD 0)))).sum
        - ((countMatrix ncell nbin evs).flatten.map (fun w => Real.log (w.factorial : ℝ))).sum
        - (table ncell nbin lam).flatten.sum) := by
  unfold testStat
  simp only
  have hb := bins_of_table ncell nbin lam evs
  have hmem : ∀ p ∈ (table ncell nbin lam).flatten.zip (countMatrix ncell nbin evs).flatten,
      ∃ i k, p = (lam i k, evs.countP (fun e => e.cell == some i && e.bin == some k)) := by
    rw [hb]
    intro p hp
    obtain ⟨r, hr, hpr⟩ := List.mem_flatten.mp hp
    obtain ⟨i, _, rfl⟩ := List.mem_map.mp hr
    obtain ⟨k, _, rfl⟩ := List.mem_map.mp hpr
    exact ⟨i, k, rfl⟩
  rw [stat_unnorm_closed _ (by intro p hp; obtain ⟨i, k, rfl⟩ := hmem p hp; exact hnn i k) (by
    intro p hp hw
    obtain ⟨i, k, rfl⟩ := hmem p hp
    obtain ⟨e, he, hc⟩ := List.countP_pos_iff.mp hw
    simp only [Bool.and_eq_true, beq_iff_eq] at hc
    have := hpos e he
    rw [hc.1, hc.2] at this
    simpa using this)]
  congr 1
  have hlen : (table ncell nbin lam).flatten.length = (countMatrix ncell nbin evs).flatten.length := by
    unfold table countMatrix
    rw [List.length_flatten, List.length_flatten, List.map_map, List.map_map]
    congr 1
    apply List.map_congr_left
    intro i _
    simp
  have e1 : ((table ncell nbin lam).flatten.zip (countMatrix ncell nbin evs).flatten).map (·.1) = (table ncell nbin lam).flatten :=
    zip_fst hlen
  have e2 : ((table ncell nbin lam).flatten.zip (countMatrix ncell nbin evs).flatten).map
      (fun p => Real.log (p.2.factorial : ℝ)) = (countMatrix ncell nbin evs).flatten.map (fun w => Real.log (w.factorial : ℝ)) := by
    have : (fun p : ℝ × ℕ => Real.log (p.2.factorial : ℝ)) = (fun w : ℕ => Real.log (w.factorial : ℝ)) ∘ Prod.snd := rfl
    rw [this, ← List.map_map, show (List.map Prod.snd _) = _ from zip_snd hlen]
  rw [e1, e2]
  congr 2
  -- the weighted log-rate sum, bin by bin = event by event
  rw [hb, sum_flatten_map, List.map_map]
  have := sum_counts_mul_eq_sum_events ncell nbin (fun i k => Real.log (lam i k)) evs hR
  rw [← this]
  congr 1
  apply List.map_congr_left
  intro i _
  simp only [Function.comp, List.map_map]
  rfl

/-- `forecast.get_rates` on a rectangular table returns, event by event, the rate of the event's own (cell, bin) -/
theorem targetEventRates_table (ncell nbin : ℕ) (lam : ℕ → ℕ → ℝ) : ∀ (evs : List Ev), InRange ncell nbin evs →
    targetEventRates (table ncell nbin lam) (evs.map (fun e => (e.cell.getD 0, e.bin.getD 0))) =
      some (evs.map (fun e => lam (e.cell.getD 0) (e.bin.getD 0)))
  | [], _ => rfl
  | e :: evs, h => by
    have ih := targetEventRates_table ncell nbin lam evs (fun x hx => h x (List.mem_cons_of_mem _ hx))
    obtain ⟨⟨ci, hci, hcl⟩, ⟨bk, hbk, hbl⟩⟩ := h e List.mem_cons_self
    unfold targetEventRates at ih ⊢
    rw [List.map_cons, List.mapM_cons, ih, hci, hbk]
    simp [table, hcl, hbl, hci, hbk]

/-- **L statistic = Σ log(target event rates) − Σ log(w!) − N_fore**, with the target event rates as `get_rates` returns them -/
theorem stat_L_eq_sum_log_target_event_rates (ncell nbin : ℕ) (lam : ℕ → ℕ → ℝ) (evs : List Ev)
    (hR : InRange ncell nbin evs) (hnn : ∀ i k, 0 ≤ lam i k) (hpos : ∀ e ∈ evs, 0 < lam (e.cell.getD 0) (e.bin.getD 0)) :
    ∃ ter, targetEventRates (table ncell nbin lam) (evs.map (fun e => (e.cell.getD 0, e.bin.getD 0))) = some ter ∧
      ter.length = evs.length ∧
      testStat .L (table ncell nbin lam) (countMatrix ncell nbin evs) =
        .fin ((ter.map Real.log).sum
          - ((countMatrix ncell nbin evs).flatten.map (fun w => Real.log (w.factorial : ℝ))).sum
          - (table ncell nbin lam).flatten.sum) := by
  refine ⟨_, targetEventRates_table ncell nbin lam evs hR, by simp, ?_⟩
  rw [stat_L_eq_sum_over_events ncell nbin lam evs hR hnn hpos, List.map_map]
  rfl

example : table 2 2 (fun i k => (i + 2 * k + 1 : ℝ)) = [[1, 3], [2, 4]] := by
  simp [table, List.range_succ]; norm_num

/-! ### which coordinate each marginal test reads -/

section generic
variable {α : Type} [RealOps α]

/-- **the S-test never looks at magnitudes, the M-test never looks at locations** (catalog level, any `RealOps` instance):
    two catalogs with the same list of cell lookups get the same S result — observed entry, simulated catalogs and entries,
    quantile — whatever their magnitudes (even below the first edge); two catalogs with the same list of magnitude-bin lookups
    get the same M result whatever their locations (even outside the region: `magnitude_counts(mag_bins=…)` needs no region). -/
theorem public_S_M_ignore_other_coordinate (toQ : α → ℚ) (data : List (List α)) (nbin : ℕ) (evs evs' : List Ev)
    (draws : List ℕ) (rows : List (List ℚ)) :
    (evs.map (·.cell) = evs'.map (·.cell) →
      publicTest toQ .S data nbin evs draws rows = publicTest toQ .S data nbin evs' draws rows) ∧
    (evs.map (·.bin) = evs'.map (·.bin) →
      publicTest toQ .M data nbin evs draws rows = publicTest toQ .M data nbin evs' draws rows) := by
  constructor <;> intro h <;> simp only [publicTest, observedArray, h]

/-- the M-test grids any catalog: no event is rejected (events below the first magnitude edge are dropped, locations are
    never consulted), so the public M-test never raises a gridding error -/
theorem public_M_never_rejects (toQ : α → ℚ) (data : List (List α)) (nbin : ℕ) (evs : List Ev) (draws : List ℕ)
    (rows : List (List ℚ)) : ∃ r, publicTest toQ .M data nbin evs draws rows = .ok r := by
  simp only [publicTest, observedArray]; exact ⟨_, rfl⟩

end generic

example : observedArray .M 2 2 [⟨none, some 1⟩, ⟨some 7, some 1⟩, ⟨some 0, none⟩] = .ok [0, 2] := by decide +kernel

end PoissonTest
