import PycsepVerif.Proofs.Ecdf

/-!
# C09 — empirical quantiles treat ties and out-of-range observations exactly

Theorems about `Model/Ecdf.lean` (model of csep/utils/stats.py). A probability `(k, n)` stands for k/n.
All statements hold for every finite sample (any length, any ties) and every query value.
-/
namespace Ecdf

/-- number of sample values ≥ v / ≤ v / = v -/
def cntGE (x : List Rat) (v : Rat) : Nat := x.countP (fun a => decide (v ≤ a))
def cntLE (x : List Rat) (v : Rat) : Nat := x.countP (fun a => decide (a ≤ v))
def cntEQ (x : List Rat) (v : Rat) : Nat := x.countP (fun a => decide (a = v))

private theorem sort_ne_nil {x : List Rat} (hx : x ≠ []) : sort x ≠ [] := by
  intro h; have := (sort_perm x).length_eq; rw [h] at this
  exact hx (List.eq_nil_of_length_eq_zero this.symm)

/-- C09 "at least": greater_equal_ecdf(x, v) = #{x_i ≥ v} / n for every non-empty sample. -/
theorem ge_ecdf_eq (x : List Rat) (v : Rat) (hx : x ≠ []) :
    geEcdf x v = some (cntGE x v, x.length) := by
  have hne := sort_ne_nil hx
  have hlen : (sort x).length = x.length := (sort_perm x).length_eq
  have hs := sort_sorted x
  unfold geEcdf cntGE
  obtain ⟨e0, rest, hex⟩ := List.exists_cons_of_ne_nil hne
  have hlast : (sort x).getLast? = some ((sort x).getLast hne) := List.getLast?_eq_some_getLast hne
  have hhead : (sort x).head? = some e0 := by rw [hex]; rfl
  simp only [hhead, hlast, hlen]
  have hcount : ∀ p : Rat → Bool, (sort x).countP p = x.countP p := fun p => (sort_perm x).countP_eq p
  split
  · -- v > last : nobody is ≥ v
    rename_i hv
    have : x.countP (fun a => decide (v ≤ a)) = 0 := by
      rw [← hcount, List.countP_eq_zero]
      intro a ha; simp
      exact Rat.not_le.mpr (Std.lt_of_le_of_lt (le_getLast_of_sorted hne hs a ha) hv)
    rw [this]
  · split
    · -- v < first : everybody is ≥ v
      rename_i _ hv
      have : x.countP (fun a => decide (v ≤ a)) = x.length := by
        rw [← hcount, ← hlen, List.countP_eq_length]
        intro a ha; simp
        have h0 : e0 ≤ a := head_le_of_sorted (hex ▸ hs) a (hex ▸ ha)
        exact Rat.le_of_lt (Std.lt_of_lt_of_le hv h0)
      rw [this]
    · rw [searchLeft_sort]
      have := countP_ge_add_lt x v
      simp only [eyc]; congr 2; omega

/-- C09 "at most": less_equal_ecdf(x, v) = #{x_i ≤ v} / n for every non-empty sample. -/
theorem le_ecdf_eq (x : List Rat) (v : Rat) (hx : x ≠ []) :
    leEcdf x v = some (cntLE x v, x.length) := by
  have hne := sort_ne_nil hx
  have hlen : (sort x).length = x.length := (sort_perm x).length_eq
  have hs := sort_sorted x
  unfold leEcdf cntLE
  obtain ⟨e0, rest, hex⟩ := List.exists_cons_of_ne_nil hne
  have hlast : (sort x).getLast? = some ((sort x).getLast hne) := List.getLast?_eq_some_getLast hne
  have hhead : (sort x).head? = some e0 := by rw [hex]; rfl
  simp only [hhead, hlast, hlen]
  have hcount : ∀ p : Rat → Bool, (sort x).countP p = x.countP p := fun p => (sort_perm x).countP_eq p
  split
  · rename_i hv
    have : x.countP (fun a => decide (a ≤ v)) = x.length := by
      rw [← hcount, ← hlen, List.countP_eq_length]
      intro a ha; simp
      exact Rat.le_of_lt (Std.lt_of_le_of_lt (le_getLast_of_sorted hne hs a ha) hv)
    rw [this]
  · split
    · rename_i _ hv
      have : x.countP (fun a => decide (a ≤ v)) = 0 := by
        rw [← hcount, List.countP_eq_zero]
        intro a ha; simp
        have h0 : e0 ≤ a := head_le_of_sorted (hex ▸ hs) a (hex ▸ ha)
        exact Rat.not_le.mpr (Std.lt_of_lt_of_le hv h0)
      rw [this]
    · rename_i _ hv
      rw [searchRight_sort]
      -- e0 ≤ v and e0 is a sample value, so the count is positive
      have he0 : e0 ∈ x := (sort_perm x).mem_iff.mp (hex ▸ List.mem_cons_self)
      have hpos : 0 < x.countP (fun a => decide (a ≤ v)) :=
        List.countP_pos_iff.mpr ⟨e0, he0, by simpa using Rat.not_lt.mp hv⟩
      simp only [ey]; congr 2; omega

/-- an empty sample has no quantile (the library returns None) -/
theorem empty_none (v : Rat) : geEcdf [] v = none ∧ leEcdf [] v = none := by
  constructor <;> simp [geEcdf, leEcdf, sort]

/-- #{≥ v} + #{≤ v} = n + #{= v}: the two probabilities sum to 1 + P(X = v). -/
theorem ecdf_sum (x : List Rat) (v : Rat) :
    cntGE x v + cntLE x v = x.length + cntEQ x v := by
  unfold cntGE cntLE cntEQ
  induction x with
  | nil => rfl
  | cons a l ih =>
    simp only [List.countP_cons, List.length_cons]
    rcases Std.lt_trichotomy a v with h | h | h
    · have h1 : ¬ v ≤ a := Rat.not_le.mpr h
      have h2 : a ≤ v := Rat.le_of_lt h
      have h3 : a ≠ v := Rat.ne_of_lt h
      simp [h1, h2, h3]; omega
    · subst h; simp; omega
    · have h1 : v ≤ a := Rat.le_of_lt h
      have h2 : ¬ a ≤ v := Rat.not_le.mpr h
      have h3 : a ≠ v := (Rat.ne_of_lt h).symm
      simp [h1, h2, h3]; omega

/-- "at least" is non-increasing in v -/
theorem ge_anti (x : List Rat) {v w : Rat} (h : v ≤ w) : cntGE x w ≤ cntGE x v := by
  unfold cntGE
  apply List.countP_mono_left
  intro a _ ha; simp at *; exact Rat.le_trans h ha

/-- "at most" is non-decreasing in v -/
theorem le_mono (x : List Rat) {v w : Rat} (h : v ≤ w) : cntLE x v ≤ cntLE x w := by
  unfold cntLE
  apply List.countP_mono_left
  intro a _ ha; simp at *; exact Rat.le_trans ha h

/-- get_quantiles returns exactly the two counting probabilities -/
theorem quantiles_eq (x : List Rat) (v : Rat) (hx : x ≠ []) :
    getQuantiles x v = (some (cntGE x v, x.length), some (cntLE x v, x.length)) := by
  unfold getQuantiles; rw [ge_ecdf_eq x v hx, le_ecdf_eq x v hx]

/-- both probabilities lie in [0,1] : k ≤ n -/
theorem cnt_le_length (x : List Rat) (v : Rat) : cntGE x v ≤ x.length ∧ cntLE x v ≤ x.length :=
  ⟨List.countP_le_length, List.countP_le_length⟩

/-- binned_ecdf(x, vals) is the list of "at most" probabilities at the query values, in order -/
theorem binned_ecdf_eq (x : List Rat) (vals : List Rat) (hx : x ≠ []) :
    binnedEcdf x vals = some (vals.map (fun v => (cntLE x v, x.length))) := by
  unfold binnedEcdf
  have : x.isEmpty = false := by cases x <;> simp_all
  rw [this]; simp only [Bool.false_eq_true, if_false]
  congr 1
  induction vals with
  | nil => rfl
  | cons v vs ih => simp [le_ecdf_eq x v hx, ih]

/-- the two probabilities of `get_quantiles` always sum to at least 1 (k_ge + k_le ≥ n) -/
theorem quantiles_sum_ge (x : List Rat) (v : Rat) : x.length ≤ cntGE x v + cntLE x v := by
  have := ecdf_sum x v; omega

/-- v above every sample value: "at least" is 0 and "at most" is 1 -/
theorem above_all (x : List Rat) (v : Rat) (h : ∀ a ∈ x, a < v) : cntGE x v = 0 ∧ cntLE x v = x.length := by
  constructor
  · unfold cntGE; rw [List.countP_eq_zero]; intro a ha; simp; exact Rat.not_le.mpr (h a ha)
  · unfold cntLE; rw [List.countP_eq_length]; intro a ha; simp; exact Rat.le_of_lt (h a ha)

/-- v below every sample value: "at least" is 1 and "at most" is 0 -/
theorem below_all (x : List Rat) (v : Rat) (h : ∀ a ∈ x, v < a) : cntGE x v = x.length ∧ cntLE x v = 0 := by
  constructor
  · unfold cntGE; rw [List.countP_eq_length]; intro a ha; simp; exact Rat.le_of_lt (h a ha)
  · unfold cntLE; rw [List.countP_eq_zero]; intro a ha; simp; exact Rat.not_le.mpr (h a ha)

/-- the probabilities depend on the sample only as a multiset (order of the sample is irrelevant) -/
theorem perm_invariant {x y : List Rat} (h : x.Perm y) (v : Rat) :
    cntGE x v = cntGE y v ∧ cntLE x v = cntLE y v ∧ x.length = y.length :=
  ⟨h.countP_eq _, h.countP_eq _, h.length_eq⟩

/-- **integer data**: for a sample and a query that are integers — of any size, e.g. int64 / uint64 counts beyond 2^53
    that differ by less than the float64 spacing — the probabilities are the counts over the integers themselves
    (the embedding into the rationals is exact and order-preserving; nothing is rounded) -/
theorem int_data_exact (xs : List Int) (v : Int) (hx : xs ≠ []) :
    geEcdf (xs.map (fun (z : Int) => (z : Rat))) (v : Rat) = some (xs.countP (fun z => decide (v ≤ z)), xs.length) ∧
    leEcdf (xs.map (fun (z : Int) => (z : Rat))) (v : Rat) = some (xs.countP (fun z => decide (z ≤ v)), xs.length) := by
  have hne : xs.map (fun (z : Int) => (z : Rat)) ≠ [] := by simpa using hx
  rw [ge_ecdf_eq _ _ hne, le_ecdf_eq _ _ hne]
  simp [cntGE, cntLE, List.countP_map, Function.comp_def, Rat.intCast_le_intCast]

-- non-vacuity: three neighbouring integers above 2^53 (they round to two float64 values), query on the middle one
example : geEcdf [9007199254740992, 9007199254740993, 9007199254740994] 9007199254740993 = some (2, 3) ∧
    leEcdf [9007199254740992, 9007199254740993, 9007199254740994] 9007199254740993 = some (2, 3) := by
  rw [ge_ecdf_eq _ _ (by simp), le_ecdf_eq _ _ (by simp)]; decide +kernel

-- non-vacuity: a sample with ties, query on a tied value
example : geEcdf [3, 1, 3, 2] 3 = some (2, 4) ∧ leEcdf [3, 1, 3, 2] 3 = some (4, 4) := by
  rw [ge_ecdf_eq _ _ (by simp), le_ecdf_eq _ _ (by simp)]; decide +kernel

end Ecdf
