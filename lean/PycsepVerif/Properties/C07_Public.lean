import PycsepVerif.Properties.C07
import PycsepVerif.Proofs.NumberTestPub
import PycsepVerif.Proofs.NbdMoments

/-!
# C07, second part — the public number tests, the float64 floor arguments, the moments of the count laws

`Properties/C07.lean` is about the two array-level helpers with the observed count `n : ℕ` and `0 < ε < 1` as
hypotheses. Here the hypotheses are discharged for what the public functions actually pass
(`Model/NumberTestPub.lean`): ε is the code's `1e-6`; the float64 operations `n − ε`, `n + ε` are shown to floor to
`n − 1`, `n` for every count below 2^33 (and shown NOT to beyond: the statement has content); the forecast mean is
`numpy.sum(_data * _scale)` after any history of `scale` calls; `n` is the number of rows of the observed catalog.
The property's "N is negative-binomial with the given mean and variance" is proved of the law itself (series for
E N and E (N − mean)²), not only of the parameter formulas.
-/
namespace NumberTest
open Finset

/-! ### ε and the float64 floor -/

/-- the code's ε = 1e-6 satisfies the hypothesis `0 < ε < 1` of every theorem of `Properties/C07.lean` -/
theorem eps_code_admissible : (0 : ℝ) < (epsCode : ℝ) ∧ (epsCode : ℝ) < 1 := by
  rw [epsCode_real]; constructor <;> norm_num

/-- float64: for every count n < 2^33 the doubles `n − 1e-6` and `n + 1e-6` floor to n − 1 and n (for n = 0 to −1,
    below the support: cdf = 0), so the real-number hypothesis ⌊n − ε⌋ = n − 1, ⌊n + ε⌋ = n also holds of the
    rounded operations the code performs -/
theorem float_floor_shift (n : ℕ) (hn : n < 2 ^ 33) : shiftF n = ((n : ℤ) - 1, (n : ℤ)) := shiftF_eq n hn

/-- ... and the bound is not decoration: at n = 2^35 the double `n − 1e-6` IS n (half an ulp exceeds 1e-6), the
    tail would be exclusive there. The property's counts (≤ 1e5) are far below. -/
theorem float_floor_shift_fails_beyond : (shiftF (2 ^ 35)).1 = ((2 ^ 35 : ℕ) : ℤ) := by decide +kernel

/-! ### the forecast mean the public tests use -/

/-- after any history of `scale` calls the total is (Σ stored rates) × (the LAST factor); 1 if never scaled -/
theorem forecast_total_after_scaling (base vs : List ℝ) :
    ((GF.init base).scaleAll vs).eventCount = base.sum * (vs.getLast?).getD 1 := by
  rw [gf_eventCount, gf_scaleAll_base, gf_scaleAll_factor]; rfl

/-- `number_test(forecast, catalog).quantile` = (P(N ≥ n), P(N ≤ n)) with N Poisson of mean
    Σ rates × last scale factor and n the number of rows of the catalog — no hypothesis on ε left -/
theorem public_number_test_tails {ε : Type} (base vs : List ℝ) (events : List ε) :
    let μ := base.sum * (vs.getLast?).getD 1
    let n := events.length
    numberTestPub ((GF.init base).scaleAll vs) events
      = (∑' j, poisPmf μ (j + n), ∑ j ∈ range (n + 1), poisPmf μ j) := by
  intro μ n
  obtain ⟨h0, h1⟩ := eps_code_admissible
  unfold numberTestPub
  rw [forecast_total_after_scaling]
  exact Prod.ext (delta1_eq_upper_tail μ n h0 h1) (delta2_eq_lower_tail μ n h0 h1)

/-- the public Poisson N-test: δ1 + δ2 = 1 + P(N = n) and both in [0,1], for non-negative total -/
theorem public_number_test_sum_bounds {ε : Type} (f : GF ℝ) (events : List ε) (hμ : 0 ≤ f.eventCount) :
    let d := numberTestPub f events
    d.1 + d.2 = 1 + poisPmf f.eventCount events.length ∧ (0 ≤ d.1 ∧ d.1 ≤ 1) ∧ (0 ≤ d.2 ∧ d.2 ≤ 1) := by
  obtain ⟨h0, h1⟩ := eps_code_admissible
  exact ⟨delta_sum _ _ h0 h1, delta_bounds hμ _ h0 h1⟩

/-- only the total matters: forecasts whose stored rates are a rearrangement of each other get the same result -/
theorem public_rates_perm {ε : Type} {base base' : List ℝ} (h : base.Perm base') (c : ℝ) (events : List ε) :
    numberTestPub ⟨base, c⟩ events = numberTestPub ⟨base', c⟩ events := by
  unfold numberTestPub
  rw [gf_eventCount, gf_eventCount, h.sum_eq]

/-- scaling a forecast of non-negative rates up moves δ1 up and δ2 down ("including after scaling") -/
theorem public_scale_mono {ε : Type} (f : GF ℝ) (hb : ∀ x ∈ f.base, 0 ≤ x) {s s' : ℝ} (hs : 0 ≤ s) (h : s ≤ s')
    (events : List ε) :
    (numberTestPub (f.scale s) events).1 ≤ (numberTestPub (f.scale s') events).1 ∧
    (numberTestPub (f.scale s') events).2 ≤ (numberTestPub (f.scale s) events).2 := by
  obtain ⟨h0, h1⟩ := eps_code_admissible
  have hsum : 0 ≤ f.base.sum := List.sum_nonneg hb
  have e1 : (f.scale s).eventCount = f.base.sum * s := gf_eventCount _
  have e2 : (f.scale s').eventCount = f.base.sum * s' := gf_eventCount _
  unfold numberTestPub
  rw [e1, e2]
  have hμ : 0 ≤ f.base.sum * s := mul_nonneg hsum hs
  have hle : f.base.sum * s ≤ f.base.sum * s' := mul_le_mul_of_nonneg_left h hsum
  exact ⟨delta1_mono_mean _ h0 h1 hμ hle, delta2_anti_mean _ h0 h1 hμ hle⟩

/-- δ1 is non-increasing and δ2 non-decreasing in the observed count, for any two counts n ≤ m -/
theorem delta_mono_count_le {μ : ℝ} (hμ : 0 ≤ μ) {n m : ℕ} (hnm : n ≤ m) {ε : ℝ} (h0 : 0 < ε) (h1 : ε < 1) :
    (delta12 μ m ε).1 ≤ (delta12 μ n ε).1 ∧ (delta12 μ n ε).2 ≤ (delta12 μ m ε).2 := by
  induction m, hnm using Nat.le_induction with
  | base => exact ⟨le_refl _, le_refl _⟩
  | succ m _ ih =>
    obtain ⟨a, b⟩ := delta_mono_count hμ m h0 h1
    exact ⟨a.trans ih.1, ih.2.trans b⟩

/-- every further row of the observed catalog — whatever its magnitude or location, nothing is filtered — lowers
    δ1 and raises δ2 -/
theorem public_more_events {ε : Type} (f : GF ℝ) (hμ : 0 ≤ f.eventCount) (events extra : List ε) :
    (numberTestPub f (events ++ extra)).1 ≤ (numberTestPub f events).1 ∧
    (numberTestPub f events).2 ≤ (numberTestPub f (events ++ extra)).2 := by
  obtain ⟨h0, h1⟩ := eps_code_admissible
  unfold numberTestPub
  exact delta_mono_count_le hμ (by simp) h0 h1

/-! ### the count laws have the stated moments -/

/-- the Poisson law of the model has mean μ: "N is Poisson with the forecast total" -/
theorem pois_law_mean (μ : ℝ) : HasSum (fun k : ℕ => (k : ℝ) * poisPmf μ k) μ := poisPmf_mean μ

/-- the negative-binomial law with the code's parameters has the forecast mean as its mean (the series E N) -/
theorem nbd_law_mean {mean var : ℝ} (hm : 0 < mean) (hv : mean < var) :
    HasSum (fun k : ℕ => (k : ℝ) * nbPmf (nbdParams mean var).1 (nbdParams mean var).2 k) mean := by
  obtain ⟨_, hp0, hp1⟩ := nbd_params_admissible hm hv
  have h := nbPmf_mean (r := (nbdParams mean var).1) hp0 hp1.le
  have e := nbd_mean hm hv
  simp only at e
  rwa [e] at h

/-- ... and the given variance as its variance (the series E (N − mean)²) -/
theorem nbd_law_var {mean var : ℝ} (hm : 0 < mean) (hv : mean < var) :
    HasSum (fun k : ℕ => ((k : ℝ) - mean) ^ 2 * nbPmf (nbdParams mean var).1 (nbdParams mean var).2 k) var := by
  obtain ⟨_, hp0, hp1⟩ := nbd_params_admissible hm hv
  have h := nbPmf_centred (r := (nbdParams mean var).1) hp0 hp1.le mean
  have hv0 : var ≠ 0 := by linarith
  have hd : var - mean ≠ 0 := by linarith
  have hm0 : mean ≠ 0 := hm.ne'
  convert h using 1
  rw [nbd_params mean var hv0]
  field_simp
  ring

/-- for a positive mean the parameters are admissible (r > 0, 0 < p < 1) EXACTLY when the variance exceeds the mean:
    the quantifier "all admissible NBD variances (> mean)" is the whole domain of the law -/
theorem nbd_params_admissible_iff {mean var : ℝ} (hm : 0 < mean) (hv0 : 0 < var) :
    (0 < (nbdParams mean var).1 ∧ 0 < (nbdParams mean var).2 ∧ (nbdParams mean var).2 < 1) ↔ mean < var := by
  constructor
  · rintro ⟨_, _, hp⟩
    rw [nbd_params mean var hv0.ne'] at hp
    exact (div_lt_one hv0).mp hp
  · exact nbd_params_admissible hm

/-- NBD: P(N ≥ n+1) = 1 − P(N ≤ n) -/
theorem nbd_delta1_succ_eq_one_sub_delta2 (mean var : ℝ) (n : ℕ) {ε : ℝ} (h0 : 0 < ε) (h1 : ε < 1) :
    (nbdDelta12 mean (n + 1) var ε).1 = 1 - (nbdDelta12 mean n var ε).2 := by
  have a := nbd_delta_eq mean var (n + 1) h0 h1
  have b := nbd_delta_eq mean var n h0 h1
  simp only at a b
  rw [a, b]

/-- NBD: δ1 non-increasing, δ2 non-decreasing in the observed count, any n ≤ m -/
theorem nbd_delta_mono_count_le {mean var : ℝ} (hm : 0 < mean) (hv : mean < var) {n m : ℕ} (hnm : n ≤ m) {ε : ℝ}
    (h0 : 0 < ε) (h1 : ε < 1) :
    (nbdDelta12 mean m var ε).1 ≤ (nbdDelta12 mean n var ε).1 ∧
    (nbdDelta12 mean n var ε).2 ≤ (nbdDelta12 mean m var ε).2 := by
  obtain ⟨hr, _, hp1⟩ := nbd_params_admissible hm hv
  have hnn := nbPmf_nonneg hr.le hp1.le
  have a := nbd_delta_eq mean var m h0 h1
  have b := nbd_delta_eq mean var n h0 h1
  simp only at a b
  rw [a, b]
  have mono : ∀ {i j : ℕ}, i ≤ j →
      ∑ k ∈ range i, nbPmf (nbdParams mean var).1 (nbdParams mean var).2 k
        ≤ ∑ k ∈ range j, nbPmf (nbdParams mean var).1 (nbdParams mean var).2 k := fun {i j} hij =>
    Finset.sum_le_sum_of_subset_of_nonneg (Finset.range_mono hij) (fun k _ _ => hnn k)
  constructor
  · show 1 - _ ≤ 1 - _
    linarith [mono hnm]
  · exact mono (Nat.succ_le_succ hnm)

/-- `negative_binomial_number_test(forecast, catalog, variance).quantile` = (P(N ≥ n), P(N ≤ n)) for the
    negative-binomial law of mean Σ rates × last factor and the given variance, n = rows of the catalog -/
theorem public_nbd_test_tails {ε : Type} (base vs : List ℝ) (events : List ε) (var : ℝ)
    (hm : 0 < base.sum * (vs.getLast?).getD 1) (hv : base.sum * (vs.getLast?).getD 1 < var) :
    let μ := base.sum * (vs.getLast?).getD 1
    let n := events.length
    let tp := nbdParams μ var
    nbdNumberTestPub ((GF.init base).scaleAll vs) events var
      = (∑' j, nbPmf tp.1 tp.2 (j + n), ∑ j ∈ range (n + 1), nbPmf tp.1 tp.2 j) := by
  intro μ n tp
  obtain ⟨h0, h1⟩ := eps_code_admissible
  unfold nbdNumberTestPub
  rw [forecast_total_after_scaling]
  refine Prod.ext (nbd_delta1_eq_upper_tail hm hv n h0 h1) ?_
  have := nbd_delta_eq μ var n h0 h1
  simp only at this
  rw [this]

/-! ### catalog N-test, public level -/

/-- the catalog N-test counts catalogs by their number of rows, whatever the rows are -/
theorem catalog_public_eq {ε : Type} (catalogs : List (List ε)) (obs : List ε) (h : catalogs ≠ []) :
    catalogNTestPub catalogs obs =
      (some (catalogs.countP (fun c => decide (obs.length ≤ c.length)), catalogs.length),
       some (catalogs.countP (fun c => decide (c.length ≤ obs.length)), catalogs.length)) := by
  unfold catalogNTestPub
  rw [catalog_ntest_eq _ _ (by simpa using h)]
  simp [List.countP_map, Function.comp_def]

/-- the order in which the forecast yields its catalogs is irrelevant -/
theorem catalog_public_perm {ε : Type} {c₁ c₂ : List (List ε)} (h : c₁.Perm c₂) (obs : List ε) :
    catalogNTestPub c₁ obs = catalogNTestPub c₂ obs := by
  by_cases h1 : c₁ = []
  · subst h1; rw [List.Perm.nil_eq h]
  · have h2 : c₂ ≠ [] := fun e => h1 (by subst e; exact List.Perm.eq_nil h)
    rw [catalog_public_eq _ _ h1, catalog_public_eq _ _ h2, h.countP_eq, h.countP_eq, h.length_eq]

/-- catalog N-test: δ1 non-increasing and δ2 non-decreasing in the observed count -/
theorem catalog_ntest_mono_count (sizes : List ℕ) {n m : ℕ} (hnm : n ≤ m) :
    sizes.countP (fun k => decide (m ≤ k)) ≤ sizes.countP (fun k => decide (n ≤ k)) ∧
    sizes.countP (fun k => decide (k ≤ n)) ≤ sizes.countP (fun k => decide (k ≤ m)) := by
  constructor <;> apply List.countP_mono_left <;> intro k _ hk <;> simp only [decide_eq_true_eq] at hk ⊢ <;> omega

/-! ### array-valued scale factors; forecasts that filter on the fly -/

/-- with an array-valued `scale` factor the total is Σ stored rate × its (broadcast) factor -/
theorem array_scale_total (f : GFA ℝ) : f.eventCount = (List.zipWith (· * ·) f.base f.factors).sum := by
  unfold GFA.eventCount GFA.data
  rw [RealOps.real_sum]; rfl

/-- a constant array factor is the scalar factor -/
theorem array_scale_const (base : List ℝ) (c : ℝ) :
    (⟨base, List.replicate base.length c⟩ : GFA ℝ).eventCount = (⟨base, c⟩ : GF ℝ).eventCount := by
  rw [array_scale_total, gf_eventCount]
  induction base with
  | nil => simp
  | cons a l ih =>
    simp only [List.length_cons, List.replicate_succ, List.zipWith_cons_cons, List.sum_cons, ih]
    ring

/-- `number_test` after `forecast.scale(ndarray)`: the two tails of Poisson(Σ rate × factor), two NUMBERS -/
theorem public_array_number_test_tails {ε : Type} (f : GFA ℝ) (events : List ε) :
    let μ := (List.zipWith (· * ·) f.base f.factors).sum
    let n := events.length
    numberTestPubA f events = (∑' j, poisPmf μ (j + n), ∑ j ∈ range (n + 1), poisPmf μ j) := by
  intro μ n
  obtain ⟨h0, h1⟩ := eps_code_admissible
  unfold numberTestPubA
  rw [array_scale_total]
  exact Prod.ext (delta1_eq_upper_tail μ n h0 h1) (delta2_eq_lower_tail μ n h0 h1)

/-- the N-test on a forecast with `apply_filters` counts the FILTERED catalogs (the ones the forecast hands out) -/
theorem cf_ntest_filtered {ε : Type} (keep : ε → Bool) (cats : List (List ε)) (obs : List ε) (h : cats ≠ []) :
    (catalogNTestCF keep ⟨cats, true⟩ obs).1 =
      (some (cats.countP (fun c => decide (obs.length ≤ (c.filter keep).length)), cats.length),
       some (cats.countP (fun c => decide ((c.filter keep).length ≤ obs.length)), cats.length)) := by
  unfold catalogNTestCF CF.pass
  simp only [if_true]
  have := catalog_public_eq (cats.map (List.filter keep)) obs (by simpa using h)
  unfold catalogNTestPub at this
  rw [this]
  simp [List.countP_map, Function.comp_def]

/-- ... and without `apply_filters` the catalogs as they are, whatever filters are configured -/
theorem cf_ntest_unfiltered {ε : Type} (keep : ε → Bool) (cats : List (List ε)) (obs : List ε) :
    (catalogNTestCF keep ⟨cats, false⟩ obs).1 = catalogNTestPub cats obs := by
  simp [catalogNTestCF, CF.pass, catalogNTestPub]

/-- a pass is idempotent: what the forecast hands out does not depend on how often it was iterated before -/
theorem cf_pass_idempotent {ε : Type} (keep : ε → Bool) (f : CF ε) :
    ((f.pass keep).2.pass keep).1 = (f.pass keep).1 := by
  unfold CF.pass
  cases f.applyFilters <;> simp [List.filter_filter]

/-- history independence: the N-test as the FIRST pass over the forecast and the N-test after any number of earlier
    full passes (other tests, get_event_counts, get_expected_rates, a for-loop) give the same result -/
theorem cf_ntest_history {ε : Type} (keep : ε → Bool) (f : CF ε) (obs : List ε) (k : ℕ) :
    (catalogNTestCF keep (CF.passes keep k f) obs).1 = (catalogNTestCF keep f obs).1 := by
  induction k generalizing f with
  | zero => rfl
  | succ k ih =>
    simp only [CF.passes]
    rw [ih]
    unfold catalogNTestCF
    simp only [cf_pass_idempotent]

-- non-vacuity
example : (catalogNTestCF (fun m : ℕ => decide (5 ≤ m)) ⟨[[4, 6], [7, 7, 2], []], true⟩ [9]).1
    = (some (2, 3), some (2, 3)) := by
  rw [cf_ntest_filtered _ _ _ (by simp)]; decide
example : (⟨[1, 2, 3], [1, (1 / 2 : ℝ), 0]⟩ : GFA ℝ).eventCount = 2 := by
  rw [array_scale_total]; norm_num
example : shiftF 0 = (-1, 0) ∧ shiftF 1 = (0, 1) ∧ shiftF 100000 = (99999, 100000) :=
  ⟨float_floor_shift 0 (by norm_num), float_floor_shift 1 (by norm_num), float_floor_shift 100000 (by norm_num)⟩
example : ((GF.init [1, 2, (3 : ℝ)]).scaleAll [5, 1 / 2]).eventCount = 3 := by
  rw [forecast_total_after_scaling]; norm_num
example : (numberTestPub ((GF.init [1, (2 : ℝ)]).scaleAll []) ([] : List Unit)).1 = 1 := by
  have := public_number_test_tails [1, (2 : ℝ)] [] ([] : List Unit)
  simp only at this
  rw [this]
  simpa using (pmf_total _).tsum_eq
example : HasSum (fun k : ℕ => (k : ℝ) * nbPmf (nbdParams 2 8).1 (nbdParams 2 8).2 k) 2 :=
  nbd_law_mean (by norm_num) (by norm_num)
example : catalogNTestPub [[(), ()], [], [(), (), ()]] [(), ()] = (some (2, 3), some (2, 3)) := by
  rw [catalog_public_eq _ _ (by simp)]; decide

end NumberTest
