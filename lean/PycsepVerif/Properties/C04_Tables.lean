import PycsepVerif.Generated

/-! C04 — theorems over the source-derived operator table of `AbstractBaseCatalog.filter`
(`operators = {'>': operator.gt, ...}` in csep/core/catalogs.py, re-extracted on every run). -/
namespace C04Tables

/-- meaning of the comparison symbol a statement is written with -/
def symSem : String → Option (Rat → Rat → Bool)
  | ">" => some (fun a b => decide (a > b))
  | "<" => some (fun a b => decide (a < b))
  | ">=" => some (fun a b => decide (a ≥ b))
  | "<=" => some (fun a b => decide (a ≤ b))
  | "==" => some (fun a b => decide (a = b))
  | _ => none

/-- meaning of the function of Python's `operator` module the table maps the symbol to -/
def fnSem : String → Option (Rat → Rat → Bool)
  | "gt" => some (fun a b => decide (a > b))
  | "lt" => some (fun a b => decide (a < b))
  | "ge" => some (fun a b => decide (a ≥ b))
  | "le" => some (fun a b => decide (a ≤ b))
  | "eq" => some (fun a b => decide (a = b))
  -- the numpy ufuncs of the same meaning (a harmless rewrite of the table: `numpy.greater` for `operator.gt`, …)
  | "greater" => some (fun a b => decide (a > b))
  | "less" => some (fun a b => decide (a < b))
  | "greater_equal" => some (fun a b => decide (a ≥ b))
  | "less_equal" => some (fun a b => decide (a ≤ b))
  | "equal" => some (fun a b => decide (a = b))
  | _ => none

/-- tags instead of functions so that equality is decidable -/
def symTag : String → Option String
  | ">" => some "gt" | "<" => some "lt" | ">=" => some "ge" | "<=" => some "le" | "==" => some "eq" | _ => none

/-- the function names (of `operator` or of `numpy`) that mean what the symbol means -/
def symTags : String → List String
  | ">" => ["gt", "greater"] | "<" => ["lt", "less"] | ">=" => ["ge", "greater_equal"] | "<=" => ["le", "less_equal"]
  | "==" => ["eq", "equal"] | _ => []

/-- every symbol in the code's table is mapped to a function (`operator.gt` / `numpy.greater` …) with that symbol's meaning -/
theorem operators_sound : ∀ p ∈ Generated.filterOperators, p.2 ∈ symTags p.1 := by decide

/-- every accepted function name means what the symbol means -/
theorem tags_sem (s f : String) (h : f ∈ symTags s) : ∀ a b : Rat, (symSem s).map (· a b) = (fnSem f).map (· a b) := by
  intro a b
  unfold symTags at h
  split at h <;> simp at h <;> rcases h with rfl | rfl <;> simp [symSem, fnSem]

/-- all five operators of the property are present -/
theorem operators_complete : ∀ s ∈ [">", "<", ">=", "<=", "=="], (Generated.filterOperators.lookup s).isSome = true := by
  decide

/-- the tags mean what they say: symbol semantics = function semantics -/
theorem tag_sem (s f : String) (h : symTag s = some f) : ∀ a b : Rat, (symSem s).map (· a b) = (fnSem f).map (· a b) := by
  intro a b
  unfold symTag at h
  split at h <;> first | (cases h; simp [symSem, fnSem]) | (simp at h)

end C04Tables
