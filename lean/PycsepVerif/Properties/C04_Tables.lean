import PycsepVerif.Generated

/-! C04 — theorems over the source-derived operator table of `AbstractBaseCatalog.filter`
(`operators = {'>': operator.gt, ...}` in csep/core/catalogs.py, re-extracted on every run). -/
namespace C04Tables

/-- meaning of the comparison symbol a statement is written with -/
def symSem : String → Option (Rat → Rat → Bool)
  | ">" => some (fun a b => decide (a > b))
  | "<" => some (fun a b => decide (a < b))
  | ">=" => some (fun a b => decide (a ≥ b))
  | "<=" => some (fun a b => decide (a ≤ b))
  | "==" => some (fun a b => decide (a = b))
  | _ => none

/-- meaning of the function of Python's `operator` module the table maps the symbol to -/
def fnSem : String → Option (Rat → Rat → Bool)
  | "gt" => some (fun a b => decide (a > b))
  | "lt" => some (fun a b => decide (a < b))
  | "ge" => some (fun a b => decide (a ≥ b))
  | "le" => some (fun a b => decide (a ≤ b))
  | "eq" => some (fun a b => decide (a = b))
  | _ => none

/-- tags instead of functions so that equality is decidable -/
def symTag : String → Option String
  | ">" => some "gt" | "<" => some "lt" | ">=" => some "ge" | "<=" => some "le" | "==" => some "eq" | _ => none

/-- every symbol in the code's table is mapped to the `operator` function with that symbol's meaning -/
theorem operators_sound : ∀ p ∈ Generated.filterOperators, symTag p.1 = some p.2 := by decide

/-- all five operators of the property are present -/
theorem operators_complete : ∀ s ∈ [">", "<", ">=", "<=", "=="], (Generated.filterOperators.lookup s).isSome = true := by
  decide

/-- the tags mean what they say: symbol semantics = function semantics -/
theorem tag_sem (s f : String) (h : symTag s = some f) : ∀ a b : Rat, (symSem s).map (· a b) = (fnSem f).map (· a b) := by
  intro a b
  unfold symTag at h
  split at h <;> first | (cases h; simp [symSem, fnSem]) | (simp at h)

end C04Tables
