import PycsepVerif.GeneratedSrc
import PycsepVerif.Model.Bin1d
import PycsepVerif.Model.RegionBuild
import PycsepVerif.Proofs.Soft64Round
import PycsepVerif.Proofs.Bin1d
import Mathlib.Data.Rat.Floor
import Mathlib.Tactic.Linarith
/-!
# Source tie of C02: the definitions generated from csep/utils/calc.py equal the hand model (Model/Bin1d.lean)

`Src.*` is regenerated from the Python source on every run (harness/py2lean.py); these theorems are re-checked then.
Specialisation of `bin1d_vec`: float64 points (elementwise), float64 edges, `tol=None`, either `right_continuous`;
the model side is `Bin1d.bin1dF (Bin1d.cfg64 rc)`.
-/
namespace Src
open Soft64 Bin1d

theorem get_tolerance_eq_model (v : Rat) : Src.get_tolerance v = Bin1d.getTol .f64 v := rfl

theorem i2f_small' {n : Int} (h : |n| ≤ 2 ^ 53) : Py.i2f n = (n : Rat) := Soft64R.fl64_intCast h

theorem getF_zero (bins : List Rat) : Py.getF bins 0 = bins.getD 0 0 := by simp [Py.getF]
theorem getF_one (bins : List Rat) : Py.getF bins 1 = bins.getD 1 0 := by simp [Py.getF]
theorem getF_nat (bins : List Rat) (k : Nat) : Py.getF bins (k : Int) = bins.getD k 0 := by simp [Py.getF]
theorem getF_last (bins : List Rat) : Py.getF bins (-1) = bins.getD (bins.length - 1) 0 := by
  unfold Py.getF
  rcases Nat.eq_zero_or_pos bins.length with h | h
  · have : bins = [] := List.eq_nil_of_length_eq_zero h
    subst this; simp
  · have e : ((bins.length : Int) + -1).toNat = bins.length - 1 := by omega
    have e2 : (0 : Int) ≤ (bins.length : Int) + -1 := by omega
    simp [e, e2]

theorem floor_eq' (x : ℚ) : x.floor = ⌊x⌋ := rfl

/-- calc.py:121 the index of the next edge: `clip(nan_to_num(x), 0, n-1).astype(int64)` is the model's `clipIdx` -/
theorem clip_eq (x : Rat) (n : Nat) (h1 : 0 < n) (h2 : (n : Int) ≤ 2 ^ 53) :
    Py.truncF (Py.np_clip (Py.np_nan_to_num x) 0 (Py.i2f ((n : Int) - 1))) = ((clipIdx x n : Nat) : Int) := by
  have hm : |(n : Int) - 1| ≤ 2 ^ 53 := by rw [abs_le]; constructor <;> omega
  rw [i2f_small' hm]
  unfold Py.np_clip Py.np_nan_to_num Py.fmax Py.fmin Py.truncF clipIdx
  simp only [floor_eq']
  have hmr : ((((n : Int) - 1 : Int)) : Rat) = (n : Rat) - 1 := by push_cast; ring
  rw [hmr]
  by_cases hx : x < 0
  · have hf : ⌊x⌋ < 0 := Int.floor_lt.mpr (by simpa using hx)
    have hn1 : ¬ ((n : Rat) - 1 < 0) := by
      have : (1 : Rat) ≤ n := by exact_mod_cast h1
      linarith
    simp [hx, hf, hn1]
  · have hx' : 0 ≤ x := not_lt.mp hx
    have hf : ¬ ⌊x⌋ < 0 := by
      have : 0 ≤ ⌊x⌋ := Int.floor_nonneg.mpr hx'
      omega
    simp only [hx, if_false, hf]
    by_cases hb : (n : Rat) - 1 < x
    · have hfl : (n : Int) - 1 ≤ ⌊x⌋ := Int.le_floor.mpr (by push_cast; linarith)
      have hnn : (0 : Rat) ≤ (n : Rat) - 1 := by
        have : (1 : Rat) ≤ n := by exact_mod_cast h1
        linarith
      have e : ⌊(n : Rat) - 1⌋ = (n : Int) - 1 := by
        have : ((n : Rat) - 1) = (((n : Int) - 1 : Int) : Rat) := by push_cast; ring
        rw [this, Int.floor_intCast]
      simp only [hb, if_true, hnn, e, ge_iff_le, hfl]
      omega
    · have hle : x ≤ (n : Rat) - 1 := not_lt.mp hb
      simp only [hb, if_false, hx', if_true, ge_iff_le]
      by_cases hc : (n : Int) - 1 ≤ ⌊x⌋
      · have : ⌊x⌋ ≤ (n : Int) - 1 := by
          have := Int.floor_le x
          have : ((⌊x⌋ : Int) : Rat) ≤ (((n : Int) - 1 : Int) : Rat) := by push_cast; linarith
          exact_mod_cast this
        simp only [hc, if_true]; omega
      · have : 0 ≤ ⌊x⌋ := Int.floor_nonneg.mpr hx'
        simp only [hc, if_false]; omega


theorem size_eq (bins : List Rat) : Py.size bins = (bins.length : Int) := rfl

/-- calc.py:120-126 the two corrections against real edges are the model's `corrWith` -/
theorem corr_eq (bins : List Rat) (p h idx : Rat) (h1 : 1 < bins.length) (h2 : (bins.length : Int) ≤ 2 ^ 53) :
    Py.np_where
      (decide (Py.np_where ((decide (idx ≥ 0) && decide (fadd idx 1 < Py.i2f (bins.length : Int))) &&
          decide (p ≥ Py.getF bins (Py.truncF (Py.np_clip (Py.np_nan_to_num (fadd idx 1)) 0
            (Py.i2f ((bins.length : Int) - 1))))))
        (fadd idx 1) idx = Py.i2f ((bins.length : Int) - 1)) && decide (p ≥ fadd (Py.getF bins (-1)) h))
      (Py.i2f (bins.length : Int))
      (Py.np_where ((decide (idx ≥ 0) && decide (fadd idx 1 < Py.i2f (bins.length : Int))) &&
          decide (p ≥ Py.getF bins (Py.truncF (Py.np_clip (Py.np_nan_to_num (fadd idx 1)) 0
            (Py.i2f ((bins.length : Int) - 1))))))
        (fadd idx 1) idx)
    = corrWith fl64 bins.length (fun k => bins.getD k 0) (fl64 (bins.getD (bins.length - 1) 0 + h)) p idx := by
  have hn : |(bins.length : Int)| ≤ 2 ^ 53 := by rw [abs_le]; constructor <;> omega
  have hm : |(bins.length : Int) - 1| ≤ 2 ^ 53 := by rw [abs_le]; constructor <;> omega
  rw [clip_eq _ _ (by omega) h2, getF_nat, getF_last, i2f_small' hn, i2f_small' hm]
  have hmr : ((((bins.length : Int) - 1 : Int)) : Rat) = (bins.length : Rat) - 1 := by push_cast; ring
  simp only [Py.np_where, corrWith, fadd, hmr, Int.cast_natCast, ge_iff_le, Bool.and_eq_true, decide_eq_true_eq,
    and_assoc]

/-- calc.py:128-134 the clamp rules followed by `.astype(int64)` are the model's `clampIdx` -/
theorem clamp_eq (n : Nat) (rc rc' : Bool) (idx : Rat) (h2 : (n : Int) ≤ 2 ^ 53) (hrc : rc' = (rc || n == 1)) :
    Py.truncF (if rc' then
        (if decide ((if decide (idx < 0) then (-1 : Rat) else idx) ≥ Py.i2f ((n : Int) - 1)) then Py.i2f ((n : Int) - 1)
          else (if decide (idx < 0) then (-1 : Rat) else idx))
      else (if (decide (idx < 0) || decide (idx ≥ Py.i2f (n : Int))) then (-1 : Rat) else idx))
    = clampIdx rc n idx := by
  have hn : |(n : Int)| ≤ 2 ^ 53 := by rw [abs_le]; constructor <;> omega
  have hm : |(n : Int) - 1| ≤ 2 ^ 53 := by rw [abs_le]; constructor <;> omega
  rw [i2f_small' hn, i2f_small' hm]
  have hmr : ((((n : Int) - 1 : Int)) : Rat) = (n : Rat) - 1 := by push_cast; ring
  have tr_neg : Py.truncF (-1) = -1 := by decide +kernel
  have tr_int : ∀ k : Int, Py.truncF (k : Rat) = k := by
    intro k; unfold Py.truncF; simp only [floor_eq']
    by_cases hk : (0 : Rat) ≤ k
    · simp [hk]
    · have : ⌊-(k : Rat)⌋ = -k := by rw [← Int.cast_neg, Int.floor_intCast]
      simp [hk, this]
  have tr_pos : ∀ x : Rat, ¬ x < 0 → Py.truncF x = x.floor := by
    intro x hx; unfold Py.truncF; simp [not_lt.mp hx]
  unfold clampIdx
  have key_rc : Py.truncF (if decide ((if decide (idx < 0) then (-1 : Rat) else idx) ≥ ((n : Rat) - 1)) then ((n : Rat) - 1)
          else (if decide (idx < 0) then (-1 : Rat) else idx))
      = (if idx < 0 then -1 else if idx ≥ (((n : Int) - 1 : Int) : Rat) then (n : Int) - 1 else idx.floor) := by
    rw [hmr]
    by_cases hx : idx < 0
    · simp only [hx, decide_true, if_true, ge_iff_le]
      by_cases hb : (n : Rat) - 1 ≤ -1
      · have : n = 0 := by
          have : (n : Rat) ≤ 0 := by linarith
          have : (n : Rat) = 0 := le_antisymm this (by positivity)
          exact_mod_cast this
        subst this; simp [tr_neg]
      · simp [hb, tr_neg]
    · simp only [hx, decide_false, if_false, ge_iff_le]
      by_cases hb : (n : Rat) - 1 ≤ idx
      · have : Py.truncF ((n : Rat) - 1) = (n : Int) - 1 := by rw [← hmr]; exact tr_int _
        simp [hb, this]
      · simp [hb, tr_pos idx hx]
  have key_nrc : Py.truncF (if (decide (idx < 0) || decide (idx ≥ (n : Rat))) then (-1 : Rat) else idx)
      = (if idx < 0 ∨ idx ≥ (n : Rat) then -1 else idx.floor) := by
    by_cases hx : idx < 0
    · simp [hx, tr_neg]
    · by_cases hb : (n : Rat) ≤ idx
      · simp [hb, tr_neg]
      · simp [hx, hb, tr_pos idx hx]
  simp only [hmr, Int.cast_natCast] at key_rc ⊢
  subst hrc
  cases hq : (rc || n == 1)
  · simpa using key_nrc
  · simpa using key_rc


/-- the model with the float64 configuration, written with the same intermediate quantities as the source -/
theorem model_form (p : Rat) (bins : List Rat) (rc : Bool) :
    bin1dF (cfg64 rc) bins p =
      clampIdx rc bins.length
        (if bins.length > 1 then
          corrWith fl64 bins.length (fun k => bins.getD k 0)
            (fl64 (bins.getD (bins.length - 1) 0 + hOf .f64 bins.length (fun k => bins.getD k 0))) p
            (ffloor (fdiv (fadd (fadd (fsub p (bins.getD 0 0)) (getTol .f64 p)) (getTol .f64 (bins.getD 0 0)))
              (fsub (hOf .f64 bins.length (fun k => bins.getD k 0)) (getTol .f64 (bins.getD 0 0)))))
        else
          ffloor (fdiv (fadd (fadd (fsub p (bins.getD 0 0)) (getTol .f64 p)) (getTol .f64 (bins.getD 0 0)))
              (fsub (hOf .f64 bins.length (fun k => bins.getD k 0)) (getTol .f64 (bins.getD 0 0))))) := by
  have hden : denOf .f64 bins.length (fun k => bins.getD k 0)
      = fsub (hOf .f64 bins.length (fun k => bins.getD k 0)) (getTol .f64 (bins.getD 0 0)) := by
    unfold denOf hOf fsub
    by_cases h : (bins.length == 1) = true <;> simp [h, DT.rnd]
  simp only [bin1dF, bin1dCore, corrIdx, quotF, cfg64, DT.promote, DT.rnd, hden, topOf, fadd, fsub, fdiv]
  rfl

/-- **`bin1d_vec`, float64 points / float64 edges / `tol=None`**: for every point, every edge list with at most 2^53 edges
    and either `right_continuous`, the definition generated from the source raises ValueError exactly when the float step
    is negative and otherwise returns the model's `bin1dF`. -/
theorem bin1d_vec_eq_model (p : Rat) (bins : List Rat) (rc : Bool) (h2 : (bins.length : Int) ≤ 2 ^ 53) :
    Src.bin1d_vec p bins rc =
      if hOf .f64 bins.length (fun k => bins.getD k 0) < 0 then .error .valueError
      else .ok (bin1dF (cfg64 rc) bins p) := by
  have hH : (if decide ((bins.length : Int) = 1) then (true, (1 : Rat))
        else (rc, fsub (bins.getD 1 0) (bins.getD 0 0)))
      = ((rc || bins.length == 1), hOf .f64 bins.length (fun k => bins.getD k 0)) := by
    by_cases h : bins.length = 1
    · simp [h, hOf]
    · have : ¬ ((bins.length : Int) = 1) := by omega
      simp [h, this, hOf, fsub, DT.rnd]
  rw [model_form]
  simp only [Src.bin1d_vec, size_eq, getF_zero, getF_one, get_tolerance_eq_model, Py.np_floor, hH]
  by_cases hneg : hOf .f64 bins.length (fun k => bins.getD k 0) < 0
  · simp only [hneg, decide_true, ↓reduceIte]
  · simp only [hneg, decide_false, ↓reduceIte, Bool.false_eq_true]
    congr 1
    by_cases hgt : 1 < bins.length
    · have hgt' : (bins.length : Int) > 1 := by omega
      simp only [hgt', decide_true, ↓reduceIte, gt_iff_lt, hgt]
      rw [corr_eq bins p _ _ hgt h2]
      exact clamp_eq bins.length rc _ _ h2 rfl
    · have hgt' : ¬ (bins.length : Int) > 1 := by omega
      simp only [hgt', decide_false, ↓reduceIte, gt_iff_lt, hgt, Bool.false_eq_true]
      exact clamp_eq bins.length rc _ _ h2 rfl

example : Src.bin1d_vec (439/5) [59/10, 166/5, 121/2, 439/5, 1151/10] false = .ok 3 := by decide +kernel


/-! ### discretize (calc.py:37-55) -/

/-- `discretize`'s exceptions in the model and in the generated definition (`CSEPException` is `Py.Err.other`) -/
def discErr : DiscErr → Py.Err
  | .valueError => .valueError
  | .indexError => .indexError
  | .csepException => .other

theorem np_any_eq_neg_one (idx : List Int) :
    Py.np_any (List.map (fun x_ => decide (x_ = (-1 : Int))) idx) = idx.any (fun i => i == -1) := by
  induction idx with
  | nil => rfl
  | cons a l ih =>
    have : Py.np_any (List.map (fun x_ => decide (x_ = (-1 : Int))) l) = l.any (fun i => i == -1) := ih
    simp only [Py.np_any, List.map_cons, List.any_cons] at this ⊢
    rw [this]
    by_cases h : a = -1 <;> simp [h]

theorem mapUniform_ok {β γ : Type} [Inhabited β] [Inhabited γ] (f : β → Except Py.Err γ) (g : β → γ)
    (h : ∀ x, f x = .ok (g x)) (a : List β) : Py.mapUniform f a = .ok (a.map g) := by
  simp only [Py.mapUniform, h]

theorem getF_nonneg (bins : List Rat) (i : Int) (h : 0 ≤ i) : Py.getF bins i = bins.getD i.toNat 0 := by
  simp [Py.getF, h]

/-- **`discretize(data, bin_edges, right_continuous)`**, float64 data and edges: for every data array, every edge list that
    is empty or has at least two (at most 2^53) edges and either mode, the generated definition raises / returns what the
    model's `discretizeF` does. A single edge (Python: IndexError at `bin_edges[1]`) is outside the specialisation: array
    indexing is translated without bounds checks. -/
theorem discretize_eq_model (data bins : List Rat) (rc : Bool) (h1 : bins.length ≠ 1) (h2 : (bins.length : Int) ≤ 2 ^ 53) :
    Src.discretize data bins rc = (discretizeF .f64 .f64 rc bins data).mapError discErr := by
  unfold Src.discretize discretizeF
  by_cases h0 : bins.length = 0
  · have : Py.size bins = 0 := by simp [Py.size, h0]
    rw [if_pos (by simpa using this), if_pos h0]; rfl
  · have hs : ¬ (Py.size bins = 0) := by simp only [Py.size]; omega
    rw [if_neg (by simpa using hs), if_neg h0, if_neg h1, getF_one, getF_zero]
    by_cases hlt : bins.getD 1 0 < bins.getD 0 0
    · rw [if_pos (by simpa using hlt), if_pos hlt]; rfl
    · rw [if_neg (by simpa using hlt), if_neg hlt]
      have hH : hOf .f64 bins.length (fun k => bins.getD k 0) = fsub (bins.getD 1 0) (bins.getD 0 0) := by
        have : (bins.length == 1) = false := by simpa using h1
        simp [hOf, this, DT.rnd, fsub]
      have hnn : ¬ hOf .f64 bins.length (fun k => bins.getD k 0) < 0 := by
        rw [hH]; unfold fsub
        exact not_lt.mpr (Soft64R.fl64_nonneg (by linarith [not_lt.mp hlt]))
      have hb : ∀ p, Src.bin1d_vec p bins rc = .ok (bin1dF (cfg64 rc) bins p) := by
        intro p; rw [bin1d_vec_eq_model p bins rc h2, if_neg hnn]
      simp only [mapUniform_ok _ _ hb, np_any_eq_neg_one]
      change (if (data.map (bin1dF (cfg64 rc) bins)).any (fun i => i == -1) = true then _ else _) = _
      by_cases ha : (data.map (bin1dF (cfg64 rc) bins)).any (fun i => i == -1) = true
      · rw [if_pos ha]
        have : (data.map (bin1dF { pd := .f64, bd := .f64, tol := none, rc := rc } bins)).any (fun i => i == -1) = true := ha
        rw [if_pos this]; rfl
      · rw [if_neg ha]
        have : ¬ (data.map (bin1dF { pd := .f64, bd := .f64, tol := none, rc := rc } bins)).any (fun i => i == -1) = true := ha
        rw [if_neg this]
        simp only [Except.mapError]
        congr 1
        apply List.map_congr_left
        intro i hi
        have hne : i ≠ -1 := by
          intro h; apply ha
          exact List.any_eq_true.mpr ⟨i, hi, by simp [h]⟩
        obtain ⟨p, _, rfl⟩ := List.mem_map.mp hi
        have hn : 0 < bins.length := Nat.pos_of_ne_zero h0
        have hr := (Bin1d.clampIdx_range (cfg64 rc).rc hn (corrIdx (cfg64 rc) bins.length (fun k => bins.getD k 0) p)).1
        have : 0 ≤ bin1dF (cfg64 rc) bins p := by
          have e : bin1dF (cfg64 rc) bins p
              = clampIdx (cfg64 rc).rc bins.length (corrIdx (cfg64 rc) bins.length (fun k => bins.getD k 0) p) := rfl
          rw [e] at hne ⊢; omega
        exact getF_nonneg bins _ this

/-! ### cleaner_range -/

theorem arange_eq (a b c : Rat) : Py.np_arange a b c = arangeF a b c := rfl

theorem pow2_52 : pow2 52 = (4503599627370496 : Rat) := by decide +kernel

/-- **`cleaner_range(start, end, h)`** (float64 arguments). `nd` is the nested `num_decimals` (number of decimals of `repr`,
    an opaque input exactly as in the model, where `dec = max(nd start, nd h)`): on the main path (the guard
    `scale*max(|start|,|end|) < 2**52` holds) the model returns what the generated definition returns, otherwise the model
    is `none` (the fallback path: see `cleaner_range_eq_model` below, which covers both). -/
theorem cleaner_range_main_path (nd : Rat → Int) (s e h : Rat) (dec : Nat) (hd : max (nd s) (nd h) = (dec : Int)) :
    cleanerRangeF s e h dec =
      if fmul (fl64 ((10 ^ dec : Nat) : Rat)) (if fabs s < fabs e then fabs e else fabs s) < pow2 52
      then some (Src.cleaner_range nd s e h) else none := by
  have hsc : Py.i2f (Py.ipow 10 (max (nd s) (nd h))) = fl64 ((10 ^ dec : Nat) : Rat) := by
    rw [hd]; simp [Py.i2f, Py.ipow]
  unfold cleanerRangeF Src.cleaner_range
  simp only [hsc, Py.fmax, Py.np_abs, Py.np_round, arange_eq, pow2_52, decide_eq_true_eq]
  by_cases hg : fmul (fl64 ((10 ^ dec : Nat) : Rat)) (if fabs s < fabs e then fabs e else fabs s)
      < (4503599627370496 : Rat)
  · repeat rw [if_pos hg]
    exact congrArg some (if_pos hg).symm
  · repeat rw [if_neg hg]

/-- the nested `num_decimals` (an opaque parameter above; its value comes from `repr`) is the one this file was written for -/
theorem cleaner_range_helpers_pinned : Src.cleaner_range_helpers = [("num_decimals", "4ea18ac086d5")] := by decide

theorem truncF_floor (q : Rat) : Py.truncF (Py.np_floor q) = q.floor := by
  unfold Py.truncF Py.np_floor ffloor
  by_cases h : (0 : Rat) ≤ ((q.floor : Int) : Rat)
  · simp [h]
  · simp only [h, if_false]
    have : -(((q.floor : Int) : Rat)) = ((-(q.floor) : Int) : Rat) := by push_cast; ring
    rw [this, Rat.floor_intCast]; ring

/-- **`cleaner_range(start, end, h)`, both paths** (after fix D49): the generated definition is the C02 owner's
    `Region.cleanerRangeAll` — the main path when the guard holds, otherwise `fallbackRange`
    (`start + numpy.arange(n + 1) * h`). `nd` is the nested `num_decimals` (opaque, as in the model: `decS = nd start`,
    `decH = nd h`). Hypothesis: at most 2^53 edges on the fallback path (the int64 → float64 conversion of the index is exact). -/
theorem cleaner_range_eq_model (nd : Rat → Int) (s e h : Rat) (decS decH : Nat) (hs : nd s = (decS : Int))
    (hh : nd h = (decH : Int)) (hn : (fadd (fdiv (fsub e s) h) (1 / 2)).floor + 1 ≤ 2 ^ 53) :
    Src.cleaner_range nd s e h = Region.cleanerRangeAll s e h decS decH := by
  have hd : max (nd s) (nd h) = ((max decS decH : Nat) : Int) := by rw [hs, hh]; push_cast; rfl
  have hm := cleaner_range_main_path nd s e h (max decS decH) hd
  unfold Region.cleanerRangeAll
  rw [hm]
  by_cases hg : fmul (fl64 ((10 ^ (max decS decH) : Nat) : Rat)) (if fabs s < fabs e then fabs e else fabs s) < pow2 52
  · simp only [hg, if_true]
  · simp only [hg, if_false]
    have hsc : Py.i2f (Py.ipow 10 (max (nd s) (nd h))) = fl64 ((10 ^ (max decS decH) : Nat) : Rat) := by
      rw [hd]; simp only [Py.i2f, Py.ipow, Int.toNat_natCast]; push_cast; rfl
    have hg' : ¬ fmul (fl64 ((10 ^ (max decS decH) : Nat) : Rat)) (if fabs s < fabs e then fabs e else fabs s)
        < (4503599627370496 : Rat) := by rw [← pow2_52]; exact hg
    unfold Src.cleaner_range Region.fallbackRange
    simp only [hsc, Py.fmax, Py.np_abs, decide_eq_true_eq, truncF_floor, Py.range, List.map_map]
    have e1 : (1 + (fadd (fdiv (fsub e s) h) (1 / 2)).floor - 0).toNat = ((fadd (fdiv (fsub e s) h) (1 / 2)).floor + 1).toNat := by
      congr 1; ring
    rw [e1]
    by_cases hg2 : fmul (fl64 ((10 ^ (max decS decH) : Nat) : Rat)) (if fabs s < fabs e then fabs e else fabs s)
        < (4503599627370496 : Rat)
    · exact absurd hg2 hg'
    refine Eq.trans (if_neg (by exact hg2)) ?_
    apply List.map_congr_left
    intro k hk
    have hk' := List.mem_range.mp hk
    simp only [Function.comp, zero_add]
    have hkb : |((k : Nat) : Int)| ≤ 2 ^ 53 := by
      rw [abs_of_nonneg (by positivity)]
      have : ((k : Nat) : Int) < (fadd (fdiv (fsub e s) h) (1 / 2)).floor + 1 := by omega
      omega
    have := Soft64R.fl64_intCast hkb
    simp only [Py.i2f, this]
    push_cast
    rfl
end Src
