import PycsepVerif.GeneratedSrc
import PycsepVerif.Model.ForecastFile
import PycsepVerif.Model.ForecastArray
import PycsepVerif.Source.C02
import PycsepVerif.Source.C15
/-!
# Source tie of C11: the array methods of `GriddedDataSet` / `MarkedGriddedDataSet` / `GriddedForecast`
(csep/core/forecasts.py) generated from the Python source equal the hand model (Model/ForecastFile.lean, ForecastArray.lean)

The hand model of C11 is at the EXACT layer (rates, factors and sums are the rationals the float64 values denote, no rounding),
and so is the translation (TARGETS type `q`): what is tied is which array is multiplied by which factor, summed along which
axis and indexed by which index array — not the rounding of the float operations. A 2-D array is the list of its rows; the
model stores `_data` flat (row-major), `rowsOf` / `chunks` are its rows.

`get_magnitude_index` and `scale_to_test_date` are float64 code tied bit-exactly (Soft64): the former to `Bin1d.bin1dF` in
right-continuous mode (the model's `getMagnitudeIndex` is its exact meaning, C02's subject), the latter to
`ForecastFile.testDateFraction`.
-/
namespace Src
open Soft64 Bin1d ForecastFile

/-! ## `data`, `sum`, `scale`, `spatial_counts`, `magnitude_counts` -/

/-- `GriddedDataSet.data` = `self._data * self._scale` (scalar factor): the model's `data` of the flattened array -/
theorem gds_data_eq_model (F : Forecast) (rows : List (List Rat)) (h : rows.flatten = F.base) :
    (Src.gds_data rows F.scale).flatten = ForecastFile.data F := by
  simp only [Src.gds_data, ForecastFile.data, ← h, List.map_flatten]

/-- `GriddedDataSet.sum` = `numpy.sum(self.data)` -/
theorem gds_sum_eq_model (F : Forecast) (rows : List (List Rat)) (h : rows.flatten = ForecastFile.data F) :
    Src.gds_sum rows = total F := by
  simp only [Src.gds_sum, total, ← h, Py.qsum, List.sum_flatten]
  rfl

/-- `GriddedDataSet.scale(val)`: the factor is REPLACED by `val` -/
theorem gds_scale_eq_model (F : Forecast) (v : Rat) : Src.gds_scale v = (scaleBy F v).scale := rfl

/-- `MarkedGriddedDataSet.spatial_counts()` (`cartesian=False`) = `numpy.sum(self.data, axis=1)` -/
theorem mgds_spatial_counts_eq_model (F : Forecast) : Src.mgds_spatial_counts (rowsOf F) = spatialCounts F := rfl

theorem addRows_eq : ∀ (a b : List Rat), Py.addRows a b = ForecastFile.addRows a b
  | [], _ => by simp [Py.addRows, ForecastFile.addRows]
  | _ :: _, [] => by simp [Py.addRows, ForecastFile.addRows]
  | x :: a, y :: b => by simp [Py.addRows, ForecastFile.addRows, addRows_eq a b]

/-- `MarkedGriddedDataSet.magnitude_counts()` = `numpy.sum(self.data, axis=0)`, for a forecast with at least one cell whose
    data holds at least one full row -/
theorem mgds_magnitude_counts_eq_model (F : Forecast) (hN : 0 < F.cells.length)
    (hlen : F.mags.length ≤ (ForecastFile.data F).length) :
    Src.mgds_magnitude_counts (rowsOf F) = magnitudeCounts F := by
  have hf : Py.addRows = ForecastFile.addRows := by funext a b; exact addRows_eq a b
  have hh : ((rowsOf F).headD []).length = F.mags.length := by
    unfold rowsOf
    obtain ⟨n, hn⟩ : ∃ n, F.cells.length = n + 1 := ⟨F.cells.length - 1, by omega⟩
    rw [hn]; simp [chunks, List.length_take, hlen]
  simp only [Src.mgds_magnitude_counts, Py.qsumAxis0, magnitudeCounts, hh, hf]

/-! ## `get_magnitude_index` (float64, right-continuous `bin1d_vec`) -/

/-- `get_magnitude_index(mags)` (`tol=None`): ValueError iff the magnitude edges have a negative float step (raised by
    `bin1d_vec`) or some magnitude is below the first edge (`idm == -1`); otherwise `bin1dF` in right-continuous mode -/
theorem get_magnitude_index_eq_model (mags magnitudes : List Rat) (h2 : (magnitudes.length : Int) ≤ 2 ^ 53) :
    Src.get_magnitude_index mags magnitudes =
      if hOf .f64 magnitudes.length (fun k => magnitudes.getD k 0) < 0 then .error .valueError
      else if (mags.map (bin1dF (cfg64 true) magnitudes)).any (fun i => i == -1) then .error .valueError
      else .ok (mags.map (bin1dF (cfg64 true) magnitudes)) := by
  unfold Src.get_magnitude_index
  by_cases hneg : hOf .f64 magnitudes.length (fun k => magnitudes.getD k 0) < 0
  · have he : ∀ p, Src.bin1d_vec p magnitudes true = .error .valueError := by
      intro p; rw [bin1d_vec_eq_model p magnitudes true h2, if_pos hneg]
    simp only [Py.mapUniform, he, hneg, ↓reduceIte]
  · have hb : ∀ p, Src.bin1d_vec p magnitudes true = .ok (bin1dF (cfg64 true) magnitudes p) := by
      intro p; rw [bin1d_vec_eq_model p magnitudes true h2, if_neg hneg]
    simp only [mapUniform_ok _ _ hb, np_any_eq_neg_one, hneg, ↓reduceIte]

/-! ## `get_rates` -/

/-- element `[i, k]` of the rows of a flat (N, M) array -/
theorem get_chunks (M : Nat) : ∀ (N : Nat) (l : List Rat) (i k : Nat), i < N → k < M → l.length = N * M →
    ((chunks M N l).getD i []).getD k 0 = l.getD (i * M + k) 0
  | 0, _, _, _, hi, _, _ => by omega
  | N + 1, l, 0, k, _, hk, hl => by
    have : k < l.length := by rw [hl]; nlinarith
    simp [chunks, List.getD_eq_getElem?_getD, List.getElem?_take, hk]
  | N + 1, l, i + 1, k, hi, hk, hl => by
    have hd : (l.drop M).length = N * M := by simp [hl]; ring_nf; omega
    have := get_chunks M N (l.drop M) i k (by omega) hk hd
    simp only [chunks, List.getD_cons_succ, this]
    simp only [List.getD_eq_getElem?_getD, List.getElem?_drop]
    congr 2; ring

/-- `get_rates(lons, lats, mags)` (`data=None`): RuntimeError iff `len(lons) != len(lats) and len(lats) != len(mags)`, else
    `self.data[idx, idm]` for the index arrays `idx = self.get_index_of(lons, lats)`, `idm = self.get_magnitude_index(mags)`
    (parameters of the definition: their exceptions propagate before this point) -/
theorem get_rates_eq_model (lons lats mags : List Rat) (idx idm : List Int) (d : List (List Rat)) :
    Src.get_rates lons lats mags idx idm d =
      if lons.length ≠ lats.length ∧ lats.length ≠ mags.length then .error .other else .ok (Py.get2 d idx idm) := by
  simp only [Src.get_rates, Py.size]
  by_cases h : lons.length ≠ lats.length ∧ lats.length ≠ mags.length
  · have h1 : ¬ ((lons.length : Int) = lats.length) := by omega
    have h2 : ¬ ((lats.length : Int) = mags.length) := by omega
    simp [h, h1, h2]
  · have : ¬ (¬ ((lons.length : Int) = lats.length) ∧ ¬ ((lats.length : Int) = mags.length)) := by
      intro hh; apply h; constructor <;> omega
    simp only [ne_eq, h, ↓reduceIte]
    by_cases a : (lons.length : Int) = lats.length <;> by_cases b : (lats.length : Int) = mags.length <;> simp_all

/-- with `data=` passed, it is that array that is indexed (not `self.data`) -/
theorem get_rates_data_eq_model (lons lats mags : List Rat) (data : List (List Rat)) (idx idm : List Int) (d : List (List Rat)) :
    Src.get_rates_data lons lats mags data idx idm d =
      if lons.length ≠ lats.length ∧ lats.length ≠ mags.length then .error .other else .ok (Py.get2 data idx idm) := by
  have := get_rates_eq_model lons lats mags idx idm data
  simpa [Src.get_rates, Src.get_rates_data] using this

/-- one looked-up rate is the model's `dataAt`: cell `i`, magnitude bin `k` of the model's rows -/
theorem get2_rowsOf (F : Forecast) (i k : Nat) (hi : i < F.cells.length) (hk : k < F.mags.length)
    (hl : F.base.length = F.cells.length * F.mags.length) :
    Py.get2 (rowsOf F) [(i : Int)] [(k : Int)] = [(dataAt F i k).getD 0] := by
  have hl' : (ForecastFile.data F).length = F.cells.length * F.mags.length := by simp [ForecastFile.data, hl]
  have hlt : i * F.mags.length + k < F.base.length := by rw [hl]; nlinarith
  simp only [Py.get2, List.zipWith_cons_cons, List.zipWith_nil_right, Py.getA, Py.getF, Int.natCast_nonneg, ↓reduceIte,
    Int.toNat_natCast, rowsOf]
  rw [show (default : List Rat) = [] from rfl, get_chunks _ _ _ i k hi hk hl']
  simp [dataAt, hk, ForecastFile.data, List.getD_eq_getElem?_getD, List.getElem?_map, List.getElem?_eq_getElem hlt]

/-! ## `target_event_rates` -/

/-- the array `target_event_rates` works on: `self.data`, or (scale=True) a copy divided by the whole days of the period -/
def terData (scale : Bool) (d : List (List Rat)) (days : Int) : List (List Rat) :=
  if scale then d.map (fun r => r.map (fun x => x / ((days : Int) : Rat))) else d

/-- `target_event_rates(catalog, scale)`: RuntimeError from `get_rates`' length check, else the rates
    `data[idx, idm]` of THAT array (passed as `data=`) and its total; `idx`, `idm` are what `self.get_index_of` /
    `self.get_magnitude_index` return for the catalog's coordinates / magnitudes (parameters; their ValueError propagates
    before). The `isinstance` check is constant under the specialisation (a catalog object). -/
theorem target_event_rates_eq_model (scale : Bool) (d : List (List Rat)) (days : Int) (lons lats mags : List Rat)
    (idx idm : List Int) :
    Src.target_event_rates scale d days lons lats mags idx idm =
      if lons.length ≠ lats.length ∧ lats.length ≠ mags.length then .error .other
      else .ok (Py.get2 (terData scale d days) idx idm, ((terData scale d days).map List.sum).sum) := by
  have hd : (if scale = true then List.map (fun r_ => List.map (fun x_ => x_ / ((days : Int) : Rat)) r_) d else d)
      = terData scale d days := rfl
  simp only [Src.target_event_rates, hd, get_rates_data_eq_model]
  by_cases h : lons.length ≠ lats.length ∧ lats.length ≠ mags.length
  · rw [if_pos h, if_pos h]
  · rw [if_neg h, if_neg h]; rfl

/-- the total of the scaled copy is the model's `total F / days` (exact layer) -/
theorem terData_total (d : List (List Rat)) (days : Int) :
    ((terData true d days).map List.sum).sum = d.flatten.sum / ((days : Int) : Rat) := by
  have h1 : ∀ r : List Rat, (r.map (fun x => x / ((days : Int) : Rat))).sum = r.sum / ((days : Int) : Rat) := by
    intro r; induction r with
    | nil => simp
    | cons a t ih => simp [ih, add_div]
  simp only [terData, if_true, List.map_map]
  induction d with
  | nil => simp
  | cons r t ih => simp [ih, h1, add_div]

/-! ## `load_ascii`: the row → (cell, magnitude bin) mapping -/

/-- first item per key, in first-appearance order -/
def uniqBy {δ β : Type} [DecidableEq β] (κ : δ → β) : List δ → List δ
  | [] => []
  | a :: l => a :: (uniqBy κ l).filter (fun b => decide (κ b ≠ κ a))

theorem uniqBy_id {β : Type} [DecidableEq β] (l : List β) : uniqBy id l = uniqFirst l := by
  induction l with
  | nil => rfl
  | cons a t ih => simp [uniqBy, uniqFirst, ih]

theorem uniqBy_map_key {δ β : Type} [DecidableEq β] (κ : δ → β) (l : List δ) :
    (uniqBy κ l).map κ = uniqFirst (l.map κ) := by
  induction l with
  | nil => rfl
  | cons a t ih =>
    simp only [uniqBy, uniqFirst, List.map_cons, ← ih, List.filter_map]
    rfl

/-- the items at the indices `Py.firstIdx` finds are the first items per key -/
theorem gather_firstIdxFrom {δ β : Type} [DecidableEq β] (κ : δ → β) : ∀ (l pre : List δ) (seen : List β),
    Py.gather (pre ++ l) (Py.firstIdxFrom pre.length seen (l.map κ))
      = (uniqBy κ l).filter (fun b => decide (κ b ∉ seen))
  | [], pre, seen => by simp [Py.firstIdxFrom, Py.gather, uniqBy]
  | a :: t, pre, seen => by
    have ih := gather_firstIdxFrom κ t (pre ++ [a])
    simp only [List.length_append, List.length_singleton, List.append_assoc, List.singleton_append] at ih
    simp only [List.map_cons, Py.firstIdxFrom, uniqBy]
    by_cases ha : κ a ∈ seen
    · simp only [ha, if_true, ih seen, List.filter_cons, not_true_eq_false, decide_false, Bool.false_eq_true, if_false,
        List.filter_filter]
      apply List.filter_congr
      intro b _
      by_cases hb : κ b ∈ seen
      · simp [hb]
      · have : κ b ≠ κ a := fun h => hb (h ▸ ha)
        simp [hb, this]
    · have hget : (pre ++ a :: t)[pre.length]? = some a := by simp
      simp only [ha, if_false, Py.gather, List.filterMap_cons, hget, List.filter_cons, not_false_eq_true, decide_true,
        if_true, List.filter_filter]
      have := ih (κ a :: seen)
      simp only [Py.gather] at this
      rw [this]
      congr 1
      apply List.filter_congr
      intro b _
      by_cases hb : κ b ∈ seen <;> by_cases hba : κ b = κ a <;> simp [hb, hba]

theorem gather_firstIdx {δ β : Type} [DecidableEq β] (κ : δ → β) (l : List δ) :
    Py.gather l (Py.firstIdx (l.map κ)) = uniqBy κ l := by
  have := gather_firstIdxFrom κ l [] []
  simpa [Py.firstIdx] using this

theorem gather_map {δ γ : Type} (g : δ → γ) (l : List δ) (idx : List Nat) :
    Py.gather (l.map g) idx = (Py.gather l idx).map g := by
  induction idx with
  | nil => rfl
  | cons i t ih =>
    simp only [Py.gather, List.filterMap_cons, List.getElem?_map] at ih ⊢
    cases h : l[i]? <;> simp [h, ih]

/-- the key of a mapped list decides the first occurrences: an injective re-coding of the keys changes nothing -/
theorem firstIdxFrom_inj {β γ : Type} [DecidableEq β] [DecidableEq γ] (φ : β → γ) (hφ : Function.Injective φ) :
    ∀ (l : List β) (k : Nat) (seen : List β), Py.firstIdxFrom k (seen.map φ) (l.map φ) = Py.firstIdxFrom k seen l
  | [], _, _ => rfl
  | a :: t, k, seen => by
    have h1 := firstIdxFrom_inj φ hφ t (k + 1) seen
    have h2 := firstIdxFrom_inj φ hφ t (k + 1) (a :: seen)
    simp only [List.map_cons] at h2
    simp only [List.map_cons, Py.firstIdxFrom, List.mem_map, hφ.eq_iff, exists_eq_right, h1, h2]

/-- the flag of the first row showing a polygon (`firstFlag`) is the flag of the first item per polygon -/
theorem firstFlag_uniqBy : ∀ (f : File) (P : Rat × Rat × Rat × Rat → Bool),
    ((uniqFirst (f.map Row.poly)).filter P).map (firstFlag f) = ((uniqBy Row.poly f).filter (fun r => P r.poly)).map Row.flag
  | [], _ => rfl
  | r :: t, P => by
    have step : ∀ p, p ≠ r.poly → firstFlag (r :: t) p = firstFlag t p := by
      intro p hp
      simp [firstFlag, List.find?_cons, Ne.symm hp]
    have hhead : firstFlag (r :: t) r.poly = r.flag := by simp [firstFlag, List.find?_cons]
    have ih := firstFlag_uniqBy t (fun p => decide (p ≠ r.poly) && P p)
    have tail : (((uniqFirst (t.map Row.poly)).filter (fun b => decide (b ≠ r.poly))).filter P).map (firstFlag (r :: t))
        = (((uniqBy Row.poly t).filter (fun b => decide (b.poly ≠ r.poly))).filter (fun r => P r.poly)).map Row.flag := by
      rw [List.filter_filter, List.filter_filter]
      have e1 : (fun a => P a && decide (a ≠ r.poly)) = (fun p => decide (p ≠ r.poly) && P p) := by
        funext a; exact Bool.and_comm _ _
      have e2 : (fun a : Row => P a.poly && decide (a.poly ≠ r.poly)) = (fun a => decide (a.poly ≠ r.poly) && P a.poly) := by
        funext a; exact Bool.and_comm _ _
      rw [e1, e2, ← ih]
      apply List.map_congr_left
      intro p hp
      have := (List.mem_filter.mp hp).2
      simp only [Bool.and_eq_true, decide_eq_true_eq] at this
      exact step p this.1
    simp only [List.map_cons, uniqFirst, uniqBy, List.filter_cons]
    by_cases hP : P r.poly = true
    · simp only [hP, if_true, List.map_cons, hhead, tail]
    · simp only [hP, Bool.false_eq_true, if_false, tail]

/-- one line of the file as the model's `Row` -/
def rowOf (l : List Rat) : Row :=
  ⟨l.getD 0 0, l.getD 1 0, l.getD 2 0, l.getD 3 0, l.getD 4 0, l.getD 5 0, l.getD 6 0, l.getD 7 0, l.getD 8 0, l.getD 9 0⟩

/-- the four vertices `load_ascii` hands to `Polygon` for a cell (the order differs with `swap_latlon`) -/
def cornersOf (swap : Bool) (c : Cell) : (Rat × Rat) × (Rat × Rat) × (Rat × Rat) × (Rat × Rat) :=
  if swap then ((c.lon0, c.lat0), (c.lon1, c.lat0), (c.lon1, c.lat1), (c.lon0, c.lat1))
  else ((c.lon0, c.lat0), (c.lon0, c.lat1), (c.lon1, c.lat1), (c.lon1, c.lat0))

def polyList (p : Rat × Rat × Rat × Rat) : List Rat := [p.1, p.2.1, p.2.2.1, p.2.2.2]

theorem polyList_inj : Function.Injective polyList := by
  intro p q h
  obtain ⟨a, b, c, d⟩ := p; obtain ⟨a', b', c', d'⟩ := q
  simp [polyList] at h; obtain ⟨rfl, rfl, rfl, rfl⟩ := h; rfl

theorem take4 (l : List Rat) (h : l.length = 10) : l.take 4 = polyList (rowOf l).poly := by
  match l, h with
  | [a, b, c, d, _, _, _, _, _, _], _ => rfl

theorem cols (l : List Rat) (h : l.length = 10) :
    Py.getF l (-1) = (rowOf l).flag ∧ Py.getF l (-4) = (rowOf l).m0 ∧ Py.getF l (-2) = (rowOf l).rate := by
  match l, h with
  | [_, _, _, _, _, _, g, _, i, j], _ => exact ⟨rfl, rfl, rfl⟩

/-- **`load_ascii`, the mapping**: for a file of ten-column lines, the polygons' vertices, the cell flags, the magnitude edges
    and the rate column the code extracts are those of the model's `build` (cells in first-appearance order with the flag of
    the first line showing the cell; magnitudes in first-appearance order; rates in file order). `dLo`, `dHi` (the decimal
    strings behind `dh`) do not enter this part. -/
theorem load_ascii_eq_model (swap : Bool) (rows : List (List Rat)) (h10 : ∀ l ∈ rows, l.length = 10) (dLo dHi : Rat) :
    let F := build swap dLo dHi (rows.map rowOf)
    Src.load_ascii swap rows = (F.cells.map (cornersOf swap), F.cells.map (·.flag), F.mags, F.base) := by
  intro F
  have hpoly : List.map (fun r_ => List.take 4 r_) rows = ((rows.map rowOf).map Row.poly).map polyList := by
    simp only [List.map_map]; apply List.map_congr_left; intro l hl; exact take4 l (h10 l hl)
  have hflag : List.map (fun r_ => Py.getF r_ (-1 : Int)) rows = (rows.map rowOf).map Row.flag := by
    simp only [List.map_map]; apply List.map_congr_left; intro l hl; exact (cols l (h10 l hl)).1
  have hm0 : List.map (fun r_ => Py.getF r_ (-4 : Int)) rows = (rows.map rowOf).map Row.m0 := by
    simp only [List.map_map]; apply List.map_congr_left; intro l hl; exact (cols l (h10 l hl)).2.1
  have hrate : List.map (fun r_ => Py.getF r_ (-2 : Int)) rows = (rows.map rowOf).map Row.rate := by
    simp only [List.map_map]; apply List.map_congr_left; intro l hl; exact (cols l (h10 l hl)).2.2
  have hidx : Py.firstIdx (((rows.map rowOf).map Row.poly).map polyList) = Py.firstIdx ((rows.map rowOf).map Row.poly) := by
    have := firstIdxFrom_inj polyList polyList_inj ((rows.map rowOf).map Row.poly) 0 []
    simpa [Py.firstIdx] using this
  -- the unique polygons, as lists, are the model's unique polygons
  have hup : Py.gather (((rows.map rowOf).map Row.poly).map polyList) (Py.firstIdx ((rows.map rowOf).map Row.poly))
      = (uniqFirst ((rows.map rowOf).map Row.poly)).map polyList := by
    rw [gather_map, ← uniqBy_id]
    have := gather_firstIdx id ((rows.map rowOf).map Row.poly)
    simp only [List.map_id] at this
    rw [this]
  have hpm : Py.gather ((rows.map rowOf).map Row.flag) (Py.firstIdx ((rows.map rowOf).map Row.poly))
      = (uniqFirst ((rows.map rowOf).map Row.poly)).map (firstFlag (rows.map rowOf)) := by
    rw [gather_map, gather_firstIdx Row.poly]
    have := firstFlag_uniqBy (rows.map rowOf) (fun _ => true)
    simpa using this.symm
  have hmw : Py.gather ((rows.map rowOf).map Row.m0) (Py.firstIdx ((rows.map rowOf).map Row.m0))
      = uniqFirst ((rows.map rowOf).map Row.m0) := by
    have := gather_firstIdx id ((rows.map rowOf).map Row.m0)
    simp only [List.map_id] at this
    rw [this, uniqBy_id]
  simp only [Src.load_ascii, hpoly, hflag, hm0, hrate, hidx, hup, hpm, hmw]
  simp only [F, build]
  cases swap <;>
    simp [cornersOf, mkCell, polyList, Py.getF, Function.comp, List.map_map]

/-! ## `scale_to_test_date` -/

/-- `scale_to_test_date(test)`: `none` = `return self` unchanged, `some q` = `self.scale(q)` with the decimal-year fraction of
    the model, bit for bit (years within float64's exact range: CPython's are 1..9999) -/
theorem scale_to_test_date_eq_model (test end_ start : Py.Datetime)
    (h1 : |(Time.fields start.us).year| ≤ 2 ^ 53) (h2 : |(Time.fields end_.us).year| ≤ 2 ^ 53)
    (h3 : |(Time.fields (test.us + Time.usPerDay)).year| ≤ 2 ^ 53) :
    Src.scale_to_test_date test end_ start = testDateFraction start.us end_.us test.us := by
  have e3 : Src.decimal_year (Py.Datetime.addTd test ((86400000000 : Int) * (1 : Int))) = Time.decimalYear (test.us + Time.usPerDay) := by
    rw [decimal_year_eq_model _ (by simpa [Py.Datetime.addTd, Time.usPerDay] using h3)]
    simp [Py.Datetime.addTd, Time.usPerDay]
  simp only [Src.scale_to_test_date, testDateFraction, decimal_year_eq_model _ h1, decimal_year_eq_model _ h2, e3,
    decide_eq_true_eq, ge_iff_le]

end Src
