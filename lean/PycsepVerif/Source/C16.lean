import PycsepVerif.GeneratedSrc
import PycsepVerif.Model.BinaryBrier
/-!
# Source tie of C16: `_brier_score_ndarray` generated from the Python source equals the hand model (Model/BinaryBrier.lean)

Arrays are flat lists; `observations.shape` is the parameter `dims`. `poisson.cdf(0, r)` is `exp(-r)` (prelude, trusted,
compared numerically on every run).
-/
namespace Src
open RealOps BinaryBrier
variable {α : Type} [RealOps α]

theorem brier_score_ndarray_eq_model (forecast : List α) (obs : List Nat) (dims : List Nat) :
    Src.brier_score_ndarray forecast obs dims = brier dims (forecast.zip obs) := by
  simp only [Src.brier_score_ndarray, brier, brierCell, poisCdf0, Py.poissonCdf0, Py.rsum, Py.rsq, two,
    List.map_map, List.zipWith_map, List.map_zipWith, List.zip_eq_zipWith]
  rfl

end Src
