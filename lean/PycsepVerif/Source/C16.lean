import PycsepVerif.GeneratedSrc
import PycsepVerif.Model.BinaryBrier
import PycsepVerif.Proofs.RealInst
/-!
# Source tie of C16: `_brier_score_ndarray` and `binary_joint_log_likelihood_ndarray` generated from the Python source equal
the hand model (Model/BinaryBrier.lean)

Arrays are flat lists; `observations.shape` is the parameter `dims`. `poisson.cdf(0, r)` is `exp(-r)` (prelude, trusted,
compared numerically on every run).

`binary_joint_log_likelihood_ndarray` is translated with numpy.ma's semantics of masked slots (PyPrelude: every element is
`(data, mask)`, masked slots of a result carry the first operand's data). The hand model `binaryLL` is the closed form per
bin (`binTerm`), which drops the factors `1 *` and the terms `0 * …` of the code: the equality therefore holds over the real
numbers (`α = ℝ`), for forecast and catalog arrays of equal size (numpy raises otherwise).
-/
namespace Src
open RealOps BinaryBrier

section Generic
variable {α : Type} [RealOps α]

theorem brier_score_ndarray_eq_model (forecast : List α) (obs : List Nat) (dims : List Nat) :
    Src.brier_score_ndarray forecast obs dims = brier dims (forecast.zip obs) := by
  simp only [Src.brier_score_ndarray, brier, brierCell, poisCdf0, Py.poissonCdf0, Py.rsum, Py.rsq, two,
    List.map_map, List.zipWith_map, List.map_zipWith, List.zip_eq_zipWith]
  rfl

/-- `y = zeros(n); y[nonzero(catalog)[0]] = 1` is the indicator array of the active bins -/
theorem put_nonzero_aux {β : Type} (c z : β) : ∀ (l : List Nat) (pre : List β),
    (Py.nonzeroIdxFrom pre.length l).foldl (fun acc i => acc.set i c) (pre ++ List.replicate l.length z)
      = pre ++ l.map (fun k => if k ≠ 0 then c else z)
  | [], pre => by simp [Py.nonzeroIdxFrom]
  | x :: xs, pre => by
    have ih := put_nonzero_aux c z xs
    by_cases hx : x = 0
    · have := ih (pre ++ [z])
      simp only [List.length_append, List.length_singleton, List.append_assoc, List.singleton_append] at this
      simp [Py.nonzeroIdxFrom, hx, List.replicate_succ, this]
    · have := ih (pre ++ [c])
      simp only [List.length_append, List.length_singleton, List.append_assoc, List.singleton_append] at this
      simp [Py.nonzeroIdxFrom, hx, List.replicate_succ, this]

theorem indicator_eq (catalog : List Nat) (n : Int) (hn : n = (catalog.length : Int)) :
    Py.put (Py.np_zeros n : List α) (Py.nonzeroIdx catalog) one = catalog.map (fun k => if k ≠ 0 then one else zero) := by
  subst hn
  have := put_nonzero_aux (one : α) zero catalog []
  simpa [Py.put, Py.np_zeros, Py.nonzeroIdx] using this
/-- `binary_spatial_likelihood(forecast, catalog)` (poisson_evaluations.py:257): one `binaryCell` per spatial cell, with
    `scale = catalog.event_count / forecast.event_count`; the objects are read only through `.event_count` and
    `.spatial_counts()` (arrays of one size). Generic over `RealOps`. -/
theorem binary_spatial_likelihood_eq_model (nCat : Nat) (nFore : α) (sc : List α) (cnt : List Nat)
    (h : sc.length = cnt.length) :
    Src.binary_spatial_likelihood nCat nFore sc cnt
      = (sc.zip cnt).map (fun p => binaryCell (div (ofNat nCat) nFore) p.1 p.2) := by
  have hn : Py.size sc = (cnt.length : Int) := by simp [Py.size, h]
  simp only [Src.binary_spatial_likelihood, indicator_eq cnt _ hn]
  apply List.ext_getElem
  · simp [h]
  · intro i h1 h2
    have hi : i < cnt.length := by simpa [h] using h2
    simp only [List.getElem_zipWith, List.getElem_map, List.getElem_zip, binaryCell]
    by_cases hc : cnt[i] = 0
    · have : ¬ (0 < cnt[i]) := by omega
      simp [hc]
    · have : 0 < cnt[i] := by omega
      simp [hc, this]

/-- the model's `binarySpatialMap` in terms of the generated definition -/
theorem binarySpatialMap_eq_src (data : List (List α)) (c : List (List Nat))
    (h : (spatialMarginal data).length = (spatialMarginalN c).length) :
    binarySpatialMap data c
      = Src.binary_spatial_likelihood c.flatten.sum (RealOps.sum data.flatten) (spatialMarginal data) (spatialMarginalN c) := by
  rw [binary_spatial_likelihood_eq_model _ _ _ _ h]; rfl

end Generic

/-- `binary_joint_log_likelihood_ndarray(forecast, catalog)` over ℝ is the model's `binaryLL` of the bins -/
theorem binary_joint_log_likelihood_ndarray_eq_model (forecast : List ℝ) (catalog : List Nat)
    (h : forecast.length = catalog.length) :
    Src.binary_joint_log_likelihood_ndarray forecast catalog = binaryLL (forecast.zip catalog) := by
  have hn : Py.size (Py.ma_masked_where (List.map (fun x_ => RealOps.le x_ (RealOps.zero : ℝ)) forecast) forecast)
      = (catalog.length : Int) := by simp [Py.ma_masked_where, Py.size, h]
  simp only [Src.binary_joint_log_likelihood_ndarray, indicator_eq catalog _ hn, binaryLL, Py.rsum]
  congr 1
  apply List.ext_getElem
  · simp [Py.ma_data, Py.ma_arr_mul, Py.ma_log, Py.ma_scalar_sub, Py.ma_exp, Py.ma_neg, Py.ma_masked_where, h]
  · intro i h1 h2
    have hi : i < catalog.length := by simpa [h] using h2
    simp only [Py.ma_data, Py.ma_arr_mul, Py.ma_log, Py.ma_scalar_sub, Py.ma_exp, Py.ma_neg, Py.ma_masked_where,
      List.getElem_zipWith, List.getElem_map, List.getElem_zip, binTerm, real_le, real_one, real_zero, real_sub, real_mul,
      real_neg, real_add, real_exp, real_log, decide_eq_true_eq, Bool.or_eq_true]
    by_cases hc : catalog[i] = 0
    · have : ¬ (0 < catalog[i]) := by omega
      by_cases hr : forecast[i] ≤ 0 <;> by_cases hp : 1 - Real.exp (-forecast[i]) ≤ 0 <;> simp [hc, hr, hp]
    · have : 0 < catalog[i] := by omega
      by_cases hr : forecast[i] ≤ 0 <;> by_cases hp : 1 - Real.exp (-forecast[i]) ≤ 0 <;> simp [hc, hr, hp, this]

end Src
