import PycsepVerif.GeneratedSrc
import PycsepVerif.Model.Readers
import PycsepVerif.Source.C15
import PycsepVerif.Model.PersistText
import PycsepVerif.Proofs.TimeStr
/-!
# Source tie of C19: the per-record body of `zmap_ascii` (csep/utils/readers.py) generated from the Python source equals the
hand model's `Readers.zmapRec` (Model/Readers.lean)

The definition is the BODY of the loop `for event_id, line in enumerate(zmap_catalog_data)`, a function of the event id and of
one row of `numpy.loadtxt` (float64 columns). Rows with fewer than ten columns (IndexError in Python, `badRow` in the model)
are outside the specialisation: indexing is translated without bounds checks. The column numbers are read from the nested
`ColumnIndex` enum of the source. `datetime.datetime(...)` is the prelude's checked constructor (`Time.validFields`), the
model has its own civil calendar (`Readers.daysFromCivil`, `Clock.valid`): both are proved to agree here.
-/
namespace Src
open Readers

theorem isLeap_eq (y : Int) : Time.isLeap y = Readers.isLeap y := rfl

theorem daysInMonth_eq (y m : Int) : Time.daysInMonth y m = Readers.daysInMonth y m := by
  unfold Time.daysInMonth Readers.daysInMonth
  rw [isLeap_eq]
  by_cases h2 : m = 2
  · simp [h2]
  · by_cases h : m = 4 ∨ m = 6 ∨ m = 9 ∨ m = 11
    · rcases h with h | h | h | h <;> simp [h]
    · have h4 : ¬ m = 4 := fun e => h (Or.inl e)
      have h6 : ¬ m = 6 := fun e => h (Or.inr (Or.inl e))
      have h9 : ¬ m = 9 := fun e => h (Or.inr (Or.inr (Or.inl e)))
      have h11 : ¬ m = 11 := fun e => h (Or.inr (Or.inr (Or.inr e)))
      simp [h2, h4, h6, h9, h11]

/-- the two closed forms of the day number agree on calendar months -/
theorem daysFromCivil_eq' (y m d : Int) (h1 : 1 ≤ m) (h2 : m ≤ 12) : Time.daysFromCivil y m d = Readers.daysFromCivil y m d := by
  unfold Time.daysFromCivil Readers.daysFromCivil
  by_cases hm : m ≤ 2
  · have : ¬ m > 2 := by omega
    simp only [hm, this, if_true, if_false]; omega
  · have : m > 2 := by omega
    simp only [hm, this, if_true, if_false]; omega

/-- the clock reading the code builds from a row -/
def clockOf (row : List Rat) : Clock :=
  ⟨trunc (row.getD 2 0), trunc (row.getD 3 0), trunc (row.getD 4 0), trunc (row.getD 7 0), trunc (row.getD 8 0),
   trunc (row.getD 9 0)⟩

theorem valid_eq (c : Clock) :
    Time.validFields { year := c.y, month := c.m, day := c.d, hour := c.hh, minute := c.mi, second := c.ss, micro := 0 }
      = c.valid := by
  unfold Time.validFields Clock.valid Time.validDate Readers.validDate
  simp only [daysInMonth_eq]
  by_cases a1 : 1 ≤ c.y <;> by_cases a2 : c.y ≤ 9999 <;> by_cases a3 : 1 ≤ c.m <;> by_cases a4 : c.m ≤ 12 <;>
    by_cases a5 : 1 ≤ c.d <;> by_cases a6 : c.d ≤ Readers.daysInMonth c.y c.m <;> simp [a1, a2, a3, a4, a5, a6]

theorem epoch_eq (c : Clock) (hv : c.valid = true) :
    Time.dtToMs (Time.ofFields { year := c.y, month := c.m, day := c.d, hour := c.hh, minute := c.mi, second := c.ss, micro := 0 })
      = epochMs c 0 := by
  unfold Clock.valid Readers.validDate at hv
  simp only [Bool.and_eq_true, decide_eq_true_eq] at hv
  have hm1 : 1 ≤ c.m := by omega
  have hm2 : c.m ≤ 12 := by omega
  unfold Time.dtToMs Time.ofFields epochMs Clock.epochSec
  simp only [daysFromCivil_eq' c.y c.m c.d hm1 hm2, Time.usPerDay]
  generalize Readers.daysFromCivil c.y c.m c.d = D
  omega

theorem getF_k (l : List Rat) (k : Nat) : Py.getF l (k : Int) = l.getD k 0 := by simp [Py.getF]

/-- how the model's per-record result reads as the tuple the code appends -/
def recOut (eventId : Int) : Except Readers.Err Event → Except Py.Err (Int × Int × Rat × Rat × Rat × Rat)
  | .error _ => .error .valueError
  | .ok ev => .ok (eventId, ev.time, ev.lat, ev.lon, ev.depth, ev.mag)

/-- the model's `zmapRec` on a row of at least ten columns, with the column numbers evaluated -/
theorem zmapRec_eq (row : List Rat) (h10 : 10 ≤ row.length) :
    zmapRec row = if (clockOf row).valid then
      .ok ⟨epochMs (clockOf row) 0, row.getD 1 0, row.getD 0 0, row.getD 6 0, row.getD 5 0⟩ else .error .badTime := by
  have hlen : ¬ row.length < 10 := by omega
  have c0 : zcol "Longitude" = 0 := by rfl
  have c1 : zcol "Latitude" = 1 := by rfl
  have c2 : zcol "DecimalYear" = 2 := by rfl
  have c3 : zcol "Month" = 3 := by rfl
  have c4 : zcol "Day" = 4 := by rfl
  have c5 : zcol "Magnitude" = 5 := by rfl
  have c6 : zcol "Depth" = 6 := by rfl
  have c7 : zcol "Hour" = 7 := by rfl
  have c8 : zcol "Minute" = 8 := by rfl
  have c9 : zcol "Second" = 9 := by rfl
  simp only [zmapRec, hlen, if_false, clockOf, c0, c1, c2, c3, c4, c5, c6, c7, c8, c9]
  rfl

/-- **the record body of `zmap_ascii`**: ValueError iff the clock reading is not a valid datetime (the model's `badTime`),
    otherwise the tuple `(event_id, origin time [ms], latitude, longitude, depth, magnitude)` of the model's event -/
theorem zmap_record_eq_model (eventId : Int) (row : List Rat) (h10 : 10 ≤ row.length) :
    Src.zmap_record eventId row = recOut eventId (zmapRec row) := by
  have ht : ∀ x, Py.truncF x = trunc x := fun _ => rfl
  have g2 := getF_k row 2; have g3 := getF_k row 3; have g4 := getF_k row 4; have g7 := getF_k row 7
  have g8 := getF_k row 8; have g9 := getF_k row 9; have g0 := getF_k row 0; have g1 := getF_k row 1
  have g5 := getF_k row 5; have g6 := getF_k row 6
  simp only [Nat.cast_ofNat, Nat.cast_zero, Nat.cast_one] at g2 g3 g4 g7 g8 g9 g0 g1 g5 g6
  rw [zmapRec_eq row h10]
  unfold Src.zmap_record
  rw [g2, g3, g4, g7, g8, g9, g0, g1, g5, g6]
  have hchk : Py.mkDatetimeChecked (Py.truncF (row.getD 2 0)) (Py.truncF (row.getD 3 0)) (Py.truncF (row.getD 4 0))
      (Py.truncF (row.getD 7 0)) (Py.truncF (row.getD 8 0)) (Py.truncF (row.getD 9 0)) 0
      = if (clockOf row).valid then .ok (Py.mkDatetime (clockOf row).y (clockOf row).m (clockOf row).d (clockOf row).hh
          (clockOf row).mi (clockOf row).ss 0) else .error .valueError := by
    have hv := valid_eq (clockOf row)
    unfold Py.mkDatetimeChecked
    rw [show Py.truncF = trunc from rfl]
    simp only [clockOf] at hv ⊢
    rw [hv]
    rfl
  rw [hchk]
  by_cases hval : (clockOf row).valid = true
  · rw [if_pos hval, if_pos hval]
    have hep := epoch_eq (clockOf row) hval
    have hd : Src.datetime_to_utc_epoch (Py.mkDatetime (clockOf row).y (clockOf row).m (clockOf row).d (clockOf row).hh
        (clockOf row).mi (clockOf row).ss 0) = .ok (epochMs (clockOf row) 0) := by
      rw [datetime_to_utc_epoch_eq_model]
      simp only [Py.mkDatetime, toTz, ofOpt, Time.datetimeToUtcEpoch, hep]
    simp only [hd, recOut]
  · rw [if_neg hval, if_neg hval]; rfl

/-! ## the record body of `ingv_horus` (readers.py:577): one row of the structured array, the second / minute / hour carries

`line` is one row of `numpy.genfromtxt(..., dtype=[i4, i4, i4, i4, i4, f8, f8, f8, f8, f8])`: its ten fields are parameters;
`line['minute'] -= 60.` stores a float into an int32 field (numpy truncates). The first component of the appended tuple is the
datetime object itself (the model's event has no such slot): the tie is stated for the remaining five components.
`second - 60.` is one float64 subtraction; the model subtracts exactly (the subtraction is exact for every float64 in
[60, 2^53), a fact of binary64 arithmetic that is a hypothesis here). -/

/-- the five components the model describes -/
def horusOut : Except Readers.Err Event → Except Py.Err (Int × Rat × Rat × Rat × Rat)
  | .error _ => .error .valueError
  | .ok ev => .ok (ev.time, ev.lat, ev.lon, ev.depth, ev.mag)

theorem i2f_ge (m : Int) (k : Nat) (hm : |m| ≤ 2 ^ 53) : (Py.i2f m ≥ ((k : Nat) : Rat)) ↔ ((k : Int) ≤ m) := by
  rw [i2f_small hm]
  constructor
  · intro h; exact_mod_cast h
  · intro h; exact_mod_cast h

theorem trunc_sub (m : Int) (k : Nat) (hm : |m| ≤ 2 ^ 52) (hk : (k : Int) ≤ 2 ^ 10) :
    Py.truncF (Soft64.fsub (Py.i2f m) ((k : Nat) : Rat)) = m - k := by
  have h1 : |m| ≤ 2 ^ 53 := le_trans hm (by norm_num)
  have h2 : |m - (k : Int)| ≤ 2 ^ 53 := by
    rw [abs_le] at hm ⊢; constructor <;> omega
  rw [i2f_small h1]
  unfold Soft64.fsub
  have : ((m : Rat) - ((k : Nat) : Rat)) = (((m - (k : Int)) : Int) : Rat) := by push_cast; ring
  rw [this, Soft64R.fl64_intCast h2]
  exact truncF_int _

theorem epoch_carry (c : Clock) (hv : c.valid = true) (carry : Int) :
    Time.dtToMs (Time.ofFields { year := c.y, month := c.m, day := c.d, hour := c.hh, minute := c.mi, second := c.ss, micro := 0 }
        + carry * 1000000) = (c.epochSec + carry) * 1000 := by
  unfold Clock.valid Readers.validDate at hv
  simp only [Bool.and_eq_true, decide_eq_true_eq] at hv
  have hm1 : 1 ≤ c.m := by omega
  have hm2 : c.m ≤ 12 := by omega
  unfold Time.dtToMs Time.ofFields Clock.epochSec
  simp only [daysFromCivil_eq' c.y c.m c.d hm1 hm2, Time.usPerDay]
  generalize Readers.daysFromCivil c.y c.m c.d = D
  omega

/-- the tail of the record body: checked constructor, `+ dt`, epoch, tuple -/
theorem horus_close (y m d hh mi ss us carry : Int) (hus : us = carry * 1000000) (lat lon depth mw : Rat) :
    (match Py.mkDatetimeChecked y m d hh mi ss 0 with
      | Except.error e_ => Except.error e_
      | Except.ok r_5 =>
        match Src.datetime_to_utc_epoch (r_5.addTd us) with
        | Except.error e_ => Except.error e_
        | Except.ok r_7 => Except.ok (r_5.addTd us, r_7, lat, lon, depth, mw)).map
        (fun (t : Py.Datetime × Int × Rat × Rat × Rat × Rat) => (t.2.1, t.2.2.1, t.2.2.2.1, t.2.2.2.2.1, t.2.2.2.2.2))
      = horusOut (if (Clock.mk y m d hh mi ss).valid = true then
          Except.ok ⟨((Clock.mk y m d hh mi ss).epochSec + carry) * 1000, lat, lon, depth, mw⟩
        else Except.error Err.badTime) := by
  subst hus
  have hv := valid_eq ⟨y, m, d, hh, mi, ss⟩
  simp only at hv
  unfold Py.mkDatetimeChecked
  rw [hv]
  by_cases hval : (Clock.mk y m d hh mi ss).valid = true
  · rw [if_pos hval, if_pos hval]
    have hep := epoch_carry ⟨y, m, d, hh, mi, ss⟩ hval carry
    simp only at hep
    have hd : Src.datetime_to_utc_epoch ((Py.mkDatetime y m d hh mi ss 0).addTd (carry * 1000000))
        = .ok (((Clock.mk y m d hh mi ss).epochSec + carry) * 1000) := by
      rw [datetime_to_utc_epoch_eq_model]
      simp only [Py.mkDatetime, Py.Datetime.addTd, toTz, ofOpt, Time.datetimeToUtcEpoch, hep]
    simp only [hd, horusOut, Except.map]
  · rw [if_neg hval, if_neg hval]; rfl

theorem horus_record_eq_model (n : Int) (r : HorusRec) (hmi : |r.minute| ≤ 2 ^ 31) (hh : |r.hour| ≤ 2 ^ 31)
    (hsec : 60 ≤ r.second → Soft64.fsub r.second 60 = r.second - 60) :
    (Src.horus_record n r.year r.month r.day r.hour r.minute r.second r.lat r.lon r.depth r.mw).map
        (fun t => (t.2.1, t.2.2.1, t.2.2.2.1, t.2.2.2.2.1, t.2.2.2.2.2))
      = horusOut (horusRec r) := by
  have hmi52 : |r.minute| ≤ 2 ^ 52 := le_trans hmi (by norm_num)
  have hh52 : |r.hour| ≤ 2 ^ 52 := le_trans hh (by norm_num)
  have c60 := i2f_ge r.minute 60 (le_trans hmi (by norm_num))
  have c24 := i2f_ge r.hour 24 (le_trans hh (by norm_num))
  have t60 := trunc_sub r.minute 60 hmi52 (by norm_num)
  have t24 := trunc_sub r.hour 24 hh52 (by norm_num)
  simp only [Nat.cast_ofNat] at c60 c24 t60 t24
  unfold Src.horus_record horusRec
  -- the clock reading and the carry, case by case
  by_cases hs : 60 ≤ r.second <;> by_cases hm : (60 : Int) ≤ r.minute <;> by_cases hhr : (24 : Int) ≤ r.hour
  all_goals
    have hs' : (r.second ≥ 60) = (60 ≤ r.second) := rfl
    have hm' : decide (Py.i2f r.minute ≥ 60) = decide ((60 : Int) ≤ r.minute) := decide_eq_decide.mpr c60
    have hh' : decide (Py.i2f r.hour ≥ 24) = decide ((24 : Int) ≤ r.hour) := decide_eq_decide.mpr c24
    simp only [ge_iff_le, hs, hm, hhr, hm', hh', decide_true, decide_false, if_true, if_false, Bool.false_eq_true, t60, t24]
    try rw [hsec hs]
    apply horus_close
    norm_num

/-! ## `parse_datetime`, nested in `csep_ascii` (readers.py:428): the two time-string formats tried in turn -/

/-- the epoch milliseconds of the first of `%Y-%m-%dT%H:%M:%S.%f`, `%Y-%m-%dT%H:%M:%S` that matches (`Time.readerParse`);
    CSEPIOException (`Err.other`) when neither does. `try … except: pass` swallows the ValueError of the first attempt. -/
theorem reader_parse_datetime_eq_model (s : List Char) :
    Src.reader_parse_datetime s = match Time.readerParse s with | some ms => .ok ms | none => .error .other := by
  have h1 := strptime_to_utc_epoch_explicit s ⟨'T', true, false⟩ (Or.inr rfl) (by decide)
  have h2 := strptime_to_utc_epoch_explicit s ⟨'T', false, false⟩ (Or.inr rfl) (by decide)
  have t1 : Py.fmtText ⟨'T', true, false⟩
      = (['%', 'Y', '-', '%', 'm', '-', '%', 'd', 'T', '%', 'H', ':', '%', 'M', ':', '%', 'S', '.', '%', 'f'] : List Char) := by decide
  have t2 : Py.fmtText ⟨'T', false, false⟩
      = (['%', 'Y', '-', '%', 'm', '-', '%', 'd', 'T', '%', 'H', ':', '%', 'M', ':', '%', 'S'] : List Char) := by decide
  rw [t1] at h1; rw [t2] at h2
  simp only [Src.reader_parse_datetime, h1, h2, Time.readerParse, Time.strptimeExplicitEpoch]
  cases hw1 : Time.strptimeWith { sep := 'T', frac := true, zone := false } s <;>
    cases hw2 : Time.strptimeWith { sep := 'T', frac := false, zone := false } s <;> simp [hw1, hw2]

end Src

/-!
# Source tie of C19 / C14: the per-record body of `csep_ascii` (csep/utils/readers.py:451-475) and its nested
`is_header_line`, generated from the Python source, equal the text model of the C14 owner
(`PersistText.isHeader`, `PersistText.parseRecord` with the float text codec `PersistText.textCodec`)

The definition is the BODY of the loop `for i, line in enumerate(catalog_reader)`, a function of the index, of one record of
the csv reader (a list of strings) and of the first-pass flag. `line[k]` raises IndexError beyond the end, `float('…')` /
`int('…')` raise ValueError, the time string goes through the nested `parse_datetime` (tied in Source/C19.lean),
`continue` is the result `none`. The result is the tuple appended to `events`, then `catalog_id`.

Hypotheses of the theorem (inputs on which model and prelude speak about different things):
* the four float cells are inside the float text layer (`Py.float_str s ≠ error other`: not a non-finite word, no overflow,
  ASCII) — the model's `FloatText.floatOfStr` answers `none` there, Python returns nan / inf;
* the catalog-id cell is read by `int()` as the model's `parseInt?` reads it (canonical decimal text, or no integer at
  all): Python's `int` also accepts blanks, `+` and underscores, which `write_ascii` never writes.
-/
namespace Src
open Persist PersistText Time

/-- the exceptions of the text model as the prelude's -/
def txtErr : TextErr → Py.Err
  | .valueError => .valueError
  | .timeFormat => .other
  | .indexError => .indexError

theorem csep_is_header_eq_model (line : List (List Char)) :
    Src.csep_is_header line = (match isHeader line with | .ok b => .ok b | .error e => .error (txtErr e)) := by
  cases line with
  | nil => simp [Src.csep_is_header, Py.list_item, isHeader, txtErr]
  | cons f t =>
    have : "lon".toList = (['l', 'o', 'n'] : List Char) := by decide
    by_cases h : f = ['l', 'o', 'n'] <;> simp [Src.csep_is_header, Py.list_item, isHeader, this, h]

theorem float_str_of (s : List Char) (h : Py.float_str s ≠ .error .other) :
    Py.float_str s = match textCodec.dec s with | some x => .ok x | none => .error .valueError := by
  unfold Py.float_str at h ⊢
  simp only [textCodec]
  cases hf : FloatText.floatOfStr s with
  | some x => rfl
  | none =>
    simp only [hf] at h ⊢
    split at h
    · exact absurd rfl h
    · rename_i hc; simp [hc]

/-- the tuple the body produces as the model's event and catalog id -/
def toEvent (r : ((List Char ⊕ Int) × Int × Rat × Rat × Rat × Rat) × Int) : Event × Int :=
  ({ id := storeId (match r.1.1 with | .inl s => s | .inr n => natDigits (n.toNat + 1) n.toNat),
     ms := r.1.2.1, lat := r.1.2.2.1, lon := r.1.2.2.2.1, depth := r.1.2.2.2.2.1, mag := r.1.2.2.2.2.2 }, r.2)

set_option hygiene false in
macro "csep_body" : tactic => `(tactic| (
  cases textCodec.dec a0 <;> simp [txtErr, bind, Except.bind]
  cases textCodec.dec a1 <;> simp [txtErr]
  cases textCodec.dec a2 <;> simp [txtErr]
  cases readerParse a3 <;> simp [txtErr]
  cases textCodec.dec a4 <;> simp [txtErr]
  cases parseInt? a5 <;> simp [txtErr, Py.tryCatch, toEvent, pure, Except.pure] <;>
    by_cases he : a6 = [] <;> simp [he]))

set_option hygiene false in
macro "csep_short" : tactic => `(tactic| (
  simp [txtErr, bind, Except.bind, *]
  all_goals (try (cases textCodec.dec a0 <;> (try simp)))
  all_goals (try (cases textCodec.dec a1 <;> (try simp)))
  all_goals (try (cases textCodec.dec a2 <;> (try simp)))
  all_goals (try (cases readerParse a3 <;> (try simp)))
  all_goals (try (cases textCodec.dec a4 <;> (try simp)))
  all_goals (try (cases parseInt? a5 <;> (try simp [Py.tryCatch])))
  all_goals (try simp [Py.tryCatch])))

/-- the body of the loop of `csep_ascii`, mapped to the model's event: on the first pass a header record gives nothing
    (`continue`); otherwise the record is parsed cell by cell in the source's order, and the first failing step's exception
    is the result (IndexError / ValueError / CSEPIOException = `other`) -/
theorem csep_record_eq_model (i : Nat) (line : List (List Char)) (first : Bool)
    (hfloat : ∀ k ∈ [0, 1, 2, 4], ∀ s, line[k]? = some s → Py.float_str s ≠ .error .other)
    (hcid : ∀ s, line[5]? = some s →
      Py.int_str s = match parseInt? s with | some n => .ok n | none => .error .valueError) :
    (match Src.csep_record (i : Int) line first with
     | .error e => Except.error e
     | .ok r => .ok (r.map toEvent))
    = (match (if first then isHeader line else .ok false) with
       | .error e => .error (txtErr e)
       | .ok true => .ok none
       | .ok false => match parseRecord textCodec i line with
         | .error e => .error (txtErr e)
         | .ok r => .ok (some r)) := by
  have hlon : "lon".toList = (['l', 'o', 'n'] : List Char) := by decide
  rcases line with _ | ⟨a0, _ | ⟨a1, _ | ⟨a2, _ | ⟨a3, _ | ⟨a4, _ | ⟨a5, _ | ⟨a6, rest⟩⟩⟩⟩⟩⟩⟩
  case cons.cons.cons.cons.cons.cons.cons =>
    have hf0 := float_str_of a0 (hfloat 0 (by simp) a0 (by simp))
    have hf1 := float_str_of a1 (hfloat 1 (by simp) a1 (by simp))
    have hf2 := float_str_of a2 (hfloat 2 (by simp) a2 (by simp))
    have hf4 := float_str_of a4 (hfloat 4 (by simp) a4 (by simp))
    have hc := hcid a5 (by simp)
    simp only [Src.csep_record, csep_is_header_eq_model, reader_parse_datetime_eq_model, Py.list_item, hf0, hf1, hf2, hf4, hc,
      parseRecord, floatCell, cell, isHeader, List.getElem?_cons_zero, List.getElem?_cons_succ]
    cases first
    · simp only [Bool.false_eq_true, if_false, Bool.false_and]
      csep_body
    · by_cases h : a0 = ['l', 'o', 'n']
      · simp [h, hlon]
      · have hb : (a0 == "lon".toList) = false := by simp [hlon, h]
        simp only [if_true, hb, Bool.true_and, Bool.false_eq_true, if_false]
        csep_body
  all_goals (
    try have hf0 := float_str_of a0 (hfloat 0 (by simp) a0 (by simp))
    try have hf1 := float_str_of a1 (hfloat 1 (by simp) a1 (by simp))
    try have hf2 := float_str_of a2 (hfloat 2 (by simp) a2 (by simp))
    try have hf4 := float_str_of a4 (hfloat 4 (by simp) a4 (by simp))
    try have hc := hcid a5 (by simp)
    clear hfloat hcid
    simp only [Src.csep_record, csep_is_header_eq_model, reader_parse_datetime_eq_model, Py.list_item,
      parseRecord, floatCell, cell, isHeader, List.getElem?_cons_zero, List.getElem?_cons_succ, List.getElem?_nil, *]
    cases first
    · simp only [Bool.false_eq_true, if_false, Bool.false_and]
      csep_short
    · first
        | (simp [txtErr]; done)
        | (by_cases h : a0 = ['l', 'o', 'n']
           · simp [h, hlon]
           · have hb : (a0 == (['l', 'o', 'n'] : List Char)) = false := by simp [h]
             simp only [if_true, hb, Bool.true_and, Bool.false_eq_true, if_false]
             csep_short))
end Src

/-!
## the per-record body of `jma_csv` (readers.py:664-674) against `ReaderText.jmaTokens` / `Readers.jmaRecF`

The two helper lambdas of the function (`parse_date_string`, `is_header_line`) are inlined by the translator.
`datetime.strptime(x, '%Y-%m-%dT%H:%M:%S.%f%z').timestamp()` is the prelude's `Py.strptime_timestamp`, whose text reading IS the
reader text model's `parseJmaTime`; the float steps `1000. * ts` and `round(...)` are Soft64 operations in the source's order.
-/
namespace Src
open Readers ReaderText

/-- the format of `jma_csv` as the generated definition spells it -/
def jmaFmt : List Char :=
  ['%', 'Y', '-', '%', 'm', '-', '%', 'd', 'T', '%', 'H', ':', '%', 'M', ':', '%', 'S', '.', '%', 'f', '%', 'z']

/-- outcome of one pass of the loop with the exception class forgotten (the model has one class per record) -/
def jmaOutcome : Except Py.Err (Option (Int × Int × Rat × Rat × Rat × Rat)) → Option (Option Event)
  | .ok none => some none
  | .ok (some r) => some (some ⟨r.2.1, r.2.2.1, r.2.2.2.1, r.2.2.2.2.1, r.2.2.2.2.2⟩)
  | .error _ => none

theorem strptime_timestamp_of (s : List Char) (h : Py.strptime_timestamp s jmaFmt ≠ .error .other) :
    Py.strptime_timestamp s jmaFmt =
      match parseJmaTime s with
      | some (c, us, off) =>
        if c.valid && decide (0 ≤ us) && decide (us < 1000000) then
          .ok (Soft64.fl64 ((((c.epochSec - off) * 1000000 + us : Int) : Rat) / 1000000))
        else .error .valueError
      | none => .error .valueError := by
  have hf : jmaFmt = "%Y-%m-%dT%H:%M:%S.%f%z".toList := by decide
  unfold Py.strptime_timestamp at h ⊢
  simp only [hf, ne_eq, not_true_eq_false, if_false] at h ⊢
  by_cases ha : Py.nonAscii s = true
  · simp [ha] at h
  · simp only [ha, Bool.false_eq_true, if_false] at h ⊢
    cases hp : parseJmaTime s with
    | some r => rfl
    | none =>
      simp only [hp] at h ⊢
      by_cases hz : Py.zoneWithSeconds s = true
      · simp [hz] at h
      · simp [hz]

/-- the body of the loop of `jma_csv` with the exception class forgotten: nothing on a header record of the first pass; the
    model's event (time through the float path `round(1000. * timestamp())`, `Readers.jmaRecF`) when the tokens parse and the
    clock reading is valid; no result otherwise.
    Hypotheses: the timestamp cell is inside the text model of `%z` (`strptime_timestamp ≠ error other`); on the four float
    cells the prelude's `float()` (C11 / C14 text layer) and the reader model's `ReaderText.pyFloat` read the same value
    (they differ on digit-group underscores, non-finite words and overflow). -/
theorem jma_record_eq_model (id : Int) (line : List (List Char)) (first : Bool)
    (hts : ∀ s, line[0]? = some s → Py.strptime_timestamp s jmaFmt ≠ .error .other)
    (hfl : ∀ k ∈ [1, 2, 3, 4], ∀ s, line[k]? = some s →
      Py.float_str s = match ReaderText.pyFloat s with | some x => .ok x | none => .error .valueError) :
    jmaOutcome (Src.jma_record id line first)
      = (match jmaTokens line with
         | some .header => if first then some none else none
         | some (.row r) => (match jmaRecF r with | .ok ev => some (some ev) | .error _ => none)
         | none => none) := by
  have hst : "timestamp".toList = (['t', 'i', 'm', 'e', 's', 't', 'a', 'm', 'p'] : List Char) := by decide
  rcases line with _ | ⟨a0, _ | ⟨a1, _ | ⟨a2, _ | ⟨a3, _ | ⟨a4, rest⟩⟩⟩⟩⟩
  case cons.cons.cons.cons.cons =>
    have ht := strptime_timestamp_of a0 (hts a0 (by simp))
    have h1 := hfl 1 (by simp) a1 (by simp)
    have h2 := hfl 2 (by simp) a2 (by simp)
    have h3 := hfl 3 (by simp) a3 (by simp)
    have h4 := hfl 4 (by simp) a4 (by simp)
    clear hts hfl
    unfold jmaFmt at ht
    simp only [Src.jma_record, Py.list_item, List.getElem?_cons_zero, List.getElem?_cons_succ, ht, h1, h2, h3, h4,
      jmaTokens, List.head?_cons]
    by_cases hh : a0 = ['t', 'i', 'm', 'e', 's', 't', 'a', 'm', 'p']
    · have hp : parseJmaTime ['t', 'i', 'm', 'e', 's', 't', 'a', 'm', 'p'] = none := by decide
      subst hh
      cases first <;> simp [hst, hp, jmaOutcome]
    · have hb : (some a0 == some "timestamp".toList) = false := by simp [hst, hh]
      have hd : decide (a0 = ['t', 'i', 'm', 'e', 's', 't', 'a', 'm', 'p']) = false := by simp [hh]
      simp only [hb, hd, Bool.false_eq_true, if_false, Bool.and_false]
      cases first <;> simp only [Bool.false_eq_true, if_false, if_true] <;>
      ( rcases hpj : parseJmaTime a0 with _ | ⟨c, us, off⟩
        · simp [jmaOutcome]
        · by_cases hv : (c.valid && decide (0 ≤ us) && decide (us < 1000000)) = true
          · cases pyFloat a1 <;> cases pyFloat a2 <;> cases pyFloat a3 <;> cases pyFloat a4 <;>
              simp [hv, jmaOutcome, jmaRecF, jmaTimeF, bind, Option.bind]
          · cases pyFloat a1 <;> cases pyFloat a2 <;> cases pyFloat a3 <;> cases pyFloat a4 <;>
              simp [hv, jmaOutcome, jmaRecF, jmaTimeF, bind, Option.bind] )
  case nil => cases first <;> simp [Src.jma_record, Py.list_item, jmaTokens, jmaOutcome]
  all_goals (
    have ht := strptime_timestamp_of a0 (hts a0 (by simp))
    try have h1 := hfl 1 (by simp) a1 (by simp)
    try have h2 := hfl 2 (by simp) a2 (by simp)
    try have h3 := hfl 3 (by simp) a3 (by simp)
    clear hts hfl
    unfold jmaFmt at ht
    simp only [Src.jma_record, Py.list_item, List.getElem?_cons_zero, List.getElem?_cons_succ, List.getElem?_nil, *,
      jmaTokens, List.head?_cons]
    by_cases hh : a0 = ['t', 'i', 'm', 'e', 's', 't', 'a', 'm', 'p']
    · have hp : parseJmaTime ['t', 'i', 'm', 'e', 's', 't', 'a', 'm', 'p'] = none := by decide
      subst hh
      cases first <;> simp [hp, jmaOutcome]
    · have hb : (some a0 == some (['t', 'i', 'm', 'e', 's', 't', 'a', 'm', 'p'] : List Char)) = false := by simp [hh]
      have hd : decide (a0 = ['t', 'i', 'm', 'e', 's', 't', 'a', 'm', 'p']) = false := by simp [hh]
      simp only [hb, hd, Bool.false_eq_true, if_false, Bool.and_false]
      cases first <;> simp only [Bool.false_eq_true, if_false, if_true] <;>
      ( rcases hpj : parseJmaTime a0 with _ | ⟨c, us, off⟩
        · simp [jmaOutcome]
        · by_cases hv : (c.valid && decide (0 ≤ us) && decide (us < 1000000)) = true
          · simp [hv, jmaOutcome]
            all_goals (try (cases pyFloat a1 <;> (try simp [jmaOutcome])))
            all_goals (try (cases pyFloat a2 <;> (try simp [jmaOutcome])))
            all_goals (try (cases pyFloat a3 <;> (try simp [jmaOutcome])))
          · simp [hv, jmaOutcome] ))
end Src

/-!
## `_parse_datetime_to_zmap` (readers.py:791-825): the date / time strings of an NDK hypocenter line

The generated definition calls the translated `strptime_to_utc_datetime` with the format `'%Y/%m/%d %H:%M:%S.%f'`; for a format
outside the eight `%Y-%m-%d…` ones the prelude's `Py.strptimeUtc` is the C15 owner's character-level model of CPython's
`_strptime` (`Time.strptimeStr`, any format and field widths). `":60.0" in time` / `time.replace(…)` are the reader text model's
`hasInfix` / `replaceAll`. The reader model (`ReaderText.parseNdkTime`, `Readers.ndkRec`) works on TOKENS with another
parser; what ties the two is `ndk_time_round_trip`: for the fields strptime produced, the time `ndk` computes from the returned
dictionary is the time `ndkRec` computes from the tokens (civil-calendar round trip `ofFields ∘ fields`, the added minute as a
carry of 60 s on the second-0 clock).
-/
namespace Src
open Readers ReaderText

def ndkFmt : List Char :=
  ['%', 'Y', '/', '%', 'm', '/', '%', 'd', ' ', '%', 'H', ':', '%', 'M', ':', '%', 'S', '.', '%', 'f']

/-- `_parse_datetime_to_zmap(date, time)`: the ":60.0" rewrite, CPython's strptime on `date + " " + time` as modelled at
    character level by `Time.strptimeStr` (ValueError → RuntimeError = `other`), one minute added after a rewrite, and the six
    calendar fields of the resulting instant -/
theorem parse_datetime_to_zmap_eq_model (date time : List Char) :
    Src.parse_datetime_to_zmap date time =
      (let sixty := hasInfix ":60.0".toList time
       let time' := if sixty then replaceAll ":60.0".toList ":0.0".toList time else time
       match Time.strptimeStr ndkFmt ((date ++ [' ']) ++ time') with
       | none => .error .other
       | some f =>
         let g := Time.fields (Time.ofFields f + (if sixty then 60000000 else 0))
         .ok (g.year, g.month, g.day, g.hour, g.minute, g.second)) := by
  have h1 : ":60.0".toList = ([':', '6', '0', '.', '0'] : List Char) := by decide
  have h2 : ":0.0".toList = ([':', '0', '.', '0'] : List Char) := by decide
  have hk : Py.knownFormats.find? (fun f => Py.fmtText f == ndkFmt) = none := by decide
  have hd : decide (ndkFmt = (['%', 'Y', '-', '%', 'm', '-', '%', 'd', ' ', '%', 'H', ':', '%', 'M', ':', '%', 'S', '.', '%', 'f'] : List Char)) = false := by decide
  unfold Src.parse_datetime_to_zmap
  simp only [h1, h2]
  have hcall : ∀ s : List Char, Src.strptime_to_utc_datetime s
      (['%', 'Y', '/', '%', 'm', '/', '%', 'd', ' ', '%', 'H', ':', '%', 'M', ':', '%', 'S', '.', '%', 'f'] : List Char)
      = match Time.strptimeStr ndkFmt s with
        | some f => .ok { us := Time.ofFields f, tz := .utc }
        | none => .error .valueError := by
    intro s
    have hd' := hd
    unfold ndkFmt at hd' hk
    unfold Src.strptime_to_utc_datetime
    simp only [hd', Bool.false_eq_true, if_false, Py.strptimeUtc, hk]
    unfold ndkFmt
    cases Time.strptimeStr _ s <;> rfl
  simp only [hcall]
  by_cases hs : hasInfix ([':', '6', '0', '.', '0'] : List Char) time = true
  · simp only [hs, if_true]
    cases Time.strptimeStr ndkFmt _ <;> simp [Py.reraise, Py.Datetime.addTd, Py.Datetime.year, Py.Datetime.month,
      Py.Datetime.day, Py.Datetime.hour, Py.Datetime.minute, Py.Datetime.second]
  · simp only [hs, Bool.false_eq_true, if_false]
    cases Time.strptimeStr ndkFmt _ <;> simp [Py.reraise, Py.Datetime.addTd, Py.Datetime.year, Py.Datetime.month,
      Py.Datetime.day, Py.Datetime.hour, Py.Datetime.minute, Py.Datetime.second]

theorem fields_micro (us : Int) : (Time.fields us).micro = us % 1000000 := by
  unfold Time.fields Time.usPerDay
  simp only
  exact Int.emod_emod_of_dvd us (by norm_num)

/-- **civil-calendar round trip of the NDK time**: what `ndk` computes from the dictionary returned by
    `_parse_datetime_to_zmap` — `datetime(year, month, day, hour, minute, second)` (microseconds dropped), then
    `datetime_to_utc_epoch` — is the time of the reader model `Readers.ndkRec` on the tokens of the same text: the fields `f`
    strptime produced, seconds field 60 with fraction digit 0 for a rewritten record. `g` = the fields of the instant after the
    added minute (theorem `parse_datetime_to_zmap_eq_model`: the generated definition returns `g.year … g.second`). -/
theorem ndk_time_round_trip (f : Time.Fields) (hv : Time.validFields f = true) (sixty : Bool)
    (hs : sixty = true → f.second = 0) (lat lon dep mw : Rat) :
    Readers.ndkRec ⟨f.year, f.month, f.day, f.hour, f.minute, if sixty then 60 else f.second,
        if sixty then 0 else f.micro / 100000, lat, lon, dep, mw⟩
      = .ok ⟨Time.dtToMs (Time.ofFields { Time.fields (Time.ofFields f + (if sixty then 60000000 else 0)) with micro := 0 }),
          lat, lon, dep, mw⟩ := by
  have hvf := hv
  unfold Time.validFields at hvf
  simp only [Bool.and_eq_true, decide_eq_true_eq] at hvf
  obtain ⟨⟨⟨⟨⟨⟨⟨⟨⟨⟨hy1, hy2⟩, hdate⟩, hh0⟩, hh1⟩, hm0⟩, hm1⟩, hs0⟩, hs1⟩, hu0⟩, hu1⟩ := hvf
  set carry : Int := if sixty then 60 else 0 with hcarry
  have hU : Time.ofFields f + (if sixty then 60000000 else 0)
      = Time.ofFields { f with micro := 0 } + carry * 1000000 + f.micro := by
    unfold Time.ofFields; cases sixty <;> simp [hcarry] <;> ring
  have hmic : (Time.fields (Time.ofFields f + (if sixty then 60000000 else 0))).micro = f.micro := by
    rw [fields_micro, hU]
    unfold Time.ofFields Time.usPerDay
    simp only
    omega
  have hg : Time.ofFields { Time.fields (Time.ofFields f + (if sixty then 60000000 else 0)) with micro := 0 }
      = Time.ofFields { f with micro := 0 } + carry * 1000000 := by
    have h1 := Time.ofFields_fields (Time.ofFields f + (if sixty then 60000000 else 0))
    have h2 : Time.ofFields { Time.fields (Time.ofFields f + (if sixty then 60000000 else 0)) with micro := 0 }
        = Time.ofFields (Time.fields (Time.ofFields f + (if sixty then 60000000 else 0)))
          - (Time.fields (Time.ofFields f + (if sixty then 60000000 else 0))).micro := by
      unfold Time.ofFields; ring
    rw [h2, h1, hmic, hU]; ring
  rw [hg]
  have hcv : ∀ ss : Int, 0 ≤ ss → ss < 60 → (⟨f.year, f.month, f.day, f.hour, f.minute, ss⟩ : Clock).valid = true := by
    intro ss h0 h1
    rw [← valid_eq]
    unfold Time.validFields
    simp [hy1, hy2, hdate, hh0, hh1, hm0, hm1, h0, h1]
  cases sixty
  · -- no rewrite: the seconds field is below 60
    have hne : (f.second == 60) = false := by
      have : ¬ f.second = 60 := by omega
      simpa using this
    have hc := hcv f.second hs0 hs1
    have := epoch_carry ⟨f.year, f.month, f.day, f.hour, f.minute, f.second⟩ hc 0
    simp only [ndkRec, Bool.false_eq_true, if_false, hne, Bool.false_and, hc, if_true, hcarry]
    simp only [zero_mul, add_zero] at this ⊢
    rw [this]
  · -- rewritten record: seconds 60, fraction digit 0; the clock is read with second 0 and a minute is added
    have hs2 := hs rfl
    have hc := hcv 0 (by norm_num) (by norm_num)
    have := epoch_carry ⟨f.year, f.month, f.day, f.hour, f.minute, 0⟩ hc 60
    simp only [ndkRec, if_true, beq_self_eq_true, Bool.and_self, hc, hcarry]
    rw [hs2, this]
end Src
