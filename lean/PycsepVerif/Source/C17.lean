import PycsepVerif.GeneratedSrc
import PycsepVerif.Model.QuadtreeGeo
import PycsepVerif.Proofs.QuadMercator
import PycsepVerif.Proofs.RealInst
/-!
# Source tie of C17: `geographical_area_from_bounds` (csep/core/regions.py) generated from the Python source equals the
code-shaped hand model `Quadtree.geoAreaFromBounds` (Model/QuadtreeGeo.lean) on the real numbers

Specialisation: the four coordinates are numbers of the real layer; `numpy.pi` and `numpy.cos` are parameters of the generated
definition, instantiated here with `Real.pi` and `Real.cos` (the hand model's `realGeo`, about which the theorems of
Proofs/QuadMercator.lean are stated: `geoArea_real_closed_form`, `cellArea_pos`, …). `6371. ** 2` is the literal 40589641.
`==` on coordinates is `≤` both ways.
-/
namespace Src
open Quadtree

theorem geographical_area_from_bounds_eq_model (lon1 lat1 lon2 lat2 : ℝ) :
    Src.geographical_area_from_bounds Real.cos Real.pi lon1 lat1 lon2 lat2
      = geoAreaFromBounds realGeo lon1 lat1 lon2 lat2 := by
  have e : ∀ a b : ℝ, Py.req a b = decide (a = b) := by
    intro a b
    simp only [Py.req, RealOps.real_le]
    by_cases h : a = b
    · simp [h]
    · rcases lt_or_gt_of_ne h with h1 | h1
      · simp [h, not_le.mpr h1]
      · simp [h, not_le.mpr h1]
  simp only [Src.geographical_area_from_bounds, geoAreaFromBounds, realGeo, e, RealOps.real_sub, RealOps.real_mul,
    RealOps.real_div, RealOps.real_ofNat, RealOps.real_one, RealOps.real_zero]
  by_cases h : (decide (lon1 = lon2) || decide (lat1 = lat2)) = true
  · simp only [h, if_true]; norm_num
  · simp only [h]; norm_num

end Src
