import PycsepVerif.GeneratedSrc
import PycsepVerif.Model.NumberTest
/-!
# Source tie of C07: the number-test formulas generated from the Python source equal the hand model (Model/NumberTest.lean)

The scipy distribution functions are opaque function parameters of the generated definitions (argument order as in the
source: `cdf(x, mu)`, `cdf(x, n, p)`); the model is stated for an arbitrary cdf (`delta12With`) and instantiated with the
finite sums `poisCdf` / `nbCdf` (that scipy computes these sums is the trusted fact validated numerically on every run).
-/
namespace Src
open RealOps NumberTest
variable {α : Type} [RealOps α]

/-- `_number_test_ndarray(fore_cnt, obs_cnt, epsilon)` for an arbitrary `scipy.stats.poisson.cdf` -/
theorem number_test_ndarray_eq_model (cdf : α → α → α) (μ : α) (n : Nat) (ε : α) :
    Src.number_test_ndarray cdf μ n ε = delta12With (fun x => cdf x μ) n ε := rfl

/-- with the model's Poisson cdf it is the model's `delta12` -/
theorem number_test_ndarray_eq_delta12 [FloorOps α] (μ : α) (n : Nat) (ε : α) :
    Src.number_test_ndarray (fun x m => poisCdf m x) μ n ε = delta12 μ n ε := rfl

/-- `_nbd_number_test_ndarray(fore_cnt, obs_cnt, variance, epsilon)` for an arbitrary `scipy.stats.nbinom.cdf` -/
theorem nbd_number_test_ndarray_eq_model (cdf : α → α → α → α) (mean : α) (n : Nat) (var ε : α) :
    Src.nbd_number_test_ndarray cdf mean n var ε
      = delta12With (fun x => cdf x (nbdParams mean var).1 (nbdParams mean var).2) n ε := rfl

theorem nbd_number_test_ndarray_eq_nbdDelta12 [FloorOps α] (mean : α) (n : Nat) (var ε : α) :
    Src.nbd_number_test_ndarray (fun x r p => nbCdf r p x) mean n var ε = nbdDelta12 mean n var ε := rfl

end Src
