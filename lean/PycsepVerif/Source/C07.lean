import PycsepVerif.GeneratedSrc
import PycsepVerif.Model.NumberTest
import PycsepVerif.Model.NumberTestPub
/-!
# Source tie of C07: the number-test formulas generated from the Python source equal the hand model (Model/NumberTest.lean)

The scipy distribution functions are opaque function parameters of the generated definitions (argument order as in the
source: `cdf(x, mu)`, `cdf(x, n, p)`); the model is stated for an arbitrary cdf (`delta12With`) and instantiated with the
finite sums `poisCdf` / `nbCdf` (that scipy computes these sums is the trusted fact validated numerically on every run).
-/
namespace Src
open RealOps NumberTest
variable {α : Type} [RealOps α]

/-- `_number_test_ndarray(fore_cnt, obs_cnt, epsilon)` for an arbitrary `scipy.stats.poisson.cdf` -/
theorem number_test_ndarray_eq_model (cdf : α → α → α) (μ : α) (n : Nat) (ε : α) :
    Src.number_test_ndarray cdf μ n ε = delta12With (fun x => cdf x μ) n ε := rfl

/-- with the model's Poisson cdf it is the model's `delta12` -/
theorem number_test_ndarray_eq_delta12 [FloorOps α] (μ : α) (n : Nat) (ε : α) :
    Src.number_test_ndarray (fun x m => poisCdf m x) μ n ε = delta12 μ n ε := rfl

/-- `_nbd_number_test_ndarray(fore_cnt, obs_cnt, variance, epsilon)` for an arbitrary `scipy.stats.nbinom.cdf` -/
theorem nbd_number_test_ndarray_eq_model (cdf : α → α → α → α) (mean : α) (n : Nat) (var ε : α) :
    Src.nbd_number_test_ndarray cdf mean n var ε
      = delta12With (fun x => cdf x (nbdParams mean var).1 (nbdParams mean var).2) n ε := rfl

/-- fix D47 pinned: the probability the source hands to `nbinom.cdf` is the single quotient `mean / var` (before the fix
    it was `1.0 - ((var - mean) / var)` = `(nbdParamsOld mean var).2`; reverting the fix loses this tie) -/
theorem nbd_number_test_ndarray_upsilon (mean var : α) : (nbdParams mean var).2 = RealOps.div mean var := rfl

theorem nbd_number_test_ndarray_eq_nbdDelta12 [FloorOps α] (mean : α) (n : Nat) (var ε : α) :
    Src.nbd_number_test_ndarray (fun x r p => nbCdf r p x) mean n var ε = nbdDelta12 mean n var ε := rfl

/-! ## the public wrappers `number_test` (poisson_evaluations.py:125) and `negative_binomial_number_test`
(binomial_evaluations.py:33): backward slice of what they store in the result

The forecast and the catalog are read only through `.event_count` (parameters `fore_cnt`, `obs_cnt` of the generated
definitions). The generated definitions return `(result.quantile, result.observed_statistic, fore_cnt)`. -/

/-- for an arbitrary `scipy.stats.poisson.cdf`: the quantile is `_number_test_ndarray(fore_cnt, obs_cnt, 1e-6)`, the
    observed statistic is the catalog's event count -/
theorem number_test_eq_model (cdf : α → α → α) (foreCnt : α) (obsCnt : Nat) :
    Src.number_test cdf foreCnt obsCnt = (delta12With (fun x => cdf x foreCnt) obsCnt epsCode, obsCnt, foreCnt) := rfl

/-- with the model's Poisson cdf, a forecast object `f` (`event_count = f.eventCount`) and a catalog of `events`: the
    model's public N-test -/
theorem number_test_eq_pub [FloorOps α] {ε : Type} (f : GF α) (events : List ε) :
    Src.number_test (fun x m => poisCdf m x) f.eventCount events.length
      = (numberTestPub f events, events.length, f.eventCount) := rfl

theorem negative_binomial_number_test_eq_model (cdf : α → α → α → α) (variance foreCnt : α) (obsCnt : Nat) :
    Src.negative_binomial_number_test cdf variance foreCnt obsCnt
      = (delta12With (fun x => cdf x (nbdParams foreCnt variance).1 (nbdParams foreCnt variance).2) obsCnt epsCode,
         obsCnt, foreCnt) := rfl

theorem negative_binomial_number_test_eq_pub [FloorOps α] {ε : Type} (f : GF α) (events : List ε) (variance : α) :
    Src.negative_binomial_number_test (fun x r p => nbCdf r p x) variance f.eventCount events.length
      = (nbdNumberTestPub f events variance, events.length, f.eventCount) := rfl

end Src
