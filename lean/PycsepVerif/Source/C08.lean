import PycsepVerif.GeneratedSrc
import PycsepVerif.Model.PairedTests
import PycsepVerif.Model.PairedPub
import PycsepVerif.Proofs.RealInst
import PycsepVerif.Proofs.Soft64Round
/-!
# Source tie of C08: `_t_test_ndarray` generated from the Python source equals the hand model (Model/PairedTests.lean)

`scipy.stats.t.ppf` is an opaque function parameter; the model takes the critical value itself as a parameter.
The dict the Python function returns is the tuple (t_statistic, t_critical, information_gain, ig_lower, ig_upper).
`n_obs` is the real number N (the model's `ofNat N`).
-/
namespace Src
open RealOps PairedTests
variable {α : Type} [RealOps α]

theorem logDiffs_eq (rA rB : List α) :
    List.zipWith (fun x y => sub x y) (List.map (fun x => log x) rA) (List.map (fun x => log x) rB) = logDiffs rA rB := by
  simp [logDiffs, List.zipWith_map]

theorem t_test_ndarray_eq_model (ppf : α → α → α) (rA rB : List α) (N NA NB alpha : α) :
    Src.t_test_ndarray ppf rA rB N NA NB alpha =
      (tStat rA rB N NA NB, ppf (sub one (div alpha (ofNat 2))) (sub N one), infoGain rA rB N NA NB,
       igLower rA rB N NA NB (ppf (sub one (div alpha (ofNat 2))) (sub N one)),
       igUpper rA rB N NA NB (ppf (sub one (div alpha (ofNat 2))) (sub N one))) := by
  simp only [Src.t_test_ndarray, logDiffs_eq, tStat, infoGain, igLower, igUpper, variance, Py.rsum, Py.rsq]
  rfl

/-- the model's `tTest` (N a natural number) in terms of the generated definition -/
theorem tTest_eq_src (ppf : α → α → α) (rA rB : List α) (N : Nat) (NA NB alpha : α) :
    let r := Src.t_test_ndarray ppf rA rB (ofNat N) NA NB alpha
    let o := tTest rA rB N NA NB (ppf (sub one (div alpha (ofNat 2))) (sub (ofNat N) one))
    r = (o.t, ppf (sub one (div alpha (ofNat 2))) (sub (ofNat N) one), o.ig, o.lower, o.upper) := by
  simp only [t_test_ndarray_eq_model, tTest]

/-! ## the public wrapper `paired_t_test` (poisson_evaluations.py:14): backward slice of what it stores in the result

The two forecasts and the catalog are read only through `target_event_rates(observed_catalog, scale=scale)` (parameters
`ter1`, `ter2` : rates of the target events and forecast total) and `observed_catalog.event_count`. The generated
definition returns `(result.test_distribution, result.observed_statistic, result.quantile)`. -/

theorem paired_t_test_eq_model (ppf : α → α → α) (alpha : α) (ter1 ter2 : List α × α) (nObs : Nat) :
    Src.paired_t_test ppf alpha ter1 ter2 nObs =
      let tc := ppf (sub one (div alpha (ofNat 2))) (sub (ofNat nObs) one)
      let o := tTest ter1.1 ter2.1 nObs ter1.2 ter2.2 tc
      ((o.lower, o.upper), o.ig, (o.t, tc)) := by
  simp only [Src.paired_t_test, t_test_ndarray_eq_model, tTest]

/-- with forecast objects `fa`, `fb` and the events' flat bin indices `ev`: the model's public paired T-test -/
theorem paired_t_test_eq_pub (ppf : α → α → α) (alpha : α) (fa fb : Fc α) (ev : List Nat) (scale : Bool) :
    Src.paired_t_test ppf alpha (fa.targetRates ev scale) (fb.targetRates ev scale) ev.length =
      let tc := ppf (sub one (div alpha (ofNat 2))) (sub (ofNat ev.length) one)
      let o := pairedTPub fa fb ev scale tc
      ((o.lower, o.upper), o.ig, (o.t, tc)) := by
  simp only [paired_t_test_eq_model, pairedTPub]

/-! ## `matrix_binary_t_test` (binomial_evaluations.py:302): the binary T-test core

`catalog` is read only through `catalog.spatial_magnitude_counts()`, the count array `counts`; `N` is the number of its
non-zero entries (`len(numpy.unique(numpy.nonzero(counts.ravel())))`). `N - 1`, `N**2 - N` are computed on Python ints and
converted afterwards, the model computes them in the number type: the equality is over ℝ. -/

theorem nonzeroIdxFrom_lb (k : Nat) (l : List Nat) : ∀ i ∈ Py.nonzeroIdxFrom k l, k ≤ i := by
  induction l generalizing k with
  | nil => simp [Py.nonzeroIdxFrom]
  | cons x xs ih =>
    intro i hi
    unfold Py.nonzeroIdxFrom at hi
    split at hi
    · rcases List.mem_cons.mp hi with h | h
      · omega
      · have := ih (k + 1) i h; omega
    · have := ih (k + 1) i hi; omega

theorem insertUniq_lt (a : Nat) (l : List Nat) (h : ∀ i ∈ l, a < i) : Py.insertUniq a l = a :: l := by
  cases l with
  | nil => rfl
  | cons b l => simp [Py.insertUniq, h b (by simp)]

/-- `numpy.unique` changes nothing on the (strictly ascending) index array `numpy.nonzero` returns -/
theorem np_unique_nonzeroIdxFrom (k : Nat) (l : List Nat) :
    Py.np_unique (Py.nonzeroIdxFrom k l) = Py.nonzeroIdxFrom k l := by
  induction l generalizing k with
  | nil => simp [Py.nonzeroIdxFrom, Py.np_unique]
  | cons x xs ih =>
    unfold Py.nonzeroIdxFrom
    split
    · have := ih (k + 1)
      unfold Py.np_unique at this ⊢
      rw [List.foldr_cons, this]
      exact insertUniq_lt _ _ (fun i hi => by have := nonzeroIdxFrom_lb (k + 1) xs i hi; omega)
    · exact ih (k + 1)

/-- the number of active bins -/
def activeCount (counts : List Nat) : Nat := (Py.nonzeroIdx counts).length

theorem matrix_binary_t_test_eq_model (ppf : ℝ → ℝ → ℝ) (rA rB : List ℝ) (nObs NA NB alpha : ℝ) (counts : List Nat) :
    Src.matrix_binary_t_test ppf rA rB nObs NA NB alpha counts =
      let N : ℝ := ofNat (activeCount counts)
      (tStat rA rB N NA NB, ppf (sub one (div alpha (ofNat 2))) (sub N one), infoGain rA rB N NA NB,
       igLower rA rB N NA NB (ppf (sub one (div alpha (ofNat 2))) (sub N one)),
       igUpper rA rB N NA NB (ppf (sub one (div alpha (ofNat 2))) (sub N one))) := by
  have hN : Py.size (Py.np_unique (Py.nonzeroIdx counts)) = ((activeCount counts : Nat) : Int) := by
    simp [Py.size, Py.nonzeroIdx, np_unique_nonzeroIdxFrom, activeCount]
  have c0 : (Py.rOfInt ((activeCount counts : Nat) : Int) : ℝ) = (activeCount counts : ℝ) := by
    simp [Py.rOfInt]
  have c1 : (Py.rOfInt (((activeCount counts : Nat) : Int) - 1) : ℝ) = (activeCount counts : ℝ) - 1 := by
    rcases Nat.eq_zero_or_pos (activeCount counts) with h | h
    · rw [h]; norm_num [Py.rOfInt]
    · have hnn : (0 : Int) ≤ ((activeCount counts : Nat) : Int) - 1 := by omega
      unfold Py.rOfInt
      simp only [hnn, if_true, real_ofNat]
      rw [← Int.cast_natCast, Int.toNat_of_nonneg hnn]; push_cast; ring
  have c2 : (Py.rOfInt (Py.ipow ((activeCount counts : Nat) : Int) 2 - ((activeCount counts : Nat) : Int)) : ℝ)
      = (activeCount counts : ℝ) * (activeCount counts : ℝ) - (activeCount counts : ℝ) := by
    have hnn : (0 : Int) ≤ Py.ipow ((activeCount counts : Nat) : Int) 2 - ((activeCount counts : Nat) : Int) := by
      have h1 : activeCount counts ≤ activeCount counts ^ 2 := Nat.le_self_pow (by norm_num) _
      have h2 : ((activeCount counts : Nat) : Int) ≤ ((activeCount counts : Nat) : Int) ^ 2 := by exact_mod_cast h1
      have h3 : (2 : Int).toNat = 2 := rfl
      simp only [Py.ipow, h3]; omega
    unfold Py.rOfInt
    simp only [hnn, if_true, real_ofNat]
    have h3 : (2 : Int).toNat = 2 := rfl
    rw [← Int.cast_natCast, Int.toNat_of_nonneg hnn]; simp only [Py.ipow, h3]; push_cast; ring
  simp only [Src.matrix_binary_t_test, hN, c0, c1, c2, logDiffs_eq, Py.rsum, Py.rsq]
  simp only [tStat, infoGain, igLower, igUpper, variance, real_ofNat, real_sub, real_mul, real_one]
  rfl

theorem nonzeroIdxFrom_map_range' (f : Nat → Nat) (n k : Nat) :
    Py.nonzeroIdxFrom k ((List.range' k n).map f) = (List.range' k n).filter (fun i => f i != 0) := by
  induction n generalizing k with
  | zero => simp [Py.nonzeroIdxFrom]
  | succ n ih =>
    simp only [List.range'_succ, List.map_cons, Py.nonzeroIdxFrom, List.filter_cons, ih (k + 1)]
    by_cases h : f k = 0 <;> simp [h]

/-- with `counts[i]` = the number of events in flat bin `i`, `numpy.nonzero(counts)` is the model's `activeBins` -/
theorem nonzeroIdx_counts (nb : Nat) (ev : List Nat) :
    Py.nonzeroIdx ((List.range nb).map (fun i => ev.count i)) = activeBins nb ev := by
  simp only [Py.nonzeroIdx, activeBins, List.range_eq_range', nonzeroIdxFrom_map_range']

/-- the model's `binaryT` (binary_paired_t_test on the active bins) in terms of the generated definition -/
theorem binaryT_eq_src (ppf : ℝ → ℝ → ℝ) (dataA dataB : Nat → ℝ) (nb : Nat) (ev : List Nat) (nObs NA NB alpha : ℝ) :
    let act := activeBins nb ev
    let tc := ppf (sub one (div alpha (ofNat 2))) (sub (ofNat act.length) one)
    let o := binaryT dataA dataB nb ev NA NB tc
    Src.matrix_binary_t_test ppf (act.map dataA) (act.map dataB) nObs NA NB alpha ((List.range nb).map (fun i => ev.count i))
      = (o.t, tc, o.ig, o.lower, o.upper) := by
  simp only [matrix_binary_t_test_eq_model, activeCount, nonzeroIdx_counts, binaryT, tTest]

/-! ## the public wrapper `binary_paired_t_test` (binomial_evaluations.py:360)

Read through: `target_event_rates(observed_catalog, scale=scale)` of both forecasts (only the totals are used), `forecast.data`
/ `benchmark_forecast.data` (row-major flattening), `observed_catalog.spatial_magnitude_counts()` (flattened counts) and
`observed_catalog.event_count`. Returns `(result.test_distribution, result.observed_statistic, result.quantile)`. -/

theorem binary_paired_t_test_eq_model (ppf : ℝ → ℝ → ℝ) (alpha : ℝ) (ter1 ter2 : List ℝ × ℝ) (data1 data2 : List ℝ)
    (counts : List Nat) (nObs : Nat) :
    Src.binary_paired_t_test ppf alpha ter1 ter2 data1 data2 counts nObs =
      let act := Py.nonzeroIdx counts
      let tc := ppf (sub one (div alpha (ofNat 2))) (sub (ofNat act.length) one)
      let o := tTest (Py.gather data1 act) (Py.gather data2 act) act.length ter1.2 ter2.2 tc
      ((o.lower, o.upper), o.ig, (o.t, tc)) := by
  simp only [Src.binary_paired_t_test, matrix_binary_t_test_eq_model, activeCount, tTest, Py.nonzeroIdx,
    np_unique_nonzeroIdxFrom]

theorem gather_eq_map (l : List ℝ) (idx : List Nat) (h : ∀ i ∈ idx, i < l.length) :
    Py.gather l idx = idx.map (fun i => l.getD i zero) := by
  induction idx with
  | nil => rfl
  | cons a t ih =>
    have ha : a < l.length := h a (by simp)
    have := ih (fun i hi => h i (by simp [hi]))
    simp only [Py.gather] at this ⊢
    simp [List.getElem?_eq_getElem ha, this, List.getD_eq_getElem?_getD]

/-- with forecast objects whose data covers the `nb` space-magnitude bins: the model's public binary paired T-test -/
theorem binary_paired_t_test_eq_pub (ppf : ℝ → ℝ → ℝ) (alpha : ℝ) (fa fb : Fc ℝ) (nb : Nat) (ev : List Nat) (scale : Bool)
    (ha : nb ≤ fa.data.length) (hb : nb ≤ fb.data.length) :
    Src.binary_paired_t_test ppf alpha (fa.targetRates ev scale) (fb.targetRates ev scale) fa.data fb.data
        ((List.range nb).map (fun i => ev.count i)) ev.length =
      let tc := ppf (sub one (div alpha (ofNat 2))) (sub (ofNat (activeBins nb ev).length) one)
      let o := binaryTPub fa fb nb ev scale tc
      ((o.lower, o.upper), o.ig, (o.t, tc)) := by
  have hact : ∀ i ∈ activeBins nb ev, i < nb := by
    intro i hi
    have := (List.mem_filter.mp hi).1
    exact List.mem_range.mp this
  rw [binary_paired_t_test_eq_model, nonzeroIdx_counts]
  simp only [gather_eq_map _ _ (fun i hi => lt_of_lt_of_le (hact i hi) ha),
    gather_eq_map _ _ (fun i hi => lt_of_lt_of_le (hact i hi) hb), binaryTPub, binaryT]

/-! ## the public wrapper `w_test` (poisson_evaluations.py:58) up to the call of `_w_test_ndarray`

Backward slice of the two arguments `(x, median_value)` in float64: `x = log(rates1) - log(rates2)` (element-wise, `numpy.log`
an opaque function: its doubles are the model's `LA`, `LB`), `median_value = (N1 - N2) / N` with the forecast totals taken from
`.event_count` (NOT from `target_event_rates`, so never divided by the days). `_w_test_ndarray` itself is not translated
(notes/SourceTie.md); with these inputs the model's `wStatsPub` is `wStats x median_value` by definition. -/

theorem w_test_inputs_eq_model (lg : Rat → Rat) (ter1 ter2 : List Rat × Rat) (nObs : Nat) (n1 n2 : Rat)
    (h : (nObs : Int) ≤ 2 ^ 53) :
    Src.w_test_inputs lg ter1 ter2 nObs n1 n2 = (wX (ter1.1.map lg) (ter2.1.map lg), wM n1 n2 (nObs : Rat)) := by
  have hi : Py.i2f ((nObs : Nat) : Int) = (nObs : Rat) := by
    have : |(nObs : Int)| ≤ 2 ^ 53 := by rw [abs_le]; constructor <;> omega
    unfold Py.i2f
    simpa using (Soft64R.fl64_intCast this)
  simp only [Src.w_test_inputs, hi, wX, wM]

/-- the statistics the model computes for the public W-test are those of the generated inputs -/
theorem wStatsPub_eq_src (lg : Rat → Rat) (ter1 ter2 : List Rat × Rat) (nObs : Nat) (n1 n2 : Rat) (h : (nObs : Int) ≤ 2 ^ 53) :
    wStatsPub (ter1.1.map lg) (ter2.1.map lg) n1 n2 (nObs : Rat)
      = wStats (Src.w_test_inputs lg ter1 ter2 nObs n1 n2).1 (Src.w_test_inputs lg ter1 ter2 nObs n1 n2).2 := by
  rw [w_test_inputs_eq_model lg ter1 ter2 nObs n1 n2 h]; rfl

end Src
