import PycsepVerif.GeneratedSrc
import PycsepVerif.Model.PairedTests
/-!
# Source tie of C08: `_t_test_ndarray` generated from the Python source equals the hand model (Model/PairedTests.lean)

`scipy.stats.t.ppf` is an opaque function parameter; the model takes the critical value itself as a parameter.
The dict the Python function returns is the tuple (t_statistic, t_critical, information_gain, ig_lower, ig_upper).
`n_obs` is the real number N (the model's `ofNat N`).
-/
namespace Src
open RealOps PairedTests
variable {α : Type} [RealOps α]

theorem logDiffs_eq (rA rB : List α) :
    List.zipWith (fun x y => sub x y) (List.map (fun x => log x) rA) (List.map (fun x => log x) rB) = logDiffs rA rB := by
  simp [logDiffs, List.zipWith_map]

theorem t_test_ndarray_eq_model (ppf : α → α → α) (rA rB : List α) (N NA NB alpha : α) :
    Src.t_test_ndarray ppf rA rB N NA NB alpha =
      (tStat rA rB N NA NB, ppf (sub one (div alpha (ofNat 2))) (sub N one), infoGain rA rB N NA NB,
       igLower rA rB N NA NB (ppf (sub one (div alpha (ofNat 2))) (sub N one)),
       igUpper rA rB N NA NB (ppf (sub one (div alpha (ofNat 2))) (sub N one))) := by
  simp only [Src.t_test_ndarray, logDiffs_eq, tStat, infoGain, igLower, igUpper, variance, Py.rsum, Py.rsq]
  rfl

/-- the model's `tTest` (N a natural number) in terms of the generated definition -/
theorem tTest_eq_src (ppf : α → α → α) (rA rB : List α) (N : Nat) (NA NB alpha : α) :
    let r := Src.t_test_ndarray ppf rA rB (ofNat N) NA NB alpha
    let o := tTest rA rB N NA NB (ppf (sub one (div alpha (ofNat 2))) (sub (ofNat N) one))
    r = (o.t, ppf (sub one (div alpha (ofNat 2))) (sub (ofNat N) one), o.ig, o.lower, o.upper) := by
  simp only [t_test_ndarray_eq_model, tTest]

end Src
