import PycsepVerif.GeneratedSrc
import PycsepVerif.Model.PairedTests
import PycsepVerif.Model.PairedPub
import PycsepVerif.Proofs.RealInst
import PycsepVerif.Proofs.Soft64Round
import PycsepVerif.Proofs.FloatSumExact
import PycsepVerif.Proofs.PairedRanks
import PycsepVerif.Proofs.PairedTies
import PycsepVerif.Properties.C20_Paired
/-!
# Source tie of C08: `_t_test_ndarray` generated from the Python source equals the hand model (Model/PairedTests.lean)

`scipy.stats.t.ppf` is an opaque function parameter; the model takes the critical value itself as a parameter.
The dict the Python function returns is the tuple (t_statistic, t_critical, information_gain, ig_lower, ig_upper).
`n_obs` is the real number N (the model's `ofNat N`).
-/
namespace Src
open RealOps PairedTests
variable {α : Type} [RealOps α]

theorem logDiffs_eq (rA rB : List α) :
    List.zipWith (fun x y => sub x y) (List.map (fun x => log x) rA) (List.map (fun x => log x) rB) = logDiffs rA rB := by
  simp [logDiffs, List.zipWith_map]

theorem t_test_ndarray_eq_model (ppf : α → α → α) (rA rB : List α) (N NA NB alpha : α) :
    Src.t_test_ndarray ppf rA rB N NA NB alpha =
      (tStat rA rB N NA NB, ppf (sub one (div alpha (ofNat 2))) (sub N one), infoGain rA rB N NA NB,
       igLower rA rB N NA NB (ppf (sub one (div alpha (ofNat 2))) (sub N one)),
       igUpper rA rB N NA NB (ppf (sub one (div alpha (ofNat 2))) (sub N one))) := by
  simp only [Src.t_test_ndarray, logDiffs_eq, tStat, infoGain, igLower, igUpper, variance, Py.rsum, Py.rsq]
  rfl

/-- the model's `tTest` (N a natural number) in terms of the generated definition -/
theorem tTest_eq_src (ppf : α → α → α) (rA rB : List α) (N : Nat) (NA NB alpha : α) :
    let r := Src.t_test_ndarray ppf rA rB (ofNat N) NA NB alpha
    let o := tTest rA rB N NA NB (ppf (sub one (div alpha (ofNat 2))) (sub (ofNat N) one))
    r = (o.t, ppf (sub one (div alpha (ofNat 2))) (sub (ofNat N) one), o.ig, o.lower, o.upper) := by
  simp only [t_test_ndarray_eq_model, tTest]

/-! ## the public wrapper `paired_t_test` (poisson_evaluations.py:14): backward slice of what it stores in the result

The two forecasts and the catalog are read only through `target_event_rates(observed_catalog, scale=scale)` (parameters
`ter1`, `ter2` : rates of the target events and forecast total) and `observed_catalog.event_count`. The generated
definition returns `(result.test_distribution, result.observed_statistic, result.quantile)`. -/

theorem paired_t_test_eq_model (ppf : α → α → α) (alpha : α) (ter1 ter2 : List α × α) (nObs : Nat) :
    Src.paired_t_test ppf alpha ter1 ter2 nObs =
      let tc := ppf (sub one (div alpha (ofNat 2))) (sub (ofNat nObs) one)
      let o := tTest ter1.1 ter2.1 nObs ter1.2 ter2.2 tc
      ((o.lower, o.upper), o.ig, (o.t, tc)) := by
  simp only [Src.paired_t_test, t_test_ndarray_eq_model, tTest]

/-- with forecast objects `fa`, `fb` and the events' flat bin indices `ev`: the model's public paired T-test -/
theorem paired_t_test_eq_pub (ppf : α → α → α) (alpha : α) (fa fb : Fc α) (ev : List Nat) (scale : Bool) :
    Src.paired_t_test ppf alpha (fa.targetRates ev scale) (fb.targetRates ev scale) ev.length =
      let tc := ppf (sub one (div alpha (ofNat 2))) (sub (ofNat ev.length) one)
      let o := pairedTPub fa fb ev scale tc
      ((o.lower, o.upper), o.ig, (o.t, tc)) := by
  simp only [paired_t_test_eq_model, pairedTPub]

/-! ## `matrix_binary_t_test` (binomial_evaluations.py:302): the binary T-test core

`catalog` is read only through `catalog.spatial_magnitude_counts()`, the count array `counts`; `N` is the number of its
non-zero entries (`len(numpy.unique(numpy.nonzero(counts.ravel())))`). `N - 1`, `N**2 - N` are computed on Python ints and
converted afterwards, the model computes them in the number type: the equality is over ℝ. -/

theorem nonzeroIdxFrom_lb (k : Nat) (l : List Nat) : ∀ i ∈ Py.nonzeroIdxFrom k l, k ≤ i := by
  induction l generalizing k with
  | nil => simp [Py.nonzeroIdxFrom]
  | cons x xs ih =>
    intro i hi
    unfold Py.nonzeroIdxFrom at hi
    split at hi
    · rcases List.mem_cons.mp hi with h | h
      · omega
      · have := ih (k + 1) i h; omega
    · have := ih (k + 1) i hi; omega

theorem insertUniq_lt (a : Nat) (l : List Nat) (h : ∀ i ∈ l, a < i) : Py.insertUniq a l = a :: l := by
  cases l with
  | nil => rfl
  | cons b l => simp [Py.insertUniq, h b (by simp)]

/-- `numpy.unique` changes nothing on the (strictly ascending) index array `numpy.nonzero` returns -/
theorem np_unique_nonzeroIdxFrom (k : Nat) (l : List Nat) :
    Py.np_unique (Py.nonzeroIdxFrom k l) = Py.nonzeroIdxFrom k l := by
  induction l generalizing k with
  | nil => simp [Py.nonzeroIdxFrom, Py.np_unique]
  | cons x xs ih =>
    unfold Py.nonzeroIdxFrom
    split
    · have := ih (k + 1)
      unfold Py.np_unique at this ⊢
      rw [List.foldr_cons, this]
      exact insertUniq_lt _ _ (fun i hi => by have := nonzeroIdxFrom_lb (k + 1) xs i hi; omega)
    · exact ih (k + 1)

/-- the number of active bins -/
def activeCount (counts : List Nat) : Nat := (Py.nonzeroIdx counts).length

theorem matrix_binary_t_test_eq_model (ppf : ℝ → ℝ → ℝ) (rA rB : List ℝ) (nObs NA NB alpha : ℝ) (counts : List Nat) :
    Src.matrix_binary_t_test ppf rA rB nObs NA NB alpha counts =
      let N : ℝ := ofNat (activeCount counts)
      (tStat rA rB N NA NB, ppf (sub one (div alpha (ofNat 2))) (sub N one), infoGain rA rB N NA NB,
       igLower rA rB N NA NB (ppf (sub one (div alpha (ofNat 2))) (sub N one)),
       igUpper rA rB N NA NB (ppf (sub one (div alpha (ofNat 2))) (sub N one))) := by
  have hN : Py.size (Py.np_unique (Py.nonzeroIdx counts)) = ((activeCount counts : Nat) : Int) := by
    simp [Py.size, Py.nonzeroIdx, np_unique_nonzeroIdxFrom, activeCount]
  have c0 : (Py.rOfInt ((activeCount counts : Nat) : Int) : ℝ) = (activeCount counts : ℝ) := by
    simp [Py.rOfInt]
  have c1 : (Py.rOfInt (((activeCount counts : Nat) : Int) - 1) : ℝ) = (activeCount counts : ℝ) - 1 := by
    rcases Nat.eq_zero_or_pos (activeCount counts) with h | h
    · rw [h]; norm_num [Py.rOfInt]
    · have hnn : (0 : Int) ≤ ((activeCount counts : Nat) : Int) - 1 := by omega
      unfold Py.rOfInt
      simp only [hnn, if_true, real_ofNat]
      rw [← Int.cast_natCast, Int.toNat_of_nonneg hnn]; push_cast; ring
  have c2 : (Py.rOfInt (Py.ipow ((activeCount counts : Nat) : Int) 2 - ((activeCount counts : Nat) : Int)) : ℝ)
      = (activeCount counts : ℝ) * (activeCount counts : ℝ) - (activeCount counts : ℝ) := by
    have hnn : (0 : Int) ≤ Py.ipow ((activeCount counts : Nat) : Int) 2 - ((activeCount counts : Nat) : Int) := by
      have h1 : activeCount counts ≤ activeCount counts ^ 2 := Nat.le_self_pow (by norm_num) _
      have h2 : ((activeCount counts : Nat) : Int) ≤ ((activeCount counts : Nat) : Int) ^ 2 := by exact_mod_cast h1
      have h3 : (2 : Int).toNat = 2 := rfl
      simp only [Py.ipow, h3]; omega
    unfold Py.rOfInt
    simp only [hnn, if_true, real_ofNat]
    have h3 : (2 : Int).toNat = 2 := rfl
    rw [← Int.cast_natCast, Int.toNat_of_nonneg hnn]; simp only [Py.ipow, h3]; push_cast; ring
  simp only [Src.matrix_binary_t_test, hN, c0, c1, c2, logDiffs_eq, Py.rsum, Py.rsq]
  simp only [tStat, infoGain, igLower, igUpper, variance, real_ofNat, real_sub, real_mul, real_one]
  rfl

theorem nonzeroIdxFrom_map_range' (f : Nat → Nat) (n k : Nat) :
    Py.nonzeroIdxFrom k ((List.range' k n).map f) = (List.range' k n).filter (fun i => f i != 0) := by
  induction n generalizing k with
  | zero => simp [Py.nonzeroIdxFrom]
  | succ n ih =>
    simp only [List.range'_succ, List.map_cons, Py.nonzeroIdxFrom, List.filter_cons, ih (k + 1)]
    by_cases h : f k = 0 <;> simp [h]

/-- with `counts[i]` = the number of events in flat bin `i`, `numpy.nonzero(counts)` is the model's `activeBins` -/
theorem nonzeroIdx_counts (nb : Nat) (ev : List Nat) :
    Py.nonzeroIdx ((List.range nb).map (fun i => ev.count i)) = activeBins nb ev := by
  simp only [Py.nonzeroIdx, activeBins, List.range_eq_range', nonzeroIdxFrom_map_range']

/-- the model's `binaryT` (binary_paired_t_test on the active bins) in terms of the generated definition -/
theorem binaryT_eq_src (ppf : ℝ → ℝ → ℝ) (dataA dataB : Nat → ℝ) (nb : Nat) (ev : List Nat) (nObs NA NB alpha : ℝ) :
    let act := activeBins nb ev
    let tc := ppf (sub one (div alpha (ofNat 2))) (sub (ofNat act.length) one)
    let o := binaryT dataA dataB nb ev NA NB tc
    Src.matrix_binary_t_test ppf (act.map dataA) (act.map dataB) nObs NA NB alpha ((List.range nb).map (fun i => ev.count i))
      = (o.t, tc, o.ig, o.lower, o.upper) := by
  simp only [matrix_binary_t_test_eq_model, activeCount, nonzeroIdx_counts, binaryT, tTest]

/-! ## the public wrapper `binary_paired_t_test` (binomial_evaluations.py:360)

Read through: `target_event_rates(observed_catalog, scale=scale)` of both forecasts (only the totals are used), `forecast.data`
/ `benchmark_forecast.data` (row-major flattening), `observed_catalog.spatial_magnitude_counts()` (flattened counts) and
`observed_catalog.event_count`. Returns `(result.test_distribution, result.observed_statistic, result.quantile)`. -/

theorem binary_paired_t_test_eq_model (ppf : ℝ → ℝ → ℝ) (alpha : ℝ) (ter1 ter2 : List ℝ × ℝ) (data1 data2 : List ℝ)
    (counts : List Nat) (nObs : Nat) :
    Src.binary_paired_t_test ppf alpha ter1 ter2 data1 data2 counts nObs =
      let act := Py.nonzeroIdx counts
      let tc := ppf (sub one (div alpha (ofNat 2))) (sub (ofNat act.length) one)
      let o := tTest (Py.gather data1 act) (Py.gather data2 act) act.length ter1.2 ter2.2 tc
      ((o.lower, o.upper), o.ig, (o.t, tc)) := by
  simp only [Src.binary_paired_t_test, matrix_binary_t_test_eq_model, activeCount, tTest, Py.nonzeroIdx,
    np_unique_nonzeroIdxFrom]

theorem gather_eq_map (l : List ℝ) (idx : List Nat) (h : ∀ i ∈ idx, i < l.length) :
    Py.gather l idx = idx.map (fun i => l.getD i zero) := by
  induction idx with
  | nil => rfl
  | cons a t ih =>
    have ha : a < l.length := h a (by simp)
    have := ih (fun i hi => h i (by simp [hi]))
    simp only [Py.gather] at this ⊢
    simp [List.getElem?_eq_getElem ha, this, List.getD_eq_getElem?_getD]

/-- with forecast objects whose data covers the `nb` space-magnitude bins: the model's public binary paired T-test -/
theorem binary_paired_t_test_eq_pub (ppf : ℝ → ℝ → ℝ) (alpha : ℝ) (fa fb : Fc ℝ) (nb : Nat) (ev : List Nat) (scale : Bool)
    (ha : nb ≤ fa.data.length) (hb : nb ≤ fb.data.length) :
    Src.binary_paired_t_test ppf alpha (fa.targetRates ev scale) (fb.targetRates ev scale) fa.data fb.data
        ((List.range nb).map (fun i => ev.count i)) ev.length =
      let tc := ppf (sub one (div alpha (ofNat 2))) (sub (ofNat (activeBins nb ev).length) one)
      let o := binaryTPub fa fb nb ev scale tc
      ((o.lower, o.upper), o.ig, (o.t, tc)) := by
  have hact : ∀ i ∈ activeBins nb ev, i < nb := by
    intro i hi
    have := (List.mem_filter.mp hi).1
    exact List.mem_range.mp this
  rw [binary_paired_t_test_eq_model, nonzeroIdx_counts]
  simp only [gather_eq_map _ _ (fun i hi => lt_of_lt_of_le (hact i hi) ha),
    gather_eq_map _ _ (fun i hi => lt_of_lt_of_le (hact i hi) hb), binaryTPub, binaryT]

/-! ## the public wrapper `w_test` (poisson_evaluations.py:58) up to the call of `_w_test_ndarray`

Backward slice of the two arguments `(x, median_value)` in float64: `x = log(rates1) - log(rates2)` (element-wise, `numpy.log`
an opaque function: its doubles are the model's `LA`, `LB`), `median_value = (N1 - N2) / N` with the forecast totals taken from
`.event_count` (NOT from `target_event_rates`, so never divided by the days). `_w_test_ndarray` itself is not translated
(notes/SourceTie.md); with these inputs the model's `wStatsPub` is `wStats x median_value` by definition. -/

theorem w_test_inputs_eq_model (lg : Rat → Rat) (ter1 ter2 : List Rat × Rat) (nObs : Nat) (n1 n2 : Rat)
    (h : (nObs : Int) ≤ 2 ^ 53) :
    Src.w_test_inputs lg ter1 ter2 nObs n1 n2 = (wX (ter1.1.map lg) (ter2.1.map lg), wM n1 n2 (nObs : Rat)) := by
  have hi : Py.i2f ((nObs : Nat) : Int) = (nObs : Rat) := by
    have : |(nObs : Int)| ≤ 2 ^ 53 := by rw [abs_le]; constructor <;> omega
    unfold Py.i2f
    simpa using (Soft64R.fl64_intCast this)
  simp only [Src.w_test_inputs, hi, wX, wM]

/-- the statistics the model computes for the public W-test are those of the generated inputs -/
theorem wStatsPub_eq_src (lg : Rat → Rat) (ter1 ter2 : List Rat × Rat) (nObs : Nat) (n1 n2 : Rat) (h : (nObs : Int) ≤ 2 ^ 53) :
    wStatsPub (ter1.1.map lg) (ter2.1.map lg) n1 n2 (nObs : Rat)
      = wStats (Src.w_test_inputs lg ter1 ter2 nObs n1 n2).1 (Src.w_test_inputs lg ter1 ter2 nObs n1 n2).2 := by
  rw [w_test_inputs_eq_model lg ter1 ter2 nObs n1 n2 h]; rfl


/-! ## `_w_test_ndarray` (poisson_evaluations.py:517-579): the Wilcoxon signed-rank core

Soft64 layer up to the variance term (`d = x - m`, zero removal, SciPy's rank algorithm, the two rank sums by numpy's pairwise
summation, the count products in float64, the tie correction from `numpy.unique(r, return_counts=True)` in int64), real layer
from `numpy.sqrt(se / 24)` on (declared in TARGETS: `real_from`). All float operations before the switch are shown EXACT. -/
section WTest
open Soft64

theorem fl64_natCast_le {n : ℕ} (h : n ≤ 2 ^ 53) : fl64 (n : ℚ) = n := by
  have := Soft64R.fl64_intCast (n := (n : ℤ)) (by rw [abs_of_nonneg (by positivity)]; exact_mod_cast h)
  simpa using this

theorem w_i2f_nat {n : ℕ} (h : n ≤ 2 ^ 53) : Py.i2f (n : ℤ) = n := by
  unfold Py.i2f; simpa using fl64_natCast_le h

/-- `count * (count + 1.) * 0.25` and `count * (count + 1.) * (2. * count + 1.)` in float64 are exact when the latter is
    at most 2^52 -/
theorem w_count_terms (c : ℕ) (hc : c * (c + 1) * (2 * c + 1) ≤ 2 ^ 52) :
    fmul (fmul (Py.i2f (c : ℤ)) (fadd (Py.i2f (c : ℤ)) 1)) (1 / 4) = ((c * (c + 1) : ℕ) : ℚ) / 4 ∧
    fmul (fmul (Py.i2f (c : ℤ)) (fadd (Py.i2f (c : ℤ)) 1)) (fadd (fmul 2 (Py.i2f (c : ℤ))) 1)
      = ((c * (c + 1) * (2 * c + 1) : ℕ) : ℚ) := by
  have hA : c * (c + 1) ≤ c * (c + 1) * (2 * c + 1) := Nat.le_mul_of_pos_right _ (by omega)
  have hB : c ≤ c * (c + 1) := Nat.le_mul_of_pos_right _ (by omega)
  have hB2 : 2 * c ≤ c * (c + 1) := by
    rcases Nat.eq_zero_or_pos c with h | h
    · simp [h]
    · nlinarith
  have h0 : c ≤ 2 ^ 52 := by linarith
  have h1 : c ≤ 2 ^ 53 := by linarith
  have h2 : c + 1 ≤ 2 ^ 53 := by linarith
  have h3 : c * (c + 1) ≤ 2 ^ 53 := by linarith
  have h4 : 2 * c ≤ 2 ^ 53 := by linarith
  have h5 : 2 * c + 1 ≤ 2 ^ 53 := by linarith
  have h6 : c * (c + 1) * (2 * c + 1) ≤ 2 ^ 53 := by linarith
  have e1 : fadd (c : ℚ) 1 = ((c + 1 : ℕ) : ℚ) := by
    unfold fadd; rw [← fl64_natCast_le h2]; push_cast; rfl
  have e2 : fmul (c : ℚ) ((c + 1 : ℕ) : ℚ) = ((c * (c + 1) : ℕ) : ℚ) := by
    unfold fmul; rw [← fl64_natCast_le h3]; push_cast; rfl
  have e3 : fmul 2 (c : ℚ) = ((2 * c : ℕ) : ℚ) := by
    unfold fmul; rw [← fl64_natCast_le h4]; push_cast; rfl
  have e4 : fadd ((2 * c : ℕ) : ℚ) 1 = ((2 * c + 1 : ℕ) : ℚ) := by
    unfold fadd; rw [← fl64_natCast_le h5]; push_cast; rfl
  have e5 : fmul ((c * (c + 1) : ℕ) : ℚ) ((2 * c + 1 : ℕ) : ℚ) = ((c * (c + 1) * (2 * c + 1) : ℕ) : ℚ) := by
    unfold fmul; rw [← fl64_natCast_le h6]; push_cast; rfl
  have e6 : fmul ((c * (c + 1) : ℕ) : ℚ) (1 / 4) = ((c * (c + 1) : ℕ) : ℚ) / 4 := by
    unfold fmul
    have := Soft64R.fl64_exact (m := ((c * (c + 1) : ℕ) : ℤ)) (j := -2)
      (by rw [abs_of_nonneg (by positivity)]; exact_mod_cast h3) (by norm_num)
    have p : pow2 (-2) = 1 / 4 := by decide +kernel
    rw [p] at this
    have e : (((c * (c + 1) : ℕ) : ℤ) : ℚ) = ((c * (c + 1) : ℕ) : ℚ) := by push_cast; ring
    rw [e] at this
    rw [this]; ring
  rw [w_i2f_nat h1, e1, e2, e3, e4, e5, e6]
  exact ⟨rfl, rfl⟩

theorem w_np_abs_eq (a : ℚ) : Py.np_abs a = absQ a := rfl

theorem mask_terms (p : ℚ → Bool) (g : ℚ → ℕ) : ∀ d : List ℚ,
    (∀ x ∈ d.map (fun a => Py.bool_mul (p a) ((g a : ℚ) / 2)), FloatSum.HalfInt x) ∧
    FloatSum.absSum (d.map (fun a => Py.bool_mul (p a) ((g a : ℚ) / 2))) ≤ (((d.map g).sum : ℕ) : ℚ) / 2 ∧
    (d.map (fun a => Py.bool_mul (p a) ((g a : ℚ) / 2))).sum = (((d.map (fun a => if p a then g a else 0)).sum : ℕ) : ℚ) / 2
  | [] => by simp [FloatSum.absSum]
  | a :: d => by
    obtain ⟨h1, h2, h3⟩ := mask_terms p g d
    refine ⟨?_, ?_, ?_⟩
    · intro x hx
      simp only [List.map_cons, List.mem_cons] at hx
      rcases hx with rfl | hx
      · unfold Py.bool_mul
        split
        · exact ⟨(g a : ℤ), by push_cast; rfl⟩
        · exact FloatSum.HalfInt.zero
      · exact h1 x hx
    · simp only [List.map_cons, List.sum_cons, FloatSum.absSum] at h2 ⊢
      have hg : (0 : ℚ) ≤ (g a : ℚ) / 2 := by positivity
      have : fabs (Py.bool_mul (p a) ((g a : ℚ) / 2)) ≤ (g a : ℚ) / 2 := by
        unfold Py.bool_mul fabs
        split <;> split <;> linarith
      rw [Nat.cast_add]
      linarith
    · simp only [List.map_cons, List.sum_cons, h3]
      unfold Py.bool_mul
      split <;> (push_cast; ring)

/-- a rank sum `numpy.sum((d > 0) * r)` of `_w_test_ndarray` is exact -/
theorem rank_sum_exact (p : ℚ → Bool) (d : List ℚ) (hb : d.length * (d.length + 1) ≤ 2 ^ 53) :
    Py.np_sum_f64 (List.zipWith (fun x_ y_ => Py.bool_mul x_ y_) (d.map p)
        (Py.rankdata (d.map (fun x_ => Py.np_abs x_))))
      = (((d.map (fun a => if p a then rank2 (d.map absQ) (absQ a) else 0)).sum : ℕ) : ℚ) / 2 := by
  have hr : Py.rankdata (d.map (fun x_ => Py.np_abs x_))
      = d.map (fun a => ((rank2 (d.map absQ) (absQ a) : ℕ) : ℚ) / 2) := by
    unfold Py.rankdata
    rw [PairedTests.rankdata2_eq]
    simp [List.map_map, Function.comp, w_np_abs_eq]
  rw [hr]
  have hz : List.zipWith (fun x_ y_ => Py.bool_mul x_ y_) (d.map p)
      (d.map (fun a => ((rank2 (d.map absQ) (absQ a) : ℕ) : ℚ) / 2))
      = d.map (fun a => Py.bool_mul (p a) (((rank2 (d.map absQ) (absQ a) : ℕ) : ℚ) / 2)) := by
    simp [List.zipWith_map_left, List.zipWith_map_right, List.zipWith_self]
  rw [hz]
  obtain ⟨h1, h2, h3⟩ := mask_terms p (fun a => rank2 (d.map absQ) (absQ a)) d
  have hs : (d.map (fun a => rank2 (d.map absQ) (absQ a))).sum = d.length * (d.length + 1) := by
    have := PairedTests.sum_rank2 (d.map absQ)
    simpa [List.map_map, Function.comp_def] using this
  rw [hs] at h2
  have hb' : FloatSum.absSum (d.map (fun a => Py.bool_mul (p a) (((rank2 (d.map absQ) (absQ a) : ℕ) : ℚ) / 2))) ≤ 2 ^ 52 := by
    refine le_trans h2 ?_
    have : ((d.length * (d.length + 1) : ℕ) : ℚ) ≤ 2 ^ 53 := by exact_mod_cast hb
    linarith
  unfold Py.np_sum_f64
  rw [FloatSum.pairwiseSum_exact_of_dyadic 64 _ h1 hb', h3]

theorem compress_map_filter {β : Type} (p : β → Bool) : ∀ l : List β, Py.compress (l.map p) l = l.filter p
  | [] => rfl
  | a :: l => by
    have ih := compress_map_filter p l
    unfold Py.compress at ih ⊢
    simp only [List.map_cons, List.zip_cons_cons, List.filterMap_cons, List.filter_cons]
    cases p a <;> simp [ih]

theorem sumInt_eq (l : List ℤ) : Py.sumInt l = l.sum := by
  unfold Py.sumInt
  rw [List.sum_eq_foldl]

theorem nodup_eraseDups_nat : ∀ (n : Nat) (l : List ℕ), l.length ≤ n → l.eraseDups.Nodup
  | 0, l, h => by
    have : l = [] := List.length_eq_zero_iff.mp (by omega)
    subst this; simp
  | n + 1, [], _ => by simp
  | n + 1, a :: as, h => by
    rw [List.eraseDups_cons, List.nodup_cons]
    constructor
    · intro hm
      have := List.mem_eraseDups.mp hm
      simp at this
    · apply nodup_eraseDups_nat n
      have := List.length_filter_le (fun b => !b == a) as
      simp only [List.length_cons] at h
      omega

theorem cast_tie_sum : ∀ L : List ℕ,
    (((L.map (fun (n : ℕ) => (n : ℤ))).filter (fun t => decide (t > 1))).map (fun t => t * (t * t - 1))).sum
      = ((((L.filter (fun t => decide (t > 1))).map (fun t => t * (t * t - 1))).sum : ℕ) : ℤ)
  | [] => by simp
  | t :: L => by
    have ih := cast_tie_sum L
    by_cases ht : t > 1
    · have h1 : ((t : ℤ) > 1) := by exact_mod_cast ht
      have h2 : 1 ≤ t * t := by nlinarith
      simp only [List.map_cons, List.filter_cons, h1, ht, decide_true, if_true, List.sum_cons, ih]
      push_cast [Nat.cast_sub h2]
      ring
    · have h1 : ¬ ((t : ℤ) > 1) := by exact_mod_cast ht
      simp only [List.map_cons, List.filter_cons, h1, ht, decide_false, Bool.false_eq_true, if_false, ih]

/-- the tie correction as the source computes it (`numpy.unique` counts of the ranks, `repnum[repnum > 1]`, int64 arithmetic)
    is the model's `tieTerm` -/
theorem tie_sum_eq (l : List ℚ) :
    let repnum := Py.unique_counts (Py.rankdata l)
    let repnum := Py.compress (repnum.map (fun x_ => decide (x_ > (1 : ℤ)))) repnum
    Py.sumInt (List.zipWith (fun x_ y_ => x_ * y_) repnum
        (List.map (fun x_ => x_ - (1 : ℤ)) (List.zipWith (fun x_ y_ => x_ * y_) repnum repnum)))
      = (tieTerm l : ℤ) ∧ (Py.size repnum = 0 → tieTerm l = 0) := by
  intro repnum0 repnum
  have hrep : repnum = repnum0.filter (fun t => decide (t > 1)) := compress_map_filter _ _
  have hz : List.zipWith (fun x_ y_ => x_ * y_) repnum
      (List.map (fun x_ => x_ - (1 : ℤ)) (List.zipWith (fun x_ y_ => x_ * y_) repnum repnum))
      = repnum.map (fun t => t * (t * t - 1)) := by
    simp [List.zipWith_map_right, List.zipWith_self]
  -- the counts, up to order, are those of the doubled ranks
  let r2 := l.map (rank2 l)
  let f : ℕ → ℚ := fun n => (n : ℚ) / 2
  have hf : Function.Injective f := by
    intro a b h
    simp only [f] at h
    have : (a : ℚ) = b := by linarith
    exact_mod_cast this
  have hr : Py.rankdata l = r2.map f := by
    unfold Py.rankdata; rw [PairedTests.rankdata2_eq]
  have hA : ((Py.rankdata l).mergeSort (fun a b => decide (a ≤ b))).eraseDups.Perm (Py.rankdata l).eraseDups :=
    PermInv.Concrete.eraseDups_perm (List.mergeSort_perm _ _)
  have hB : (Py.rankdata l).eraseDups.Perm (r2.eraseDups.map f) := by
    refine (List.perm_ext_iff_of_nodup (PermInv.Concrete.nodup_eraseDups _ _ le_rfl)
      ((nodup_eraseDups_nat _ _ le_rfl).map hf)).mpr (fun a => ?_)
    rw [List.mem_eraseDups, hr, List.mem_map, List.mem_map]
    constructor
    · rintro ⟨n, hn, rfl⟩; exact ⟨n, List.mem_eraseDups.mpr hn, rfl⟩
    · rintro ⟨n, hn, rfl⟩; exact ⟨n, List.mem_eraseDups.mp hn, rfl⟩
  have hC : repnum0.Perm ((r2.eraseDups.map (fun v => r2.count v)).map (fun (n : ℕ) => (n : ℤ))) := by
    have h1 := ((hA.trans hB).map (fun v => (((Py.rankdata l).count v : ℕ) : ℤ)))
    have h2 : (r2.eraseDups.map f).map (fun v => (((Py.rankdata l).count v : ℕ) : ℤ))
        = (r2.eraseDups.map (fun v => r2.count v)).map (fun (n : ℕ) => (n : ℤ)) := by
      simp only [List.map_map]
      apply List.map_congr_left
      intro n _
      simp only [Function.comp, hr, List.count_map_of_injective _ _ hf]
    rw [h2] at h1
    exact h1
  have hD := ((hC.filter (fun t => decide (t > 1))).map (fun t => t * (t * t - 1))).sum_eq
  have hT : (tieTerm l : ℤ) = ((((r2.eraseDups.map (fun v => r2.count v)).map (fun (n : ℕ) => (n : ℤ))).filter
      (fun t => decide (t > 1))).map (fun t => t * (t * t - 1))).sum := by
    rw [cast_tie_sum, ← PairedTests.tieTermRanks_eq]
    rfl
  refine ⟨?_, ?_⟩
  · rw [hz, sumInt_eq, hrep, hD, hT]
  · intro h0
    have hnil : repnum = [] := by
      have : repnum.length = 0 := by simpa [Py.size] using h0
      exact List.length_eq_zero_iff.mp this
    have : (tieTerm l : ℤ) = 0 := by
      rw [hT, ← hD, ← hrep, hnil]; rfl
    exact_mod_cast this

/-- **`_w_test_ndarray(x, m)`** (float64 differences): the generated definition — float64 / int64 arithmetic up to the
    variance term, real operations from `numpy.sqrt(se / 24)` on — is the model: the exact statistics `wStats x m` (count,
    rank sum T, mean, variance term with the tie correction) put through `wZ` and `wP`. Hypothesis: the number `c` of non-zero
    differences satisfies `c(c+1)(2c+1) ≤ 2^52` (c ≤ 131 000), so that the float products of the counts are exact; the rank
    sums by `numpy.sum` are exact by `FloatSum.pairwiseSum_exact_of_dyadic`. -/
theorem w_test_ndarray_eq_model {α : Type} [RealOps α] (sf : α → α) (x : List ℚ) (m : ℚ)
    (hc : (wStats x m).count * ((wStats x m).count + 1) * (2 * (wStats x m).count + 1) ≤ 2 ^ 52) :
    Src.w_test_ndarray sf x m =
      (let s := wStats x m
       let z := wZ (Py.rOfRat ((s.t2 : ℚ) / 2) : α) (Py.rOfRat ((s.mn4 : ℚ) / 4)) (Py.rOfRat s.se24)
       (z, wP sf z)) := by
  -- the differences after the zero removal
  set d := removeZeros (x.map (fun a => fsub a m)) with hd
  have hcnt : (wStats x m).count = d.length := rfl
  rw [hcnt] at hc
  have hdd : Py.compress_ne0 (List.map (fun x_ => fsub x_ m) x) = d := rfl
  obtain ⟨emn, ese⟩ := w_count_terms d.length hc
  have hA : d.length * (d.length + 1) ≤ d.length * (d.length + 1) * (2 * d.length + 1) :=
    Nat.le_mul_of_pos_right _ (by omega)
  have hb53 : d.length * (d.length + 1) ≤ 2 ^ 53 := by linarith
  have eP := rank_sum_exact (fun x_ => decide (x_ > (0 : ℚ))) d hb53
  have eM := rank_sum_exact (fun x_ => decide (x_ < (0 : ℚ))) d hb53
  obtain ⟨eT, eT0⟩ := tie_sum_eq (d.map (fun x_ => Py.np_abs x_))
  unfold Src.w_test_ndarray
  simp only [hdd, Py.size, eP, eM, emn, ese]
  simp only [eT]
  have hl : List.map (fun x_ => Py.np_abs x_) d = d.map absQ := rfl
  rw [hl] at eT0 ⊢
  have hT2 : Py.fmin
      (((List.map (fun a => if decide (a > 0) = true then rank2 (List.map absQ d) (absQ a) else 0) d).sum : ℕ) / 2 : ℚ)
      (((List.map (fun a => if decide (a < 0) = true then rank2 (List.map absQ d) (absQ a) else 0) d).sum : ℕ) / 2 : ℚ)
      = (((wStats x m).t2 : ℕ) : ℚ) / 2 := by
    have e1 : (List.map (fun a => if decide (a > 0) = true then rank2 (List.map absQ d) (absQ a) else 0) d).sum = rPlus2 d := by
      unfold rPlus2; simp only [decide_eq_true_eq, gt_iff_lt]
    have e2 : (List.map (fun a => if decide (a < 0) = true then rank2 (List.map absQ d) (absQ a) else 0) d).sum = rMinus2 d := by
      unfold rMinus2; simp only [decide_eq_true_eq]
    have e3 : (wStats x m).t2 = min (rPlus2 d) (rMinus2 d) := rfl
    rw [e1, e2, e3]
    unfold Py.fmin
    by_cases h : rMinus2 d < rPlus2 d
    · have : ((rMinus2 d : ℕ) : ℚ) / 2 < ((rPlus2 d : ℕ) : ℚ) / 2 := by
        have : ((rMinus2 d : ℕ) : ℚ) < ((rPlus2 d : ℕ) : ℚ) := by exact_mod_cast h
        linarith
      rw [if_pos this, Nat.min_eq_right (le_of_lt h)]
    · have : ¬ ((rMinus2 d : ℕ) : ℚ) / 2 < ((rPlus2 d : ℕ) : ℚ) / 2 := by
        intro hh
        have : ((rMinus2 d : ℕ) : ℚ) < ((rPlus2 d : ℕ) : ℚ) := by linarith
        exact h (by exact_mod_cast this)
      rw [if_neg this, Nat.min_eq_left (not_lt.mp h)]
  have hSE : (if decide ((↑(Py.compress
                (List.map (fun x_ => decide (x_ > 1)) (Py.unique_counts (Py.rankdata (List.map absQ d))))
                (Py.unique_counts (Py.rankdata (List.map absQ d)))).length : ℤ) ≠ 0) = true then
        fsub (↑(d.length * (d.length + 1) * (2 * d.length + 1)))
          (fmul (1 / 2) (Py.i2f ↑(tieTerm (List.map absQ d))))
      else (↑(d.length * (d.length + 1) * (2 * d.length + 1)) : ℚ)) = (wStats x m).se24 := by
    have e0 : (wStats x m).se24 = ((d.length * (d.length + 1) * (2 * d.length + 1) : ℕ) : ℚ)
        - ((tieTerm (d.map absQ) : ℕ) : ℚ) / 2 := rfl
    rw [e0]
    have hTle := PairedTests.tieTerm_le _ (d.map absQ) rfl
    rw [List.length_map] at hTle
    have hcube : d.length * d.length * d.length ≤ d.length * (d.length + 1) * (2 * d.length + 1) := by nlinarith
    have hTC : tieTerm (d.map absQ) ≤ d.length * (d.length + 1) * (2 * d.length + 1) := by omega
    have hT53 : tieTerm (d.map absQ) ≤ 2 ^ 53 := by omega
    by_cases hz : ((Py.compress
                (List.map (fun x_ => decide (x_ > 1)) (Py.unique_counts (Py.rankdata (List.map absQ d))))
                (Py.unique_counts (Py.rankdata (List.map absQ d)))).length : ℤ) = 0
    · have h0 := eT0 (by simpa [Py.size] using hz)
      simp [hz, h0]
    · simp only [ne_eq, hz, not_false_eq_true, decide_true, if_true]
      rw [w_i2f_nat hT53]
      have hCq : ((d.length * (d.length + 1) * (2 * d.length + 1) : ℕ) : ℚ) ≤ 2 ^ 52 := by exact_mod_cast hc
      have hTq : ((tieTerm (d.map absQ) : ℕ) : ℚ) ≤ ((d.length * (d.length + 1) * (2 * d.length + 1) : ℕ) : ℚ) := by
        exact_mod_cast hTC
      have hT0 : (0 : ℚ) ≤ ((tieTerm (d.map absQ) : ℕ) : ℚ) := by positivity
      have e1 : fmul (1 / 2) ((tieTerm (d.map absQ) : ℕ) : ℚ) = ((tieTerm (d.map absQ) : ℕ) : ℚ) / 2 := by
        unfold fmul
        have : (1 / 2 : ℚ) * ((tieTerm (d.map absQ) : ℕ) : ℚ) = ((tieTerm (d.map absQ) : ℕ) : ℚ) / 2 := by ring
        rw [this]
        apply FloatSum.fl64_half_int ⟨(tieTerm (d.map absQ) : ℤ), by push_cast; rfl⟩
        rw [abs_of_nonneg (by positivity)]
        linarith
      rw [e1]
      unfold fsub
      apply FloatSum.fl64_half_int
      · exact ⟨2 * (d.length * (d.length + 1) * (2 * d.length + 1) : ℕ) - (tieTerm (d.map absQ) : ℕ), by push_cast; ring⟩
      · rw [abs_of_nonneg (by linarith)]
        linarith
  rw [hT2, hSE]
  rfl
end WTest

end Src
