import PycsepVerif.GeneratedSrc
import PycsepVerif.Model.PoissonLL
/-!
# Source tie of C05: `poisson_joint_log_likelihood_ndarray` generated from the Python source equals the hand model
(Model/PoissonLL.lean `jointLL`), whose arguments are the arrays `_poisson_likelihood_test` passes:
`log-rate * count` over the target bins, the counts of the target bins, the expected count.
-/
namespace Src
open RealOps PoissonLL
variable {α : Type} [RealOps α]

theorem emulNat_eq (x : ELL α) (w : Nat) : Py.emulNat x w = mulNat x w := by cases x <;> rfl
theorem esubFin_eq (x : ELL α) (a : α) : Py.esubFin x a = subFin x a := by cases x <;> rfl

theorem poisson_joint_log_likelihood_ndarray_eq_model (bins : List (α × Nat)) (expected : α) :
    Src.poisson_joint_log_likelihood_ndarray
        ((targets bins).map (fun p => Py.emulNat (Py.elog p.1) p.2)) ((targets bins).map (·.2)) expected
      = jointLL bins expected := by
  simp only [Src.poisson_joint_log_likelihood_ndarray, jointLL, esubFin_eq, Py.esum, Py.rsum, Py.loggammaSucc, Py.elog,
    List.map_map]
  congr 3


/-! ### the observed statistic of `_poisson_likelihood_test` (backward slice of `obs_ll`) -/

theorem gather_nonzero_aux {β : Type} : ∀ (od : List Nat) (pre xs : List β), xs.length = od.length →
    Py.gather (pre ++ xs) (Py.nonzeroIdxFrom pre.length od)
      = ((xs.zip od).filter (fun p => decide (0 < p.2))).map (·.1) := by
  intro od
  induction od with
  | nil => intro pre xs h; simp [Py.nonzeroIdxFrom, Py.gather]
  | cons o od ih =>
    intro pre xs h
    cases xs with
    | nil => simp at h
    | cons x xs =>
      have hl : xs.length = od.length := by simpa using h
      have ih' := ih (pre ++ [x]) xs hl
      simp only [List.length_append, List.length_singleton, List.append_assoc, List.singleton_append] at ih'
      by_cases ho : o = 0
      · subst ho
        simp [Py.nonzeroIdxFrom, ih']
      · have hpos : 0 < o := Nat.pos_of_ne_zero ho
        simp only [Py.nonzeroIdxFrom, ne_eq, ho, not_false_eq_true, ↓reduceIte, List.zip_cons_cons, hpos, decide_true,
          List.filter_cons_of_pos, List.map_cons]
        rw [← ih']
        simp [Py.gather]

theorem gather_nonzero {β : Type} (xs : List β) (od : List Nat) (h : xs.length = od.length) :
    Py.gather xs (Py.nonzeroIdx od) = ((xs.zip od).filter (fun p => decide (0 < p.2))).map (·.1) := by
  simpa [Py.nonzeroIdx] using gather_nonzero_aux od [] xs h

theorem gather_nonzero_self (od : List Nat) :
    Py.gather od (Py.nonzeroIdx od) = od.filter (fun c => decide (0 < c)) := by
  rw [gather_nonzero od od rfl]
  induction od with
  | nil => rfl
  | cons o od ih => by_cases h : 0 < o <;> simp [h, ih]

theorem targets_zip_fst (fd : List α) (od : List Nat) (f : α → ELL α) :
    ((((fd.map f).zip od).filter (fun p => decide (0 < p.2))).map (·.1))
      = ((fd.zip od).filter (fun p => decide (0 < p.2))).map (fun p => f p.1) := by
  induction fd generalizing od with
  | nil => simp
  | cons x fd ih =>
    cases od with
    | nil => simp
    | cons o od => by_cases h : 0 < o <;> simp [h, ih]

theorem targets_zip_snd (fd : List α) (od : List Nat) (h : fd.length = od.length) :
    od.filter (fun c => decide (0 < c)) = ((fd.zip od).filter (fun p => decide (0 < p.2))).map (·.2) := by
  induction fd generalizing od with
  | nil => cases od <;> simp_all
  | cons x fd ih =>
    cases od with
    | nil => simp at h
    | cons o od =>
      have hl : fd.length = od.length := by simpa using h
      by_cases ho : 0 < o <;> simp [ho, ih od hl]

theorem zipWith_self {β γ : Type} (f : β → β → γ) (l : List β) : List.zipWith f l l = l.map (fun x => f x x) := by
  induction l with
  | nil => rfl
  | cons x l ih => simp [ih]

/-- the argument arrays `_poisson_likelihood_test` builds, for rates `fd` (already scaled or not) -/
theorem slice_core (fd : List α) (od : List Nat) (h : fd.length = od.length) (expected : α) :
    Src.poisson_joint_log_likelihood_ndarray
      (List.zipWith (fun x y => Py.emulNat x y) (Py.gather (fd.map (fun x => Py.elog x)) (Py.nonzeroIdx od))
        (Py.gather od (Py.nonzeroIdx od)))
      (Py.gather od (Py.nonzeroIdx od)) expected
    = jointLL (fd.zip od) expected := by
  rw [← poisson_joint_log_likelihood_ndarray_eq_model]
  have e1 := gather_nonzero (fd.map (fun x => Py.elog x)) od (by simpa using h)
  rw [e1, targets_zip_fst, gather_nonzero_self, targets_zip_snd fd od h]
  simp only [targets, List.zipWith_map, zipWith_self]

/-- **the observed statistic of `_poisson_likelihood_test`**: for flattened arrays of equal length and both flags, the
    definition generated from the backward slice of `obs_ll` is the model's `stat` -/
theorem poisson_likelihood_stat_eq_model (fd : List α) (od : List Nat) (uoc nl : Bool) (h : fd.length = od.length) :
    Src.poisson_likelihood_stat fd od uoc nl = stat (uoc && nl) (fd.zip od) := by
  have hsnd : (fd.zip od).map (·.2) = od := List.map_snd_zip (by omega)
  have hfst : (fd.zip od).map (·.1) = fd := List.map_fst_zip (by omega)
  cases hc : (uoc && nl)
  · simp only [Src.poisson_likelihood_stat, hc, stat, nFore, hfst, Bool.false_eq_true, ↓reduceIte]
    exact slice_core fd od h _
  · simp only [Src.poisson_likelihood_stat, hc, stat, nFore, nObs, hfst, hsnd, ↓reduceIte, List.map_map]
    have hz : (fd.zip od).map (fun p => (mul p.1 (div (ofNat od.sum) (Py.rsum fd)), p.2))
        = (fd.map (fun x => mul x (div (ofNat od.sum) (Py.rsum fd)))).zip od := by
      rw [List.zip_map_left]; rfl
    have := slice_core (fd.map (fun x => mul x (div (ofNat od.sum) (Py.rsum fd)))) od (by simpa using h)
      (ofNat od.sum)
    simp only [List.map_map] at this
    rw [Py.rsum] at *
    rw [hz]
    exact this

/-- `poisson_spatial_likelihood(forecast, catalog)` (poisson_evaluations.py:226): one `poissonCell` per spatial cell, with
    `scale = catalog.event_count / forecast.event_count`; the objects are read only through `.event_count` and
    `.spatial_counts()`. Generic over `RealOps`. -/
theorem poisson_spatial_likelihood_eq_model {α : Type} [RealOps α] (nCat : Nat) (nFore : α) (sc : List α) (cnt : List Nat)
    (h : sc.length = cnt.length) :
    Src.poisson_spatial_likelihood nCat nFore sc cnt
      = (sc.zip cnt).map (fun p => PoissonLL.poissonCell (RealOps.div (RealOps.ofNat nCat) nFore) p.1 p.2) := by
  simp only [Src.poisson_spatial_likelihood]
  apply List.ext_getElem
  · simp [h]
  · intro i h1 h2
    simp only [List.getElem_zipWith, List.getElem_map, List.getElem_zip, PoissonLL.poissonCell, Py.loggammaSucc]

/-- the model's `poissonSpatialMap` in terms of the generated definition -/
theorem poissonSpatialMap_eq_src {α : Type} [RealOps α] (data : List (List α)) (c : List (List Nat))
    (h : (PoissonLL.spatialMarginal data).length = (PoissonLL.spatialMarginalN c).length) :
    PoissonLL.poissonSpatialMap data c
      = Src.poisson_spatial_likelihood c.flatten.sum (RealOps.sum data.flatten) (PoissonLL.spatialMarginal data)
          (PoissonLL.spatialMarginalN c) := by
  rw [poisson_spatial_likelihood_eq_model _ _ _ _ h]; rfl

end Src
