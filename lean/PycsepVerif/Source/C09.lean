import PycsepVerif.GeneratedSrc
import PycsepVerif.Model.EcdfNumpy
import PycsepVerif.Proofs.Ecdf
import PycsepVerif.Proofs.Soft64Round
import Mathlib.Tactic.Linarith
/-!
# Source tie of C09: `ecdf`, `greater_equal_ecdf`, `less_equal_ecdf`, `get_quantiles` (csep/utils/stats.py) generated from
the Python source equal the hand model (Model/Ecdf.lean, Model/EcdfNumpy.lean)

Specialisation: float64 sample (1-D), float64 query, the precomputed-ecdf argument `cdf` not passed. The hand model returns a
probability as the pair `(k, n)` standing for the float `k / float(n)` = `Ecdf.probF k n`; the generated definition
returns that float. The equalities hold for every sample of fewer than 2^53 values (so that `arange(1, n+1)` and `len(x)`
convert to float64 exactly).

The meaning of the sorted-array operations of the prelude is stated here once:
`np_sort_perm`, `np_sort_sorted`, `searchsorted_left_spec`, `searchsorted_right_spec`.
-/
namespace Src
open Soft64 Ecdf

/-! ## meaning of the prelude's sorted-array operations -/

theorem np_sort_eq (x : List Rat) : Py.np_sort x = Ecdf.sort x := rfl
theorem searchsorted_left_eq (a : List Rat) (v : Rat) : Py.searchsorted_left a v = ((searchLeft a v : Nat) : Int) := rfl
theorem searchsorted_right_eq (a : List Rat) (v : Rat) : Py.searchsorted_right a v = ((searchRight a v : Nat) : Int) := rfl

/-- `numpy.sort` rearranges -/
theorem np_sort_perm (x : List Rat) : (Py.np_sort x).Perm x := sort_perm x
/-- `numpy.sort` is ascending -/
theorem np_sort_sorted (x : List Rat) : (Py.np_sort x).Pairwise (fun a b => a ≤ b) := sort_sorted x

theorem takeWhile_length_spec (p : Rat → Bool) : ∀ (a : List Rat) (i : Nat),
    (∀ j k : Nat, j ≤ k → k < a.length → p (a.getD k 0) = true → p (a.getD j 0) = true) → i < a.length →
    (i < (a.takeWhile p).length ↔ p (a.getD i 0) = true)
  | [], i, _, hi => by simp at hi
  | x :: a, i, hm, hi => by
    by_cases hx : p x = true
    · rw [List.takeWhile_cons_of_pos hx]
      cases i with
      | zero => simp [hx]
      | succ i =>
        have := takeWhile_length_spec p a i (fun j k hjk hk hp => by
          have := hm (j + 1) (k + 1) (by omega) (by simp; omega) (by simpa using hp)
          simpa using this) (by simpa using hi)
        simpa using this
    · rw [List.takeWhile_cons_of_neg hx]
      have : ¬ p ((x :: a).getD i 0) = true := fun hp => hx (by
        have := hm 0 i (by omega) hi hp
        simpa using this)
      simpa using this

theorem getD_mono {a : List Rat} (hs : a.Pairwise (fun x y => x ≤ y)) {j k : Nat} (hjk : j ≤ k) (hk : k < a.length) :
    a.getD j 0 ≤ a.getD k 0 := by
  rcases Nat.lt_or_eq_of_le hjk with h | h
  · have hj : j < a.length := by omega
    have := List.pairwise_iff_getElem.mp hs j k hj hk h
    simp only [List.getD_eq_getElem?_getD, List.getElem?_eq_getElem hk, List.getElem?_eq_getElem hj, Option.getD_some]
    exact this
  · subst h; exact le_refl _

/-- on an ascending array `searchsorted(a, v)` is the boundary between the elements `< v` and the elements `≥ v` -/
theorem searchsorted_left_spec (a : List Rat) (v : Rat) (hs : a.Pairwise (fun x y => x ≤ y)) (i : Nat) (hi : i < a.length) :
    ((i : Int) < Py.searchsorted_left a v ↔ a.getD i 0 < v) := by
  have := takeWhile_length_spec (fun x => decide (x < v)) a i (fun j k hjk hk hp => by
    have h1 := getD_mono hs hjk hk
    simp only [decide_eq_true_eq] at hp ⊢
    exact lt_of_le_of_lt h1 hp) hi
  simpa [Py.searchsorted_left] using this

/-- on an ascending array `searchsorted(a, v, side='right')` is the boundary between the elements `≤ v` and `> v` -/
theorem searchsorted_right_spec (a : List Rat) (v : Rat) (hs : a.Pairwise (fun x y => x ≤ y)) (i : Nat) (hi : i < a.length) :
    ((i : Int) < Py.searchsorted_right a v ↔ a.getD i 0 ≤ v) := by
  have := takeWhile_length_spec (fun x => decide (x ≤ v)) a i (fun j k hjk hk hp => by
    have h1 := getD_mono hs hjk hk
    simp only [decide_eq_true_eq] at hp ⊢
    exact le_trans h1 hp) hi
  simpa [Py.searchsorted_right] using this

/-! ## helpers -/

theorem i2f_nat {n : Nat} (h : (n : Int) ≤ 2 ^ 53) : Py.i2f (n : Int) = (n : Rat) := by
  have : |(n : Int)| ≤ 2 ^ 53 := by rw [abs_le]; constructor <;> omega
  unfold Py.i2f
  simpa using (Soft64R.fl64_intCast this)

theorem sort_length (x : List Rat) : (Ecdf.sort x).length = x.length := List.length_mergeSort _

theorem sort_nil_iff (x : List Rat) : Ecdf.sort x = [] ↔ x = [] := by
  rw [← List.length_eq_zero_iff, sort_length, List.length_eq_zero_iff]

/-- the array `ys` of `ecdf` (stats.py:82): `arange(1, n + 1) / float(n)`, entry `i` is the float of `(i + 1, n)` -/
theorem ys_eq (n : Nat) (h : (n : Int) ≤ 2 ^ 53) :
    List.map (fun x_ => fdiv (Py.i2f x_) (Py.i2f (n : Int))) (Py.range 1 (1 + (n : Int)))
      = (List.range n).map (fun i => probF (ey n i).1 (ey n i).2) := by
  have e : (1 + (n : Int) - 1).toNat = n := by omega
  simp only [Py.range, e, List.map_map]
  apply List.map_congr_left
  intro i hi
  have hi' : i < n := List.mem_range.mp hi
  have h1 : ((1 : Int) + (i : Int)) = ((i + 1 : Nat) : Int) := by push_cast; ring
  simp only [Function.comp, h1, ey, probF]
  rw [i2f_nat h, i2f_nat (by omega)]

theorem getF_nat' (l : List Rat) (k : Nat) : Py.getF l (k : Int) = l.getD k 0 := by simp [Py.getF]

theorem getF_zero_head (l : List Rat) (e0 : Rat) (h : l.head? = some e0) : Py.getF l 0 = e0 := by
  cases l with
  | nil => simp at h
  | cons a l => simp [Py.getF] at h ⊢; exact h

theorem getF_neg_one_last (l : List Rat) (e : Rat) (h : l.getLast? = some e) : Py.getF l (-1) = e := by
  have hne : l ≠ [] := by rintro rfl; simp at h
  have hl : 0 < l.length := List.length_pos_iff.mpr hne
  unfold Py.getF
  have e1 : ¬ (0 : Int) ≤ -1 := by omega
  have e2 : (0 : Int) ≤ (l.length : Int) + -1 := by omega
  have e3 : ((l.length : Int) + -1).toNat = l.length - 1 := by omega
  simp only [e1, e2, e3, if_true, if_false]
  rw [List.getLast?_eq_getElem?] at h
  rw [List.getD_eq_getElem?_getD, h]; rfl

theorem searchLeft_lt_of_le_last (ex : List Rat) (v last : Rat) (hl : ex.getLast? = some last) (h : ¬ v > last) :
    searchLeft ex v < ex.length := by
  unfold searchLeft
  induction ex with
  | nil => simp at hl
  | cons a l ih =>
    by_cases ha : a < v
    · rw [List.takeWhile_cons_of_pos (by simpa using ha)]
      cases l with
      | nil => simp at hl; subst hl; exact absurd ha h
      | cons b l => have := ih (by simpa [List.getLast?_cons_cons] using hl); simpa using this
    · rw [List.takeWhile_cons_of_neg (by simpa using ha)]; simp

theorem searchRight_pos_of_head_le (ex : List Rat) (v e0 : Rat) (hh : ex.head? = some e0) (h : ¬ v < e0) :
    0 < searchRight ex v := by
  cases ex with
  | nil => simp at hh
  | cons a l =>
    simp at hh; subst hh
    unfold searchRight
    rw [List.takeWhile_cons_of_pos (by simpa using (not_lt.mp h))]; simp

theorem searchRight_le (ex : List Rat) (v : Rat) : searchRight ex v ≤ ex.length := by
  unfold searchRight; exact (List.takeWhile_sublist _).length_le

theorem fdiv_zero_left (n : Rat) : fdiv 0 n = 0 := by simp [fdiv, Soft64R.fl64_zero]

theorem fdiv_self_nat {n : Nat} (h : 0 < n) : fdiv (n : Rat) (n : Rat) = 1 := by
  have : (n : Rat) ≠ 0 := by exact_mod_cast (Nat.pos_iff_ne_zero.mp h)
  unfold fdiv; rw [div_self this]
  have := Soft64R.fl64_intCast (n := 1) (by norm_num)
  simpa using this

/-! ## the four functions -/

/-- `ecdf(x)`: the sorted sample and the floats of `(1, n), …, (n, n)` -/
theorem ecdf_eq_model (x : List Rat) (h : (x.length : Int) ≤ 2 ^ 53) :
    Src.ecdf x = (Ecdf.sort x, (List.range x.length).map (fun i => probF (ey x.length i).1 (ey x.length i).2)) := by
  simp only [Src.ecdf, np_sort_eq, Py.size, ys_eq x.length h]

/-- `greater_equal_ecdf(x, val)` is the float of the model's `(k, n)` -/
theorem greater_equal_ecdf_eq_model (x : List Rat) (v : Rat) (h : (x.length : Int) ≤ 2 ^ 53) :
    Src.greater_equal_ecdf x v = (geEcdf x v).map (fun p => probF p.1 p.2) := by
  simp only [Src.greater_equal_ecdf, ecdf_eq_model x h, geEcdf]
  have hsz : Py.getA [Py.size x] 0 = (x.length : Int) := by simp [Py.getA, Py.size]
  rw [hsz]
  by_cases hx : x = []
  · subst hx; simp [Ecdf.sort]
  · have hne : Ecdf.sort x ≠ [] := fun hh => hx ((sort_nil_iff x).mp hh)
    have hlen : 0 < x.length := List.length_pos_iff.mpr hx
    have h0 : ¬ ((x.length : Int) = 0) := by omega
    obtain ⟨e0, he0⟩ : ∃ e0, (Ecdf.sort x).head? = some e0 := by
      cases hs : Ecdf.sort x with
      | nil => exact absurd hs hne
      | cons a l => exact ⟨a, rfl⟩
    obtain ⟨last, hlast⟩ : ∃ e, (Ecdf.sort x).getLast? = some e :=
      ⟨(Ecdf.sort x).getLast hne, List.getLast?_eq_some_getLast hne⟩
    simp only [h0, decide_false, Bool.false_eq_true, if_false, he0, hlast, getF_zero_head _ _ he0,
      getF_neg_one_last _ _ hlast, sort_length, decide_eq_true_eq]
    by_cases h1 : v > last
    · simp [h1, probF, fdiv_zero_left]
    · by_cases h2 : v < e0
      · simp [h1, h2, probF, fdiv_self_nat hlen]
      · simp only [h1, h2, if_false, Option.map_some, searchsorted_left_eq, getF_nat', eyc]
        have hi := searchLeft_lt_of_le_last _ v last hlast h1
        rw [sort_length] at hi
        congr 1
        rw [List.getD_eq_getElem?_getD, List.getElem?_reverse (by simpa using hi)]
        simp only [List.length_map, List.length_range]
        rw [List.getElem?_map, List.getElem?_range (by omega)]
        simp only [Option.map_some, Option.getD_some, ey]
        have : x.length - 1 - searchLeft (Ecdf.sort x) v + 1 = x.length - searchLeft (Ecdf.sort x) v := by omega
        rw [this]

/-- `less_equal_ecdf(x, val)` is the float of the model's `(k, n)` -/
theorem less_equal_ecdf_eq_model (x : List Rat) (v : Rat) (h : (x.length : Int) ≤ 2 ^ 53) :
    Src.less_equal_ecdf x v = (leEcdf x v).map (fun p => probF p.1 p.2) := by
  simp only [Src.less_equal_ecdf, ecdf_eq_model x h, leEcdf]
  have hsz : Py.getA [Py.size x] 0 = (x.length : Int) := by simp [Py.getA, Py.size]
  rw [hsz]
  by_cases hx : x = []
  · subst hx; simp [Ecdf.sort]
  · have hne : Ecdf.sort x ≠ [] := fun hh => hx ((sort_nil_iff x).mp hh)
    have hlen : 0 < x.length := List.length_pos_iff.mpr hx
    have h0 : ¬ ((x.length : Int) = 0) := by omega
    obtain ⟨e0, he0⟩ : ∃ e0, (Ecdf.sort x).head? = some e0 := by
      cases hs : Ecdf.sort x with
      | nil => exact absurd hs hne
      | cons a l => exact ⟨a, rfl⟩
    obtain ⟨last, hlast⟩ : ∃ e, (Ecdf.sort x).getLast? = some e :=
      ⟨(Ecdf.sort x).getLast hne, List.getLast?_eq_some_getLast hne⟩
    simp only [h0, decide_false, Bool.false_eq_true, if_false, he0, hlast, getF_zero_head _ _ he0,
      getF_neg_one_last _ _ hlast, sort_length, decide_eq_true_eq]
    by_cases h1 : v > last
    · simp [h1, probF, fdiv_self_nat hlen]
    · by_cases h2 : v < e0
      · simp [h1, h2, probF, fdiv_zero_left]
      · simp only [h1, h2, if_false, Option.map_some, searchsorted_right_eq]
        have hp := searchRight_pos_of_head_le _ v e0 he0 h2
        have hle := searchRight_le (Ecdf.sort x) v
        rw [sort_length] at hle
        have e1 : ((searchRight (Ecdf.sort x) v : Nat) : Int) - 1 = ((searchRight (Ecdf.sort x) v - 1 : Nat) : Int) := by omega
        rw [e1, getF_nat']
        congr 1
        rw [List.getD_eq_getElem?_getD, List.getElem?_map, List.getElem?_range (by omega)]
        simp [ey]

/-- `get_quantiles(sim_counts, obs_count)` = the floats of the model's `(delta_1, delta_2)` -/
theorem get_quantiles_eq_model (x : List Rat) (v : Rat) (h : (x.length : Int) ≤ 2 ^ 53) :
    Src.get_quantiles x v =
      ((getQuantiles x v).1.map (fun p => probF p.1 p.2), (getQuantiles x v).2.map (fun p => probF p.1 p.2)) := by
  simp only [Src.get_quantiles, greater_equal_ecdf_eq_model x v h, less_equal_ecdf_eq_model x v h, getQuantiles]

/-- non-vacuity: the hypothesis holds for every sample a machine can hold; a concrete instance -/
example := get_quantiles_eq_model [3, 1, 2, 2] 2 (by norm_num)

/-! ## `min_or_none`, `max_or_none`, `sup_dist`, `sup_dist_na` (float64 arrays) -/

theorem min_or_none_eq_model (x : List Rat) : Src.min_or_none x = minOrNone x := by
  cases x with
  | nil => simp [Src.min_or_none, minOrNone, Py.size]
  | cons a l =>
    have : ¬ ((l.length : Int) + 1 = 0) := by omega
    simp [Src.min_or_none, minOrNone, Py.size, Py.np_min, this]

theorem max_or_none_eq_model (x : List Rat) : Src.max_or_none x = maxOrNone x := by
  cases x with
  | nil => simp [Src.max_or_none, maxOrNone, Py.size]
  | cons a l =>
    have : ¬ ((l.length : Int) + 1 = 0) := by omega
    simp [Src.max_or_none, maxOrNone, Py.size, Py.np_max, this]

theorem absR_nonneg (a : Rat) : 0 ≤ absR a := by
  unfold absR; split <;> linarith

/-- on non-negative entries `numpy.max` (fold from the first element) is the model's `maxL` (fold from 0) -/
theorem np_max_eq_maxL (l : List Rat) (h : ∀ a ∈ l, 0 ≤ a) : Py.np_max l = maxL l := by
  cases l with
  | nil => rfl
  | cons a t =>
    have ha : 0 ≤ a := h a (by simp)
    have : (if (0 : Rat) < a then a else 0) = a := by
      split
      · rfl
      · linarith [not_lt.mp ‹¬ (0 : Rat) < a›]
    simp [Py.np_max, maxL, List.foldl_cons, this]

theorem zipWith_forall {β γ δ : Type} (f : β → γ → δ) (P : δ → Prop) (h : ∀ a b, P (f a b)) :
    ∀ (l1 : List β) (l2 : List γ), ∀ x ∈ List.zipWith f l1 l2, P x
  | [], _, x, hx => by simp at hx
  | _ :: _, [], x, hx => by simp at hx
  | a :: l1, b :: l2, x, hx => by
    rcases List.mem_cons.mp (by simpa using hx) with h1 | h1
    · rw [h1]; exact h a b
    · exact zipWith_forall f P h l1 l2 x h1

theorem np_abs_eq (a : Rat) : Py.np_abs a = absR a := rfl

/-- `sup_dist(cdf1, cdf2)` = the model's `supDistF` (an empty pair of arrays, where numpy raises, gives 0 in both) -/
theorem sup_dist_eq_model (cdf1 cdf2 : List Rat) : Src.sup_dist cdf1 cdf2 = supDistF cdf1 cdf2 := by
  have e : List.map (fun x_ => Py.np_abs x_) (List.zipWith (fun x_ y_ => fsub x_ y_) cdf2 cdf1)
      = List.zipWith (fun a b => absR (fsub b a)) cdf1 cdf2 := by
    rw [List.map_zipWith, List.zipWith_comm]; rfl
  unfold Src.sup_dist supDistF
  rw [e]
  apply np_max_eq_maxL
  exact zipWith_forall _ (fun v => 0 ≤ v) (fun a b => absR_nonneg _) cdf1 cdf2

theorem zipWith_map_both {β γ δ ε : Type} (f : γ → δ → ε) (a : β → γ) (b : β → δ) (l : List β) :
    List.zipWith f (l.map a) (l.map b) = l.map (fun p => f (a p) (b p)) := by
  induction l with
  | nil => rfl
  | cons x xs ih => simp [ih]

theorem fmul_one_nat {n : Nat} (h : (n : Int) ≤ 2 ^ 53) : fmul 1 (Py.i2f (n : Int)) = (n : Rat) := by
  rw [i2f_nat h]; unfold fmul; rw [one_mul]
  have : |(n : Int)| ≤ 2 ^ 53 := by rw [abs_le]; constructor <;> omega
  simpa using (Soft64R.fl64_intCast this)

/-- `sup_dist_na(data1, data2)` = the model's `supDistNaF` (binary64, operation by operation), for samples of at most 2^53
    values -/
theorem sup_dist_na_eq_model (d1 d2 : List Rat) (h1 : (d1.length : Int) ≤ 2 ^ 53) (h2 : (d2.length : Int) ≤ 2 ^ 53) :
    Src.sup_dist_na d1 d2 = supDistNaF d1 d2 := by
  have hs : ∀ (d : List Rat) (t : Rat), (d.length : Int) ≤ 2 ^ 53 →
      Py.i2f (Py.searchsorted_right (Py.np_sort d) t) = ((searchRight (Ecdf.sort d) t : Nat) : Rat) := by
    intro d t hd
    rw [np_sort_eq, searchsorted_right_eq]
    apply i2f_nat
    have := searchRight_le (Ecdf.sort d) t
    rw [sort_length] at this
    omega
  unfold Src.sup_dist_na supDistNaF
  simp only [Py.size, List.map_map, zipWith_map_both, fmul_one_nat h1, fmul_one_nat h2, Function.comp, hs d1 _ h1,
    hs d2 _ h2, np_abs_eq]
  rw [np_max_eq_maxL]
  · rfl
  · intro a ha
    obtain ⟨t, _, rfl⟩ := List.mem_map.mp ha
    exact absR_nonneg _

end Src
