import PycsepVerif.GeneratedSrc
import PycsepVerif.Model.JsonRecords
/-!
# Source tie of C18: `EvaluationResult.__init__`, `to_dict`, `from_dict` (csep/models.py) generated from the Python source equal
the hand model on value trees (Model/JsonTree.lean, JsonRecords.lean: `TResult.toDict`, the nine subscripts of `loadDict`)

Object layer: every attribute / dictionary value is an arbitrary Python value, a tree `JsonTree.PyObj`; exceptions are
`Py.ErrX`. Nothing is computed with the values: the ties say which value goes under which key / into which attribute, in
which order the subscripts are evaluated (which exception wins) and how `test_distribution` is turned into a list.
-/
namespace Src
open JsonTree

/-- `EvaluationResult.__init__`: every argument is stored under the attribute of its name (backward slice of the nine
    data attributes; `named_type = self.__class__.__name__` is not part of it) -/
theorem er_init_eq_model (td name os q st ocr sn on mw : PyObj) :
    Src.er_init td name os q st ocr sn on mw = (td, name, os, q, st, ocr, sn, on, mw) := rfl

/-- `to_dict()`: TypeError iff `test_distribution` has neither `.tolist()` nor an iterator (the model's `none`), otherwise
    the model's dictionary, members in the source's order -/
theorem er_to_dict_eq_model (r : TResult) :
    Src.er_to_dict r.testDistribution r.name r.observedStatistic r.quantile r.status r.obsCatalogRepr r.simName r.obsName
        r.minMw (.str r.cls)
      = match r.toDict with | some d => .ok d | none => .error .typeError := by
  obtain ⟨cls, td, name, os, q, st, ocr, sn, on, mw⟩ := r
  cases td <;> simp [Src.er_to_dict, Py.tryCatch, Py.obj_tolist, Py.obj_list, TResult.toDict, tdListT]

/-- the exceptions of the model's readers as exceptions of the object layer -/
def recErr : RecErr → Py.ErrX
  | .keyError => .keyError
  | .typeError => .typeError
  | .attributeError => .attributeError
  | .indexError => .other
  | .unmodelled => .other

theorem obj_item_eq (d : PyObj) (s : String) : Py.obj_item d s = (d.item s).mapError recErr := by
  cases d <;> simp [Py.obj_item, PyObj.item, Except.mapError, recErr]
  rename_i kvs
  cases kvs.get s <;> simp [recErr]

/-- the nine subscripts of `from_dict`, in the order the source evaluates them -/
def fromDictFields (d : PyObj) : Except RecErr (PyObj × PyObj × PyObj × PyObj × PyObj × PyObj × PyObj × PyObj × PyObj) := do
  let td ← d.item "test_distribution"
  let name ← d.item "name"
  let os ← d.item "observed_statistic"
  let q ← d.item "quantile"
  let sn ← d.item "sim_name"
  let on ← d.item "obs_name"
  let ocr ← d.item "obs_catalog_repr"
  let st ← d.item "status"
  let mw ← d.item "min_mw"
  pure (td, name, os, q, st, ocr, sn, on, mw)

/-- `from_dict(adict)`: the nine subscripts (KeyError / TypeError of the first failing one), then the constructor: the
    attributes in the order (test_distribution, name, observed_statistic, quantile, status, obs_catalog_repr, sim_name,
    obs_name, min_mw) -/
theorem er_from_dict_eq_model (d : PyObj) : Src.er_from_dict d = (fromDictFields d).mapError recErr := by
  simp only [Src.er_from_dict, obj_item_eq, fromDictFields, er_init_eq_model]
  cases d.item "test_distribution" <;> simp [Except.mapError, bind, Except.bind, pure, Except.pure]
  cases d.item "name" <;> simp [Except.mapError]
  cases d.item "observed_statistic" <;> simp [Except.mapError]
  cases d.item "quantile" <;> simp [Except.mapError]
  cases d.item "sim_name" <;> simp [Except.mapError]
  cases d.item "obs_name" <;> simp [Except.mapError]
  cases d.item "obs_catalog_repr" <;> simp [Except.mapError]
  cases d.item "status" <;> simp [Except.mapError]
  cases d.item "min_mw" <;> simp [Except.mapError]

/-- the model's loader is: type lookup, factory, then exactly these fields -/
theorem loadDict_eq_fields (d : PyObj) :
    loadDict d = (do
      let key ← match d.item "type" with
        | .ok (.str s) => pure s
        | .ok _ => throw RecErr.keyError
        | .error _ => pure "default"
      let c ← match ResultJson.factory key with
        | some c => pure c
        | Option.none => throw RecErr.keyError
      let f ← fromDictFields d
      pure { cls := c, testDistribution := f.1, name := f.2.1, observedStatistic := f.2.2.1, quantile := f.2.2.2.1,
             status := f.2.2.2.2.1, obsCatalogRepr := f.2.2.2.2.2.1, simName := f.2.2.2.2.2.2.1,
             obsName := f.2.2.2.2.2.2.2.1, minMw := f.2.2.2.2.2.2.2.2 }) := by
  simp only [loadDict, fromDictFields, bind_assoc, pure_bind]
  rfl

/-! ## region dictionaries: `CartesianGrid2D.to_dict`, `QuadtreeGrid2D.to_dict` (csep/core/regions.py)

`self.name` is a str or None, `self.dh` and the polygons' origins are float64 numbers (bit patterns, never computed with),
`self.polygons` is read only through `poly.origin`, `self.__class__.__name__` is a parameter. -/

theorem polysOf_eq (os : List (ResultJson.F64 × ResultJson.F64)) :
    PyList.ofList (os.map (fun poly => PyObj.dict (PyKVs.ofList [("lat", .pyFloat poly.2), ("lon", .pyFloat poly.1)])))
      = polysOf os := by
  induction os with
  | nil => rfl
  | cons o t ih => simp [PyList.ofList, polysOf, polyDict, ih]

theorem optstr_str_eq (n : Option String) : Py.optstr_str n = nameStr n := by cases n <;> rfl

/-- `CartesianGrid2D.to_dict()`: the model's dictionary (name, dh, origins, class name; neither mask nor magnitudes) -/
theorem grid_to_dict_eq_model (g : Grid) :
    Src.grid_to_dict g.name g.dh g.origins (.str "CartesianGrid2D") = .ok g.toDict := by
  simp only [Src.grid_to_dict, Grid.toDict, polysOf_eq, optstr_str_eq]

/-- `QuadtreeGrid2D.to_dict()` -/
theorem quad_to_dict_eq_model (name : Option String) (origins : List (ResultJson.F64 × ResultJson.F64)) :
    Src.quad_to_dict name origins = .ok (quadToDict name origins) := by
  simp only [Src.quad_to_dict, quadToDict, polysOf_eq, optstr_str_eq]

/-! ## `CartesianGrid2D.from_dict` (csep/core/regions.py) up to the call of `from_origins`

The generated definition returns the four arguments of `cls.from_origins(origins, dh=…, magnitudes=…, name=…)`. The model
`Grid.fromDict` continues through `from_origins` (IndexError on an empty array) and requires float entries; that remaining
part is `fromOriginsArgs` below. The two agree wherever both are defined: the model's `unmodelled` and the object layer's
`other` are the two ways of saying "numpy decides". -/

/-- exceptions of the object layer as the model's -/
def errRec : Py.ErrX → RecErr
  | .keyError => .keyError
  | .typeError => .typeError
  | .attributeError => .attributeError
  | .valueError => .unmodelled
  | .other => .unmodelled

/-- the rows `[lon, lat]` of the array `numpy.array([[adict['lon'], adict['lat']] …])` as pairs of floats -/
def rowsPairs : PyList → Option (List (ResultJson.F64 × ResultJson.F64))
  | .nil => some []
  | .cons (.list (.cons (.pyFloat lo) (.cons (.pyFloat la) .nil))) rest => (rowsPairs rest).map (fun os => (lo, la) :: os)
  | .cons _ _ => none

/-- what the model does with the four arguments of `from_origins`: float requirements (else `unmodelled`), IndexError of
    `origins[:,0]` on the empty array, the record -/
def fromOriginsArgs : PyObj × PyObj × PyObj × PyObj → Except RecErr Grid
  | (.ndarray rows, dh, mags, name) =>
    match rowsPairs rows with
    | none => .error .unmodelled
    | some os =>
      let mg : Except RecErr (Option (List ResultJson.F64)) :=
        match mags with
        | .none => .ok none
        | .ndarray ms => match floatList ms with
          | some xs => .ok (some xs)
          | none => .error .unmodelled
        | _ => .error .unmodelled
      match mg with
      | .error e => .error e
      | .ok mg =>
        if os.isEmpty then .error .indexError else
        let nm : Except RecErr (Option String) :=
          match name with
          | .str s => .ok (some s)
          | .none => .ok none
          | _ => .error .unmodelled
        match dh, nm with
        | .pyFloat x, .ok nm => .ok { origins := os, dh := x, mask := none, name := nm, magnitudes := mg }
        | _, _ => .error .unmodelled
  | _ => .error .unmodelled

/-- the element function of the comprehension, as generated -/
def polyRow (adict : PyObj) : Except Py.ErrX PyObj :=
  match Py.obj_item adict "lon" with
  | .error e_ => Except.error e_
  | .ok v_5 =>
    match Py.obj_item adict "lat" with
    | .error e_ => Except.error e_
    | .ok v_6 => Except.ok (PyObj.list (PyList.ofList [v_5, v_6]))

def pairRow (p : PyObj × PyObj) : PyObj := .list (PyList.ofList [p.1, p.2])

theorem readPolys_mapE : ∀ ps : PyList,
    (match readPolys ps with
     | some os => Py.mapE polyRow ps.toList = .ok (os.map pairRow)
     | none => ∃ e, Py.mapE polyRow ps.toList = .error e)
  | .nil => by simp [readPolys, PyList.toList, Py.mapE]
  | .cons e rest => by
    have ih := readPolys_mapE rest
    cases e <;> simp [readPolys, PyList.toList, Py.mapE, polyRow, Py.obj_item]
    rename_i kvs
    cases h1 : kvs.get "lon" <;> simp
    cases h2 : kvs.get "lat" <;> simp
    cases h3 : readPolys rest <;> simp [h3] at ih ⊢
    · obtain ⟨e, he⟩ := ih
      simp [he]
    · simp [ih, pairRow]

theorem isFloatRows_pairs (os : List (PyObj × PyObj)) :
    Py.isFloatRows 2 (PyList.ofList (os.map pairRow)) = (floatPairs os).isSome := by
  induction os with
  | nil => rfl
  | cons p t ih =>
    obtain ⟨lo, la⟩ := p
    cases lo <;> cases la <;>
      simp [Py.isFloatRows, Py.isFloatList, PyList.ofList, PyList.toList, pairRow, floatPairs, ih]

theorem rowsPairs_pairs (os : List (PyObj × PyObj)) :
    rowsPairs (PyList.ofList (os.map pairRow)) = floatPairs os := by
  induction os with
  | nil => rfl
  | cons p t ih =>
    obtain ⟨lo, la⟩ := p
    cases lo <;> cases la <;> simp [rowsPairs, PyList.ofList, pairRow, floatPairs, ih]

theorem isFloatList_eq : ∀ ms : PyList, Py.isFloatList ms = (floatList ms).isSome
  | .nil => rfl
  | .cons e rest => by
    have ih := isFloatList_eq rest
    cases e <;> simp [Py.isFloatList, floatList, ih]

theorem nparray_pairs (os : List (PyObj × PyObj)) :
    Py.obj_nparray (.list (PyList.ofList (os.map pairRow))) =
      if (floatPairs os).isSome then .ok (.ndarray (PyList.ofList (os.map pairRow))) else .error .other := by
  cases os with
  | nil => simp [Py.obj_nparray, Py.isFloatList, PyList.ofList, floatPairs]
  | cons p t =>
    have h := isFloatRows_pairs (p :: t)
    simp only [List.map_cons, PyList.ofList, pairRow] at h ⊢
    simp [Py.obj_nparray, Py.isFloatList, PyList.toList, h]

/-- what the model does after the generated part: an exception is carried over, the four arguments go through `fromOriginsArgs` -/
def fromDictTail : Except Py.ErrX (PyObj × PyObj × PyObj × PyObj) → Except RecErr Grid
  | .error e => .error (errRec e)
  | .ok a => fromOriginsArgs a

theorem getOrNone_eq (kvs : PyKVs) (s : String) : kvs.getOrNone s = (kvs.get s).getD .none := by
  unfold PyKVs.getOrNone; cases kvs.get s <;> rfl

/-- `CartesianGrid2D.from_dict(adict)`: unless the model says `unmodelled` or the object layer says `other` (numpy decides),
    the model's answer is the generated definition's exception, or `fromOriginsArgs` of its four results -/
theorem grid_from_dict_eq_model (d : PyObj) :
    Grid.fromDict d = .error .unmodelled ∨ Src.grid_from_dict d = .error .other ∨
      Grid.fromDict d = fromDictTail (Src.grid_from_dict d) := by
  cases d <;> try (right; right; simp [Src.grid_from_dict, Grid.fromDict, Py.obj_get, fromDictTail, errRec]; done)
  rename_i kvs
  simp only [Src.grid_from_dict, Grid.fromDict, Py.obj_get, getOrNone_eq]
  generalize (kvs.get "polygons").getD .none = origins
  generalize (kvs.get "dh").getD .none = dh
  generalize (kvs.get "magnitudes").getD .none = mags
  generalize kvs.get "name" = nameO
  by_cases ho : origins.isNone = true
  · right; right; simp [ho, fromDictTail, errRec]
  by_cases hd : dh.isNone = true
  · right; right; simp [ho, hd, fromDictTail, errRec]
  have ho' : origins.isNone = false := by simpa using ho
  have hd' : dh.isNone = false := by simpa using hd
  simp only [ho', hd', Bool.false_eq_true, if_false, Bool.not_false, if_true]
  cases origins
  case list ps =>
    have h := readPolys_mapE ps
    simp only [Py.obj_mapM, Py.obj_iter]
    generalize hm : Py.mapE _ ps.toList = M
    have hm' : Py.mapE polyRow ps.toList = M := hm
    rw [hm'] at h
    clear hm hm'
    cases hr : readPolys ps with
    | none =>
      simp only [hr] at h
      obtain ⟨e, he⟩ := h
      subst he
      cases e <;> simp [Py.tryRaise, fromDictTail, errRec]
    | some os =>
      simp only [hr] at h
      subst h
      simp only [nparray_pairs]
      cases hf : floatPairs os with
      | none => left; simp
      | some fs =>
        simp only [Option.isSome_some, if_true, Py.tryRaise]
        have hrows := rowsPairs_pairs os
        rw [hf] at hrows
        cases mags
        case none =>
          right; right
          simp only [PyObj.isNone, Bool.not_true, Bool.false_eq_true, if_false, fromDictTail, fromOriginsArgs, hrows]
          cases nameO with
          | none => cases dh <;> simp
          | some v => cases v <;> cases dh <;> simp
        case list ms =>
          cases hm : floatList ms with
          | none => left; simp [hm]
          | some xs =>
            right; right
            have hfl : Py.isFloatList ms = true := by rw [isFloatList_eq, hm]; rfl
            simp only [PyObj.isNone, Bool.not_false, if_true, Py.obj_nparray, hfl, fromDictTail, fromOriginsArgs, hrows, hm]
            cases nameO with
            | none => cases dh <;> simp
            | some v => cases v <;> cases dh <;> simp
        all_goals (left; simp; done)
  all_goals first
    | (left; simp; done)
    | (right; right; simp [Py.obj_mapM, Py.obj_iter, Py.tryRaise, fromDictTail, errRec]; done)
    | skip

def fpair (o : ResultJson.F64 × ResultJson.F64) : PyObj × PyObj := (.pyFloat o.1, .pyFloat o.2)

theorem mapE_polysOf (os : List (ResultJson.F64 × ResultJson.F64)) :
    Py.mapE polyRow (polysOf os).toList = .ok ((os.map fpair).map pairRow) := by
  induction os with
  | nil => rfl
  | cons o t ih =>
    simp [polysOf, polyDict, PyList.toList, Py.mapE, polyRow, Py.obj_item, PyKVs.ofList, PyKVs.get, ih, fpair, pairRow]

theorem floatPairs_fpair (os : List (ResultJson.F64 × ResultJson.F64)) : floatPairs (os.map fpair) = some os := by
  induction os with
  | nil => rfl
  | cons o t ih => simp [floatPairs, fpair, ih]

/-- on a dictionary written by `to_dict` the definition is defined: the float array of the origins, dh, no magnitudes,
    the printed name -/
theorem grid_from_dict_toDict (g : Grid) :
    Src.grid_from_dict g.toDict
      = .ok (.ndarray (PyList.ofList ((g.origins.map fpair).map pairRow)), .pyFloat g.dh, .none, .str (nameStr g.name)) := by
  have h := mapE_polysOf g.origins
  simp only [Src.grid_from_dict, Grid.toDict, Py.obj_get, Py.obj_mapM, Py.obj_iter]
  simp only [PyKVs.ofList, PyKVs.get, Key.kstr.injEq, String.reduceEq, if_true, if_false,
    Option.getD_some, Option.getD_none, PyObj.isNone, Bool.not_false, Bool.not_true, Bool.false_eq_true]
  generalize hm : Py.mapE _ (polysOf g.origins).toList = M
  have hm' : Py.mapE polyRow (polysOf g.origins).toList = M := hm
  rw [hm'] at h
  subst h
  simp only [nparray_pairs, floatPairs_fpair, Option.isSome_some, if_true, Py.tryRaise]
end Src
