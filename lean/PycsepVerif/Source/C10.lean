import PycsepVerif.GeneratedSrc
import PycsepVerif.Model.CatalogEvals
/-!
# Source tie of C10: `_compute_likelihood` (csep/utils/calc.py) generated from the Python source equals the hand model
(Model/CatalogEvals.lean `computeLikelihood`)

Specialisation: `gridded_data` a flat array of counts (naturals), `apprx_rate_density` a flat array of the real layer of the
same size (numpy raises IndexError on a boolean index of another size), `numpy.log` with `log 0 = -inf` explicit (`ELL`),
`numpy.nan` in the second component is `none`. Generic over `RealOps α`.
-/
namespace Src
open RealOps CatEvals
variable {α : Type} [RealOps α]

theorem esubFin_eq_ellMap (x : ELL α) (a : α) : Py.esubFin x a = ellMap (fun s => sub s a) x := by cases x <;> rfl
theorem edivFin_eq_ellMap (x : ELL α) (a : α) : Py.edivFin x a = ellMap (fun s => div s a) x := by cases x <;> rfl
theorem enatMul_eq_ellMap (w : Nat) (x : ELL α) : Py.enatMul w x = ellMap (mul (ofNat w)) x := by cases x <;> rfl

/-- `numpy.sum(gridded_data[idx] * numpy.log(rate[idx]))` with `idx = gridded_data != 0` is the model's `wlogSum` -/
theorem wlog_eq : ∀ (g : List Nat) (r : List α),
    List.zipWith (fun x_ y_ => Py.enatMul x_ y_) (Py.compress (List.map (fun x_ => decide (x_ ≠ 0)) g) g)
        (List.map (fun x_ => Py.elog x_) (Py.compress (List.map (fun x_ => decide (x_ ≠ 0)) g) r))
      = (List.zip g r).filterMap (fun p => if p.1 = 0 then none else some (ellMap (mul (ofNat p.1)) (ELL.log p.2)))
  | [], r => by simp [Py.compress]
  | x :: xs, [] => by simp [Py.compress]
  | x :: xs, y :: ys => by
    have ih := wlog_eq xs ys
    simp only [Py.compress] at ih ⊢
    by_cases hx : x = 0
    · simpa [hx] using ih
    · simpa [hx, enatMul_eq_ellMap, Py.elog] using ih

theorem compute_likelihood_eq_model (g : List Nat) (r : List α) (ecc : α) (nObs : Nat) (_h : g.length = r.length) :
    Src.compute_likelihood g r ecc nObs = computeLikelihood g r ecc nObs := by
  simp only [Src.compute_likelihood, computeLikelihood, wlogSum, wlog_eq, esubFin_eq_ellMap, edivFin_eq_ellMap, Py.esum, Py.rsum,
    Py.req, isZero, decide_eq_true_eq]
  rfl

/-- `cumulative_square_diff(cdf1, cdf2)` (csep/utils/stats.py:38) = the model's `cumulativeSquareDiff`, generic over `RealOps` -/
theorem cumulative_square_diff_eq_model (cdf1 cdf2 : List α) :
    Src.cumulative_square_diff cdf1 cdf2 = cumulativeSquareDiff cdf1 cdf2 := by
  simp only [Src.cumulative_square_diff, cumulativeSquareDiff, Py.rsum, Py.rsq, List.map_zipWith]
  rw [List.zipWith_comm]

end Src
