import PycsepVerif.GeneratedSrc
import PycsepVerif.Model.Region
import PycsepVerif.Model.RegionBuild
import PycsepVerif.Source.C02
/-!
# Source tie of C01: `CartesianGrid2D.get_index_of` and `CartesianGrid2D.get_masked` (csep/core/regions.py) generated from
the Python source equal the hand model's `Region.getIndexOf` / `Region.getMasked` (Model/Region.lean) with the float 1-D lookup

The hand model of C01 is at the exact layer: its 1-D lookup is `binE` (the exact meaning of `bin1d_vec`), and the round-off
band of the property says where the float code may differ. The code calls the float `bin1d_vec` (tied to `Bin1d.bin1dF` by
Source/C02.lean). The tie is therefore stated for the model's functions WITH THE LOOKUPS AS A PARAMETER (`getIndexOfL`,
`getMaskedL`, of which `Region.getIndexOf` / `Region.getMasked` are the instances at the exact lookups, by `rfl`):
the generated definitions are the instances at the float lookups `lookF` (−1 ↦ `none`).

Specialisation: `lons`, `lats` float64 arrays of one size (the two coordinates of `pts`); `self.xs`, `self.ys` float64 edge
arrays (non-empty, at most 2^53 edges); `self.bbox_mask`, `self.idx_map` 2-D float64 arrays given as lists of rows that
REPRESENT the model's grid `g` (`Represents`: entries 0 / 1 with 1 = masked; the entry of `idx_map` at an unmasked position
truncates to the polygon index; nan entries — masked, never read by `get_index_of` — are not representable and may be anything).
`ValueError` of `bin1d_vec` for decreasing edges is part of the statement.
-/
namespace Src
open Soft64 Bin1d Region

/-! ## the model with the lookups as a parameter -/

/-- `Region.getIndexOf` for given lookups -/
def getIndexOfL (g : Grid) (l : List (Option Nat × Option Nat)) : Except Outside (List Nat) :=
  if l.any (fun q => q.1.isNone || q.2.isNone) then .error .outside
  else if l.any (fun q => g.masked (q.2.getD 0) (q.1.getD 0)) then .error .outside
  else .ok (l.map (fun q => (g.idxAt (q.2.getD 0) (q.1.getD 0)).getD 0))

/-- `Region.getMasked` for given lookups -/
def getMaskedL (g : Grid) (l : List (Option Nat × Option Nat)) : List Bool :=
  l.map (fun q => if q.1.isNone || q.2.isNone then true else g.masked (q.2.getD 0) (q.1.getD 0))

/-- the hand model is the instance at the exact lookups -/
theorem model_getIndexOf (R : Region) (pts : List (Rat × Rat)) :
    R.getIndexOf pts = getIndexOfL R.grid (R.lookups pts) := rfl
theorem model_getMasked (R : Region) (pts : List (Rat × Rat)) :
    R.getMasked pts = getMaskedL R.grid (R.lookups pts) := rfl

/-- the 1-D lookup of the code: `bin1d_vec(x, edges)` in float64, closed mode; −1 is `none` -/
def lookF (edges : List Rat) (x : Rat) : Option Nat :=
  if bin1dF (cfg64 false) edges x = -1 then none else some (bin1dF (cfg64 false) edges x).toNat

/-- `idx = bin1d_vec(lons, xs); idy = bin1d_vec(lats, ys)` -/
def lookupsF (xs ys : List Rat) (pts : List (Rat × Rat)) : List (Option Nat × Option Nat) :=
  pts.map (fun p => (lookF xs p.1, lookF ys p.2))

/-- the arrays `bbox_mask`, `idx_map` (lists of rows) represent the model's grid on the `ny × nx` bounding box -/
structure Represents (g : Grid) (bbox idxm : List (List Rat)) (ny nx : Nat) : Prop where
  bin : ∀ r c, r < ny → c < nx → (bbox.getD r []).getD c 0 = 0 ∨ (bbox.getD r []).getD c 0 = 1
  mask : ∀ r c, r < ny → c < nx → ((bbox.getD r []).getD c 0 = 1 ↔ g.masked r c = true)
  idx : ∀ r c, r < ny → c < nx → g.masked r c = false →
    Py.truncF ((idxm.getD r []).getD c 0) = (((g.idxAt r c).getD 0 : Nat) : Int)

/-! ## list helpers -/

theorem zipWith_map_same {β γ δ ε : Type} (f : γ → δ → ε) (a : β → γ) (b : β → δ) (l : List β) :
    List.zipWith f (l.map a) (l.map b) = l.map (fun p => f (a p) (b p)) := by
  induction l with
  | nil => rfl
  | cons x xs ih => simp [ih]

theorem any_congr_mem {β : Type} {l : List β} {f g : β → Bool} (h : ∀ p ∈ l, f p = g p) : l.any f = l.any g := by
  induction l with
  | nil => rfl
  | cons x xs ih =>
    simp only [List.any_cons]
    rw [h x (by simp), ih (fun p hp => h p (by simp [hp]))]

theorem mapUniform_err {β γ : Type} [Inhabited β] [Inhabited γ] (f : β → Except Py.Err γ) (e : Py.Err)
    (h : ∀ x, f x = .error e) (a : List β) : Py.mapUniform f a = .error e := by
  simp only [Py.mapUniform, h]

theorem put_where_aux : ∀ (c : List Bool) (mask pre : List Bool), mask.length = c.length →
    (Py.whereIdxFrom pre.length c).foldl (fun acc i => acc.set i true) (pre ++ mask)
      = pre ++ List.zipWith (fun m b => b || m) mask c
  | [], mask, pre, h => by
    have : mask = [] := List.eq_nil_of_length_eq_zero (by simpa using h)
    subst this; simp [Py.whereIdxFrom]
  | b :: bs, [], pre, h => by simp at h
  | b :: bs, m :: ms, pre, h => by
    have hl : ms.length = bs.length := by simpa using h
    cases b with
    | false =>
      have := put_where_aux bs ms (pre ++ [m]) hl
      simp only [List.length_append, List.length_singleton, List.append_assoc, List.singleton_append] at this
      simp [Py.whereIdxFrom, this]
    | true =>
      have := put_where_aux bs ms (pre ++ [true]) hl
      simp only [List.length_append, List.length_singleton, List.append_assoc, List.singleton_append] at this
      simp [Py.whereIdxFrom, this]

/-- `mask[numpy.where(bad)] = True` -/
theorem put_where (mask c : List Bool) (h : mask.length = c.length) :
    Py.put mask (Py.whereIdx c) true = List.zipWith (fun m b => b || m) mask c := by
  have := put_where_aux c mask [] h
  simpa [Py.put, Py.whereIdx] using this

/-! ## one point -/

theorem bin1dF_range (edges : List Rat) (h : 0 < edges.length) (x : Rat) :
    -1 ≤ bin1dF (cfg64 false) edges x ∧ bin1dF (cfg64 false) edges x ≤ (edges.length : Int) - 1 :=
  Bin1d.clampIdx_range (cfg64 false).rc h (corrIdx (cfg64 false) edges.length (fun k => edges.getD k 0) x)

theorem getA_nonneg {β : Type} [Inhabited β] (l : List β) (i : Int) (h : 0 ≤ i) : Py.getA l i = l.getD i.toNat default := by
  simp [Py.getA, h]

/-- reading the arrays at the position the float lookups give, when both lookups succeed -/
theorem at_pos (bbox idxm : List (List Rat)) (xs ys : List Rat) (hx : 0 < xs.length) (hy : 0 < ys.length)
    (x y : Rat) (hi : bin1dF (cfg64 false) xs x ≠ -1) (hj : bin1dF (cfg64 false) ys y ≠ -1) :
    lookF xs x = some (bin1dF (cfg64 false) xs x).toNat ∧ lookF ys y = some (bin1dF (cfg64 false) ys y).toNat ∧
    (bin1dF (cfg64 false) xs x).toNat < xs.length ∧ (bin1dF (cfg64 false) ys y).toNat < ys.length ∧
    Py.getF (Py.getA bbox (bin1dF (cfg64 false) ys y)) (bin1dF (cfg64 false) xs x)
      = (bbox.getD (bin1dF (cfg64 false) ys y).toNat []).getD (bin1dF (cfg64 false) xs x).toNat 0 ∧
    Py.getF (Py.getA idxm (bin1dF (cfg64 false) ys y)) (bin1dF (cfg64 false) xs x)
      = (idxm.getD (bin1dF (cfg64 false) ys y).toNat []).getD (bin1dF (cfg64 false) xs x).toNat 0 := by
  have rx := bin1dF_range xs hx x
  have ry := bin1dF_range ys hy y
  have hi0 : 0 ≤ bin1dF (cfg64 false) xs x := by omega
  have hj0 : 0 ≤ bin1dF (cfg64 false) ys y := by omega
  refine ⟨by simp [lookF, hi], by simp [lookF, hj], by omega, by omega, ?_, ?_⟩
  · rw [getA_nonneg _ _ hj0, getF_nonneg _ _ hi0]; rfl
  · rw [getA_nonneg _ _ hj0, getF_nonneg _ _ hi0]; rfl

/-- one element of `get_masked`'s result -/
theorem masked_elem (g : Grid) (bbox idxm : List (List Rat)) (xs ys : List Rat)
    (hrep : Represents g bbox idxm ys.length xs.length) (hx : 0 < xs.length) (hy : 0 < ys.length) (x y : Rat) :
    ((decide (bin1dF (cfg64 false) xs x = -1) || decide (bin1dF (cfg64 false) ys y = -1)) ||
      decide (Py.getF (Py.getA bbox (bin1dF (cfg64 false) ys y)) (bin1dF (cfg64 false) xs x) ≠ (0 : Rat)))
    = (if (lookF xs x).isNone || (lookF ys y).isNone then true
       else g.masked ((lookF ys y).getD 0) ((lookF xs x).getD 0)) := by
  by_cases hi : bin1dF (cfg64 false) xs x = -1
  · simp [lookF, hi]
  · by_cases hj : bin1dF (cfg64 false) ys y = -1
    · simp [lookF, hj]
    · obtain ⟨e1, e2, b1, b2, e3, _⟩ := at_pos bbox idxm xs ys hx hy x y hi hj
      rw [e3, e1, e2]
      simp only [hi, hj, decide_false, Bool.or_self, Bool.false_or, Option.isNone_some, Bool.false_eq_true, ↓reduceIte,
        Option.getD_some]
      have hb := hrep.bin _ _ b2 b1
      have hm := hrep.mask _ _ b2 b1
      rcases hb with h0 | h1
      · rw [h0] at hm ⊢
        have : g.masked (bin1dF (cfg64 false) ys y).toNat (bin1dF (cfg64 false) xs x).toNat = false := by
          cases hg : g.masked (bin1dF (cfg64 false) ys y).toNat (bin1dF (cfg64 false) xs x).toNat
          · rfl
          · exact absurd (hm.mpr hg) (by norm_num)
        simp [this]
      · rw [h1] at hm ⊢
        simp [hm.mp rfl]


/-! ## `get_masked` -/

theorem bin1d_ok (edges : List Rat) (h2 : (edges.length : Int) ≤ 2 ^ 53)
    (hnn : ¬ hOf .f64 edges.length (fun k => edges.getD k 0) < 0) (p : Rat) :
    Src.bin1d_vec p edges false = .ok (bin1dF (cfg64 false) edges p) := by
  rw [bin1d_vec_eq_model p edges false h2, if_neg hnn]

theorem bin1d_err (edges : List Rat) (h2 : (edges.length : Int) ≤ 2 ^ 53)
    (hneg : hOf .f64 edges.length (fun k => edges.getD k 0) < 0) (p : Rat) :
    Src.bin1d_vec p edges false = .error .valueError := by
  rw [bin1d_vec_eq_model p edges false h2, if_pos hneg]

/-- **`get_masked(lons, lats)`**: ValueError iff one of the edge arrays has a negative float step (raised by `bin1d_vec`),
    otherwise the model's `getMasked` at the float lookups -/
theorem get_masked_eq_model (g : Grid) (pts : List (Rat × Rat)) (xs ys : List Rat) (bbox idxm : List (List Rat))
    (hx : 0 < xs.length) (hy : 0 < ys.length) (hx2 : (xs.length : Int) ≤ 2 ^ 53) (hy2 : (ys.length : Int) ≤ 2 ^ 53)
    (hrep : Represents g bbox idxm ys.length xs.length) :
    Src.get_masked (pts.map (·.1)) (pts.map (·.2)) xs ys bbox =
      if hOf .f64 xs.length (fun k => xs.getD k 0) < 0 ∨ hOf .f64 ys.length (fun k => ys.getD k 0) < 0
      then .error .valueError else .ok (getMaskedL g (lookupsF xs ys pts)) := by
  unfold Src.get_masked
  by_cases hnx : hOf .f64 xs.length (fun k => xs.getD k 0) < 0
  · simp only [mapUniform_err _ _ (bin1d_err xs hx2 hnx), hnx, true_or, ↓reduceIte]
  · by_cases hny : hOf .f64 ys.length (fun k => ys.getD k 0) < 0
    · simp only [mapUniform_ok _ _ (bin1d_ok xs hx2 hnx), mapUniform_err _ _ (bin1d_err ys hy2 hny), hny, or_true,
        ↓reduceIte]
    · simp only [mapUniform_ok _ _ (bin1d_ok xs hx2 hnx), mapUniform_ok _ _ (bin1d_ok ys hy2 hny), hnx, hny, or_self,
        ↓reduceIte, Py.get2, List.map_map, zipWith_map_same]
      congr 1
      rw [put_where _ _ (by simp), zipWith_map_same]
      simp only [getMaskedL, lookupsF, List.map_map]
      apply List.map_congr_left
      intro p _
      exact masked_elem g bbox idxm xs ys hrep hx hy p.1 p.2

/-! ## `get_index_of` -/

theorem any_or_any {β : Type} (l : List β) (f h : β → Bool) : (l.any f || l.any h) = l.any (fun p => f p || h p) := by
  induction l with
  | nil => rfl
  | cons x xs ih =>
    simp only [List.any_cons]
    rw [← ih]
    cases f x <;> cases h x <;> cases xs.any f <;> cases xs.any h <;> rfl

/-- **`get_index_of(lons, lats)`**: ValueError iff an edge array has a negative float step, or some point is outside the
    bounding box / in a masked cell (the model's `Outside`); otherwise the polygon indices the model returns -/
theorem get_index_of_eq_model (g : Grid) (pts : List (Rat × Rat)) (xs ys : List Rat) (bbox idxm : List (List Rat))
    (hx : 0 < xs.length) (hy : 0 < ys.length) (hx2 : (xs.length : Int) ≤ 2 ^ 53) (hy2 : (ys.length : Int) ≤ 2 ^ 53)
    (hrep : Represents g bbox idxm ys.length xs.length) :
    Src.get_index_of (pts.map (·.1)) (pts.map (·.2)) xs ys bbox idxm =
      if hOf .f64 xs.length (fun k => xs.getD k 0) < 0 ∨ hOf .f64 ys.length (fun k => ys.getD k 0) < 0
      then .error .valueError
      else match getIndexOfL g (lookupsF xs ys pts) with
        | .error _ => .error .valueError
        | .ok l => .ok (l.map (fun k => ((k : Nat) : Int))) := by
  unfold Src.get_index_of
  by_cases hnx : hOf .f64 xs.length (fun k => xs.getD k 0) < 0
  · simp only [mapUniform_err _ _ (bin1d_err xs hx2 hnx), hnx, true_or, ↓reduceIte]
  · by_cases hny : hOf .f64 ys.length (fun k => ys.getD k 0) < 0
    · simp only [mapUniform_ok _ _ (bin1d_ok xs hx2 hnx), mapUniform_err _ _ (bin1d_err ys hy2 hny), hny, or_true,
        ↓reduceIte]
    · simp only [mapUniform_ok _ _ (bin1d_ok xs hx2 hnx), mapUniform_ok _ _ (bin1d_ok ys hy2 hny), hnx, hny, or_self,
        ↓reduceIte, Py.get2, List.map_map, zipWith_map_same, Py.np_any, List.any_map, any_or_any]
      unfold getIndexOfL lookupsF
      simp only [List.any_map, List.map_map]
      have hbad : pts.any (fun p => ((fun b => b) ∘ (fun x_ => decide (x_ = (-1 : Int))) ∘
            (fun x => bin1dF (cfg64 false) xs x) ∘ fun x => x.1) p ||
          ((fun b => b) ∘ (fun x_ => decide (x_ = (-1 : Int))) ∘ (fun x => bin1dF (cfg64 false) ys x) ∘ fun x => x.2) p)
          = pts.any ((fun q : Option Nat × Option Nat => q.1.isNone || q.2.isNone) ∘ fun p => (lookF xs p.1, lookF ys p.2)) := by
        apply any_congr_mem
        intro p _
        simp only [Function.comp, lookF]
        by_cases hi : bin1dF (cfg64 false) xs p.1 = -1 <;> by_cases hj : bin1dF (cfg64 false) ys p.2 = -1 <;> simp [hi, hj]
      rw [hbad]
      by_cases hb : pts.any ((fun q : Option Nat × Option Nat => q.1.isNone || q.2.isNone) ∘
          fun p => (lookF xs p.1, lookF ys p.2)) = true
      · simp only [hb, ↓reduceIte]
      · simp only [hb, Bool.false_eq_true, ↓reduceIte]
        -- no point is outside the bounding box: every lookup succeeds
        have hok : ∀ p ∈ pts, bin1dF (cfg64 false) xs p.1 ≠ -1 ∧ bin1dF (cfg64 false) ys p.2 ≠ -1 := by
          intro p hp
          have : ¬ (((fun q : Option Nat × Option Nat => q.1.isNone || q.2.isNone) ∘
              fun p => (lookF xs p.1, lookF ys p.2)) p = true) := fun h => hb (List.any_eq_true.mpr ⟨p, hp, h⟩)
          simp only [Function.comp, lookF] at this
          by_cases hi : bin1dF (cfg64 false) xs p.1 = -1
          · simp [hi] at this
          · by_cases hj : bin1dF (cfg64 false) ys p.2 = -1
            · simp [hj] at this
            · exact ⟨hi, hj⟩
        have hmask : pts.any ((fun b => b) ∘ (fun x_ => decide (x_ = (1 : Rat))) ∘ fun p =>
              Py.getF (Py.getA bbox (((fun x => bin1dF (cfg64 false) ys x) ∘ fun x => x.2) p))
                (((fun x => bin1dF (cfg64 false) xs x) ∘ fun x => x.1) p))
            = pts.any ((fun q : Option Nat × Option Nat => g.masked (q.2.getD 0) (q.1.getD 0)) ∘
              fun p => (lookF xs p.1, lookF ys p.2)) := by
          apply any_congr_mem
          intro p hp
          obtain ⟨hi, hj⟩ := hok p hp
          obtain ⟨e1, e2, b1, b2, e3, _⟩ := at_pos bbox idxm xs ys hx hy p.1 p.2 hi hj
          simp only [Function.comp, e1, e2, Option.getD_some]
          have hm : Py.getF (Py.getA bbox (bin1dF (cfg64 false) ys p.2)) (bin1dF (cfg64 false) xs p.1) = 1 ↔
              g.masked (bin1dF (cfg64 false) ys p.2).toNat (bin1dF (cfg64 false) xs p.1).toNat = true := by
            rw [e3]; exact hrep.mask _ _ b2 b1
          show decide (Py.getF (Py.getA bbox (bin1dF (cfg64 false) ys p.2)) (bin1dF (cfg64 false) xs p.1) = 1) = _
          cases hg : g.masked (bin1dF (cfg64 false) ys p.2).toNat (bin1dF (cfg64 false) xs p.1).toNat
          · exact decide_eq_false (fun h => by rw [hm.mp h] at hg; cases hg)
          · exact decide_eq_true (hm.mpr hg)
        rw [hmask]
        by_cases hmk : pts.any ((fun q : Option Nat × Option Nat => g.masked (q.2.getD 0) (q.1.getD 0)) ∘
            fun p => (lookF xs p.1, lookF ys p.2)) = true
        · simp only [hmk, ↓reduceIte]
        · simp only [hmk, Bool.false_eq_true, ↓reduceIte, List.map_map]
          congr 1
          apply List.map_congr_left
          intro p hp
          obtain ⟨hi, hj⟩ := hok p hp
          obtain ⟨e1, e2, b1, b2, _, e4⟩ := at_pos bbox idxm xs ys hx hy p.1 p.2 hi hj
          have hnm : g.masked (bin1dF (cfg64 false) ys p.2).toNat (bin1dF (cfg64 false) xs p.1).toNat = false := by
            cases hg : g.masked (bin1dF (cfg64 false) ys p.2).toNat (bin1dF (cfg64 false) xs p.1).toNat
            · rfl
            · exfalso; apply hmk
              exact List.any_eq_true.mpr ⟨p, hp, by simp only [Function.comp, e1, e2, Option.getD_some]; exact hg⟩
          simp only [Function.comp, e4, e1, e2, Option.getD_some]
          exact hrep.idx _ _ b2 b1 hnm

/-- non-vacuity: the arrays `_build_bitmask_vec` makes for a one-cell region represent the model's grid -/
example : Represents (build [⟨0, 0, true⟩]) [[0]] [[0]] 1 1 := by
  constructor
  · intro r c hr hc
    obtain rfl : r = 0 := by omega
    obtain rfl : c = 0 := by omega
    left; rfl
  · intro r c hr hc
    obtain rfl : r = 0 := by omega
    obtain rfl : c = 0 := by omega
    decide
  · intro r c hr hc _
    obtain rfl : r = 0 := by omega
    obtain rfl : c = 0 := by omega
    decide

/-! ## `compute_vertex` (regions.py:446) -/

/-- the four vertices, in the order of the tuple, are the model's `computeVertex` (float64 coordinates, spacing and tol) -/
theorem compute_vertex_eq_model (o : Rat × Rat) (dh tol : Rat) :
    (let r := Src.compute_vertex o dh tol; [r.1, r.2.1, r.2.2.1, r.2.2.2]) = computeVertex o dh tol := rfl

end Src
