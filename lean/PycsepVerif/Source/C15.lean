import PycsepVerif.GeneratedSrc
import PycsepVerif.Model.Time
import PycsepVerif.Model.TimeExt
import Mathlib.Data.Rat.Floor
import PycsepVerif.Proofs.DecYear
import PycsepVerif.Proofs.Soft64Round
/-!
# Source tie of C15: the definitions generated from csep/utils/time_utils.py equal the hand model (Model/Time.lean)

`Src.*` is regenerated from the Python source on every run (harness/py2lean.py); these theorems are re-checked then.
-/
namespace Src
open Soft64

/-- the tz tag of the prelude's datetime as the model's tag -/
def toTz : Py.Tz → Time.Tz
  | .naive => .naive | .utc => .utc | .other => .other

/-- the model's `Option` (none = ValueError) as the generated definition's `Except` -/
def ofOpt {β : Type} : Option β → Except Py.Err β
  | some v => .ok v
  | none => .error .valueError

theorem mkEpoch : (Py.mkDatetime 1970 1 1 0 0 0 0).us = 0 := by decide +kernel

/-- `datetime_to_utc_epoch(dt)` for every datetime (naive, UTC, other tz): the generated definition is the model -/
theorem datetime_to_utc_epoch_eq_model (dt : Py.Datetime) :
    Src.datetime_to_utc_epoch dt = ofOpt (Time.datetimeToUtcEpoch (toTz dt.tz) dt.us) := by
  obtain ⟨us, tz⟩ := dt
  have h0 := mkEpoch
  cases tz <;>
    simp [Src.datetime_to_utc_epoch, Time.datetimeToUtcEpoch, Time.dtToMs, toTz, ofOpt, Py.Datetime.tzIsNone,
      Py.Datetime.tzStrIsUTC, Py.Datetime.replaceUtc, Py.Datetime.sub, Py.tdDays, Py.tdSeconds, Py.tdMicroseconds,
      Py.floorDiv, h0, Time.usPerDay] <;>
    (rw [Int.fdiv_eq_ediv_of_nonneg _ (by decide)]; omega)

/-- `epoch_time_to_utc_datetime(ms)` (non-Windows branch) for every integer `ms` -/
theorem epoch_time_to_utc_datetime_eq_model (ms : Int) :
    Src.epoch_time_to_utc_datetime ms = { us := Time.toDatetime ms, tz := .utc } := by
  simp [Src.epoch_time_to_utc_datetime, Py.fromtimestampUtc, Py.intTrueDiv, Time.toDatetime, Time.msToSecF]


/-! ### decimal_year -/

theorem micro_lit : ((4722366482869645 : Rat) / 4722366482869645213696) = fl64 (1 / 1000000) := by decide +kernel

theorem i2f_small {n : Int} (h : |n| ≤ 2 ^ 53) : Py.i2f n = (n : Rat) := Soft64R.fl64_intCast h

theorem range_sum (y m : Int) :
    Py.sumInt (List.map (fun i => Py.monthrangeDays y i) (Py.range 1 m)) = Time.daysBeforeMonth y m := by
  have e : (m - 1).toNat = m.toNat - 1 := by omega
  simp only [Py.sumInt, Py.range, Time.daysBeforeMonth, Py.monthrangeDays, List.map_map, e]
  congr 2
  funext k
  simp [Function.comp, Int.add_comm]

/-- `decimal_year(dt)`: the generated definition is the model, for every datetime whose year converts exactly to float64
    (|year| ≤ 2^53; CPython's range is 1..9999) -/
theorem decimal_year_eq_model (dt : Py.Datetime) (hy : |(Time.fields dt.us).year| ≤ 2 ^ 53) :
    Src.decimal_year dt = Time.decimalYear dt.us := by
  obtain ⟨us, tz⟩ := dt
  simp only at hy
  have hv := Time.civil_valid (us / Time.usPerDay)
  have hd := Time.dayOfYear_lt _ _ _ hv
  have hr0 : 0 ≤ us % Time.usPerDay := Int.emod_nonneg _ (by decide)
  have hr1 : us % Time.usPerDay < Time.usPerDay := Int.emod_lt_of_pos _ (by decide)
  simp only [Time.usPerDay] at hr0 hr1 hd hv
  have hday : |(Time.fields us).day - 1 + Time.daysBeforeMonth (Time.fields us).year (Time.fields us).month| ≤ 2 ^ 53 := by
    simp only [Time.fields, Time.usPerDay]
    have := Time.yearLen_cases (Time.civilFromDays (us / 86400000000)).1
    rw [abs_le]; constructor <;> omega
  have hh : |(Time.fields us).hour| ≤ 2 ^ 53 := by
    simp only [Time.fields, Time.usPerDay]; rw [abs_le]; constructor <;> omega
  have hm : |(Time.fields us).minute| ≤ 2 ^ 53 := by
    simp only [Time.fields, Time.usPerDay]; rw [abs_le]; constructor <;> omega
  have hs : |(Time.fields us).second| ≤ 2 ^ 53 := by
    simp only [Time.fields, Time.usPerDay]; rw [abs_le]; constructor <;> omega
  have hu : |(Time.fields us).micro| ≤ 2 ^ 53 := by
    simp only [Time.fields, Time.usPerDay]; rw [abs_le]; constructor <;> omega
  simp only [Src.decimal_year, Time.decimalYear, Py.Datetime.year, Py.Datetime.month, Py.Datetime.day, Py.Datetime.hour,
    Py.Datetime.minute, Py.Datetime.second, Py.Datetime.microsecond, Py.isleap, range_sum, micro_lit,
    i2f_small hy, i2f_small hday, i2f_small hh, i2f_small hm, i2f_small hs, i2f_small hu]
  have ec : (Time.fields us).day - 1 + Time.daysBeforeMonth (Time.fields us).year (Time.fields us).month
      = Time.daysBeforeMonth (Time.fields us).year (Time.fields us).month + ((Time.fields us).day - 1) := by omega
  rw [ec]
  split <;> rename_i h <;> simp [h]

/-! ## round 4: days ↔ milliseconds, `timedelta_from_years`, decimal year → datetime / epoch -/

/-- `millis_to_days(millis)` for an integer argument: two true divisions -/
theorem millis_to_days_eq_model (ms : Int) : Src.millis_to_days ms = Time.millisToDays ms := by
  simp [Src.millis_to_days, Time.millisToDays, Py.intTrueDiv]

/-- `days_to_millis(days)` for a float argument: two float products -/
theorem days_to_millis_f_eq_model (d : Rat) : Src.days_to_millis_f d = Time.daysToMillisF d := rfl

/-- `days_to_millis(days)` for an `int` argument: exact -/
theorem days_to_millis_i_eq_model (d : Int) : Src.days_to_millis_i d = Time.daysToMillisI d := by
  simp only [Src.days_to_millis_i, Time.daysToMillisI]; ring

/-- `timedelta_from_years(y)` (float): ValueError iff negative, else CPython's `timedelta(seconds=31557600 * y)` -/
theorem timedelta_from_years_eq_model (y : Rat) :
    Src.timedelta_from_years y = match Time.timedeltaFromYears y with | none => .error .valueError | some td => .ok td := by
  unfold Src.timedelta_from_years Time.timedeltaFromYears
  by_cases h : y < 0 <;> simp [h, Py.timedeltaOfSecondsF]

theorem floor_floor (d : Rat) : (((d.floor : Int) : Rat)).floor = d.floor := by
  show ⌊((⌊d⌋ : Int) : Rat)⌋ = ⌊d⌋
  exact Int.floor_intCast _

theorem truncF_int (k : Int) : Py.truncF (k : Rat) = k := by
  unfold Py.truncF
  by_cases hk : (0 : Rat) ≤ k
  · simp only [hk, if_true]; show ⌊(k : Rat)⌋ = k; exact Int.floor_intCast _
  · simp only [hk, if_false]
    have : (-(k : Rat)).floor = -k := by
      show ⌊-(k : Rat)⌋ = -k
      rw [← Int.cast_neg, Int.floor_intCast]
    rw [this]; ring

/-- `decimal_year_to_utc_datetime(d)` (float): a UTC datetime whose microsecond count is the model's -/
theorem decimal_year_to_utc_datetime_eq_model (d : Rat) :
    Src.decimal_year_to_utc_datetime d = { us := Time.decimalYearToDatetime d, tz := .utc } := by
  have hleap : Py.isleapF (Py.np_floor d) = Time.isLeap d.floor := by
    simp only [Py.isleapF, Py.np_floor, ffloor, floor_floor]
  have htr : Py.truncF (Py.np_floor d) = d.floor := by
    simp only [Py.np_floor, ffloor]; exact truncF_int _
  have hmk : (Py.mkDatetime d.floor 1 1 0 0 0 0).us = Time.daysFromCivil d.floor 1 1 * Time.usPerDay := by
    simp [Py.mkDatetime, Time.ofFields]
  have hnd : (if Time.isLeap d.floor = true then (366 : Rat) else 365) = (if Time.isLeap d.floor then (366 : Rat) else 365) := rfl
  simp only [Src.decimal_year_to_utc_datetime, hleap, htr, Py.Datetime.replaceUtc, Py.Datetime.addTd, hmk,
    Py.timedeltaOfMicrosecondsF, Py.fmod1, Time.decimalYearToDatetime]

/-- `decimal_year_to_utc_epoch(d)`: never raises (the datetime is UTC), the model's epoch milliseconds -/
theorem decimal_year_to_utc_epoch_eq_model (d : Rat) :
    Src.decimal_year_to_utc_epoch d = .ok (Time.decimalYearToEpoch d) := by
  simp only [Src.decimal_year_to_utc_epoch, decimal_year_to_utc_datetime_eq_model, datetime_to_utc_epoch_eq_model,
    Time.decimalYearToEpoch]
  rfl

/-! ## round 4: time strings — `parse_string_format`, `strptime_to_utc_datetime`, `strptime_to_utc_epoch`

A string is the list of its characters. `datetime.strptime` is the prelude's `Py.strptimeUtc` (CPython's strptime as modelled
by `Time.strptimeFields`, for the formats `%Y-%m-%d<sep>%H:%M:%S[.%f][%z]`). Strings shorter than six characters, where Python
raises IndexError at `time_string[-6]`, are outside the specialisation (indexing is not bounds-checked). -/

/-- the default value of the `format` argument -/
def defaultFormat : List Char := Py.fmtText ⟨' ', true, false⟩

theorem strAt_neg6 (s : List Char) (h : 6 ≤ s.length) : Py.strAt? s (-6) = s[s.length - 6]? := by
  unfold Py.strAt?
  have h1 : ¬ (0 : Int) ≤ -6 := by omega
  have h2 : (0 : Int) ≤ (s.length : Int) + -6 := by omega
  have h3 : ((s.length : Int) + -6).toNat = s.length - 6 := by omega
  simp only [h1, h2, h3, if_true, if_false]

/-- `parse_string_format(time_string)`: the text of the format the model sniffs -/
theorem parse_string_format_eq_model (s : List Char) (f : Time.Format) (h : Time.parseStringFormat s = some f) :
    Src.parse_string_format s = Py.fmtText f := by
  unfold Time.parseStringFormat at h
  by_cases hl : s.length < 6
  · simp [hl] at h
  · simp only [hl, if_false, Option.some.injEq] at h
    subst h
    simp only [Src.parse_string_format, strAt_neg6 s (by omega), Py.fmtText]
    by_cases h1 : '.' ∈ s <;> by_cases h2 : (s[s.length - 6]? == some '+') = true <;> simp [h1, h2]

theorem find_known (f : Time.Format) (hf : f.sep = ' ' ∨ f.sep = 'T') :
    Py.knownFormats.find? (fun g => Py.fmtText g == Py.fmtText f) = some f := by
  obtain ⟨sep, frac, zone⟩ := f
  simp only at hf
  rcases hf with rfl | rfl <;> cases frac <;> cases zone <;> decide

theorem strptimeUtc_known (s : List Char) (f : Time.Format) (hf : f.sep = ' ' ∨ f.sep = 'T') :
    Py.strptimeUtc s (Py.fmtText f) = match Time.strptimeWith f s with
      | some us => .ok { us := us, tz := .utc } | none => .error .valueError := by
  cases hw : Time.strptimeWith f s <;> simp [Py.strptimeUtc, find_known f hf, hw]

theorem parse_sep (s : List Char) (f : Time.Format) (h : Time.parseStringFormat s = some f) : f.sep = ' ' := by
  unfold Time.parseStringFormat at h
  by_cases hl : s.length < 6
  · simp [hl] at h
  · simp only [hl, if_false, Option.some.injEq] at h; subst h; rfl

/-- `strptime_to_utc_datetime(time_string)` with the default format: the model's sniffing + strptime, labelled UTC -/
theorem strptime_to_utc_datetime_eq_model (s : List Char) (h : 6 ≤ s.length) :
    Src.strptime_to_utc_datetime s defaultFormat = match Time.strptimeToUtcDatetime s with
      | some us => .ok { us := us, tz := .utc } | none => .error .valueError := by
  obtain ⟨f, hf⟩ : ∃ f, Time.parseStringFormat s = some f := by
    unfold Time.parseStringFormat; simp [show ¬ s.length < 6 by omega]
  have hd : (decide (defaultFormat = (['%', 'Y', '-', '%', 'm', '-', '%', 'd', ' ', '%', 'H', ':', '%', 'M', ':', '%', 'S', '.', '%', 'f'] : List Char))) = true := by decide
  simp only [Src.strptime_to_utc_datetime, hd, if_true, parse_string_format_eq_model s f hf,
    strptimeUtc_known s f (Or.inl (parse_sep s f hf)), Time.strptimeToUtcDatetime, hf]
  cases hw : Time.strptimeWith f s <;> simp [hw]

/-- with an explicit format (one of the modelled ones, not the default text): no sniffing -/
theorem strptime_to_utc_datetime_explicit (s : List Char) (f : Time.Format) (hf : f.sep = ' ' ∨ f.sep = 'T')
    (hne : Py.fmtText f ≠ defaultFormat) :
    Src.strptime_to_utc_datetime s (Py.fmtText f) = match Time.strptimeExplicitDatetime f s with
      | some us => .ok { us := us, tz := .utc } | none => .error .valueError := by
  have hd : (decide (Py.fmtText f = (['%', 'Y', '-', '%', 'm', '-', '%', 'd', ' ', '%', 'H', ':', '%', 'M', ':', '%', 'S', '.', '%', 'f'] : List Char))) = false := by
    simpa [defaultFormat, Py.fmtText] using hne
  simp only [Src.strptime_to_utc_datetime, hd, Bool.false_eq_true, if_false, strptimeUtc_known s f hf,
    Time.strptimeExplicitDatetime]
  cases hw : Time.strptimeWith f s <;> simp [hw]

theorem epoch_of_utc (us : Int) : Src.datetime_to_utc_epoch { us := us, tz := .utc } = .ok (Time.dtToMs us) := by
  rw [datetime_to_utc_epoch_eq_model]; rfl

/-- `strptime_to_utc_epoch(time_string)` with the default format -/
theorem strptime_to_utc_epoch_eq_model (s : List Char) (h : 6 ≤ s.length) :
    Src.strptime_to_utc_epoch s defaultFormat = match Time.strptimeToUtcEpoch s with
      | some ms => .ok ms | none => .error .valueError := by
  obtain ⟨f, hf⟩ : ∃ f, Time.parseStringFormat s = some f := by
    unfold Time.parseStringFormat; simp [show ¬ s.length < 6 by omega]
  have hsep := parse_sep s f hf
  have hd : (decide (defaultFormat = (['%', 'Y', '-', '%', 'm', '-', '%', 'd', ' ', '%', 'H', ':', '%', 'M', ':', '%', 'S', '.', '%', 'f'] : List Char))) = true := by decide
  simp only [Src.strptime_to_utc_epoch, hd, if_true, parse_string_format_eq_model s f hf]
  -- the inner call sniffs again when the sniffed format is the default text; the result is the same format
  have hinner : Src.strptime_to_utc_datetime s (Py.fmtText f) = match Time.strptimeWith f s with
      | some us => .ok { us := us, tz := .utc } | none => .error .valueError := by
    by_cases hdef : Py.fmtText f = defaultFormat
    · rw [hdef, strptime_to_utc_datetime_eq_model s h]
      simp only [Time.strptimeToUtcDatetime, hf]
      cases hw : Time.strptimeWith f s <;> simp [hw]
    · rw [strptime_to_utc_datetime_explicit s f (Or.inl hsep) hdef]; rfl
  rw [hinner]
  simp only [Time.strptimeToUtcEpoch, Time.strptimeToUtcDatetime, hf]
  cases hw : Time.strptimeWith f s <;> simp [hw, epoch_of_utc]

/-- `strptime_to_utc_epoch(s, format=fmt)` with an explicit modelled format (not the default text): no sniffing -/
theorem strptime_to_utc_epoch_explicit (s : List Char) (f : Time.Format) (hf : f.sep = ' ' ∨ f.sep = 'T')
    (hne : Py.fmtText f ≠ defaultFormat) :
    Src.strptime_to_utc_epoch s (Py.fmtText f) = match Time.strptimeExplicitEpoch f s with
      | some ms => .ok ms | none => .error .valueError := by
  have hd : (decide (Py.fmtText f = (['%', 'Y', '-', '%', 'm', '-', '%', 'd', ' ', '%', 'H', ':', '%', 'M', ':', '%', 'S', '.', '%', 'f'] : List Char))) = false := by
    simpa [defaultFormat, Py.fmtText] using hne
  simp only [Src.strptime_to_utc_epoch, hd, Bool.false_eq_true, if_false, strptime_to_utc_datetime_explicit s f hf hne,
    Time.strptimeExplicitDatetime, Time.strptimeExplicitEpoch]
  cases hw : Time.strptimeWith f s <;> simp [hw, epoch_of_utc]

end Src
