import PycsepVerif.GeneratedSrc
import PycsepVerif.Model.Time
import PycsepVerif.Proofs.DecYear
import PycsepVerif.Proofs.Soft64Round
/-!
# Source tie of C15: the definitions generated from csep/utils/time_utils.py equal the hand model (Model/Time.lean)

`Src.*` is regenerated from the Python source on every run (harness/py2lean.py); these theorems are re-checked then.
-/
namespace Src
open Soft64

/-- the tz tag of the prelude's datetime as the model's tag -/
def toTz : Py.Tz → Time.Tz
  | .naive => .naive | .utc => .utc | .other => .other

/-- the model's `Option` (none = ValueError) as the generated definition's `Except` -/
def ofOpt {β : Type} : Option β → Except Py.Err β
  | some v => .ok v
  | none => .error .valueError

theorem mkEpoch : (Py.mkDatetime 1970 1 1 0 0 0 0).us = 0 := by decide +kernel

/-- `datetime_to_utc_epoch(dt)` for every datetime (naive, UTC, other tz): the generated definition is the model -/
theorem datetime_to_utc_epoch_eq_model (dt : Py.Datetime) :
    Src.datetime_to_utc_epoch dt = ofOpt (Time.datetimeToUtcEpoch (toTz dt.tz) dt.us) := by
  obtain ⟨us, tz⟩ := dt
  have h0 := mkEpoch
  cases tz <;>
    simp [Src.datetime_to_utc_epoch, Time.datetimeToUtcEpoch, Time.dtToMs, toTz, ofOpt, Py.Datetime.tzIsNone,
      Py.Datetime.tzStrIsUTC, Py.Datetime.replaceUtc, Py.Datetime.sub, Py.tdDays, Py.tdSeconds, Py.tdMicroseconds,
      Py.floorDiv, h0, Time.usPerDay] <;>
    (rw [Int.fdiv_eq_ediv_of_nonneg _ (by decide)]; omega)

/-- `epoch_time_to_utc_datetime(ms)` (non-Windows branch) for every integer `ms` -/
theorem epoch_time_to_utc_datetime_eq_model (ms : Int) :
    Src.epoch_time_to_utc_datetime ms = { us := Time.toDatetime ms, tz := .utc } := by
  simp [Src.epoch_time_to_utc_datetime, Py.fromtimestampUtc, Py.intTrueDiv, Time.toDatetime, Time.msToSecF]


/-! ### decimal_year -/

theorem micro_lit : ((4722366482869645 : Rat) / 4722366482869645213696) = fl64 (1 / 1000000) := by decide +kernel

theorem i2f_small {n : Int} (h : |n| ≤ 2 ^ 53) : Py.i2f n = (n : Rat) := Soft64R.fl64_intCast h

theorem range_sum (y m : Int) :
    Py.sumInt (List.map (fun i => Py.monthrangeDays y i) (Py.range 1 m)) = Time.daysBeforeMonth y m := by
  have e : (m - 1).toNat = m.toNat - 1 := by omega
  simp only [Py.sumInt, Py.range, Time.daysBeforeMonth, Py.monthrangeDays, List.map_map, e]
  congr 2
  funext k
  simp [Function.comp, Int.add_comm]

/-- `decimal_year(dt)`: the generated definition is the model, for every datetime whose year converts exactly to float64
    (|year| ≤ 2^53; CPython's range is 1..9999) -/
theorem decimal_year_eq_model (dt : Py.Datetime) (hy : |(Time.fields dt.us).year| ≤ 2 ^ 53) :
    Src.decimal_year dt = Time.decimalYear dt.us := by
  obtain ⟨us, tz⟩ := dt
  simp only at hy
  have hv := Time.civil_valid (us / Time.usPerDay)
  have hd := Time.dayOfYear_lt _ _ _ hv
  have hr0 : 0 ≤ us % Time.usPerDay := Int.emod_nonneg _ (by decide)
  have hr1 : us % Time.usPerDay < Time.usPerDay := Int.emod_lt_of_pos _ (by decide)
  simp only [Time.usPerDay] at hr0 hr1 hd hv
  have hday : |(Time.fields us).day - 1 + Time.daysBeforeMonth (Time.fields us).year (Time.fields us).month| ≤ 2 ^ 53 := by
    simp only [Time.fields, Time.usPerDay]
    have := Time.yearLen_cases (Time.civilFromDays (us / 86400000000)).1
    rw [abs_le]; constructor <;> omega
  have hh : |(Time.fields us).hour| ≤ 2 ^ 53 := by
    simp only [Time.fields, Time.usPerDay]; rw [abs_le]; constructor <;> omega
  have hm : |(Time.fields us).minute| ≤ 2 ^ 53 := by
    simp only [Time.fields, Time.usPerDay]; rw [abs_le]; constructor <;> omega
  have hs : |(Time.fields us).second| ≤ 2 ^ 53 := by
    simp only [Time.fields, Time.usPerDay]; rw [abs_le]; constructor <;> omega
  have hu : |(Time.fields us).micro| ≤ 2 ^ 53 := by
    simp only [Time.fields, Time.usPerDay]; rw [abs_le]; constructor <;> omega
  simp only [Src.decimal_year, Time.decimalYear, Py.Datetime.year, Py.Datetime.month, Py.Datetime.day, Py.Datetime.hour,
    Py.Datetime.minute, Py.Datetime.second, Py.Datetime.microsecond, Py.isleap, range_sum, micro_lit,
    i2f_small hy, i2f_small hday, i2f_small hh, i2f_small hm, i2f_small hs, i2f_small hu]
  have ec : (Time.fields us).day - 1 + Time.daysBeforeMonth (Time.fields us).year (Time.fields us).month
      = Time.daysBeforeMonth (Time.fields us).year (Time.fields us).month + ((Time.fields us).day - 1) := by omega
  rw [ec]
  split <;> rename_i h <;> simp [h]

end Src
