import PycsepVerif.Model.Filter

/-! Helper lemmas for C04 (core Lean only). -/
namespace CatFilter

/-- every statement of the list holds for the event -/
def allHold (ss : List Stmt) (e : Event) : Bool := ss.all (fun s => s.holds e)

theorem filterList_nil (es : List Event) : filterList [] es = es := rfl

theorem filterList_cons (s : Stmt) (ss : List Stmt) (es : List Event) :
    filterList (s :: ss) es = filterList ss (filterOne s es) := rfl

/-- the sequential loop is one pass with the conjunction of all masks -/
theorem filterList_eq_filter (ss : List Stmt) (es : List Event) :
    filterList ss es = es.filter (allHold ss) := by
  induction ss generalizing es with
  | nil =>
    have : allHold [] = fun _ => true := by funext e; simp [allHold]
    rw [filterList_nil, this]
    exact (List.filter_eq_self.mpr (fun _ _ => rfl)).symm
  | cons s ss ih =>
    rw [filterList_cons, ih, filterOne, List.filter_filter]
    congr 1
    funext e
    simp [allHold, Bool.and_comm]

theorem allHold_append (ss ts : List Stmt) (e : Event) :
    allHold (ss ++ ts) e = (allHold ss e && allHold ts e) := by
  simp [allHold]

theorem allHold_perm {ss ts : List Stmt} (h : ss.Perm ts) (e : Event) : allHold ss e = allHold ts e := by
  unfold allHold
  rw [Bool.eq_iff_iff, List.all_eq_true, List.all_eq_true]
  constructor
  · intro H x hx; exact H x (h.mem_iff.mpr hx)
  · intro H x hx; exact H x (h.mem_iff.mp hx)

theorem filter_filter_self {α} (p : α → Bool) (l : List α) : (l.filter p).filter p = l.filter p := by
  rw [List.filter_filter]; congr 1; funext a; simp

theorem count_filter_eq {α} [DecidableEq α] (p : α → Bool) (l : List α) (e : α) :
    (l.filter p).count e = if p e then l.count e else 0 := by
  induction l with
  | nil => simp
  | cons a l ih =>
    by_cases hae : a = e
    · subst hae
      cases hp : p a <;> simp [hp] at ih ⊢ <;> exact ih
    · have hne : (a == e) = false := by simpa using hae
      cases hp : p a <;> simp [hp, ih, List.count_cons, hne]

end CatFilter
