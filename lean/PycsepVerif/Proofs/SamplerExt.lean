import PycsepVerif.Proofs.Sampler
import Mathlib.Data.Finset.Card

/-! More lemmas about `Model/Sampler.lean` (C06, round 4): the simulated array entry by entry, totality of a whole
    injected test, the rejection loop's termination criterion. -/
namespace Sampler
open Soft64

theorem getD_modify_succ (arr : List Nat) (i k : Nat) (hi : i < arr.length) :
    (arr.modify i (· + 1)).getD k 0 = arr.getD k 0 + (if i = k then 1 else 0) := by
  simp only [List.getD_eq_getElem?_getD, List.getElem?_modify]
  by_cases h : i = k
  · subst h
    simp [List.getElem?_eq_getElem hi]
  · simp only [h, ↓reduceIte, Nat.add_zero]
    cases arr[k]? <;> rfl

/-- `numpy.add.at(sim_fore, pnts, 1)` entry by entry -/
theorem simulateFrom_entry (ws : List Rat) : ∀ (draws : List Rat) (arr arr' : List Nat),
    simulateFrom ws arr draws = some arr' →
      ∀ k, arr'.getD k 0 = arr.getD k 0 + (placements ws draws).count k
  | [], arr, arr', h, k => by simp [simulateFrom] at h; subst h; simp [placements]
  | r :: rs, arr, arr', h, k => by
    simp only [simulateFrom] at h
    split at h
    · rename_i arr1 hb
      have ih := simulateFrom_entry ws rs arr1 arr' h k
      unfold bump at hb
      split at hb
      · rename_i hi
        cases hb
        rw [ih, getD_modify_succ arr _ k hi]
        simp only [placements, List.map_cons, List.count_cons, beq_iff_eq]
        by_cases hk : searchRight ws r = k
        · simp [hk]; omega
        · simp [hk]
      · cases hb
    · cases h

theorem getD_replicate_zero (n k : Nat) : (List.replicate n 0).getD k 0 = 0 := by
  simp only [List.getD_eq_getElem?_getD, List.getElem?_replicate]
  split <;> rfl

/-! ### when does the rejection loop finish? -/

/-- the cells that are still inactive in `arr` and are hit by some draw of the stream -/
def newCells (ws : List Rat) (n : Nat) (arr : List Nat) (stream : List Rat) : Finset Nat :=
  (Finset.range n).filter (fun k => arr.getD k 0 = 0 ∧ ∃ r ∈ stream, searchRight ws r = k)

theorem getD_set_ne (arr : List Nat) (i k : Nat) (h : i ≠ k) : (arr.set i 1).getD k 0 = arr.getD k 0 := by
  simp [List.getD_eq_getElem?_getD, List.getElem?_set, h]

theorem getD_set_self (arr : List Nat) (i : Nat) (hi : i < arr.length) : (arr.set i 1).getD i 0 = 1 := by
  simp [List.getD_eq_getElem?_getD, List.getElem?_set, hi]

theorem newCells_cons_hit (ws : List Rat) (arr : List Nat) (r : Rat) (rest : List Rat)
    (hloc : searchRight ws r < arr.length) (h0 : arr.getD (searchRight ws r) 0 = 0) :
    (newCells ws arr.length arr (r :: rest)).card
      = (newCells ws arr.length (arr.set (searchRight ws r) 1) rest).card + 1 := by
  have hnot : searchRight ws r ∉ newCells ws arr.length (arr.set (searchRight ws r) 1) rest := by
    unfold newCells
    rw [Finset.mem_filter]
    rintro ⟨_, hz, _⟩
    rw [getD_set_self arr _ hloc] at hz
    exact absurd hz (by decide)
  rw [← Finset.card_insert_of_notMem hnot]
  congr 1
  ext k
  simp only [newCells, Finset.mem_filter, Finset.mem_range, Finset.mem_insert, List.mem_cons, exists_eq_or_imp]
  by_cases hk : searchRight ws r = k
  · subst hk
    constructor
    · intro _; exact Or.inl rfl
    · intro _; exact ⟨hloc, h0, Or.inl rfl⟩
  · have hk' : ¬ k = searchRight ws r := fun e => hk e.symm
    rw [getD_set_ne arr _ k hk]
    constructor
    · rintro ⟨h1, h2, h3 | h3⟩
      · exact absurd h3 hk
      · exact Or.inr ⟨h1, h2, h3⟩
    · rintro (h | ⟨h1, h2, h3⟩)
      · exact absurd h hk'
      · exact ⟨h1, h2, Or.inr h3⟩

theorem newCells_cons_miss (ws : List Rat) (n : Nat) (arr : List Nat) (r : Rat) (rest : List Rat)
    (h0 : ¬ arr.getD (searchRight ws r) 0 = 0) :
    newCells ws n arr (r :: rest) = newCells ws n arr rest := by
  ext k
  simp only [newCells, Finset.mem_filter, Finset.mem_range, List.mem_cons, exists_eq_or_imp]
  constructor
  · rintro ⟨hk, hz, h | h⟩
    · subst h; exact absurd hz h0
    · exact ⟨hk, hz, h⟩
  · rintro ⟨hk, hz, h⟩
    exact ⟨hk, hz, Or.inr h⟩

/-- the loop state version: it finishes within the stream iff the still inactive cells hit by the stream fill the gap -/
theorem rejLoop_done_iff (ws : List Rat) (target : Nat) : ∀ (stream : List Rat) (arr : List Nat) (active : Nat),
    (∀ r ∈ stream, searchRight ws r < arr.length) →
    ((∃ arr' rest, rejLoop ws target arr active stream = .done arr' rest) ↔
      target ≤ active + (newCells ws arr.length arr stream).card)
  | [], arr, active, _ => by
    simp only [rejLoop, newCells]
    split
    · rename_i h
      simp only [reduceCtorEq, exists_false, false_iff, not_le, List.not_mem_nil, false_and, and_false,
        Finset.filter_false, Finset.card_empty]
      omega
    · rename_i h
      have : ∃ arr' rest, Rej.done arr [] = Rej.done arr' rest := ⟨arr, [], rfl⟩
      simp only [this, true_iff]
      omega
  | r :: rest, arr, active, hin => by
    have hloc : searchRight ws r < arr.length := hin r List.mem_cons_self
    have hin' : ∀ r' ∈ rest, searchRight ws r' < arr.length := fun r' h' => hin r' (List.mem_cons_of_mem _ h')
    simp only [rejLoop]
    split
    · rename_i hlt
      split
      · rename_i h0
        have ih := rejLoop_done_iff ws target rest (arr.set (searchRight ws r) 1) (active + 1)
          (by simpa using hin')
        rw [ih, newCells_cons_hit ws arr r rest hloc h0]
        simp only [List.length_set]
        omega
      · rename_i h0
        have ih := rejLoop_done_iff ws target rest arr active hin'
        rw [ih, newCells_cons_miss ws _ arr r rest h0]
    · rename_i hge
      have : ∃ arr' rest', Rej.done arr (r :: rest) = Rej.done arr' rest' := ⟨arr, r :: rest, rfl⟩
      simp only [this, true_iff]
      omega

/-- without an IndexError the loop either finishes or runs out of numbers -/
theorem rejLoop_no_indexError (ws : List Rat) (target : Nat) : ∀ (stream : List Rat) (arr : List Nat) (active : Nat),
    (∀ r ∈ stream, searchRight ws r < arr.length) → rejLoop ws target arr active stream ≠ .indexError
  | [], arr, active, _ => by
    simp only [rejLoop]; split <;> simp
  | r :: rest, arr, active, hin => by
    have hloc : searchRight ws r < arr.length := hin r List.mem_cons_self
    have hin' : ∀ r' ∈ rest, searchRight ws r' < arr.length := fun r' h' => hin r' (List.mem_cons_of_mem _ h')
    simp only [rejLoop]
    split
    · split
      · exact rejLoop_no_indexError ws target rest _ _ (by simpa using hin')
      · exact rejLoop_no_indexError ws target rest _ _ hin'
    · simp

end Sampler
