import Mathlib.Probability.Distributions.Gaussian.Real
import Mathlib.MeasureTheory.Measure.Real
import PycsepVerif.Model.PairedTests
import PycsepVerif.Proofs.RealInst

/-! The survival function of the standard normal law, as a real function (C08, round 4).

`scipy.stats.distributions.norm.sf` is a parameter `sf` of the W-test model; `Properties/C08.lean` proves
`0 ≤ p ≤ 1` under the hypothesis "`sf` maps [0, ∞) into [0, 1/2]". Here that hypothesis is discharged for the
survival function of the standard normal law itself: `normSf z = P(Z > z)`, Z ~ N(0, 1) (Mathlib's `gaussianReal 0 1`).
Only symmetry and the absence of atoms are used — no integral is evaluated. -/
namespace PairedTests
open MeasureTheory ProbabilityTheory Set

/-- P(Z > z) for Z standard normal -/
noncomputable def normSf (z : ℝ) : ℝ := (gaussianReal 0 1).real (Ioi z)

theorem normSf_nonneg (z : ℝ) : 0 ≤ normSf z := measureReal_nonneg

theorem normSf_le_one (z : ℝ) : normSf z ≤ 1 := by
  unfold normSf
  exact measureReal_le_one

theorem normSf_antitone : Antitone normSf := by
  intro a b hab
  unfold normSf
  exact measureReal_mono (Ioi_subset_Ioi hab)

/-- symmetry: P(Z > z) = P(Z < −z) -/
theorem normSf_eq_lower (z : ℝ) : normSf z = (gaussianReal 0 1).real (Iio (-z)) := by
  unfold normSf
  have h := gaussianReal_map_neg (μ := 0) (v := 1)
  rw [neg_zero] at h
  have hm : Measurable (fun x : ℝ => -x) := measurable_neg
  have : (gaussianReal 0 1).real (Iio (-z)) = ((gaussianReal 0 1).map (fun x => -x)).real (Iio (-z)) := by rw [h]
  rw [this, map_measureReal_apply hm measurableSet_Iio]
  congr 1
  ext x
  simp only [mem_Ioi, mem_preimage, mem_Iio]
  constructor <;> intro hx <;> linarith

/-- P(Z > z) + P(Z > −z) = 1 -/
theorem normSf_add_neg (z : ℝ) : normSf z + normSf (-z) = 1 := by
  have : NullSingletonClass (gaussianReal 0 1) := nullSingletonClass_gaussianReal (by norm_num)
  rw [normSf_eq_lower z]
  have h1 : (gaussianReal 0 1).real (Iio (-z)) = (gaussianReal 0 1).real (Iic (-z)) :=
    measureReal_congr Iio_ae_eq_Iic
  have h2 : (gaussianReal 0 1).real (Iic (-z)) = 1 - normSf (-z) := by
    unfold normSf
    rw [← probReal_compl_eq_one_sub measurableSet_Ioi, compl_Ioi]
  rw [h1, h2]; ring

/-- sf(0) = 1/2 -/
theorem normSf_zero : normSf 0 = 1 / 2 := by
  have := normSf_add_neg 0
  rw [neg_zero] at this
  linarith

/-- the hypothesis of `w_p_bounds`, for the normal law: sf maps [0, ∞) into [0, 1/2] -/
theorem normSf_half (z : ℝ) (hz : 0 ≤ z) : 0 ≤ normSf z ∧ normSf z ≤ 1 / 2 :=
  ⟨normSf_nonneg z, (normSf_antitone hz).trans normSf_zero.le⟩

/-- the model's `absR` at the real instance is the absolute value -/
theorem absR_real (z : ℝ) : absR z = |z| := by
  unfold absR
  simp only [RealOps.real_lt, RealOps.real_zero, RealOps.real_neg, decide_eq_true_eq]
  split
  · rename_i h; rw [abs_of_neg h]
  · rename_i h; rw [abs_of_nonneg (not_lt.mp h)]

end PairedTests
