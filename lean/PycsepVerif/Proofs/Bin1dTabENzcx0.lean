import PycsepVerif.Proofs.Bin1dTablesRegions
/-! kernel-evaluated table (property C02): every edge 0..147 of nz_csep_collection_region().xs lands in the bin it opens -/
namespace Bin1d.Tables
theorem tabE_nzcx_0 : edgesOwnBin (cfg64 false) nzcxRaw 0 148 = true := by decide +kernel
end Bin1d.Tables
