import PycsepVerif.Proofs.Soft64
/-!
# Rounding a nearby rational recovers a binary64 value

`fl64_of_near`: a positive normal binary64 `x` is the rounding of every rational within relative distance 2^-54 of it
(the half-gap to its neighbours: `ulp/2` above and in the interior of a binade, `ulp/4` just below a power of two).
`fl64_of_17_digits`: hence the decimal nearest to `x` with 17 significant digits rounds back to `x` (2^53 < 10^16) —
the classical "17 digits suffice" fact, for `Soft64.fl64`.
-/
namespace Soft64

theorem rhe_near (n : ℤ) {t : ℚ} (h : |t - n| < 1 / 2) : roundHalfEven t = n := by
  rw [abs_lt] at h
  obtain ⟨h1, h2⟩ := h
  rcases le_or_gt (n : ℚ) t with hge | hlt
  · have hf : ⌊t⌋ = n := by rw [Int.floor_eq_iff]; constructor <;> linarith
    rw [rhe_def, hf, if_pos (by linarith)]
  · have hf : ⌊t⌋ = n - 1 := by rw [Int.floor_eq_iff]; push_cast; constructor <;> linarith
    rw [rhe_def, hf]; push_cast
    rw [if_neg (by linarith), if_pos (by linarith)]; omega

theorem pow2_52 : pow2 52 = 4503599627370496 := by rw [pow2_eq_zpow]; norm_num
theorem pow2_53 : pow2 53 = 9007199254740992 := by rw [pow2_eq_zpow]; norm_num
theorem pow2_m54 : pow2 (-54) = 1 / 18014398509481984 := by rw [pow2_eq_zpow]; norm_num

/-- rounding `d` when `d` lies in the binade whose ulp is `u` and is within `u/2` of the multiple `n·u` -/
theorem fl64_of_near_mul {d u : ℚ} (n : ℤ) (hd : d ≠ 0) (hu : u = pow2 (ulpExp d)) (h : |d - n * u| < u / 2) :
    fl64 d = n * u := by
  have hup : 0 < u := by rw [hu]; exact pow2_pos _
  rw [fl64_eq hd, ← hu]
  have hq : d / u - n = (d - n * u) / u := by field_simp
  have hlt : |d / u - n| < 1 / 2 := by
    rw [hq, abs_div, abs_of_pos hup, div_lt_iff₀ hup]; linarith
  rw [rhe_near n hlt]

/-- a positive normal binary64 value is recovered from any rational within relative distance 2^-54 -/
theorem fl64_of_near {x d : ℚ} (hx : IsF64 x) (hn : pow2 (-1022) ≤ x) (h : |d - x| < x * pow2 (-54)) :
    fl64 d = x := by
  have hx0 : 0 < x := lt_of_lt_of_le (pow2_pos _) hn
  obtain ⟨hb1, hb2⟩ := ilog2_spec hx0
  generalize hbdef : ilog2 x = b at hb1 hb2
  have hbge : -1022 ≤ b := by
    by_contra hc
    have : pow2 (b + 1) ≤ pow2 (-1022) := pow2_mono (by omega)
    linarith
  have hue : ulpExp x = b - 52 := ulpExp_of_bracket hbge hb1 hb2
  have hup : 0 < pow2 (b - 52) := pow2_pos _
  have hxne : x ≠ 0 := ne_of_gt hx0
  -- x = n·u
  have hxn : x = ((roundHalfEven (x / pow2 (b - 52)) : ℤ) : ℚ) * pow2 (b - 52) := by
    have h1 := fl64_eq hxne
    rw [hue] at h1
    unfold IsF64 at hx
    rw [hx] at h1; exact h1
  generalize hndef : roundHalfEven (x / pow2 (b - 52)) = n at hxn
  generalize hudef : pow2 (b - 52) = u at hxn hup
  have hpb : pow2 b = 4503599627370496 * u := by
    rw [← hudef, ← pow2_52, ← pow2_add]; congr 1; ring
  have hpb1 : pow2 (b + 1) = 9007199254740992 * u := by
    rw [← hudef, ← pow2_53, ← pow2_add]; congr 1; ring
  -- 2^52 ≤ n < 2^53
  have hn1 : (4503599627370496 : ℚ) ≤ (n : ℚ) := by
    by_contra hc; rw [not_le] at hc
    have : (n : ℚ) * u < 4503599627370496 * u := mul_lt_mul_of_pos_right hc hup
    linarith
  have hn2 : (n : ℚ) < 9007199254740992 := by
    by_contra hc; rw [not_lt] at hc
    have : (9007199254740992 : ℚ) * u ≤ (n : ℚ) * u := mul_le_mul_of_nonneg_right hc (le_of_lt hup)
    linarith
  have hn1' : (4503599627370496 : ℤ) ≤ n := by exact_mod_cast hn1
  have hn2' : n ≤ 9007199254740991 := by
    have : n < 9007199254740992 := by exact_mod_cast hn2
    omega
  have hn2q : (n : ℚ) ≤ 9007199254740991 := by exact_mod_cast hn2'
  rw [pow2_m54] at h
  rw [abs_lt] at h
  obtain ⟨hlo, hhi⟩ := h
  have hxu : x ≤ 9007199254740991 * u := by rw [hxn]; exact mul_le_mul_of_nonneg_right hn2q (le_of_lt hup)
  rcases le_or_gt (pow2 b) d with hA | hB
  · -- same binade
    have hd2 : d < pow2 (b + 1) := by rw [hpb1]; linarith
    have hued : ulpExp d = b - 52 := ulpExp_of_bracket hbge hA hd2
    have hd0 : d ≠ 0 := ne_of_gt (lt_of_lt_of_le (pow2_pos _) hA)
    have := fl64_of_near_mul (d := d) (u := u) n hd0 (by rw [hued, hudef]) (by
      rw [← hxn, abs_lt]; constructor <;> linarith)
    rw [this, ← hxn]
  · -- d is below the binade of x: x is the power of two itself
    have hneq : n = 4503599627370496 := by
      by_contra hc
      have h3 : (4503599627370497 : ℤ) ≤ n := by omega
      have h3q : (4503599627370497 : ℚ) ≤ (n : ℚ) := by exact_mod_cast h3
      have : (4503599627370497 : ℚ) * u ≤ (n : ℚ) * u := mul_le_mul_of_nonneg_right h3q (le_of_lt hup)
      rw [hpb] at hB
      linarith
    have hxp : x = 4503599627370496 * u := by rw [hxn, hneq]; norm_num
    have hdpos : 0 < d := by linarith
    have hd0 : d ≠ 0 := ne_of_gt hdpos
    rcases eq_or_lt_of_le hbge with hbeq | hblt
    · -- b = -1022: d is subnormal, same ulp
      have hsmall : d < pow2 (-1022) := by rw [hbeq]; exact hB
      have hued : ulpExp d = -1022 - 52 := ulpExp_of_small hdpos hsmall
      have := fl64_of_near_mul (d := d) (u := u) n hd0 (by rw [hued, ← hudef, ← hbeq]) (by
        rw [← hxn, abs_lt]; constructor <;> linarith)
      rw [this, ← hxn]
    · -- the binade below, half the ulp
      have hu2 : u = 2 * pow2 (b - 1 - 52) := by
        rw [← hudef, ← pow2_succ]; congr 1; ring
      have hup' : 0 < pow2 (b - 1 - 52) := pow2_pos _
      have hpbm : pow2 (b - 1) = 4503599627370496 * pow2 (b - 1 - 52) := by
        rw [← pow2_52, ← pow2_add]; congr 1; ring
      have hd1 : pow2 (b - 1) ≤ d := by rw [hpbm]; linarith
      have hd2 : d < pow2 (b - 1 + 1) := by rw [show b - 1 + 1 = b by ring]; exact hB
      have hued : ulpExp d = b - 1 - 52 := ulpExp_of_bracket (by omega) hd1 hd2
      have := fl64_of_near_mul (d := d) (u := pow2 (b - 1 - 52)) (2 * n) hd0 (by rw [hued]) (by
        have : ((2 * n : ℤ) : ℚ) * pow2 (b - 1 - 52) = x := by rw [hxn, hu2]; push_cast; ring
        rw [this, abs_lt]; constructor <;> linarith)
      rw [this, hxn, hu2]; push_cast; ring

/-- 17 significant decimal digits determine a positive normal binary64: if `10^k ≤ x` and `d` is within half a unit of
    the 17th digit (`10^(k-16)/2`) of `x`, then `d` rounds to `x` -/
theorem fl64_of_17_digits {x d : ℚ} {k : ℤ} (hx : IsF64 x) (hn : pow2 (-1022) ≤ x) (hk : (10 : ℚ) ^ k ≤ x)
    (h : |d - x| ≤ (10 : ℚ) ^ (k - 16) / 2) : fl64 d = x := by
  apply fl64_of_near hx hn
  have hx0 : 0 < x := lt_of_lt_of_le (pow2_pos _) hn
  have h10 : (10 : ℚ) ^ (k - 16) = (10 : ℚ) ^ k * (10 : ℚ) ^ (-16 : ℤ) := by
    rw [← zpow_add₀ (by norm_num : (10 : ℚ) ≠ 0)]; congr 1
  have hc : (10 : ℚ) ^ (-16 : ℤ) / 2 < pow2 (-54) := by rw [pow2_m54]; norm_num
  have hcpos : (0 : ℚ) ≤ (10 : ℚ) ^ (-16 : ℤ) / 2 := by positivity
  calc |d - x| ≤ (10 : ℚ) ^ (k - 16) / 2 := h
    _ = (10 : ℚ) ^ k * ((10 : ℚ) ^ (-16 : ℤ) / 2) := by rw [h10]; ring
    _ ≤ x * ((10 : ℚ) ^ (-16 : ℤ) / 2) := mul_le_mul_of_nonneg_right hk hcpos
    _ < x * pow2 (-54) := mul_lt_mul_of_pos_left hc hx0

/-- the same for either sign -/
theorem fl64_of_17_digits_abs {x d : ℚ} {k : ℤ} (hx : IsF64 x) (hn : pow2 (-1022) ≤ |x|) (hk : (10 : ℚ) ^ k ≤ |x|)
    (h : |d - x| ≤ (10 : ℚ) ^ (k - 16) / 2) : fl64 d = x := by
  rcases le_or_gt 0 x with hpos | hneg
  · rw [abs_of_nonneg hpos] at hn hk
    exact fl64_of_17_digits hx hn hk h
  · rw [abs_of_neg hneg] at hn hk
    have hx' : IsF64 (-x) := by unfold IsF64 at hx ⊢; rw [fl64_neg, hx]
    have h' : |(-d) - (-x)| ≤ (10 : ℚ) ^ (k - 16) / 2 := by
      rw [show -d - -x = -(d - x) by ring, abs_neg]; exact h
    have := fl64_of_17_digits hx' hn hk h'
    rw [fl64_neg] at this
    linarith

end Soft64
