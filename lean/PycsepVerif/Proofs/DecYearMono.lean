import PycsepVerif.Proofs.DecYearErr
import PycsepVerif.Proofs.TimeExt

/-!
# `decimal_year` at microsecond resolution and on the full `datetime` range (round 4)

`decimal_year` (time_utils.py:171-202) first adds up a float number of DAYS into the year
(`num_days + (day-1) + hour/24 + minute/1440 + (second + microsecond*1e-6)/86400`: eight float operations), then
divides by the year length and adds the year (two more).  The first eight operations lose at most 10^-13 days
(8.6 ns) whatever the year is, while one microsecond is 1.16·10^-11 days: so the float day sum is STRICTLY increasing
at microsecond resolution within a year (`dayFracF_strict_mono`), and the last two operations are monotone
(`fl64_mono`).  Across a year end the value of the earlier instant is at most `year + 1`.  Hence the float
`decimal_year` is non-decreasing for EVERY pair of instants (`decimalYear_mono`, no range hypothesis), which the
ten-step error bound `chain_err` alone (≥ 1 ms apart) cannot give.

Second part: `chain_err` redone for years up to 9999 (the last addition is below 2^14, its error ≤ 2^-40 = 9.1·10^-13):
the bound 10^-12 years survives, so the strict-monotonicity and inverse theorems hold on the whole range of `datetime`.
-/
namespace Time
open Soft64

/-- the float day sum of `decimal_year` (the numerator of the final division), time_utils.py:198-201 -/
def dayFracF (us : Int) : ℚ :=
  let f := fields us
  let numDays : Int := daysBeforeMonth f.year f.month
  let a0 : ℚ := ((numDays + (f.day - 1) : Int) : ℚ)
  let a1 := fadd a0 (fdiv f.hour 24)
  let a2 := fadd a1 (fdiv f.minute 1440)
  let s := fadd f.second (fmul f.micro (fl64 (1 / 1000000)))
  fadd a2 (fdiv s 86400)

/-- the same sum in exact arithmetic -/
def dayFracExact (us : Int) : ℚ :=
  let f := fields us
  let numDays : Int := daysBeforeMonth f.year f.month
  ((numDays + (f.day - 1) : Int) : ℚ) + (f.hour : ℚ) / 24 + (f.minute : ℚ) / 1440
    + ((f.second : ℚ) + (f.micro : ℚ) / 1000000) / 86400

/-- `decimal_year` = `year + dayFracF / num_days_per_year` (both float) -/
theorem decimalYear_eq_dayFrac (us : Int) :
    decimalYear us = fadd (fields us).year
      (fdiv (dayFracF us) (if isLeap (fields us).year then 366 else 365)) := rfl

/-- error of the first eight float operations, for any field values in their ranges -/
theorem days_chain_err (a0 h mi s u : ℚ) (ha0 : 0 ≤ a0) (ha1 : a0 ≤ 365) (hh0 : 0 ≤ h) (hh1 : h ≤ 23)
    (hm0 : 0 ≤ mi) (hm1 : mi ≤ 59) (hs0 : 0 ≤ s) (hs1 : s ≤ 59) (hu0 : 0 ≤ u) (hu1 : u ≤ 999999) :
    |fadd (fadd (fadd a0 (fdiv h 24)) (fdiv mi 1440)) (fdiv (fadd s (fmul u (fl64 (1 / 1000000)))) 86400)
      - (a0 + h / 24 + mi / 1440 + (s + u / 1000000) / 86400)| ≤ 1 / 10000000000000 := by
  unfold fadd fdiv fmul
  obtain ⟨l1, u1⟩ := fl_step (h / 24) 0 1 _ p2_0 p2_m54 (by norm_num) (by linarith) (by linarith)
  set t1 := fl64 (h / 24)
  obtain ⟨l2, u2⟩ := fl_step (a0 + t1) 9 512 _ p2_9 p2_m45 (by norm_num) (by linarith) (by linarith)
  set t2 := fl64 (a0 + t1)
  obtain ⟨l3, u3⟩ := fl_step (mi / 1440) 0 1 _ p2_0 p2_m54 (by norm_num) (by linarith) (by linarith)
  set t3 := fl64 (mi / 1440)
  obtain ⟨l4, u4⟩ := fl_step (t2 + t3) 9 512 _ p2_9 p2_m45 (by norm_num) (by linarith) (by linarith)
  set t4 := fl64 (t2 + t3)
  obtain ⟨lc, uc⟩ := fl_step (1 / 1000000) (-19) (1 / 524288) _ p2_m19 p2_m73 (by norm_num) (by norm_num) (by norm_num)
  set c := fl64 (1 / 1000000)
  have hc0 : u * c - u / 1000000 ≤ 1 / 9007199254740992 := by
    have : u * (c - 1 / 1000000) ≤ 999999 * (1 / 9444732965739290427392) := by
      calc u * (c - 1 / 1000000) ≤ u * (1 / 9444732965739290427392) := by
            apply mul_le_mul_of_nonneg_left uc hu0
        _ ≤ 999999 * (1 / 9444732965739290427392) := by
            apply mul_le_mul_of_nonneg_right hu1 (by norm_num)
    have e : u * c - u / 1000000 = u * (c - 1 / 1000000) := by ring
    rw [e]; linarith
  have hc1 : -(1 / 9007199254740992) ≤ u * c - u / 1000000 := by
    have : u * (1 / 1000000 - c) ≤ 999999 * (1 / 9444732965739290427392) := by
      calc u * (1 / 1000000 - c) ≤ u * (1 / 9444732965739290427392) := by
            apply mul_le_mul_of_nonneg_left (by linarith) hu0
        _ ≤ 999999 * (1 / 9444732965739290427392) := by
            apply mul_le_mul_of_nonneg_right hu1 (by norm_num)
    have e : u * c - u / 1000000 = -(u * (1 / 1000000 - c)) := by ring
    rw [e]; linarith
  obtain ⟨l5, u5⟩ := fl_step (u * c) 0 1 _ p2_0 p2_m54 (by norm_num) (by linarith) (by linarith)
  set t5 := fl64 (u * c)
  obtain ⟨l6, u6⟩ := fl_step (s + t5) 6 64 _ p2_6 p2_m48 (by norm_num) (by linarith) (by linarith)
  set t6 := fl64 (s + t5)
  obtain ⟨l7, u7⟩ := fl_step (t6 / 86400) 0 1 _ p2_0 p2_m54 (by norm_num) (by linarith) (by linarith)
  set t7 := fl64 (t6 / 86400)
  obtain ⟨l8, u8⟩ := fl_step (t4 + t7) 9 512 _ p2_9 p2_m45 (by norm_num) (by linarith) (by linarith)
  rw [abs_le]; constructor <;> linarith

/-- ranges of the fields of EVERY instant (no range hypothesis: the civil date is valid for every day number) -/
theorem fields_ranges (us : Int) :
    0 ≤ (fields us).hour ∧ (fields us).hour ≤ 23 ∧ 0 ≤ (fields us).minute ∧ (fields us).minute ≤ 59
    ∧ 0 ≤ (fields us).second ∧ (fields us).second ≤ 59 ∧ 0 ≤ (fields us).micro ∧ (fields us).micro ≤ 999999
    ∧ 0 ≤ daysBeforeMonth (fields us).year (fields us).month + ((fields us).day - 1)
    ∧ daysBeforeMonth (fields us).year (fields us).month + ((fields us).day - 1) < yearLen (fields us).year := by
  have hv := civil_valid (us / usPerDay)
  have hlt := dayOfYear_lt _ _ _ hv
  have hy : (fields us).year = (civilFromDays (us / usPerDay)).1 := rfl
  have hm : (fields us).month = (civilFromDays (us / usPerDay)).2.1 := rfl
  have hd : (fields us).day = (civilFromDays (us / usPerDay)).2.2 := rfl
  rw [hy, hm, hd]
  refine ⟨?_, ?_, ?_, ?_, ?_, ?_, ?_, ?_, ?_, ?_⟩
  all_goals (first | (simp only [fields, usPerDay]; omega) | omega)

/-- the float day sum is within 10^-13 days (8.6 ns) of the exact one, for EVERY instant -/
theorem dayFracF_err (us : Int) : |dayFracF us - dayFracExact us| ≤ 1 / 10000000000000 := by
  obtain ⟨hh0, hh1, hm0, hm1, hs0, hs1, hu0, hu1, hn0, hn1⟩ := fields_ranges us
  have hl := yearLen_cases (fields us).year
  unfold dayFracF dayFracExact
  simp only
  apply days_chain_err
  · exact_mod_cast hn0
  · exact_mod_cast (by omega : daysBeforeMonth (fields us).year (fields us).month + ((fields us).day - 1) ≤ (365 : Int))
  · exact_mod_cast hh0
  · exact_mod_cast hh1
  · exact_mod_cast hm0
  · exact_mod_cast hm1
  · exact_mod_cast hs0
  · exact_mod_cast hs1
  · exact_mod_cast hu0
  · exact_mod_cast hu1

/-- the exact day sum is the position within the year in days -/
theorem dayFracExact_eq (us : Int) :
    dayFracExact us = ((us - yearStartUs (fields us).year : Int) : ℚ) / 86400000000 := by
  obtain ⟨_, _, hpos⟩ := year_bracket us
  unfold dayFracExact
  simp only
  rw [← hpos]
  have hr : us - yearStartUs (fields us).year
      = (us / usPerDay - yearStartDay (fields us).year) * 86400000000 + (fields us).hour * 3600000000
        + (fields us).minute * 60000000 + (fields us).second * 1000000 + (fields us).micro := by
    simp only [fields, yearStartUs, usPerDay]; omega
  rw [hr]
  simp only [usPerDay]
  push_cast
  ring

/-- **microsecond resolution**: within a year the float day sum of `decimal_year` is STRICTLY increasing, already
    for instants one microsecond apart -/
theorem dayFracF_strict_mono (a b : Int) (hab : a < b) (hy : (fields a).year = (fields b).year) :
    dayFracF a < dayFracF b := by
  have ea := dayFracF_err a
  have eb := dayFracF_err b
  rw [abs_le] at ea eb
  rw [dayFracExact_eq] at ea eb
  rw [hy] at ea
  have hgap : ((a - yearStartUs (fields b).year : Int) : ℚ) + 1 ≤ ((b - yearStartUs (fields b).year : Int) : ℚ) := by
    exact_mod_cast (by omega : a - yearStartUs (fields b).year + 1 ≤ b - yearStartUs (fields b).year)
  generalize ((a - yearStartUs (fields b).year : Int) : ℚ) = A at *
  generalize ((b - yearStartUs (fields b).year : Int) : ℚ) = B at *
  linarith [ea.1, ea.2, eb.1, eb.2]

theorem dayFracF_nonneg (us : Int) : 0 ≤ dayFracF us := by
  obtain ⟨hh0, _, hm0, _, hs0, _, hu0, _, hn0, _⟩ := fields_ranges us
  have q0 : (0 : ℚ) ≤ ((daysBeforeMonth (fields us).year (fields us).month + ((fields us).day - 1) : Int) : ℚ) := by
    exact_mod_cast hn0
  have qh : (0 : ℚ) ≤ ((fields us).hour : ℚ) := by exact_mod_cast hh0
  have qm : (0 : ℚ) ≤ ((fields us).minute : ℚ) := by exact_mod_cast hm0
  have qs : (0 : ℚ) ≤ ((fields us).second : ℚ) := by exact_mod_cast hs0
  have qu : (0 : ℚ) ≤ ((fields us).micro : ℚ) := by exact_mod_cast hu0
  have qc : (0 : ℚ) ≤ fl64 (1 / 1000000) := fl64_nonneg (by norm_num)
  unfold dayFracF fadd fdiv fmul
  simp only
  apply fl64_nonneg
  apply add_nonneg
  · apply fl64_nonneg
    apply add_nonneg
    · apply fl64_nonneg
      apply add_nonneg q0
      exact fl64_nonneg (div_nonneg qh (by norm_num))
    · exact fl64_nonneg (div_nonneg qm (by norm_num))
  · apply fl64_nonneg
    apply div_nonneg _ (by norm_num)
    apply fl64_nonneg
    apply add_nonneg qs
    exact fl64_nonneg (mul_nonneg qu qc)

/-- the float day sum stays below the length of the year (the last microsecond of a year is 1.16·10^-11 days before
    the year end, the float error 10^-13) -/
theorem dayFracF_lt_len (us : Int) : dayFracF us < ((yearLen (fields us).year : Int) : ℚ) := by
  have e := dayFracF_err us
  rw [abs_le, dayFracExact_eq] at e
  obtain ⟨_, b1, _⟩ := year_bracket us
  rw [yearStartUs_succ] at b1
  have h : ((us - yearStartUs (fields us).year : Int) : ℚ) + 1
      ≤ ((yearLen (fields us).year : Int) : ℚ) * 86400000000 := by
    exact_mod_cast (by omega : us - yearStartUs (fields us).year + 1 ≤ yearLen (fields us).year * 86400000000)
  generalize ((us - yearStartUs (fields us).year : Int) : ℚ) = A at *
  generalize ((yearLen (fields us).year : Int) : ℚ) = L at *
  linarith [e.2]

/-- the year of an instant is monotone in the instant -/
theorem year_mono (a b : Int) (hab : a ≤ b) : (fields a).year ≤ (fields b).year := by
  obtain ⟨a0, _, _⟩ := year_bracket a
  obtain ⟨_, b1, _⟩ := year_bracket b
  by_contra hcon
  have := (yearStartDay_bounds ((fields b).year + 1) (fields a).year (by omega)).1
  simp only [yearStartUs, usPerDay] at *
  omega

theorem yearLenQ_pos (y : Int) : (0 : ℚ) < (if isLeap y then (366 : ℚ) else 365) := by
  split <;> norm_num

/-- the quotient `dayFracF / num_days_per_year` (float) lies in [0, 1] -/
theorem yearFracF_bounds (us : Int) :
    0 ≤ fdiv (dayFracF us) (if isLeap (fields us).year then 366 else 365)
    ∧ fdiv (dayFracF us) (if isLeap (fields us).year then 366 else 365) ≤ 1 := by
  have h0 := dayFracF_nonneg us
  have h1 := dayFracF_lt_len us
  rw [← yearLen_cast] at h1
  have hp := yearLenQ_pos (fields us).year
  unfold fdiv
  constructor
  · exact fl64_nonneg (div_nonneg h0 hp.le)
  · have : dayFracF us / (if isLeap (fields us).year then (366 : ℚ) else 365) ≤ 1 := by
      rw [div_le_one hp]; exact h1.le
    have := fl64_mono this
    rwa [fl64_one] at this

/-- **`decimal_year` is non-decreasing for EVERY pair of instants** (microsecond resolution, within and across years,
    leap years included, no range hypothesis). -/
theorem decimalYear_mono (a b : Int) (hab : a ≤ b) : decimalYear a ≤ decimalYear b := by
  rcases eq_or_lt_of_le hab with rfl | hlt
  · exact le_refl _
  rw [decimalYear_eq_dayFrac a, decimalYear_eq_dayFrac b]
  have hym := year_mono a b hab
  rcases eq_or_lt_of_le hym with hy | hy
  · -- same year: strictly increasing day sum, then two monotone operations
    have hs := dayFracF_strict_mono a b hlt hy
    rw [hy]
    unfold fadd
    apply fl64_mono
    have := fdiv_mono_left (yearLenQ_pos (fields b).year) hs.le
    linarith
  · -- different years: value of the earlier one ≤ its year + 1 ≤ year of the later one ≤ value of the later one
    have ha := (yearFracF_bounds a).2
    have hb := (yearFracF_bounds b).1
    have hq : ((fields a).year : ℚ) + 1 ≤ ((fields b).year : ℚ) := by exact_mod_cast (by omega : (fields a).year + 1 ≤ (fields b).year)
    unfold fadd
    apply fl64_mono
    linarith

/-! ## the ten-step error bound on the full range of `datetime` (years 1 … 9999) -/

theorem p2_14 : pow2 14 = 16384 := by decide +kernel
theorem p2_m40 : pow2 (14 - 54) = 1 / 1099511627776 := by decide +kernel

theorem chain_err_full (a0 h mi s u yr L : ℚ) (ha0 : 0 ≤ a0) (ha1 : a0 ≤ 365) (hh0 : 0 ≤ h) (hh1 : h ≤ 23)
    (hm0 : 0 ≤ mi) (hm1 : mi ≤ 59) (hs0 : 0 ≤ s) (hs1 : s ≤ 59) (hu0 : 0 ≤ u) (hu1 : u ≤ 999999)
    (hy0 : 1 ≤ yr) (hy1 : yr ≤ 9999) (hL : L = 365 ∨ L = 366) :
    |fadd yr (fdiv (fadd (fadd (fadd a0 (fdiv h 24)) (fdiv mi 1440))
        (fdiv (fadd s (fmul u (fl64 (1 / 1000000)))) 86400)) L)
      - (yr + (a0 + h / 24 + mi / 1440 + (s + u / 1000000) / 86400) / L)| ≤ 1 / 1000000000000 := by
  have hd := days_chain_err a0 h mi s u ha0 ha1 hh0 hh1 hm0 hm1 hs0 hs1 hu0 hu1
  rw [abs_le] at hd
  set t8 := fadd (fadd (fadd a0 (fdiv h 24)) (fdiv mi 1440)) (fdiv (fadd s (fmul u (fl64 (1 / 1000000)))) 86400)
  set E := a0 + h / 24 + mi / 1440 + (s + u / 1000000) / 86400
  have hE0 : 0 ≤ E := by
    have : 0 ≤ h / 24 := div_nonneg hh0 (by norm_num)
    have : 0 ≤ mi / 1440 := div_nonneg hm0 (by norm_num)
    have : 0 ≤ (s + u / 1000000) / 86400 := div_nonneg (add_nonneg hs0 (div_nonneg hu0 (by norm_num))) (by norm_num)
    simp only [E]; linarith
  have hE1 : E ≤ 366 := by simp only [E]; linarith
  unfold fadd fdiv
  rcases hL with rfl | rfl
  · obtain ⟨l9, u9⟩ := fl_step (t8 / 365) 1 2 _ p2_1 p2_m53 (by norm_num) (by linarith [hd.1]) (by linarith [hd.2])
    set t9 := fl64 (t8 / 365)
    obtain ⟨l10, u10⟩ := fl_step (yr + t9) 14 16384 _ p2_14 p2_m40 (by norm_num) (by linarith [hd.1]) (by linarith [hd.2])
    rw [abs_le]; constructor <;> linarith [hd.1, hd.2]
  · obtain ⟨l9, u9⟩ := fl_step (t8 / 366) 1 2 _ p2_1 p2_m53 (by norm_num) (by linarith [hd.1]) (by linarith [hd.2])
    set t9 := fl64 (t8 / 366)
    obtain ⟨l10, u10⟩ := fl_step (yr + t9) 14 16384 _ p2_14 p2_m40 (by norm_num) (by linarith [hd.1]) (by linarith [hd.2])
    rw [abs_le]; constructor <;> linarith [hd.1, hd.2]

/-- the year of every datetime of the full range -/
theorem year_range_full (us : Int) (h0 : -62135596800000000 ≤ us) (h1 : us < 253402300800000000) :
    1 ≤ (fields us).year ∧ (fields us).year ≤ 9999 := by
  have hz0 : -719162 ≤ us / 86400000000 := by omega
  have hz1 : us / 86400000000 ≤ 2932896 := by omega
  have hy := civil_year_full _ hz0 hz1
  have hyear : (fields us).year = (civilFromDays (us / 86400000000)).1 := by simp [fields, usPerDay]
  rw [hyear]; exact hy

/-- **float error of `decimal_year` on the full range**: within 10^-12 years of the exact formula for every datetime
    0001-01-01 … 9999-12-31 -/
theorem decimalYear_err_full (us : Int) (h0 : -62135596800000000 ≤ us) (h1 : us < 253402300800000000) :
    |decimalYear us - decimalYearExact us| ≤ 1 / 1000000000000 := by
  obtain ⟨hh0, hh1, hm0, hm1, hs0, hs1, hu0, hu1, hn0, hn1⟩ := fields_ranges us
  have hy := year_range_full us h0 h1
  have hl := yearLen_cases (fields us).year
  unfold decimalYear decimalYearExact
  simp only
  apply chain_err_full
  · exact_mod_cast hn0
  · exact_mod_cast (by omega : daysBeforeMonth (fields us).year (fields us).month + ((fields us).day - 1) ≤ (365 : Int))
  · exact_mod_cast hh0
  · exact_mod_cast hh1
  · exact_mod_cast hm0
  · exact_mod_cast hm1
  · exact_mod_cast hs0
  · exact_mod_cast hs1
  · exact_mod_cast hu0
  · exact_mod_cast hu1
  · exact_mod_cast hy.1
  · exact_mod_cast hy.2
  · split <;> simp

/-- `year ≤ decimal_year(dt) ≤ year + 1` for every datetime of the full range -/
theorem decimalYear_in_year (us : Int) (h0 : -62135596800000000 ≤ us) (h1 : us < 253402300800000000) :
    ((fields us).year : ℚ) ≤ decimalYear us ∧ decimalYear us ≤ ((fields us).year : ℚ) + 1 := by
  have hy := year_range_full us h0 h1
  obtain ⟨q0, q1⟩ := yearFracF_bounds us
  have f0 : fl64 (((fields us).year : Int) : ℚ) = (((fields us).year : Int) : ℚ) :=
    isF64_int _ (by rw [abs_lt]; constructor <;> omega)
  have f1 : fl64 ((((fields us).year + 1 : Int)) : ℚ) = ((((fields us).year + 1 : Int)) : ℚ) :=
    isF64_int _ (by rw [abs_lt]; constructor <;> omega)
  rw [decimalYear_eq_dayFrac]
  unfold fadd
  constructor
  · have := fl64_mono (show ((fields us).year : ℚ) ≤ ((fields us).year : ℚ) + fdiv (dayFracF us) (if isLeap (fields us).year then 366 else 365) by linarith)
    rwa [f0] at this
  · have := fl64_mono (show ((fields us).year : ℚ) + fdiv (dayFracF us) (if isLeap (fields us).year then 366 else 365) ≤ (((fields us).year + 1 : Int) : ℚ) by push_cast; linarith)
    rw [f1] at this
    push_cast at this
    exact this

end Time
