import PycsepVerif.Soft64
import Mathlib.Data.Rat.Floor
import Mathlib.Algebra.Order.Floor.Ring
import Mathlib.Tactic.Linarith
import Mathlib.Tactic.Ring
import Mathlib.Tactic.FieldSimp
import Mathlib.Tactic.Positivity
import Mathlib.Tactic.NormNum

/-!
# Lemmas about `Soft64` (binary64 round-to-nearest-even on `ℚ`)

`roundHalfEven`: within 1/2, identity on integers, monotone, odd.
`pow2`/`ilog2`: `pow2 e = 2^e`, `2^(ilog2 x) ≤ x < 2^(ilog2 x + 1)`.
`fl64`: error ≤ ulp/2, exact on multiples of the ulp, odd, monotone, idempotent.
-/

namespace Soft64

theorem floor_eq (x : ℚ) : x.floor = ⌊x⌋ := rfl

/-! ### roundHalfEven -/

theorem rhe_def (x : ℚ) : roundHalfEven x =
    if x - (⌊x⌋ : ℚ) < 1 / 2 then ⌊x⌋ else if x - (⌊x⌋ : ℚ) > 1 / 2 then ⌊x⌋ + 1
    else if ⌊x⌋ % 2 = 0 then ⌊x⌋ else ⌊x⌋ + 1 := rfl

theorem rhe_cases (x : ℚ) : roundHalfEven x = ⌊x⌋ ∨ roundHalfEven x = ⌊x⌋ + 1 := by
  rw [rhe_def]; split_ifs <;> simp

theorem rhe_abs_le (x : ℚ) : |((roundHalfEven x : ℤ) : ℚ) - x| ≤ 1 / 2 := by
  have h1 := Int.floor_le x
  have h2 := Int.lt_floor_add_one x
  rw [rhe_def]
  split_ifs with ha hb hc <;> rw [abs_le] <;> push_cast <;> constructor <;> linarith

theorem rhe_int (n : ℤ) : roundHalfEven (n : ℚ) = n := by
  rw [rhe_def]; simp

theorem rhe_mono {x y : ℚ} (h : x ≤ y) : roundHalfEven x ≤ roundHalfEven y := by
  have hf : ⌊x⌋ ≤ ⌊y⌋ := Int.floor_mono h
  rcases lt_or_eq_of_le hf with hlt | heq
  · rcases rhe_cases x with hx | hx <;> rcases rhe_cases y with hy | hy <;> omega
  · -- same floor: compare the fractional parts
    rw [rhe_def x, rhe_def y, heq]
    have hr : x - (⌊y⌋ : ℚ) ≤ y - (⌊y⌋ : ℚ) := by linarith
    split_ifs <;> first | omega | (exfalso; linarith)

theorem rhe_neg (x : ℚ) : roundHalfEven (-x) = -roundHalfEven x := by
  by_cases hint : (⌊x⌋ : ℚ) = x
  · rw [← hint, ← Int.cast_neg, rhe_int, rhe_int]
  · have h1 := Int.floor_le x
    have h2 := Int.lt_floor_add_one x
    have hlt : (⌊x⌋ : ℚ) < x := lt_of_le_of_ne h1 hint
    have hfl : ⌊-x⌋ = -⌊x⌋ - 1 := by
      rw [Int.floor_eq_iff]; push_cast; constructor <;> linarith
    rw [rhe_def (-x), rhe_def x, hfl]; push_cast
    split_ifs <;> first | omega | (exfalso; linarith)

/-! ### pow2 and ilog2 -/

theorem pow2_eq_zpow (e : ℤ) : pow2 e = (2 : ℚ) ^ e := by
  unfold pow2
  split_ifs with h
  · obtain ⟨n, rfl⟩ := Int.eq_ofNat_of_zero_le h
    simp
  · rw [not_le] at h
    obtain ⟨n, hn⟩ := Int.eq_ofNat_of_zero_le (show 0 ≤ -e by omega)
    have : e = -(n : ℤ) := by omega
    subst this
    simp

theorem pow2_pos (e : ℤ) : 0 < pow2 e := by rw [pow2_eq_zpow]; exact zpow_pos (by norm_num) e

theorem pow2_add (a b : ℤ) : pow2 (a + b) = pow2 a * pow2 b := by
  simp only [pow2_eq_zpow]; exact zpow_add₀ (by norm_num) a b

theorem pow2_mono {a b : ℤ} (h : a ≤ b) : pow2 a ≤ pow2 b := by
  simp only [pow2_eq_zpow]; exact zpow_le_zpow_right₀ (by norm_num) h

theorem pow2_strict_mono {a b : ℤ} (h : a < b) : pow2 a < pow2 b := by
  simp only [pow2_eq_zpow]; exact zpow_lt_zpow_right₀ (by norm_num) h

theorem pow2_succ (a : ℤ) : pow2 (a + 1) = 2 * pow2 a := by
  rw [pow2_add, mul_comm]; congr 1

/-- the defining property of `ilog2` on positive rationals -/
theorem ilog2_spec {x : ℚ} (hx : 0 < x) : pow2 (ilog2 x) ≤ x ∧ x < pow2 (ilog2 x + 1) := by
  have hnum : 0 < x.num := Rat.num_pos.mpr hx
  obtain ⟨p, hp⟩ := Int.eq_ofNat_of_zero_le (le_of_lt hnum)
  have hp0 : p ≠ 0 := by intro h; rw [h] at hp; simp [hp] at hnum
  have hq0 : x.den ≠ 0 := x.den_nz
  have hxdiv : x = (p : ℚ) / (x.den : ℚ) := by
    have := Rat.num_div_den x; rw [hp] at this; exact this.symm.trans (by simp)
  have hpl := Nat.log2_self_le hp0
  have hpu := Nat.lt_log2_self (n := p)
  have hql := Nat.log2_self_le hq0
  have hqu := Nat.lt_log2_self (n := x.den)
  set a := Nat.log2 p
  set b := Nat.log2 x.den
  have hqpos : (0 : ℚ) < x.den := by exact_mod_cast Nat.pos_of_ne_zero hq0
  -- bounds in ℚ
  have hpl' : (2 : ℚ) ^ a ≤ p := by exact_mod_cast hpl
  have hpu' : (p : ℚ) < 2 ^ (a + 1) := by exact_mod_cast hpu
  have hql' : (2 : ℚ) ^ b ≤ x.den := by exact_mod_cast hql
  have hqu' : (x.den : ℚ) < 2 ^ (b + 1) := by exact_mod_cast hqu
  have hc : ilog2 x = if pow2 ((a : ℤ) - b) ≤ x then (a : ℤ) - b else (a : ℤ) - b - 1 := by
    unfold ilog2
    rw [if_neg (not_le.mpr hx)]
    simp only [hp, Int.toNat_natCast]
    rfl
  -- x < 2^(c+1)
  have hup : x < pow2 ((a : ℤ) - b + 1) := by
    rw [pow2_eq_zpow, hxdiv, div_lt_iff₀ hqpos]
    have : (2 : ℚ) ^ ((a : ℤ) - b + 1) = 2 ^ (a + 1) / 2 ^ b := by
      rw [show (a : ℤ) - b + 1 = ((a + 1 : ℕ) : ℤ) - (b : ℤ) by push_cast; ring, zpow_sub₀ (by norm_num),
        zpow_natCast, zpow_natCast]
    rw [this]
    calc (p : ℚ) < 2 ^ (a + 1) := hpu'
      _ = 2 ^ (a + 1) / 2 ^ b * 2 ^ b := by field_simp
      _ ≤ 2 ^ (a + 1) / 2 ^ b * x.den := by
          apply mul_le_mul_of_nonneg_left hql'; positivity
  -- 2^(c-1) ≤ x
  have hlo : pow2 ((a : ℤ) - b - 1) ≤ x := by
    rw [pow2_eq_zpow, hxdiv, le_div_iff₀ hqpos]
    have : (2 : ℚ) ^ ((a : ℤ) - b - 1) = 2 ^ a / 2 ^ (b + 1) := by
      rw [show (a : ℤ) - b - 1 = (a : ℤ) - ((b + 1 : ℕ) : ℤ) by push_cast; ring, zpow_sub₀ (by norm_num),
        zpow_natCast, zpow_natCast]
    rw [this]
    calc 2 ^ a / 2 ^ (b + 1) * (x.den : ℚ) ≤ 2 ^ a / 2 ^ (b + 1) * 2 ^ (b + 1) := by
          apply mul_le_mul_of_nonneg_left (le_of_lt hqu'); positivity
      _ = 2 ^ a := by field_simp
      _ ≤ p := hpl'
  rw [hc]
  split_ifs with h
  · exact ⟨h, hup⟩
  · refine ⟨hlo, ?_⟩
    rw [show (a : ℤ) - b - 1 + 1 = (a : ℤ) - b by ring]
    exact not_le.mp h

/-- `ilog2` is the unique exponent whose binade contains `x` -/
theorem ilog2_unique {x : ℚ} {b : ℤ} (h1 : pow2 b ≤ x) (h2 : x < pow2 (b + 1)) : ilog2 x = b := by
  have hx : 0 < x := lt_of_lt_of_le (pow2_pos b) h1
  obtain ⟨s1, s2⟩ := ilog2_spec hx
  have a1 : ilog2 x < b + 1 := by
    by_contra hc
    have := pow2_mono (not_lt.mp hc)
    linarith
  have a2 : b < ilog2 x + 1 := by
    by_contra hc
    have := pow2_mono (not_lt.mp hc)
    linarith
  omega

theorem ilog2_mono {x y : ℚ} (hx : 0 < x) (h : x ≤ y) : ilog2 x ≤ ilog2 y := by
  obtain ⟨s1, _⟩ := ilog2_spec hx
  obtain ⟨_, t2⟩ := ilog2_spec (lt_of_lt_of_le hx h)
  by_contra hc
  have := pow2_mono (show ilog2 y + 1 ≤ ilog2 x by omega)
  linarith

/-! ### fl64 -/

theorem fl64_zero : fl64 0 = 0 := by simp [fl64]

theorem fl64_eq {x : ℚ} (hx : x ≠ 0) :
    fl64 x = ((roundHalfEven (x / pow2 (ulpExp x)) : ℤ) : ℚ) * pow2 (ulpExp x) := by
  simp [fl64, hx]

theorem ulpExp_neg (x : ℚ) : ulpExp (-x) = ulpExp x := by
  unfold ulpExp
  rcases lt_trichotomy x 0 with h | h | h
  · have : ¬ (-x < 0) := by linarith
    simp [h, this]
  · subst h; simp
  · have : -x < 0 := by linarith
    have h' : ¬ x < 0 := by linarith
    simp [h', this]

/-- rounding is odd: fl64 (−x) = −fl64 x -/
theorem fl64_neg (x : ℚ) : fl64 (-x) = -fl64 x := by
  by_cases hx : x = 0
  · subst hx; simp [fl64_zero]
  · rw [fl64_eq hx, fl64_eq (neg_ne_zero.mpr hx), ulpExp_neg, neg_div, rhe_neg]
    push_cast; ring

/-- the rounding error is at most half a unit in the last place -/
theorem fl64_err (x : ℚ) : |fl64 x - x| ≤ pow2 (ulpExp x) / 2 := by
  by_cases hx : x = 0
  · subst hx; rw [fl64_zero]; simp; exact le_of_lt (half_pos (pow2_pos _))
  · rw [fl64_eq hx]
    set u := pow2 (ulpExp x) with hu
    have hup : 0 < u := pow2_pos _
    have h := rhe_abs_le (x / u)
    have : ((roundHalfEven (x / u) : ℤ) : ℚ) * u - x = (((roundHalfEven (x / u) : ℤ) : ℚ) - x / u) * u := by
      field_simp
    rw [this, abs_mul, abs_of_pos hup]
    calc |((roundHalfEven (x / u) : ℤ) : ℚ) - x / u| * u ≤ 1 / 2 * u :=
          mul_le_mul_of_nonneg_right h (le_of_lt hup)
      _ = u / 2 := by ring

/-- a non-zero multiple of its own ulp is representable -/
theorem fl64_of_mul_ulp {x : ℚ} (n : ℤ) (h : x = n * pow2 (ulpExp x)) : fl64 x = x := by
  by_cases hx : x = 0
  · subst hx; exact fl64_zero
  · rw [fl64_eq hx]
    have hup : pow2 (ulpExp x) ≠ 0 := ne_of_gt (pow2_pos _)
    have : x / pow2 (ulpExp x) = n := by rw [div_eq_iff hup]; exact h
    rw [this, rhe_int]; exact h.symm

theorem ulpExp_pos {x : ℚ} (hx : 0 < x) :
    ulpExp x = (if ilog2 x < -1022 then -1022 else ilog2 x) - 52 := by
  unfold ulpExp; simp [not_lt.mpr (le_of_lt hx)]

/-- bracket of the rounded value of a positive number -/
theorem fl64_bracket {x : ℚ} (hx : 0 < x) :
    (if -1022 ≤ ilog2 x then pow2 (ulpExp x + 52) else 0) ≤ fl64 x ∧ fl64 x ≤ pow2 (ulpExp x + 52 + 1) := by
  obtain ⟨s1, s2⟩ := ilog2_spec hx
  rw [fl64_eq (ne_of_gt hx)]
  set u := pow2 (ulpExp x) with hu
  have hup : 0 < u := pow2_pos _
  have e52 : pow2 (ulpExp x + 52) = ((2 ^ 52 : ℤ) : ℚ) * u := by
    rw [add_comm, pow2_add, hu]; congr 1
  have e53 : pow2 (ulpExp x + 52 + 1) = ((2 ^ 53 : ℤ) : ℚ) * u := by
    rw [pow2_succ, e52]; push_cast; ring
  by_cases hn : -1022 ≤ ilog2 x
  · have hue : ulpExp x + 52 = ilog2 x := by rw [ulpExp_pos hx]; split_ifs <;> omega
    rw [if_pos hn]
    have l1 : ((2 ^ 52 : ℤ) : ℚ) ≤ x / u := by
      rw [le_div_iff₀ hup, ← e52, hue]; exact s1
    have l2 : x / u ≤ ((2 ^ 53 : ℤ) : ℚ) := by
      rw [div_le_iff₀ hup, ← e53, hue]; exact le_of_lt s2
    have r1 := rhe_mono l1
    have r2 := rhe_mono l2
    rw [rhe_int] at r1 r2
    rw [e52, e53]
    constructor
    · exact mul_le_mul_of_nonneg_right (by exact_mod_cast r1) (le_of_lt hup)
    · exact mul_le_mul_of_nonneg_right (by exact_mod_cast r2) (le_of_lt hup)
  · rw [if_neg hn]
    have hue : ulpExp x + 52 = -1022 := by rw [ulpExp_pos hx]; split_ifs <;> omega
    have l1 : ((0 : ℤ) : ℚ) ≤ x / u := by simp; positivity
    have hx2 : x < pow2 (-1022) := lt_of_lt_of_le s2 (pow2_mono (by omega))
    have l2 : x / u ≤ ((2 ^ 52 : ℤ) : ℚ) := by
      rw [div_le_iff₀ hup, ← e52, hue]; exact le_of_lt hx2
    have r1 := rhe_mono l1
    have r2 := rhe_mono l2
    rw [rhe_int] at r1 r2
    constructor
    · exact mul_nonneg (by exact_mod_cast r1) (le_of_lt hup)
    · rw [e53]
      have : ((roundHalfEven (x / u) : ℤ) : ℚ) ≤ ((2 ^ 53 : ℤ) : ℚ) := by
        have : roundHalfEven (x / u) ≤ 2 ^ 53 := le_trans r2 (by norm_num)
        exact_mod_cast this
      exact mul_le_mul_of_nonneg_right this (le_of_lt hup)

theorem fl64_nonneg {x : ℚ} (hx : 0 ≤ x) : 0 ≤ fl64 x := by
  rcases eq_or_lt_of_le hx with h | h
  · rw [← h, fl64_zero]
  · have := (fl64_bracket h).1
    split_ifs at this
    · exact le_trans (le_of_lt (pow2_pos _)) this
    · exact this

theorem fl64_mono_pos {x y : ℚ} (hx : 0 < x) (h : x ≤ y) : fl64 x ≤ fl64 y := by
  have hy : 0 < y := lt_of_lt_of_le hx h
  have hl := ilog2_mono hx h
  by_cases hu : ulpExp x = ulpExp y
  · rw [fl64_eq (ne_of_gt hx), fl64_eq (ne_of_gt hy), hu]
    have hup := pow2_pos (ulpExp y)
    have : x / pow2 (ulpExp y) ≤ y / pow2 (ulpExp y) := div_le_div_of_nonneg_right h (le_of_lt hup)
    have r := rhe_mono this
    exact mul_le_mul_of_nonneg_right (by exact_mod_cast r) (le_of_lt hup)
  · -- different binades: a power of two separates the two rounded values
    have hux := ulpExp_pos hx
    have huy := ulpExp_pos hy
    have hlt : ulpExp x + 52 + 1 ≤ ulpExp y + 52 := by
      rw [hux, huy] at hu ⊢; split_ifs at hu ⊢ <;> omega
    have hny : -1022 ≤ ilog2 y := by
      rw [hux, huy] at hlt; split_ifs at hlt <;> omega
    have b1 := (fl64_bracket hx).2
    have b2 := (fl64_bracket hy).1
    rw [if_pos hny] at b2
    exact le_trans b1 (le_trans (pow2_mono hlt) b2)

/-- rounding to binary64 is monotone -/
theorem fl64_mono {x y : ℚ} (h : x ≤ y) : fl64 x ≤ fl64 y := by
  rcases lt_trichotomy x 0 with hx | hx | hx
  · rcases lt_trichotomy y 0 with hy | hy | hy
    · -- both negative: use oddness
      have := fl64_mono_pos (show 0 < -y by linarith) (show -y ≤ -x by linarith)
      rw [fl64_neg, fl64_neg] at this; linarith
    · subst hy; rw [fl64_zero]
      have := fl64_nonneg (show 0 ≤ -x by linarith); rw [fl64_neg] at this; linarith
    · have a := fl64_nonneg (show 0 ≤ -x by linarith); rw [fl64_neg] at a
      have b := fl64_nonneg (le_of_lt hy); linarith
  · subst hx; rw [fl64_zero]; exact fl64_nonneg h
  · exact fl64_mono_pos hx h

/-- `x` is a binary64 value -/
def IsF64 (x : ℚ) : Prop := fl64 x = x

theorem ulpExp_of_bracket {y : ℚ} {b : ℤ} (hb : -1022 ≤ b) (h1 : pow2 b ≤ y) (h2 : y < pow2 (b + 1)) :
    ulpExp y = b - 52 := by
  have hy : 0 < y := lt_of_lt_of_le (pow2_pos b) h1
  rw [ulpExp_pos hy, ilog2_unique h1 h2]; split_ifs <;> omega

theorem ulpExp_of_small {y : ℚ} (hy : 0 < y) (h2 : y < pow2 (-1022)) : ulpExp y = -1022 - 52 := by
  obtain ⟨s1, _⟩ := ilog2_spec hy
  have : ilog2 y < -1022 := by
    by_contra hc
    have := pow2_mono (not_lt.mp hc); linarith
  rw [ulpExp_pos hy]; split_ifs <;> omega

/-- rounding is idempotent: a rounded value is a binary64 value -/
theorem fl64_idem (x : ℚ) : fl64 (fl64 x) = fl64 x := by
  -- reduce to positive x by oddness
  suffices hpos : ∀ x : ℚ, 0 < x → fl64 (fl64 x) = fl64 x by
    rcases lt_trichotomy x 0 with hx | hx | hx
    · have := hpos (-x) (by linarith)
      rw [fl64_neg, fl64_neg] at this; linarith
    · subst hx; simp [fl64_zero]
    · exact hpos x hx
  intro x hx
  obtain ⟨s1, s2⟩ := ilog2_spec hx
  set y := fl64 x with hy
  have hyeq := fl64_eq (ne_of_gt hx)
  set u := pow2 (ulpExp x) with hu
  set n := roundHalfEven (x / u) with hn
  have hup : 0 < u := pow2_pos _
  have e52 : pow2 (ulpExp x + 52) = ((2 ^ 52 : ℤ) : ℚ) * u := by
    rw [add_comm, pow2_add, hu]; congr 1
  have e53 : pow2 (ulpExp x + 52 + 1) = ((2 ^ 53 : ℤ) : ℚ) * u := by
    rw [pow2_succ, e52]; push_cast; ring
  have hb := fl64_bracket hx
  rw [← hy] at hb
  have hyn : y = (n : ℚ) * u := by rw [hy, hyeq]
  by_cases hnorm : -1022 ≤ ilog2 x
  · have hue : ulpExp x + 52 = ilog2 x := by rw [ulpExp_pos hx]; split_ifs <;> omega
    rw [if_pos hnorm] at hb
    rcases lt_or_eq_of_le hb.2 with hlt | heq
    · -- same binade
      have : ulpExp y = ulpExp x := by
        rw [ulpExp_of_bracket (b := ulpExp x + 52) (by omega) hb.1 hlt]; omega
      exact fl64_of_mul_ulp n (by rw [this]; exact hyn)
    · -- rounded up to the next power of two
      have hy1 : pow2 (ulpExp x + 52 + 1) ≤ y := le_of_eq heq.symm
      have hy2 : y < pow2 (ulpExp x + 52 + 1 + 1) := by rw [heq]; exact pow2_strict_mono (by omega)
      have : ulpExp y = ulpExp x + 1 := by
        rw [ulpExp_of_bracket (b := ulpExp x + 52 + 1) (by omega) hy1 hy2]; omega
      refine fl64_of_mul_ulp (2 ^ 52) ?_
      rw [this, pow2_succ, heq, e53]; push_cast; ring
  · rw [if_neg hnorm] at hb
    have hue : ulpExp x + 52 = -1022 := by rw [ulpExp_pos hx]; split_ifs <;> omega
    rcases eq_or_lt_of_le hb.1 with h0 | hpos'
    · rw [← h0]; exact fl64_zero
    · -- subnormal or the smallest normal number
      have hx2 : x < pow2 (-1022) := lt_of_lt_of_le s2 (pow2_mono (by omega))
      have l2 : x / u ≤ ((2 ^ 52 : ℤ) : ℚ) := by
        rw [div_le_iff₀ hup, ← e52, hue]; exact le_of_lt hx2
      have r2 := rhe_mono l2
      rw [rhe_int, ← hn] at r2
      have hyle : y ≤ pow2 (-1022) := by
        rw [hyn, ← hue, e52]
        exact mul_le_mul_of_nonneg_right (by exact_mod_cast r2) (le_of_lt hup)
      have huy : ulpExp y = ulpExp x := by
        rcases lt_or_eq_of_le hyle with hlt | heq
        · rw [ulpExp_of_small hpos' hlt]; omega
        · have h2 : y < pow2 (-1022 + 1) := by rw [heq]; exact pow2_strict_mono (by omega)
          rw [ulpExp_of_bracket (b := -1022) (by omega) (le_of_eq heq.symm) h2]; omega
      exact fl64_of_mul_ulp n (by rw [huy]; exact hyn)

theorem isF64_fl64 (x : ℚ) : IsF64 (fl64 x) := fl64_idem x

/-- relative error of a normal number: at most 2^-53 -/
theorem fl64_rel_err {x : ℚ} (hx : pow2 (-1022) ≤ |x|) : |fl64 x - x| ≤ pow2 (-53) * |x| := by
  have key : ∀ z : ℚ, 0 < z → pow2 (-1022) ≤ z → |fl64 z - z| ≤ pow2 (-53) * z := by
    intro z hz hn
    obtain ⟨s1, _⟩ := ilog2_spec hz
    have hlog : -1022 ≤ ilog2 z := by
      by_contra hc
      obtain ⟨_, s2⟩ := ilog2_spec hz
      have := pow2_mono (show ilog2 z + 1 ≤ -1022 by omega); linarith
    have hue : ulpExp z = ilog2 z - 52 := by rw [ulpExp_pos hz]; split_ifs <;> omega
    have := fl64_err z
    rw [hue] at this
    have e : pow2 (ilog2 z - 52) / 2 = pow2 (-53) * pow2 (ilog2 z) := by
      rw [show ilog2 z - 52 = (-53) + ilog2 z + 1 by ring, pow2_succ, pow2_add]; ring
    rw [e] at this
    exact le_trans this (mul_le_mul_of_nonneg_left s1 (le_of_lt (pow2_pos _)))
  rcases lt_trichotomy x 0 with h | h | h
  · have := key (-x) (by linarith) (by rwa [abs_of_neg h] at hx)
    rw [fl64_neg] at this
    rw [abs_of_neg h, show fl64 x - x = -(-fl64 x - -x) by ring, abs_neg]; exact this
  · subst h; simp at hx; exact absurd hx (not_le.mpr (pow2_pos _))
  · rw [abs_of_pos h] at hx ⊢; exact key x h hx

/-- 1 is a binary64 value, so `x / x` rounds to exactly 1 -/
theorem fl64_one : fl64 1 = 1 := by
  have h1 : pow2 0 ≤ (1 : ℚ) := by rw [pow2_eq_zpow]; norm_num
  have h2 : (1 : ℚ) < pow2 (0 + 1) := by rw [pow2_eq_zpow]; norm_num
  have hu : ulpExp 1 = 0 - 52 := ulpExp_of_bracket (by omega) h1 h2
  refine fl64_of_mul_ulp (2 ^ 52) ?_
  rw [hu, pow2_eq_zpow]; norm_num

theorem fdiv_self {x : ℚ} (hx : x ≠ 0) : fdiv x x = 1 := by
  unfold fdiv; rw [div_self hx, fl64_one]

/-- adding 0.0 to a binary64 value is exact -/
theorem fadd_zero {x : ℚ} (hx : IsF64 x) : fadd x 0 = x := by
  unfold fadd; rw [add_zero]; exact hx

theorem fadd_mono_left {a b c : ℚ} (h : a ≤ b) : fadd a c ≤ fadd b c := by
  unfold fadd; exact fl64_mono (by linarith)

theorem fdiv_mono_left {a b c : ℚ} (hc : 0 < c) (h : a ≤ b) : fdiv a c ≤ fdiv b c := by
  unfold fdiv; exact fl64_mono (div_le_div_of_nonneg_right h (le_of_lt hc))

/-- adding a non-negative float never decreases a binary64 value -/
theorem le_fadd_of_nonneg {x y : ℚ} (hx : IsF64 x) (hy : 0 ≤ y) : x ≤ fadd x y := by
  unfold fadd
  calc x = fl64 x := hx.symm
    _ ≤ fl64 (x + y) := fl64_mono (by linarith)

/-- every dyadic `m·2^k` with `|m| < 2^53` and `k ≥ -1074` is a binary64 value (overflow is not modelled) -/
theorem isF64_dyadic (m : ℤ) (k : ℤ) (hm : |m| < 2 ^ 53) (hk : -1074 ≤ k) : IsF64 ((m : ℚ) * pow2 k) := by
  suffices hpos : ∀ m : ℤ, 0 < m → m < 2 ^ 53 → IsF64 ((m : ℚ) * pow2 k) by
    rcases lt_trichotomy m 0 with h | h | h
    · have := hpos (-m) (by omega) (by rw [abs_of_neg h] at hm; exact hm)
      unfold IsF64 at this ⊢
      have e : ((-m : ℤ) : ℚ) * pow2 k = -((m : ℚ) * pow2 k) := by push_cast; ring
      rw [e, fl64_neg] at this; linarith
    · subst h; simp [IsF64, fl64_zero]
    · exact hpos m h (by rw [abs_of_pos h] at hm; exact hm)
  intro m hm0 hm53
  set x : ℚ := (m : ℚ) * pow2 k with hxdef
  have hkp := pow2_pos k
  have hx : 0 < x := mul_pos (by exact_mod_cast hm0) hkp
  obtain ⟨s1, _⟩ := ilog2_spec hx
  -- x < 2^(53+k) hence ilog2 x ≤ 52 + k
  have hxlt : x < pow2 (53 + k) := by
    rw [pow2_add, hxdef]
    apply mul_lt_mul_of_pos_right _ hkp
    rw [pow2_eq_zpow]; exact_mod_cast hm53
  have hlog : ilog2 x < 53 + k := by
    by_contra hc
    have := pow2_mono (not_lt.mp hc); linarith
  have hule : ulpExp x ≤ k := by rw [ulpExp_pos hx]; split_ifs <;> omega
  obtain ⟨d, hd⟩ := Int.eq_ofNat_of_zero_le (show 0 ≤ k - ulpExp x by omega)
  unfold IsF64
  refine fl64_of_mul_ulp (m * 2 ^ d) ?_
  have : pow2 k = ((2 ^ d : ℤ) : ℚ) * pow2 (ulpExp x) := by
    rw [show k = (d : ℤ) + ulpExp x by omega, pow2_add]
    congr 1
  conv_lhs => rw [hxdef, this]
  push_cast; ring

/-- integers up to 2^53 in absolute value are binary64 values -/
theorem isF64_int (n : ℤ) (hn : |n| < 2 ^ 53) : IsF64 (n : ℚ) := by
  have := isF64_dyadic n 0 hn (by omega)
  rwa [show pow2 0 = 1 by rw [pow2_eq_zpow]; norm_num, mul_one] at this

/-- float addition of two integer-valued floats is exact while the sum stays below 2^53 -/
theorem fadd_int (a b : ℤ) (h : |a + b| < 2 ^ 53) : fadd (a : ℚ) (b : ℚ) = ((a + b : ℤ) : ℚ) := by
  unfold fadd
  have := isF64_int (a + b) h
  unfold IsF64 at this; push_cast at this ⊢; exact this

end Soft64
