import PycsepVerif.Soft64
import Mathlib.Data.Rat.Floor
import Mathlib.Algebra.Order.Floor.Ring
import Mathlib.Tactic.Linarith
import Mathlib.Tactic.Ring
import Mathlib.Tactic.FieldSimp
import Mathlib.Tactic.Positivity
import Mathlib.Tactic.NormNum

/-!
# Lemmas about `Soft64` (binary64 round-to-nearest-even on `ℚ`)

`roundHalfEven`: within 1/2, identity on integers, monotone, odd.
`pow2`/`ilog2`: `pow2 e = 2^e`, `2^(ilog2 x) ≤ x < 2^(ilog2 x + 1)`.
`fl64`: error ≤ ulp/2, exact on multiples of the ulp, odd, monotone, idempotent.
-/

namespace Soft64

theorem floor_eq (x : ℚ) : x.floor = ⌊x⌋ := rfl

/-! ### roundHalfEven -/

theorem rhe_def (x : ℚ) : roundHalfEven x =
    if x - (⌊x⌋ : ℚ) < 1 / 2 then ⌊x⌋ else if x - (⌊x⌋ : ℚ) > 1 / 2 then ⌊x⌋ + 1
    else if ⌊x⌋ % 2 = 0 then ⌊x⌋ else ⌊x⌋ + 1 := rfl

theorem rhe_cases (x : ℚ) : roundHalfEven x = ⌊x⌋ ∨ roundHalfEven x = ⌊x⌋ + 1 := by
  rw [rhe_def]; split_ifs <;> simp

theorem rhe_abs_le (x : ℚ) : |((roundHalfEven x : ℤ) : ℚ) - x| ≤ 1 / 2 := by
  have h1 := Int.floor_le x
  have h2 := Int.lt_floor_add_one x
  rw [rhe_def]
  split_ifs with ha hb hc <;> rw [abs_le] <;> push_cast <;> constructor <;> linarith

theorem rhe_int (n : ℤ) : roundHalfEven (n : ℚ) = n := by
  rw [rhe_def]; simp

theorem rhe_mono {x y : ℚ} (h : x ≤ y) : roundHalfEven x ≤ roundHalfEven y := by
  have hf : ⌊x⌋ ≤ ⌊y⌋ := Int.floor_mono h
  rcases lt_or_eq_of_le hf with hlt | heq
  · rcases rhe_cases x with hx | hx <;> rcases rhe_cases y with hy | hy <;> omega
  · -- same floor: compare the fractional parts
    rw [rhe_def x, rhe_def y, heq]
    have hr : x - (⌊y⌋ : ℚ) ≤ y - (⌊y⌋ : ℚ) := by linarith
    split_ifs <;> first | omega | (exfalso; linarith)

theorem rhe_neg (x : ℚ) : roundHalfEven (-x) = -roundHalfEven x := by
  by_cases hint : (⌊x⌋ : ℚ) = x
  · rw [← hint, ← Int.cast_neg, rhe_int, rhe_int]
  · have h1 := Int.floor_le x
    have h2 := Int.lt_floor_add_one x
    have hlt : (⌊x⌋ : ℚ) < x := lt_of_le_of_ne h1 hint
    have hfl : ⌊-x⌋ = -⌊x⌋ - 1 := by
      rw [Int.floor_eq_iff]; push_cast; constructor <;> linarith
    rw [rhe_def (-x), rhe_def x, hfl]; push_cast
    split_ifs <;> first | omega | (exfalso; linarith)

/-! ### pow2 and ilog2 -/

theorem pow2_eq_zpow (e : ℤ) : pow2 e = (2 : ℚ) ^ e := by
  unfold pow2
  split_ifs with h
  · obtain ⟨n, rfl⟩ := Int.eq_ofNat_of_zero_le h
    simp
  · rw [not_le] at h
    obtain ⟨n, hn⟩ := Int.eq_ofNat_of_zero_le (show 0 ≤ -e by omega)
    have : e = -(n : ℤ) := by omega
    subst this
    simp

theorem pow2_pos (e : ℤ) : 0 < pow2 e := by rw [pow2_eq_zpow]; exact zpow_pos (by norm_num) e

theorem pow2_add (a b : ℤ) : pow2 (a + b) = pow2 a * pow2 b := by
  simp only [pow2_eq_zpow]; exact zpow_add₀ (by norm_num) a b

theorem pow2_mono {a b : ℤ} (h : a ≤ b) : pow2 a ≤ pow2 b := by
  simp only [pow2_eq_zpow]; exact zpow_le_zpow_right₀ (by norm_num) h

theorem pow2_strict_mono {a b : ℤ} (h : a < b) : pow2 a < pow2 b := by
  simp only [pow2_eq_zpow]; exact zpow_lt_zpow_right₀ (by norm_num) h

theorem pow2_succ (a : ℤ) : pow2 (a + 1) = 2 * pow2 a := by
  rw [pow2_add, mul_comm]; congr 1

/-- the defining property of `ilog2` on positive rationals -/
theorem ilog2_spec {x : ℚ} (hx : 0 < x) : pow2 (ilog2 x) ≤ x ∧ x < pow2 (ilog2 x + 1) := by
  have hnum : 0 < x.num := Rat.num_pos.mpr hx
  obtain ⟨p, hp⟩ := Int.eq_ofNat_of_zero_le (le_of_lt hnum)
  have hp0 : p ≠ 0 := by intro h; rw [h] at hp; simp [hp] at hnum
  have hq0 : x.den ≠ 0 := x.den_nz
  have hxdiv : x = (p : ℚ) / (x.den : ℚ) := by
    have := Rat.num_div_den x; rw [hp] at this; exact this.symm.trans (by simp)
  have hpl := Nat.log2_self_le hp0
  have hpu := Nat.lt_log2_self (n := p)
  have hql := Nat.log2_self_le hq0
  have hqu := Nat.lt_log2_self (n := x.den)
  set a := Nat.log2 p
  set b := Nat.log2 x.den
  have hqpos : (0 : ℚ) < x.den := by exact_mod_cast Nat.pos_of_ne_zero hq0
  -- bounds in ℚ
  have hpl' : (2 : ℚ) ^ a ≤ p := by exact_mod_cast hpl
  have hpu' : (p : ℚ) < 2 ^ (a + 1) := by exact_mod_cast hpu
  have hql' : (2 : ℚ) ^ b ≤ x.den := by exact_mod_cast hql
  have hqu' : (x.den : ℚ) < 2 ^ (b + 1) := by exact_mod_cast hqu
  have hc : ilog2 x = if pow2 ((a : ℤ) - b) ≤ x then (a : ℤ) - b else (a : ℤ) - b - 1 := by
    unfold ilog2
    rw [if_neg (not_le.mpr hx)]
    simp only [hp, Int.toNat_natCast]
    rfl
  -- x < 2^(c+1)
  have hup : x < pow2 ((a : ℤ) - b + 1) := by
    rw [pow2_eq_zpow, hxdiv, div_lt_iff₀ hqpos]
    have : (2 : ℚ) ^ ((a : ℤ) - b + 1) = 2 ^ (a + 1) / 2 ^ b := by
      rw [show (a : ℤ) - b + 1 = ((a + 1 : ℕ) : ℤ) - (b : ℤ) by push_cast; ring, zpow_sub₀ (by norm_num),
        zpow_natCast, zpow_natCast]
    rw [this]
    calc (p : ℚ) < 2 ^ (a + 1) := hpu'
      _ = 2 ^ (a + 1) / 2 ^ b * 2 ^ b := by field_simp
      _ ≤ 2 ^ (a + 1) / 2 ^ b * x.den := by
          apply mul_le_mul_of_nonneg_left hql'; positivity
  -- 2^(c-1) ≤ x
  have hlo : pow2 ((a : ℤ) - b - 1) ≤ x := by
    rw [pow2_eq_zpow, hxdiv, le_div_iff₀ hqpos]
    have : (2 : ℚ) ^ ((a : ℤ) - b - 1) = 2 ^ a / 2 ^ (b + 1) := by
      rw [show (a : ℤ) - b - 1 = (a : ℤ) - ((b + 1 : ℕ) : ℤ) by push_cast; ring, zpow_sub₀ (by norm_num),
        zpow_natCast, zpow_natCast]
    rw [this]
    calc 2 ^ a / 2 ^ (b + 1) * (x.den : ℚ) ≤ 2 ^ a / 2 ^ (b + 1) * 2 ^ (b + 1) := by
          apply mul_le_mul_of_nonneg_left (le_of_lt hqu'); positivity
      _ = 2 ^ a := by field_simp
      _ ≤ p := hpl'
  rw [hc]
  split_ifs with h
  · exact ⟨h, hup⟩
  · refine ⟨hlo, ?_⟩
    rw [show (a : ℤ) - b - 1 + 1 = (a : ℤ) - b by ring]
    exact not_le.mp h

end Soft64
