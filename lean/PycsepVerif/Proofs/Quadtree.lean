import Mathlib.Tactic.Linarith
import Mathlib.Tactic.Ring
import Mathlib.Tactic.FieldSimp
import Mathlib.Algebra.Order.Field.Rat
import Mathlib.Data.List.Induction
import Mathlib.Order.Monotone.Basic
import Mathlib.Algebra.BigOperators.Group.List.Basic
import Mathlib.Algebra.Field.Basic
import Mathlib.Algebra.CharZero.Defs
import PycsepVerif.Model.Quadtree

/-! Helper lemmas for C17 (quadtree grids). -/
namespace Quadtree

/-! ### tile coordinates of a child -/

theorem tileX_child (k : Key) (d : Digit) : tileX (child k d) = 2 * tileX k + xbit d := by
  simp [tileX, child, List.foldl_append]

theorem tileY_child (k : Key) (d : Digit) : tileY (child k d) = 2 * tileY k + ybit d := by
  simp [tileY, child, List.foldl_append]

theorem length_child (k : Key) (d : Digit) : (child k d).length = k.length + 1 := by
  simp [child]

theorem scale_child (k : Key) (d : Digit) : scale (child k d) = 2 * scale k := by
  simp [scale, length_child, pow_succ]; ring

theorem scale_pos (k : Key) : 0 < scale k := by
  unfold scale; exact_mod_cast Nat.pos_of_ne_zero (by positivity)

theorem scale_nil : scale [] = 1 := by simp [scale]

/-- which half of an interval: bit 0 iff in the lower (x: west, half-open) half -/
def bxAt (k : Key) (p : Pt) : Nat := if p.x * scale k * 2 < 2 * (tileX k : Rat) + 1 then 0 else 1
/-- bit 0 iff in the northern half, whose southern edge is inclusive -/
def byAt (k : Key) (p : Pt) : Nat := if p.y * scale k * 2 ≤ 2 * (tileY k : Rat) + 1 then 0 else 1

theorem bxAt_lt (k : Key) (p : Pt) : bxAt k p < 2 := by unfold bxAt; split <;> omega
theorem byAt_lt (k : Key) (p : Pt) : byAt k p < 2 := by unfold byAt; split <;> omega

/-- the digit of the child of `k` that owns `p` (west/south inclusive) -/
def digitAt (k : Key) (p : Pt) : Digit :=
  ⟨bxAt k p + 2 * byAt k p, by have := bxAt_lt k p; have := byAt_lt k p; omega⟩

theorem xbit_digitAt (k : Key) (p : Pt) : xbit (digitAt k p) = bxAt k p := by
  have := bxAt_lt k p; simp [xbit, digitAt]; omega
theorem ybit_digitAt (k : Key) (p : Pt) : ybit (digitAt k p) = byAt k p := by
  have := bxAt_lt k p; simp [ybit, digitAt]; omega

theorem digit_ext {d e : Digit} : d = e ↔ xbit d = xbit e ∧ ybit d = ybit e := by
  constructor
  · rintro rfl; exact ⟨rfl, rfl⟩
  · rintro ⟨h1, h2⟩; apply Fin.ext; unfold xbit ybit at *; omega

theorem xbit_lt (d : Digit) : xbit d < 2 := by unfold xbit; omega
theorem ybit_lt (d : Digit) : ybit d < 2 := by unfold ybit; omega

private theorem x_split (a X : Rat) (b : Nat) (hb : b < 2) :
    (2 * X + (b : Rat) ≤ a * 2 ∧ a * 2 < 2 * X + (b : Rat) + 1) ↔
      (X ≤ a ∧ a < X + 1) ∧ b = (if a * 2 < 2 * X + 1 then 0 else 1) := by
  have hb' : b = 0 ∨ b = 1 := by omega
  rcases hb' with rfl | rfl <;> split <;> rename_i h <;> push_cast <;> constructor
  all_goals first
    | (rintro ⟨h1, h2⟩; first | exact ⟨⟨by linarith, by linarith⟩, trivial⟩ | (exfalso; linarith))
    | (rintro ⟨⟨h1, h2⟩, h0⟩; first | exact ⟨by linarith, by linarith⟩ | exact h0.elim)

private theorem y_split (a Y : Rat) (b : Nat) (hb : b < 2) :
    (2 * Y + (b : Rat) < a * 2 ∧ a * 2 ≤ 2 * Y + (b : Rat) + 1) ↔
      (Y < a ∧ a ≤ Y + 1) ∧ b = (if a * 2 ≤ 2 * Y + 1 then 0 else 1) := by
  have hb' : b = 0 ∨ b = 1 := by omega
  rcases hb' with rfl | rfl <;> split <;> rename_i h <;> push_cast <;> constructor
  all_goals first
    | (rintro ⟨h1, h2⟩; first | exact ⟨⟨by linarith, by linarith⟩, trivial⟩ | (exfalso; linarith))
    | (rintro ⟨⟨h1, h2⟩, h0⟩; first | exact ⟨by linarith, by linarith⟩ | exact h0.elim)

/-- KEY LEMMA: a child contains `p` iff the parent does and the child is the one selected by `digitAt`. -/
theorem inTile_child_iff (k : Key) (d : Digit) (p : Pt) :
    InTile (child k d) p ↔ InTile k p ∧ d = digitAt k p := by
  rw [digit_ext, xbit_digitAt, ybit_digitAt]
  unfold InTile bxAt byAt
  rw [tileX_child, tileY_child, scale_child]
  push_cast
  have hx := x_split (p.x * scale k) (tileX k) (xbit d) (xbit_lt d)
  have hy := y_split (p.y * scale k) (tileY k) (ybit d) (ybit_lt d)
  have e1 : p.x * (2 * scale k) = p.x * scale k * 2 := by ring
  have e2 : p.y * (2 * scale k) = p.y * scale k * 2 := by ring
  rw [e1, e2]
  tauto

theorem inTile_parent {k : Key} {d : Digit} {p : Pt} (h : InTile (child k d) p) : InTile k p :=
  ((inTile_child_iff k d p).mp h).1

theorem inTile_nil_iff (p : Pt) : InTile [] p ↔ (0 ≤ p.x ∧ p.x < 1) ∧ (0 < p.y ∧ p.y ≤ 1) := by
  simp [InTile, tileX, tileY, scale_nil, and_assoc]

@[simp] theorem inTile_eq_true_iff (k : Key) (p : Pt) : inTile k p = true ↔ InTile k p := by simp [inTile]

/-- indicator of membership as a number -/
def ind (k : Key) (p : Pt) : Nat := if InTile k p then 1 else 0

theorem ind_children (k : Key) (p : Pt) :
    ind (child k 0) p + ind (child k 1) p + ind (child k 2) p + ind (child k 3) p = ind k p := by
  unfold ind
  simp only [inTile_child_iff]
  by_cases h : InTile k p
  · simp only [h, true_and]
    generalize digitAt k p = e
    revert e; decide
  · simp [h]

theorem ind_roots (p : Pt) : ind [0] p + (ind [1] p + (ind [2] p + ind [3] p)) = ind [] p := by
  have h := ind_children [] p
  simp only [child, List.nil_append] at h
  omega

/-! ### the generic refinement recursion -/

/-- `_create_tile` / `_create_tile_fix_len` with the split criterion abstracted -/
def refine (split : Key → Bool) : Nat → Key → List Key
  | 0, k => [k]
  | fuel + 1, k =>
    if split k then
      refine split fuel (child k 0) ++ refine split fuel (child k 1) ++
      refine split fuel (child k 2) ++ refine split fuel (child k 3)
    else [k]

theorem createTile_keys (thr zoom : Nat) (pts : List Pt) (fuel : Nat) (k : Key) :
    (createTile thr zoom pts fuel k).map Prod.fst =
      refine (fun k => decide (count pts k > thr ∧ k.length < zoom)) fuel k := by
  induction fuel generalizing k with
  | zero => simp [createTile, refine]
  | succ n ih =>
    unfold createTile refine
    by_cases h : count pts k > thr ∧ k.length < zoom
    · simp only [h, and_self, ↓reduceIte, decide_true, List.map_append, ih]
    · simp [h]

theorem fixLen_eq (zoom fuel : Nat) (k : Key) :
    fixLen zoom fuel k = refine (fun k => decide (k.length < zoom)) fuel k := by
  induction fuel generalizing k with
  | zero => simp [fixLen, refine]
  | succ n ih =>
    unfold fixLen refine
    by_cases h : k.length < zoom
    · simp only [h, ↓reduceIte, decide_true, ih]
    · simp [h]

theorem createTile_count {thr zoom : Nat} {pts : List Pt} {fuel : Nat} {k : Key} {l : Key} {n : Nat}
    (h : (l, n) ∈ createTile thr zoom pts fuel k) : n = count pts l := by
  induction fuel generalizing k with
  | zero => simp [createTile] at h; rw [h.1, h.2]
  | succ m ih =>
    unfold createTile at h
    split at h
    · simp only [List.mem_append] at h
      rcases h with ((h | h) | h) | h <;> exact ih h
    · simp at h; rw [h.1, h.2]

/-- every point is in exactly one leaf of a refinement of `k` iff it is in `k` (and in none otherwise) -/
theorem refine_countP (split : Key → Bool) (fuel : Nat) (k : Key) (p : Pt) :
    (refine split fuel k).countP (fun l => inTile l p) = ind k p := by
  induction fuel generalizing k with
  | zero => simp [refine, ind, List.countP_cons, inTile]
  | succ n ih =>
    unfold refine
    split
    · simp only [List.countP_append, ih]; exact ind_children k p
    · simp [ind, List.countP_cons, inTile]

theorem refine_prefix {split : Key → Bool} {fuel : Nat} {k l : Key} (h : l ∈ refine split fuel k) : k <+: l := by
  induction fuel generalizing k with
  | zero => simp [refine] at h; subst h; exact List.prefix_refl _
  | succ n ih =>
    unfold refine at h
    split at h
    · simp only [List.mem_append] at h
      rcases h with ((h | h) | h) | h <;>
        exact List.IsPrefix.trans (List.prefix_append _ _) (ih h)
    · simp at h; subst h; exact List.prefix_refl _

theorem refine_length_le {split : Key → Bool} {fuel : Nat} {k l : Key} (h : l ∈ refine split fuel k) :
    l.length ≤ k.length + fuel := by
  induction fuel generalizing k with
  | zero => simp [refine] at h; subst h; omega
  | succ n ih =>
    unfold refine at h
    split at h
    · simp only [List.mem_append] at h
      rcases h with ((h | h) | h) | h <;> (have := ih h; simp [length_child] at this; omega)
    · simp at h; subst h; omega

/-! ### the canonical key of a point -/

/-- the key of length n owning p: iterate `digitAt` from the root -/
def keyOf : Nat → Pt → Key
  | 0, _ => []
  | n + 1, p => child (keyOf n p) (digitAt (keyOf n p) p)

theorem keyOf_length (n : Nat) (p : Pt) : (keyOf n p).length = n := by
  induction n with
  | zero => rfl
  | succ n ih => simp [keyOf, length_child, ih]

theorem inTile_iff_keyOf (k : Key) (p : Pt) : InTile k p ↔ InTile [] p ∧ k = keyOf k.length p := by
  induction k using List.reverseRecOn with
  | nil => simp [keyOf]
  | append_singleton l d ih =>
    have hc : l ++ [d] = child l d := rfl
    rw [hc, inTile_child_iff, ih, length_child, keyOf]
    constructor
    · rintro ⟨⟨h0, hl⟩, hd⟩
      refine ⟨h0, ?_⟩
      rw [← hl, ← hd]
    · rintro ⟨h0, he⟩
      have := List.append_inj' he (by simp)
      simp only [child] at he
      have h1 : l = keyOf l.length p := (List.append_inj' he (by simp)).1
      have h2 : [d] = [digitAt (keyOf l.length p) p] := (List.append_inj' he (by simp)).2
      refine ⟨⟨h0, h1⟩, ?_⟩
      rw [← h1] at h2; simpa using h2

theorem keyOf_prefix {n m : Nat} (h : n ≤ m) (p : Pt) : keyOf n p <+: keyOf m p := by
  induction m with
  | zero => have : n = 0 := by omega
            subst this; exact List.prefix_refl _
  | succ m ih =>
    by_cases hn : n = m + 1
    · subst hn; exact List.prefix_refl _
    · exact List.IsPrefix.trans (ih (by omega)) (by simp [keyOf, child])

/-- two tiles sharing a point are nested: the shallower key is a prefix of the deeper -/
theorem prefix_of_common_point {a b : Key} {p : Pt} (ha : InTile a p) (hb : InTile b p)
    (hlen : a.length ≤ b.length) : a <+: b := by
  rw [inTile_iff_keyOf] at ha hb
  rw [ha.2, hb.2]; exact keyOf_prefix hlen p

/-- ancestors contain what their descendants contain -/
theorem inTile_of_prefix {a b : Key} {p : Pt} (h : a <+: b) (hb : InTile b p) : InTile a p := by
  have hb' := (inTile_iff_keyOf b p).mp hb
  rw [inTile_iff_keyOf]
  refine ⟨hb'.1, ?_⟩
  have hl : a.length ≤ b.length := h.length_le
  have h2 : keyOf a.length p <+: b := by rw [hb'.2]; simpa [keyOf_length] using keyOf_prefix hl p
  have := List.prefix_of_prefix_length_le h h2 (by simp [keyOf_length])
  exact List.IsPrefix.eq_of_length this (by simp [keyOf_length])

/-! ### lists with at most one hit are pairwise disjoint -/

theorem pairwise_of_countP_le_one {α : Type} (q : α → Bool) :
    ∀ (l : List α), l.countP q ≤ 1 → l.Pairwise (fun a b => ¬ (q a = true ∧ q b = true))
  | [], _ => List.Pairwise.nil
  | a :: l, h => by
    rw [List.countP_cons] at h
    rw [List.pairwise_cons]
    refine ⟨?_, pairwise_of_countP_le_one q l (by omega)⟩
    intro b hb ⟨ha, hqb⟩
    have : 0 < l.countP q := List.countP_pos_iff.mpr ⟨b, hb, hqb⟩
    rw [if_pos ha] at h; omega

/-! ### single resolution: lengths and number of tiles -/

theorem fixLen_spec (zoom : Nat) : ∀ (fuel : Nat) (k : Key), k.length ≤ zoom → zoom ≤ k.length + fuel →
    (∀ l ∈ fixLen zoom fuel k, l.length = zoom) ∧ (fixLen zoom fuel k).length = 4 ^ (zoom - k.length)
  | 0, k, h1, h2 => by
    have : k.length = zoom := by omega
    simp [fixLen, this]
  | fuel + 1, k, h1, h2 => by
    unfold fixLen
    by_cases h : k.length < zoom
    · simp only [h, ↓reduceIte, List.mem_append, List.length_append]
      have ih := fun d => fixLen_spec zoom fuel (child k d) (by simp [length_child]; omega)
        (by simp [length_child]; omega)
      refine ⟨?_, ?_⟩
      · rintro l (((hl | hl) | hl) | hl)
        exacts [(ih 0).1 l hl, (ih 1).1 l hl, (ih 2).1 l hl, (ih 3).1 l hl]
      · rw [(ih 0).2, (ih 1).2, (ih 2).2, (ih 3).2]
        simp only [length_child]
        have : zoom - k.length = (zoom - (k.length + 1)) + 1 := by omega
        rw [this, pow_succ]; omega
    · have : k.length = zoom := by omega
      simp [h, this]

/-! ### fuel is irrelevant once it reaches zoom − depth (the library recursion has no fuel) -/

theorem createTile_fuel (thr zoom : Nat) (pts : List Pt) : ∀ (fuel : Nat) (k : Key), zoom ≤ k.length + fuel →
    createTile thr zoom pts (fuel + 1) k = createTile thr zoom pts fuel k
  | 0, k, h => by
    have : ¬ k.length < zoom := by omega
    simp [createTile, this]
  | fuel + 1, k, h => by
    rw [createTile]
    conv => rhs; rw [createTile]
    have ih := fun d => createTile_fuel thr zoom pts fuel (child k d) (by simp [length_child]; omega)
    simp only [ih]

/-! ### areas -/
section Area
variable {F : Type} [Field F] [CharZero F]

/-- the horizontal mid-line of a tile -/
def yM (k : Key) : Rat := (2 * (tileY k : Rat) + 1) / (2 * scale k)

theorem yN_child (k : Key) (d : Digit) : yN (child k d) = if ybit d = 0 then yN k else yM k := by
  have hs := (scale_pos k).ne'
  have hb := ybit_lt d
  have : ybit d = 0 ∨ ybit d = 1 := by omega
  unfold yN yM; rw [tileY_child, scale_child]
  rcases this with h | h <;> simp [h] <;> field_simp

theorem yS_child (k : Key) (d : Digit) : yS (child k d) = if ybit d = 0 then yM k else yS k := by
  have hs := (scale_pos k).ne'
  have hb := ybit_lt d
  have : ybit d = 0 ∨ ybit d = 1 := by omega
  unfold yS yM; rw [tileY_child, scale_child]
  rcases this with h | h <;> simp [h] <;> field_simp <;> ring

theorem area_children (c : F) (s : Rat → F) (k : Key) :
    area c s (child k 0) + area c s (child k 1) + area c s (child k 2) + area c s (child k 3) = area c s k := by
  unfold area
  simp only [yN_child, yS_child, length_child]
  have e0 : ybit (0 : Digit) = 0 := rfl
  have e1 : ybit (1 : Digit) = 0 := rfl
  have e2 : ybit (2 : Digit) = 1 := rfl
  have e3 : ybit (3 : Digit) = 1 := rfl
  simp only [e0, e1, e2, e3, ↓reduceIte, one_ne_zero]
  generalize s (yN k) = A
  generalize s (yM k) = M
  generalize s (yS k) = B
  have h2 : ((2 ^ k.length : Nat) : F) ≠ 0 := by exact_mod_cast (by positivity : (2 ^ k.length : Nat) ≠ 0)
  rw [pow_succ]; push_cast
  field_simp
  ring

theorem area_refine (c : F) (s : Rat → F) (split : Key → Bool) : ∀ (fuel : Nat) (k : Key),
    ((refine split fuel k).map (area c s)).sum = area c s k
  | 0, k => by simp [refine]
  | fuel + 1, k => by
    unfold refine
    split
    · simp only [List.map_append, List.sum_append, area_refine c s split fuel]
      exact area_children c s k
    · simp

end Area

end Quadtree
