import PycsepVerif.Model.EcdfNumpy
import PycsepVerif.Proofs.Ecdf

/-!
  Helper lemmas for Properties/C09_Numpy.lean: searching a sorted sample after a monotone conversion, counting with
  collisions, sorted lists are fixed by `sort`, `maxL`/`minOrNone`/`maxOrNone` bounds.
-/
namespace Ecdf

/-- a conversion that never reverses an order (every rounding is one) -/
def Mono (f : Rat → Rat) : Prop := ∀ a b, a ≤ b → f a ≤ f b

theorem mono_id : Mono id := fun _ _ h => h

theorem map_sorted {f : Rat → Rat} (hf : Mono f) {l : List Rat} (h : l.Pairwise (fun a b => a ≤ b)) :
    (l.map f).Pairwise (fun a b => a ≤ b) := by
  rw [List.pairwise_map]; exact h.imp (fun hab => hf _ _ hab)

/-- `sort` does nothing to a sorted list -/
theorem sort_of_sorted {l : List Rat} (h : l.Pairwise (fun a b => a ≤ b)) : sort l = l := by
  unfold sort
  apply List.mergeSort_of_pairwise
  exact h.imp (fun hab => by simpa using hab)

/-- searching (left) the converted sorted sample counts the CONVERTED values below the converted query -/
theorem searchLeft_map_sort {f : Rat → Rat} (hf : Mono f) (x : List Rat) (w : Rat) :
    searchLeft ((sort x).map f) w = x.countP (fun a => decide (f a < w)) := by
  unfold searchLeft
  rw [takeWhile_eq_filter_of_sorted (map_sorted hf (sort_sorted x))]
  · rw [← List.countP_eq_length_filter, List.countP_map]
    exact (sort_perm x).countP_eq _
  · intro a b hab hb; simp at *; exact Std.lt_of_le_of_lt hab hb

theorem searchRight_map_sort {f : Rat → Rat} (hf : Mono f) (x : List Rat) (w : Rat) :
    searchRight ((sort x).map f) w = x.countP (fun a => decide (f a ≤ w)) := by
  unfold searchRight
  rw [takeWhile_eq_filter_of_sorted (map_sorted hf (sort_sorted x))]
  · rw [← List.countP_eq_length_filter, List.countP_map]
    exact (sort_perm x).countP_eq _
  · intro a b hab hb; simp at *; exact Rat.le_trans hab hb

theorem countP_lt_length_of_mem {p : Rat → Bool} : ∀ {l : List Rat} {a : Rat}, a ∈ l → p a = false →
    l.countP p < l.length
  | b :: l, a, ha, hp => by
    rcases List.mem_cons.mp ha with rfl | ha'
    · have := List.countP_le_length (p := p) (l := l)
      simp [hp]; omega
    · have := countP_lt_length_of_mem ha' hp
      simp only [List.countP_cons, List.length_cons]
      split <;> omega

/-- head and last of the sorted sample are members of the sample -/
theorem sort_head_last {x : List Rat} (hx : x ≠ []) :
    ∃ e0 last, (sort x).head? = some e0 ∧ (sort x).getLast? = some last ∧ e0 ∈ x ∧ last ∈ x ∧
      (∀ a ∈ x, e0 ≤ a) ∧ (∀ a ∈ x, a ≤ last) := by
  have hne : sort x ≠ [] := by
    intro h; have := (sort_perm x).length_eq; rw [h] at this
    exact hx (List.eq_nil_of_length_eq_zero this.symm)
  obtain ⟨e0, rest, hex⟩ := List.exists_cons_of_ne_nil hne
  refine ⟨e0, (sort x).getLast hne, by rw [hex]; rfl, List.getLast?_eq_some_getLast hne, ?_, ?_, ?_, ?_⟩
  · exact (sort_perm x).mem_iff.mp (hex ▸ List.mem_cons_self)
  · exact (sort_perm x).mem_iff.mp (List.getLast_mem hne)
  · intro a ha
    exact head_le_of_sorted (hex ▸ sort_sorted x) a (hex ▸ (sort_perm x).mem_iff.mpr ha)
  · intro a ha
    exact le_getLast_of_sorted hne (sort_sorted x) a ((sort_perm x).mem_iff.mpr ha)

/-- number of sample values strictly below the query that the conversion makes EQUAL to it -/
def collBelow (f : Rat → Rat) (x : List Rat) (v : Rat) : Nat := x.countP (fun a => decide (a < v ∧ f a = f v))
/-- number of sample values strictly above the query that the conversion makes equal to it -/
def collAbove (f : Rat → Rat) (x : List Rat) (v : Rat) : Nat := x.countP (fun a => decide (v < a ∧ f a = f v))

theorem countP_ge_conv {f : Rat → Rat} (hf : Mono f) (x : List Rat) (v : Rat) :
    x.countP (fun a => decide (f v ≤ f a)) = x.countP (fun a => decide (v ≤ a)) + collBelow f x v := by
  unfold collBelow
  induction x with
  | nil => rfl
  | cons a l ih =>
    simp only [List.countP_cons, ih]
    by_cases h : v ≤ a
    · have h1 : f v ≤ f a := hf _ _ h
      have h2 : ¬ a < v := Rat.not_lt.mpr h
      simp [h, h1, h2]; omega
    · have hlt : a < v := Rat.not_le.mp h
      have hle : f a ≤ f v := hf _ _ (Rat.le_of_lt hlt)
      by_cases he : f a = f v
      · have h1 : f v ≤ f a := by rw [he]; exact Rat.le_refl
        simp [h, hlt, he]; omega
      · have h1 : ¬ f v ≤ f a := fun h' => he (Rat.le_antisymm hle h')
        simp [h, h1, he]

theorem countP_le_conv {f : Rat → Rat} (hf : Mono f) (x : List Rat) (v : Rat) :
    x.countP (fun a => decide (f a ≤ f v)) = x.countP (fun a => decide (a ≤ v)) + collAbove f x v := by
  unfold collAbove
  induction x with
  | nil => rfl
  | cons a l ih =>
    simp only [List.countP_cons, ih]
    by_cases h : a ≤ v
    · have h1 : f a ≤ f v := hf _ _ h
      have h2 : ¬ v < a := Rat.not_lt.mpr h
      simp [h, h1, h2]; omega
    · have hlt : v < a := Rat.not_le.mp h
      have hle : f v ≤ f a := hf _ _ (Rat.le_of_lt hlt)
      by_cases he : f a = f v
      · have h1 : f a ≤ f v := by rw [he]; exact Rat.le_refl
        simp [h, hlt, he]; omega
      · have h1 : ¬ f a ≤ f v := fun h' => he (Rat.le_antisymm h' hle)
        simp [h, h1, he]

/-! ### maxL -/

theorem foldl_max_ge (l : List Rat) : ∀ (m : Rat), m ≤ l.foldl (fun m b => if m < b then b else m) m ∧
    ∀ b ∈ l, b ≤ l.foldl (fun m b => if m < b then b else m) m := by
  induction l with
  | nil => intro m; exact ⟨Rat.le_refl, by simp⟩
  | cons a l ih =>
    intro m
    simp only [List.foldl_cons]
    obtain ⟨h1, h2⟩ := ih (if m < a then a else m)
    have hm : m ≤ (if m < a then a else m) := by
      split
      · exact Rat.le_of_lt ‹_›
      · exact Rat.le_refl
    have ha : a ≤ (if m < a then a else m) := by
      split
      · exact Rat.le_refl
      · exact Rat.not_lt.mp ‹_›
    refine ⟨Rat.le_trans hm h1, ?_⟩
    intro b hb
    rcases List.mem_cons.mp hb with rfl | hb'
    · exact Rat.le_trans ha h1
    · exact h2 b hb'

theorem foldl_max_mem (l : List Rat) : ∀ (m : Rat),
    l.foldl (fun m b => if m < b then b else m) m = m ∨ l.foldl (fun m b => if m < b then b else m) m ∈ l := by
  induction l with
  | nil => intro m; left; rfl
  | cons a l ih =>
    intro m
    simp only [List.foldl_cons]
    rcases ih (if m < a then a else m) with h | h
    · rw [h]; split
      · right; exact List.mem_cons_self
      · left; rfl
    · right; exact List.mem_cons_of_mem _ h

theorem maxL_ge (l : List Rat) : ∀ b ∈ l, b ≤ maxL l := (foldl_max_ge l 0).2

theorem maxL_mem_or_zero (l : List Rat) : maxL l = 0 ∨ maxL l ∈ l := foldl_max_mem l 0

theorem absR_nonneg (a : Rat) : 0 ≤ absR a := by
  unfold absR; split
  · grind
  · exact Rat.not_lt.mp ‹_›

/-! ### min / max -/

theorem foldl_min_le (l : List Rat) : ∀ (m : Rat), l.foldl (fun m b => if b < m then b else m) m ≤ m ∧
    ∀ b ∈ l, l.foldl (fun m b => if b < m then b else m) m ≤ b := by
  induction l with
  | nil => intro m; exact ⟨Rat.le_refl, by simp⟩
  | cons a l ih =>
    intro m
    simp only [List.foldl_cons]
    obtain ⟨h1, h2⟩ := ih (if a < m then a else m)
    have hm : (if a < m then a else m) ≤ m := by
      split
      · exact Rat.le_of_lt ‹_›
      · exact Rat.le_refl
    have ha : (if a < m then a else m) ≤ a := by
      split
      · exact Rat.le_refl
      · exact Rat.not_lt.mp ‹_›
    refine ⟨Rat.le_trans h1 hm, ?_⟩
    intro b hb
    rcases List.mem_cons.mp hb with rfl | hb'
    · exact Rat.le_trans h1 ha
    · exact h2 b hb'

theorem foldl_min_mem (l : List Rat) : ∀ (m : Rat),
    l.foldl (fun m b => if b < m then b else m) m = m ∨ l.foldl (fun m b => if b < m then b else m) m ∈ l := by
  induction l with
  | nil => intro m; left; rfl
  | cons a l ih =>
    intro m
    simp only [List.foldl_cons]
    rcases ih (if a < m then a else m) with h | h
    · rw [h]; split
      · right; exact List.mem_cons_self
      · left; rfl
    · right; exact List.mem_cons_of_mem _ h

end Ecdf
