import PycsepVerif.Properties.C20_FloatSum
import Mathlib.Data.Real.Basic

/-! Helper definitions and lemmas of `Properties/C05_Rounding.lean`: the float statistic as one bracketing, negated bracketings,
    rounded products, library values against the real functions. -/
namespace PoissonRound
open Soft64 FloatSum FloatSum.STree

/-- the same bracketing with every term negated -/
def negTree : STree → STree
  | .leaf x => .leaf (-x)
  | .node l r => .node (negTree l) (negTree r)

theorem negTree_leaves : ∀ t : STree, (negTree t).leaves = t.leaves.map (fun x => -x)
  | .leaf x => rfl
  | .node l r => by simp [negTree, leaves, negTree_leaves l, negTree_leaves r]

theorem negTree_depth : ∀ t : STree, (negTree t).depth = t.depth
  | .leaf x => rfl
  | .node l r => by simp [negTree, depth, negTree_depth l, negTree_depth r]

theorem negTree_evalF : ∀ t : STree, (negTree t).evalF = -t.evalF
  | .leaf x => rfl
  | .node l r => by
    simp only [negTree, evalF, negTree_evalF l, negTree_evalF r]
    unfold fadd
    rw [← fl64_neg]; congr 1; ring

theorem isF64_neg {x : ℚ} (h : IsF64 x) : IsF64 (-x) := by
  unfold IsF64 at *; rw [fl64_neg, h]

theorem negTree_allF64 (t : STree) (h : t.AllF64) : (negTree t).AllF64 := by
  intro x hx
  rw [negTree_leaves] at hx
  obtain ⟨y, hy, rfl⟩ := List.mem_map.mp hx
  exact isF64_neg (h y hy)

theorem absSum_map_neg (xs : List ℚ) : absSum (xs.map (fun x => -x)) = absSum xs := by
  unfold absSum
  rw [List.map_map]
  congr 1
  apply List.map_congr_left
  intro x _
  simp [Function.comp, fabs_eq_abs]

theorem sum_map_neg (xs : List ℚ) : (xs.map (fun x => -x)).sum = -xs.sum := by
  induction xs with
  | nil => simp
  | cons x xs ih => simp [ih]; ring

/-- the float statistic: `S1` a bracketing of the rounded products, `S2` a bracketing of the penalties, then
    `(S1 − S2) − expected` with one rounding each (`fsub a b = fadd a (−b)`) -/
def statF (t1 t2 : STree) (e : ℚ) : ℚ := fsub (fsub t1.evalF t2.evalF) e

/-- the whole evaluation as ONE bracketing of the terms `p̂_i`, `−g_j`, `−expected` -/
def statTree (t1 t2 : STree) (e : ℚ) : STree := .node (.node t1 (negTree t2)) (.leaf (-e))

theorem statF_eq_tree (t1 t2 : STree) (e : ℚ) : statF t1 t2 e = (statTree t1 t2 e).evalF := by
  simp only [statF, statTree, evalF, negTree_evalF]
  unfold fsub fadd
  simp only [sub_eq_add_neg]

/-- one rounded product of a float log-rate and a count: relative error `u` (the product is 0 or in the normal range: a float
    logarithm is 0 or at least 2^-53 in magnitude, never subnormal) -/
theorem fmul_rel_err (l w : ℚ) (hn : l * w = 0 ∨ pow2 (-1022) ≤ |l * w|) : |fmul l w - l * w| ≤ u * |l * w| := by
  unfold fmul
  rcases hn with h | h
  · rw [h, fl64_zero]; simp
  · exact fl64_rel_err h

/-- sums of rounded products against sums of exact products -/
theorem prods_err : ∀ (ts : List (ℚ × ℚ)), (∀ t ∈ ts, t.1 * t.2 = 0 ∨ pow2 (-1022) ≤ |t.1 * t.2|) →
    |(ts.map (fun t => fmul t.1 t.2)).sum - (ts.map (fun t => t.1 * t.2)).sum| ≤ u * absSum (ts.map (fun t => t.1 * t.2)) ∧
    absSum (ts.map (fun t => fmul t.1 t.2)) ≤ (1 + u) * absSum (ts.map (fun t => t.1 * t.2))
  | [], _ => by simp [absSum]
  | t :: ts, h => by
    obtain ⟨ih1, ih2⟩ := prods_err ts (fun x hx => h x (List.mem_cons_of_mem _ hx))
    have e := fmul_rel_err t.1 t.2 (h t List.mem_cons_self)
    have hu := u_pos
    simp only [List.map_cons, List.sum_cons, absSum, fabs_eq_abs] at ih1 ih2 ⊢
    constructor
    · have : fmul t.1 t.2 + (ts.map (fun t => fmul t.1 t.2)).sum - (t.1 * t.2 + (ts.map (fun t => t.1 * t.2)).sum)
          = (fmul t.1 t.2 - t.1 * t.2) + ((ts.map (fun t => fmul t.1 t.2)).sum - (ts.map (fun t => t.1 * t.2)).sum) := by ring
      rw [this]
      have := abs_add_le (fmul t.1 t.2 - t.1 * t.2) ((ts.map (fun t => fmul t.1 t.2)).sum - (ts.map (fun t => t.1 * t.2)).sum)
      nlinarith
    · have t1 : |fmul t.1 t.2| ≤ |t.1 * t.2| + |fmul t.1 t.2 - t.1 * t.2| := by
        have := abs_add_le (t.1 * t.2) (fmul t.1 t.2 - t.1 * t.2); simpa using this
      nlinarith

/-- library values against the real functions: terms `a_i ≈ b_i` to relative accuracy `ε`, non-negative weights `w_i`
    (log-rates with counts; `loggamma` values with weight 1): the weighted sums differ by at most `ε · Σ|b_i|·w_i`, and the
    magnitude of the approximate terms is at most `(1+ε)` times that of the exact ones -/
theorem approx_terms (ε : ℝ) : ∀ (ts : List (ℝ × ℝ × ℝ)), (∀ t ∈ ts, |t.1 - t.2.1| ≤ ε * |t.2.1| ∧ 0 ≤ t.2.2) →
    |(ts.map (fun t => t.1 * t.2.2)).sum - (ts.map (fun t => t.2.1 * t.2.2)).sum| ≤ ε * (ts.map (fun t => |t.2.1| * t.2.2)).sum ∧
    (ts.map (fun t => |t.1 * t.2.2|)).sum ≤ (1 + ε) * (ts.map (fun t => |t.2.1| * t.2.2)).sum
  | [], _ => by simp
  | t :: ts, h => by
    obtain ⟨ih1, ih2⟩ := approx_terms ε ts (fun x hx => h x (List.mem_cons_of_mem _ hx))
    obtain ⟨ht, hw⟩ := h t List.mem_cons_self
    simp only [List.map_cons, List.sum_cons]
    have e1 : |t.1 * t.2.2 - t.2.1 * t.2.2| ≤ ε * (|t.2.1| * t.2.2) := by
      rw [← sub_mul, abs_mul, abs_of_nonneg hw]
      nlinarith
    have e2 : |t.1 * t.2.2| ≤ (1 + ε) * (|t.2.1| * t.2.2) := by
      rw [abs_mul, abs_of_nonneg hw]
      have : |t.1| ≤ |t.2.1| + |t.1 - t.2.1| := by
        have := abs_add_le t.2.1 (t.1 - t.2.1); simpa using this
      nlinarith
    constructor
    · have : t.1 * t.2.2 + (ts.map (fun t => t.1 * t.2.2)).sum - (t.2.1 * t.2.2 + (ts.map (fun t => t.2.1 * t.2.2)).sum)
          = (t.1 * t.2.2 - t.2.1 * t.2.2) + ((ts.map (fun t => t.1 * t.2.2)).sum - (ts.map (fun t => t.2.1 * t.2.2)).sum) := by ring
      rw [this]
      have := abs_add_le (t.1 * t.2.2 - t.2.1 * t.2.2) ((ts.map (fun t => t.1 * t.2.2)).sum - (ts.map (fun t => t.2.1 * t.2.2)).sum)
      linarith
    · linarith

end PoissonRound
