import PycsepVerif.Proofs.FloatBits
/-!
# The JSON document of a catalog survives `write_json` / `load_json` — on characters, for all catalogs
-/
namespace CatalogDoc
open JsonText JsonTree
open ResultJson (F64)

/-! ## every finite float leaf is fine for `catFloatText` -/

mutual
  /-- every float leaf of the tree is a finite double (NaN and ±Infinity are written as the words `NaN`, `Infinity`) or NaN / ±inf -/
  def FiniteFloats : JVal → Prop
    | .float (.num b) => b = posInfBits ∨ b = negInfBits ∨ finiteBits b = true
    | .arr xs => FiniteFloatsL xs
    | .obj ms => FiniteFloatsM ms
    | _ => True
  def FiniteFloatsL : JList → Prop
    | .nil => True
    | .cons v vs => FiniteFloats v ∧ FiniteFloatsL vs
  def FiniteFloatsM : JKVs → Prop
    | .nil => True
    | .cons _ v ms => FiniteFloats v ∧ FiniteFloatsM ms
end

mutual
  theorem floatsOK_of_finite : ∀ j : JVal, FiniteFloats j → FloatsOK catFloatText j
    | .null, _ => by simp [FloatsOK]
    | .bool _, _ => by simp [FloatsOK]
    | .int _, _ => by simp [FloatsOK]
    | .str _, _ => by simp [FloatsOK]
    | .float .nan, _ => by simp [FloatsOK]
    | .float (.num b), h => by
      simp only [FiniteFloats] at h
      simp only [FloatsOK]
      rcases h with h | h | h
      · exact Or.inl h
      · exact Or.inr (Or.inl h)
      · exact Or.inr (Or.inr (floatOk_all b h))
    | .arr xs, h => by
      simp only [FiniteFloats] at h
      simp only [FloatsOK]
      exact floatsOKL_of_finite xs h
    | .obj ms, h => by
      simp only [FiniteFloats] at h
      simp only [FloatsOK]
      exact floatsOKM_of_finite ms h
  theorem floatsOKL_of_finite : ∀ xs : JList, FiniteFloatsL xs → FloatsOKL catFloatText xs
    | .nil, _ => by simp [FloatsOKL]
    | .cons v vs, h => by
      simp only [FiniteFloatsL] at h
      simp only [FloatsOKL]
      exact ⟨floatsOK_of_finite v h.1, floatsOKL_of_finite vs h.2⟩
  theorem floatsOKM_of_finite : ∀ ms : JKVs, FiniteFloatsM ms → FloatsOKM catFloatText ms
    | .nil, _ => by simp [FloatsOKM]
    | .cons _ v ms, h => by
      simp only [FiniteFloatsM] at h
      simp only [FloatsOKM]
      exact ⟨floatsOK_of_finite v h.1, floatsOKM_of_finite ms h.2⟩
end

/-- **whole documents, no float hypothesis left**: the text `json.dump(tree, indent=4, sort_keys=True)` writes for ANY tree
    whose float leaves are doubles (finite of either sign incl. −0.0 and subnormals, NaN, ±Infinity) parses back to the tree
    with sorted members -/
theorem parse_render_all (j : JVal) (h : FiniteFloats j) : parse catFloatText (render catFloatText j) = some (sortTree j) := by
  unfold render renderRaw
  exact parse_renderAt catFloatText pyLayout pyLayout_ws (sortTree j)
    (floatsOK_sortTree catFloatText j (floatsOK_of_finite j h))

/-! ## looking members up by name commutes with `sort_keys` -/

theorem ltChars_irrefl : ∀ a : List Char, ltChars a a = false
  | [] => rfl
  | c :: cs => by simp [ltChars, ltChars_irrefl cs]

theorem getM_insertMember (k k' : String) (v : JVal) : ∀ ms : JKVs,
    getM k (insertMember k' v ms) = if k' = k then some v else getM k ms
  | .nil => by simp [insertMember, getM]
  | .cons k'' v'' rest => by
    simp only [insertMember]
    by_cases hlt : ltChars k''.toList k'.toList = true
    · simp only [hlt, if_true, getM, getM_insertMember k k' v rest]
      by_cases h1 : k'' = k
      · have hne : k' ≠ k := by
          intro h; rw [h1, ← h] at hlt; rw [ltChars_irrefl] at hlt; exact Bool.false_ne_true hlt
        simp [h1, hne]
      · simp [h1]
    · simp [hlt, getM]

theorem getM_sortMembers (k : String) : ∀ ms : JKVs, getM k (sortMembers ms) = getM k ms
  | .nil => rfl
  | .cons k' v rest => by simp [sortMembers, getM_insertMember, getM_sortMembers k rest, getM]

theorem getM_sortTreeKVs (k : String) : ∀ ms : JKVs, getM k (sortTreeKVs ms) = (getM k ms).map sortTree
  | .nil => rfl
  | .cons k' v rest => by
    simp only [sortTreeKVs, getM]
    split_ifs
    · rfl
    · exact getM_sortTreeKVs k rest

/-- a member of the sorted object is the sorted member of the object -/
theorem getM_sortObj (k : String) (ms : JKVs) :
    getM k (sortMembers (sortTreeKVs ms)) = (getM k ms).map sortTree := by
  rw [getM_sortMembers, getM_sortTreeKVs]

/-! ## the pieces of the catalog document -/

theorem unlistJ_listJ : ∀ l : List JVal, unlistJ (listJ l) = l
  | [] => rfl
  | v :: vs => by simp [listJ, unlistJ, unlistJ_listJ vs]

theorem sortTreeL_listJ : ∀ l : List JVal, sortTreeL (listJ l) = listJ (l.map sortTree)
  | [] => by simp [listJ, sortTreeL]
  | v :: vs => by simp [listJ, sortTreeL, sortTreeL_listJ vs]

theorem sortTree_event (e : DocEvent) : sortTree (eventJ e) = eventJ e := by
  simp [eventJ, listJ, sortTree, sortTreeL, flt]

theorem eventOfJ_eventJ (e : DocEvent) : eventOfJ (eventJ e) = some e := by
  simp [eventJ, eventOfJ, unlistJ_listJ, flt, bitsOf]

theorem events_back (es : List DocEvent) : (es.map (sortTree ∘ eventJ)).mapM eventOfJ = some es := by
  induction es with
  | nil => rfl
  | cons e es ih =>
    simp only [List.map_cons, List.mapM_cons, Function.comp, sortTree_event, eventOfJ_eventJ] at ih ⊢
    rw [ih]
    rfl

theorem polygon_back (p : ℕ × ℕ) : polygonOfJ (sortTree (polygonJ p)) = some p := by
  simp (config := {decide := true}) only [polygonJ, sortTree, polygonOfJ, getM_sortObj, getM, if_true, if_false,
    Option.map_some, flt, bitsOf, bind, Option.bind]

theorem polygons_back (ps : List (ℕ × ℕ)) : (ps.map (sortTree ∘ polygonJ)).mapM polygonOfJ = some ps := by
  induction ps with
  | nil => rfl
  | cons p ps ih =>
    simp only [List.map_cons, List.mapM_cons, Function.comp, polygon_back] at ih ⊢
    rw [ih]
    rfl

theorem region_back (r : DocRegion) : regionOfJ (sortTree (regionJ r)) = some r := by
  simp (config := {decide := true}) only [regionJ, sortTree, regionOfJ, getM_sortObj, getM, if_true, if_false,
    Option.map_some, flt, bitsOf, sortTreeL_listJ, unlistJ_listJ, List.map_map, polygons_back, bind, Option.bind]

/-- what `from_dict` reads of the sorted document is the catalog — whatever the other members are -/
theorem fromTree_sorted (c : DocCatalog) (extra : JKVs) : fromTree (sortTree (toTree c extra)) = some c := by
  obtain ⟨es, cid, name, region⟩ := c
  cases cid <;> cases name <;> cases region <;>
    simp (config := {decide := true}) only [toTree, sortTree, fromTree, getM_sortObj, getM, if_true, if_false,
      Option.map_some, optJ, sortTreeL_listJ, unlistJ_listJ, List.map_map, events_back, bind, Option.bind]
  all_goals (first
    | rfl
    | (rename_i r
       have h := region_back r
       have hobj : ∃ ms, sortTree (regionJ r) = .obj ms := ⟨_, by unfold regionJ; rw [sortTree]⟩
       obtain ⟨ms, hms⟩ := hobj
       rw [hms] at h ⊢
       simp only [h, Option.map_some]))

/-- the float leaves of the catalog's own members -/
def DocCatalog.Finite (c : DocCatalog) : Prop :=
  (∀ e ∈ c.events, finiteBits e.lat = true ∧ finiteBits e.lon = true ∧ finiteBits e.depth = true ∧ finiteBits e.mag = true) ∧
  (∀ r, c.region = some r → finiteBits r.dh = true ∧ ∀ p ∈ r.polygons, finiteBits p.1 = true ∧ finiteBits p.2 = true)

theorem finiteL_events (es : List DocEvent)
    (h : ∀ e ∈ es, finiteBits e.lat = true ∧ finiteBits e.lon = true ∧ finiteBits e.depth = true ∧ finiteBits e.mag = true) :
    FiniteFloatsL (listJ (es.map eventJ)) := by
  induction es with
  | nil => simp [listJ, FiniteFloatsL]
  | cons e es ih =>
    obtain ⟨h1, h2, h3, h4⟩ := h e (by simp)
    simp only [List.map_cons, listJ, FiniteFloatsL]
    refine ⟨?_, ih (fun x hx => h x (List.mem_cons_of_mem _ hx))⟩
    simp [eventJ, listJ, FiniteFloats, FiniteFloatsL, flt, h1, h2, h3, h4]

theorem finiteL_polygons (ps : List (ℕ × ℕ)) (h : ∀ p ∈ ps, finiteBits p.1 = true ∧ finiteBits p.2 = true) :
    FiniteFloatsL (listJ (ps.map polygonJ)) := by
  induction ps with
  | nil => simp [listJ, FiniteFloatsL]
  | cons p ps ih =>
    obtain ⟨h1, h2⟩ := h p (by simp)
    simp only [List.map_cons, listJ, FiniteFloatsL]
    refine ⟨?_, ih (fun x hx => h x (List.mem_cons_of_mem _ hx))⟩
    simp [polygonJ, FiniteFloats, FiniteFloatsM, flt, h1, h2]

theorem finite_toTree (c : DocCatalog) (extra : JKVs) (hc : c.Finite) (he : FiniteFloatsM extra) :
    FiniteFloats (toTree c extra) := by
  obtain ⟨es, cid, name, region⟩ := c
  obtain ⟨hev, hreg⟩ := hc
  simp only [toTree, FiniteFloats, FiniteFloatsM]
  refine ⟨finiteL_events es hev, ?_, ?_, ?_, he⟩
  · cases cid <;> simp [optJ, FiniteFloats]
  · cases name <;> simp [optJ, FiniteFloats]
  · cases region with
    | none => simp [optJ, FiniteFloats]
    | some r =>
      obtain ⟨h1, h2⟩ := hreg r rfl
      simp only [optJ, regionJ, FiniteFloats, FiniteFloatsM, flt]
      exact ⟨trivial, Or.inr (Or.inr h1), finiteL_polygons r.polygons h2, trivial, trivial⟩

end CatalogDoc
