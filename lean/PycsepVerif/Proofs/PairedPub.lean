import PycsepVerif.Model.PairedPub
import PycsepVerif.Proofs.PairedTests
import PycsepVerif.Proofs.Soft64
import Mathlib.Analysis.SpecialFunctions.Log.Basic
import Mathlib.Algebra.BigOperators.Group.List.Lemmas
import Mathlib.Algebra.Order.BigOperators.Group.List

/-! Helper lemmas for the public paired tests (C08). -/
namespace PairedTests

/-- Σ (x − m)² = 0 exactly when every x is m -/
theorem sum_sq_dev_eq_zero (l : List ℝ) (m : ℝ) :
    (l.map (fun x => (x - m) ^ 2)).sum = 0 ↔ ∀ x ∈ l, x = m := by
  induction l with
  | nil => simp
  | cons a l ih =>
    have hn : 0 ≤ (l.map (fun x => (x - m) ^ 2)).sum :=
      List.sum_nonneg (by intro y hy; simp only [List.mem_map] at hy; obtain ⟨x, _, rfl⟩ := hy; positivity)
    simp only [List.map_cons, List.sum_cons, List.mem_cons, forall_eq_or_imp]
    rw [add_eq_zero_iff_of_nonneg (by positivity) hn, ih]
    constructor
    · rintro ⟨h1, h2⟩; exact ⟨by nlinarith [sq_nonneg (a - m), pow_eq_zero_iff (two_ne_zero) |>.mp h1], h2⟩
    · rintro ⟨h1, h2⟩; exact ⟨by rw [h1]; ring, h2⟩

theorem sum_sq_dev_nonneg (l : List ℝ) (m : ℝ) : 0 ≤ (l.map (fun x => (x - m) ^ 2)).sum :=
  List.sum_nonneg (by intro y hy; simp only [List.mem_map] at hy; obtain ⟨x, _, rfl⟩ := hy; positivity)

theorem logDiffs_map {β : Type} (ev : List β) (f g : β → ℝ) :
    logDiffs (ev.map f) (ev.map g) = ev.map (fun i => Real.log (f i) - Real.log (g i)) := by
  unfold logDiffs
  induction ev with
  | nil => rfl
  | cons a ev ih => simp only [List.map_cons, List.zipWith_cons_cons, ih]; rfl

theorem sum_map_div (l : List ℝ) (d : ℝ) : (l.map (fun x => x / d)).sum = l.sum / d := by
  induction l with
  | nil => simp
  | cons a l ih => simp [ih, add_div]

theorem getD_map_div (l : List ℝ) (d : ℝ) (i : ℕ) : (l.map (fun x => x / d)).getD i 0 = l.getD i 0 / d := by
  induction l generalizing i with
  | nil => simp
  | cons a l ih =>
    cases i with
    | zero => simp
    | succ i => simpa using ih i

/-- the T-test sees the log-rate differences only through Σx and Σx²: any rearrangement gives the same result -/
theorem tTest_perm {rA rB rA' rB' : List ℝ} (h : (logDiffs rA rB).Perm (logDiffs rA' rB')) (N : ℕ)
    (NA NB tc : ℝ) : tTest rA rB N NA NB tc = tTest rA' rB' N NA NB tc := by
  have s1 : RealOps.sum (logDiffs rA rB) = RealOps.sum (logDiffs rA' rB') := by
    rw [RealOps.real_sum, RealOps.real_sum]; exact h.sum_eq
  have s2 : RealOps.sum ((logDiffs rA rB).map sq) = RealOps.sum ((logDiffs rA' rB').map sq) := by
    rw [RealOps.real_sum, RealOps.real_sum]; exact (h.map sq).sum_eq
  simp only [tTest, infoGain, tStat, igLower, igUpper, variance, s1, s2]

/-! ### float64 sign symmetry of the W-test inputs -/

theorem fsub_antisymm (a b : ℚ) : Soft64.fsub b a = -Soft64.fsub a b := by
  unfold Soft64.fsub
  rw [← Soft64.fl64_neg]; congr 1; ring

theorem wX_swap (LA LB : List ℚ) : wX LB LA = (wX LA LB).map (fun a => -a) := by
  unfold wX
  induction LA generalizing LB with
  | nil => cases LB <;> simp
  | cons a LA ih =>
    cases LB with
    | nil => simp
    | cons b LB => simp only [List.zipWith_cons_cons, List.map_cons, ih LB, fsub_antisymm a b]

theorem wM_swap (n1 n2 n : ℚ) : wM n2 n1 n = -wM n1 n2 n := by
  unfold wM Soft64.fdiv
  rw [fsub_antisymm n1 n2, ← Soft64.fl64_neg]; congr 1; ring

theorem getD_map_mul (l : List ℝ) (c : ℝ) (i : ℕ) : (l.map (fun x => x * c)).getD i 0 = l.getD i 0 * c := by
  induction l generalizing i with
  | nil => simp
  | cons a l ih =>
    cases i with
    | zero => simp
    | succ i => simpa using ih i

end PairedTests
