import PycsepVerif.Model.JsonText
/-!
  Helper lemmas for the JSON text layer of C18 (`Model/JsonText.lean`): digits, NUMBER_RE, string escapes, whitespace, and
  the mutual structural induction `parse ∘ render = id` over values / lists / members.  Core tactics only (no Mathlib).
-/
namespace JsonText
open JsonTree
open ResultJson (F64)

/-! ## decimal digits -/

theorem isDigit_digitChar : ∀ d, d < 10 → isDigit (digitChar d) = true := by decide
theorem digitVal_digitChar : ∀ d, d < 10 → digitVal (digitChar d) = d := by decide
theorem digitChar_eq_zero : ∀ d, d < 10 → digitChar d = '0' → d = 0 := by decide
theorem digitChar_zero : digitChar 0 = '0' := by decide

/-- the digits of `n` by the usual recursion (specification of `natDigits`) -/
def digitsSpec (n : Nat) : List Char :=
  if _h : n < 10 then [digitChar n] else digitsSpec (n / 10) ++ [digitChar (n % 10)]
termination_by n
decreasing_by omega

theorem natDigitsAux_eq : ∀ (fuel n : Nat) (acc : List Char), n < fuel → natDigitsAux fuel n acc = digitsSpec n ++ acc
  | 0, _, _, h => absurd h (Nat.not_lt_zero _)
  | fuel + 1, n, acc, h => by
      by_cases hn : n < 10
      · rw [digitsSpec]; simp [natDigitsAux, hn]
      · rw [digitsSpec]
        simp only [natDigitsAux, hn, if_false, dif_neg, not_false_eq_true]
        rw [natDigitsAux_eq fuel (n / 10) _ (by omega)]
        simp

theorem natDigits_eq (n : Nat) : natDigits n = digitsSpec n := by
  simp [natDigits, natDigitsAux_eq (n + 1) n [] (by omega)]

theorem digitsSpec_digits (n : Nat) : ∀ c ∈ digitsSpec n, isDigit c = true := by
  induction n using Nat.strongRecOn with
  | _ n ih =>
    rw [digitsSpec]
    by_cases hn : n < 10
    · simp [hn, isDigit_digitChar n hn]
    · simp only [hn, dif_neg, not_false_eq_true]
      intro c hc
      rcases List.mem_append.1 hc with h | h
      · exact ih (n / 10) (by omega) c h
      · simp at h; subst h; exact isDigit_digitChar _ (by omega)

theorem readNat_append (xs : List Char) (c : Char) : readNat (xs ++ [c]) = 10 * readNat xs + digitVal c := by
  simp [readNat, List.foldl_append]

theorem readNat_digitsSpec (n : Nat) : readNat (digitsSpec n) = n := by
  induction n using Nat.strongRecOn with
  | _ n ih =>
    rw [digitsSpec]
    by_cases hn : n < 10
    · simp [hn, readNat, digitVal_digitChar n hn]
    · simp only [hn, dif_neg, not_false_eq_true]
      rw [readNat_append, ih (n / 10) (by omega), digitVal_digitChar _ (by omega)]
      omega

/-- shape of the digits: `0` alone, or a first digit `1..9` followed by digits -/
theorem digitsSpec_shape (n : Nat) :
    ∃ d tl, digitsSpec n = digitChar d :: tl ∧ d < 10 ∧ (d = 0 → n = 0 ∧ tl = []) := by
  induction n using Nat.strongRecOn with
  | _ n ih =>
    rw [digitsSpec]
    by_cases hn : n < 10
    · exact ⟨n, [], by simp [hn], hn, fun h => ⟨h, rfl⟩⟩
    · simp only [hn, dif_neg, not_false_eq_true]
      obtain ⟨d, tl, h1, h2, h3⟩ := ih (n / 10) (by omega)
      refine ⟨d, tl ++ [digitChar (n % 10)], by simp [h1], h2, fun h => ?_⟩
      have := (h3 h).1
      omega

theorem readNat_natDigits (n : Nat) : readNat (natDigits n) = n := by rw [natDigits_eq, readNat_digitsSpec]

theorem readInt_renderInt (n : Int) : readInt (renderInt n) = n := by
  cases n with
  | ofNat n =>
    obtain ⟨d, tl, h1, h2, _⟩ := digitsSpec_shape n
    have hne : digitChar d ≠ '-' := by
      have : ∀ d, d < 10 → digitChar d ≠ '-' := by decide
      exact this d h2
    have hr := readNat_natDigits n
    simp only [renderInt]
    rw [natDigits_eq, h1] at *
    unfold readInt
    split
    · rename_i heq; simp at heq; exact absurd heq.1 hne
    · simp [hr]
  | negSucc n =>
    simp only [renderInt, readInt, readNat_natDigits]
    omega

/-! ## delimiters and whitespace -/

/-- what may follow a value in a JSON text: nothing, `,`, `]`, `}` or whitespace -/
def Delim : List Char → Prop
  | [] => True
  | c :: _ => c = ',' ∨ c = ']' ∨ c = '}' ∨ c = ' ' ∨ c = '\t' ∨ c = '\n' ∨ c = '\r'

def AllWs (ws : List Char) : Prop := ∀ c ∈ ws, isWs c = true

theorem isWs_iff (c : Char) : isWs c = true ↔ (c = ' ' ∨ c = '\t' ∨ c = '\n' ∨ c = '\r') := by
  simp [isWs, or_assoc]

theorem skipWs_append (ws cs : List Char) (h : AllWs ws) : skipWs (ws ++ cs) = skipWs cs := by
  induction ws with
  | nil => rfl
  | cons c ws ih =>
    have hc : isWs c = true := h c (by simp)
    simp [skipWs, hc, ih (fun x hx => h x (by simp [hx]))]

theorem skipWs_cons (c : Char) (cs : List Char) (h : isWs c = false) : skipWs (c :: cs) = c :: cs := by
  simp [skipWs, h]

theorem delim_ws_append (ws : List Char) (c : Char) (rest : List Char) (h : AllWs ws) (hc : c = ']' ∨ c = '}') :
    Delim (ws ++ c :: rest) := by
  cases ws with
  | nil => rcases hc with rfl | rfl <;> simp [Delim]
  | cons w ws =>
    have := (isWs_iff w).1 (h w (by simp))
    simp only [List.cons_append, Delim]
    rcases this with h | h | h | h <;> simp [h]

/-- facts about the character after a number that the scanners need -/
theorem delim_head {c : Char} {cs : List Char} (h : Delim (c :: cs)) :
    isDigit c = false ∧ c ≠ '.' ∧ c ≠ 'e' ∧ c ≠ 'E' ∧ c ≠ '+' ∧ c ≠ '-' ∧ c ≠ '0' := by
  simp only [Delim] at h
  rcases h with rfl | rfl | rfl | rfl | rfl | rfl | rfl <;> decide

/-! ## NUMBER_RE: scanning a lexeme that is followed by a delimiter -/

theorem spanDigits_append (cs rest : List Char) (hr : Delim rest) :
    spanDigits (cs ++ rest) = ((spanDigits cs).1, (spanDigits cs).2 ++ rest) := by
  induction cs with
  | nil =>
    cases rest with
    | nil => rfl
    | cons c r => simp [spanDigits, (delim_head hr).1]
  | cons c cs ih =>
    by_cases hc : isDigit c = true
    · simp [spanDigits, hc, ih]
    · simp [spanDigits, hc]

theorem scanNat_append (cs rest : List Char) (hr : Delim rest) :
    scanNat (cs ++ rest) = (scanNat cs).map (fun p => (p.1, p.2 ++ rest)) := by
  cases cs with
  | nil =>
    cases rest with
    | nil => rfl
    | cons c r => have := delim_head hr; simp [scanNat, this.1, this.2.2.2.2.2.2]
  | cons c cs =>
    by_cases h0 : c = '0'
    · simp [scanNat, h0]
    · by_cases hd : isDigit c = true
      · simp [scanNat, h0, hd, spanDigits_append cs rest hr]
      · simp [scanNat, h0, hd]

theorem scanIntPart_append (cs rest : List Char) (hr : Delim rest) :
    scanIntPart (cs ++ rest) = (scanIntPart cs).map (fun p => (p.1, p.2 ++ rest)) := by
  cases cs with
  | nil =>
    cases rest with
    | nil => rfl
    | cons c r =>
      have := delim_head hr
      simp [scanIntPart, this.2.2.2.2.2.1, scanNat, this.1, this.2.2.2.2.2.2]
  | cons c cs =>
    by_cases hm : c = '-'
    · simp only [List.cons_append, scanIntPart, hm, if_true, scanNat_append cs rest hr]
      cases scanNat cs <;> simp
    · have := scanNat_append (c :: cs) rest hr
      simp only [List.cons_append] at this
      simp [scanIntPart, hm, this]

theorem scanFrac_append (cs rest : List Char) (hr : Delim rest) :
    scanFrac (cs ++ rest) = ((scanFrac cs).1, (scanFrac cs).2 ++ rest) := by
  cases cs with
  | nil =>
    cases rest with
    | nil => rfl
    | cons c r => simp [scanFrac, (delim_head hr).2.1]
  | cons c cs =>
    by_cases hp : c = '.'
    · simp only [List.cons_append, scanFrac, hp, if_true, spanDigits_append cs rest hr]
      cases h : (spanDigits cs).1 <;> simp
    · simp [scanFrac, hp]

theorem scanSign_append (cs rest : List Char) (hr : Delim rest) :
    scanSign (cs ++ rest) = ((scanSign cs).1, (scanSign cs).2 ++ rest) := by
  cases cs with
  | nil =>
    cases rest with
    | nil => rfl
    | cons c r => have := delim_head hr; simp [scanSign, this.2.2.2.2.1, this.2.2.2.2.2.1]
  | cons c cs =>
    by_cases hp : c = '+' ∨ c = '-'
    · simp [scanSign, hp]
    · simp [scanSign, hp]

theorem scanExp_append (cs rest : List Char) (hr : Delim rest) :
    scanExp (cs ++ rest) = ((scanExp cs).1, (scanExp cs).2 ++ rest) := by
  cases cs with
  | nil =>
    cases rest with
    | nil => rfl
    | cons c r => have := delim_head hr; simp [scanExp, this.2.2.1, this.2.2.2.1]
  | cons c cs =>
    by_cases hp : c = 'e' ∨ c = 'E'
    · simp only [List.cons_append, scanExp, hp, if_true, scanSign_append cs rest hr,
        spanDigits_append (scanSign cs).2 rest hr]
      cases h : (spanDigits (scanSign cs).2).1 <;> simp
    · simp [scanExp, hp]

/-- a lexeme that NUMBER_RE matches completely is cut out unchanged when a delimiter follows -/
theorem scanNumber_append (cs rest : List Char) (hr : Delim rest) (lx : List Char) (fl : Bool)
    (h : scanNumber cs = some (lx, fl, [])) : scanNumber (cs ++ rest) = some (lx, fl, rest) := by
  unfold scanNumber at h ⊢
  rw [scanIntPart_append cs rest hr]
  cases hi : scanIntPart cs with
  | none => simp [hi] at h
  | some p =>
    obtain ⟨ip, r1⟩ := p
    simp only [hi, Option.map_some] at h ⊢
    rw [scanFrac_append r1 rest hr, scanExp_append (scanFrac r1).2 rest hr]
    simp only [Option.some.injEq, Prod.mk.injEq] at h ⊢
    obtain ⟨h1, h2, h3⟩ := h
    exact ⟨h1, h2, by rw [h3]; rfl⟩

/-! ## integers through NUMBER_RE -/

theorem spanDigits_all (ds : List Char) (h : ∀ c ∈ ds, isDigit c = true) : spanDigits ds = (ds, []) := by
  induction ds with
  | nil => rfl
  | cons c ds ih => simp [spanDigits, h c (by simp), ih (fun x hx => h x (by simp [hx]))]

theorem scanNat_natDigits (n : Nat) : scanNat (natDigits n) = some (natDigits n, []) := by
  rw [natDigits_eq]
  obtain ⟨d, tl, h1, h2, h3⟩ := digitsSpec_shape n
  have hd := digitsSpec_digits n
  rw [h1] at hd ⊢
  by_cases h0 : digitChar d = '0'
  · have := h3 (digitChar_eq_zero d h2 h0)
    simp [scanNat, h0, this.2]
  · have htl : ∀ c ∈ tl, isDigit c = true := fun c hc => hd c (by simp [hc])
    simp [scanNat, h0, isDigit_digitChar d h2, spanDigits_all tl htl]

theorem natDigits_head (n : Nat) : ∃ d tl, natDigits n = digitChar d :: tl ∧ d < 10 := by
  rw [natDigits_eq]
  obtain ⟨d, tl, h1, h2, _⟩ := digitsSpec_shape n
  exact ⟨d, tl, h1, h2⟩

theorem digitChar_ne_minus : ∀ d, d < 10 → digitChar d ≠ '-' := by decide

theorem scanIntPart_renderInt (n : Int) : scanIntPart (renderInt n) = some (renderInt n, []) := by
  cases n with
  | ofNat n =>
    obtain ⟨d, tl, h1, h2⟩ := natDigits_head n
    have := scanNat_natDigits n
    simp only [renderInt]
    rw [h1] at this ⊢
    simp [scanIntPart, digitChar_ne_minus d h2, this]
  | negSucc n =>
    obtain ⟨d, tl, h1, h2⟩ := natDigits_head (n + 1)
    have := scanNat_natDigits (n + 1)
    simp [renderInt, scanIntPart, this]

/-- `int.__repr__` is a complete NUMBER_RE match without fraction and exponent -/
theorem scanNumber_renderInt (n : Int) : scanNumber (renderInt n) = some (renderInt n, false, []) := by
  simp [scanNumber, scanIntPart_renderInt, scanFrac, scanExp]

/-- the first character of an integer: a digit or `-` -/
theorem renderInt_head (n : Int) : ∃ c tl, renderInt n = c :: tl ∧ (isDigit c = true ∨ c = '-') := by
  cases n with
  | ofNat n =>
    obtain ⟨d, tl, h1, h2⟩ := natDigits_head n
    exact ⟨_, tl, by simp [renderInt, h1], Or.inl (isDigit_digitChar d h2)⟩
  | negSucc n => exact ⟨'-', _, rfl, Or.inr rfl⟩

/-- the first character of a complete NUMBER_RE match: a digit or `-` -/
theorem scanNumber_head {cs lx : List Char} {fl : Bool} {r : List Char} (h : scanNumber cs = some (lx, fl, r)) :
    ∃ c tl, cs = c :: tl ∧ (isDigit c = true ∨ c = '-') := by
  cases cs with
  | nil => simp [scanNumber, scanIntPart] at h
  | cons c tl =>
    refine ⟨c, tl, rfl, ?_⟩
    by_cases hm : c = '-'
    · exact Or.inr hm
    · left
      by_cases h0 : c = '0'
      · subst h0; decide
      · by_cases hd : isDigit c = true
        · exact hd
        · simp [scanNumber, scanIntPart, hm, scanNat, h0, hd] at h

/-! ## strings -/

theorem hexVal_hexDigit : ∀ d, d < 16 → hexVal? (hexDigit d) = some d := by decide

theorem readHex4_hex4 (v : Nat) (hv : v < 65536) (rest : List Char) : readHex4 (hex4 v ++ rest) = some (v, rest) := by
  simp only [hex4, List.cons_append, List.nil_append, readHex4]
  rw [hexVal_hexDigit _ (Nat.mod_lt _ (by decide)), hexVal_hexDigit _ (Nat.mod_lt _ (by decide)),
    hexVal_hexDigit _ (Nat.mod_lt _ (by decide)), hexVal_hexDigit _ (Nat.mod_lt _ (by decide))]
  simp only [Option.some.injEq, Prod.mk.injEq, and_true]
  omega

theorem scanUnicodeEscape_bmp (v : Nat) (hv : v < 65536) (hs : v < 0xd800 ∨ 0xdfff < v) (rest : List Char) :
    scanUnicodeEscape (hex4 v ++ rest) = some (Char.ofNat v, rest) := by
  unfold scanUnicodeEscape
  rw [readHex4_hex4 v hv]
  have h1 : ¬ (0xd800 ≤ v ∧ v ≤ 0xdbff) := by omega
  have h2 : ¬ (0xdc00 ≤ v ∧ v ≤ 0xdfff) := by omega
  simp only [h1, h2, if_false]

theorem scanUnicodeEscape_pair (m : Nat) (hm : m < 0x100000) (rest : List Char) :
    scanUnicodeEscape (hex4 (0xd800 + m / 1024) ++ (escUnit (0xdc00 + m % 1024) ++ rest))
      = some (Char.ofNat (0x10000 + m), rest) := by
  unfold scanUnicodeEscape
  rw [readHex4_hex4 _ (by omega)]
  have h1 : 0xd800 ≤ 0xd800 + m / 1024 ∧ 0xd800 + m / 1024 ≤ 0xdbff := by omega
  simp only [h1, and_self, if_true, escUnit, List.cons_append]
  rw [readHex4_hex4 _ (by omega)]
  have h2 : 0xdc00 ≤ 0xdc00 + m % 1024 ∧ 0xdc00 + m % 1024 ≤ 0xdfff := by omega
  simp only [h2, and_self, if_true]
  have e : 0x10000 + ((0xd800 + m / 1024 - 0xd800) * 1024 + (0xdc00 + m % 1024 - 0xdc00)) = 0x10000 + m := by omega
  rw [e]

/-- one written character (escaped or not) is read back as that character -/
theorem strStep_escChar (c : Char) (rest : List Char) : strStep (escChar c ++ rest) = .chr c rest := by
  unfold escChar
  split
  · next h => subst h; simp [strStep]
  split
  · next h => subst h; simp [strStep]
  split
  · next h => subst h; simp [strStep]
  split
  · next h => subst h; simp [strStep]
  split
  · next h => subst h; simp [strStep]
  split
  · next h =>
      have : c = Char.ofNat 8 := by rw [← Char.ofNat_toNat c, h]
      subst this; simp [strStep]
  split
  · next h =>
      have : c = Char.ofNat 12 := by rw [← Char.ofNat_toNat c, h]
      subst this; simp [strStep]
  split
  · next h1 h2 _ _ _ _ _ h =>
      have : ¬ c.toNat < 32 := by omega
      simp [strStep, h1, h2, this]
  split
  · next h =>
      have hv := c.valid
      have hs : c.toNat < 0xd800 ∨ 0xdfff < c.toNat := by
        rcases hv with h' | h'
        · left; exact h'
        · right; exact h'.1
      simp only [escUnit, List.cons_append, strStep]
      rw [scanUnicodeEscape_bmp c.toNat h hs, Char.ofNat_toNat]
      simp
  · next h =>
      have hv := c.valid
      have hlt : c.toNat < 0x110000 := by
        rcases hv with h' | h'
        · have : c.toNat < 55296 := h'
          omega
        · exact h'.2
      simp only [escUnit, List.cons_append, List.append_assoc, strStep]
      have := scanUnicodeEscape_pair (c.toNat - 0x10000) (by omega) rest
      simp only [escUnit, List.cons_append] at this
      rw [this]
      have : 0x10000 + (c.toNat - 0x10000) = c.toNat := by omega
      rw [this, Char.ofNat_toNat]
      simp

theorem escChar_ne_nil (c : Char) : 1 ≤ (escChar c).length := by
  unfold escChar
  repeat' split
  all_goals simp [escUnit, hex4]

theorem parseStrBody_escChars : ∀ (s : List Char) (fuel : Nat) (rest : List Char), s.length < fuel →
    parseStrBody fuel (escChars s ++ '"' :: rest) = some (s, rest)
  | [], fuel + 1, rest, _ => by simp [escChars, parseStrBody, strStep]
  | c :: s, fuel + 1, rest, h => by
      simp only [escChars, List.append_assoc, parseStrBody, strStep_escChar]
      rw [parseStrBody_escChars s fuel rest (by simpa using h)]
      rfl

theorem escChars_length (s : List Char) : s.length ≤ (escChars s).length := by
  induction s with
  | nil => simp [escChars]
  | cons c s ih => have := escChar_ne_nil c; simp [escChars]; omega

/-- a written string body is read back, whatever follows the closing quote -/
theorem parseStr_escChars (s rest : List Char) : parseStr (escChars s ++ '"' :: rest) = some (s, rest) := by
  unfold parseStr
  apply parseStrBody_escChars
  have := escChars_length s
  simp; omega

theorem parseString_renderString (s rest : List Char) : parseString (renderString s ++ rest) = some (s, rest) := by
  simp [renderString, parseString, parseStr_escChars]

/-! ## atoms -/

theorem stripPrefix_append (p rest : List Char) : stripPrefix p (p ++ rest) = some rest := by
  induction p with
  | nil => cases rest <;> rfl
  | cons c p ih => simp [stripPrefix, ih]

/-- a digit or `-` is none of the characters the parser dispatches on before it tries a number -/
theorem numHead_ne {c : Char} (h : isDigit c = true ∨ c = '-') :
    ∀ x ∈ ['n', 't', 'f', '"', '{', '[', ']', '}', ' ', '\t', '\n', '\r', ','], c ≠ x := by
  intro x hx hcx
  subst hcx
  simp only [List.mem_cons, List.not_mem_nil, or_false] at hx
  rcases hx with rfl | rfl | rfl | rfl | rfl | rfl | rfl | rfl | rfl | rfl | rfl | rfl | rfl <;>
    (rcases h with h | h <;> revert h <;> decide)

theorem numHead_notWs {c : Char} (h : isDigit c = true ∨ c = '-') : isWs c = false := by
  have := numHead_ne h
  cases hw : isWs c with
  | false => rfl
  | true =>
    rcases (isWs_iff c).1 hw with h' | h' | h' | h'
    · exact absurd h' (this _ (by simp))
    · exact absurd h' (this _ (by simp))
    · exact absurd h' (this _ (by simp))
    · exact absurd h' (this _ (by simp))

/-- a complete NUMBER_RE match followed by a delimiter: handed to `int()` or to `float()` -/
theorem parseAtom_number (ft : FloatText) (lx rest : List Char) (fl : Bool)
    (hs : scanNumber lx = some (lx, fl, [])) (hr : Delim rest) :
    parseAtom ft (lx ++ rest) =
      if fl then (ft.readF lx).map (fun x => (.float x, rest)) else some (.int (readInt lx), rest) := by
  obtain ⟨c, tl, hc, hh⟩ := scanNumber_head hs
  have hne := numHead_ne hh
  have h1 : ('n' = c) = False := by simpa using (hne 'n' (by simp)).symm
  have h2 : ('t' = c) = False := by simpa using (hne 't' (by simp)).symm
  have h3 : ('f' = c) = False := by simpa using (hne 'f' (by simp)).symm
  have hsc := scanNumber_append lx rest hr lx fl hs
  unfold parseAtom
  rw [hsc]
  subst hc
  simp [stripPrefix, tNull, tTrue, tFalse, h1, h2, h3]

theorem parseVal_atom (ft : FloatText) (fuel : Nat) (c : Char) (cs : List Char)
    (h1 : c ≠ '"') (h2 : c ≠ '{') (h3 : c ≠ '[') : parseVal ft (fuel + 1) (c :: cs) = parseAtom ft (c :: cs) := by
  simp [parseVal, h1, h2, h3]

theorem parseVal_number (ft : FloatText) (fuel : Nat) (lx rest : List Char) (fl : Bool)
    (hs : scanNumber lx = some (lx, fl, [])) (hr : Delim rest) :
    parseVal ft (fuel + 1) (lx ++ rest) =
      if fl then (ft.readF lx).map (fun x => (.float x, rest)) else some (.int (readInt lx), rest) := by
  obtain ⟨c, tl, hc, hh⟩ := scanNumber_head hs
  have hne := numHead_ne hh
  rw [← parseAtom_number ft lx rest fl hs hr]
  subst hc
  exact parseVal_atom ft fuel c _ (hne _ (by simp)) (hne _ (by simp)) (hne _ (by simp))

theorem parseVal_null (ft : FloatText) (fuel : Nat) (rest : List Char) :
    parseVal ft (fuel + 1) (tNull ++ rest) = some (.null, rest) := by
  simp [tNull, parseVal, parseAtom, stripPrefix]

theorem parseVal_true (ft : FloatText) (fuel : Nat) (rest : List Char) :
    parseVal ft (fuel + 1) (tTrue ++ rest) = some (.bool true, rest) := by
  simp [tTrue, tNull, parseVal, parseAtom, stripPrefix]

theorem parseVal_false (ft : FloatText) (fuel : Nat) (rest : List Char) :
    parseVal ft (fuel + 1) (tFalse ++ rest) = some (.bool false, rest) := by
  simp [tFalse, tTrue, tNull, parseVal, parseAtom, stripPrefix]

theorem parseVal_nan (ft : FloatText) (fuel : Nat) (rest : List Char) :
    parseVal ft (fuel + 1) (tNaN ++ rest) = some (.float .nan, rest) := by
  simp [tNaN, tFalse, tTrue, tNull, parseVal, parseAtom, stripPrefix, scanNumber, scanIntPart, scanNat, isDigit]

theorem parseVal_inf (ft : FloatText) (fuel : Nat) (rest : List Char) :
    parseVal ft (fuel + 1) (tInf ++ rest) = some (.float (.num posInfBits), rest) := by
  simp [tInf, tNaN, tFalse, tTrue, tNull, parseVal, parseAtom, stripPrefix, scanNumber, scanIntPart, scanNat, isDigit]

theorem parseVal_neginf (ft : FloatText) (fuel : Nat) (rest : List Char) :
    parseVal ft (fuel + 1) (tNegInf ++ rest) = some (.float (.num negInfBits), rest) := by
  simp [tNegInf, tInf, tNaN, tFalse, tTrue, tNull, parseVal, parseAtom, stripPrefix, scanNumber, scanIntPart, scanNat,
    isDigit]

/-! ## the tree: fuel, float leaves, first characters -/

mutual
  /-- fuel `parseVal` needs for the text of a tree -/
  def need : JVal → Nat
    | .arr xs => 1 + needL xs
    | .obj ms => 1 + needM ms
    | _ => 1
  def needL : JList → Nat
    | .nil => 0
    | .cons v vs => 1 + need v + needL vs
  def needM : JKVs → Nat
    | .nil => 0
    | .cons _ v ms => 1 + need v + needM ms
end

mutual
  /-- every finite float leaf of the tree satisfies the two computable facts `floatOkB` -/
  def FloatsOK (ft : FloatText) : JVal → Prop
    | .float (.num b) => b = posInfBits ∨ b = negInfBits ∨ floatOkB ft b = true
    | .arr xs => FloatsOKL ft xs
    | .obj ms => FloatsOKM ft ms
    | _ => True
  def FloatsOKL (ft : FloatText) : JList → Prop
    | .nil => True
    | .cons v vs => FloatsOK ft v ∧ FloatsOKL ft vs
  def FloatsOKM (ft : FloatText) : JKVs → Prop
    | .nil => True
    | .cons _ v ms => FloatsOK ft v ∧ FloatsOKM ft ms
end

/-- the layout only inserts JSON whitespace -/
def Layout.WS (lay : Layout) : Prop := (∀ k, AllWs (lay.nl k)) ∧ AllWs lay.sp

theorem pyLayout_ws : pyLayout.WS := by
  refine ⟨fun k c hc => ?_, fun c hc => ?_⟩
  · simp only [pyLayout, List.mem_cons, List.mem_replicate] at hc
    rcases hc with rfl | ⟨_, rfl⟩ <;> decide
  · simp only [pyLayout, List.mem_singleton] at hc
    subst hc; decide

theorem compactLayout_ws : compactLayout.WS := ⟨fun _ _ h => by simp [compactLayout] at h, fun _ h => by simp [compactLayout] at h⟩

theorem floatOk_spec {ft : FloatText} {b : Nat} (h : floatOkB ft b = true) :
    scanNumber (ft.reprF b) = some (ft.reprF b, true, []) ∧ ft.readF (ft.reprF b) = some (.num b) := by
  simpa [floatOkB] using h

/-- a value starts with a character that is neither whitespace nor a closing bracket -/
def StartsValue (cs : List Char) : Prop := ∃ c tl, cs = c :: tl ∧ isWs c = false ∧ c ≠ ']' ∧ c ≠ '}'

theorem startsValue_num {c : Char} (tl : List Char) (h : isDigit c = true ∨ c = '-') : StartsValue (c :: tl) :=
  ⟨c, tl, rfl, numHead_notWs h, numHead_ne h _ (by simp), numHead_ne h _ (by simp)⟩

theorem renderAt_starts (ft : FloatText) (lay : Layout) (lvl : Nat) (j : JVal) (hf : FloatsOK ft j) :
    StartsValue (renderAt ft lay lvl j) := by
  cases j with
  | null => exact ⟨'n', _, rfl, by decide, by decide, by decide⟩
  | bool b => cases b <;> exact ⟨_, _, rfl, by decide, by decide, by decide⟩
  | int n =>
    obtain ⟨c, tl, h1, h2⟩ := renderInt_head n
    simp only [renderAt, h1]; exact startsValue_num tl h2
  | float x =>
    cases x with
    | nan => exact ⟨'N', _, rfl, by decide, by decide, by decide⟩
    | num b =>
      simp only [renderAt, renderFloat]
      split
      · exact ⟨'I', _, rfl, by decide, by decide, by decide⟩
      split
      · exact ⟨'-', _, rfl, by decide, by decide, by decide⟩
      · next h1 h2 =>
        have hf' : floatOkB ft b = true := by
          simp only [FloatsOK] at hf
          rcases hf with h | h | h
          · exact absurd h h1
          · exact absurd h h2
          · exact h
        obtain ⟨c, tl, h3, h4⟩ := scanNumber_head (floatOk_spec hf').1
        rw [h3]; exact startsValue_num tl h4
  | str s => exact ⟨'"', _, rfl, by decide, by decide, by decide⟩
  | arr xs =>
    simp only [renderAt]
    split <;> exact ⟨'[', _, rfl, by decide, by decide, by decide⟩
  | obj ms =>
    simp only [renderAt]
    split <;> exact ⟨'{', _, rfl, by decide, by decide, by decide⟩

theorem skipWs_starts {cs : List Char} (h : StartsValue cs) (rest : List Char) : skipWs (cs ++ rest) = cs ++ rest := by
  obtain ⟨c, tl, rfl, hw, _, _⟩ := h
  simp [skipWs, hw]

/-! ## one step of each parser loop -/

theorem skipWs_ws_cons (ws : List Char) (c : Char) (tl : List Char) (hws : AllWs ws) (hw : isWs c = false) :
    skipWs (ws ++ c :: tl) = c :: tl := by
  rw [skipWs_append _ _ hws, skipWs_cons c tl hw]

theorem parseVal_arr_cons (ft : FloatText) (fuel : Nat) (ws : List Char) (c : Char) (tl : List Char)
    (hws : AllWs ws) (hw : isWs c = false) (hb : c ≠ ']') :
    parseVal ft (fuel + 1) ('[' :: (ws ++ c :: tl)) = (parseElems ft fuel (c :: tl)).map (fun p => (.arr p.1, p.2)) := by
  simp [parseVal, skipWs_ws_cons ws c tl hws hw, hb]

theorem parseVal_obj_cons (ft : FloatText) (fuel : Nat) (ws body : List Char) (hws : AllWs ws) :
    parseVal ft (fuel + 1) ('{' :: (ws ++ '"' :: body)) = (parseMembers ft fuel body).map (fun p => (.obj p.1, p.2)) := by
  simp [parseVal, skipWs_ws_cons ws '"' body hws (by decide)]

theorem parseElems_last (ft : FloatText) (fuel : Nat) (cs : List Char) (v : JVal) (ws rest : List Char) (hws : AllWs ws)
    (h : parseVal ft fuel cs = some (v, ws ++ ']' :: rest)) : parseElems ft (fuel + 1) cs = some (.cons v .nil, rest) := by
  simp [parseElems, h, skipWs_ws_cons ws ']' rest hws (by decide)]

theorem parseElems_more (ft : FloatText) (fuel : Nat) (cs : List Char) (v : JVal) (ws cs' : List Char) (hws : AllWs ws)
    (hst : skipWs cs' = cs') (h : parseVal ft fuel cs = some (v, ',' :: (ws ++ cs'))) :
    parseElems ft (fuel + 1) cs = (parseElems ft fuel cs').map (fun p => (.cons v p.1, p.2)) := by
  simp [parseElems, h, skipWs_cons ',' _ (by decide), skipWs_append _ _ hws, hst]

theorem parseMembers_last (ft : FloatText) (fuel : Nat) (k sp cs : List Char) (v : JVal) (ws rest : List Char)
    (hsp : AllWs sp) (hws : AllWs ws) (hst : skipWs cs = cs) (h : parseVal ft fuel cs = some (v, ws ++ '}' :: rest)) :
    parseMembers ft (fuel + 1) (escChars k ++ '"' :: ':' :: (sp ++ cs)) = some (.cons (String.ofList k) v .nil, rest) := by
  simp [parseMembers, parseStr_escChars, skipWs_cons ':' _ (by decide), skipWs_append _ _ hsp, hst, h,
    skipWs_ws_cons ws '}' rest hws (by decide)]

theorem parseMembers_more (ft : FloatText) (fuel : Nat) (k sp cs : List Char) (v : JVal) (ws body : List Char)
    (hsp : AllWs sp) (hws : AllWs ws) (hst : skipWs cs = cs)
    (h : parseVal ft fuel cs = some (v, ',' :: (ws ++ '"' :: body))) :
    parseMembers ft (fuel + 1) (escChars k ++ '"' :: ':' :: (sp ++ cs)) =
      (parseMembers ft fuel body).map (fun p => (.cons (String.ofList k) v p.1, p.2)) := by
  simp [parseMembers, parseStr_escChars, skipWs_cons ':' _ (by decide), skipWs_append _ _ hsp, hst, h,
    skipWs_cons ',' _ (by decide), skipWs_ws_cons ws '"' body hws (by decide)]

theorem need_pos (j : JVal) : 1 ≤ need j := by
  cases j <;> simp [need]

/-! ## `parse ∘ render = id` by mutual structural induction -/

mutual
  theorem parseVal_renderAt (ft : FloatText) (lay : Layout) (hl : lay.WS) :
      ∀ (j : JVal) (lvl fuel : Nat) (rest : List Char), FloatsOK ft j → Delim rest → need j ≤ fuel →
        parseVal ft fuel (renderAt ft lay lvl j ++ rest) = some (j, rest)
    | j, _, 0, _, _, _, hn => by have := need_pos j; omega
    | .null, _, fuel + 1, rest, _, _, _ => parseVal_null ft fuel rest
    | .bool true, _, fuel + 1, rest, _, _, _ => parseVal_true ft fuel rest
    | .bool false, _, fuel + 1, rest, _, _, _ => parseVal_false ft fuel rest
    | .int n, _, fuel + 1, rest, _, hr, _ => by
        simp only [renderAt]
        rw [parseVal_number ft fuel _ rest false (scanNumber_renderInt n) hr]
        simp [readInt_renderInt]
    | .float .nan, _, fuel + 1, rest, _, _, _ => parseVal_nan ft fuel rest
    | .float (.num b), _, fuel + 1, rest, hf, hr, _ => by
        simp only [renderAt, renderFloat]
        split
        · next h => subst h; exact parseVal_inf ft fuel rest
        split
        · next h => subst h; exact parseVal_neginf ft fuel rest
        · next h1 h2 =>
          have hf' : floatOkB ft b = true := by
            simp only [FloatsOK] at hf
            rcases hf with h | h | h
            · exact absurd h h1
            · exact absurd h h2
            · exact h
          have hs := floatOk_spec hf'
          rw [parseVal_number ft fuel _ rest true hs.1 hr]
          simp [hs.2]
    | .str s, _, fuel + 1, rest, _, _, _ => by
        simp only [renderAt, renderString, List.cons_append, List.append_assoc, parseVal]
        simp [parseStr_escChars, String.ofList_toList]
    | .arr .nil, _, fuel + 1, rest, _, _, _ => by
        simp [renderAt, isNilL, parseVal, skipWs, isWs]
    | .arr (.cons v vs), lvl, fuel + 1, rest, hf, _, hn => by
        have hf' : FloatsOKL ft (.cons v vs) := by simpa [FloatsOK] using hf
        have hn' : needL (.cons v vs) ≤ fuel := by simp only [need] at hn; omega
        have ih := parseElems_renderElems ft lay hl (.cons v vs) (lvl + 1) fuel rest (lay.nl lvl) (by simp)
          (hl.1 lvl) hf' hn'
        obtain ⟨c, tl, hc, hw, hb, _⟩ : StartsValue (renderElems ft lay (lvl + 1) (.cons v vs)) := by
          obtain ⟨c, tl, hc, h⟩ := renderAt_starts ft lay (lvl + 1) v hf'.1
          exact ⟨c, _, by simp only [renderElems, hc, List.cons_append]; rfl, h⟩
        simp only [renderAt, isNilL, Bool.false_eq_true, if_false, List.cons_append, List.append_assoc, List.nil_append]
        rw [hc] at ih ⊢
        simp only [List.cons_append] at ih ⊢
        rw [parseVal_arr_cons ft fuel _ c _ (hl.1 (lvl + 1)) hw hb, ih]; rfl
    | .obj .nil, _, fuel + 1, rest, _, _, _ => by
        simp [renderAt, isNilM, parseVal, skipWs, isWs]
    | .obj (.cons k v ms), lvl, fuel + 1, rest, hf, _, hn => by
        have hf' : FloatsOKM ft (.cons k v ms) := by simpa [FloatsOK] using hf
        have hn' : needM (.cons k v ms) ≤ fuel := by simp only [need] at hn; omega
        have ih := parseMembers_renderMembers ft lay hl (.cons k v ms) (lvl + 1) fuel rest (lay.nl lvl) (by simp)
          (hl.1 lvl) hf' hn'
        obtain ⟨body, hb⟩ : ∃ body, renderMembers ft lay (lvl + 1) (.cons k v ms) = '"' :: body := by
          simp [renderMembers, renderString]
        simp only [renderAt, isNilM, Bool.false_eq_true, if_false, List.cons_append, List.append_assoc, List.nil_append]
        rw [hb] at ih ⊢
        simp only [List.cons_append, List.drop_succ_cons, List.drop_zero] at ih ⊢
        rw [parseVal_obj_cons ft fuel _ _ (hl.1 (lvl + 1)), ih]; rfl
  theorem parseElems_renderElems (ft : FloatText) (lay : Layout) (hl : lay.WS) :
      ∀ (xs : JList) (lvl fuel : Nat) (rest ws : List Char), xs ≠ .nil → AllWs ws → FloatsOKL ft xs → needL xs ≤ fuel →
        parseElems ft fuel (renderElems ft lay lvl xs ++ (ws ++ ']' :: rest)) = some (xs, rest)
    | .nil, _, _, _, _, h, _, _, _ => absurd rfl h
    | .cons _ _, _, 0, _, _, _, _, _, hn => by simp only [needL] at hn; omega
    | .cons v .nil, lvl, fuel + 1, rest, ws, _, hws, hf, hn => by
        have hv := parseVal_renderAt ft lay hl v lvl fuel (ws ++ ']' :: rest) hf.1
          (delim_ws_append ws ']' rest hws (Or.inl rfl)) (by simp only [needL] at hn; omega)
        simp only [renderElems, isNilL, if_true, List.append_nil]
        exact parseElems_last ft fuel _ v ws rest hws hv
    | .cons v (.cons v' vs), lvl, fuel + 1, rest, ws, _, hws, hf, hn => by
        have hn2 : 1 + need v + needL (.cons v' vs) ≤ fuel + 1 := by simpa only [needL] using hn
        have hv := parseVal_renderAt ft lay hl v lvl fuel
          (',' :: (lay.nl lvl ++ (renderElems ft lay lvl (.cons v' vs) ++ (ws ++ ']' :: rest)))) hf.1
          (by simp [Delim]) (by omega)
        have ih := parseElems_renderElems ft lay hl (.cons v' vs) lvl fuel rest ws (by simp) hws hf.2 (by omega)
        have hst : StartsValue (renderElems ft lay lvl (.cons v' vs)) := by
          obtain ⟨c, tl, hc, h⟩ := renderAt_starts ft lay lvl v' hf.2.1
          exact ⟨c, _, by simp only [renderElems, hc, List.cons_append]; rfl, h⟩
        rw [renderElems]
        simp only [isNilL, Bool.false_eq_true, if_false, List.cons_append, List.append_assoc]
        rw [parseElems_more ft fuel _ v (lay.nl lvl) _ (hl.1 lvl) (skipWs_starts hst _) hv, ih]; rfl
  theorem parseMembers_renderMembers (ft : FloatText) (lay : Layout) (hl : lay.WS) :
      ∀ (ms : JKVs) (lvl fuel : Nat) (rest ws : List Char), ms ≠ .nil → AllWs ws → FloatsOKM ft ms → needM ms ≤ fuel →
        parseMembers ft fuel ((renderMembers ft lay lvl ms ++ (ws ++ '}' :: rest)).drop 1) = some (ms, rest)
    | .nil, _, _, _, _, h, _, _, _ => absurd rfl h
    | .cons _ _ _, _, 0, _, _, _, _, _, hn => by simp only [needM] at hn; omega
    | .cons k v .nil, lvl, fuel + 1, rest, ws, _, hws, hf, hn => by
        have hv := parseVal_renderAt ft lay hl v lvl fuel (ws ++ '}' :: rest) hf.1
          (delim_ws_append ws '}' rest hws (Or.inr rfl)) (by simp only [needM] at hn; omega)
        have hst := renderAt_starts ft lay lvl v hf.1
        simp only [renderMembers, renderString, isNilM, if_true, List.append_nil, List.cons_append, List.append_assoc,
          List.drop_succ_cons, List.drop_zero, List.nil_append]
        rw [parseMembers_last ft fuel _ lay.sp _ v ws rest hl.2 hws (skipWs_starts hst _) hv, String.ofList_toList]
    | .cons k v (.cons k' v' ms), lvl, fuel + 1, rest, ws, _, hws, hf, hn => by
        have hn2 : 1 + need v + needM (.cons k' v' ms) ≤ fuel + 1 := by simpa only [needM] using hn
        have hv := parseVal_renderAt ft lay hl v lvl fuel
          (',' :: (lay.nl lvl ++ (renderMembers ft lay lvl (.cons k' v' ms) ++ (ws ++ '}' :: rest)))) hf.1
          (by simp [Delim]) (by omega)
        have ih := parseMembers_renderMembers ft lay hl (.cons k' v' ms) lvl fuel rest ws (by simp) hws hf.2 (by omega)
        have hst := renderAt_starts ft lay lvl v hf.1
        obtain ⟨body, hb⟩ : ∃ body, renderMembers ft lay lvl (.cons k' v' ms) ++ (ws ++ '}' :: rest) = '"' :: body := by
          simp [renderMembers, renderString]
        rw [hb] at ih hv
        simp only [List.drop_succ_cons, List.drop_zero] at ih
        rw [renderMembers]
        simp only [renderString, isNilM, Bool.false_eq_true, if_false, List.cons_append, List.append_assoc,
          List.drop_succ_cons, List.drop_zero, List.nil_append]
        rw [hb, parseMembers_more ft fuel _ lay.sp _ v (lay.nl lvl) body hl.2 (hl.1 lvl) (skipWs_starts hst _) hv, ih,
          String.ofList_toList]; rfl
end

/-! ## the fuel `parse` hands out is enough -/

theorem starts_length {cs : List Char} (h : StartsValue cs) : 1 ≤ cs.length := by
  obtain ⟨c, tl, rfl, _⟩ := h; simp

mutual
  theorem need_le (ft : FloatText) (lay : Layout) :
      ∀ (j : JVal) (lvl : Nat), FloatsOK ft j → need j ≤ (renderAt ft lay lvl j).length
    | .arr .nil, _, _ => by simp [need, needL, renderAt, isNilL]
    | .arr (.cons v vs), lvl, hf => by
        have := needL_le ft lay (.cons v vs) (lvl + 1) (by simpa [FloatsOK] using hf)
        simp only [need, renderAt, isNilL, Bool.false_eq_true, if_false, List.length_cons, List.length_append,
          List.length_nil] at this ⊢
        omega
    | .obj .nil, _, _ => by simp [need, needM, renderAt, isNilM]
    | .obj (.cons k v ms), lvl, hf => by
        have := needM_le ft lay (.cons k v ms) (lvl + 1) (by simpa [FloatsOK] using hf)
        simp only [need, renderAt, isNilM, Bool.false_eq_true, if_false, List.length_cons, List.length_append,
          List.length_nil] at this ⊢
        omega
    | .null, lvl, hf => by have := starts_length (renderAt_starts ft lay lvl .null hf); simpa [need] using this
    | .bool b, lvl, hf => by have := starts_length (renderAt_starts ft lay lvl (.bool b) hf); simpa [need] using this
    | .int n, lvl, hf => by have := starts_length (renderAt_starts ft lay lvl (.int n) hf); simpa [need] using this
    | .float x, lvl, hf => by have := starts_length (renderAt_starts ft lay lvl (.float x) hf); simpa [need] using this
    | .str s, lvl, hf => by have := starts_length (renderAt_starts ft lay lvl (.str s) hf); simpa [need] using this
  theorem needL_le (ft : FloatText) (lay : Layout) :
      ∀ (xs : JList) (lvl : Nat), FloatsOKL ft xs → needL xs ≤ (renderElems ft lay lvl xs).length + 1
    | .nil, _, _ => by simp [needL]
    | .cons v .nil, lvl, hf => by
        have := need_le ft lay v lvl hf.1
        simp only [needL, renderElems, isNilL, if_true, List.append_nil]; omega
    | .cons v (.cons v' vs), lvl, hf => by
        have h1 := need_le ft lay v lvl hf.1
        have h2 := needL_le ft lay (.cons v' vs) lvl hf.2
        rw [renderElems]
        simp only [isNilL, Bool.false_eq_true, if_false, List.length_cons, List.length_append]
        simp only [needL] at h2 ⊢
        omega
  theorem needM_le (ft : FloatText) (lay : Layout) :
      ∀ (ms : JKVs) (lvl : Nat), FloatsOKM ft ms → needM ms ≤ (renderMembers ft lay lvl ms).length + 1
    | .nil, _, _ => by simp [needM]
    | .cons k v .nil, lvl, hf => by
        have := need_le ft lay v lvl hf.1
        simp only [needM, renderMembers, isNilM, if_true, List.append_nil, List.length_cons, List.length_append]; omega
    | .cons k v (.cons k' v' ms), lvl, hf => by
        have h1 := need_le ft lay v lvl hf.1
        have h2 := needM_le ft lay (.cons k' v' ms) lvl hf.2
        rw [renderMembers]
        simp only [isNilM, Bool.false_eq_true, if_false, List.length_cons, List.length_append]
        simp only [needM] at h2 ⊢
        omega
end

/-- the text of a tree in ANY whitespace layout parses to that tree -/
theorem parse_renderAt (ft : FloatText) (lay : Layout) (hl : lay.WS) (j : JVal) (hf : FloatsOK ft j) :
    parse ft (renderAt ft lay 0 j) = some j := by
  have hst := renderAt_starts ft lay 0 j hf
  have hs : skipWs (renderAt ft lay 0 j) = renderAt ft lay 0 j := by simpa using skipWs_starts hst []
  have hp := parseVal_renderAt ft lay hl j 0 ((renderAt ft lay 0 j).length + 1) [] hf trivial
    (by have := need_le ft lay j 0 hf; omega)
  simp only [List.append_nil] at hp
  simp [parse, hs, hp, skipWs]

/-! ## sort_keys -/

theorem floatsOKM_insert (ft : FloatText) (k : String) (v : JVal) (hv : FloatsOK ft v) :
    ∀ ms : JKVs, FloatsOKM ft ms → FloatsOKM ft (insertMember k v ms)
  | .nil, _ => ⟨hv, trivial⟩
  | .cons k' v' rest, h => by
      simp only [insertMember]
      split
      · exact ⟨h.1, floatsOKM_insert ft k v hv rest h.2⟩
      · exact ⟨hv, h⟩

theorem floatsOKM_sort (ft : FloatText) : ∀ ms : JKVs, FloatsOKM ft ms → FloatsOKM ft (sortMembers ms)
  | .nil, _ => trivial
  | .cons k v rest, h => floatsOKM_insert ft k v h.1 _ (floatsOKM_sort ft rest h.2)

mutual
  theorem floatsOK_sortTree (ft : FloatText) : ∀ j : JVal, FloatsOK ft j → FloatsOK ft (sortTree j)
    | .null, h | .bool _, h | .int _, h | .float _, h | .str _, h => by simpa [sortTree] using h
    | .arr xs, h => by
        have := floatsOK_sortTreeL ft xs (by simpa [FloatsOK] using h)
        simpa [sortTree, FloatsOK] using this
    | .obj ms, h => by
        have := floatsOKM_sort ft _ (floatsOK_sortTreeKVs ft ms (by simpa [FloatsOK] using h))
        simpa [sortTree, FloatsOK] using this
  theorem floatsOK_sortTreeL (ft : FloatText) : ∀ xs : JList, FloatsOKL ft xs → FloatsOKL ft (sortTreeL xs)
    | .nil, _ => trivial
    | .cons v vs, h => ⟨floatsOK_sortTree ft v h.1, floatsOK_sortTreeL ft vs h.2⟩
  theorem floatsOK_sortTreeKVs (ft : FloatText) : ∀ ms : JKVs, FloatsOKM ft ms → FloatsOKM ft (sortTreeKVs ms)
    | .nil, _ => trivial
    | .cons _ v rest, h => ⟨floatsOK_sortTree ft v h.1, floatsOK_sortTreeKVs ft rest h.2⟩
end

theorem hasKey_insertMember (k : String) (v : JVal) (s : String) :
    ∀ ms : JKVs, (insertMember k v ms).hasKey s = (decide (k = s) || ms.hasKey s)
  | .nil => by simp [insertMember, JKVs.hasKey]
  | .cons k' v' rest => by
      simp only [insertMember]
      split
      · simp only [JKVs.hasKey, hasKey_insertMember k v s rest]
        cases decide (k' = s) <;> cases decide (k = s) <;> simp
      · simp [JKVs.hasKey]

theorem hasKey_sortMembers (s : String) : ∀ ms : JKVs, (sortMembers ms).hasKey s = ms.hasKey s
  | .nil => rfl
  | .cons k v rest => by simp [sortMembers, hasKey_insertMember, hasKey_sortMembers s rest, JKVs.hasKey]

theorem hasKey_sortTreeKVs (s : String) : ∀ ms : JKVs, (sortTreeKVs ms).hasKey s = ms.hasKey s
  | .nil => rfl
  | .cons k v rest => by simp [sortTreeKVs, JKVs.hasKey, hasKey_sortTreeKVs s rest]

theorem nodup_insertMember (k : String) (v : JVal) (hv : NoDup v) :
    ∀ ms : JKVs, ms.hasKey k = false → NoDupKVs ms → NoDupKVs (insertMember k v ms)
  | .nil, _, _ => by simp [insertMember, NoDupKVs, JKVs.hasKey, hv]
  | .cons k' v' rest, hk, hn => by
      have hn' : rest.hasKey k' = false ∧ NoDup v' ∧ NoDupKVs rest := by simpa [NoDupKVs] using hn
      have hk' : ¬ k' = k ∧ rest.hasKey k = false := by simpa [JKVs.hasKey] using hk
      simp only [insertMember]
      split
      · have hne : ¬ k = k' := fun h => hk'.1 h.symm
        simp [NoDupKVs, hasKey_insertMember, hne, hn'.1, hn'.2.1, nodup_insertMember k v hv rest hk'.2 hn'.2.2]
      · simp [NoDupKVs, hk, hv, hn']

theorem nodup_sortMembers : ∀ ms : JKVs, NoDupKVs ms → NoDupKVs (sortMembers ms)
  | .nil, _ => trivial
  | .cons k v rest, h => by
      have h' : rest.hasKey k = false ∧ NoDup v ∧ NoDupKVs rest := by simpa [NoDupKVs] using h
      exact nodup_insertMember k v h'.2.1 _ (by rw [hasKey_sortMembers]; exact h'.1) (nodup_sortMembers rest h'.2.2)

mutual
  theorem nodup_sortTree : ∀ j : JVal, NoDup j → NoDup (sortTree j)
    | .null, h | .bool _, h | .int _, h | .float _, h | .str _, h => by simpa [sortTree] using h
    | .arr xs, h => by
        have := nodup_sortTreeL xs (by simpa [NoDup] using h)
        simpa [sortTree, NoDup] using this
    | .obj ms, h => by
        have := nodup_sortMembers _ (nodup_sortTreeKVs ms (by simpa [NoDup] using h))
        simpa [sortTree, NoDup] using this
  theorem nodup_sortTreeL : ∀ xs : JList, NoDupL xs → NoDupL (sortTreeL xs)
    | .nil, _ => trivial
    | .cons v vs, h => by
        have h' : NoDup v ∧ NoDupL vs := by simpa [NoDupL] using h
        simp [sortTreeL, NoDupL, nodup_sortTree v h'.1, nodup_sortTreeL vs h'.2]
  theorem nodup_sortTreeKVs : ∀ ms : JKVs, NoDupKVs ms → NoDupKVs (sortTreeKVs ms)
    | .nil, _ => trivial
    | .cons k v rest, h => by
        have h' : rest.hasKey k = false ∧ NoDup v ∧ NoDupKVs rest := by simpa [NoDupKVs] using h
        simp [sortTreeKVs, NoDupKVs, hasKey_sortTreeKVs, h'.1, nodup_sortTree v h'.2.1, nodup_sortTreeKVs rest h'.2.2]
end

/-- loading commutes with inserting a member whose name is new -/
theorem decodeKVs_insertMember (k : String) (v : JVal) :
    ∀ ms : JKVs, ms.hasKey k = false → NoDupKVs ms →
      decodeKVs (insertMember k v ms) = insertEntry (.kstr k) (decode v) (decodeKVs ms)
  | .nil, _, _ => by simp [insertMember, decodeKVs, JKVs.hasKey, insertEntry]
  | .cons k' v' rest, hk, hn => by
      have hn' : rest.hasKey k' = false ∧ NoDup v' ∧ NoDupKVs rest := by simpa [NoDupKVs] using hn
      have hk' : ¬ k' = k ∧ rest.hasKey k = false := by simpa [JKVs.hasKey] using hk
      have hne : ¬ k = k' := fun h => hk'.1 h.symm
      simp only [insertMember]
      split
      · next hlt =>
        simp [decodeKVs, hasKey_insertMember, hne, hn'.1, decodeKVs_insertMember k v rest hk'.2 hn'.2.2, insertEntry,
          keyLt, hlt]
      · next hlt =>
        simp [decodeKVs, hn'.1, insertEntry, keyLt, hlt, JKVs.hasKey, hk'.1, hk'.2]

theorem decodeKVs_sortMembers : ∀ ms : JKVs, NoDupKVs ms → decodeKVs (sortMembers ms) = sortEntries (decodeKVs ms)
  | .nil, _ => rfl
  | .cons k v rest, h => by
      have h' : rest.hasKey k = false ∧ NoDup v ∧ NoDupKVs rest := by simpa [NoDupKVs] using h
      simp only [sortMembers]
      rw [decodeKVs_insertMember k v _ (by rw [hasKey_sortMembers]; exact h'.1) (nodup_sortMembers rest h'.2.2),
        decodeKVs_sortMembers rest h'.2.2]
      simp [decodeKVs, h'.1, sortEntries]

mutual
  /-- loading a tree whose members were sorted = sorting the entries of every dict of the loaded value -/
  theorem decode_sortTree : ∀ j : JVal, NoDup j → decode (sortTree j) = sortPy (decode j)
    | .null, _ | .bool _, _ | .int _, _ | .float _, _ | .str _, _ => by simp [sortTree, decode, sortPy]
    | .arr xs, h => by
        simp [sortTree, decode, sortPy, decode_sortTreeL xs (by simpa [NoDup] using h)]
    | .obj ms, h => by
        have hm : NoDupKVs ms := by simpa [NoDup] using h
        simp [sortTree, decode, sortPy, decodeKVs_sortMembers _ (nodup_sortTreeKVs ms hm), decode_sortTreeKVs ms hm]
  theorem decode_sortTreeL : ∀ xs : JList, NoDupL xs → decodeL (sortTreeL xs) = sortPyL (decodeL xs)
    | .nil, _ => rfl
    | .cons v vs, h => by
        have h' : NoDup v ∧ NoDupL vs := by simpa [NoDupL] using h
        simp [sortTreeL, decodeL, sortPyL, decode_sortTree v h'.1, decode_sortTreeL vs h'.2]
  theorem decode_sortTreeKVs : ∀ ms : JKVs, NoDupKVs ms → decodeKVs (sortTreeKVs ms) = sortPyKVs (decodeKVs ms)
    | .nil, _ => rfl
    | .cons k v rest, h => by
        have h' : rest.hasKey k = false ∧ NoDup v ∧ NoDupKVs rest := by simpa [NoDupKVs] using h
        simp [sortTreeKVs, decodeKVs, hasKey_sortTreeKVs, h'.1, sortPyKVs, decode_sortTree v h'.2.1,
          decode_sortTreeKVs rest h'.2.2]
end

/-! ## the written text is printable ASCII -/

/-- printable ASCII `' '..'~'` -/
def Printable (c : Char) : Prop := 32 ≤ c.toNat ∧ c.toNat ≤ 126
/-- printable ASCII or a newline -/
def OkChar (c : Char) : Prop := c = '\n' ∨ Printable c
instance (c : Char) : Decidable (Printable c) := by unfold Printable; infer_instance
instance (c : Char) : Decidable (OkChar c) := by unfold OkChar; infer_instance

theorem printable_hexDigit : ∀ d, d < 16 → Printable (hexDigit d) := by decide
theorem printable_of_isDigit {c : Char} (h : isDigit c = true) : Printable c := by
  simp [isDigit] at h; exact ⟨by omega, by omega⟩

theorem escUnit_printable (v : Nat) : ∀ x ∈ escUnit v, Printable x := by
  intro x hx
  simp only [escUnit, hex4, List.mem_cons, List.not_mem_nil, or_false] at hx
  rcases hx with rfl | rfl | rfl | rfl | rfl | rfl
  · decide
  · decide
  all_goals exact printable_hexDigit _ (Nat.mod_lt _ (by decide))

theorem escChar_printable (c : Char) : ∀ x ∈ escChar c, Printable x := by
  unfold escChar
  repeat' split
  all_goals intro x hx
  · simp at hx; rcases hx with rfl | rfl <;> decide
  · simp at hx; rcases hx with rfl | rfl <;> decide
  · simp at hx; rcases hx with rfl | rfl <;> decide
  · simp at hx; rcases hx with rfl | rfl <;> decide
  · simp at hx; rcases hx with rfl | rfl <;> decide
  · simp at hx; rcases hx with rfl | rfl <;> decide
  · simp at hx; rcases hx with rfl | rfl <;> decide
  · next h => simp at hx; subst hx; exact h
  · exact escUnit_printable _ x hx
  · rcases List.mem_append.1 hx with h | h <;> exact escUnit_printable _ x h

theorem renderString_printable (s : List Char) : ∀ x ∈ renderString s, Printable x := by
  have he : ∀ s : List Char, ∀ x ∈ escChars s, Printable x := by
    intro s
    induction s with
    | nil => intro x hx; simp [escChars] at hx
    | cons c s ih =>
      intro x hx
      rcases List.mem_append.1 (by simpa [escChars] using hx) with h | h
      · exact escChar_printable c x h
      · exact ih x h
  intro x hx
  simp only [renderString, List.mem_cons, List.mem_append, List.not_mem_nil, or_false] at hx
  rcases hx with rfl | h | rfl
  · decide
  · exact he s x h
  · decide

theorem renderInt_printable (n : Int) : ∀ x ∈ renderInt n, Printable x := by
  cases n with
  | ofNat n =>
    intro x hx
    exact printable_of_isDigit (digitsSpec_digits n x (by simpa [renderInt, natDigits_eq] using hx))
  | negSucc n =>
    intro x hx
    simp only [renderInt, List.mem_cons] at hx
    rcases hx with rfl | h
    · decide
    · exact printable_of_isDigit (digitsSpec_digits _ x (by simpa [natDigits_eq] using h))

/-- the alphabet of NUMBER_RE -/
def NumChar (c : Char) : Prop := isDigit c = true ∨ c = '-' ∨ c = '+' ∨ c = '.' ∨ c = 'e' ∨ c = 'E'

theorem numChar_printable {c : Char} (h : NumChar c) : Printable c := by
  rcases h with h | rfl | rfl | rfl | rfl | rfl
  · exact printable_of_isDigit h
  all_goals decide

theorem spanDigits_lex (cs : List Char) : ∀ c ∈ (spanDigits cs).1, isDigit c = true := by
  induction cs with
  | nil => intro c hc; simp [spanDigits] at hc
  | cons d cs ih =>
    intro c hc
    by_cases hd : isDigit d = true
    · simp only [spanDigits, hd, if_true, List.mem_cons] at hc
      rcases hc with rfl | h
      · exact hd
      · exact ih c h
    · simp [spanDigits, hd] at hc

theorem scanNat_lex {cs : List Char} {p : List Char × List Char} (h : scanNat cs = some p) :
    ∀ c ∈ p.1, isDigit c = true := by
  cases cs with
  | nil => simp [scanNat] at h
  | cons d cs =>
    by_cases h0 : d = '0'
    · simp [scanNat, h0] at h; subst h; intro c hc; simp at hc; subst hc; decide
    · by_cases hd : isDigit d = true
      · simp [scanNat, h0, hd] at h; subst h
        intro c hc
        simp only [List.mem_cons] at hc
        rcases hc with rfl | hc
        · exact hd
        · exact spanDigits_lex cs c hc
      · simp [scanNat, h0, hd] at h

theorem scanIntPart_lex {cs : List Char} {p : List Char × List Char} (h : scanIntPart cs = some p) :
    ∀ c ∈ p.1, NumChar c := by
  cases cs with
  | nil => simp [scanIntPart] at h
  | cons d cs =>
    by_cases hm : d = '-'
    · simp only [scanIntPart, hm, if_true] at h
      cases hn : scanNat cs with
      | none => simp [hn] at h
      | some q =>
        simp [hn] at h; subst h
        intro c hc
        simp only [List.mem_cons] at hc
        rcases hc with rfl | hc
        · exact Or.inr (Or.inl rfl)
        · exact Or.inl (scanNat_lex hn c hc)
    · simp only [scanIntPart, hm, if_false] at h
      intro c hc; exact Or.inl (scanNat_lex h c hc)

theorem scanFrac_lex (cs : List Char) : ∀ c ∈ (scanFrac cs).1, NumChar c := by
  cases cs with
  | nil => intro c hc; simp [scanFrac] at hc
  | cons d cs =>
    by_cases hp : d = '.'
    · simp only [scanFrac, hp, if_true]
      split
      · intro c hc; simp at hc
      · intro c hc
        simp only [List.mem_cons] at hc
        rcases hc with rfl | hc
        · exact Or.inr (Or.inr (Or.inr (Or.inl rfl)))
        · exact Or.inl (spanDigits_lex cs c hc)
    · intro c hc; simp [scanFrac, hp] at hc

theorem scanSign_lex (cs : List Char) : ∀ c ∈ (scanSign cs).1, c = '+' ∨ c = '-' := by
  cases cs with
  | nil => intro c hc; simp [scanSign] at hc
  | cons d cs =>
    by_cases hp : d = '+' ∨ d = '-'
    · intro c hc; simp [scanSign, hp] at hc; subst hc; exact hp
    · intro c hc; simp [scanSign, hp] at hc

theorem scanExp_lex (cs : List Char) : ∀ c ∈ (scanExp cs).1, NumChar c := by
  cases cs with
  | nil => intro c hc; simp [scanExp] at hc
  | cons d cs =>
    by_cases hp : d = 'e' ∨ d = 'E'
    · simp only [scanExp, hp, if_true]
      split
      · intro c hc; simp at hc
      · intro c hc
        simp only [List.mem_cons, List.mem_append] at hc
        rcases hc with rfl | hc | hc
        · rcases hp with rfl | rfl
          · exact Or.inr (Or.inr (Or.inr (Or.inr (Or.inl rfl))))
          · exact Or.inr (Or.inr (Or.inr (Or.inr (Or.inr rfl))))
        · rcases scanSign_lex cs c hc with rfl | rfl
          · exact Or.inr (Or.inr (Or.inl rfl))
          · exact Or.inr (Or.inl rfl)
        · exact Or.inl (spanDigits_lex _ c hc)
    · intro c hc; simp [scanExp, hp] at hc

/-- every character of a lexeme NUMBER_RE cuts out is in `0-9 - + . e E` -/
theorem scanNumber_lex {cs lx : List Char} {fl : Bool} {r : List Char} (h : scanNumber cs = some (lx, fl, r)) :
    ∀ c ∈ lx, NumChar c := by
  unfold scanNumber at h
  cases hi : scanIntPart cs with
  | none => simp [hi] at h
  | some p =>
    simp only [hi, Option.some.injEq, Prod.mk.injEq] at h
    obtain ⟨h1, _, _⟩ := h
    subst h1
    intro c hc
    rcases List.mem_append.1 hc with hc | hc
    · rcases List.mem_append.1 hc with hc | hc
      · exact scanIntPart_lex hi c hc
      · exact scanFrac_lex _ c hc
    · exact scanExp_lex _ c hc

theorem renderFloat_printable (ft : FloatText) (x : F64) (hf : FloatsOK ft (.float x)) :
    ∀ c ∈ renderFloat ft x, Printable c := by
  cases x with
  | nan => intro c hc; simp [renderFloat, tNaN] at hc; rcases hc with rfl | rfl | rfl <;> decide
  | num b =>
    simp only [renderFloat]
    split
    · intro c hc; simp [tInf] at hc; rcases hc with rfl | rfl | rfl | rfl | rfl | rfl | rfl | rfl <;> decide
    split
    · intro c hc; simp [tNegInf, tInf] at hc
      rcases hc with rfl | rfl | rfl | rfl | rfl | rfl | rfl | rfl | rfl <;> decide
    · next h1 h2 =>
      have hf' : floatOkB ft b = true := by
        simp only [FloatsOK] at hf
        rcases hf with h | h | h
        · exact absurd h h1
        · exact absurd h h2
        · exact h
      intro c hc
      exact numChar_printable (scanNumber_lex (floatOk_spec hf').1 c hc)

theorem pyNl_ok (k : Nat) : ∀ c ∈ pyLayout.nl k, OkChar c := by
  intro c hc
  simp only [pyLayout, List.mem_cons, List.mem_replicate] at hc
  rcases hc with rfl | ⟨_, rfl⟩
  · exact Or.inl rfl
  · exact Or.inr (by decide)

mutual
  theorem renderAt_ok (ft : FloatText) : ∀ (j : JVal) (lvl : Nat), FloatsOK ft j → ∀ c ∈ renderAt ft pyLayout lvl j, OkChar c
    | .null, _, _ => by intro c hc; simp [renderAt, tNull] at hc; rcases hc with rfl | rfl | rfl <;> exact Or.inr (by decide)
    | .bool true, _, _ => by
        intro c hc; simp [renderAt, tTrue] at hc; rcases hc with rfl | rfl | rfl | rfl <;> exact Or.inr (by decide)
    | .bool false, _, _ => by
        intro c hc; simp [renderAt, tFalse] at hc; rcases hc with rfl | rfl | rfl | rfl | rfl <;> exact Or.inr (by decide)
    | .int n, _, _ => fun c hc => Or.inr (renderInt_printable n c (by simpa [renderAt] using hc))
    | .float x, _, hf => fun c hc => Or.inr (renderFloat_printable ft x hf c (by simpa [renderAt] using hc))
    | .str s, _, _ => fun c hc => Or.inr (renderString_printable s.toList c (by simpa [renderAt] using hc))
    | .arr .nil, _, _ => by intro c hc; simp [renderAt, isNilL] at hc; rcases hc with rfl | rfl <;> exact Or.inr (by decide)
    | .arr (.cons v vs), lvl, hf => by
        have ih := renderElems_ok ft (.cons v vs) (lvl + 1) (by simpa [FloatsOK] using hf)
        intro c hc
        simp only [renderAt, isNilL, Bool.false_eq_true, if_false, List.mem_cons, List.mem_append, List.not_mem_nil,
          or_false] at hc
        rcases hc with rfl | h | h | h | rfl
        · exact Or.inr (by decide)
        · exact pyNl_ok _ c h
        · exact ih c h
        · exact pyNl_ok _ c h
        · exact Or.inr (by decide)
    | .obj .nil, _, _ => by intro c hc; simp [renderAt, isNilM] at hc; rcases hc with rfl | rfl <;> exact Or.inr (by decide)
    | .obj (.cons k v ms), lvl, hf => by
        have ih := renderMembers_ok ft (.cons k v ms) (lvl + 1) (by simpa [FloatsOK] using hf)
        intro c hc
        simp only [renderAt, isNilM, Bool.false_eq_true, if_false, List.mem_cons, List.mem_append, List.not_mem_nil,
          or_false] at hc
        rcases hc with rfl | h | h | h | rfl
        · exact Or.inr (by decide)
        · exact pyNl_ok _ c h
        · exact ih c h
        · exact pyNl_ok _ c h
        · exact Or.inr (by decide)
  theorem renderElems_ok (ft : FloatText) : ∀ (xs : JList) (lvl : Nat), FloatsOKL ft xs →
      ∀ c ∈ renderElems ft pyLayout lvl xs, OkChar c
    | .nil, _, _ => by intro c hc; simp [renderElems] at hc
    | .cons v vs, lvl, hf => by
        have h1 := renderAt_ok ft v lvl hf.1
        have h2 := renderElems_ok ft vs lvl hf.2
        intro c hc
        simp only [renderElems, List.mem_append] at hc
        rcases hc with h | h
        · exact h1 c h
        · split at h
          · simp at h
          · simp only [List.mem_cons, List.mem_append] at h
            rcases h with rfl | h | h
            · exact Or.inr (by decide)
            · exact pyNl_ok _ c h
            · exact h2 c h
  theorem renderMembers_ok (ft : FloatText) : ∀ (ms : JKVs) (lvl : Nat), FloatsOKM ft ms →
      ∀ c ∈ renderMembers ft pyLayout lvl ms, OkChar c
    | .nil, _, _ => by intro c hc; simp [renderMembers] at hc
    | .cons k v ms, lvl, hf => by
        have h1 := renderAt_ok ft v lvl hf.1
        have h2 := renderMembers_ok ft ms lvl hf.2
        intro c hc
        simp only [renderMembers, List.mem_append, List.mem_cons] at hc
        rcases hc with h | rfl | h | h | h
        · exact Or.inr (renderString_printable _ c h)
        · exact Or.inr (by decide)
        · simp [pyLayout] at h; subst h; exact Or.inr (by decide)
        · exact h1 c h
        · split at h
          · simp at h
          · simp only [List.mem_cons, List.mem_append] at h
            rcases h with rfl | h | h
            · exact Or.inr (by decide)
            · exact pyNl_ok _ c h
            · exact h2 c h
end
