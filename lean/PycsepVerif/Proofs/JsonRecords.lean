import PycsepVerif.Model.JsonRecords
import PycsepVerif.Proofs.JsonTree

/-! Helper lemmas for the record / region-dictionary layer of C18. -/
namespace JsonTree
open ResultJson (F64)

theorem normL_isNil (xs : PyList) : (normL xs).isNil = xs.isNil := by cases xs <;> rfl
theorem normKVs_isNil (kvs : PyKVs) : (normKVs kvs).isNil = kvs.isNil := by cases kvs <;> rfl

/-- the Python truth value survives normalisation (so `evaluations or []` commutes with the round trip) -/
theorem truthy_norm (v : PyObj) : truthy (norm v) = truthy v := by
  cases v <;> simp [norm, truthy, normL_isNil, normKVs_isNil]

theorem norm_list_nil : norm (.list .nil) = .list .nil := rfl

/-- the keys of a safe dict, as the list `list(d)` returns, are safe -/
theorem keyList_safe : ∀ (kvs : PyKVs), SafeKVs kvs → SafeL kvs.keyList
  | .nil, _ => trivial
  | .cons k v rest, h => by
      have h' : k.isStr = true ∧ rest.hasKey k = false ∧ Safe v ∧ SafeKVs rest := by simpa [SafeKVs] using h
      obtain ⟨s, rfl⟩ := (Key.isStr_iff k).1 h'.1
      simp [PyKVs.keyList, SafeL, Key.toObj, Safe, keyList_safe rest h'.2.2.2]

theorem strChars_safe (s : String) : SafeL (strChars s) := by
  unfold strChars
  generalize s.toList = cs
  induction cs with
  | nil => simp [PyList.ofList, SafeL]
  | cons c cs ih => simp [PyList.ofList, SafeL, Safe, ih]

/-- what to_dict hands to json for `test_distribution` is safe when the field is -/
theorem tdListT_safe {v td : PyObj} (h : tdListT v = some td) (hs : Safe v) : Safe td := by
  cases v <;> simp [tdListT] at h <;> subst h <;> simp_all [Safe]
  · exact strChars_safe _
  · exact keyList_safe _ hs

/-! ### region dictionaries -/

def pairObjs (os : List (F64 × F64)) : List (PyObj × PyObj) := os.map (fun o => (PyObj.pyFloat o.1, PyObj.pyFloat o.2))

theorem readPolys_polysOf : ∀ (os : List (F64 × F64)), readPolys (polysOf os) = some (pairObjs os)
  | [] => rfl
  | o :: os => by
      simp [polysOf, readPolys, polyDict, PyKVs.ofList, PyKVs.get, readPolys_polysOf os, pairObjs]

theorem floatPairs_pairObjs : ∀ (os : List (F64 × F64)), floatPairs (pairObjs os) = some os
  | [] => rfl
  | o :: os => by
      have ih := floatPairs_pairObjs os
      simp only [pairObjs] at ih ⊢
      simp [floatPairs, ih]

theorem floatList_ofList : ∀ (ms : List F64), floatList (PyList.ofList (ms.map PyObj.pyFloat)) = some ms
  | [] => rfl
  | m :: ms => by simp [PyList.ofList, floatList, floatList_ofList ms]

theorem polysOf_plain : ∀ (os : List (F64 × F64)), PlainL (polysOf os)
  | [] => trivial
  | o :: os => by
      simp [polysOf, PlainL, polyDict, PyKVs.ofList, Plain, PlainKVs, Key.isStr, PyKVs.hasKey, polysOf_plain os]

theorem pairObjs_isEmpty (os : List (F64 × F64)) : os.isEmpty = false ↔ os ≠ [] := by
  cases os <;> simp

end JsonTree
