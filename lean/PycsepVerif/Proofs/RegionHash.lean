import PycsepVerif.Proofs.RegionMid
import PycsepVerif.Proofs.Bin1dInterior
/-!
# The float midpoint of lattice cell i is hashed to column i

`NearLattice a dh xs`: the float edge array `xs` (2 ≤ n ≤ 2^16 edges) lies within 2^-41 of the exact lattice
`a + k·dh`, with `dh ≥ 2^-20` and all lattice coordinates (including the upper side `a + n·dh`) in [−2^10, 2^10].
2^-41 is four units in the last place at the largest allowed magnitude, so the nearest doubles of a decimal lattice
(½ ulp), the output of `cleaner_range` and origins computed as `anchor + k*dh` in binary64 all qualify.

`hash_axis`: any float within 2^-36 of the exact cell centre `a + (i + 1/2)·dh` is put into bin i by `bin1d_vec`.
`midpoint_hash_axis_x/y`: the centroid of `compute_vertex(o, dhf, eps)` is such a float when `o` is within 2^-41 of
`a + i·dh` and `dhf` within 2^-41 of `dh`.
-/
namespace Region
open Soft64 Bin1d

structure NearLattice (a dh : ℚ) (xs : List ℚ) : Prop where
  len2 : 2 ≤ xs.length
  len16 : xs.length ≤ 2 ^ 16
  dh_min : 1 / 2 ^ 20 ≤ dh
  lo : -(2 ^ 10) ≤ a
  hi : a + (xs.length : ℚ) * dh ≤ 2 ^ 10
  near : ∀ k (hk : k < xs.length), |xs[k] - (a + (k : ℚ) * dh)| ≤ 1 / 2 ^ 41

theorem binF_eq (xs : List ℚ) (p : ℚ) : binF xs.toArray p = bin1dF (cfg64 false) xs p := by
  unfold binF bin1dF
  simp

private theorem pow2_m1000_le : pow2 (-1000) ≤ 1 / 2 ^ 21 := by
  have h1 : pow2 (-1000) ≤ pow2 (-21) := Soft64R.pow2_le_pow2 (by norm_num)
  have h2 : pow2 (-21) = 1 / 2 ^ 21 := by rw [Soft64R.pow2_eq_zpow]; norm_num [zpow_neg]
  rw [h2] at h1; exact h1

private theorem fl64_pow2_m41 : fl64 (1 / 2 ^ 41) = 1 / 2 ^ 41 := by
  have := Soft64R.fl64_exact (m := 1) (j := -41) (by norm_num) (by norm_num)
  have h2 : pow2 (-41) = 1 / 2 ^ 41 := by rw [Soft64R.pow2_eq_zpow]; norm_num [zpow_neg]
  rw [h2] at this
  simpa using this

/-- the tolerance `|v|·ε` of a coordinate below 2^10 + 1 is at most 2^-41 -/
private theorem getTol_small (v : ℚ) (hv : |v| ≤ 2 ^ 10 + 1) : getTol .f64 v ≤ 1 / 2 ^ 41 := by
  unfold getTol DT.rnd DT.eps
  simp only
  apply Soft64R.fl64_le_of_le_float fl64_pow2_m41
  rw [fabs_eq_abs, eps64, pow2_m52]
  have : |v| * (1 / 2 ^ 52) ≤ (2 ^ 10 + 1) * (1 / 2 ^ 52) := mul_le_mul_of_nonneg_right hv (by positivity)
  have h2 : ((2 : ℚ) ^ 10 + 1) * (1 / 2 ^ 52) ≤ 1 / 2 ^ 41 := by norm_num
  linarith

/-- lattice coordinates stay inside [−2^10, 2^10] -/
private theorem coord_bounds {a dh : ℚ} {n : ℕ} (hd : 0 < dh) (lo : -(2 ^ 10) ≤ a) (hi : a + (n : ℚ) * dh ≤ 2 ^ 10)
    (k : ℕ) (hk : k ≤ n) : -(2 ^ 10) ≤ a + (k : ℚ) * dh ∧ a + (k : ℚ) * dh ≤ 2 ^ 10 := by
  have h1 : (0 : ℚ) ≤ (k : ℚ) * dh := by positivity
  have h2 : (k : ℚ) * dh ≤ (n : ℚ) * dh := mul_le_mul_of_nonneg_right (by exact_mod_cast hk) hd.le
  constructor <;> linarith

/-- **a float within 2^-36 of the exact centre of lattice cell i is binned to i** -/
theorem hash_axis (a dh : ℚ) (xs : List ℚ) (H : NearLattice a dh xs) (i : ℕ) (hi : i < xs.length) (m : ℚ)
    (hm : |m - (a + ((i : ℚ) + 1 / 2) * dh)| ≤ 1 / 2 ^ 36) :
    bin1dF (cfg64 false) xs m = (i : ℤ) := by
  obtain ⟨len2, len16, dh_min, lo, hiB, near⟩ := H
  set n := xs.length with hn_def
  have hd : 0 < dh := lt_of_lt_of_le (by positivity) dh_min
  have hn1 : (n == 1) = false := by simp; omega
  unfold bin1dF
  rw [← hn_def]
  set edge : ℕ → ℚ := fun k => xs.getD k 0 with hedge_def
  have hedge : ∀ k (hk : k < n), edge k = xs[k] := by
    intro k hk
    have hk' : k < xs.length := hk
    simp [hedge_def, List.getD_eq_getElem?_getD, hk']
  have hnear : ∀ k (hk : k < n), edge k - (a + (k : ℚ) * dh) ≤ 1 / 2 ^ 41 ∧ -(1 / 2 ^ 41) ≤ edge k - (a + (k : ℚ) * dh) := by
    intro k hk
    rw [hedge k hk]
    have := abs_le.mp (near k hk)
    exact ⟨this.2, this.1⟩
  obtain ⟨n0u, n0l⟩ := hnear 0 (by omega)
  obtain ⟨n1u, n1l⟩ := hnear 1 (by omega)
  simp only [Nat.cast_zero, zero_mul, add_zero, Nat.cast_one, one_mul] at n0u n0l n1u n1l
  obtain ⟨cnl, cnu⟩ := coord_bounds hd lo hiB n (le_refl _)
  obtain ⟨c1l, c1u⟩ := coord_bounds hd lo hiB 1 (by omega)
  obtain ⟨cil, ciu⟩ := coord_bounds hd lo hiB i (by omega)
  obtain ⟨cjl, cju⟩ := coord_bounds hd lo hiB (i + 1) (by omega)
  simp only [Nat.cast_one, one_mul] at c1l c1u
  push_cast at cjl cju
  -- the float step
  have hh_eq : hOf .f64 n edge = fl64 (edge 1 - edge 0) := by
    unfold hOf; simp only [hn1, DT.rnd]; rfl
  obtain ⟨f1, f2⟩ := fl_near' (edge 1 - edge 0) (by linarith) (by linarith)
  rw [← hh_eq] at f1 f2
  set h := hOf .f64 n edge with hh_def
  have hhlo : dh - 1 / 2 ^ 39 ≤ h := by linarith
  have hhup : h ≤ dh + 1 / 2 ^ 39 := by linarith
  have hh21 : 1 / 2 ^ 21 ≤ h := by
    have : (1 : ℚ) / 2 ^ 20 - 1 / 2 ^ 39 ≥ 1 / 2 ^ 21 := by norm_num
    linarith
  have hhpos : 0 < h := lt_of_lt_of_le (by positivity) hh21
  have hh41 : 1 / 2 ^ 41 ≤ h / 2 ^ 20 := by
    rw [le_div_iff₀ (by positivity)]
    have : (1 : ℚ) / 2 ^ 41 * 2 ^ 20 = 1 / 2 ^ 21 := by norm_num
    linarith
  -- the point
  obtain ⟨ml, mu⟩ := abs_le.mp hm
  have hiq : (i : ℚ) + 1 ≤ 2 ^ 16 := by
    have : i + 1 ≤ 2 ^ 16 := by omega
    exact_mod_cast this
  have hiq0 : (0 : ℚ) ≤ (i : ℚ) := by positivity
  have hmabs : |m| ≤ 2 ^ 10 + 1 := by
    rw [abs_le]
    constructor <;> linarith
  have he0abs : |edge 0| ≤ 2 ^ 10 + 1 := by
    rw [abs_le]; constructor <;> linarith
  -- products with the float step
  have p1 : ((i : ℚ) + 1 / 4) * h ≤ ((i : ℚ) + 1 / 4) * (dh + 1 / 2 ^ 39) :=
    mul_le_mul_of_nonneg_left hhup (by linarith)
  have p2 : ((i : ℚ) + 3 / 4) * (dh - 1 / 2 ^ 39) ≤ ((i : ℚ) + 3 / 4) * h :=
    mul_le_mul_of_nonneg_left hhlo (by linarith)
  have hrw : bin1dCore (cfg64 false) n edge m = (i : ℤ) := by
    apply bin1dCore_interior (by omega) (by
        have : (n : ℤ) ≤ 2 ^ 16 := by exact_mod_cast len16
        omega) edge m i hi (by omega)
    · exact le_trans pow2_m1000_le hh21
    · exact le_trans (getTol_small _ he0abs) hh41
    · exact le_trans (getTol_small _ hmabs) hh41
    · -- lower quarter
      have : ((i : ℚ) + 1 / 4) * (dh + 1 / 2 ^ 39) = ((i : ℚ) + 1 / 4) * dh + ((i : ℚ) + 1 / 4) * (1 / 2 ^ 39) := by ring
      have q : ((i : ℚ) + 1 / 4) * (1 / 2 ^ 39) ≤ 2 ^ 16 * (1 / 2 ^ 39) :=
        mul_le_mul_of_nonneg_right (by linarith) (by positivity)
      have : (2 : ℚ) ^ 16 * (1 / 2 ^ 39) = 1 / 2 ^ 23 := by norm_num
      have : (1 : ℚ) / 2 ^ 20 / 4 ≥ 1 / 2 ^ 23 + 1 / 2 ^ 41 + 1 / 2 ^ 36 := by norm_num
      linarith
    · -- upper quarter
      have : ((i : ℚ) + 3 / 4) * (dh - 1 / 2 ^ 39) = ((i : ℚ) + 3 / 4) * dh - ((i : ℚ) + 3 / 4) * (1 / 2 ^ 39) := by ring
      have q : ((i : ℚ) + 3 / 4) * (1 / 2 ^ 39) ≤ 2 ^ 16 * (1 / 2 ^ 39) :=
        mul_le_mul_of_nonneg_right (by linarith) (by positivity)
      have : (2 : ℚ) ^ 16 * (1 / 2 ^ 39) = 1 / 2 ^ 23 := by norm_num
      have : (1 : ℚ) / 2 ^ 20 / 4 ≥ 1 / 2 ^ 23 + 1 / 2 ^ 41 + 1 / 2 ^ 36 := by norm_num
      linarith
    · -- below the next edge
      intro hnx
      obtain ⟨_, nl⟩ := hnear (i + 1) hnx
      push_cast at nl
      have : (1 : ℚ) / 2 ^ 20 / 2 > 1 / 2 ^ 41 + 1 / 2 ^ 36 := by norm_num
      linarith
    · -- below the upper side
      obtain ⟨nu, nl⟩ := hnear (n - 1) (by omega)
      have hcast : ((n - 1 : ℕ) : ℚ) = (n : ℚ) - 1 := by
        rw [Nat.cast_sub (by omega)]; simp
      rw [hcast] at nl nu
      obtain ⟨cml, cmu⟩ := coord_bounds hd lo hiB (n - 1) (by omega)
      rw [hcast] at cml cmu
      have htop_eq : topOf .f64 n edge = fl64 (edge (n - 1) + h) := by
        unfold topOf; simp only [DT.rnd]; rfl
      rw [htop_eq]
      obtain ⟨t1, t2⟩ := fl_near' (edge (n - 1) + h) (by linarith) (by linarith)
      have hin : (i : ℚ) * dh ≤ ((n : ℚ) - 1) * dh := by
        apply mul_le_mul_of_nonneg_right _ hd.le
        have : i + 1 ≤ n := by omega
        have : ((i + 1 : ℕ) : ℚ) ≤ (n : ℚ) := by exact_mod_cast this
        push_cast at this
        linarith
      have : (1 : ℚ) / 2 ^ 20 / 2 > 1 / 2 ^ 36 + 1 / 2 ^ 41 + 1 / 2 ^ 39 + 1 / 2 ^ 40 := by norm_num
      linarith
  exact hrw

/-- the x-midpoint of the cell whose origin is (within 2^-41 of) lattice point i is hashed to column i -/
theorem midpoint_hash_axis_x (a dh : ℚ) (xs : List ℚ) (H : NearLattice a dh xs) (i : ℕ) (hi : i < xs.length)
    (o : ℚ × ℚ) (dhf : ℚ) (ho : |o.1 - (a + (i : ℚ) * dh)| ≤ 1 / 2 ^ 41) (hdh : |dhf - dh| ≤ 1 / 2 ^ 41) :
    bin1dF (cfg64 false) xs (centroidF (computeVertex o dhf eps64)).1 = (i : ℤ) := by
  have hd : 0 < dh := lt_of_lt_of_le (by positivity) H.dh_min
  obtain ⟨cil, ciu⟩ := coord_bounds hd H.lo H.hi i (by omega)
  obtain ⟨cjl, cju⟩ := coord_bounds hd H.lo H.hi (i + 1) (by omega)
  push_cast at cjl cju
  obtain ⟨o1, o2⟩ := abs_le.mp ho
  obtain ⟨d1, d2⟩ := abs_le.mp hdh
  have hmid := midX_near o dhf eps64 (by rw [abs_le]; constructor <;> linarith) (by rw [abs_le]; constructor <;> linarith)
    (by rw [eps64, pow2_m52]; positivity) (by rw [eps64, pow2_m52]; norm_num)
  rw [eps64, pow2_m52] at hmid
  apply hash_axis a dh xs H i hi
  rw [eps64, pow2_m52]
  obtain ⟨m1, m2⟩ := abs_le.mp hmid
  have : (1 : ℚ) / 2 ^ 38 + 1 / 2 ^ 52 / 2 + 1 / 2 ^ 41 + 1 / 2 ^ 41 / 2 ≤ 1 / 2 ^ 36 := by norm_num
  rw [abs_le]
  constructor <;> linarith

/-- … and the y-midpoint to row j -/
theorem midpoint_hash_axis_y (a dh : ℚ) (ys : List ℚ) (H : NearLattice a dh ys) (j : ℕ) (hj : j < ys.length)
    (o : ℚ × ℚ) (dhf : ℚ) (ho : |o.2 - (a + (j : ℚ) * dh)| ≤ 1 / 2 ^ 41) (hdh : |dhf - dh| ≤ 1 / 2 ^ 41) :
    bin1dF (cfg64 false) ys (centroidF (computeVertex o dhf eps64)).2 = (j : ℤ) := by
  have hd : 0 < dh := lt_of_lt_of_le (by positivity) H.dh_min
  obtain ⟨cil, ciu⟩ := coord_bounds hd H.lo H.hi j (by omega)
  obtain ⟨cjl, cju⟩ := coord_bounds hd H.lo H.hi (j + 1) (by omega)
  push_cast at cjl cju
  obtain ⟨o1, o2⟩ := abs_le.mp ho
  obtain ⟨d1, d2⟩ := abs_le.mp hdh
  have hmid := midY_near o dhf eps64 (by rw [abs_le]; constructor <;> linarith) (by rw [abs_le]; constructor <;> linarith)
    (by rw [eps64, pow2_m52]; positivity) (by rw [eps64, pow2_m52]; norm_num)
  rw [eps64, pow2_m52] at hmid
  apply hash_axis a dh ys H j hj
  rw [eps64, pow2_m52]
  obtain ⟨m1, m2⟩ := abs_le.mp hmid
  have : (1 : ℚ) / 2 ^ 38 + 1 / 2 ^ 52 / 2 + 1 / 2 ^ 41 + 1 / 2 ^ 41 / 2 ≤ 1 / 2 ^ 36 := by norm_num
  rw [abs_le]
  constructor <;> linarith

end Region
