import PycsepVerif.Model.RegionBuild
import PycsepVerif.Proofs.Soft64Bound
import Mathlib.Tactic.Ring
import Mathlib.Tactic.Linarith
import Mathlib.Tactic.NormNum
import Mathlib.Tactic.Positivity
/-!
# The float midpoint of a cell is (almost) `origin + dh/2`

`Polygon.centroid` of the polygon `compute_vertex(origin, dh, tol)` is eight float additions/subtractions and one float
division. For coordinates below 2^11 in magnitude each of them is off by at most 2^-40 (`fl_near`), which gives
`|mid − (o + dh/2)| ≤ 2^-38 + tol/2` for both vertex orders (x: o, o, u, u; y: o, u, u, o).
-/
namespace Region
open Soft64

theorem pow2_14 : pow2 14 = 2 ^ 14 := by rw [pow2_eq_zpow]; norm_num
theorem pow2_m40 : pow2 (-40) = 1 / 2 ^ 40 := by rw [pow2_eq_zpow]; norm_num [zpow_neg]
theorem pow2_m52 : pow2 (-52) = 1 / 2 ^ 52 := by rw [pow2_eq_zpow]; norm_num [zpow_neg]

/-- one float operation on a result below 2^14 is off by at most 2^-40 -/
theorem fl_near (x : ℚ) (hx : |x| < 2 ^ 14) : |fl64 x - x| ≤ 1 / 2 ^ 40 := by
  have := fl64_err_pow2 x 14 (by rw [pow2_14]; exact hx) (by norm_num)
  rw [show (14 : ℤ) - 54 = -40 by norm_num, pow2_m40] at this
  exact this

theorem fl_near' (x : ℚ) (hl : -(2 ^ 14) < x) (hu : x < 2 ^ 14) : fl64 x - x ≤ 1 / 2 ^ 40 ∧ -(1 / 2 ^ 40) ≤ fl64 x - x := by
  have := abs_le.mp (fl_near x (abs_lt.mpr ⟨hl, hu⟩))
  exact ⟨this.2, this.1⟩

/-- `origin + dh - tol` is within 2^-39 + tol of `o + dh` -/
theorem upperF_near (o dh tol : ℚ) (hd : |o + dh| ≤ 2 ^ 11) (ht0 : 0 ≤ tol) (ht : tol ≤ 1) :
    |upperF o dh tol - (o + dh)| ≤ 1 / 2 ^ 39 + tol := by
  unfold upperF fadd fsub
  obtain ⟨d1, d2⟩ := abs_le.mp hd
  obtain ⟨a1, a2⟩ := fl_near' (o + dh) (by linarith) (by linarith)
  obtain ⟨b1, b2⟩ := fl_near' (fl64 (o + dh) - tol) (by linarith) (by linarith)
  rw [abs_le]
  constructor <;> linarith

theorem centroid_x (o : ℚ × ℚ) (dh tol : ℚ) :
    (centroidF (computeVertex o dh tol)).1 =
      fdiv (fadd (fadd (fadd (fadd 0 o.1) o.1) (upperF o.1 dh tol)) (upperF o.1 dh tol)) 4 := by
  simp [centroidF, computeVertex, List.foldl]

theorem centroid_y (o : ℚ × ℚ) (dh tol : ℚ) :
    (centroidF (computeVertex o dh tol)).2 =
      fdiv (fadd (fadd (fadd (fadd 0 o.2) (upperF o.2 dh tol)) (upperF o.2 dh tol)) o.2) 4 := by
  simp [centroidF, computeVertex, List.foldl]

/-- four float additions of values below 2^11 + 1 and the division by 4 -/
theorem mean4_near (v1 v2 v3 v4 : ℚ) (h1 : |v1| ≤ 2 ^ 11 + 1) (h2 : |v2| ≤ 2 ^ 11 + 1) (h3 : |v3| ≤ 2 ^ 11 + 1)
    (h4 : |v4| ≤ 2 ^ 11 + 1) :
    |fdiv (fadd (fadd (fadd (fadd 0 v1) v2) v3) v4) 4 - (v1 + v2 + v3 + v4) / 4| ≤ 1 / 2 ^ 39 := by
  unfold fdiv fadd
  obtain ⟨l1, u1⟩ := abs_le.mp h1
  obtain ⟨l2, u2⟩ := abs_le.mp h2
  obtain ⟨l3, u3⟩ := abs_le.mp h3
  obtain ⟨l4, u4⟩ := abs_le.mp h4
  obtain ⟨a1, a2⟩ := fl_near' (0 + v1) (by linarith) (by linarith)
  obtain ⟨b1, b2⟩ := fl_near' (fl64 (0 + v1) + v2) (by linarith) (by linarith)
  obtain ⟨c1, c2⟩ := fl_near' (fl64 (fl64 (0 + v1) + v2) + v3) (by linarith) (by linarith)
  obtain ⟨d1, d2⟩ := fl_near' (fl64 (fl64 (fl64 (0 + v1) + v2) + v3) + v4) (by linarith) (by linarith)
  obtain ⟨e1, e2⟩ := fl_near' (fl64 (fl64 (fl64 (fl64 (0 + v1) + v2) + v3) + v4) / 4) (by linarith) (by linarith)
  rw [abs_le]
  constructor <;> linarith

/-- the float x-midpoint of the cell with origin `o`: `|midpoint − (o + dh/2)| ≤ 2^-38 + tol/2` -/
theorem midX_near (o : ℚ × ℚ) (dh tol : ℚ) (ho : |o.1| ≤ 2 ^ 11) (hd : |o.1 + dh| ≤ 2 ^ 11) (ht0 : 0 ≤ tol) (ht : tol ≤ 1 / 2) :
    |(centroidF (computeVertex o dh tol)).1 - (o.1 + dh / 2)| ≤ 1 / 2 ^ 38 + tol / 2 := by
  rw [centroid_x]
  have hu := upperF_near o.1 dh tol hd ht0 (by linarith)
  obtain ⟨u1, u2⟩ := abs_le.mp hu
  obtain ⟨d1, d2⟩ := abs_le.mp hd
  have hub : |upperF o.1 dh tol| ≤ 2 ^ 11 + 1 := by
    rw [abs_le]; constructor <;> linarith
  have hob : |o.1| ≤ 2 ^ 11 + 1 := by linarith
  obtain ⟨m1, m2⟩ := abs_le.mp (mean4_near o.1 o.1 (upperF o.1 dh tol) (upperF o.1 dh tol) hob hob hub hub)
  rw [abs_le]
  constructor <;> linarith

/-- … and the y-midpoint (the vertices are added in another order) -/
theorem midY_near (o : ℚ × ℚ) (dh tol : ℚ) (ho : |o.2| ≤ 2 ^ 11) (hd : |o.2 + dh| ≤ 2 ^ 11) (ht0 : 0 ≤ tol) (ht : tol ≤ 1 / 2) :
    |(centroidF (computeVertex o dh tol)).2 - (o.2 + dh / 2)| ≤ 1 / 2 ^ 38 + tol / 2 := by
  rw [centroid_y]
  have hu := upperF_near o.2 dh tol hd ht0 (by linarith)
  obtain ⟨u1, u2⟩ := abs_le.mp hu
  obtain ⟨d1, d2⟩ := abs_le.mp hd
  have hub : |upperF o.2 dh tol| ≤ 2 ^ 11 + 1 := by
    rw [abs_le]; constructor <;> linarith
  have hob : |o.2| ≤ 2 ^ 11 + 1 := by linarith
  obtain ⟨m1, m2⟩ := abs_le.mp (mean4_near o.2 (upperF o.2 dh tol) (upperF o.2 dh tol) o.2 hob hub hub hob)
  rw [abs_le]
  constructor <;> linarith

end Region
