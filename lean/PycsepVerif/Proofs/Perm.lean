import PycsepVerif.Model.Perm
import PycsepVerif.Proofs.RealInst
import Mathlib.Algebra.BigOperators.Group.List.Basic
import Mathlib.Data.List.Perm.Basic
import Mathlib.Tactic.Ring
import Mathlib.Data.Multiset.Defs

/-!
  Helper lemmas for C20: accumulation steps commute, so every storage-order fold of the model is invariant under
  `List.Perm`; closed forms of the gridded counts; sums over ℝ; sorting.
-/
namespace PermInv
open List

/-! ### generic: a fold whose step right-commutes does not see the order -/

theorem foldl_perm {β γ} {f : β → γ → β} (hf : ∀ z x y, f (f z x) y = f (f z y) x)
    {l l' : List γ} (h : l ~ l') (init : β) : l.foldl f init = l'.foldl f init :=
  h.foldl_eq' (fun x _ y _ z => hf z x y) init

/-- `zipWith f` right-commutes when `f` does (any lengths: both sides are truncated to the shortest) -/
theorem zipWith_rightComm {β γ} {f : β → γ → β} (hf : ∀ z x y, f (f z x) y = f (f z y) x) :
    ∀ (a : List β) (x y : List γ), zipWith f (zipWith f a x) y = zipWith f (zipWith f a y) x
  | [], _, _ => by simp
  | _ :: _, [], _ => by simp
  | _ :: _, _ :: _, [] => by simp
  | a :: as, x :: xs, y :: ys => by
    simp only [zipWith_cons_cons, hf a x y, zipWith_rightComm hf as xs ys]

/-! ### the accumulation steps commute -/

theorem modify_comm {β} (f g : β → β) (i j : Nat) (l : List β) (h : i = j → ∀ a, g (f a) = f (g a)) :
    (l.modify i f).modify j g = (l.modify j g).modify i f := by
  by_cases hij : i = j
  · subst hij
    rw [modify_modify_eq, modify_modify_eq]
    congr 1; funext a; exact h rfl a
  · exact modify_modify_ne f g l hij

theorem bump_comm (a : List Nat) (i j : Nat) : bump (bump a i) j = bump (bump a j) i := by
  unfold bump; exact modify_comm _ _ i j a (fun _ _ => rfl)

theorem bump2_comm (a : List (List Nat)) (e e' : Event) : bump2 (bump2 a e) e' = bump2 (bump2 a e') e := by
  unfold bump2
  exact modify_comm _ _ e.1 e'.1 a (fun _ row => bump_comm row e.2 e'.2)

theorem flag_comm (a : List Nat) (i j : Nat) : flag (flag a i) j = flag (flag a j) i := by
  unfold flag
  by_cases h : i = j
  · subst h; rfl
  · exact set_comm 1 1 h

theorem addAt_perm {idx idx' : List Nat} (h : idx ~ idx') (a : List Nat) : addAt a idx = addAt a idx' :=
  foldl_perm bump_comm h a

/-! ### closed forms: every event is counted exactly once -/

theorem bump_getElem? (a : List Nat) (i k : Nat) :
    (bump a i)[k]? = (a[k]?).map (fun v => v + if i = k then 1 else 0) := by
  unfold bump
  rw [getElem?_modify]
  cases a[k]? <;> by_cases h : i = k <;> simp [h]

theorem addAt_getElem? (idx : List Nat) : ∀ (a : List Nat) (k : Nat),
    (addAt a idx)[k]? = (a[k]?).map (fun v => v + idx.count k) := by
  induction idx with
  | nil => intro a k; simp [addAt]
  | cons i is ih =>
    intro a k
    have : addAt a (i :: is) = addAt (bump a i) is := rfl
    rw [this, ih, bump_getElem?]
    cases a[k]? with
    | none => rfl
    | some v =>
      simp only [Option.map_some, Option.some.injEq, count_cons]
      by_cases h : i = k
      · subst h; simp; omega
      · have : ¬ (k == i) = true := by simpa using fun h' : k = i => h h'.symm
        simp [h]

theorem addAt_length (idx : List Nat) : ∀ a : List Nat, (addAt a idx).length = a.length := by
  induction idx with
  | nil => intro a; rfl
  | cons i is ih => intro a; show (addAt (bump a i) is).length = _; rw [ih]; simp [bump]

/-- `spatial_counts()[k]` = number of events whose cell is k -/
theorem spatialCounts_getElem (nCells : Nat) (ev : List Event) (k : Nat) (hk : k < nCells) :
    (spatialCounts nCells ev)[k]? = some ((ev.map Prod.fst).count k) := by
  unfold spatialCounts
  rw [addAt_getElem?]
  simp [zeros, hk]

theorem magnitudeCounts_getElem (nBins : Nat) (ev : List Event) (k : Nat) (hk : k < nBins) :
    (magnitudeCounts nBins ev)[k]? = some ((ev.map Prod.snd).count k) := by
  unfold magnitudeCounts
  rw [addAt_getElem?]
  simp [zeros, hk]

theorem bump2_entry (a : List (List Nat)) (e : Event) (i j : Nat) :
    ((bump2 a e)[i]?).bind (·[j]?) = ((a[i]?).bind (·[j]?)).map (fun v => v + if e = (i, j) then 1 else 0) := by
  unfold bump2
  rw [getElem?_modify]
  cases a[i]? with
  | none => simp
  | some row =>
    simp only [Option.map_eq_map, Option.map_some, Option.bind_some]
    by_cases h1 : e.1 = i
    · rw [if_pos h1, bump_getElem?]
      cases row[j]? with
      | none => simp
      | some v =>
        by_cases h2 : e.2 = j
        · have : e = (i, j) := Prod.ext h1 h2
          simp [this]
        · have : e ≠ (i, j) := fun h => h2 (by rw [h])
          simp [h2, this]
    · rw [if_neg h1]
      have : e ≠ (i, j) := fun h => h1 (by rw [h])
      simp [this]

theorem foldl_bump2_entry (ev : List Event) : ∀ (a : List (List Nat)) (i j : Nat),
    ((ev.foldl bump2 a)[i]?).bind (·[j]?) = ((a[i]?).bind (·[j]?)).map (fun v => v + ev.count (i, j)) := by
  induction ev with
  | nil => intro a i j; simp
  | cons e es ih =>
    intro a i j
    rw [foldl_cons, ih, bump2_entry]
    cases (a[i]?).bind (·[j]?) with
    | none => rfl
    | some v =>
      simp only [Option.map_some, Option.some.injEq, count_cons]
      by_cases h : e = (i, j)
      · subst h; simp; omega
      · have : ¬ ((i, j) == e) = true := by simpa using fun h' : (i, j) = e => h h'.symm
        simp [h, this]

/-- `spatial_magnitude_counts()[i, j]` = number of events with cell i and bin j -/
theorem spaceMagCounts_entry (nCells nBins : Nat) (ev : List Event) (i j : Nat) (hi : i < nCells) (hj : j < nBins) :
    ((spaceMagCounts nCells nBins ev)[i]?).bind (·[j]?) = some (ev.count (i, j)) := by
  unfold spaceMagCounts
  rw [foldl_bump2_entry]
  simp [zeros, hi, hj]

theorem flag_getElem? (a : List Nat) (i k : Nat) :
    (flag a i)[k]? = (a[k]?).map (fun v => if i = k then 1 else v) := by
  unfold flag
  rw [getElem?_set]
  by_cases h : i = k
  · subst h
    by_cases hl : i < a.length
    · simp [hl]
    · simp [hl]
  · simp [h]

theorem foldl_flag_getElem? (idx : List Nat) : ∀ (a : List Nat) (k : Nat),
    (idx.foldl flag a)[k]? = (a[k]?).map (fun v => if k ∈ idx then 1 else v) := by
  induction idx with
  | nil => intro a k; simp
  | cons i is ih =>
    intro a k
    rw [foldl_cons, ih, flag_getElem?]
    cases a[k]? with
    | none => rfl
    | some v =>
      simp only [Option.map_some, Option.some.injEq, mem_cons]
      by_cases h : i = k
      · subst h; simp
      · have : ¬ k = i := fun h' => h h'.symm
        simp [h, this]

/-- `spatial_event_probability()[k]` = 1 if some event lies in cell k, else 0 -/
theorem occupancy_getElem (nCells : Nat) (ev : List Event) (k : Nat) (hk : k < nCells) :
    (occupancy nCells ev)[k]? = some (if k ∈ ev.map Prod.fst then 1 else 0) := by
  unfold occupancy
  rw [foldl_flag_getElem?]
  simp [zeros, hk]

/-! ### elementwise sums of count arrays -/

theorem addVec_rightComm (a x y : List Nat) : addVec (addVec a x) y = addVec (addVec a y) x :=
  zipWith_rightComm (f := fun (a b : Nat) => a + b) (fun z x y => Nat.add_right_comm z x y) a x y

theorem addMat_rightComm (a x y : List (List Nat)) : addMat (addMat a x) y = addMat (addMat a y) x :=
  zipWith_rightComm (f := addVec) addVec_rightComm a x y

/-! ### the real layer at ℝ -/

theorem realSum_perm {l l' : List ℝ} (h : l ~ l') : RealOps.sum l = RealOps.sum l' := by
  rw [RealOps.real_sum, RealOps.real_sum]; exact h.sum_eq

theorem ellAdd_rightComm (z x y : ELL ℝ) : ELL.add (ELL.add z x) y = ELL.add (ELL.add z y) x := by
  cases z <;> cases x <;> cases y <;> simp [ELL.add]
  ring

theorem ellSum_perm {l l' : List (ELL ℝ)} (h : l ~ l') : ELL.sum l = ELL.sum l' := by
  unfold ELL.sum; exact foldl_perm ellAdd_rightComm h _

theorem natSum_perm {l l' : List Nat} (h : l ~ l') : l.sum = l'.sum := h.sum_eq

/-! ### Poisson joint log-likelihood over ℝ -/

theorem llOf_perm (p : (ℝ → ELL ℝ) × ℝ) {bins bins' : List (Nat × ℝ)} (h : bins ~ bins') :
    llOf p bins = llOf p bins' := by
  have ht : targets bins ~ targets bins' := h.filter _
  unfold llOf
  simp only
  rw [ellSum_perm (ht.map _), realSum_perm (ht.map _)]

theorem prepare_perm (normalize : Bool) {rates rates' : List ℝ} (h : rates ~ rates') (n : Nat) :
    prepare normalize rates n = prepare normalize rates' n := by
  unfold prepare
  simp only [realSum_perm h]

theorem nObsOf_perm {α} {bins bins' : List (Nat × α)} (h : bins ~ bins') : nObsOf bins = nObsOf bins' :=
  natSum_perm (h.map _)

theorem obsLL_perm (normalize : Bool) {bins bins' : List (Nat × ℝ)} (h : bins ~ bins') :
    obsLL normalize bins = obsLL normalize bins' := by
  unfold obsLL
  rw [prepare_perm normalize (h.map _), nObsOf_perm h, llOf_perm _ h]

theorem pseudoLL_perm {bins bins' : List (Nat × ℝ)} (h : bins ~ bins') (e : ℝ) :
    pseudoLL bins e = pseudoLL bins' e := by
  have ht : targets bins ~ targets bins' := h.filter _
  unfold pseudoLL
  rw [ellSum_perm (ht.map _)]

theorem normLL_perm {bins bins' : List (Nat × ℝ)} (h : bins ~ bins') : normLL bins = normLL bins' := by
  have ht : targets bins ~ targets bins' := h.filter _
  unfold normLL
  simp only [nObsOf_perm h, realSum_perm (h.map Prod.snd)]
  rw [ellSum_perm (ht.map _)]

theorem binaryLL_perm {bins bins' : List (Nat × ℝ)} (h : bins ~ bins') : binaryLL bins = binaryLL bins' :=
  realSum_perm (h.map _)

theorem brierScore_perm {bins bins' : List (Nat × ℝ)} (h : bins ~ bins') : brierScore bins = brierScore bins' := by
  unfold brierScore; rw [realSum_perm (h.map _), h.length_eq]

/-! ### T-test over ℝ -/

theorem tTest_perm {r r' : List (ℝ × ℝ)} (h : r ~ r') (n1 n2 : ℝ) : tTest r n1 n2 = tTest r' n1 n2 := by
  have hd : logDiffs r ~ logDiffs r' := h.map _
  unfold tTest
  simp only [realSum_perm hd, realSum_perm (hd.map _), h.length_eq]

/-! ### W-test over ℝ -/

theorem avgRank_perm {a a' : List ℝ} (h : a ~ a') : avgRank a = avgRank a' := by
  funext v; unfold avgRank; rw [h.countP_eq, h.countP_eq]

theorem tieTerm_perm {a a' : List ℝ} (h : a ~ a') : tieTerm a = tieTerm a' := by
  funext v; unfold tieTerm; simp only [h.countP_eq]

theorem signedRankSum_perm {d d' : List ℝ} (h : d ~ d') (pos : Bool) :
    signedRankSum d pos = signedRankSum d' pos := by
  unfold signedRankSum
  simp only [avgRank_perm (h.map absR)]
  exact realSum_perm ((h.filter _).map _)

theorem tieCorrection_perm {d d' : List ℝ} (h : d ~ d') : tieCorrection d = tieCorrection d' := by
  unfold tieCorrection
  simp only [tieTerm_perm (h.map absR)]
  exact realSum_perm ((h.map absR).map _)

theorem wCore_perm {d d' : List ℝ} (h : d ~ d') : wCore d = wCore d' := by
  unfold wCore
  simp only [signedRankSum_perm h, tieCorrection_perm h, h.length_eq]

theorem wTest_perm {x x' : List ℝ} (h : x ~ x') (m : ℝ) : wTest x m = wTest x' m := by
  unfold wTest nonzeroDiffs
  exact wCore_perm ((h.map _).filter _)

/-! ### sorting: a permuted list sorts to the same list -/

theorem mergeSort_eq_of_perm {β} (le : β → β → Bool)
    (trans : ∀ a b c, le a b → le b c → le a c) (total : ∀ a b, le a b || le b a)
    (antisymm : ∀ a b, le a b → le b a → a = b)
    {l l' : List β} (h : l ~ l') : l.mergeSort le = l'.mergeSort le := by
  apply Perm.eq_of_pairwise (le := fun a b => le a b = true)
  · intro a b _ _ hab hba; exact antisymm a b hab hba
  · exact pairwise_mergeSort trans total l
  · exact pairwise_mergeSort trans total l'
  · exact (mergeSort_perm l le).trans (h.trans (mergeSort_perm l' le).symm)

theorem sortRat_eq_of_perm {l l' : List Rat} (h : l ~ l') :
    l.mergeSort (fun a b => decide (a ≤ b)) = l'.mergeSort (fun a b => decide (a ≤ b)) := by
  apply mergeSort_eq_of_perm _ _ _ _ h
  · intro a b c hab hbc; simp only [decide_eq_true_eq] at *; exact Rat.le_trans hab hbc
  · intro a b; simp only [Bool.or_eq_true, decide_eq_true_eq]; exact Rat.le_total
  · intro a b hab hba; simp only [decide_eq_true_eq] at *; exact Rat.le_antisymm hab hba

noncomputable def sortReal (l : List ℝ) : List ℝ := l.mergeSort (fun a b => decide (a ≤ b))

theorem sortReal_eq_of_perm {l l' : List ℝ} (h : l ~ l') : sortReal l = sortReal l' := by
  apply mergeSort_eq_of_perm _ _ _ _ h
  · intro a b c hab hbc; simp only [decide_eq_true_eq] at *; exact le_trans hab hbc
  · intro a b; simp only [Bool.or_eq_true, decide_eq_true_eq]; exact le_total a b
  · intro a b hab hba; simp only [decide_eq_true_eq] at *; exact le_antisymm hab hba

/-! ### re-indexing -/

theorem reindex_range {β} [Inhabited β] (xs : List β) : reindex (List.range xs.length) xs = xs := by
  unfold reindex
  apply List.ext_getElem
  · simp
  · intro i h1 h2
    simp at h1
    simp [h1]

theorem zip_reindex {β γ} [Inhabited β] [Inhabited γ] (σ : List Nat) (xs : List β) (ys : List γ)
    (hlen : xs.length = ys.length) :
    (reindex σ xs).zip (reindex σ ys) = reindex σ (xs.zip ys) := by
  unfold reindex
  rw [List.zip_map']
  apply List.map_congr_left
  intro i _
  by_cases hi : i < xs.length
  · have hj : i < ys.length := hlen ▸ hi
    have hz : i < (xs.zip ys).length := by simp; omega
    simp [hi, hj]
  · have hj : ¬ i < ys.length := hlen ▸ hi
    have hz : ¬ i < (xs.zip ys).length := by simp; omega
    simp only [not_lt] at hi hj hz
    rw [List.getElem?_eq_none hi, List.getElem?_eq_none hj, List.getElem?_eq_none hz]
    rfl

theorem reindex_getElem? {β} [Inhabited β] (σ : List Nat) (xs : List β) (j : Nat) :
    (reindex σ xs)[j]? = (σ[j]?).map (fun i => xs[i]?.getD default) := by
  unfold reindex; simp

/-- gridding the same events on the re-ordered region gives the re-indexed count array:
    σ lists the old index of every new cell, π maps old indices to new ones (π (σ[j]) = j). -/
theorem spatialCounts_reindex (n : Nat) (σ : List Nat) (hσ : σ ~ List.range n) (π : Nat → Nat)
    (hπ : ∀ j (h : j < σ.length), π σ[j] = j) (ev : List Event) (hev : ∀ e ∈ ev, e.1 < n) :
    spatialCounts n (ev.map (fun e => (π e.1, e.2))) = reindex σ (spatialCounts n ev) := by
  have hlen : σ.length = n := by simpa using hσ.length_eq
  apply List.ext_getElem?
  intro j
  rw [reindex_getElem?]
  by_cases hj : j < n
  · have hjσ : j < σ.length := hlen ▸ hj
    have hmem : σ[j] ∈ List.range n := hσ.subset (List.getElem_mem hjσ)
    have hσj : σ[j] < n := List.mem_range.mp hmem
    rw [spatialCounts_getElem _ _ _ hj, List.getElem?_eq_getElem hjσ, Option.map_some,
      spatialCounts_getElem _ _ _ hσj]
    simp only [Option.getD_some, Option.some.injEq, List.map_map]
    rw [List.count_eq_countP, List.count_eq_countP, List.countP_map, List.countP_map]
    apply List.countP_congr
    intro e he
    have hc : e.1 < n := hev e he
    obtain ⟨k, hk, hke⟩ := List.getElem_of_mem (hσ.symm.subset (List.mem_range.mpr hc))
    simp only [Function.comp, beq_iff_eq]
    constructor
    · intro h
      have : π σ[k] = k := hπ k hk
      rw [hke] at this
      have hkj : k = j := this.symm.trans h
      subst hkj; exact hke.symm
    · intro h
      rw [h]; exact hπ j hjσ
  · have h1 : (spatialCounts n (ev.map (fun e => (π e.1, e.2)))).length = n := by
      simp [spatialCounts, addAt_length, zeros]
    rw [List.getElem?_eq_none (by omega), List.getElem?_eq_none (by omega)]
    rfl

/-! ### in-place re-ordering of stored rows -/

theorem reindex_length {β} [Inhabited β] (σ : List Nat) (xs : List β) : (reindex σ xs).length = σ.length := by
  unfold reindex; simp

/-- `rows[σ]` is a permutation of `rows` when σ is a permutation of `0..n-1` -/
theorem reindex_perm {β} [Inhabited β] (σ : List Nat) (xs : List β) (hσ : σ ~ List.range xs.length) :
    reindex σ xs ~ xs := by
  have h := hσ.map (fun i => xs[i]?.getD default)
  exact h.trans (Perm.of_eq (reindex_range xs))

theorem reorderSeq_perm {β} [Inhabited β] (steps : List (List Nat)) :
    ∀ (rows : List β), (∀ σ ∈ steps, σ ~ List.range rows.length) → reorderSeq rows steps ~ rows := by
  induction steps with
  | nil => intro rows _; exact Perm.refl _
  | cons σ rest ih =>
    intro rows h
    have hσ : σ ~ List.range rows.length := h σ (by simp)
    have hp : reindex σ rows ~ rows := reindex_perm σ rows hσ
    have hl : (reindex σ rows).length = rows.length := hp.length_eq
    have := ih (reindex σ rows) (fun τ hτ => hl ▸ h τ (by simp [hτ]))
    simpa [reorderSeq, reorderInPlace] using this.trans hp

/-! ### the region lookup has no memory -/

theorem findLocation_spec (bs : List Box) (lon lat : Rat) :
    ∀ i, findLocation bs lon lat = some i →
      (∃ b, bs[i]? = some b ∧ inBox b lon lat = true) ∧
      ∀ j, j < i → ∀ b', bs[j]? = some b' → inBox b' lon lat = false := by
  induction bs with
  | nil => intro i h; simp [findLocation] at h
  | cons b rest ih =>
    intro i h
    unfold findLocation at h
    by_cases hb : inBox b lon lat = true
    · simp only [hb, if_true, Option.some.injEq] at h
      subst h
      exact ⟨⟨b, by simp, hb⟩, fun j hj => absurd hj (Nat.not_lt_zero j)⟩
    · have hbf : inBox b lon lat = false := by simpa using hb
      rw [hbf] at h
      cases hr : findLocation rest lon lat with
      | none => simp [hr] at h
      | some k =>
        simp [hr] at h
        subst h
        obtain ⟨⟨b0, hb0, hin⟩, hbefore⟩ := ih k hr
        refine ⟨⟨b0, by simpa using hb0, hin⟩, ?_⟩
        intro j hj b' hb'
        cases j with
        | zero =>
          simp only [List.getElem?_cons_zero, Option.some.injEq] at hb'
          subst hb'
          simpa using hb
        | succ j' =>
          simp only [List.getElem?_cons_succ] at hb'
          exact hbefore j' (by omega) b' hb'

theorem findLocation_none (bs : List Box) (lon lat : Rat) :
    findLocation bs lon lat = none ↔ ∀ b ∈ bs, inBox b lon lat = false := by
  induction bs with
  | nil => simp [findLocation]
  | cons b rest ih =>
    unfold findLocation
    by_cases hb : inBox b lon lat = true
    · simp [hb]
    · have hb' : inBox b lon lat = false := by simpa using hb
      simp [hb', ih]

theorem locateEvents_append (bs : List Box) (xs ys : List RawEvent) :
    locateEvents bs (xs ++ ys) = locateEvents bs xs ++ locateEvents bs ys := by
  unfold locateEvents; simp

end PermInv
