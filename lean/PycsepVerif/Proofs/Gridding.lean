import PycsepVerif.Model.Gridding
import PycsepVerif.Proofs.Region

/-! helper lemmas for property C03 (Model/Gridding.lean) -/
namespace Gridding

/-! ### vectors: `numpy.add.at`, `out[idx] = 1` -/

theorem addAt_eq_region (out idx : List Nat) : addAt out idx = Region.Region.addAt out idx := rfl

theorem getElem?_addAt (idx out : List Nat) (k : Nat) : (addAt out idx)[k]? = (out[k]?).map (· + idx.count k) := by
  rw [addAt_eq_region]; exact Region.getElem?_addAt idx out k

theorem length_addAt (idx out : List Nat) : (addAt out idx).length = out.length := by
  rw [addAt_eq_region]; exact Region.length_addAt idx out

theorem getElem?_setAt : ∀ (idx out : List Nat) (k : Nat),
    (setAt out idx)[k]? = (out[k]?).map (fun v => if k ∈ idx then 1 else v)
  | [], out, k => by simp [setAt]
  | i :: idx, out, k => by
    have ih := getElem?_setAt idx (out.modify i (fun _ => 1)) k
    unfold setAt at ih ⊢
    simp only [List.foldl_cons]
    rw [ih, List.getElem?_modify]
    cases out[k]? with
    | none => simp
    | some v =>
      by_cases h : i = k
      · subst h; simp
      · have h' : ¬ k = i := fun e => h e.symm
        simp [h, h']

theorem getElem?_zeros (n k : Nat) : (zeros n)[k]? = if k < n then some 0 else none := by
  unfold zeros; rw [List.getElem?_replicate]

/-- entry k of a count vector: number of optional indices equal to `some k` -/
theorem count_filterMap_id (l : List (Option Nat)) (k : Nat) :
    (l.filterMap id).count k = l.countP (fun o => o == some k) := by
  induction l with
  | nil => rfl
  | cons o l ih =>
    cases o with
    | none => simpa using ih
    | some m =>
      show List.count k (m :: l.filterMap id) = _
      rw [List.count_cons, List.countP_cons, ih]
      by_cases h : m = k <;> simp [h]

theorem mem_filterMap_id (l : List (Option Nat)) (k : Nat) : k ∈ l.filterMap id ↔ some k ∈ l := by
  simp [List.mem_filterMap]

/-! ### the matrix -/

/-- `event_counts[(i, k)] += 1` -/
def bumpAt (out : List (List Nat)) (q : Nat × Nat) : List (List Nat) := out.modify q.1 (fun rowv => bump rowv q.2)

/-- entry (i, k) of a matrix -/
def entry (M : List (List Nat)) (i k : Nat) : Option Nat := (M[i]?).bind (·[k]?)

theorem entry_bumpAt (out : List (List Nat)) (q : Nat × Nat) (i k : Nat) :
    entry (bumpAt out q) i k = (entry out i k).map (· + if q = (i, k) then 1 else 0) := by
  unfold entry bumpAt bump
  rw [List.getElem?_modify]
  cases hrow : out[i]? with
  | none => simp
  | some rowv =>
    by_cases h1 : q.1 = i
    · simp only [h1, if_true, Option.bind_some]
      cases hv : rowv[k]? with
      | none => simp; exact List.getElem?_eq_none_iff.mp hv
      | some v =>
        by_cases h2 : q.2 = k
        · have : q = (i, k) := Prod.ext h1 h2
          simp [this, hv]
        · have : ¬ q = (i, k) := fun e => h2 (by rw [e])
          simp [h2, this, hv]
    · have : ¬ q = (i, k) := fun e => h1 (by rw [e])
      simp [h1, this]

theorem entry_foldl_bumpAt : ∀ (pairs : List (Nat × Nat)) (out : List (List Nat)) (i k : Nat),
    entry (pairs.foldl bumpAt out) i k = (entry out i k).map (· + pairs.count (i, k))
  | [], out, i, k => by simp
  | q :: pairs, out, i, k => by
    simp only [List.foldl_cons]
    rw [entry_foldl_bumpAt pairs (bumpAt out q) i k, entry_bumpAt, List.count_cons]
    cases entry out i k with
    | none => simp
    | some v =>
      by_cases h : q = (i, k)
      · subst h; simp; omega
      · have : (q == (i, k)) = false := by simpa using h
        simp [h, this]

theorem length_foldl_bumpAt : ∀ (pairs : List (Nat × Nat)) (out : List (List Nat)),
    (pairs.foldl bumpAt out).length = out.length
  | [], out => rfl
  | q :: pairs, out => by
    simp only [List.foldl_cons]
    rw [length_foldl_bumpAt pairs (bumpAt out q)]
    unfold bumpAt; rw [List.length_modify]

theorem rowLength_bumpAt (out : List (List Nat)) (q : Nat × Nat) (i : Nat) :
    ((bumpAt out q)[i]?).map List.length = (out[i]?).map List.length := by
  unfold bumpAt bump
  rw [List.getElem?_modify]
  cases out[i]? with
  | none => rfl
  | some rowv => by_cases h : q.1 = i <;> simp [h, List.length_modify]

theorem rowLength_foldl_bumpAt : ∀ (pairs : List (Nat × Nat)) (out : List (List Nat)) (i : Nat),
    ((pairs.foldl bumpAt out)[i]?).map List.length = (out[i]?).map List.length
  | [], out, i => rfl
  | q :: pairs, out, i => by
    simp only [List.foldl_cons]
    rw [rowLength_foldl_bumpAt pairs (bumpAt out q) i, rowLength_bumpAt]

theorem entry_zeros (ncell nbin i k : Nat) :
    entry (List.replicate ncell (zeros nbin)) i k = if i < ncell ∧ k < nbin then some 0 else none := by
  unfold entry
  rw [List.getElem?_replicate]
  by_cases hi : i < ncell
  · simp only [hi, if_true, Option.bind_some, getElem?_zeros, true_and]
  · simp [hi]

/-! ### the loop of spatial_magnitude_counts -/

/-- the (cell, bin) pair of an event whose two lookups succeeded -/
def pairOf (e : Ev) : Nat × Nat := (e.cell.getD 0, e.bin.getD 0)

theorem smcLoop_evs : ∀ (evs : List Ev) (out : List (List Nat)), (∀ e ∈ evs, e.cell.isSome = true) →
    smcLoop ((evs.map (·.cell)).filterMap id) (evs.map (·.bin)) out =
      if evs.any (fun e => e.bin.isNone) then .error .belowMin else .ok ((evs.map pairOf).foldl bumpAt out)
  | [], out, _ => by simp [smcLoop]
  | e :: evs, out, h => by
    have he := h e List.mem_cons_self
    have ih := fun o => smcLoop_evs evs o (fun e' he' => h e' (List.mem_cons_of_mem _ he'))
    cases hc : e.cell with
    | none => simp [hc] at he
    | some i =>
      cases hb : e.bin with
      | none => simp [hc, hb, smcLoop]
      | some k =>
        simp only [List.map_cons, hc, hb, List.filterMap_cons, List.any_cons, Option.isNone_some,
          Bool.false_or, List.foldl_cons]
        show smcLoop ((evs.map (·.cell)).filterMap id) _ _ = _
        rw [ih]
        have : pairOf e = (i, k) := by simp [pairOf, hc, hb]
        rw [this]; rfl

theorem length_filterMap_id_eq_iff (l : List (Option Nat)) :
    (l.filterMap id).length = l.length ↔ ∀ o ∈ l, o.isSome = true := by
  induction l with
  | nil => simp
  | cons o l ih =>
    have hle : (l.filterMap id).length ≤ l.length := List.length_filterMap_le _ _
    cases o with
    | none =>
      have : (List.filterMap id (none :: l)) = l.filterMap id := rfl
      rw [this]
      constructor
      · intro h; rw [List.length_cons] at h; omega
      · intro h; exact absurd (h none List.mem_cons_self) (by simp)
    | some m =>
      have : (List.filterMap id (some m :: l)) = m :: l.filterMap id := rfl
      rw [this, List.length_cons, List.length_cons, Nat.add_right_cancel_iff, ih]
      constructor
      · intro h o ho
        rcases List.mem_cons.mp ho with rfl | ho
        · rfl
        · exact h o ho
      · intro h o ho; exact h o (List.mem_cons_of_mem _ ho)

/-- count of (i, k) among the pairs of events whose lookups all succeeded -/
theorem count_pairOf (evs : List Ev) (i k : Nat) (hc : ∀ e ∈ evs, e.cell.isSome = true)
    (hb : ∀ e ∈ evs, e.bin.isSome = true) :
    (evs.map pairOf).count (i, k) = evs.countP (fun e => e.cell == some i && e.bin == some k) := by
  rw [List.count_eq_countP, List.countP_map]
  apply List.countP_congr
  intro e he
  have h1 := hc e he
  have h2 := hb e he
  cases hce : e.cell with
  | none => simp [hce] at h1
  | some a =>
    cases hbe : e.bin with
    | none => simp [hbe] at h2
    | some b => simp [pairOf, hce, hbe]

/-! ### sums over ranges of indicator counts -/

theorem countP_lt_succ {α} (l : List α) (g : α → Option Nat) (n : Nat) :
    l.countP (fun e => (g e).any (fun m => decide (m < n + 1))) =
      l.countP (fun e => (g e).any (fun m => decide (m < n))) + l.countP (fun e => g e == some n) := by
  induction l with
  | nil => rfl
  | cons a l ih =>
    simp only [List.countP_cons, ih]
    cases h : g a with
    | none => simp
    | some m =>
      by_cases h1 : m < n
      · have : m ≠ n := by omega
        have h2 : m < n + 1 := by omega
        simp [h1, h2, this]; omega
      · by_cases h2 : m = n
        · subst h2; simp; omega
        · have h3 : ¬ m < n + 1 := by omega
          simp [h1, h2, h3]

/-- Σ_{i<n} #{e : g e = i} = #{e : g e < n} -/
theorem sum_range_countP {α} (l : List α) (g : α → Option Nat) : ∀ n : Nat,
    ((List.range n).map fun i => l.countP (fun e => g e == some i)).sum =
      l.countP (fun e => (g e).any (fun m => decide (m < n)))
  | 0 => by
    simp only [List.range_zero, List.map_nil, List.sum_nil]
    symm; rw [List.countP_eq_zero]
    intro a _; cases g a <;> simp
  | n + 1 => by
    rw [List.range_succ, List.map_append, List.sum_append, sum_range_countP l g n, countP_lt_succ]
    simp

/-! ### closed forms of the four methods -/

/-- vector of per-index counts of a list of optional indices -/
def countVec (n : Nat) (l : List (Option Nat)) : List Nat := (List.range n).map fun i => l.countP (fun o => o == some i)

/-- the matrix of per-(cell, bin) counts of a list of events -/
def countMatrix (ncell nbin : Nat) (evs : List Ev) : List (List Nat) :=
  (List.range ncell).map fun i => (List.range nbin).map fun k =>
    evs.countP (fun e => e.cell == some i && e.bin == some k)

theorem addAt_zeros_eq (n : Nat) (l : List (Option Nat)) : addAt (zeros n) (l.filterMap id) = countVec n l := by
  apply List.ext_getElem?
  intro k
  rw [getElem?_addAt, getElem?_zeros, count_filterMap_id]
  unfold countVec
  by_cases hk : k < n
  · simp [hk]
  · simp [hk]

theorem magnitudeCounts_eq (nbin : Nat) (bins : List (Option Nat)) : magnitudeCounts nbin bins = countVec nbin bins :=
  addAt_zeros_eq nbin bins

theorem spatialCountsQuad_eq (ncell : Nat) (locs : List (Option Nat)) : spatialCountsQuad ncell locs = countVec ncell locs :=
  addAt_zeros_eq ncell locs

theorem countVec_nil (n : Nat) : countVec n [] = zeros n := by
  unfold countVec zeros
  apply List.ext_getElem?
  intro k
  by_cases hk : k < n
  · simp [hk]
  · simp [hk]

theorem spatialCountsCart_eq (ncell : Nat) (locs : List (Option Nat)) :
    spatialCountsCart ncell locs = if locs.any (·.isNone) then .error .outside else .ok (countVec ncell locs) := by
  unfold spatialCountsCart getIndexOfCart
  cases locs with
  | nil => simp [countVec_nil]
  | cons o l =>
    simp only [List.isEmpty_cons, Bool.false_eq_true, if_false]
    by_cases h : (o :: l).any (·.isNone) = true
    · simp [h]
    · simp only [h, Bool.false_eq_true, if_false, addAt_zeros_eq]

theorem setAt_zeros_eq (n : Nat) (l : List (Option Nat)) :
    setAt (zeros n) (l.filterMap id) = (countVec n l).map (fun c => if 0 < c then 1 else 0) := by
  apply List.ext_getElem?
  intro k
  rw [getElem?_setAt, getElem?_zeros]
  unfold countVec
  by_cases hk : k < n
  · simp only [hk, if_true, Option.map_some, List.getElem?_map, List.getElem?_range hk, mem_filterMap_id]
    congr 1
    by_cases hm : some k ∈ l
    · have : 0 < l.countP (fun o => o == some k) := List.countP_pos_iff.mpr ⟨some k, hm, by simp⟩
      simp [hm, this]
    · have : l.countP (fun o => o == some k) = 0 := by
        rw [List.countP_eq_zero]; intro o ho; simp; intro h; exact hm (h ▸ ho)
      simp [hm, this]
  · simp [hk]

theorem spatialEventProbabilityCart_eq (ncell : Nat) (locs : List (Option Nat)) :
    spatialEventProbabilityCart ncell locs =
      if locs.any (·.isNone) then .error .outside
      else .ok ((countVec ncell locs).map (fun c => if 0 < c then 1 else 0)) := by
  unfold spatialEventProbabilityCart getIndexOfCart
  cases locs with
  | nil =>
    simp only [List.isEmpty_nil, if_true, List.any_nil, Bool.false_eq_true, if_false, countVec_nil]
    congr 1
    unfold zeros
    apply List.ext_getElem?
    intro k
    by_cases hk : k < ncell <;> simp [hk]
  | cons o l =>
    simp only [List.isEmpty_cons, Bool.false_eq_true, if_false]
    by_cases h : (o :: l).any (·.isNone) = true
    · simp [h]
    · simp only [h, Bool.false_eq_true, if_false, setAt_zeros_eq]

theorem spatialEventProbabilityQuad_eq (ncell : Nat) (locs : List (Option Nat)) :
    spatialEventProbabilityQuad ncell locs = (countVec ncell locs).map (fun c => if 0 < c then 1 else 0) :=
  setAt_zeros_eq ncell locs

theorem matrix_ext (M M' : List (List Nat)) (hlen : M.length = M'.length)
    (h : ∀ i k, entry M i k = entry M' i k) : M = M' := by
  apply List.ext_getElem?
  intro i
  cases h1 : M[i]? with
  | none =>
    have : M'[i]? = none := by
      rw [List.getElem?_eq_none_iff] at h1 ⊢; omega
    rw [this]
  | some r =>
    cases h2 : M'[i]? with
    | none =>
      rw [List.getElem?_eq_none_iff] at h2
      have := (List.getElem?_eq_some_iff.mp h1).1
      omega
    | some r' =>
      congr 1
      apply List.ext_getElem?
      intro k
      have := h i k
      simpa [entry, h1, h2] using this

theorem entry_countMatrix (ncell nbin : Nat) (evs : List Ev) (i k : Nat) :
    entry (countMatrix ncell nbin evs) i k =
      if i < ncell ∧ k < nbin then some (evs.countP (fun e => e.cell == some i && e.bin == some k)) else none := by
  unfold entry countMatrix
  by_cases hi : i < ncell
  · by_cases hk : k < nbin
    · simp [hi, hk]
    · simp [hi, hk]
  · simp [hi]

/-- closed form of the space-magnitude counts after the lookups: rejected when an event is outside (first check)
    or below the minimum magnitude, otherwise the matrix of per-(cell, bin) counts -/
theorem smcRaw_evs (ncell nbin : Nat) (evs : List Ev) (hc : ∀ e ∈ evs, e.cell.isSome = true) :
    smcRaw ncell nbin evs.length ((evs.map (·.cell)).filterMap id) (evs.map (·.bin)) =
      if evs.any (fun e => e.bin.isNone) then .error .belowMin else .ok (countMatrix ncell nbin evs) := by
  unfold smcRaw
  cases evs with
  | nil =>
    simp only [List.length_nil, if_true, List.any_nil, Bool.false_eq_true, if_false]
    congr 1
    apply matrix_ext
    · simp [countMatrix]
    · intro i k; rw [entry_zeros, entry_countMatrix]; simp
  | cons e0 es =>
    have hlen : ((((e0 :: es).map (·.cell)).filterMap id).length = (e0 :: es).length) := by
      have := (length_filterMap_id_eq_iff ((e0 :: es).map (·.cell))).mpr (by
        intro o ho
        obtain ⟨e, he, rfl⟩ := List.mem_map.mp ho
        exact hc e he)
      simpa using this
    simp only [List.length_cons, Nat.add_one_ne_zero, if_false]
    rw [List.length_cons] at hlen
    simp only [hlen, ne_eq, not_true_eq_false, if_false]
    rw [smcLoop_evs (e0 :: es) _ hc]
    by_cases hb : (e0 :: es).any (fun e => e.bin.isNone) = true
    · simp [hb]
    · simp only [hb, Bool.false_eq_true, if_false]
      congr 1
      apply matrix_ext
      · rw [length_foldl_bumpAt]; simp [countMatrix]
      · intro i k
        rw [entry_foldl_bumpAt, entry_zeros, entry_countMatrix]
        have hb' : ∀ e ∈ (e0 :: es), e.bin.isSome = true := by
          intro e he
          have : ¬ (e.bin.isNone = true) := fun hn => hb (List.any_eq_true.mpr ⟨e, he, hn⟩)
          cases hbe : e.bin <;> simp [hbe] at this ⊢
        rw [count_pairOf (e0 :: es) i k hc hb']
        by_cases hik : i < ncell ∧ k < nbin <;> simp [hik]

theorem smcCart_eq (ncell nbin : Nat) (evs : List Ev) :
    smcCart ncell nbin evs =
      if evs.any (fun e => e.cell.isNone) then .error .outside
      else if evs.any (fun e => e.bin.isNone) then .error .belowMin
      else .ok (countMatrix ncell nbin evs) := by
  unfold smcCart getIndexOfCart
  cases evs with
  | nil =>
    simp only [List.isEmpty_nil, if_true, List.any_nil, Bool.false_eq_true, if_false]
    congr 1
    apply matrix_ext
    · simp [countMatrix]
    · intro i k; rw [entry_zeros, entry_countMatrix]; simp
  | cons e0 es =>
    simp only [List.isEmpty_cons, Bool.false_eq_true, if_false, List.any_map]
    by_cases hc : (e0 :: es).any (fun e => e.cell.isNone) = true
    · have : (e0 :: es).any ((fun x : Option Nat => x.isNone) ∘ fun x => x.cell) = true := hc
      simp [this, hc]
    · have h' : (e0 :: es).any ((fun x : Option Nat => x.isNone) ∘ fun x => x.cell) = false :=
        Bool.eq_false_iff.mpr hc
      simp only [h', Bool.false_eq_true, if_false, hc]
      apply smcRaw_evs
      intro e he
      have : ¬ (e.cell.isNone = true) := fun hn => hc (List.any_eq_true.mpr ⟨e, he, hn⟩)
      cases hce : e.cell <;> simp [hce] at this ⊢

theorem smcQuad_eq (ncell nbin : Nat) (evs : List Ev) :
    smcQuad ncell nbin evs =
      if evs.any (fun e => e.cell.isNone) then .error .outside
      else if evs.any (fun e => e.bin.isNone) then .error .belowMin
      else .ok (countMatrix ncell nbin evs) := by
  by_cases hc : evs.any (fun e => e.cell.isNone) = true
  · simp only [hc, if_true]
    unfold smcQuad smcRaw getIndexOfQuad
    obtain ⟨e, he, hn⟩ := List.any_eq_true.mp hc
    have hne : evs.length ≠ 0 := by
      intro h0; rw [List.length_eq_zero_iff] at h0; subst h0; simp at he
    have hlen : ((evs.map (·.cell)).filterMap id).length ≠ evs.length := by
      intro heq
      have := (length_filterMap_id_eq_iff (evs.map (·.cell))).mp (by simpa using heq) e.cell (List.mem_map.mpr ⟨e, he, rfl⟩)
      cases hce : e.cell <;> simp [hce] at this hn
    simp only [hne, if_false]
    rw [if_pos hlen]
  · simp only [hc, Bool.false_eq_true, if_false]
    unfold smcQuad getIndexOfQuad
    apply smcRaw_evs
    intro e he
    have : ¬ (e.cell.isNone = true) := fun hn => hc (List.any_eq_true.mpr ⟨e, he, hn⟩)
    cases hce : e.cell <;> simp [hce] at this ⊢


/-! ### marginal sums of the count matrix -/

theorem countP_and_eq_filter {α} (l : List α) (p q : α → Bool) :
    l.countP (fun e => p e && q e) = (l.filter p).countP q := by
  rw [List.countP_filter]
  apply List.countP_congr
  intro a _; simp [Bool.and_comm]

/-- row sum: Σ_k #{cell = i ∧ bin = k} = #{cell = i} when every bin index is in range -/
theorem rowSum_countMatrix (nbin : Nat) (evs : List Ev) (i : Nat)
    (hb : ∀ e ∈ evs, ∃ k, e.bin = some k ∧ k < nbin) :
    ((List.range nbin).map fun k => evs.countP (fun e => e.cell == some i && e.bin == some k)).sum =
      evs.countP (fun e => e.cell == some i) := by
  have : (fun k => evs.countP (fun e => e.cell == some i && e.bin == some k)) =
      fun k => (evs.filter (fun e => e.cell == some i)).countP (fun e => e.bin == some k) := by
    funext k; exact countP_and_eq_filter evs _ _
  rw [this]
  refine (sum_range_countP _ (fun e : Ev => e.bin) nbin).trans ?_
  rw [List.countP_eq_length.mpr, List.countP_eq_length_filter]
  intro e he
  obtain ⟨k, hk, hlt⟩ := hb e (List.mem_filter.mp he).1
  simp [hk, hlt]

/-- column sum: Σ_i #{cell = i ∧ bin = k} = #{bin = k} when every cell index is in range -/
theorem colSum_countMatrix (ncell : Nat) (evs : List Ev) (k : Nat)
    (hc : ∀ e ∈ evs, ∃ i, e.cell = some i ∧ i < ncell) :
    ((List.range ncell).map fun i => evs.countP (fun e => e.cell == some i && e.bin == some k)).sum =
      evs.countP (fun e => e.bin == some k) := by
  have : (fun i => evs.countP (fun e => e.cell == some i && e.bin == some k)) =
      fun i => (evs.filter (fun e => e.bin == some k)).countP (fun e => e.cell == some i) := by
    funext i
    rw [← countP_and_eq_filter]
    apply List.countP_congr
    intro a _; simp [Bool.and_comm]
  rw [this]
  refine (sum_range_countP _ (fun e : Ev => e.cell) ncell).trans ?_
  rw [List.countP_eq_length.mpr, List.countP_eq_length_filter]
  intro e he
  obtain ⟨i, hi, hlt⟩ := hc e (List.mem_filter.mp he).1
  simp [hi, hlt]

/-- total of a count vector = number of indices in range -/
theorem sum_countVec (n : Nat) (l : List (Option Nat)) :
    (countVec n l).sum = l.countP (fun o => o.any (fun m => decide (m < n))) := by
  unfold countVec
  exact sum_range_countP l id n

theorem countP_cell_map (evs : List Ev) (i : Nat) :
    (evs.map (·.cell)).countP (fun o => o == some i) = evs.countP (fun e => e.cell == some i) := by
  rw [List.countP_map]; rfl

theorem countP_bin_map (evs : List Ev) (k : Nat) :
    (evs.map (·.bin)).countP (fun o => o == some k) = evs.countP (fun e => e.bin == some k) := by
  rw [List.countP_map]; rfl

/-! ### magnitude bins -/

theorem magBin_eq_some_iff (edges : List Rat) (m : Rat) (k : Nat) (hs : edges.Pairwise (· < ·)) :
    magBin edges m = some k ↔
      ∃ e, edges[k]? = some e ∧ e ≤ m ∧ ∀ e', edges[k + 1]? = some e' → m < e' := by
  unfold magBin
  constructor
  · intro h
    by_cases hc : Region.cnt edges m = 0
    · simp [hc] at h
    · simp only [hc, if_false, Option.some.injEq] at h
      obtain ⟨e, h1, h2⟩ := Region.getElem_le_of_lt_cnt edges m k (by omega)
      refine ⟨e, h1, h2, ?_⟩
      intro e' he'
      have hk : k + 1 = Region.cnt edges m := by omega
      rw [hk] at he'
      exact Region.lt_getElem_cnt edges m e' he'
  · rintro ⟨e, h1, h2, h3⟩
    have hk : k < Region.cnt edges m := Region.lt_cnt_of_le edges m k e hs h1 h2
    have hc : Region.cnt edges m ≠ 0 := by omega
    have hcnt : Region.cnt edges m = k + 1 := by
      by_contra hne
      have hlt : k + 1 < Region.cnt edges m := by omega
      obtain ⟨e', h4, h5⟩ := Region.getElem_le_of_lt_cnt edges m (k + 1) hlt
      exact absurd h5 (not_le.mpr (h3 e' h4))
    simp [hcnt]

theorem magBin_eq_none_iff (edges : List Rat) (m : Rat) :
    magBin edges m = none ↔ ∀ e, edges[0]? = some e → m < e := by
  unfold magBin
  cases edges with
  | nil => simp [Region.cnt_nil]
  | cons e0 es =>
    rw [Region.cnt_cons]
    by_cases h : e0 ≤ m
    · simp [h]
    · simp [h]; exact not_le.mp h


end Gridding
