import PycsepVerif.Proofs.NumberTest
import Mathlib.Analysis.Calculus.Deriv.MeanValue
import Mathlib.Analysis.SpecialFunctions.ExpDeriv
import Mathlib.Analysis.Calculus.Deriv.Pow

/-! The Poisson partial sum Σ_{j≤n} e^{-μ} μ^j/j! has derivative −pmf(n) in μ, hence is antitone in μ. -/
namespace NumberTest
open Finset

/-- P(N ≤ n) for N ~ Poisson(μ) -/
noncomputable def poisPartial (n : ℕ) (μ : ℝ) : ℝ := ∑ j ∈ range (n + 1), poisPmf μ j

theorem hasDerivAt_poisPmf_zero (μ : ℝ) : HasDerivAt (fun m => poisPmf m 0) (-(poisPmf μ 0)) μ := by
  have h := (hasDerivAt_neg' μ).exp
  simp only [poisPmf, RealOps.real_exp, RealOps.real_neg]
  convert h using 1; ring

theorem hasDerivAt_poisPmf_succ (j : ℕ) (μ : ℝ) :
    HasDerivAt (fun m => poisPmf m (j + 1)) (poisPmf μ j - poisPmf μ (j + 1)) μ := by
  have he := (hasDerivAt_neg' μ).exp
  have hp := hasDerivAt_pow (j + 1) μ
  have h := (he.mul hp).div_const ((j + 1).factorial : ℝ)
  have e : (fun m => poisPmf m (j + 1)) = fun m => Real.exp (-m) * m ^ (j + 1) / ((j + 1).factorial : ℝ) := by
    funext m; rw [poisPmf_eq]
  rw [e, poisPmf_eq, poisPmf_eq]
  have h' : HasDerivAt (fun m => Real.exp (-m) * m ^ (j + 1) / ((j + 1).factorial : ℝ))
      ((Real.exp (-μ) * -1 * μ ^ (j + 1) + Real.exp (-μ) * (↑(j + 1) * μ ^ (j + 1 - 1))) /
        ((j + 1).factorial : ℝ)) μ := h
  refine h'.congr_deriv ?_
  have h2 : (j.factorial : ℝ) ≠ 0 := by positivity
  have h1 : ((j : ℝ) + 1) ≠ 0 := by positivity
  rw [Nat.factorial_succ, Nat.add_sub_cancel]
  push_cast; field_simp; ring

theorem hasDerivAt_poisPartial (n : ℕ) (μ : ℝ) :
    HasDerivAt (poisPartial n) (-(poisPmf μ n)) μ := by
  induction n with
  | zero =>
    have : poisPartial 0 = fun m => poisPmf m 0 := by funext m; simp [poisPartial]
    rw [this]; exact hasDerivAt_poisPmf_zero μ
  | succ n ih =>
    have : poisPartial (n + 1) = fun m => poisPartial n m + poisPmf m (n + 1) := by
      funext m; simp [poisPartial, Finset.sum_range_succ]
    rw [this]
    have h := ih.fun_add (hasDerivAt_poisPmf_succ n μ)
    have e : -poisPmf μ n + (poisPmf μ n - poisPmf μ (n + 1)) = -poisPmf μ (n + 1) := by ring
    rw [e] at h; exact h

/-- P(N ≤ n) is non-increasing in the Poisson mean on [0, ∞) -/
theorem poisPartial_antitoneOn (n : ℕ) : AntitoneOn (poisPartial n) (Set.Ici 0) := by
  apply antitoneOn_of_deriv_nonpos (convex_Ici 0)
  · exact fun x _ => (hasDerivAt_poisPartial n x).continuousAt.continuousWithinAt
  · exact fun x _ => (hasDerivAt_poisPartial n x).differentiableAt.differentiableWithinAt
  · intro x hx
    rw [interior_Ici] at hx
    rw [(hasDerivAt_poisPartial n x).deriv]
    have := poisPmf_nonneg (le_of_lt hx) n
    linarith

end NumberTest
