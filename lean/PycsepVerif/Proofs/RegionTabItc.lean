import PycsepVerif.Model.RegionBuild
import PycsepVerif.Proofs.Bin1dTablesRegions
/-! kernel-evaluated table (property C01): on the shipped region's edge arrays (tables of C02, compared with the real
region by C02's harness) the float midpoint of EVERY column / row, built by `compute_vertex` + `Polygon.centroid` from the
edge as origin with dh = 0.1, is hashed by `bin1d_vec` to its own index; see Model/RegionBuild.lean `midsOwnBin` -/
namespace Region.Tables
open Bin1d.Tables
theorem tabItcX : midsOwnBin itcxRaw dh01 false = true := by decide +kernel
theorem tabItcY : midsOwnBin itcyRaw dh01 true = true := by decide +kernel
end Region.Tables
