import PycsepVerif.Proofs.Bin1dTables
/-! kernel-evaluated table (property C02): `tableOK` on a shipped grid; see Model/Bin1d.lean `probeOK` -/
namespace Bin1d.Tables
theorem tabNzx : tableOK (cfg64 false) nzxRaw [0, -1] = true := by decide +kernel
end Bin1d.Tables
