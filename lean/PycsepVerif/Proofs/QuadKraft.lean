import PycsepVerif.Proofs.Quadtree
import PycsepVerif.Properties.C17

/-! counting lemmas for `Properties/C17_Cover.lean`: the keys of a given depth, prefixes among them, double counting -/
namespace Quadtree

theorem digit_cases (d : Digit) : d = 0 ∨ d = 1 ∨ d = 2 ∨ d = 3 := by revert d; decide

/-- all quadkeys of length n -/
def keysOfLen : Nat → List Key
  | 0 => [[]]
  | n + 1 => ([0, 1, 2, 3] : List Digit).flatMap (fun d => (keysOfLen n).map (d :: ·))

theorem length_keysOfLen (n : Nat) : (keysOfLen n).length = 4 ^ n := by
  induction n with
  | zero => rfl
  | succ m ih => simp [keysOfLen, ih]; omega

theorem mem_keysOfLen (n : Nat) (k : Key) : k ∈ keysOfLen n ↔ k.length = n := by
  induction n generalizing k with
  | zero => simp [keysOfLen]
  | succ m ih =>
    cases k with
    | nil => simp [keysOfLen]
    | cons d k' =>
      simp only [keysOfLen, List.mem_flatMap, List.mem_map, List.length_cons]
      constructor
      · rintro ⟨e, _, t, ht, h⟩
        simp only [List.cons.injEq] at h
        rw [← h.2, (ih t).mp ht]
      · intro h
        refine ⟨d, ?_, k', (ih k').mpr (by omega), rfl⟩
        rcases digit_cases d with h | h | h | h <;> simp [h]

theorem countP_prefix_keysOfLen : ∀ (n : Nat) (k : Key), k.length ≤ n →
    (keysOfLen n).countP (fun t => k.isPrefixOf t) = 4 ^ (n - k.length)
  | n, [], _ => by simp [List.isPrefixOf, length_keysOfLen]
  | 0, d :: k', h => by simp at h
  | m + 1, d :: k', h => by
    have ih := countP_prefix_keysOfLen m k' (by simpa using h)
    have key : ∀ e : Digit, ((keysOfLen m).map (e :: ·)).countP (fun t => (d :: k').isPrefixOf t)
        = if d = e then 4 ^ (m - k'.length) else 0 := by
      intro e
      rw [List.countP_map]
      by_cases hde : d = e
      · subst hde
        simp only [if_true, ← ih]
        apply List.countP_congr
        intro t _
        simp [List.isPrefixOf]
      · simp only [hde, if_false]
        rw [List.countP_eq_zero]
        intro t _
        simp [List.isPrefixOf, hde]
    simp only [keysOfLen, List.flatMap_cons, List.flatMap_nil, List.append_nil, List.countP_append, key, List.length_cons,
      Nat.add_sub_add_right]
    rcases digit_cases d with h | h | h | h <;> simp [h]

/-- double counting -/
theorem sum_countP_swap {α β : Type} (R : α → β → Bool) (L : List α) (T : List β) :
    (T.map (fun t => L.countP (fun k => R k t))).sum = (L.map (fun k => T.countP (fun t => R k t))).sum := by
  induction L with
  | nil => simp
  | cons a l ih =>
    simp only [List.countP_cons, List.map_cons, List.sum_cons]
    rw [← ih]
    clear ih
    induction T with
    | nil => simp
    | cons t ts iht =>
      simp only [List.map_cons, List.sum_cons, List.countP_cons]
      rw [iht]; omega

theorem countP_le_one_of_pairwise {α : Type} (q : α → Bool) :
    ∀ l : List α, l.Pairwise (fun a b => ¬ (q a = true ∧ q b = true)) → l.countP q ≤ 1
  | [], _ => by simp
  | a :: l, h => by
    rw [List.pairwise_cons] at h
    rw [List.countP_cons]
    have ih := countP_le_one_of_pairwise q l h.2
    by_cases ha : q a = true
    · have : l.countP q = 0 := by
        rw [List.countP_eq_zero]
        intro b hb hq
        exact h.1 b hb ⟨ha, hq⟩
      simp [ha, this]
    · simp [ha]; exact ih

/-- a sum of numbers that are all ≤ 1 reaches the length iff all of them are 1 -/
theorem sum_eq_length_iff {β : Type} (f : β → Nat) : ∀ T : List β, (∀ t ∈ T, f t ≤ 1) →
    ((T.map f).sum = T.length ↔ ∀ t ∈ T, f t = 1)
  | [], _ => by simp
  | t :: ts, h => by
    have h1 := h t (List.mem_cons_self)
    have hs : ∀ u ∈ ts, f u ≤ 1 := fun u hu => h u (List.mem_cons_of_mem _ hu)
    have ih := sum_eq_length_iff f ts hs
    have hle : (ts.map f).sum ≤ ts.length := by
      clear ih
      induction ts with
      | nil => simp
      | cons u us ihu =>
        have := hs u (List.mem_cons_self)
        have := ihu (fun v hv => h v (by simp at hv ⊢; tauto)) (fun v hv => hs v (List.mem_cons_of_mem _ hv))
        simp only [List.map_cons, List.sum_cons, List.length_cons]; omega
    simp only [List.map_cons, List.sum_cons, List.length_cons, List.forall_mem_cons]
    constructor
    · intro hsum
      have : f t = 1 := by omega
      exact ⟨this, ih.mp (by omega)⟩
    · rintro ⟨a, b⟩
      have := ih.mpr b
      omega

/-- at most one listed key of a prefix-free list is a prefix of a given key -/
theorem prefixes_le_one {L : List Key} (hpf : prefixFree L) (t : Key) : L.countP (fun k => k.isPrefixOf t) ≤ 1 := by
  apply countP_le_one_of_pairwise
  unfold prefixFree at hpf
  refine hpf.imp ?_
  intro a b hab ⟨ha, hb⟩
  rw [List.isPrefixOf_iff_prefix] at ha hb
  rcases List.prefix_or_prefix_of_prefix ha hb with h | h
  · exact hab.1 h
  · exact hab.2 h

end Quadtree
