import PycsepVerif.Proofs.RegionBuild
import PycsepVerif.Properties.C02
/-!
# End to end: `from_origins` on a decimal lattice builds exactly that lattice

Origins = nearest doubles of `(S + i·D)/10^m` (a lattice of decimals with m places), spacing = nearest double of `D/10^m`,
`repr` showing m decimals. Then (C02 `cleanerRange_exact`) the edge arrays are the nearest doubles of the decimal grid,
these are `NearLattice`, and (`fromOrigins_cell`) the loop records every polygon at its lattice coordinates.
-/
namespace Region
open Soft64 Bin1d

/-- the double nearest to the decimal `(S + i·D)/10^m` -/
def latticePt (S D : ℤ) (m i : ℕ) : ℚ := fl64 (((S + (i : ℤ) * D : ℤ) : ℚ) / ((10 ^ m : ℕ) : ℚ))

/-! ## min / max of a list -/

private theorem foldl_min_spec (l : List ℚ) (init : ℚ) :
    (l.foldl (fun a b => if b < a then b else a) init = init ∨ l.foldl (fun a b => if b < a then b else a) init ∈ l) ∧
    l.foldl (fun a b => if b < a then b else a) init ≤ init ∧
    ∀ x ∈ l, l.foldl (fun a b => if b < a then b else a) init ≤ x := by
  induction l generalizing init with
  | nil => simp
  | cons y ys ih =>
    simp only [List.foldl_cons]
    obtain ⟨h1, h2, h3⟩ := ih (if y < init then y else init)
    by_cases hy : y < init
    · simp only [hy, if_true] at h1 h2 h3 ⊢
      refine ⟨?_, by linarith, ?_⟩
      · rcases h1 with h | h
        · right; rw [h]; exact List.mem_cons_self
        · right; exact List.mem_cons_of_mem _ h
      · intro x hx
        rcases List.mem_cons.mp hx with rfl | hx
        · exact h2
        · exact h3 x hx
    · simp only [hy, if_false] at h1 h2 h3 ⊢
      refine ⟨?_, h2, ?_⟩
      · rcases h1 with h | h
        · left; exact h
        · right; exact List.mem_cons_of_mem _ h
      · intro x hx
        rcases List.mem_cons.mp hx with rfl | hx
        · linarith [not_lt.mp hy]
        · exact h3 x hx

private theorem foldl_max_spec (l : List ℚ) (init : ℚ) :
    (l.foldl (fun a b => if a < b then b else a) init = init ∨ l.foldl (fun a b => if a < b then b else a) init ∈ l) ∧
    init ≤ l.foldl (fun a b => if a < b then b else a) init ∧
    ∀ x ∈ l, x ≤ l.foldl (fun a b => if a < b then b else a) init := by
  induction l generalizing init with
  | nil => simp
  | cons y ys ih =>
    simp only [List.foldl_cons]
    obtain ⟨h1, h2, h3⟩ := ih (if init < y then y else init)
    by_cases hy : init < y
    · simp only [hy, if_true] at h1 h2 h3 ⊢
      refine ⟨?_, by linarith, ?_⟩
      · rcases h1 with h | h
        · right; rw [h]; exact List.mem_cons_self
        · right; exact List.mem_cons_of_mem _ h
      · intro x hx
        rcases List.mem_cons.mp hx with rfl | hx
        · exact h2
        · exact h3 x hx
    · simp only [hy, if_false] at h1 h2 h3 ⊢
      refine ⟨?_, h2, ?_⟩
      · rcases h1 with h | h
        · left; exact h
        · right; exact List.mem_cons_of_mem _ h
      · intro x hx
        rcases List.mem_cons.mp hx with rfl | hx
        · linarith [not_lt.mp hy]
        · exact h3 x hx

theorem minL_eq (l : List ℚ) (a : ℚ) (ha : a ∈ l) (hle : ∀ x ∈ l, a ≤ x) : minL l = a := by
  unfold minL
  obtain ⟨h1, h2, h3⟩ := foldl_min_spec l (l.headD 0)
  have hhead : l.headD 0 ∈ l := by
    cases l with
    | nil => simp at ha
    | cons y ys => simp
  have hmem : l.foldl (fun a b => if b < a then b else a) (l.headD 0) ∈ l := by
    rcases h1 with h | h
    · rw [h]; exact hhead
    · exact h
  exact le_antisymm (h3 a ha) (hle _ hmem)

theorem maxL_eq (l : List ℚ) (a : ℚ) (ha : a ∈ l) (hle : ∀ x ∈ l, x ≤ a) : maxL l = a := by
  unfold maxL
  obtain ⟨h1, h2, h3⟩ := foldl_max_spec l (l.headD 0)
  have hhead : l.headD 0 ∈ l := by
    cases l with
    | nil => simp at ha
    | cons y ys => simp
  have hmem : l.foldl (fun a b => if a < b then b else a) (l.headD 0) ∈ l := by
    rcases h1 with h | h
    · rw [h]; exact hhead
    · exact h
  exact le_antisymm (hle _ hmem) (h3 a ha)

/-! ## the decimal grid is near the lattice -/

theorem latticePt_mono (S D : ℤ) (m : ℕ) (hD : 0 < D) {i j : ℕ} (h : i ≤ j) : latticePt S D m i ≤ latticePt S D m j := by
  unfold latticePt
  apply Soft64R.fl64_mono
  apply div_le_div_of_nonneg_right _ (by positivity)
  have : S + (i : ℤ) * D ≤ S + (j : ℤ) * D := by
    have : (i : ℤ) ≤ (j : ℤ) := by exact_mod_cast h
    nlinarith
  exact_mod_cast this

private theorem pow2_11 : pow2 11 = 2 ^ 11 := by rw [pow2_eq_zpow]; norm_num
private theorem pow2_m43 : pow2 (-43) = 1 / 2 ^ 43 := by rw [pow2_eq_zpow]; norm_num [zpow_neg]

/-- rounding a coordinate within ±2^10 moves it by at most 2^-43 -/
theorem fl64_coord_near (x : ℚ) (hl : -(2 ^ 10) ≤ x) (hu : x ≤ 2 ^ 10) : |fl64 x - x| ≤ 1 / 2 ^ 43 := by
  have := fl64_err_pow2 x 11 (by rw [pow2_11, abs_lt]; constructor <;> linarith) (by norm_num)
  rw [show (11 : ℤ) - 54 = -43 by norm_num, pow2_m43] at this
  exact this

theorem decimalGrid_length (S D : ℤ) (m len : ℕ) : (decimalGrid S D m len).length = len := by
  simp [decimalGrid]

theorem decimalGrid_getElem (S D : ℤ) (m len k : ℕ) (hk : k < (decimalGrid S D m len).length) :
    (decimalGrid S D m len)[k] = latticePt S D m k := by
  simp [decimalGrid, latticePt]

/-- lattice point k as `a + k·dh` with `a = S/10^m`, `dh = D/10^m` -/
theorem lattice_split (S D : ℤ) (m k : ℕ) :
    ((S + (k : ℤ) * D : ℤ) : ℚ) / ((10 ^ m : ℕ) : ℚ) = (S : ℚ) / ((10 ^ m : ℕ) : ℚ) + (k : ℚ) * ((D : ℚ) / ((10 ^ m : ℕ) : ℚ)) := by
  push_cast; ring

theorem decimalGrid_near (S D : ℤ) (m n : ℕ) (hD : 0 < D) (hn2 : 2 ≤ n) (hn16 : n ≤ 2 ^ 16)
    (hdh : 1 / 2 ^ 20 ≤ (D : ℚ) / ((10 ^ m : ℕ) : ℚ))
    (lo : -(2 ^ 10) ≤ (S : ℚ) / ((10 ^ m : ℕ) : ℚ))
    (hi : (S : ℚ) / ((10 ^ m : ℕ) : ℚ) + (n : ℚ) * ((D : ℚ) / ((10 ^ m : ℕ) : ℚ)) ≤ 2 ^ 10) :
    NearLattice ((S : ℚ) / ((10 ^ m : ℕ) : ℚ)) ((D : ℚ) / ((10 ^ m : ℕ) : ℚ)) (decimalGrid S D m n) := by
  have hd : (0 : ℚ) < (D : ℚ) / ((10 ^ m : ℕ) : ℚ) := lt_of_lt_of_le (by positivity) hdh
  refine ⟨by rw [decimalGrid_length]; exact hn2, by rw [decimalGrid_length]; exact hn16, hdh, lo,
    by rw [decimalGrid_length]; exact hi, ?_⟩
  intro k hk
  rw [decimalGrid_getElem, latticePt, lattice_split]
  rw [decimalGrid_length] at hk
  have h1 : (0 : ℚ) ≤ (k : ℚ) * ((D : ℚ) / ((10 ^ m : ℕ) : ℚ)) := by positivity
  have h2 : (k : ℚ) * ((D : ℚ) / ((10 ^ m : ℕ) : ℚ)) ≤ (n : ℚ) * ((D : ℚ) / ((10 ^ m : ℕ) : ℚ)) :=
    mul_le_mul_of_nonneg_right (by exact_mod_cast hk.le) hd.le
  have := fl64_coord_near ((S : ℚ) / ((10 ^ m : ℕ) : ℚ) + (k : ℚ) * ((D : ℚ) / ((10 ^ m : ℕ) : ℚ))) (by linarith) (by linarith)
  have h43 : (1 : ℚ) / 2 ^ 43 ≤ 1 / 2 ^ 41 := by norm_num
  linarith

/-! ## the construction on a decimal lattice -/

/-- the double nearest to the decimal spacing `D/10^m` -/
def dhPt (D : ℤ) (m : ℕ) : ℚ := fl64 ((D : ℚ) / ((10 ^ m : ℕ) : ℚ))

/-- origins of the cells `cs` (lattice coordinates) of the decimal lattice, as nearest doubles -/
def latticeOrigins (Sx Sy D : ℤ) (m : ℕ) (cs : List (ℕ × ℕ)) : List (ℚ × ℚ) :=
  cs.map (fun c => (latticePt Sx D m c.1, latticePt Sy D m c.2))

theorem fromOrigins_xs (os : List (ℚ × ℚ)) (dhf : ℚ) (flags : Option (List Bool)) (dec : ℕ × ℕ × ℕ) :
    (fromOrigins os dhf flags dec).xs = cleanerRangeAll (minL (os.map (·.1))) (maxL (os.map (·.1))) dhf dec.1 dec.2.2 := by
  have h := fromOrigins_origins os dhf flags dec
  unfold fromOrigins buildF at h ⊢
  simp only at h ⊢
  rw [h]

theorem fromOrigins_ys (os : List (ℚ × ℚ)) (dhf : ℚ) (flags : Option (List Bool)) (dec : ℕ × ℕ × ℕ) :
    (fromOrigins os dhf flags dec).ys = cleanerRangeAll (minL (os.map (·.2))) (maxL (os.map (·.2))) dhf dec.2.1 dec.2.2 := by
  have h := fromOrigins_origins os dhf flags dec
  unfold fromOrigins buildF at h ⊢
  simp only at h ⊢
  rw [h]

theorem latticePt_zero (S D : ℤ) (m : ℕ) : latticePt S D m 0 = fl64 ((S : ℚ) / ((10 ^ m : ℕ) : ℚ)) := by
  simp [latticePt]

/-- one axis: the edges `cleaner_range` makes from the min / max of the lattice points are the decimal grid -/
theorem axis_edges (S D : ℤ) (m n : ℕ) (is : List ℕ) (hm : m ≤ 22) (hD : 0 < D) (hn : 1 ≤ n)
    (hb : |S| + (n : ℤ) * D ≤ 2 ^ 50)
    (hlt : ∀ i ∈ is, i < n) (h0 : 0 ∈ is) (h1 : n - 1 ∈ is) :
    cleanerRangeAll (minL (is.map (latticePt S D m))) (maxL (is.map (latticePt S D m))) (dhPt D m) m m
      = decimalGrid S D m n := by
  have hmin : minL (is.map (latticePt S D m)) = latticePt S D m 0 := by
    apply minL_eq
    · exact List.mem_map.mpr ⟨0, h0, rfl⟩
    · intro x hx
      obtain ⟨i, _, rfl⟩ := List.mem_map.mp hx
      exact latticePt_mono S D m hD (Nat.zero_le _)
  have hmax : maxL (is.map (latticePt S D m)) = latticePt S D m (n - 1) := by
    apply maxL_eq
    · exact List.mem_map.mpr ⟨n - 1, h1, rfl⟩
    · intro x hx
      obtain ⟨i, hi, rfl⟩ := List.mem_map.mp hx
      exact latticePt_mono S D m hD (by have := hlt i hi; omega)
  rw [hmin, hmax, latticePt_zero]
  have hcnt : ((n - 1 : ℕ) : ℤ) + 1 = (n : ℤ) := by omega
  have hex := Bin1d.cleanerRange_exact S D m (n - 1) hm hD (by rw [hcnt]; exact hb)
  have hn1 : n - 1 + 1 = n := by omega
  rw [hn1] at hex
  unfold cleanerRangeAll dhPt latticePt
  rw [Nat.max_self, hex]

/-- hypotheses on one axis of a decimal lattice: `n` columns at `(S + k·D)/10^m`, within the ranges of
`midpoint_hash_correct` and of C02's `cleanerRange_exact` -/
structure DecAxis (S D : ℤ) (m n : ℕ) : Prop where
  m22 : m ≤ 22
  dpos : 0 < D
  n2 : 2 ≤ n
  n16 : n ≤ 2 ^ 16
  grid : |S| + (n : ℤ) * D ≤ 2 ^ 50
  dh_min : 1 / 2 ^ 20 ≤ (D : ℚ) / ((10 ^ m : ℕ) : ℚ)
  lo : -(2 ^ 10) ≤ (S : ℚ) / ((10 ^ m : ℕ) : ℚ)
  hi : (S : ℚ) / ((10 ^ m : ℕ) : ℚ) + (n : ℚ) * ((D : ℚ) / ((10 ^ m : ℕ) : ℚ)) ≤ 2 ^ 10

theorem DecAxis.near {S D : ℤ} {m n : ℕ} (A : DecAxis S D m n) :
    NearLattice ((S : ℚ) / ((10 ^ m : ℕ) : ℚ)) ((D : ℚ) / ((10 ^ m : ℕ) : ℚ)) (decimalGrid S D m n) :=
  decimalGrid_near S D m n A.dpos A.n2 A.n16 A.dh_min A.lo A.hi

theorem DecAxis.pt_near {S D : ℤ} {m n : ℕ} (A : DecAxis S D m n) (i : ℕ) (hi : i < n) :
    |latticePt S D m i - ((S : ℚ) / ((10 ^ m : ℕ) : ℚ) + (i : ℚ) * ((D : ℚ) / ((10 ^ m : ℕ) : ℚ)))| ≤ 1 / 2 ^ 41 := by
  have hd : (0 : ℚ) < (D : ℚ) / ((10 ^ m : ℕ) : ℚ) := lt_of_lt_of_le (by positivity) A.dh_min
  rw [latticePt, lattice_split]
  have h1 : (0 : ℚ) ≤ (i : ℚ) * ((D : ℚ) / ((10 ^ m : ℕ) : ℚ)) := by positivity
  have h2 : (i : ℚ) * ((D : ℚ) / ((10 ^ m : ℕ) : ℚ)) ≤ (n : ℚ) * ((D : ℚ) / ((10 ^ m : ℕ) : ℚ)) :=
    mul_le_mul_of_nonneg_right (by exact_mod_cast hi.le) hd.le
  have := fl64_coord_near ((S : ℚ) / ((10 ^ m : ℕ) : ℚ) + (i : ℚ) * ((D : ℚ) / ((10 ^ m : ℕ) : ℚ)))
    (by linarith [A.lo]) (by linarith [A.hi])
  have h43 : (1 : ℚ) / 2 ^ 43 ≤ 1 / 2 ^ 41 := by norm_num
  linarith

theorem DecAxis.dh_near {S D : ℤ} {m n : ℕ} (A : DecAxis S D m n) :
    |dhPt D m - (D : ℚ) / ((10 ^ m : ℕ) : ℚ)| ≤ 1 / 2 ^ 41 := by
  have hd : (0 : ℚ) < (D : ℚ) / ((10 ^ m : ℕ) : ℚ) := lt_of_lt_of_le (by positivity) A.dh_min
  have hn : (2 : ℚ) ≤ (n : ℚ) := by exact_mod_cast A.n2
  have h2 : 2 * ((D : ℚ) / ((10 ^ m : ℕ) : ℚ)) ≤ (n : ℚ) * ((D : ℚ) / ((10 ^ m : ℕ) : ℚ)) :=
    mul_le_mul_of_nonneg_right hn hd.le
  have := fl64_coord_near ((D : ℚ) / ((10 ^ m : ℕ) : ℚ)) (by linarith) (by linarith [A.lo, A.hi])
  have h43 : (1 : ℚ) / 2 ^ 43 ≤ 1 / 2 ^ 41 := by norm_num
  unfold dhPt
  linarith

theorem decimal_xs (Sx Sy D : ℤ) (m nx : ℕ) (cs : List (ℕ × ℕ)) (flags : Option (List Bool)) (Ax : DecAxis Sx D m nx)
    (hin : ∀ c ∈ cs, c.1 < nx) (hx0 : 0 ∈ cs.map (·.1)) (hx1 : nx - 1 ∈ cs.map (·.1)) :
    (fromOrigins (latticeOrigins Sx Sy D m cs) (dhPt D m) flags (m, m, m)).xs = decimalGrid Sx D m nx := by
  rw [fromOrigins_xs]
  have : (latticeOrigins Sx Sy D m cs).map (·.1) = (cs.map (·.1)).map (latticePt Sx D m) := by
    simp [latticeOrigins, List.map_map, Function.comp_def]
  rw [this]
  dsimp only
  have h := axis_edges Sx D m nx (cs.map (·.1)) Ax.m22 Ax.dpos (by have := Ax.n2; omega) Ax.grid
    (by intro i hi; obtain ⟨c, hc, rfl⟩ := List.mem_map.mp hi; exact hin c hc) hx0 hx1
  exact h

theorem decimal_ys (Sx Sy D : ℤ) (m ny : ℕ) (cs : List (ℕ × ℕ)) (flags : Option (List Bool)) (Ay : DecAxis Sy D m ny)
    (hin : ∀ c ∈ cs, c.2 < ny) (hy0 : 0 ∈ cs.map (·.2)) (hy1 : ny - 1 ∈ cs.map (·.2)) :
    (fromOrigins (latticeOrigins Sx Sy D m cs) (dhPt D m) flags (m, m, m)).ys = decimalGrid Sy D m ny := by
  rw [fromOrigins_ys]
  have : (latticeOrigins Sx Sy D m cs).map (·.2) = (cs.map (·.2)).map (latticePt Sy D m) := by
    simp [latticeOrigins, List.map_map, Function.comp_def]
  rw [this]
  dsimp only
  have h := axis_edges Sy D m ny (cs.map (·.2)) Ay.m22 Ay.dpos (by have := Ay.n2; omega) Ay.grid
    (by intro i hi; obtain ⟨c, hc, rfl⟩ := List.mem_map.mp hi; exact hin c hc) hy0 hy1
  exact h

theorem latticeOrigins_getElem? (Sx Sy D : ℤ) (m : ℕ) (cs : List (ℕ × ℕ)) (k : ℕ) (hk : k < cs.length) :
    (latticeOrigins Sx Sy D m cs)[k]? = some (latticePt Sx D m cs[k].1, latticePt Sy D m cs[k].2) := by
  simp [latticeOrigins, hk]

/-- **the float construction of a decimal lattice**: for cells `cs` (lattice coordinates, any order, holes, duplicates)
of an `nx × ny` decimal lattice that touch all four sides of the bounding box, `from_origins` on the nearest doubles
yields the nearest doubles of the decimal grid as `xs`, `ys`, and records polygon k at its lattice coordinates -/
theorem fromOrigins_decimal (Sx Sy D : ℤ) (m nx ny : ℕ) (cs : List (ℕ × ℕ)) (flags : Option (List Bool))
    (Ax : DecAxis Sx D m nx) (Ay : DecAxis Sy D m ny)
    (hin : ∀ c ∈ cs, c.1 < nx ∧ c.2 < ny)
    (hx0 : 0 ∈ cs.map (·.1)) (hx1 : nx - 1 ∈ cs.map (·.1)) (hy0 : 0 ∈ cs.map (·.2)) (hy1 : ny - 1 ∈ cs.map (·.2)) :
    (fromOrigins (latticeOrigins Sx Sy D m cs) (dhPt D m) flags (m, m, m)).xs = decimalGrid Sx D m nx ∧
    (fromOrigins (latticeOrigins Sx Sy D m cs) (dhPt D m) flags (m, m, m)).ys = decimalGrid Sy D m ny ∧
    (fromOrigins (latticeOrigins Sx Sy D m cs) (dhPt D m) flags (m, m, m)).cells.length = cs.length ∧
    ∀ k (hk : k < cs.length),
      (fromOrigins (latticeOrigins Sx Sy D m cs) (dhPt D m) flags (m, m, m)).cells[k]?
        = some ⟨cs[k].1, cs[k].2, flagOf flags k⟩ := by
  have hxs := decimal_xs Sx Sy D m nx cs flags Ax (fun c hc => (hin c hc).1) hx0 hx1
  have hys := decimal_ys Sx Sy D m ny cs flags Ay (fun c hc => (hin c hc).2) hy0 hy1
  have hlen : (latticeOrigins Sx Sy D m cs).length = cs.length := by simp [latticeOrigins]
  refine ⟨hxs, hys, (fromOrigins_cells_length _ _ _ _).trans hlen, ?_⟩
  intro k hk
  obtain ⟨hi, hj⟩ := hin _ (List.getElem_mem hk)
  have Hx : NearLattice ((Sx : ℚ) / ((10 ^ m : ℕ) : ℚ)) ((D : ℚ) / ((10 ^ m : ℕ) : ℚ))
      (fromOrigins (latticeOrigins Sx Sy D m cs) (dhPt D m) flags (m, m, m)).xs := hxs ▸ Ax.near
  have Hy : NearLattice ((Sy : ℚ) / ((10 ^ m : ℕ) : ℚ)) ((D : ℚ) / ((10 ^ m : ℕ) : ℚ))
      (fromOrigins (latticeOrigins Sx Sy D m cs) (dhPt D m) flags (m, m, m)).ys := hys ▸ Ay.near
  have hi' : cs[k].1 < (fromOrigins (latticeOrigins Sx Sy D m cs) (dhPt D m) flags (m, m, m)).xs.length := by
    rw [hxs, decimalGrid_length]; exact hi
  have hj' : cs[k].2 < (fromOrigins (latticeOrigins Sx Sy D m cs) (dhPt D m) flags (m, m, m)).ys.length := by
    rw [hys, decimalGrid_length]; exact hj
  have h := fromOrigins_cell _ _ _ (dhPt D m) _ flags (m, m, m) Hx Hy Ax.dh_near k cs[k].1 cs[k].2
    (latticePt Sx D m cs[k].1, latticePt Sy D m cs[k].2) (latticeOrigins_getElem? Sx Sy D m cs k hk) hi' hj'
    (Ax.pt_near _ hi) (Ay.pt_near _ hj)
  exact h

/-! ## `from_origins` without `dh` (after fix d4a1abe) -/

theorem dhPt_nonneg (D : ℤ) (m : ℕ) (hD : 0 < D) : 0 ≤ dhPt D m := by
  unfold dhPt
  apply Soft64R.fl64_nonneg
  have : (0 : ℚ) < (D : ℚ) := by exact_mod_cast hD
  positivity

private theorem fabs_fl64_step (D : ℤ) (m : ℕ) (hD : 0 < D) (a : ℤ) (ha : a = 0 ∨ a = 1 ∨ a = -1) :
    fabs (fl64 ((a : ℚ) * ((D : ℚ) / ((10 ^ m : ℕ) : ℚ)))) = if a = 0 then 0 else dhPt D m := by
  have h0 := dhPt_nonneg D m hD
  rcases ha with rfl | rfl | rfl
  · simp [Soft64R.fl64_zero, fabs]
  · simp only [Int.cast_one, one_mul, one_ne_zero, if_false]
    rw [fabs_eq_abs]; exact abs_of_nonneg h0
  · have : ((-1 : ℤ) : ℚ) * ((D : ℚ) / ((10 ^ m : ℕ) : ℚ)) = -((D : ℚ) / ((10 ^ m : ℕ) : ℚ)) := by push_cast; ring
    rw [this, Soft64R.fl64_neg, fabs_eq_abs, abs_neg]
    simp only [show ((-1 : ℤ) = 0) = False by simp, if_false]
    exact abs_of_nonneg h0

/-- the spacing `from_origins` infers when `dh` is not given: if the decimal strings of the first two origins differ by
`a` steps in longitude and `b` steps in latitude of the decimal spacing `D/10^m`, `a, b ∈ {−1, 0, 1}` not both zero (the
first two cells are adjacent, as the code assumes), the inferred spacing is the double nearest to `D/10^m` — the value a
caller would pass as `dh` -/
theorem inferDh_decimal (D : ℤ) (m : ℕ) (hD : 0 < D) (r0 r1 : ℚ × ℚ) (a b : ℤ)
    (ha : a = 0 ∨ a = 1 ∨ a = -1) (hb : b = 0 ∨ b = 1 ∨ b = -1) (hab : a ≠ 0 ∨ b ≠ 0)
    (hx : r1.1 - r0.1 = (a : ℚ) * ((D : ℚ) / ((10 ^ m : ℕ) : ℚ)))
    (hy : r1.2 - r0.2 = (b : ℚ) * ((D : ℚ) / ((10 ^ m : ℕ) : ℚ))) :
    inferDh r0 r1 = dhPt D m := by
  have h0 := dhPt_nonneg D m hD
  unfold inferDh
  simp only [hx, hy, fabs_fl64_step D m hD a ha, fabs_fl64_step D m hD b hb]
  by_cases ha0 : a = 0
  · have hb0 : b ≠ 0 := by rcases hab with h | h; exact absurd ha0 h; exact h
    simp only [ha0, hb0, if_true, if_false]
    have : ¬ (dhPt D m < 0) := not_lt.mpr h0
    simp [this]
  · by_cases hb0 : b = 0
    · simp only [ha0, hb0, if_true, if_false]
      by_cases hpos : (0 : ℚ) < dhPt D m
      · simp [hpos]
      · have : dhPt D m = 0 := le_antisymm (not_lt.mp hpos) h0
        simp [this]
    · simp only [ha0, hb0, if_false, lt_irrefl]

end Region
