import PycsepVerif.Proofs.NumberTest
import Mathlib.Analysis.Analytic.Binomial

/-! The negative-binomial masses of `Model/NumberTest.lean` sum to one (binomial series for a real exponent). -/
namespace NumberTest
open Finset

/-- closed form of the recurrence: nbPmf r p k = p^r · (r)_k / k! · (1-p)^k with (r)_k the rising factorial -/
theorem nbPmf_eq (r p : ℝ) (k : ℕ) :
    nbPmf r p k = Real.exp (r * Real.log p) * ((ascPochhammer ℝ k).eval r / (k.factorial : ℝ)) * (1 - p) ^ k := by
  induction k with
  | zero => simp [nbPmf]
  | succ k ih =>
    rw [nbPmf_ratio, ih, ascPochhammer_succ_eval, Nat.factorial_succ]
    simp only [nbRatio, RealOps.real_div, RealOps.real_mul, RealOps.real_ofNat, RealOps.real_add,
      RealOps.real_sub, RealOps.real_one]
    have h1 : ((k + 1 : ℕ) : ℝ) ≠ 0 := by positivity
    have h2 : (k.factorial : ℝ) ≠ 0 := by positivity
    push_cast; field_simp; ring

theorem choose_eq_pochhammer (r : ℝ) (k : ℕ) :
    Ring.choose (r + k - 1) k = (ascPochhammer ℝ k).eval r / (k.factorial : ℝ) := by
  rw [← Ring.multichoose_eq, eq_div_iff (by positivity), ← Polynomial.ascPochhammer_smeval_eq_eval,
    ← Ring.factorial_nsmul_multichoose_eq_ascPochhammer, nsmul_eq_mul]
  ring

theorem nbPmf_hasSum {r p : ℝ} (hp0 : 0 < p) (hp1 : p ≤ 1) : HasSum (nbPmf r p) 1 := by
  have hq : (1 - p) ∈ Metric.eball (0 : ℝ) 1 := by
    rw [Metric.mem_eball, edist_dist, dist_zero_right, Real.norm_eq_abs]
    rw [show (1 : ENNReal) = ENNReal.ofReal 1 by simp, ENNReal.ofReal_lt_ofReal_iff (by norm_num)]
    rw [abs_lt]; constructor <;> linarith
  have h := (Real.one_div_one_sub_rpow_hasFPowerSeriesOnBall_zero r).hasSum hq
  simp only [FormalMultilinearSeries.ofScalars_apply_eq, zero_add, sub_sub_cancel, smul_eq_mul] at h
  have h2 := h.mul_left (Real.exp (r * Real.log p))
  have e1 : Real.exp (r * Real.log p) * (1 / p ^ r) = 1 := by
    rw [Real.rpow_def_of_pos hp0, mul_comm (Real.log p) r]
    field_simp
  rw [e1] at h2
  have e2 : nbPmf r p = fun (k : ℕ) => Real.exp (r * Real.log p) * (Ring.choose (r + (k : ℝ) - 1) k * (1 - p) ^ k) := by
    funext k; rw [nbPmf_eq, choose_eq_pochhammer]; ring
  rw [e2]; exact h2

theorem nbPmf_nonneg {r p : ℝ} (hr : 0 ≤ r) (hp1 : p ≤ 1) (k : ℕ) : 0 ≤ nbPmf r p k := by
  induction k with
  | zero => simp only [nbPmf, RealOps.real_exp]; positivity
  | succ k ih =>
    rw [nbPmf_ratio]
    apply mul_nonneg ih
    simp only [nbRatio, RealOps.real_div, RealOps.real_mul, RealOps.real_ofNat, RealOps.real_add,
      RealOps.real_sub, RealOps.real_one]
    have : 0 ≤ 1 - p := by linarith
    positivity

end NumberTest
