import PycsepVerif.Proofs.DecYear
import PycsepVerif.Proofs.Soft64Bound

/-! decimal year: rational-arithmetic lemmas (exact layer), on top of the calendar lemmas of `DecYear.lean` -/
namespace Time
open Soft64

theorem yearLen_cast (y : Int) : (if isLeap y then (366 : ℚ) else 365) = ((yearLen y : Int) : ℚ) := by
  unfold yearLen; split <;> simp

/-- **the exact decimal year is linear within the year**: `year + (us − yearStart) / yearLength` -/
theorem decimalYearExact_eq (us : Int) :
    decimalYearExact us = ((fields us).year : ℚ)
      + ((us - yearStartUs (fields us).year : Int) : ℚ) / ((yearLen (fields us).year * usPerDay : Int) : ℚ) := by
  obtain ⟨_, _, hpos⟩ := year_bracket us
  have hl := yearLen_cases (fields us).year
  unfold decimalYearExact
  simp only [yearLen_cast]
  rw [← hpos]
  have hr : us - yearStartUs (fields us).year
      = (us / usPerDay - yearStartDay (fields us).year) * 86400000000 + (fields us).hour * 3600000000
        + (fields us).minute * 60000000 + (fields us).second * 1000000 + (fields us).micro := by
    simp only [fields, yearStartUs, usPerDay]; omega
  rw [hr]
  have hL : ((yearLen (fields us).year : Int) : ℚ) ≠ 0 := by
    rcases hl with h | h <;> rw [h] <;> norm_num
  simp only [usPerDay]
  push_cast
  field_simp
  ring

theorem yearStartUs_succ (y : Int) : yearStartUs (y + 1) = yearStartUs y + yearLen y * 86400000000 := by
  simp only [yearStartUs, usPerDay, yearStartDay_succ]; ring

/-- **the exact decimal year grows at least as fast as time in units of the longest year**:
    `(b − a) / (366 days) ≤ exact b − exact a` for `a ≤ b` (within and across years, leap years included). -/
theorem decimalYearExact_lower (a b : Int) (hab : a ≤ b) :
    ((b - a : Int) : ℚ) / 31622400000000 ≤ decimalYearExact b - decimalYearExact a := by
  rw [decimalYearExact_eq a, decimalYearExact_eq b]
  obtain ⟨a0, a1, _⟩ := year_bracket a
  obtain ⟨b0, b1, _⟩ := year_bracket b
  generalize (fields a).year = ya at *
  generalize (fields b).year = yb at *
  have sa := yearStartUs_succ ya
  have sb := yearStartUs_succ yb
  have la := yearLen_cases ya
  have lb := yearLen_cases yb
  simp only [usPerDay]
  have hLA : ((yearLen ya : Int) : ℚ) = 365 ∨ ((yearLen ya : Int) : ℚ) = 366 := by
    rcases la with h | h <;> simp [h]
  have hLB : ((yearLen yb : Int) : ℚ) = 365 ∨ ((yearLen yb : Int) : ℚ) = 366 := by
    rcases lb with h | h <;> simp [h]
  rcases lt_trichotomy ya yb with hlt | heq | hgt
  · -- different years
    have hbd' : yearStartUs yb ≤ yearStartUs (ya + 1) + 31622400000000 * (yb - (ya + 1)) := by
      have hbd := (yearStartDay_bounds (ya + 1) yb (by omega)).2
      simp only [yearStartUs, usPerDay]; omega
    have hge : yearStartUs (ya + 1) ≤ yearStartUs yb := by
      have := (yearStartDay_bounds (ya + 1) yb (by omega)).1
      simp only [yearStartUs, usPerDay]; omega
    have q1 : ((yearStartUs yb : Int) : ℚ) ≤ (yearStartUs ya : ℚ) + (yearLen ya : ℚ) * 86400000000
        + 31622400000000 * ((yb : ℚ) - ((ya : ℚ) + 1)) := by
      have := hbd'; rw [sa] at this; exact_mod_cast this
    have q3 : (a : ℚ) < (yearStartUs ya : ℚ) + (yearLen ya : ℚ) * 86400000000 := by
      have := a1; rw [sa] at this; exact_mod_cast this
    have q5 : (yearStartUs yb : ℚ) ≤ (b : ℚ) := by exact_mod_cast b0
    push_cast
    generalize ((yearLen ya : Int) : ℚ) = LA at *
    generalize ((yearLen yb : Int) : ℚ) = LB at *
    generalize ((yearStartUs ya : Int) : ℚ) = SA at *
    generalize ((yearStartUs yb : Int) : ℚ) = SB at *
    rcases hLA with rfl | rfl <;> rcases hLB with rfl | rfl <;> linarith
  · subst heq
    have q0 : (a : ℚ) ≤ (b : ℚ) := by exact_mod_cast hab
    push_cast
    generalize ((yearLen ya : Int) : ℚ) = LA at *
    generalize ((yearStartUs ya : Int) : ℚ) = SA at *
    rcases hLA with rfl | rfl <;> linarith
  · exfalso
    have := (yearStartDay_bounds (yb + 1) ya (by omega)).1
    simp only [yearStartUs, usPerDay] at *
    omega

/-! ### the inverse `decimal_year_to_utc_datetime` (Soft64) -/

theorem mpy_365 : fmul (fmul (fmul (fmul 365 24) 60) 60) 1000000 = 31536000000000 := by decide +kernel
theorem mpy_366 : fmul (fmul (fmul (fmul 366 24) 60) 60) 1000000 = 31622400000000 := by decide +kernel
theorem pow2_45 : pow2 45 = 35184372088832 := by decide +kernel
theorem pow2_m9 : pow2 (45 - 54) = 1 / 512 := by decide +kernel

/-- microseconds per year as computed by the float product chain: exact -/
theorem mpy_eq (y : Int) :
    fmul (fmul (fmul (fmul (if isLeap y then (366 : ℚ) else 365) 24) 60) 60) 1000000
      = ((yearLen y * 86400000000 : Int) : ℚ) := by
  unfold yearLen
  split
  · rw [mpy_366]; norm_num
  · rw [mpy_365]; norm_num

/-- the datetime returned for the decimal year `D` lies in year `⌊D⌋` (or is the next year start) and its exact
    decimal year is within 0.51 µs / year-length of `D`. -/
theorem inverse_exact_close (D : ℚ) :
    |decimalYearExact (decimalYearToDatetime D) - D| ≤ 1 / 60000000000000 := by
  set Y : Int := D.floor with hY
  have hf0 : 0 ≤ D - (Y : ℚ) := by have := Rat.floor_le D; linarith
  have hf1 : D - (Y : ℚ) < 1 := by have := Rat.lt_floor_add_one D; push_cast at this; linarith
  have hl := yearLen_cases Y
  set L : Int := yearLen Y * 86400000000 with hL
  have hLpos : (0 : ℚ) < (L : ℚ) := by
    rcases hl with h | h <;> simp only [hL, h] <;> norm_num
  have hLle : (L : ℚ) ≤ 31622400000000 := by
    rcases hl with h | h <;> simp only [hL, h] <;> norm_num
  have hLge : (31536000000000 : ℚ) ≤ (L : ℚ) := by
    rcases hl with h | h <;> simp only [hL, h] <;> norm_num
  -- the float product
  set mi : ℚ := fmul (L : ℚ) (D - (Y : ℚ)) with hmi
  have hprod0 : 0 ≤ (L : ℚ) * (D - (Y : ℚ)) := mul_nonneg hLpos.le hf0
  have hprod1 : (L : ℚ) * (D - (Y : ℚ)) < (L : ℚ) := by
    have := mul_lt_mul_of_pos_left hf1 hLpos; linarith
  have habs : |(L : ℚ) * (D - (Y : ℚ))| < pow2 45 := by
    rw [abs_of_nonneg hprod0, pow2_45]; linarith
  have herr := fl64_err_pow2 _ 45 habs (by norm_num)
  rw [pow2_m9] at herr
  have hmi_err : |mi - (L : ℚ) * (D - (Y : ℚ))| ≤ 1 / 512 := herr
  have hr_err := rhe_abs_le mi
  -- 0 ≤ round(mi) ≤ L
  have hLrep : fl64 (L : ℚ) = (L : ℚ) := by
    apply isF64_int
    rcases hl with h | h <;> simp only [hL, h] <;> norm_num
  have hmi0 : 0 ≤ mi := fl64_nonneg hprod0
  have hmiL : mi ≤ (L : ℚ) := by
    have := fl64_mono hprod1.le; rw [hLrep] at this; exact this
  have hr0 : 0 ≤ roundHalfEven mi := by
    have := rhe_mono hmi0; rwa [show ((0 : ℚ)) = ((0 : Int) : ℚ) by norm_num, rhe_int] at this
  have hrL : roundHalfEven mi ≤ L := by
    have := rhe_mono hmiL; rwa [rhe_int] at this
  -- the result
  have hR : decimalYearToDatetime D = yearStartUs Y + roundHalfEven mi := by
    simp only [decimalYearToDatetime, yearStartUs, yearStartDay, ← hY, mpy_eq, ← hL, ← hmi]
  set R := decimalYearToDatetime D with hRdef
  have hsucc := yearStartUs_succ Y
  rw [← hL] at hsucc
  have hclose : |((roundHalfEven mi : Int) : ℚ) - (L : ℚ) * (D - (Y : ℚ))| ≤ 1 / 2 + 1 / 512 := by
    rw [abs_le] at hmi_err hr_err ⊢
    constructor <;> linarith [hmi_err.1, hmi_err.2, hr_err.1, hr_err.2]
  -- exact decimal year of R
  have hex : decimalYearExact R = (Y : ℚ) + ((roundHalfEven mi : Int) : ℚ) / (L : ℚ) := by
    rw [decimalYearExact_eq R]
    by_cases hlt : roundHalfEven mi < L
    · have hy : (fields R).year = Y := year_unique R Y (by omega) (by omega)
      rw [hy, hR]
      simp only [usPerDay, ← hL]
      congr 2
      push_cast; ring
    · have heq : roundHalfEven mi = L := by omega
      have hs2 := yearStartUs_succ (Y + 1)
      have hl2 := yearLen_cases (Y + 1)
      have hy : (fields R).year = Y + 1 := year_unique R (Y + 1) (by omega) (by omega)
      rw [hy, hR, heq, hsucc]
      simp only [usPerDay]
      have : yearStartUs Y + L - (yearStartUs Y + L) = 0 := by ring
      rw [this]
      push_cast
      rw [div_self hLpos.ne']
      simp
  rw [hex]
  have e : (Y : ℚ) + ((roundHalfEven mi : Int) : ℚ) / (L : ℚ) - D
      = (((roundHalfEven mi : Int) : ℚ) - (L : ℚ) * (D - (Y : ℚ))) / (L : ℚ) := by
    field_simp; ring
  rw [e, abs_div, abs_of_pos hLpos, div_le_iff₀ hLpos]
  calc |((roundHalfEven mi : Int) : ℚ) - (L : ℚ) * (D - (Y : ℚ))| ≤ 1 / 2 + 1 / 512 := hclose
    _ ≤ 1 / 60000000000000 * (L : ℚ) := by linarith

end Time
