import PycsepVerif.Properties.C16
import Mathlib.Analysis.SpecialFunctions.Log.Basic
import Mathlib.Tactic.Positivity

/-! Helper lemmas of `Properties/C16_Cancellation.lean`. -/
namespace BinaryBrier
open Real

/-- `|log x̂ − log x| ≤ |x̂ − x| / min(x, x̂)` in the one-sided forms used below -/
theorem abs_log_sub_log_le {x y : ℝ} (hx : 0 < x) (hy : 0 < y) (d : ℝ) (hd : |y - x| ≤ d) (hdx : d < x) :
    |Real.log y - Real.log x| ≤ d / (x - d) := by
  have hxd : 0 < x - d := by linarith
  have hylo : x - d ≤ y := by have := (abs_le.mp hd).1; linarith
  have hyhi : y ≤ x + d := by have := (abs_le.mp hd).2; linarith
  have hd0 : 0 ≤ d := le_trans (abs_nonneg _) hd
  rw [abs_le]
  constructor
  · -- log x − log y = log (x / y) ≤ x / y − 1 = (x − y) / y ≤ d / (x − d)
    have h1 : Real.log (x / y) ≤ x / y - 1 := Real.log_le_sub_one_of_pos (div_pos hx hy)
    rw [Real.log_div hx.ne' hy.ne'] at h1
    have h2 : x / y - 1 = (x - y) / y := by field_simp
    have h3 : (x - y) / y ≤ d / (x - d) := by
      rw [div_le_div_iff₀ hy hxd]
      nlinarith
    linarith
  · have h1 : Real.log (y / x) ≤ y / x - 1 := Real.log_le_sub_one_of_pos (div_pos hy hx)
    rw [Real.log_div hy.ne' hx.ne'] at h1
    have h2 : y / x - 1 = (y - x) / x := by field_simp
    have h3 : (y - x) / x ≤ d / (x - d) := by
      rw [div_le_div_iff₀ hx hxd]
      nlinarith
    linarith

/-- the arithmetic of the bound: with `a = 2^-52`, `p ≥ 8a` and `d ≤ a(p + a)/2 + a` one has `d < p` and `d/(p − d) ≤ 2a/p` -/
theorem cancel_alg (p d a : ℝ) (hp : 8 * a ≤ p) (hp1 : p < 1) (ha : 0 < a) (ha' : a ≤ 1 / 1000)
    (hd : d ≤ 2⁻¹ * a * (p + a) + a) : d < p ∧ d * p ≤ 2 * a * (p - d) := by
  have hp0 : 0 < p := by linarith
  have h1 : 2⁻¹ * a * (p + a) ≤ 2⁻¹ * a * (1 + 1 / 1000) := by
    apply mul_le_mul_of_nonneg_left (by linarith) (by positivity)
  have hd' : d ≤ (16 / 10) * a := by linarith
  refine ⟨by linarith, ?_⟩
  have h2 : d * (p + 2 * a) ≤ (16 / 10) * a * (p + 2 * a) :=
    mul_le_mul_of_nonneg_right hd' (by linarith)
  nlinarith [mul_pos ha hp0, mul_pos ha ha]

end BinaryBrier
