import PycsepVerif.Model.Sampler
import PycsepVerif.Proofs.Soft64

/-! helper lemmas for property C06 (Model/Sampler.lean) -/
namespace Sampler
open Soft64

/-! ### the cumulative sum as a plain recursion -/

/-- `cumFrom a xs` = running float sums of `xs` started at `a` -/
def cumFrom (a : Rat) : List Rat → List Rat
  | [] => []
  | x :: xs => fadd a x :: cumFrom (fadd a x) xs

private theorem foldl_cum (xs : List Rat) (a : Rat) (l : List Rat) :
    (xs.foldl (fun (acc : Rat × List Rat) x => (fadd acc.1 x, fadd acc.1 x :: acc.2)) (a, l)).2.reverse
      = l.reverse ++ cumFrom a xs := by
  induction xs generalizing a l with
  | nil => simp [cumFrom]
  | cons x xs ih => simp [List.foldl_cons, ih, cumFrom]

theorem cumsumF_eq (xs : List Rat) : cumsumF xs = cumFrom 0 xs := by
  unfold cumsumF
  simpa using foldl_cum xs 0 []

theorem cumFrom_length (a : Rat) (xs : List Rat) : (cumFrom a xs).length = xs.length := by
  induction xs generalizing a with
  | nil => rfl
  | cons x xs ih => simp [cumFrom, ih]

/-- every partial sum is a float -/
theorem cumFrom_float (a : Rat) (xs : List Rat) : ∀ y ∈ cumFrom a xs, fl64 y = y := by
  induction xs generalizing a with
  | nil => simp [cumFrom]
  | cons x xs ih =>
    intro y hy
    simp only [cumFrom, List.mem_cons] at hy
    rcases hy with rfl | hy
    · exact fl64_idem _
    · exact ih _ y hy

/-- a float below x stays below the rounding of x (monotonicity of rounding) -/
theorem fl64_ge_of_ge_float {x b : Rat} (hb : fl64 b = b) (h : b ≤ x) : b ≤ fl64 x := by
  rw [← hb]; exact fl64_mono h

/-- adding a non-negative float to a float does not decrease it -/
theorem fadd_ge_left {a x : Rat} (ha : fl64 a = a) (hx : 0 ≤ x) : a ≤ fadd a x := by
  unfold fadd
  exact fl64_ge_of_ge_float ha (by linarith)

theorem cumFrom_ge (a : Rat) (ha : fl64 a = a) (xs : List Rat) (hnn : ∀ x ∈ xs, 0 ≤ x) :
    ∀ y ∈ cumFrom a xs, a ≤ y := by
  induction xs generalizing a with
  | nil => simp [cumFrom]
  | cons x xs ih =>
    intro y hy
    simp only [cumFrom, List.mem_cons] at hy
    have hx : 0 ≤ x := hnn x List.mem_cons_self
    have h1 : a ≤ fadd a x := fadd_ge_left ha hx
    rcases hy with rfl | hy
    · exact h1
    · exact le_trans h1 (ih _ (fl64_idem _) (fun z hz => hnn z (List.mem_cons_of_mem _ hz)) y hy)

theorem cumFrom_sorted (a : Rat) (ha : fl64 a = a) (xs : List Rat) (hnn : ∀ x ∈ xs, 0 ≤ x) :
    (cumFrom a xs).Pairwise (· ≤ ·) := by
  induction xs generalizing a with
  | nil => simp [cumFrom]
  | cons x xs ih =>
    have hnn' : ∀ z ∈ xs, 0 ≤ z := fun z hz => hnn z (List.mem_cons_of_mem _ hz)
    simp only [cumFrom, List.pairwise_cons]
    exact ⟨cumFrom_ge _ (fl64_idem _) xs hnn', ih _ (fl64_idem _) hnn'⟩

theorem cumFrom_getD_zero (a x : Rat) (xs : List Rat) : (cumFrom a (x :: xs)).getD 0 0 = fadd a x := by
  simp [cumFrom]

/-- `c[k+1] = c[k] ⊕ x[k+1]` -/
theorem cumFrom_step (a : Rat) (xs : List Rat) (k : Nat) (hk : k + 1 < xs.length) :
    (cumFrom a xs).getD (k + 1) 0 = fadd ((cumFrom a xs).getD k 0) (xs.getD (k + 1) 0) := by
  induction xs generalizing a k with
  | nil => simp at hk
  | cons x xs ih =>
    cases k with
    | zero =>
      cases xs with
      | nil => simp at hk
      | cons y ys => simp [cumFrom]
    | succ k =>
      have hk' : k + 1 < xs.length := by simpa using hk
      have := ih (fadd a x) k hk'
      simpa [cumFrom] using this

theorem fl64_of_mem_cum {a : Rat} {xs : List Rat} (k : Nat) (hk : k < xs.length) :
    fl64 ((cumFrom a xs).getD k 0) = (cumFrom a xs).getD k 0 := by
  apply cumFrom_float a xs
  have : k < (cumFrom a xs).length := by rw [cumFrom_length]; exact hk
  rw [List.getD_eq_getElem?_getD, List.getElem?_eq_getElem this]
  exact List.getElem_mem this

/-- a zero rate repeats the previous partial sum (x + 0.0 is exact) -/
theorem cumFrom_zero_rate (a : Rat) (xs : List Rat) (k : Nat) (hk : k + 1 < xs.length)
    (hz : xs.getD (k + 1) 0 = 0) : (cumFrom a xs).getD (k + 1) 0 = (cumFrom a xs).getD k 0 := by
  rw [cumFrom_step a xs k hk, hz]
  unfold fadd
  rw [add_zero]
  exact fl64_of_mem_cum k (by omega)

/-! ### search on a non-decreasing array -/

theorem lt_searchRight_iff {ws : List Rat} (hs : ws.Pairwise (· ≤ ·)) (r : Rat) (j : Nat) (hj : j < ws.length) :
    j < searchRight ws r ↔ ws.getD j 0 ≤ r := by
  unfold searchRight
  induction ws generalizing j with
  | nil => simp at hj
  | cons a l ih =>
    rw [List.pairwise_cons] at hs
    cases j with
    | zero =>
      simp only [List.getD_cons_zero, List.countP_cons]
      constructor
      · intro h
        by_contra hna
        have : l.countP (fun w => decide (w ≤ r)) = 0 := by
          rw [List.countP_eq_zero]
          intro b hb; simp
          exact lt_of_not_ge (fun hbr => hna (le_trans (hs.1 b hb) hbr))
        simp [this, hna] at h
      · intro h; simp [h]
    | succ j =>
      have hj' : j < l.length := by simpa using hj
      simp only [List.getD_cons_succ, List.countP_cons]
      rw [← ih hs.2 j hj']
      by_cases ha : a ≤ r
      · simp [ha]
      · simp only [ha, decide_false, Bool.false_eq_true, ↓reduceIte, Nat.add_zero]
        have : l.countP (fun w => decide (w ≤ r)) = 0 := by
          rw [List.countP_eq_zero]
          intro b hb; simp
          exact lt_of_not_ge (fun hbr => ha (le_trans (hs.1 b hb) hbr))
        rw [this]; omega

theorem searchRight_le_length (ws : List Rat) (r : Rat) : searchRight ws r ≤ ws.length :=
  List.countP_le_length

/-- if the last element is not ≤ r the insertion point is inside the array -/
theorem searchRight_lt_length {ws : List Rat} (hne : ws ≠ []) {r : Rat} (h : r < lastD ws) :
    searchRight ws r < ws.length := by
  unfold searchRight lastD at *
  induction ws with
  | nil => exact absurd rfl hne
  | cons a l ih =>
    cases l with
    | nil =>
      have : ¬ a ≤ r := by simpa using h
      simp [this]
    | cons b l' =>
      have h' : r < (b :: l').getLastD 0 := by simpa [List.getLastD_cons] using h
      have := ih (by simp) h'
      rw [List.countP_cons, List.length_cons]
      split <;> omega

/-! ### `numpy.add.at` -/

theorem sum_modify_succ (arr : List Nat) (i : Nat) (hi : i < arr.length) :
    (arr.modify i (· + 1)).sum = arr.sum + 1 := by
  induction arr generalizing i with
  | nil => simp at hi
  | cons a l ih =>
    cases i with
    | zero => simp [List.modify_cons]; omega
    | succ i =>
      have hi' : i < l.length := by simpa using hi
      simp [List.modify_cons, ih i hi']; omega

theorem bump_spec {arr arr' : List Nat} {i : Nat} (h : bump arr i = some arr') :
    i < arr.length ∧ arr'.sum = arr.sum + 1 ∧ arr'.length = arr.length := by
  unfold bump at h
  split at h
  · rename_i hi
    cases h
    exact ⟨hi, sum_modify_succ arr i hi, by simp⟩
  · cases h

theorem simulateFrom_spec (ws : List Rat) : ∀ (draws : List Rat) (arr arr' : List Nat),
    simulateFrom ws arr draws = some arr' →
      arr'.sum = arr.sum + draws.length ∧ arr'.length = arr.length
  | [], arr, arr', h => by simp [simulateFrom] at h; subst h; simp
  | r :: rs, arr, arr', h => by
    simp only [simulateFrom] at h
    split at h
    · rename_i arr1 hb
      obtain ⟨_, hs, hl⟩ := bump_spec hb
      obtain ⟨hs2, hl2⟩ := simulateFrom_spec ws rs arr1 arr' h
      simp only [List.length_cons]
      constructor <;> omega
    · cases h

theorem simulateFrom_isSome (ws : List Rat) : ∀ (draws : List Rat) (arr : List Nat),
    arr.length = ws.length → (∀ r ∈ draws, searchRight ws r < ws.length) →
      (simulateFrom ws arr draws).isSome
  | [], arr, _, _ => by simp [simulateFrom]
  | r :: rs, arr, hl, hd => by
    have hr : searchRight ws r < arr.length := by rw [hl]; exact hd r List.mem_cons_self
    simp only [simulateFrom, bump, hr, ↓reduceIte]
    exact simulateFrom_isSome ws rs _ (by simp [hl]) (fun r' h' => hd r' (List.mem_cons_of_mem _ h'))

/-! ### the rejection loop -/

/-- 0/1-valued array -/
def IsBinary (arr : List Nat) : Prop := ∀ x ∈ arr, x = 0 ∨ x = 1

theorem sum_set_one (arr : List Nat) (i : Nat) (hi : i < arr.length) (h0 : arr.getD i 0 = 0) :
    (arr.set i 1).sum = arr.sum + 1 := by
  induction arr generalizing i with
  | nil => simp at hi
  | cons a l ih =>
    cases i with
    | zero => simp at h0; subst h0; simp; omega
    | succ i =>
      have hi' : i < l.length := by simpa using hi
      have h0' : l.getD i 0 = 0 := by simpa using h0
      simp [ih i hi' h0']; omega

theorem isBinary_set_one {arr : List Nat} (hb : IsBinary arr) (i : Nat) : IsBinary (arr.set i 1) := by
  intro x hx
  rcases List.mem_or_eq_of_mem_set hx with h | h
  · exact hb x h
  · exact Or.inr h

theorem getD_set_one (arr : List Nat) (i k : Nat) (h : (arr.set i 1).getD k 0 = 1) :
    arr.getD k 0 = 1 ∨ k = i := by
  by_cases hki : k = i
  · exact Or.inr hki
  · left
    have : (arr.set i 1).getD k 0 = arr.getD k 0 := by
      simp [List.getD_eq_getElem?_getD, List.getElem?_set, Ne.symm hki]
    rw [← this]; exact h

theorem rejLoop_spec (ws : List Rat) (target : Nat) : ∀ (stream : List Rat) (arr : List Nat) (active : Nat)
    (arr' : List Nat) (rest : List Rat),
    rejLoop ws target arr active stream = .done arr' rest →
    IsBinary arr → arr.sum = active → active ≤ target →
      IsBinary arr' ∧ arr'.sum = target ∧ arr'.length = arr.length ∧
      (∀ k, arr'.getD k 0 = 1 → arr.getD k 0 = 1 ∨ ∃ r ∈ stream, searchRight ws r = k) ∧
      (∃ used, stream = used ++ rest)
  | [], arr, active, arr', rest, h, hb, hs, hle => by
    simp only [rejLoop] at h
    split at h
    · cases h
    · rename_i hlt
      cases h
      exact ⟨hb, by omega, rfl, fun k hk => Or.inl hk, ⟨[], rfl⟩⟩
  | r :: rs, arr, active, arr', rest, h, hb, hs, hle => by
    simp only [rejLoop] at h
    split at h
    · rename_i hlt
      split at h
      · rename_i hloc
        split at h
        · rename_i h0
          have := rejLoop_spec ws target rs (arr.set (searchRight ws r) 1) (active + 1) arr' rest h
            (isBinary_set_one hb _) (by rw [sum_set_one arr _ hloc h0, hs]) (by omega)
          obtain ⟨h1, h2, h3, h4, ⟨used, h5⟩⟩ := this
          refine ⟨h1, h2, by simpa using h3, ?_, ⟨r :: used, by simp [h5]⟩⟩
          intro k hk
          rcases h4 k hk with h | ⟨r', hr', hk'⟩
          · rcases getD_set_one arr _ k h with h | h
            · exact Or.inl h
            · exact Or.inr ⟨r, List.mem_cons_self, h.symm⟩
          · exact Or.inr ⟨r', List.mem_cons_of_mem _ hr', hk'⟩
        · have := rejLoop_spec ws target rs arr active arr' rest h hb hs hle
          obtain ⟨h1, h2, h3, h4, ⟨used, h5⟩⟩ := this
          refine ⟨h1, h2, h3, ?_, ⟨r :: used, by simp [h5]⟩⟩
          intro k hk
          rcases h4 k hk with h | ⟨r', hr', hk'⟩
          · exact Or.inl h
          · exact Or.inr ⟨r', List.mem_cons_of_mem _ hr', hk'⟩
      · cases h
    · rename_i hge
      cases h
      exact ⟨hb, by omega, rfl, fun k hk => Or.inl hk, ⟨[], rfl⟩⟩

/-- number of active (non-zero) cells of a 0/1 array = its sum -/
theorem countP_pos_eq_sum {arr : List Nat} (hb : IsBinary arr) : arr.countP (fun x => decide (0 < x)) = arr.sum := by
  induction arr with
  | nil => rfl
  | cons a l ih =>
    have hl : IsBinary l := fun x hx => hb x (List.mem_cons_of_mem _ hx)
    rcases hb a List.mem_cons_self with h | h <;> subst h <;> simp [List.countP_cons, ih hl]; omega

/-! ### the last cumulative sum is positive -/

theorem fadd_ge_right {a x : Rat} (hx : fl64 x = x) (ha : 0 ≤ a) : x ≤ fadd a x := by
  unfold fadd
  exact fl64_ge_of_ge_float hx (by linarith)

theorem cumFrom_getLastD_pos : ∀ (xs : List Rat) (a d : Rat), fl64 a = a → 0 ≤ a →
    (∀ x ∈ xs, 0 ≤ x) → (∀ x ∈ xs, fl64 x = x) →
    ((xs = [] ∧ 0 < d) ∨ (xs ≠ [] ∧ (0 < a ∨ ∃ x ∈ xs, 0 < x))) → 0 < (cumFrom a xs).getLastD d
  | [], a, d, _, _, _, _, h => by
    rcases h with ⟨_, hd⟩ | ⟨hne, _⟩
    · simpa [cumFrom] using hd
    · exact absurd rfl hne
  | x :: xs, a, d, ha, ha0, hnn, hfl, h => by
    have hx0 : 0 ≤ x := hnn x List.mem_cons_self
    have hxf : fl64 x = x := hfl x List.mem_cons_self
    have hnn' : ∀ z ∈ xs, 0 ≤ z := fun z hz => hnn z (List.mem_cons_of_mem _ hz)
    have hfl' : ∀ z ∈ xs, fl64 z = z := fun z hz => hfl z (List.mem_cons_of_mem _ hz)
    have hs0 : 0 ≤ fadd a x := le_trans ha0 (fadd_ge_left ha hx0)
    simp only [cumFrom, List.getLastD_cons]
    apply cumFrom_getLastD_pos xs (fadd a x) (fadd a x) (fl64_idem _) hs0 hnn' hfl'
    rcases h with ⟨hnil, _⟩ | ⟨_, hpos⟩
    · cases hnil
    · rcases hpos with hap | ⟨y, hy, hy0⟩
      · have : 0 < fadd a x := lt_of_lt_of_le hap (fadd_ge_left ha hx0)
        by_cases hxs : xs = []
        · exact Or.inl ⟨hxs, this⟩
        · exact Or.inr ⟨hxs, Or.inl this⟩
      · rcases List.mem_cons.mp hy with rfl | hy'
        · have : 0 < fadd a y := lt_of_lt_of_le hy0 (fadd_ge_right hxf ha0)
          by_cases hxs : xs = []
          · exact Or.inl ⟨hxs, this⟩
          · exact Or.inr ⟨hxs, Or.inl this⟩
        · exact Or.inr ⟨List.ne_nil_of_mem hy', Or.inr ⟨y, hy', hy0⟩⟩

theorem lastD_cumsumF_pos (rates : List Rat) (hnn : ∀ x ∈ rates, 0 ≤ x) (hfl : ∀ x ∈ rates, fl64 x = x)
    (hex : ∃ x ∈ rates, 0 < x) : 0 < lastD (cumsumF rates) := by
  rw [cumsumF_eq]; unfold lastD
  obtain ⟨x, hx, hx0⟩ := hex
  exact cumFrom_getLastD_pos rates 0 0 fl64_zero (le_refl _) hnn hfl
    (Or.inr ⟨List.ne_nil_of_mem hx, Or.inr ⟨x, hx, hx0⟩⟩)

theorem cumsumF_nonneg (rates : List Rat) (hnn : ∀ x ∈ rates, 0 ≤ x) : ∀ y ∈ cumsumF rates, 0 ≤ y := by
  rw [cumsumF_eq]; exact cumFrom_ge 0 fl64_zero rates hnn

theorem lastD_nonneg_of_all {l : List Rat} (h : ∀ y ∈ l, 0 ≤ y) : 0 ≤ lastD l := by
  unfold lastD
  rcases List.eq_nil_or_concat l with rfl | ⟨l', b, rfl⟩
  · simp
  · simp only [List.concat_eq_append, List.getLastD_eq_getLast?, List.getLast?_append, List.getLast?_singleton]
    simpa using h b (by simp)

theorem lastD_map {l : List Rat} (hne : l ≠ []) (f : Rat → Rat) : lastD (l.map f) = f (lastD l) := by
  unfold lastD
  rcases List.eq_nil_or_concat l with rfl | ⟨l', b, rfl⟩
  · exact absurd rfl hne
  · simp [List.getLastD_eq_getLast?]

/-- the maskable rates are non-negative floats -/
theorem maskRates_nonneg (rates : List Rat) : ∀ x ∈ maskRates rates, 0 ≤ x := by
  intro x hx
  simp only [maskRates, List.mem_map] at hx
  obtain ⟨y, _, rfl⟩ := hx
  split
  · exact le_refl _
  · rename_i h; exact le_of_lt (lt_of_not_ge h)

theorem maskRates_length (rates : List Rat) : (maskRates rates).length = rates.length := by simp [maskRates]

theorem maskRates_getD (rates : List Rat) (k : Nat) (hk : k < rates.length) :
    (maskRates rates).getD k 0 = if rates.getD k 0 ≤ 0 then 0 else rates.getD k 0 := by
  simp [maskRates, List.getD_eq_getElem?_getD, List.getElem?_map, List.getElem?_eq_getElem hk]

theorem simRows_spec (ws : List Rat) (n : Nat) : ∀ (rows : List (List Rat)) (arrs : List (List Nat)),
    simRows ws n rows = some arrs → arrs.length = rows.length ∧ ∀ arr ∈ arrs, arr.sum = n
  | [], arrs, h => by simp [simRows] at h; subst h; simp
  | row :: rows, arrs, h => by
    simp only [simRows] at h
    split at h
    · rename_i arr _
      split at h
      · rename_i hc
        cases hr : simRows ws n rows with
        | none => rw [hr] at h; cases h
        | some rest =>
          rw [hr] at h
          simp only [Option.map_some, Option.some.injEq] at h
          subst h
          obtain ⟨h1, h2⟩ := simRows_spec ws n rows rest hr
          refine ⟨by simp [h1], ?_⟩
          intro a ha
          rcases List.mem_cons.mp ha with rfl | ha'
          · simpa [countAssert] using hc
          · exact h2 a ha'
      · cases h
    · cases h

/-- active cells of a 0/1 array that all sit on positive entries of `l2` are at most the positive entries of `l2` -/
theorem countP_active_le : ∀ (l1 : List Nat) (l2 : List Rat), l1.length = l2.length → IsBinary l1 →
    (∀ k, k < l2.length → l1.getD k 0 = 1 → 0 < l2.getD k 0) →
    l1.countP (fun x => decide (0 < x)) ≤ l2.countP (fun x => decide (0 < x))
  | [], _, _, _, _ => by simp
  | a :: l1, [], hl, _, _ => by simp at hl
  | a :: l1, b :: l2, hl, hb, hp => by
    have hl' : l1.length = l2.length := by simpa using hl
    have hb' : IsBinary l1 := fun x hx => hb x (List.mem_cons_of_mem _ hx)
    have hp' : ∀ k, k < l2.length → l1.getD k 0 = 1 → 0 < l2.getD k 0 := by
      intro k hk h1
      have := hp (k + 1) (by simpa using hk) (by simpa using h1)
      simpa using this
    have ih := countP_active_le l1 l2 hl' hb' hp'
    simp only [List.countP_cons]
    rcases hb a List.mem_cons_self with h | h
    · subst h; simp; omega
    · subst h
      have := hp 0 (by simp) (by simp)
      simp only [List.getD_cons_zero] at this
      simp [this]; omega

/-- active cells of a 0/1 array that all satisfy `p` (as indices) are at most the indices satisfying `p` -/
theorem countP_active_le_filter_aux : ∀ (l : List Nat) (ofs : Nat) (p : Nat → Bool), IsBinary l →
    (∀ k, k < l.length → l.getD k 0 = 1 → p (ofs + k) = true) →
    l.countP (fun x => decide (0 < x)) ≤ ((List.range' ofs l.length).filter p).length
  | [], _, _, _, _ => by simp
  | a :: l, ofs, p, hb, hp => by
    have hb' : IsBinary l := fun x hx => hb x (List.mem_cons_of_mem _ hx)
    have hp' : ∀ k, k < l.length → l.getD k 0 = 1 → p (ofs + 1 + k) = true := by
      intro k hk h1
      have := hp (k + 1) (by simpa using hk) (by simpa using h1)
      rwa [show ofs + (k + 1) = ofs + 1 + k by omega] at this
    have ih := countP_active_le_filter_aux l (ofs + 1) p hb' hp'
    simp only [List.countP_cons, List.length_cons, List.range'_succ, List.filter_cons]
    rcases hb a List.mem_cons_self with h | h
    · subst h
      by_cases hpo : p ofs = true <;> simp [hpo] <;> omega
    · subst h
      have := hp 0 (by simp) (by simp)
      simp only [Nat.add_zero] at this
      simp [this]; omega

theorem countP_active_le_filter (arr : List Nat) (n : Nat) (hlen : arr.length = n) (hb : IsBinary arr)
    (P : Nat → Prop) [DecidablePred P] (h : ∀ k, k < n → arr.getD k 0 = 1 → P k) :
    arr.countP (fun x => decide (0 < x)) ≤ ((List.range n).filter (fun k => decide (P k))).length := by
  have := countP_active_le_filter_aux arr 0 (fun k => decide (P k)) hb
    (by intro k hk h1; simpa using h k (by omega) h1)
  rwa [hlen, ← List.range_eq_range'] at this

end Sampler
