import PycsepVerif.RealOps
import Mathlib.Analysis.SpecialFunctions.Log.Basic
import Mathlib.Analysis.SpecialFunctions.Sqrt
import Mathlib.Analysis.SpecialFunctions.Exponential

/-! The ℝ instance of `RealOps`: every field is the Mathlib operation, so `simp [RealOps.add, ...]`
(or `show`) turns a model definition instantiated at ℝ into an ordinary real-number expression. -/

noncomputable instance instRealOpsReal : RealOps ℝ where
  add := (· + ·)
  sub := (· - ·)
  mul := (· * ·)
  div := (· / ·)
  neg := fun x => -x
  zero := 0
  one := 1
  ofNat := fun n => (n : ℝ)
  log := Real.log
  exp := Real.exp
  sqrt := Real.sqrt
  logFact := fun n => Real.log (n.factorial : ℝ)
  le := fun a b => decide (a ≤ b)
  lt := fun a b => decide (a < b)

namespace RealOps
@[simp] theorem real_add (a b : ℝ) : RealOps.add a b = a + b := rfl
@[simp] theorem real_sub (a b : ℝ) : RealOps.sub a b = a - b := rfl
@[simp] theorem real_mul (a b : ℝ) : RealOps.mul a b = a * b := rfl
@[simp] theorem real_div (a b : ℝ) : RealOps.div a b = a / b := rfl
@[simp] theorem real_neg (a : ℝ) : RealOps.neg a = -a := rfl
@[simp] theorem real_zero : (RealOps.zero : ℝ) = 0 := rfl
@[simp] theorem real_one : (RealOps.one : ℝ) = 1 := rfl
@[simp] theorem real_ofNat (n : ℕ) : (RealOps.ofNat n : ℝ) = (n : ℝ) := rfl
@[simp] theorem real_log (a : ℝ) : RealOps.log a = Real.log a := rfl
@[simp] theorem real_exp (a : ℝ) : RealOps.exp a = Real.exp a := rfl
@[simp] theorem real_sqrt (a : ℝ) : RealOps.sqrt a = Real.sqrt a := rfl
@[simp] theorem real_logFact (n : ℕ) : (RealOps.logFact n : ℝ) = Real.log (n.factorial : ℝ) := rfl
@[simp] theorem real_le (a b : ℝ) : RealOps.le a b = decide (a ≤ b) := rfl
@[simp] theorem real_lt (a b : ℝ) : RealOps.lt a b = decide (a < b) := rfl

/-- the model's `sum` at ℝ is the list sum -/
theorem real_sum (xs : List ℝ) : RealOps.sum xs = xs.sum := by
  unfold RealOps.sum
  have : ∀ (acc : ℝ), List.foldl RealOps.add acc xs = acc + xs.sum := by
    induction xs with
    | nil => intro acc; simp
    | cons x xs ih => intro acc; simp [List.foldl_cons, ih, add_assoc]
  simpa using this 0
end RealOps
