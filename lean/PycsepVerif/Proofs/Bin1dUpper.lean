import PycsepVerif.Proofs.Bin1d

/-!
Upper-side float error analysis of the `bin1d_vec` quotient (property C02): if the float quotient
`fl(fl(fl(fl(p − a0) + |p|ε) + |a0|ε) / fl(h − |a0|ε))` reaches an integer `j ≥ 0`, then `p` lies at most
`formulaBand` below the regular position `a0 + j·h`.
-/
namespace Bin1d
open Soft64

/-! ## sums of two floats: no underflow error -/

/-- every float64 is an integer multiple of 2^-1074 -/
theorem float_grid {a : ℚ} (ha : fl64 a = a) : ∃ N : ℤ, a = (N : ℚ) * pow2 (-1074) := by
  obtain ⟨m, j, _, hj, h⟩ := Soft64R.fl64_repr a
  rw [ha] at h
  refine ⟨m * (2 : ℤ) ^ (j + 1074).toNat, ?_⟩
  have e : pow2 j = pow2 (j + 1074) * pow2 (-1074) := by rw [← Soft64R.pow2_add]; congr 1; ring
  rw [h, e, Soft64R.pow2_of_nonneg (by omega : 0 ≤ j + 1074)]
  push_cast; ring

theorem pow2_m1022_eq : pow2 (-1022) = ((2 : ℤ) ^ 52 : ℤ) * pow2 (-1074) := by
  have : pow2 (-1022) = pow2 52 * pow2 (-1074) := by rw [← Soft64R.pow2_add]; congr 1
  rw [this, Soft64R.pow2_of_nonneg (by norm_num : (0 : ℤ) ≤ 52)]
  rfl

/-- a multiple of 2^-1074 below the normal range is a float64 (subnormal) -/
theorem fl64_subnormal_grid {x : ℚ} {N : ℤ} (hx : x = (N : ℚ) * pow2 (-1074)) (hlt : |x| < pow2 (-1022)) :
    fl64 x = x := by
  rw [hx]
  apply Soft64R.fl64_exact _ (by norm_num)
  have hp := Soft64R.pow2_pos (-1074)
  rw [hx, abs_mul, abs_of_pos hp, pow2_m1022_eq] at hlt
  have h1 : |(N : ℚ)| < (((2 : ℤ) ^ 52 : ℤ) : ℚ) := lt_of_mul_lt_mul_right hlt hp.le
  have h2 : |N| < (2 : ℤ) ^ 52 := by
    have : ((|N| : ℤ) : ℚ) < (((2 : ℤ) ^ 52 : ℤ) : ℚ) := by push_cast; push_cast at h1; exact h1
    exact_mod_cast this
  have : (2 : ℤ) ^ 52 ≤ 2 ^ 53 := by norm_num
  omega

/-- float + float: the rounding error is purely relative (a sum of floats never underflows inexactly) -/
theorem fl64_add_float_err {a b : ℚ} (ha : fl64 a = a) (hb : fl64 b = b) :
    |fl64 (a + b) - (a + b)| ≤ |a + b| * pow2 (-53) := by
  by_cases hx : pow2 (-1022) ≤ |a + b|
  · exact Soft64R.fl64_rel_err hx
  · obtain ⟨Na, hNa⟩ := float_grid ha
    obtain ⟨Nb, hNb⟩ := float_grid hb
    have e : a + b = ((Na + Nb : ℤ) : ℚ) * pow2 (-1074) := by rw [hNa, hNb]; push_cast; ring
    rw [fl64_subnormal_grid e (not_le.mp hx)]
    simp only [sub_self, abs_zero]
    exact mul_nonneg (abs_nonneg _) (Soft64R.pow2_pos _).le

theorem fl64_sub_float_err {a b : ℚ} (ha : fl64 a = a) (hb : fl64 b = b) :
    |fl64 (a - b) - (a - b)| ≤ |a - b| * pow2 (-53) := by
  have hb' : fl64 (-b) = -b := by rw [Soft64R.fl64_neg, hb]
  have := fl64_add_float_err ha hb'
  rwa [← sub_eq_add_neg] at this

/-- one rounded addition: given bounds on the operands, an upper bound on the result and on its magnitude -/
theorem add_step {a b s A B : ℚ} (hs : |s - (a + b)| ≤ |a + b| * pow2 (-53)) (hA : |a| ≤ A) (hB : |b| ≤ B) :
    s ≤ a + b + (A + B) * (1 / 2 ^ 53) ∧ |s| ≤ (A + B) * (1 + 1 / 2 ^ 53) := by
  rw [pow2_m53] at hs
  have hab : |a + b| ≤ A + B := (abs_add_le a b).trans (add_le_add hA hB)
  have h1 : |a + b| * (1 / 2 ^ 53) ≤ (A + B) * (1 / 2 ^ 53) := mul_le_mul_of_nonneg_right hab (by positivity)
  have h2 := abs_le.mp hs
  have h3 := abs_le.mp hab
  refine ⟨by linarith [h2.2], abs_le.mpr ⟨by linarith [h2.1, h3.1], by linarith [h2.2, h3.2]⟩⟩

/-! ## the quotient can reach `j` only if `p` is within `formulaBand` below `a0 + j·h` -/

/-- Band of the float formula below the regular position `a0 + j·h` (`at_ = fl(|a0|ε)`, `pt = fl(|p|ε)`, `h` the float
step): `(1 + 13u)·((j+1)·at + pt) + 6u·j·h + 2^-1073·h`, u = 2^-53. The first term is the two tolerances the formula adds
on purpose (the edge tolerance enters once in the numerator and j times through the shrunken denominator), the second
the five roundings, the third the underflow of the quotient next to zero. -/
def formulaBand (at_ pt h j : ℚ) : ℚ :=
  (1 + 13 / 2 ^ 53) * ((j + 1) * at_ + pt) + 6 / 2 ^ 53 * j * h + pow2 (-1073) * h

theorem pow2_m1073 : pow2 (-1073) = 4 * pow2 (-1075) := by
  have a := Soft64R.pow2_succ (-1075)
  have b := Soft64R.pow2_succ (-1074)
  norm_num at a b
  rw [b, a]; ring

theorem pow2_m1021 : pow2 (-1021) = 2 * pow2 (-1022) := by
  have := Soft64R.pow2_succ (-1022); simpa using this

/-- error analysis on plain rationals: the five float operations of calc.py:116 -/
theorem quot_upper {a0 p h at_ pt : ℚ} {j : ℤ} (hj : 0 ≤ j)
    (ha0 : fl64 a0 = a0) (hpF : fl64 p = p) (hhF : fl64 h = h) (hatF : fl64 at_ = at_) (hptF : fl64 pt = pt)
    (hat0 : 0 ≤ at_) (hpt0 : 0 ≤ pt) (hh : pow2 (-1021) ≤ h) (hat : at_ ≤ h / 4)
    (hq : (j : ℚ) ≤ fl64 (fl64 (fl64 (fl64 (p - a0) + pt) + at_) / fl64 (h - at_))) :
    a0 + (j : ℚ) * h - formulaBand at_ pt h j ≤ p := by
  have hη0 : 0 < pow2 (-1075) := Soft64R.pow2_pos _
  have h1022 := Soft64R.pow2_pos (-1022)
  have hhpos : 0 < h := by have := pow2_m1021; linarith
  have hJ : (0 : ℚ) ≤ (j : ℚ) := by exact_mod_cast hj
  -- numerator
  have e1 := fl64_sub_float_err hpF ha0
  have e2 := fl64_add_float_err (Soft64R.fl64_idem (p - a0)) hptF
  have e3 := fl64_add_float_err (Soft64R.fl64_idem (fl64 (p - a0) + pt)) hatF
  generalize hd : p - a0 = d at *
  generalize ht1 : fl64 d = t1 at *
  generalize ht2 : fl64 (t1 + pt) = t2 at *
  generalize ht3 : fl64 (t2 + at_) = t3 at *
  have hD0 : 0 ≤ |d| := abs_nonneg d
  have s1 := add_step (a := d) (b := 0) (s := t1) (A := |d|) (B := 0) (by simpa using e1) le_rfl (by simp)
  have s2 := add_step e2 s1.2 (le_of_eq (abs_of_nonneg hpt0))
  have s3 := add_step e3 s2.2 (le_of_eq (abs_of_nonneg hat0))
  have hC : t3 ≤ d + 4 / 2 ^ 53 * |d| + (1 + 4 / 2 ^ 53) * (pt + at_) := by
    have a := s1.1
    have b := s2.1
    have c := s3.1
    linarith [hD0, hpt0, hat0]
  -- denominator
  have hsub_pos : pow2 (-1022) ≤ |h - at_| := by
    rw [abs_of_nonneg (by linarith)]; have := pow2_m1021; linarith
  have hden := Soft64R.fl64_rel_err hsub_pos
  rw [abs_of_nonneg (by linarith : 0 ≤ h - at_), pow2_m53] at hden
  have hden_le : fl64 (h - at_) ≤ h := Soft64R.fl64_le_of_le_float hhF (by linarith)
  have hden_ge : (h - at_) * (1 - 1 / 2 ^ 53) ≤ fl64 (h - at_) := by
    have := (abs_le.mp hden).1; linarith
  generalize fl64 (h - at_) = den at *
  have hden_pos : 0 < den := by
    have : 0 < (h - at_) * (1 - 1 / 2 ^ 53) := mul_pos (by linarith) (by norm_num)
    linarith
  -- quotient
  have ex := Soft64R.fl64_err_le (t3 / den)
  rw [pow2_m53] at ex
  have hx : t3 = t3 / den * den := by field_simp
  generalize t3 / den = x at *
  have hA : (j : ℚ) * (1 - 1 / 2 ^ 53) - 2 * pow2 (-1075) ≤ x := by
    have hl := (abs_le.mp ex).2
    rcases le_or_gt 0 x with h0 | h0
    · rw [abs_of_nonneg h0] at hl; linarith
    · rw [abs_of_neg h0] at hl; linarith
  have hB1 : ((j : ℚ) * (1 - 1 / 2 ^ 53) - 2 * pow2 (-1075)) * den ≤ t3 := by
    rw [hx]; exact mul_le_mul_of_nonneg_right hA hden_pos.le
  have hB2 : (j : ℚ) * (1 - 1 / 2 ^ 53) * ((h - at_) * (1 - 1 / 2 ^ 53)) ≤ (j : ℚ) * (1 - 1 / 2 ^ 53) * den :=
    mul_le_mul_of_nonneg_left hden_ge (mul_nonneg hJ (by norm_num))
  have hB3 : pow2 (-1075) * den ≤ pow2 (-1075) * h := mul_le_mul_of_nonneg_left hden_le hη0.le
  have hJh : 0 ≤ (j : ℚ) * h := mul_nonneg hJ hhpos.le
  have hJa : 0 ≤ (j : ℚ) * at_ := mul_nonneg hJ hat0
  have hηh : 0 ≤ pow2 (-1075) * h := mul_nonneg hη0.le hhpos.le
  have hB : (j : ℚ) * h * (1 - 2 / 2 ^ 53) - (j : ℚ) * at_ - 2 * (pow2 (-1075) * h) ≤ t3 := by
    linarith [hB1, hB2, hB3, hJh, hJa, hηh]
  -- combine
  unfold formulaBand
  rw [pow2_m1073]
  have hgoal : (j : ℚ) * h - ((1 + 13 / 2 ^ 53) * (((j : ℚ) + 1) * at_ + pt) + 6 / 2 ^ 53 * (j : ℚ) * h
      + 4 * pow2 (-1075) * h) ≤ d := by
    rcases le_or_gt 0 d with h0 | h0
    · rw [abs_of_nonneg h0] at hC; linarith [hJh, hJa, hηh, hpt0, hat0]
    · rw [abs_of_neg h0] at hC; linarith [hJh, hJa, hηh, hpt0, hat0]
  linarith

/-! ## the float64 default configuration of `bin1d_vec` -/

theorem qF_eq {n : ℕ} (hn : 1 < n) (edge : ℕ → ℚ) (p : ℚ) :
    qF n edge p = fl64 (fl64 (fl64 (fl64 (p - edge 0) + getTol .f64 p) + getTol .f64 (edge 0))
      / fl64 (hOf .f64 n edge - getTol .f64 (edge 0))) := by
  have hn1 : (n == 1) = false := by simp; omega
  unfold qF
  rw [quotF_cfg64, denOf_f64 n edge hn]
  simp only [getTol, DT.rnd, DT.eps, hOf, hn1]
  rfl

theorem hOf_float {n : ℕ} (hn : 1 < n) (edge : ℕ → ℚ) : fl64 (hOf .f64 n edge) = hOf .f64 n edge := by
  have hn1 : (n == 1) = false := by simp; omega
  unfold hOf; simp only [hn1, DT.rnd]; exact Soft64R.fl64_idem _

theorem getTol_float (a : ℚ) : fl64 (getTol .f64 a) = getTol .f64 a := by
  unfold getTol DT.rnd; exact Soft64R.fl64_idem _

/-- if the floor of the float quotient reaches `j ≥ 0`, `p` is at most `formulaBand` below `a0 + j·h` -/
theorem qF_upper {n : ℕ} (hn : 1 < n) (edge : ℕ → ℚ) (p : ℚ) {j : ℤ} (hj : 0 ≤ j)
    (ha0 : fl64 (edge 0) = edge 0) (hpF : fl64 p = p)
    (hh : pow2 (-1021) ≤ hOf .f64 n edge) (hat : getTol .f64 (edge 0) ≤ hOf .f64 n edge / 4)
    (hq : j ≤ ⌊qF n edge p⌋) :
    edge 0 + (j : ℚ) * hOf .f64 n edge
      - formulaBand (getTol .f64 (edge 0)) (getTol .f64 p) (hOf .f64 n edge) j ≤ p := by
  have hq' : (j : ℚ) ≤ qF n edge p := Int.le_floor.mp hq
  rw [qF_eq hn] at hq'
  exact quot_upper hj ha0 hpF (hOf_float hn edge) (getTol_float _) (getTol_float _) (getTol_f64_nonneg _)
    (getTol_f64_nonneg _) hh hat hq'

/-! ## structure of the corrections and the clamp -/

theorem corrInt_cases (n : ℕ) (edge : ℕ → ℚ) (top p : ℚ) (i : ℤ) :
    corrInt n edge top p i = i ∨
    (corrInt n edge top p i = i + 1 ∧ 0 ≤ i ∧ i + 1 < (n : ℤ) ∧ edge (i + 1).toNat ≤ p) ∨
    (corrInt n edge top p i = (n : ℤ) ∧ top ≤ p ∧ (i = (n : ℤ) - 1 ∨ (0 ≤ i ∧ i + 1 = (n : ℤ) - 1 ∧ edge (i + 1).toNat ≤ p))) := by
  unfold corrInt
  simp only
  by_cases hc : 0 ≤ i ∧ i + 1 < (n : ℤ) ∧ edge (i + 1).toNat ≤ p
  · rw [if_pos hc]
    by_cases h2 : i + 1 = (n : ℤ) - 1 ∧ top ≤ p
    · rw [if_pos h2]; exact Or.inr (Or.inr ⟨rfl, h2.2, Or.inr ⟨hc.1, h2.1, hc.2.2⟩⟩)
    · rw [if_neg h2]; exact Or.inr (Or.inl ⟨rfl, hc⟩)
  · rw [if_neg hc]
    by_cases h2 : i = (n : ℤ) - 1 ∧ top ≤ p
    · rw [if_pos h2]; exact Or.inr (Or.inr ⟨rfl, h2.2, Or.inl h2.1⟩)
    · rw [if_neg h2]; exact Or.inl rfl

theorem clampInt_nonneg {n : ℕ} (hn : 1 < n) (rc : Bool) {c : ℤ} (h : 0 ≤ clampInt rc n c) :
    0 ≤ c ∧ clampInt rc n c ≤ c ∧ (c < (n : ℤ) - 1 → clampInt rc n c = c) ∧
      (c = (n : ℤ) - 1 → clampInt rc n c = c) ∧ (rc = false → c < (n : ℤ)) ∧
      (rc = true → (n : ℤ) - 1 ≤ c → clampInt rc n c = (n : ℤ) - 1) := by
  have hn1 : (n == 1) = false := by simp; omega
  unfold clampInt at h ⊢
  cases rc <;> simp only [hn1, Bool.or_self, Bool.true_or, Bool.false_eq_true, if_true, if_false] at h ⊢ <;>
    split_ifs at h ⊢ <;> simp <;> omega

theorem clampInt_neg_one {n : ℕ} (hn : 1 < n) (rc : Bool) {c : ℤ} (h : clampInt rc n c = -1) :
    c < 0 ∨ (rc = false ∧ (n : ℤ) ≤ c) := by
  have hn1 : (n == 1) = false := by simp; omega
  unfold clampInt at h
  cases rc <;> simp only [hn1, Bool.or_self, Bool.true_or, Bool.false_eq_true, if_true, if_false] at h <;>
    split_ifs at h <;> simp <;> omega

/-- a non-negative result is the floor index, or one of the two corrections against real edges applied -/
theorem result_nonneg_cases {n : ℕ} (hn : 1 < n) (rc : Bool) (edge : ℕ → ℚ) (top p : ℚ) (i : ℤ)
    (hr : 0 ≤ clampInt rc n (corrInt n edge top p i)) :
    0 ≤ i ∧ (clampInt rc n (corrInt n edge top p i) ≤ i ∨
      (clampInt rc n (corrInt n edge top p i) = i + 1 ∧ i + 1 < (n : ℤ) ∧ edge (i + 1).toNat ≤ p) ∨
      (clampInt rc n (corrInt n edge top p i) = (n : ℤ) - 1 ∧ top ≤ p)) := by
  obtain ⟨c0, cle, ceq, ceq', cclosed, copen⟩ := clampInt_nonneg hn rc hr
  rcases corrInt_cases n edge top p i with h | ⟨h, h0, h1, h2⟩ | ⟨h, ht, h3⟩
  · rw [h] at c0 cle ⊢
    exact ⟨c0, Or.inl cle⟩
  · refine ⟨h0, Or.inr (Or.inl ⟨?_, h1, h2⟩)⟩
    rw [h] at ceq ceq' ⊢
    rcases lt_or_eq_of_le (show i + 1 ≤ (n : ℤ) - 1 by omega) with hl | he
    · exact ceq hl
    · exact ceq' he
  · have hi0 : 0 ≤ i := by rcases h3 with h3 | h3 <;> omega
    refine ⟨hi0, Or.inr (Or.inr ⟨?_, ht⟩)⟩
    cases rc with
    | true => exact copen rfl (by rw [h]; omega)
    | false => have := cclosed rfl; rw [h] at this; omega

/-- the result −1 means the floor index is negative or (closed mode) `p` reached `top` or the floor index reached n -/
theorem result_neg_one_cases {n : ℕ} (hn : 1 < n) (rc : Bool) (edge : ℕ → ℚ) (top p : ℚ) (i : ℤ)
    (hr : clampInt rc n (corrInt n edge top p i) = -1) :
    i < 0 ∨ (rc = false ∧ (top ≤ p ∨ (n : ℤ) ≤ i)) := by
  rcases clampInt_neg_one hn rc hr with h | ⟨h1, h2⟩
  · left; have := corrInt_ge n edge top p i; omega
  · right; exact ⟨h1, corrInt_ge_n _ _ _ h2⟩

theorem corrInt_ne_last_of_top (n : ℕ) (edge : ℕ → ℚ) (top p : ℚ) (i : ℤ) (ht : top ≤ p) :
    corrInt n edge top p i ≠ (n : ℤ) - 1 := by
  unfold corrInt
  simp only
  by_cases hc : 0 ≤ i ∧ i + 1 < (n : ℤ) ∧ edge (i + 1).toNat ≤ p
  · rw [if_pos hc]
    by_cases h2 : i + 1 = (n : ℤ) - 1 ∧ top ≤ p
    · rw [if_pos h2]; omega
    · rw [if_neg h2]; intro h; exact h2 ⟨h, ht⟩
  · rw [if_neg hc]
    by_cases h2 : i = (n : ℤ) - 1 ∧ top ≤ p
    · rw [if_pos h2]; omega
    · rw [if_neg h2]; intro h; exact h2 ⟨h, ht⟩

/-- closed mode: once `p` has reached `top = bins[-1] + h` the result is never the last bin -/
theorem result_closed_top {n : ℕ} (hn : 1 < n) (edge : ℕ → ℚ) (top p : ℚ) (i : ℤ) (ht : top ≤ p) :
    clampInt false n (corrInt n edge top p i) ≠ (n : ℤ) - 1 := by
  intro h
  obtain ⟨c0, cle, ceq, ceq', cclosed, _⟩ := clampInt_nonneg hn false (by rw [h]; omega)
  have hc := cclosed rfl
  have hne := corrInt_ne_last_of_top n edge top p i ht
  rcases lt_or_eq_of_le (show corrInt n edge top p i ≤ (n : ℤ) - 1 by omega) with hl | he
  · have := ceq hl; omega
  · exact hne he

/-! ## edges and the ideal bin -/

theorem getD_eq_getElem (bins : List ℚ) {j : ℕ} (hj : j < bins.length) : bins.getD j 0 = bins[j] := by
  simp [List.getD, hj]

/-- on strictly increasing edges: edge j ≤ p iff j ≤ ideal bin of p -/
theorem edge_le_iff {bins : List ℚ} (hs : bins.Pairwise (· < ·)) (p : ℚ) {j : ℕ} (hj : j < bins.length) :
    bins.getD j 0 ≤ p ↔ (j : ℤ) ≤ binIdeal bins p := by
  rw [getD_eq_getElem bins hj, getElem_le_iff_lt_countP hs p j hj]
  unfold binIdeal
  omega

/-- `top = fl(bins[-1] + h)` is at or above the last edge -/
theorem top_ge_last {n : ℕ} (edge : ℕ → ℚ) (hl : fl64 (edge (n - 1)) = edge (n - 1)) (hh : 0 ≤ hOf .f64 n edge) :
    edge (n - 1) ≤ topOf .f64 n edge := by
  unfold topOf DT.rnd
  exact Soft64R.fl64_ge_of_ge_float hl (by linarith)

/-! ## hypotheses of the float theorems, as structures -/

/-- the float step `bins[1] - bins[0]` (calc.py:106) -/
abbrev step64 (bins : List ℚ) : ℚ := hOf .f64 bins.length (fun j => bins.getD j 0)
/-- the upper edge of the last bin, the float `bins[-1] + h` (calc.py:126) -/
abbrev top64 (bins : List ℚ) : ℚ := topOf .f64 bins.length (fun j => bins.getD j 0)
/-- the edge tolerance `|a0|·ε` as computed (calc.py:111) -/
abbrev atol64 (bins : List ℚ) : ℚ := getTol .f64 (bins.getD 0 0)
/-- `formulaBand` of a grid at regular position j for the point p -/
abbrev fband (bins : List ℚ) (j : ℤ) (p : ℚ) : ℚ := formulaBand (atol64 bins) (getTol .f64 p) (step64 bins) (j : ℚ)

/-- A float64 grid that is equally spaced up to a quarter step: 2 ≤ n ≤ 2^40 strictly increasing float64 edges, float step
`h = fl(bins[1] − bins[0]) ≥ 2^-1021` (so `h − |a0|ε` is a normal number: no underflow in the denominator), every edge within
`h/4` of its regular position `a0 + j·h`. Overflow is outside the Soft64 model altogether. -/
structure RegularF64Grid (bins : List ℚ) : Prop where
  two_le : 1 < bins.length
  le_pow40 : (bins.length : ℤ) ≤ 2 ^ 40
  increasing : bins.Pairwise (· < ·)
  floats : ∀ e ∈ bins, fl64 e = e
  step_normal : pow2 (-1021) ≤ step64 bins
  reg_lower : ∀ j : ℕ, j < bins.length → bins.getD 0 0 + ((j : ℚ) - 1 / 4) * step64 bins ≤ bins.getD j 0
  reg_upper : ∀ j : ℕ, j < bins.length → bins.getD j 0 ≤ bins.getD 0 0 + ((j : ℚ) + 1 / 4) * step64 bins

/-- The point is a float64 and the grid resolves its step at the point: `(n+1)·fl(|a0|ε) + fl(|p|ε) ≤ h/2`. -/
structure PointOK (bins : List ℚ) (p : ℚ) : Prop where
  float : fl64 p = p
  tol_small : ((bins.length : ℚ) + 1) * atol64 bins + getTol .f64 p ≤ step64 bins / 2

instance (bins : List ℚ) (p : ℚ) : Decidable (PointOK bins p) :=
  decidable_of_iff (fl64 p = p ∧ ((bins.length : ℚ) + 1) * atol64 bins + getTol .f64 p ≤ step64 bins / 2)
    ⟨fun ⟨a, b⟩ => ⟨a, b⟩, fun ⟨a, b⟩ => ⟨a, b⟩⟩

theorem RegularF64Grid.a0_float {bins : List ℚ} (G : RegularF64Grid bins) : fl64 (bins.getD 0 0) = bins.getD 0 0 := by
  have h0 : 0 < bins.length := by have := G.two_le; omega
  rw [getD_eq_getElem bins h0]
  exact G.floats _ (List.getElem_mem h0)

theorem RegularF64Grid.step_pos {bins : List ℚ} (G : RegularF64Grid bins) : 0 < step64 bins :=
  lt_of_lt_of_le (Soft64R.pow2_pos _) G.step_normal

theorem PointOK.atol_le {bins : List ℚ} (G : RegularF64Grid bins) {p : ℚ} (P : PointOK bins p) :
    atol64 bins ≤ step64 bins / 6 := by
  have h1 := P.tol_small
  have h2 : 0 ≤ atol64 bins := getTol_f64_nonneg _
  have h3 : 0 ≤ getTol .f64 p := getTol_f64_nonneg _
  have h4 : (2 : ℚ) ≤ (bins.length : ℚ) := by exact_mod_cast G.two_le
  have h5 : 0 ≤ ((bins.length : ℚ) - 2) * atol64 bins := mul_nonneg (by linarith) h2
  linarith

theorem fband_nonneg (bins : List ℚ) (j : ℤ) (p : ℚ) (hj : 0 ≤ j) (hh : 0 ≤ step64 bins) : 0 ≤ fband bins j p := by
  have h2 : 0 ≤ atol64 bins := getTol_f64_nonneg _
  have h3 : 0 ≤ getTol .f64 p := getTol_f64_nonneg _
  have hJ0 : (0 : ℚ) ≤ (j : ℚ) := by exact_mod_cast hj
  have h4 := (Soft64R.pow2_pos (-1073)).le
  unfold fband formulaBand
  have h5 : 0 ≤ ((j : ℚ) + 1) * atol64 bins + getTol .f64 p := by positivity
  have h6 : 0 ≤ (j : ℚ) * step64 bins := mul_nonneg hJ0 hh
  have h7 : 0 ≤ pow2 (-1073) * step64 bins := mul_nonneg h4 hh
  nlinarith

theorem pow2_m20 : pow2 (-20) = 1 / 2 ^ 20 := by
  rw [Soft64R.pow2_eq_zpow]; norm_num [zpow_neg]

/-- under `PointOK` the formula band at any position 0 ≤ j ≤ n is less than 3/4 of a step -/
theorem fband_lt {bins : List ℚ} (G : RegularF64Grid bins) {p : ℚ} (P : PointOK bins p) {j : ℤ} (hj0 : 0 ≤ j)
    (hjn : j ≤ (bins.length : ℤ)) : fband bins j p < 3 / 4 * step64 bins := by
  have h1 := P.tol_small
  have h2 : 0 ≤ atol64 bins := getTol_f64_nonneg _
  have hh := G.step_pos
  have hJ0 : (0 : ℚ) ≤ (j : ℚ) := by exact_mod_cast hj0
  have hJn : (j : ℚ) ≤ (bins.length : ℚ) := by exact_mod_cast hjn
  have hN : (bins.length : ℚ) ≤ 2 ^ 40 := by exact_mod_cast G.le_pow40
  have h5 : ((j : ℚ) + 1) * atol64 bins ≤ ((bins.length : ℚ) + 1) * atol64 bins :=
    mul_le_mul_of_nonneg_right (by linarith) h2
  have h6 : (j : ℚ) * step64 bins ≤ 2 ^ 40 * step64 bins := mul_le_mul_of_nonneg_right (by linarith) hh.le
  have h7 : pow2 (-1073) ≤ pow2 (-20) := Soft64R.pow2_le_pow2 (by norm_num)
  rw [pow2_m20] at h7
  have h8 : pow2 (-1073) * step64 bins ≤ 1 / 2 ^ 20 * step64 bins := mul_le_mul_of_nonneg_right h7 hh.le
  unfold fband formulaBand
  nlinarith [h5, h6, h8, h1, hh]

theorem fband_le {bins : List ℚ} (G : RegularF64Grid bins) {p : ℚ} (P : PointOK bins p) {j : ℤ} (hj0 : 0 ≤ j)
    (hjn : j ≤ (bins.length : ℤ)) : fband bins j p ≤ 3 / 4 * step64 bins := (fband_lt G P hj0 hjn).le

/-- `fl(|a|·ε) ≥ |a|·ε·(1−u) − 2^-1075` -/
theorem getTol_ge (a : ℚ) : |a| * (1 / 2 ^ 52 * (1 - 1 / 2 ^ 53)) - pow2 (-1075) ≤ getTol .f64 a := by
  unfold getTol DT.rnd DT.eps
  rw [fabs_eq_abs, show eps64 = 1 / 2 ^ 52 by unfold eps64; rw [Soft64R.pow2_eq_zpow]; norm_num [zpow_neg]]
  have h := Soft64R.fl64_err_le (|a| * (1 / 2 ^ 52))
  rw [pow2_m53, abs_of_nonneg (mul_nonneg (abs_nonneg a) (by norm_num))] at h
  have := (abs_le.mp h).1
  linarith

/-- the upper edge of the last bin `top = fl(e + h)` is strictly above a float `e` whose tolerance the grid resolves -/
theorem lt_fl_add_step {e h : ℚ} (hh : pow2 (-1021) ≤ h) (ht : getTol .f64 e ≤ h / 2) : e < fl64 (e + h) := by
  have hη0 : 0 < pow2 (-1075) := Soft64R.pow2_pos _
  have hhpos : 0 < h := lt_of_lt_of_le (Soft64R.pow2_pos _) hh
  have hη : pow2 (-1075) ≤ 1 / 2 ^ 54 * h := by
    have e1 : pow2 (-1075) = pow2 (-54) * pow2 (-1021) := by rw [← Soft64R.pow2_add]; congr 1
    have e2 : pow2 (-54) = 1 / 2 ^ 54 := by rw [Soft64R.pow2_eq_zpow]; norm_num [zpow_neg]
    rw [e1, e2]
    exact mul_le_mul_of_nonneg_left hh (by norm_num)
  have h1 := getTol_ge e
  have h2 := Soft64R.fl64_err_le (e + h)
  rw [pow2_m53] at h2
  have h3 := (abs_le.mp h2).1
  have h4 : |e + h| ≤ |e| + h := by
    have := abs_add_le e h
    rwa [abs_of_pos hhpos] at this
  have h5 : |e + h| * (1 / 2 ^ 53) ≤ (|e| + h) * (1 / 2 ^ 53) := mul_le_mul_of_nonneg_right h4 (by norm_num)
  have h6 := abs_nonneg e
  linarith

theorem bandWidth_cfg64 (rc : Bool) (a0 h : ℚ) (j : ℕ) (e p : ℚ) :
    bandWidth (cfg64 rc) a0 h j e p =
      (if e - (a0 + (j : ℚ) * h) < 0 then 0 else e - (a0 + (j : ℚ) * h))
        + (1 + pow2 (-20)) * (((j : ℚ) + 1) * getTol .f64 a0 + getTol .f64 p)
        + 10 * pow2 (-53) * (j : ℚ) * h + pow2 (-1022) * h := by
  simp [bandWidth, cfg64, ptolOf, uOf, tinyOf]

/-- the proved formula band is inside the band the oracle uses (`bandWidth`) -/
theorem le_bandWidth_of_fband (rc : Bool) {a0 h : ℚ} (j : ℕ) {e p : ℚ} (hh : 0 ≤ h)
    (hb : a0 + (j : ℚ) * h - formulaBand (getTol .f64 a0) (getTol .f64 p) h (j : ℚ) ≤ p) :
    e - p ≤ bandWidth (cfg64 rc) a0 h j e p := by
  rw [bandWidth_cfg64, pow2_m20, pow2_m53]
  have h2 : 0 ≤ getTol .f64 a0 := getTol_f64_nonneg _
  have h3 : 0 ≤ getTol .f64 p := getTol_f64_nonneg _
  have hJ : (0 : ℚ) ≤ (j : ℚ) := by positivity
  have h7 : pow2 (-1073) ≤ pow2 (-1022) := Soft64R.pow2_le_pow2 (by norm_num)
  have h8 : pow2 (-1073) * h ≤ pow2 (-1022) * h := mul_le_mul_of_nonneg_right h7 hh
  have h9 : 0 ≤ (j : ℚ) * h := mul_nonneg hJ hh
  have h10 : 0 ≤ (j : ℚ) * getTol .f64 a0 := mul_nonneg hJ h2
  unfold formulaBand at hb
  split_ifs with hi
  · nlinarith [h8, h9, h10, h2, h3]
  · nlinarith [h8, h9, h10, h2, h3]

/-! ## closed form of the band: `fband j p < 2^-50·(m+3)·(h+|a0|)` -/

theorem eps64_eq : eps64 = 1 / 2 ^ 52 := by
  unfold eps64; rw [Soft64R.pow2_eq_zpow]; norm_num [zpow_neg]

theorem pow2_m50 : pow2 (-50) = 1 / 2 ^ 50 := by
  rw [Soft64R.pow2_eq_zpow]; norm_num [zpow_neg]

/-- `fl(|a|·ε) ≤ |a|·ε·(1+u) + 2^-1075` -/
theorem getTol_le (a : ℚ) : getTol .f64 a ≤ |a| * (1 / 2 ^ 52 * (1 + 1 / 2 ^ 53)) + pow2 (-1075) := by
  unfold getTol DT.rnd DT.eps
  rw [fabs_eq_abs, eps64_eq]
  have h := Soft64R.fl64_err_le (|a| * (1 / 2 ^ 52))
  rw [pow2_m53, abs_of_nonneg (mul_nonneg (abs_nonneg a) (by norm_num))] at h
  have := (abs_le.mp h).2
  linarith

theorem fband_lt_tau {bins : List ℚ} (G : RegularF64Grid bins) (hh960 : pow2 (-960) ≤ step64 bins) {p : ℚ} {j : ℤ} {m : ℚ}
    (hj0 : 0 ≤ j) (hj40 : j ≤ 2 ^ 40) (hjm : (j : ℚ) ≤ m) (hm : j = 0 ∨ m ≤ 2 ^ 41)
    (hp : |p| ≤ |bins.getD 0 0| + (m + 1) * step64 bins) :
    fband bins j p < pow2 (-50) * (m + 3) * (step64 bins + |bins.getD 0 0|) := by
  have hh := G.step_pos
  have hA : 0 ≤ |bins.getD 0 0| := abs_nonneg _
  have hJ0 : (0 : ℚ) ≤ (j : ℚ) := by exact_mod_cast hj0
  have hJ40 : (j : ℚ) ≤ 2 ^ 40 := by exact_mod_cast hj40
  have hη0 : 0 < pow2 (-1075) := Soft64R.pow2_pos _
  have hη : pow2 (-1075) ≤ 1 / 2 ^ 115 * step64 bins := by
    have e : pow2 (-1075) = pow2 (-115) * pow2 (-960) := by rw [← Soft64R.pow2_add]; congr 1
    have e2 : pow2 (-115) = 1 / 2 ^ 115 := by rw [Soft64R.pow2_eq_zpow]; norm_num [zpow_neg]
    rw [e, e2]
    exact mul_le_mul_of_nonneg_left hh960 (by norm_num)
  have h1073 : pow2 (-1073) ≤ 1 / 2 ^ 100 := by
    have : pow2 (-1073) ≤ pow2 (-100) := Soft64R.pow2_le_pow2 (by norm_num)
    have e2 : pow2 (-100) = 1 / 2 ^ 100 := by rw [Soft64R.pow2_eq_zpow]; norm_num [zpow_neg]
    linarith
  have hat : atol64 bins ≤ |bins.getD 0 0| * (1 / 2 ^ 52 * (1 + 1 / 2 ^ 53)) + pow2 (-1075) := getTol_le (bins.getD 0 0)
  have hpt := getTol_le p
  have hat0 : 0 ≤ atol64 bins := getTol_f64_nonneg _
  -- products
  have k1 : ((j : ℚ) + 1) * atol64 bins
      ≤ ((j : ℚ) + 1) * (|bins.getD 0 0| * (1 / 2 ^ 52 * (1 + 1 / 2 ^ 53)) + pow2 (-1075)) :=
    mul_le_mul_of_nonneg_left hat (by linarith)
  have k2 : (j : ℚ) * |bins.getD 0 0| ≤ m * |bins.getD 0 0| := mul_le_mul_of_nonneg_right hjm hA
  have k3 : (j : ℚ) * pow2 (-1075) ≤ 2 ^ 40 * pow2 (-1075) := mul_le_mul_of_nonneg_right hJ40 hη0.le
  have k4 : (j : ℚ) * step64 bins ≤ m * step64 bins := mul_le_mul_of_nonneg_right hjm hh.le
  have k5 : |p| * (1 / 2 ^ 52 * (1 + 1 / 2 ^ 53))
      ≤ (|bins.getD 0 0| + (m + 1) * step64 bins) * (1 / 2 ^ 52 * (1 + 1 / 2 ^ 53)) :=
    mul_le_mul_of_nonneg_right hp (by norm_num)
  have k6 : pow2 (-1073) * step64 bins ≤ 1 / 2 ^ 100 * step64 bins := mul_le_mul_of_nonneg_right h1073 hh.le
  have hm0 : 0 ≤ m := le_trans hJ0 hjm
  have k7 : 0 ≤ m * |bins.getD 0 0| := mul_nonneg hm0 hA
  have k8 : 0 ≤ m * step64 bins := mul_nonneg hm0 hh.le
  unfold fband formulaBand
  rw [pow2_m50]
  generalize atol64 bins = at_ at *
  generalize getTol .f64 p = pt at *
  generalize step64 bins = h at *
  generalize |bins.getD 0 0| = A at *
  generalize |p| = ap at *
  generalize pow2 (-1075) = η at *
  generalize pow2 (-1073) = η' at *
  rcases hm with hm | hm
  · subst hm
    norm_num at k1 k2 k3 k4 ⊢
    linarith [k1, k5, k6, k7, k8, hη, hpt, hA, hh]
  · have k9 : m * h ≤ 2 ^ 41 * h := mul_le_mul_of_nonneg_right hm hh.le
    linarith [k1, k2, k3, k4, k5, k6, k7, k8, k9, hη, hpt, hA, hh]

end Bin1d
