import PycsepVerif.Model.Time
import PycsepVerif.Proofs.Civil

/-! char-level lemmas: parsing what `str(datetime)` writes gives the datetime back -/
namespace Time

theorem digit?_digitChar (n : Nat) : digit? (digitChar n) = some (n % 10) := by
  unfold digitChar
  have hk : n % 10 < 10 := Nat.mod_lt _ (by decide)
  generalize n % 10 = k at *
  match k, hk with
  | 0, _ => rfl | 1, _ => rfl | 2, _ => rfl | 3, _ => rfl | 4, _ => rfl
  | 5, _ => rfl | 6, _ => rfl | 7, _ => rfl | 8, _ => rfl | 9, _ => rfl

theorem digitChar_ne (n : Nat) (c : Char) (hc : digit? c = none) : digitChar n ≠ c := by
  intro h; rw [← h, digit?_digitChar] at hc; cases hc

theorem take2_d2 (n : Nat) (h : n < 100) (r : List Char) : take2 (d2 n ++ r) = some (n, r) := by
  simp only [d2, List.cons_append, List.nil_append, take2, digit?_digitChar]
  have : n / 10 % 10 * 10 + n % 10 = n := by omega
  simp [this]

theorem take4_d4 (n : Nat) (h : n < 10000) (r : List Char) : take4 (d4 n ++ r) = some (n, r) := by
  simp only [d4, List.cons_append, List.nil_append, take4, digit?_digitChar]
  have : n / 1000 % 10 * 1000 + n / 100 % 10 * 100 + n / 10 % 10 * 10 + n % 10 = n := by omega
  simp [this]

theorem takeFrac_d6 (n : Nat) (h : n < 1000000) (r : List Char) : takeFrac 6 100000 0 (d6 n ++ r) = (n, r) := by
  simp only [d6, List.cons_append, List.nil_append, takeFrac, digit?_digitChar]
  have : 0 + n / 100000 % 10 * 100000 + n / 10000 % 10 * (100000 / 10) + n / 1000 % 10 * (100000 / 10 / 10)
      + n / 100 % 10 * (100000 / 10 / 10 / 10) + n / 10 % 10 * (100000 / 10 / 10 / 10 / 10)
      + n % 10 * (100000 / 10 / 10 / 10 / 10 / 10) = n := by omega
  rw [this]

theorem expect_cons (c : Char) (r : List Char) : expect c (c :: r) = some r := by simp [expect]

theorem ofFields_fields (us : Int) : ofFields (fields us) = us := by
  simp only [ofFields, fields, usPerDay]
  rw [days_of_civil]
  omega

/-- the fields of every datetime with |us| < 2^33 · 10^6 are valid constructor arguments (four-digit year) -/
theorem validFields_fields (us : Int) (h0 : -8589934592000000 < us) (h1 : us < 8589934592000000) :
    validFields (fields us) = true := by
  have hz0 : -99422 ≤ us / 86400000000 := by omega
  have hz1 : us / 86400000000 ≤ 99422 := by omega
  have hy := civil_year_range _ hz0 hz1
  have hv := civil_valid (us / 86400000000)
  simp only [validFields, fields, usPerDay, Bool.and_eq_true]
  refine ⟨⟨⟨⟨⟨⟨⟨⟨⟨⟨?_, ?_⟩, hv⟩, ?_⟩, ?_⟩, ?_⟩, ?_⟩, ?_⟩, ?_⟩, ?_⟩, ?_⟩
  all_goals (apply decide_eq_true; omega)

/-- the `%z` suffix written for a UTC-aware datetime -/
def zoneSuffix (zone : Bool) : List Char := if zone then ['+', '0', '0', ':', '0', '0'] else []

theorem takeZone_suffix : takeZone ['+', '0', '0', ':', '0', '0'] = some [] := by decide

theorem validDate_day_le {y m d : Int} (h : validDate y m d = true) : 1 ≤ m ∧ m ≤ 12 ∧ 1 ≤ d ∧ d ≤ 31 := by
  simp only [validDate, Bool.and_eq_true, decide_eq_true_eq] at h
  obtain ⟨⟨⟨h1, h2⟩, h3⟩, h4⟩ := h
  refine ⟨h1, h2, h3, ?_⟩
  unfold daysInMonth at h4
  split at h4
  · split at h4 <;> omega
  · split at h4 <;> omega

/-- **format/parse round trip on fields**: `strptime` with the format that matches the shape of the string
    (fraction present iff microsecond ≠ 0, `%z` iff the suffix is present) returns the fields that were formatted. -/
theorem strptimeFields_formatFields (sep : Char) (f : Fields) (hv : validFields f = true) (zone : Bool) :
    strptimeFields { sep := sep, frac := decide (f.micro ≠ 0), zone := zone } (formatFields sep f ++ zoneSuffix zone)
      = some f := by
  have hv' := hv
  simp only [validFields, Bool.and_eq_true, decide_eq_true_eq] at hv'
  obtain ⟨⟨⟨⟨⟨⟨⟨⟨⟨⟨hy1, hy2⟩, hd⟩, hh0⟩, hh1⟩, hm0⟩, hm1⟩, hs0⟩, hs1⟩, hu0⟩, hu1⟩ := hv'
  obtain ⟨hmo1, hmo2, hd1, hd2⟩ := validDate_day_le hd
  obtain ⟨y, mo, d, h, mi, s, us⟩ := f
  simp only at *
  -- every field is the cast of its `toNat`
  obtain ⟨yn, rfl⟩ := Int.eq_ofNat_of_zero_le (by omega : 0 ≤ y)
  obtain ⟨mon, rfl⟩ := Int.eq_ofNat_of_zero_le (by omega : 0 ≤ mo)
  obtain ⟨dn, rfl⟩ := Int.eq_ofNat_of_zero_le (by omega : 0 ≤ d)
  obtain ⟨hn, rfl⟩ := Int.eq_ofNat_of_zero_le hh0
  obtain ⟨min, rfl⟩ := Int.eq_ofNat_of_zero_le hm0
  obtain ⟨sn, rfl⟩ := Int.eq_ofNat_of_zero_le hs0
  obtain ⟨usn, rfl⟩ := Int.eq_ofNat_of_zero_le hu0
  simp only [formatFields, Int.toNat_natCast, List.append_assoc, List.cons_append]
  unfold strptimeFields
  simp only [bind, Option.bind]
  rw [take4_d4 yn (by omega)]; simp only [expect_cons]
  rw [take2_d2 mon (by omega)]; simp only [expect_cons]
  rw [take2_d2 dn (by omega)]; simp only [expect_cons]
  rw [take2_d2 hn (by omega)]; simp only [expect_cons]
  rw [take2_d2 min (by omega)]; simp only [expect_cons]
  rw [take2_d2 sn (by omega)]
  simp only
  by_cases hus : usn = 0
  · subst hus
    simp only [Int.natCast_zero, ne_eq, not_true_eq_false, decide_false, if_true, List.nil_append,
      Bool.false_eq_true, if_false]
    cases zone
    · simp [zoneSuffix]; simpa using hv
    · simp [zoneSuffix, takeZone_suffix]; simpa using hv
  · have hne : ¬ ((usn : Int) = 0) := by omega
    simp only [ne_eq, hne, not_false_eq_true, decide_true, if_true, if_false, List.cons_append, expect_cons]
    have hd6 : d6 usn = digitChar (usn / 100000) :: [digitChar (usn / 10000), digitChar (usn / 1000),
        digitChar (usn / 100), digitChar (usn / 10), digitChar usn] := rfl
    have hsome : (digit? (digitChar (usn / 100000))).isSome = true := by rw [digit?_digitChar]; rfl
    have hfr := takeFrac_d6 usn (by omega) (zoneSuffix zone)
    rw [hd6] at hfr ⊢
    simp only [List.cons_append, hsome, if_true] at hfr ⊢
    rw [hfr]
    cases zone
    · simp [zoneSuffix, hv]
    · simp [zoneSuffix, takeZone_suffix, hv]

theorem beq_digitChar (c : Char) (hc : digit? c = none) (n : Nat) : (c == digitChar n) = false := by
  rw [beq_eq_false_iff_ne]; exact fun h => digitChar_ne n c hc h.symm

theorem digitChar_beq (c : Char) (hc : digit? c = none) (n : Nat) : (digitChar n == c) = false := by
  rw [beq_eq_false_iff_ne]; exact digitChar_ne n c hc

/-- `parse_string_format` recognises the shape of what `str(datetime)` wrote -/
theorem parseStringFormat_format (f : Fields) (zone : Bool) :
    parseStringFormat (formatFields ' ' f ++ zoneSuffix zone)
      = some { sep := ' ', frac := decide (f.micro ≠ 0), zone := zone } := by
  have hdot : digit? '.' = none := by decide
  have hplus : digit? '+' = none := by decide
  have h1 : ∀ n, ¬ '.' = digitChar n := fun n h => digitChar_ne n '.' hdot h.symm
  have h2 : ∀ n, ¬ digitChar n = '+' := fun n h => digitChar_ne n '+' hplus h
  by_cases hus : f.micro = 0
  · cases zone <;>
    simp [parseStringFormat, formatFields, zoneSuffix, d4, d2, hus, h1]
  · cases zone <;>
    simp [parseStringFormat, formatFields, zoneSuffix, d4, d2, d6, hus, h1, h2]

/-- a string without fraction does not match the `.%f` format (the csep_ascii reader then tries the second format) -/
theorem strptimeFields_frac_none (sep : Char) (f : Fields) (hv : validFields f = true) (h0 : f.micro = 0) :
    strptimeFields { sep := sep, frac := true, zone := false } (formatFields sep f) = none := by
  have hv' := hv
  simp only [validFields, Bool.and_eq_true, decide_eq_true_eq] at hv'
  obtain ⟨⟨⟨⟨⟨⟨⟨⟨⟨⟨hy1, hy2⟩, hd⟩, hh0⟩, hh1⟩, hm0⟩, hm1⟩, hs0⟩, hs1⟩, hu0⟩, hu1⟩ := hv'
  obtain ⟨hmo1, hmo2, hd1, hd2⟩ := validDate_day_le hd
  obtain ⟨y, mo, d, h, mi, s, us⟩ := f
  simp only at *
  subst h0
  obtain ⟨yn, rfl⟩ := Int.eq_ofNat_of_zero_le (by omega : 0 ≤ y)
  obtain ⟨mon, rfl⟩ := Int.eq_ofNat_of_zero_le (by omega : 0 ≤ mo)
  obtain ⟨dn, rfl⟩ := Int.eq_ofNat_of_zero_le (by omega : 0 ≤ d)
  obtain ⟨hn, rfl⟩ := Int.eq_ofNat_of_zero_le hh0
  obtain ⟨min, rfl⟩ := Int.eq_ofNat_of_zero_le hm0
  obtain ⟨sn, rfl⟩ := Int.eq_ofNat_of_zero_le hs0
  simp only [formatFields, Int.toNat_natCast, if_true]
  unfold strptimeFields
  simp only [bind, Option.bind]
  rw [take4_d4 yn (by omega)]; simp only [expect_cons]
  rw [take2_d2 mon (by omega)]; simp only [expect_cons]
  rw [take2_d2 dn (by omega)]; simp only [expect_cons]
  rw [take2_d2 hn (by omega)]; simp only [expect_cons]
  rw [take2_d2 min (by omega)]; simp only [expect_cons]
  rw [take2_d2 sn (by omega)]
  simp [expect]

/-- `strptime_to_utc_datetime(str(dt))` for a naive (`zone = false`) or UTC-aware (`zone = true`) datetime -/
theorem strptimeToUtcDatetime_str (us : Int) (h0 : -8589934592000000 < us) (h1 : us < 8589934592000000)
    (zone : Bool) : strptimeToUtcDatetime (isoformat ' ' us ++ zoneSuffix zone) = some us := by
  unfold strptimeToUtcDatetime isoformat
  rw [parseStringFormat_format]
  simp only [bind, Option.bind, strptimeWith]
  rw [strptimeFields_formatFields ' ' (fields us) (validFields_fields us h0 h1) zone]
  simp [ofFields_fields]

/-- the csep_ascii reader (`.%f` format first, then without) inverts `isoformat('T')` -/
theorem readerParse_isoformat (us : Int) (h0 : -8589934592000000 < us) (h1 : us < 8589934592000000) :
    readerParse (isoformat 'T' us) = some (dtToMs us) := by
  have hv := validFields_fields us h0 h1
  unfold readerParse isoformat strptimeWith
  by_cases hus : (fields us).micro = 0
  · rw [strptimeFields_frac_none 'T' _ hv hus]
    have := strptimeFields_formatFields 'T' (fields us) hv false
    simp only [zoneSuffix, Bool.false_eq_true, if_false, List.append_nil, hus, ne_eq, not_true_eq_false,
      decide_false] at this
    simp [this, ofFields_fields]
  · have := strptimeFields_formatFields 'T' (fields us) hv false
    simp only [zoneSuffix, Bool.false_eq_true, if_false, List.append_nil, hus, ne_eq, not_false_eq_true,
      decide_true] at this
    simp [this, ofFields_fields]

end Time
