import PycsepVerif.Model.ReprDecimals
import PycsepVerif.Proofs.DecimalText
import Mathlib.Tactic.Ring
import Mathlib.Tactic.Linarith
import Mathlib.Tactic.FieldSimp
/-!
# `num_decimals` inside the model: what `numDecimals` guarantees

`numDecimals_spec`: for EVERY rational `x` the decimal `repr` shows has at most `numDecimals x` places:
`reprValue x = z / 10^(numDecimals x)` for an integer `z`. With `reprValue_roundtrip` (`fl64 (reprValue x) = x`) every normal
binary64 `x` is therefore the double nearest to a decimal with `numDecimals x` places — which is all `cleaner_range` needs.
-/
namespace ReprDec
open Soft64 DecimalText

theorem isIntQ_iff (r : ℚ) : isIntQ r = true ↔ ∃ z : ℤ, r = (z : ℚ) := by
  unfold isIntQ
  rw [beq_iff_eq]
  constructor
  · intro h
    exact ⟨r.num, ((Rat.den_eq_one_iff r).mp h).symm⟩
  · rintro ⟨z, rfl⟩
    exact Rat.den_intCast z

/-- the upward search finds an exponent that makes `r·10^d` integral, if one exists within the fuel -/
theorem leastDecAux_spec (r : ℚ) : ∀ (fuel d : ℕ),
    (∃ D, d ≤ D ∧ D < d + fuel ∧ isIntQ (r * ((10 ^ D : ℕ) : ℚ)) = true) →
    isIntQ (r * ((10 ^ (leastDecAux fuel d r) : ℕ) : ℚ)) = true
  | 0, d, ⟨D, h1, h2, _⟩ => by omega
  | fuel + 1, d, ⟨D, h1, h2, h3⟩ => by
    unfold leastDecAux
    split_ifs with h
    · exact h
    · apply leastDecAux_spec r fuel (d + 1)
      refine ⟨D, ?_, by omega, h3⟩
      rcases Nat.eq_or_lt_of_le h1 with he | hl
      · subst he; exact absurd h3 h
      · exact hl

/-- the search never goes below its starting exponent -/
theorem le_leastDecAux (r : ℚ) : ∀ (fuel d : ℕ), d ≤ leastDecAux fuel d r
  | 0, d => le_refl d
  | fuel + 1, d => by
    unfold leastDecAux
    split_ifs
    · exact le_refl d
    · exact le_trans (Nat.le_succ d) (le_leastDecAux r fuel (d + 1))

/-- integrality persists when more decimals are allowed -/
theorem isIntQ_mul_pow_mono {r : ℚ} {a b : ℕ} (hab : a ≤ b) (h : isIntQ (r * ((10 ^ a : ℕ) : ℚ)) = true) :
    isIntQ (r * ((10 ^ b : ℕ) : ℚ)) = true := by
  rw [isIntQ_iff] at h ⊢
  obtain ⟨z, hz⟩ := h
  refine ⟨z * (10 ^ (b - a) : ℕ), ?_⟩
  have : (10 ^ b : ℕ) = 10 ^ a * 10 ^ (b - a) := by rw [← pow_add]; congr 1; omega
  rw [this]; push_cast
  rw [← mul_assoc]
  push_cast at hz
  rw [hz]

/-- every candidate is an integer multiple of the unit of its last digit -/
theorem candidates_form (x : ℚ) (n : ℕ) : ∀ c ∈ candidates x n, ∃ z : ℤ, c = (z : ℚ) * pow10 (ilog10 x - (n : ℤ) + 1) := by
  intro c hc
  unfold candidates at hc
  simp only at hc
  split_ifs at hc <;> simp only [List.mem_cons, List.not_mem_nil, or_false] at hc <;> rcases hc with rfl | rfl <;>
    exact ⟨_, rfl⟩

theorem candidates_headD_mem (x : ℚ) (n : ℕ) : (candidates x n).headD x ∈ candidates x n := by
  unfold candidates
  simp only
  split_ifs <;> simp

/-- whatever the search returns is an integer times a power of ten not below `10^(⌊log10 x⌋ − 16)` (at most 17 digits) -/
theorem reprSearch_form (x : ℚ) : ∀ (fuel n : ℕ), 1 ≤ n → n + fuel = 17 →
    ∃ (z e : ℤ), reprSearch x fuel n = (z : ℚ) * pow10 e ∧ ilog10 x - 16 ≤ e
  | 0, n, _, hn => by
    have : n = 17 := by omega
    subst this
    obtain ⟨z, hz⟩ := candidates_form x 17 _ (candidates_headD_mem x 17)
    refine ⟨z, ilog10 x - ((17 : ℕ) : ℤ) + 1, ?_, by push_cast; omega⟩
    simpa [reprSearch] using hz
  | fuel + 1, n, h1, hn => by
    unfold reprSearch
    split
    · rename_i c hc
      obtain ⟨z, hz⟩ := candidates_form x n c (List.mem_of_find?_eq_some hc)
      exact ⟨z, ilog10 x - (n : ℤ) + 1, hz, by omega⟩
    · exact reprSearch_form x fuel (n + 1) (by omega) (by omega)

/-- `z·10^e·10^D` is an integer as soon as `D ≥ −e` -/
theorem isIntQ_form (z e : ℤ) (D : ℕ) (hD : -e ≤ (D : ℤ)) : isIntQ ((z : ℚ) * pow10 e * ((10 ^ D : ℕ) : ℚ)) = true := by
  rw [isIntQ_iff]
  obtain ⟨k, hk⟩ := Int.eq_ofNat_of_zero_le (show 0 ≤ e + (D : ℤ) by omega)
  refine ⟨z * (10 ^ k : ℕ), ?_⟩
  rw [pow10_eq_zpow]
  push_cast
  rw [mul_assoc]
  congr 1
  rw [← zpow_natCast (10 : ℚ) D, ← zpow_add₀ (by norm_num : (10 : ℚ) ≠ 0), hk, zpow_natCast]

/-- `reprValue x` is an integer times a power of ten not below `10^(⌊log10 |x|⌋ − 16)` -/
theorem reprValue_form (x : ℚ) : ∃ (z e : ℤ), reprValue x = (z : ℚ) * pow10 e ∧ ilog10 (fabs x) - 16 ≤ e := by
  unfold reprValue
  split_ifs with h0 hneg
  · exact ⟨0, ilog10 (fabs x) - 16, by simp, le_refl _⟩
  · obtain ⟨z, e, hz, he⟩ := reprSearch_form (-x) 16 1 (by norm_num) (by norm_num)
    refine ⟨-z, e, by rw [hz]; push_cast; ring, ?_⟩
    have : fabs x = -x := by unfold fabs; rw [if_pos hneg]
    rw [this]; exact he
  · obtain ⟨z, e, hz, he⟩ := reprSearch_form x 16 1 (by norm_num) (by norm_num)
    refine ⟨z, e, hz, ?_⟩
    have : fabs x = x := by unfold fabs; rw [if_neg hneg]
    rw [this]; exact he

/-- **what `num_decimals` means**: `repr(x)` denotes a decimal with at most `numDecimals x` places — for every `x` -/
theorem numDecimals_int (x : ℚ) : isIntQ (reprValue x * ((10 ^ numDecimals x : ℕ) : ℚ)) = true := by
  obtain ⟨z, e, hz, he⟩ := reprValue_form x
  have hsearch : isIntQ (reprValue x *
      ((10 ^ leastDecAux ((16 - ilog10 (fabs x)).toNat + 1) 0 (reprValue x) : ℕ) : ℚ)) = true := by
    apply leastDecAux_spec
    refine ⟨(-e).toNat, Nat.zero_le _, by omega, ?_⟩
    rw [hz]
    exact isIntQ_form z e _ (by omega)
  unfold numDecimals
  simp only
  split_ifs with hd h16
  · rw [hd] at hsearch
    exact isIntQ_mul_pow_mono (Nat.zero_le 1) hsearch
  · rw [hd] at hsearch; exact hsearch
  · exact hsearch

/-- … with any larger number of places `m` too: `reprValue x = z / 10^m` -/
theorem numDecimals_le_spec (x : ℚ) {m : ℕ} (hm : numDecimals x ≤ m) :
    ∃ z : ℤ, reprValue x = (z : ℚ) / ((10 ^ m : ℕ) : ℚ) := by
  obtain ⟨z, hz⟩ := (isIntQ_iff _).mp (isIntQ_mul_pow_mono hm (numDecimals_int x))
  refine ⟨z, ?_⟩
  have hpos : (0 : ℚ) < ((10 ^ m : ℕ) : ℚ) := by positivity
  rw [eq_div_iff hpos.ne']
  exact hz

theorem numDecimals_spec (x : ℚ) : ∃ z : ℤ, reprValue x = (z : ℚ) / ((10 ^ numDecimals x : ℕ) : ℚ) :=
  numDecimals_le_spec x (le_refl _)

/-- a normal (or zero) binary64 is the double nearest to a decimal with `m ≥ numDecimals x` places -/
theorem float_eq_fl64_decimal {x : ℚ} (hx : IsF64 x) (hn : x = 0 ∨ pow2 (-1022) ≤ |x|) {m : ℕ} (hm : numDecimals x ≤ m) :
    ∃ z : ℤ, reprValue x = (z : ℚ) / ((10 ^ m : ℕ) : ℚ) ∧ x = fl64 ((z : ℚ) / ((10 ^ m : ℕ) : ℚ)) := by
  obtain ⟨z, hz⟩ := numDecimals_le_spec x hm
  exact ⟨z, hz, by rw [← hz, reprValue_roundtrip hx hn]⟩

end ReprDec
