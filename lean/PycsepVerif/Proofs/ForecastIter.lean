import PycsepVerif.Model.ForecastIter

/-! helper lemmas for property C13 (Model/ForecastIter.lean): the iteration loops, the accumulation of rates -/
namespace ForecastIter

/-- what `__next__` does to a catalog when `apply_filters` is `b` -/
def fstep (b : Bool) (c : Cat) : Cat := if b then filt c else c

theorem filt_idem (c : Cat) : filt (filt c) = filt c := by
  simp [filt, List.filter_filter]

theorem fstep_idem (b : Bool) (c : Cat) : fstep b (fstep b c) = fstep b c := by
  cases b <;> simp [fstep, filt_idem]

theorem fstep_eq_applyOnce (b : Bool) : fstep b = applyOnce b := rfl

/-- the event counts in force when a call of `__next__` starts -/
def ecEff (st : St) : List Nat := if st.idx = 0 then [] else st.eventCounts

/-! ### list branch -/

/-- iterating an in-memory list from cursor `pre.length` to its end -/
theorem list_loop : ∀ (post pre : List Cat) (st : St) (acc : List Cat) (fuel : Nat),
    st.isGen = false → st.catalogs = pre ++ post → st.idx = pre.length →
    st.nCat = some (pre ++ post).length → post.length < fuel →
    passLoop fuel st acc = some
      ({ st with catalogs := pre ++ post.map (fstep st.applyFilters), idx := 0,
                 eventCounts := ecEff st ++ (post.map (fstep st.applyFilters)).map (·.events.length) },
       acc ++ post.map (fstep st.applyFilters))
  | [], pre, st, acc, fuel, hg, hc, hi, hn, hf => by
    obtain ⟨fuel, rfl⟩ : ∃ f, fuel = f + 1 := ⟨fuel - 1, by omega⟩
    obtain ⟨file, catalogs, isGen, cache, store, af, nCat, idx, ec, er, nb, nm⟩ := st
    simp only at hg hc hi hn
    subst hg hc hi hn
    by_cases hp : pre = []
    · subst hp; simp [passLoop, next, ecEff]
    · have hl : pre.length ≠ 0 := fun h => hp (List.eq_nil_of_length_eq_zero h)
      simp [passLoop, next, ecEff, hl]
  | c :: post, pre, st, acc, fuel, hg, hc, hi, hn, hf => by
    obtain ⟨fuel, rfl⟩ : ∃ f, fuel = f + 1 := ⟨fuel - 1, by omega⟩
    obtain ⟨file, catalogs, isGen, cache, store, af, nCat, idx, ec, er, nb, nm⟩ := st
    simp only at hg hc hi hn
    subst hg hc hi hn
    have ih := fun ec' => list_loop post (pre ++ [fstep af c])
      { file := file, catalogs := pre ++ fstep af c :: post, isGen := false, cache := cache, store := store,
        applyFilters := af, nCat := some (pre ++ c :: post).length, idx := pre.length + 1,
        eventCounts := ec', expectedRates := er, nBins := nb, nMag := nm }
      (acc ++ [fstep af c]) fuel rfl (by simp) (by simp) (by simp) (by simp at hf; omega)
    by_cases hp : pre = []
    · subst hp
      simp only [passLoop, next, emit, ecEff, fstep] at ih ⊢
      simp at ih ⊢
      rw [ih]; simp [fstep]
    · have hl : pre.length ≠ 0 := fun h => hp (List.eq_nil_of_length_eq_zero h)
      have hlt : ¬ pre.length + (post.length + 1) ≤ pre.length := by omega
      simp only [passLoop, next, emit, ecEff, fstep] at ih ⊢
      simp [hl, hlt] at ih ⊢
      rw [ih]; simp [fstep]

/-! ### generator branch -/

/-- the state after the generator is exhausted (StopIteration branch of `__next__`) -/
def afterStop (st : St) : St :=
  if st.store = false then { st with catalogs := st.file, nCat := some st.idx, idx := 0 }
  else { st with catalogs := st.cache, cache := [], isGen := false, applyFilters := false,
                 nCat := some st.idx, idx := 0 }

/-- the state when the generator has produced all of `post` -/
def genDone (st : St) (post : List Cat) : St :=
  { st with
    catalogs := []
    idx := st.idx + post.length
    eventCounts := ecEff st ++ (post.map (fstep st.applyFilters)).map (fun c => c.events.length)
    cache := if st.store then st.cache ++ post.map (fstep st.applyFilters) else st.cache }

theorem gen_loop : ∀ (post : List Cat) (st : St) (acc : List Cat) (fuel : Nat),
    st.isGen = true → st.catalogs = post → post.length < fuel →
    passLoop fuel st acc = some (afterStop (genDone st post), acc ++ post.map (fstep st.applyFilters))
  | [], st, acc, fuel, hg, hc, hf => by
    obtain ⟨fuel, rfl⟩ : ∃ f, fuel = f + 1 := ⟨fuel - 1, by omega⟩
    obtain ⟨file, catalogs, isGen, cache, store, af, nCat, idx, ec, er, nb, nm⟩ := st
    simp only at hg hc
    subst hg hc
    by_cases h0 : idx = 0 <;> cases store <;> simp [passLoop, next, afterStop, genDone, ecEff, h0]
  | c :: post, st, acc, fuel, hg, hc, hf => by
    obtain ⟨fuel, rfl⟩ : ∃ f, fuel = f + 1 := ⟨fuel - 1, by omega⟩
    obtain ⟨file, catalogs, isGen, cache, store, af, nCat, idx, ec, er, nb, nm⟩ := st
    simp only at hg hc
    subst hg hc
    have ih := fun ec' ch' => gen_loop post
      { file := file, catalogs := post, isGen := true, cache := ch', store := store,
        applyFilters := af, nCat := nCat, idx := idx + 1,
        eventCounts := ec', expectedRates := er, nBins := nb, nMag := nm }
      (acc ++ [fstep af c]) fuel rfl rfl (by simp at hf; omega)
    by_cases h0 : idx = 0 <;> cases store <;>
      simp [passLoop, next, emit, afterStop, genDone, ecEff, h0, fstep] at ih ⊢ <;>
      rw [ih] <;> simp [fstep, Nat.add_assoc, Nat.add_comm 1]

/-! ### accumulation of the expected rates -/

theorem addVec_map (l : List Nat) (g h : Nat → Nat) :
    addVec (l.map g) (l.map h) = l.map (fun j => g j + h j) := by
  induction l with
  | nil => rfl
  | cons a l ih => simp [addVec, ih]

def cnt (c : Cat) (j : Nat) : Nat := (c.events.filter (fun e => e.cell = j)).length

/-- a catalog bound to the forecast's region is counted on the forecast's grid -/
theorem binCounts_eq (nBins : Nat) (c : Cat) (hg : c.grid = 0) :
    binCounts nBins c = (List.range nBins).map (cnt c) := by
  simp [binCounts, binOf, hg, cnt]

/-- after `cat.region = self.region` the counts are those on the forecast's grid, whatever the catalog was bound to -/
theorem binCounts_rebind (nBins : Nat) (c : Cat) :
    binCounts nBins (rebind c) = (List.range nBins).map (cnt c) := by
  simp [binCounts, binOf, rebind, cnt]

theorem foldl_addVec (nBins : Nat) (cs : List Cat) (h : Nat → Nat) :
    (cs.map rebind).foldl (fun d c' => addVec d (binCounts nBins c')) ((List.range nBins).map h)
      = (List.range nBins).map (fun j => h j + (cs.map (fun c => cnt c j)).sum) := by
  induction cs generalizing h with
  | nil => simp
  | cons c cs ih =>
    rw [List.map_cons, List.foldl_cons, binCounts_rebind, addVec_map, ih]
    apply List.map_congr_left
    intro j _
    simp [Nat.add_assoc]

theorem accumulate_eq_totals (nBins : Nat) (c : Cat) (cs : List Cat) :
    accumulate nBins ((c :: cs).map rebind) = some (totals nBins (c :: cs)) := by
  simp only [List.map_cons, accumulate, totals]
  rw [binCounts_rebind, foldl_addVec]
  simp [cnt]

/-! ### round 4: single calls of `__next__` and passes that stop half-way (`nextN`) -/

/-- one call of `__next__` on an in-memory list positioned behind `pre` with a catalog left -/
theorem next_list_yield (pre : List Cat) (c : Cat) (rest : List Cat) (st : St)
    (hg : st.isGen = false) (hc : st.catalogs = pre ++ c :: rest) (hi : st.idx = pre.length)
    (hn : st.nCat = some (pre ++ c :: rest).length) :
    (next st).1 = { st with catalogs := pre ++ fstep st.applyFilters c :: rest, idx := pre.length + 1,
                            eventCounts := ecEff st ++ [(fstep st.applyFilters c).events.length] } := by
  obtain ⟨file, catalogs, isGen, cache, store, af, nCat, idx, ec, er, nb, nm⟩ := st
  simp only at hg hc hi hn
  subst hg hc hi hn
  by_cases hp : pre = []
  · subst hp
    simp [next, emit, ecEff, fstep]
  · have hl : pre.length ≠ 0 := fun h => hp (List.eq_nil_of_length_eq_zero h)
    have hlt : ¬ pre.length + (rest.length + 1) ≤ pre.length := by omega
    simp [next, emit, ecEff, fstep, hl, hlt]

/-- `mid.length + 1` calls of `__next__` on an in-memory list: the catalogs passed are filtered in place, the cursor
    stands behind them, their counts are recorded -/
theorem nextN_list : ∀ (mid : List Cat) (c : Cat) (pre post : List Cat) (st : St),
    st.isGen = false → st.catalogs = pre ++ c :: mid ++ post → st.idx = pre.length →
    st.nCat = some (pre ++ c :: mid ++ post).length →
    nextN (mid.length + 1) st = { st with
      catalogs := pre ++ (c :: mid).map (fstep st.applyFilters) ++ post, idx := pre.length + (mid.length + 1),
      eventCounts := ecEff st ++ ((c :: mid).map (fstep st.applyFilters)).map (·.events.length) }
  | [], c, pre, post, st, hg, hc, hi, hn => by
    have h := next_list_yield pre c post st hg (by simpa using hc) hi (by simpa using hn)
    simp only [nextN, List.length_nil, Nat.zero_add, h, List.map_cons, List.map_nil]
    simp
  | d :: mid, c, pre, post, st, hg, hc, hi, hn => by
    have h := next_list_yield pre c (d :: mid ++ post) st hg (by simpa using hc) hi (by simpa using hn)
    have ih := nextN_list mid d (pre ++ [fstep st.applyFilters c]) post (next st).1
      (by rw [h]; exact hg) (by rw [h]; simp) (by rw [h]; simp)
      (by rw [h]; simp only [hn]; simp)
    rw [show (d :: mid).length + 1 = (mid.length + 1) + 1 from rfl, nextN, ih, h]
    simp [ecEff, Nat.add_assoc, Nat.add_comm 1]

/-- one call of `__next__` on a generator that has a catalog left -/
theorem next_gen_yield (c : Cat) (rest : List Cat) (st : St) (hg : st.isGen = true) (hc : st.catalogs = c :: rest) :
    (next st).1 = { st with catalogs := rest, idx := st.idx + 1,
                            eventCounts := ecEff st ++ [(fstep st.applyFilters c).events.length],
                            cache := if st.store then st.cache ++ [fstep st.applyFilters c] else st.cache } := by
  obtain ⟨file, catalogs, isGen, cache, store, af, nCat, idx, ec, er, nb, nm⟩ := st
  simp only at hg hc
  subst hg hc
  by_cases h0 : idx = 0 <;> cases store <;> simp [next, emit, ecEff, fstep, h0]

theorem nextN_gen : ∀ (mid : List Cat) (c : Cat) (post : List Cat) (st : St),
    st.isGen = true → st.catalogs = c :: mid ++ post →
    nextN (mid.length + 1) st = { st with
      catalogs := post, idx := st.idx + (mid.length + 1),
      eventCounts := ecEff st ++ ((c :: mid).map (fstep st.applyFilters)).map (·.events.length),
      cache := if st.store then st.cache ++ (c :: mid).map (fstep st.applyFilters) else st.cache }
  | [], c, post, st, hg, hc => by
    have h := next_gen_yield c post st hg (by simpa using hc)
    simp only [nextN, List.length_nil, Nat.zero_add, h, List.map_cons, List.map_nil]
  | d :: mid, c, post, st, hg, hc => by
    have h := next_gen_yield c (d :: mid ++ post) st hg (by simpa using hc)
    have ih := nextN_gen mid d post (next st).1 (by rw [h]; exact hg) (by rw [h])
    rw [show (d :: mid).length + 1 = (mid.length + 1) + 1 from rfl, nextN, ih, h]
    cases hs : st.store <;> simp [ecEff, Nat.add_assoc, Nat.add_comm 1]

/-! ### phase 2: an in-memory list stays an in-memory list with the same filter switch, whatever is done with it -/

theorem next_list_fields (st : St) (h : st.isGen = false) :
    (next st).1.isGen = false ∧ (next st).1.applyFilters = st.applyFilters := by
  obtain ⟨file, catalogs, isGen, cache, store, af, nCat, idx, ec, er, nb, nm⟩ := st
  simp only at h
  subst h
  unfold next
  by_cases h0 : idx = 0 <;> simp only [h0, ↓reduceIte] <;>
    (split
     · exact ⟨rfl, rfl⟩
     · split
       · exact ⟨rfl, rfl⟩
       · split <;> simp [emit])

theorem passLoop_list_fields : ∀ (fuel : Nat) (st : St) (acc : List Cat) (st' : St) (out : List Cat),
    st.isGen = false → passLoop fuel st acc = some (st', out) →
    st'.isGen = false ∧ st'.applyFilters = st.applyFilters
  | 0, _, _, _, _, _, h => by simp [passLoop] at h
  | fuel + 1, st, acc, st', out, hg, h => by
    have hn := next_list_fields st hg
    unfold passLoop at h
    cases hnx : next st with
    | mk s1 r =>
      rw [hnx] at h hn
      cases r with
      | yield c =>
        have := passLoop_list_fields fuel s1 (acc ++ [c]) st' out hn.1 h
        exact ⟨this.1, this.2.trans hn.2⟩
      | stop =>
        simp only [Option.some.injEq, Prod.mk.injEq] at h
        obtain ⟨rfl, _⟩ := h
        exact hn
      | assertFail => simp at h

theorem fullPass_list_fields (st st' : St) (out : List Cat) (hg : st.isGen = false)
    (h : fullPass st = some (st', out)) : st'.isGen = false ∧ st'.applyFilters = st.applyFilters :=
  passLoop_list_fields _ st [] st' out hg h

theorem getExpectedRates_list_fields (st st' : St) (r : List Nat × Nat) (hg : st.isGen = false)
    (h : getExpectedRates st = some (st', r)) : st'.isGen = false ∧ st'.applyFilters = st.applyFilters := by
  unfold getExpectedRates at h
  split at h
  · simp only [Option.some.injEq, Prod.mk.injEq] at h
    obtain ⟨rfl, _⟩ := h
    exact ⟨hg, rfl⟩
  · split at h
    · rename_i s1 cats hp
      have := fullPass_list_fields st s1 cats hg hp
      split at h
      · simp only [Option.some.injEq, Prod.mk.injEq] at h
        obtain ⟨rfl, _⟩ := h
        exact this
      · simp at h
    · simp at h

theorem getEventCounts_list_fields (st st' : St) (l : List Nat) (hg : st.isGen = false)
    (h : getEventCounts st = some (st', l)) : st'.isGen = false ∧ st'.applyFilters = st.applyFilters := by
  unfold getEventCounts at h
  split at h
  · split at h
    · rename_i s1 cats hp
      simp only [Option.some.injEq, Prod.mk.injEq] at h
      obtain ⟨rfl, _⟩ := h
      exact fullPass_list_fields st s1 cats hg hp
    · simp at h
  · simp only [Option.some.injEq, Prod.mk.injEq] at h
    obtain ⟨rfl, _⟩ := h
    exact ⟨hg, rfl⟩

/-! ### round 4: the three configured filters of `__next__` -/

/-- applying the configured filters one after the other keeps exactly the events that satisfy the conjunction of the
    configured predicates, in their original order -/
theorem filtSeq_events (cfg : Cfg) (c : RCat) : (filtSeq cfg c).events = c.events.filter (keepOf cfg) := by
  obtain ⟨hf, hm, hs⟩ := cfg
  have hk : ∀ cfg : Cfg, keepOf cfg =
      fun e => (!cfg.hasFilters || e.pf) && (!cfg.applyMct || e.pm) && (!cfg.filterSpatial || e.ps) := fun _ => rfl
  cases hf <;> cases hm <;> cases hs <;> (simp [filtSeq, hk, List.filter_filter]) <;>
    first
    | (apply List.filter_congr; intro e _; cases e.pf <;> cases e.pm <;> cases e.ps <;> rfl)
    | (symm; rw [List.filter_eq_self]; intros; rfl)

/-- nothing but the events is touched -/
theorem filtSeq_payload (cfg : Cfg) (c : RCat) :
    (filtSeq cfg c).id = c.id ∧ (filtSeq cfg c).grid = c.grid ∧ (filtSeq cfg c).carries = c.carries := by
  obtain ⟨hf, hm, hs⟩ := cfg
  cases hf <;> cases hm <;> cases hs <;> simp [filtSeq]

theorem filtSeq_eq (cfg : Cfg) (c : RCat) : filtSeq cfg c = { c with events := c.events.filter (keepOf cfg) } := by
  have h1 := filtSeq_events cfg c
  obtain ⟨h2, h3, h4⟩ := filtSeq_payload cfg c
  cases h : filtSeq cfg c
  simp_all

/-- the abstraction commutes with filtering: the abstract `filt` IS the code's filter sequence -/
theorem absCat_filtSeq (cfg : Cfg) (c : RCat) : absCat cfg (filtSeq cfg c) = filt (absCat cfg c) := by
  rw [filtSeq_eq]
  simp only [absCat, filt, List.filter_map]
  congr 1

/-- the filter sequence is idempotent (each filter works in place on what the previous pass left) -/
theorem filtSeq_idem (cfg : Cfg) (c : RCat) : filtSeq cfg (filtSeq cfg c) = filtSeq cfg c := by
  rw [filtSeq_eq, filtSeq_eq]
  simp [List.filter_filter]

end ForecastIter
