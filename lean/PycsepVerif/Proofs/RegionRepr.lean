import PycsepVerif.Proofs.RegionDecimal
import PycsepVerif.Proofs.ReprDecimals
/-!
# The float construction of a region with `num_decimals` inside the model

`Proofs/RegionDecimal.lean` proves `from_origins` correct on a decimal lattice with the decimals `(m, m, m)` handed in. Here the
three `num_decimals` values are the model's own (`ReprDec.decsOf`), and the lattice is the one Python PRINTS: anchors and spacing
are read off `repr` of the smallest origin coordinates and of `dh`.
-/
namespace Region
open Soft64 Bin1d ReprDec DecimalText

/-- the same decimal written with fewer places: `S/10^m = S'/10^m'`, `m' ≤ m` ⇒ `S = S'·10^(m−m')` -/
theorem scale_int {S S' : ℤ} {m m' : ℕ} (hmm : m' ≤ m)
    (h : (S : ℚ) / ((10 ^ m : ℕ) : ℚ) = (S' : ℚ) / ((10 ^ m' : ℕ) : ℚ)) : S = S' * 10 ^ (m - m') := by
  have hp : (0 : ℚ) < ((10 ^ m : ℕ) : ℚ) := by positivity
  have hp' : (0 : ℚ) < ((10 ^ m' : ℕ) : ℚ) := by positivity
  rw [div_eq_div_iff hp.ne' hp'.ne'] at h
  have e : (10 ^ m : ℕ) = 10 ^ m' * 10 ^ (m - m') := by rw [← pow_add]; congr 1; omega
  rw [e] at h
  push_cast at h
  have h10 : (10 : ℚ) ^ m' ≠ 0 := by positivity
  have : (S : ℚ) = (S' : ℚ) * 10 ^ (m - m') := by
    apply mul_right_cancel₀ h10
    rw [h]; ring
  exact_mod_cast this

theorem latticePt_rescale {S D S' D' : ℤ} {m m' : ℕ}
    (hS : (S : ℚ) / ((10 ^ m : ℕ) : ℚ) = (S' : ℚ) / ((10 ^ m' : ℕ) : ℚ))
    (hD : (D : ℚ) / ((10 ^ m : ℕ) : ℚ) = (D' : ℚ) / ((10 ^ m' : ℕ) : ℚ)) (k : ℕ) :
    latticePt S D m k = latticePt S' D' m' k := by
  unfold latticePt
  rw [lattice_split, lattice_split, hS, hD]

theorem decimalGrid_rescale {S D S' D' : ℤ} {m m' : ℕ}
    (hS : (S : ℚ) / ((10 ^ m : ℕ) : ℚ) = (S' : ℚ) / ((10 ^ m' : ℕ) : ℚ))
    (hD : (D : ℚ) / ((10 ^ m : ℕ) : ℚ) = (D' : ℚ) / ((10 ^ m' : ℕ) : ℚ)) (n : ℕ) :
    decimalGrid S D m n = decimalGrid S' D' m' n := by
  unfold decimalGrid
  apply List.map_congr_left
  intro k _
  exact latticePt_rescale hS hD k

/-- the smallest origin coordinate of a lattice that touches column 0 is the lattice's anchor -/
theorem minL_lattice (S D : ℤ) (m : ℕ) (is : List ℕ) (hD : 0 < D) (h0 : 0 ∈ is) :
    minL (is.map (latticePt S D m)) = latticePt S D m 0 := by
  apply minL_eq
  · exact List.mem_map.mpr ⟨0, h0, rfl⟩
  · intro x hx
    obtain ⟨i, _, rfl⟩ := List.mem_map.mp hx
    exact latticePt_mono S D m hD (Nat.zero_le _)

/-- one axis with ARBITRARY decimals `(decS, decH)` handed to `cleaner_range`: if the lattice can be written with
`m' = max decS decH` places (`S/10^m = S'/10^m'`, `D/10^m = D'/10^m'`), the edges are the decimal grid -/
theorem axis_edges_dec (S D : ℤ) (m n : ℕ) (is : List ℕ) (decS decH : ℕ) (S' D' : ℤ)
    (hm : max decS decH ≤ 22)
    (hS : (S : ℚ) / ((10 ^ m : ℕ) : ℚ) = (S' : ℚ) / ((10 ^ max decS decH : ℕ) : ℚ))
    (hD : (D : ℚ) / ((10 ^ m : ℕ) : ℚ) = (D' : ℚ) / ((10 ^ max decS decH : ℕ) : ℚ))
    (hD' : 0 < D') (hn : 1 ≤ n) (hb : |S'| + (n : ℤ) * D' ≤ 2 ^ 50)
    (hlt : ∀ i ∈ is, i < n) (h0 : 0 ∈ is) (h1 : n - 1 ∈ is) :
    cleanerRangeAll (minL (is.map (latticePt S D m))) (maxL (is.map (latticePt S D m))) (dhPt D m) decS decH
      = decimalGrid S D m n := by
  have hpt : latticePt S D m = latticePt S' D' (max decS decH) := funext (latticePt_rescale hS hD)
  have hdh : dhPt D m = dhPt D' (max decS decH) := by unfold dhPt; rw [hD]
  rw [hpt, hdh, decimalGrid_rescale hS hD]
  have hmin := minL_lattice S' D' (max decS decH) is hD' h0
  have hmax : maxL (is.map (latticePt S' D' (max decS decH))) = latticePt S' D' (max decS decH) (n - 1) := by
    apply maxL_eq
    · exact List.mem_map.mpr ⟨n - 1, h1, rfl⟩
    · intro x hx
      obtain ⟨i, hi, rfl⟩ := List.mem_map.mp hx
      exact latticePt_mono S' D' _ hD' (by have := hlt i hi; omega)
  rw [hmin, hmax, latticePt_zero]
  have hcnt : ((n - 1 : ℕ) : ℤ) + 1 = (n : ℤ) := by omega
  have hex := Bin1d.cleanerRange_exact S' D' (max decS decH) (n - 1) hm hD' (by rw [hcnt]; exact hb)
  have hn1 : n - 1 + 1 = n := by omega
  rw [hn1] at hex
  unfold cleanerRangeAll dhPt latticePt
  rw [hex]

/-- the hypotheses of `axis_edges_dec` follow from `DecAxis` when the decimals are the model's `num_decimals` of the anchor and
the spacing, both at most `m` -/
theorem axis_edges_repr (x0 dh : ℚ) (S D : ℤ) (m n : ℕ) (is : List ℕ) (A : DecAxis S D m n)
    (hmx : numDecimals x0 ≤ m) (hmd : numDecimals dh ≤ m)
    (hS : reprValue x0 = (S : ℚ) / ((10 ^ m : ℕ) : ℚ)) (hD : reprValue dh = (D : ℚ) / ((10 ^ m : ℕ) : ℚ))
    (hlt : ∀ i ∈ is, i < n) (h0 : 0 ∈ is) (h1 : n - 1 ∈ is) :
    cleanerRangeAll (minL (is.map (latticePt S D m))) (maxL (is.map (latticePt S D m))) (dhPt D m)
        (numDecimals x0) (numDecimals dh) = decimalGrid S D m n := by
  have hmm : max (numDecimals x0) (numDecimals dh) ≤ m := max_le hmx hmd
  obtain ⟨S', hS'⟩ := numDecimals_le_spec x0 (le_max_left (numDecimals x0) (numDecimals dh))
  obtain ⟨D', hD'⟩ := numDecimals_le_spec dh (le_max_right (numDecimals x0) (numDecimals dh))
  have eS := hS.symm.trans hS'
  have eD := hD.symm.trans hD'
  have sS := scale_int hmm eS
  have sD := scale_int hmm eD
  have hpow : (1 : ℤ) ≤ 10 ^ (m - max (numDecimals x0) (numDecimals dh)) := one_le_pow₀ (by norm_num)
  have hD'pos : 0 < D' := by
    have := A.dpos
    rw [sD] at this
    by_contra hneg
    push Not at hneg
    have : D' * 10 ^ (m - max (numDecimals x0) (numDecimals dh)) ≤ 0 :=
      mul_nonpos_of_nonpos_of_nonneg hneg (by positivity)
    omega
  have hDle : D' ≤ D := by rw [sD]; nlinarith
  have hSle : |S'| ≤ |S| := by
    rw [sS, abs_mul, abs_of_pos (by positivity : (0 : ℤ) < 10 ^ (m - max (numDecimals x0) (numDecimals dh)))]
    nlinarith [abs_nonneg S']
  have hb : |S'| + (n : ℤ) * D' ≤ 2 ^ 50 := by
    have := A.grid
    have hn0 : (0 : ℤ) ≤ (n : ℤ) := by positivity
    nlinarith
  exact axis_edges_dec S D m n is _ _ S' D' (le_trans hmm A.m22) eS eD hD'pos (by have := A.n2; omega) hb hlt h0 h1

/-- **the float construction of the lattice Python prints.** `x0`, `y0`, `dh` binary64 (zero or normal);
`m = max(num_decimals(x0), num_decimals(y0), num_decimals(dh))`; `Sx/10^m`, `Sy/10^m`, `D/10^m` the decimals `repr` shows for them;
origins = nearest doubles of the lattice `((Sx + i·D)/10^m, (Sy + j·D)/10^m)`, cells `cs` touching all four sides. Then
`from_origins(origins, dh)` — the model with NO decimal input — yields the nearest doubles of the decimal grid as `xs`, `ys` and
records polygon k at its lattice coordinates. -/
theorem fromOriginsAuto_decimal (x0 y0 dh : ℚ) (hxF : IsF64 x0) (hxN : x0 = 0 ∨ pow2 (-1022) ≤ |x0|)
    (hyF : IsF64 y0) (hyN : y0 = 0 ∨ pow2 (-1022) ≤ |y0|) (hdF : IsF64 dh) (hdN : dh = 0 ∨ pow2 (-1022) ≤ |dh|)
    (Sx Sy D : ℤ) (m nx ny : ℕ) (cs : List (ℕ × ℕ)) (flags : Option (List Bool))
    (hm : m = max (numDecimals x0) (max (numDecimals y0) (numDecimals dh)))
    (hSx : reprValue x0 = (Sx : ℚ) / ((10 ^ m : ℕ) : ℚ)) (hSy : reprValue y0 = (Sy : ℚ) / ((10 ^ m : ℕ) : ℚ))
    (hD : reprValue dh = (D : ℚ) / ((10 ^ m : ℕ) : ℚ))
    (Ax : DecAxis Sx D m nx) (Ay : DecAxis Sy D m ny)
    (hin : ∀ c ∈ cs, c.1 < nx ∧ c.2 < ny)
    (hx0 : 0 ∈ cs.map (·.1)) (hx1 : nx - 1 ∈ cs.map (·.1)) (hy0 : 0 ∈ cs.map (·.2)) (hy1 : ny - 1 ∈ cs.map (·.2)) :
    (fromOriginsAuto (latticeOrigins Sx Sy D m cs) dh flags).xs = decimalGrid Sx D m nx ∧
    (fromOriginsAuto (latticeOrigins Sx Sy D m cs) dh flags).ys = decimalGrid Sy D m ny ∧
    (fromOriginsAuto (latticeOrigins Sx Sy D m cs) dh flags).cells.length = cs.length ∧
    ∀ k (hk : k < cs.length),
      (fromOriginsAuto (latticeOrigins Sx Sy D m cs) dh flags).cells[k]?
        = some ⟨cs[k].1, cs[k].2, flagOf flags k⟩ := by
  have hmx : numDecimals x0 ≤ m := by rw [hm]; exact le_max_left _ _
  have hmy : numDecimals y0 ≤ m := by rw [hm]; exact le_trans (le_max_left _ _) (le_max_right _ _)
  have hmd : numDecimals dh ≤ m := by rw [hm]; exact le_trans (le_max_right _ _) (le_max_right _ _)
  have edh : dhPt D m = dh := by unfold dhPt; rw [← hD]; exact reprValue_roundtrip hdF hdN
  have ex0 : latticePt Sx D m 0 = x0 := by rw [latticePt_zero, ← hSx]; exact reprValue_roundtrip hxF hxN
  have ey0 : latticePt Sy D m 0 = y0 := by rw [latticePt_zero, ← hSy]; exact reprValue_roundtrip hyF hyN
  have hmapx : (latticeOrigins Sx Sy D m cs).map (·.1) = (cs.map (·.1)).map (latticePt Sx D m) := by
    simp [latticeOrigins, List.map_map, Function.comp_def]
  have hmapy : (latticeOrigins Sx Sy D m cs).map (·.2) = (cs.map (·.2)).map (latticePt Sy D m) := by
    simp [latticeOrigins, List.map_map, Function.comp_def]
  have hdecs : decsOf (latticeOrigins Sx Sy D m cs) dh = (numDecimals x0, numDecimals y0, numDecimals dh) := by
    unfold decsOf
    rw [hmapx, hmapy, minL_lattice Sx D m _ Ax.dpos hx0, minL_lattice Sy D m _ Ay.dpos hy0, ex0, ey0]
  unfold fromOriginsAuto
  rw [hdecs]
  set dec : ℕ × ℕ × ℕ := (numDecimals x0, numDecimals y0, numDecimals dh) with hdec
  have hxs : (fromOrigins (latticeOrigins Sx Sy D m cs) dh flags dec).xs = decimalGrid Sx D m nx := by
    rw [fromOrigins_xs, hmapx]
    have h := axis_edges_repr x0 dh Sx D m nx (cs.map (·.1)) Ax hmx hmd hSx hD
      (by intro i hi; obtain ⟨c, hc, rfl⟩ := List.mem_map.mp hi; exact (hin c hc).1) hx0 hx1
    rw [edh] at h
    exact h
  have hys : (fromOrigins (latticeOrigins Sx Sy D m cs) dh flags dec).ys = decimalGrid Sy D m ny := by
    rw [fromOrigins_ys, hmapy]
    have h := axis_edges_repr y0 dh Sy D m ny (cs.map (·.2)) Ay hmy hmd hSy hD
      (by intro i hi; obtain ⟨c, hc, rfl⟩ := List.mem_map.mp hi; exact (hin c hc).2) hy0 hy1
    rw [edh] at h
    exact h
  have hlen : (latticeOrigins Sx Sy D m cs).length = cs.length := by simp [latticeOrigins]
  refine ⟨hxs, hys, (fromOrigins_cells_length _ _ _ _).trans hlen, ?_⟩
  intro k hk
  obtain ⟨hi, hj⟩ := hin _ (List.getElem_mem hk)
  have Hx : NearLattice ((Sx : ℚ) / ((10 ^ m : ℕ) : ℚ)) ((D : ℚ) / ((10 ^ m : ℕ) : ℚ))
      (fromOrigins (latticeOrigins Sx Sy D m cs) dh flags dec).xs := hxs ▸ Ax.near
  have Hy : NearLattice ((Sy : ℚ) / ((10 ^ m : ℕ) : ℚ)) ((D : ℚ) / ((10 ^ m : ℕ) : ℚ))
      (fromOrigins (latticeOrigins Sx Sy D m cs) dh flags dec).ys := hys ▸ Ay.near
  have hi' : cs[k].1 < (fromOrigins (latticeOrigins Sx Sy D m cs) dh flags dec).xs.length := by
    rw [hxs, decimalGrid_length]; exact hi
  have hj' : cs[k].2 < (fromOrigins (latticeOrigins Sx Sy D m cs) dh flags dec).ys.length := by
    rw [hys, decimalGrid_length]; exact hj
  have hdhn : |dh - (D : ℚ) / ((10 ^ m : ℕ) : ℚ)| ≤ 1 / 2 ^ 41 := by rw [← edh]; exact Ax.dh_near
  exact fromOrigins_cell _ _ _ dh _ flags dec Hx Hy hdhn k cs[k].1 cs[k].2
    (latticePt Sx D m cs[k].1, latticePt Sy D m cs[k].2) (latticeOrigins_getElem? Sx Sy D m cs k hk) hi' hj'
    (Ax.pt_near _ hi) (Ay.pt_near _ hj)

end Region
